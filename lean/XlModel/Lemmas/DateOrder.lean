/-
Order lemmas (C19): `daysFromCivil` is strictly monotone in the lexicographic order of valid
calendar dates, hence date order ⇔ day-number order; wall clocks (date + clock reading) order the
same way as their instants.
-/
import XlModel.Lemmas.DateCount

namespace XlModel.Date

/-- 365·u + ⌊u/4⌋ − ⌊u/100⌋ + ⌊u/400⌋ is monotone -/
theorem jan1_mono (y y' : Int) (h : y ≤ y') : daysFromCivil y 1 1 ≤ daysFromCivil y' 1 1 := by
  rw [dfc_jan1, dfc_jan1]; omega

/-- a valid date lies inside its year -/
theorem in_year (y m d : Int) (hv : ValidDate y m d) :
    daysFromCivil y 1 1 ≤ daysFromCivil y m d ∧ daysFromCivil y m d < daysFromCivil (y + 1) 1 1 := by
  obtain ⟨h1, h12, hd1, hdl⟩ := hv
  have hl := monthLen_le y m d hdl
  have hs := dfc_month_start y m h1 h12
  have hyl := year_len y
  rw [dfc_day y m d]
  by_cases hleap : isLeap y = true
  · rw [if_pos hleap] at hyl
    rw [if_pos hleap] at hs
    rcases m_cases m h1 h12 with h | h | h | h | h | h | h | h | h | h | h | h <;> subst h <;>
      simp at hs hl <;> omega
  · rw [if_neg hleap] at hyl
    rw [if_neg hleap] at hs
    have h29 : m = 2 → d ≤ 28 := by
      intro hm
      have := hl.2.2 hm
      have : d ≠ 29 := fun h => hleap (this.2 h)
      omega
    rcases m_cases m h1 h12 with h | h | h | h | h | h | h | h | h | h | h | h <;> subst h <;>
      simp at hs hl h29 <;> omega

/-- within one year, an earlier month ends before a later month starts -/
theorem month_order (y m d m' : Int) (hv : ValidDate y m d) (h1' : 1 ≤ m') (h12' : m' ≤ 12) (hlt : m < m') :
    daysFromCivil y m d < daysFromCivil y m' 1 := by
  obtain ⟨h1, h12, hd1, hdl⟩ := hv
  have hl := monthLen_le y m d hdl
  have hs := dfc_month_start y m h1 h12
  have hs' := dfc_month_start y m' h1' h12'
  rw [dfc_day y m d]
  by_cases hleap : isLeap y = true
  · rw [if_pos hleap] at hs hs'
    rcases m_cases m h1 h12 with h | h | h | h | h | h | h | h | h | h | h | h <;> subst h <;>
      simp at hs hl <;>
      (rcases m_cases m' h1' h12' with h' | h' | h' | h' | h' | h' | h' | h' | h' | h' | h' | h' <;> subst h' <;>
        simp at hs' <;> omega)
  · rw [if_neg hleap] at hs hs'
    have h29 : m = 2 → d ≤ 28 := by
      intro hm
      have := hl.2.2 hm
      have : d ≠ 29 := fun h => hleap (this.2 h)
      omega
    rcases m_cases m h1 h12 with h | h | h | h | h | h | h | h | h | h | h | h <;> subst h <;>
      simp at hs hl h29 <;>
      (rcases m_cases m' h1' h12' with h' | h' | h' | h' | h' | h' | h' | h' | h' | h' | h' | h' <;> subst h' <;>
        simp at hs' <;> omega)

/-- `daysFromCivil` is strictly monotone in the lexicographic order of valid dates -/
theorem dfc_strict_mono (y m d y' m' d' : Int) (hv : ValidDate y m d) (hv' : ValidDate y' m' d')
    (hlt : DateLt (y, m, d) (y', m', d')) : daysFromCivil y m d < daysFromCivil y' m' d' := by
  unfold DateLt at hlt
  simp only [] at hlt
  rcases hlt with hy | ⟨hy, hm | ⟨hm, hd⟩⟩
  · have a := (in_year y m d hv).2
    have b := jan1_mono (y + 1) y' (by omega)
    have c := (in_year y' m' d' hv').1
    omega
  · subst hy
    have a := month_order y m d m' hv hv'.1 hv'.2.1 hm
    have b := dfc_day y m' d'
    have := hv'.2.2.1
    omega
  · subst hy; subst hm
    rw [dfc_day y m d, dfc_day y m d']; omega

/-- date order ⇔ day-number order on valid dates -/
theorem dfc_lt_iff (y m d y' m' d' : Int) (hv : ValidDate y m d) (hv' : ValidDate y' m' d') :
    DateLt (y, m, d) (y', m', d') ↔ daysFromCivil y m d < daysFromCivil y' m' d' := by
  constructor
  · exact dfc_strict_mono y m d y' m' d' hv hv'
  · intro hlt
    by_cases h : DateLt (y, m, d) (y', m', d')
    · exact h
    · exfalso
      have tri : (y = y' ∧ m = m' ∧ d = d') ∨ DateLt (y', m', d') (y, m, d) := by
        unfold DateLt at h ⊢; simp only [] at h ⊢; omega
      rcases tri with ⟨e1, e2, e3⟩ | hgt
      · subst e1 e2 e3; omega
      · have := dfc_strict_mono y' m' d' y m d hv' hv hgt
        omega

/-- a later wall clock (to the second) is a later instant, by at least one second -/
theorem instant_lt_of_wallLt (a b : Civil) (ha : ValidWall a) (hb : ValidWall b) (h : WallLt a b) :
    instantOf a + 1000000000 ≤ instantOf b := by
  obtain ⟨hva, a1, a2, a3, a4, a5, a6, a7⟩ := ha
  obtain ⟨hvb, b1, b2, b3, b4, b5, b6, b7⟩ := hb
  unfold instantOf
  have hns : nsPerSec = 1000000000 := by decide
  rw [hns, a7, b7]
  rcases h with hd | ⟨⟨e1, e2, e3⟩, hc⟩
  · have := dfc_strict_mono a.y a.m a.d b.y b.m b.d hva hvb hd
    omega
  · rw [e1, e2, e3]; omega

end XlModel.Date
