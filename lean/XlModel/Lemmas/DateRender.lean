/-
Rendering lemmas (C19 ⋈ C10): what C10's `dateTimeHandler` prints for the token lists of the
built-in formats 14, 17, 22 and of `yyyy-mm-dd hh:mm:ss`, in terms of the fields of the instant.
C10's model and lemmas are imported read-only.
-/
import XlModel.DateRender
import XlModel.Lemmas.NumFmtSerial
import XlModel.Lemmas.DateGlue

namespace XlModel.DateRender
open XlModel XlModel.Date XlModel.NumFmt

/-- two-digit year as `yy` prints it -/
def yy (y : Int) : Str := (itoaInt y).drop 2

theorem r14 (v : Str) (d : DateIn) (hn : d.t0.nano < 500000000) (hy : YearOK d.t0) :
    dateTimeHandler items14 v false d = .ok (pad2 d.t0.month ++ ['-'] ++ pad2 d.t0.day ++ ['-'] ++ yy d.t0.year) := by
  have hl : ¬ (d.t0.nano ≥ 500000000) := by omega
  have hy' : ¬ ((itoaInt d.t0.year).length < 2) := by unfold YearOK at hy; omega
  simp [dateTimeHandler, hl, hy', yy, items14, dt, lit, enum, List.range_succ, dtLoop, dateTimesHandler, inFold, amPm,
    upper, upC, isLo, tokHas, hasC, isMonthToken, timePrevious, secondsNext]

theorem r17 (v : Str) (d : DateIn) (hn : d.t0.nano < 500000000) (hy : YearOK d.t0) :
    dateTimeHandler items17 v false d = .ok ((d.loc0 []).month3 ++ ['-'] ++ yy d.t0.year) := by
  have hl : ¬ (d.t0.nano ≥ 500000000) := by omega
  have hy' : ¬ ((itoaInt d.t0.year).length < 2) := by unfold YearOK at hy; omega
  simp [dateTimeHandler, hl, hy', yy, items17, dt, lit, enum, List.range_succ, dtLoop, dateTimesHandler, inFold, amPm,
    upper, upC, isLo, tokHas, hasC, isMonthToken, timePrevious, secondsNext]

theorem r22 (v : Str) (d : DateIn) (hn : d.t0.nano < 500000000) (hy : YearOK d.t0) :
    dateTimeHandler items22 v false d = .ok (itoa d.t0.month ++ ['/'] ++ itoa d.t0.day ++ ['/'] ++ yy d.t0.year ++ [' '] ++
      pad2 d.t0.hour ++ [':'] ++ pad2 d.t0.minute) := by
  have hl : ¬ (d.t0.nano ≥ 500000000) := by omega
  have hy' : ¬ ((itoaInt d.t0.year).length < 2) := by unfold YearOK at hy; omega
  simp [dateTimeHandler, hl, hy', yy, items22, dt, lit, enum, List.range_succ, dtLoop, dateTimesHandler, inFold, amPm,
    upper, upC, isLo, tokHas, hasC, isMonthToken, timePrevious, secondsNext, apNext, apNextAux]

theorem rIso (v : Str) (d : DateIn) (hn : d.t0.nano < 500000000) :
    dateTimeHandler itemsIso v false d = .ok (itoaInt d.t0.year ++ ['-'] ++ pad2 d.t0.month ++ ['-'] ++ pad2 d.t0.day ++ [' '] ++
      pad2 d.t0.hour ++ [':'] ++ pad2 d.t0.minute ++ [':'] ++ pad2 d.t0.second) := by
  have hl : ¬ (d.t0.nano ≥ 500000000) := by omega
  simp [dateTimeHandler, hl, itemsIso, dt, lit, enum, List.range_succ, dtLoop, dateTimesHandler, inFold, amPm,
    upper, upC, isLo, tokHas, hasC, isMonthToken, timePrevious, secondsNext, apNext, apNextAux]

end XlModel.DateRender
