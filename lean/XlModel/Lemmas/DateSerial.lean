/-
Lemmas about the exact-arithmetic transcription of `timeToExcelTime` (C19):
the 290×364-day chunk loop with saturating `Time.Sub` computes the plain difference.
-/
import XlModel.Lemmas.Date

namespace XlModel.Date.Impl
open XlModel XlModel.Date Facts.C19

/-- the regenerated duration constants the arithmetic below relies on -/
theorem durations_ok :
    dayNanoseconds = 86400000000000 ∧ maxDuration = 9120384000000000000 ∧
    maxDuration.tdiv dayNanoseconds = 105560 := by decide

theorem satSub_ge (tt date : Int) (h : 0 ≤ tt - date) :
    (satSub tt date ≥ 9120384000000000000 ↔ tt - date ≥ 9120384000000000000) ∧
    (satSub tt date < 9120384000000000000 → satSub tt date = tt - date) := by
  unfold satSub maxDur minDur
  simp only []
  split
  · omega
  · split <;> omega

/-- the loop of `timeToExcelTime` exits by its own test and has then subtracted whole chunks only -/
theorem chunk_loop_exits (date : Int) : ∀ (fuel : Nat) (tt result : Int), 0 ≤ tt - date →
    (tt - date) / 9120384000000000000 < fuel →
    (chunkLoop date fuel tt (satSub tt date) result).2 * 86400000000000 + (chunkLoop date fuel tt (satSub tt date) result).1
      = result * 86400000000000 + (tt - date) ∧
    0 ≤ (chunkLoop date fuel tt (satSub tt date) result).1 ∧
    (chunkLoop date fuel tt (satSub tt date) result).1 < 9120384000000000000 := by
  intro fuel
  induction fuel with
  | zero => intro tt result h0 h1; omega
  | succ n ih =>
    intro tt result h0 h1
    obtain ⟨hs1, hs2⟩ := satSub_ge tt date h0
    unfold chunkLoop
    have hmd : maxDuration = 9120384000000000000 := durations_ok.2.1
    have hq : maxDuration.tdiv dayNanoseconds = 105560 := durations_ok.2.2
    rw [hmd] at *
    by_cases hc : satSub tt date ≥ 9120384000000000000
    · rw [if_pos hc]
      simp only []
      have hge := hs1.1 hc
      have h0' : 0 ≤ tt + -9120384000000000000 - date := by omega
      have h1' : (tt + -9120384000000000000 - date) / 9120384000000000000 < n := by omega
      obtain ⟨i1, i2, i3⟩ := ih (tt + -9120384000000000000) (result + 105560) h0' h1'
      rw [hq]
      refine ⟨?_, i2, i3⟩
      rw [i1]; omega
    · rw [if_neg hc]
      simp only []
      have := hs2 (by omega)
      omega

/-- the regenerated epochs, as instants (ns since 1970-01-01) -/
theorem epochs_ok :
    epoch1900 = -2209161600000000000 ∧ epoch1904 = -2082844800000000000 ∧
    minTime1900 = -2209075200000000000 ∧ buggyStart = -2203891200000000001 := by decide

theorem timeToExcelTimeNs_core (t date : Int) (h : ¬ t < date) :
    (chunkLoop date (((t - date) / maxDuration).toNat + 1) t (satSub t date) 0).2 * dayNanoseconds +
      ((chunkLoop date (((t - date) / maxDuration).toNat + 1) t (satSub t date) 0).1 -
        (chunkLoop date (((t - date) / maxDuration).toNat + 1) t (satSub t date) 0).1.tmod dayNanoseconds) +
      (chunkLoop date (((t - date) / maxDuration).toNat + 1) t (satSub t date) 0).1.tmod dayNanoseconds
    = t - date := by
  have h0 : 0 ≤ t - date := by omega
  have hmd : maxDuration = 9120384000000000000 := durations_ok.2.1
  have hdn : dayNanoseconds = 86400000000000 := durations_ok.1
  rw [hmd, hdn]
  have hf : (t - date) / 9120384000000000000 < (((t - date) / 9120384000000000000).toNat + 1 : Nat) := by omega
  obtain ⟨i1, _, _⟩ := chunk_loop_exits date _ t 0 h0 hf
  generalize chunkLoop date _ t (satSub t date) 0 = p at *
  obtain ⟨diff, result⟩ := p
  simp only [] at i1 ⊢
  rw [Int.add_assoc, Int.sub_add_cancel, i1]
  omega

/-- closed form of the exact serial (scaled by `dayNanoseconds`) -/
theorem timeToExcelTimeNs_eq (t : Int) (date1904 : Bool) :
    timeToExcelTimeNs t date1904 =
      if date1904 then (if t < epoch1904 then 0 else t - epoch1904)
      else (if t < minTime1900 then 0
            else if t > buggyStart then t - minTime1900 + 86400000000000 else t - minTime1900) := by
  have hdn : dayNanoseconds = 86400000000000 := durations_ok.1
  unfold timeToExcelTimeNs
  cases date1904
  · simp only [Bool.false_eq_true, if_false, Bool.not_false, Bool.true_and, decide_eq_true_eq]
    by_cases h : t < minTime1900
    · rw [if_pos h, if_pos h]
    · rw [if_neg h, if_neg h]
      rw [timeToExcelTimeNs_core t minTime1900 h, hdn]
  · simp only [if_true, Bool.not_true, Bool.false_and, Bool.false_eq_true, if_false]
    by_cases h : t < epoch1904
    · rw [if_pos h, if_pos h]
    · rw [if_neg h, if_neg h]
      rw [timeToExcelTimeNs_core t epoch1904 h]

end XlModel.Date.Impl
