/-
Helper lemmas for the C14 theorems about `XlModel.Decode`.
-/
import XlModel.Decode
namespace XlModel.Decode
open XlModel

theorem formattedValue_val {val w : GVOut} {s : Int} {nXf : Option Nat} {raw : Bool}
    (h : formattedValue val s nXf raw = .ok w) : w = val := by
  unfold formattedValue at h
  split at h
  · cases h; rfl
  · cases nXf with
    | none => simp only at h; cases h; rfl
    | some n =>
      simp only at h
      split at h
      · cases h; rfl
      · split at h
        · cases h; rfl
        · cases h

/-! ## standard-encryption streams -/


theorem no_panic_encryptionMechanism (i : SDIn) : (encryptionMechanism i).isPanic = false := by
  unfold encryptionMechanism
  split
  · rfl
  · rename_i h
    split
    · rename_i h2
      exfalso; apply h2
      simp [sliceOK]; omega
    · split
      · rfl
      · split <;> rfl

theorem no_panic_sdPackage (n z : Nat) (h : 8 ≤ n) : (sdPackage n z).isPanic = false := by
  unfold sdPackage
  split
  · rename_i h2; exfalso; apply h2; simp [sliceOK]; omega
  · split
    · rfl
    · split
      · rename_i h2; exfalso; apply h2; simp [sliceOK]; omega
      · split
        · split
          · rename_i h2; exfalso; apply h2; simp [sliceOK]; omega
          · rfl
        · rfl

theorem no_panic_sdKey (k n z : Nat) (h : 8 ≤ n) : (sdKey k n z).isPanic = false := by
  unfold sdKey
  split
  · rfl
  · split
    · rename_i h1 h2; exfalso; apply h2; unfold x3Len at h1; simp [sliceOK, x3Len]; exact decide_eq_true (by omega)
    · split
      · rfl
      · exact no_panic_sdPackage n z h

theorem no_panic_sdVerifier (v a k n z : Nat) (h : 8 ≤ n) : (sdVerifier v a k n z).isPanic = false := by
  unfold sdVerifier
  split
  · rfl
  · split
    · rename_i h1 h2; exfalso; apply h2
      have : 60 ≤ verifierSize a := by unfold verifierSize; split <;> omega
      simp [sliceOK]; omega
    · exact no_panic_sdKey k n z h

theorem no_panic_standardDecrypt (i : SDIn) : (standardDecrypt i).isPanic = false := by
  unfold standardDecrypt
  split
  · rfl
  rename_i h1
  split
  · rename_i h; exfalso; apply h; simp [sliceOK]; omega
  split
  · rfl
  rename_i h3
  split
  · rename_i h; exfalso; apply h; simp [sliceOK]; omega
  split
  · rename_i h; exfalso; apply h; simp [sliceOK]; omega
  split
  · rename_i h; exfalso; apply h; simp [sliceOK]; omega
  exact no_panic_sdVerifier _ _ _ _ _ (by omega)

theorem standardDecrypt_len (i : SDIn) (n : Nat) (h : standardDecrypt i = .ok n) :
    n + 8 ≤ i.pkgLen ∧ n ≤ i.pkgSize ∨ n + 8 = i.pkgLen := by
  unfold standardDecrypt at h
  split at h
  · cases h
  rename_i h1
  split at h
  · cases h
  split at h
  · cases h
  split at h
  · cases h
  split at h
  · cases h
  split at h
  · cases h
  unfold sdVerifier at h
  split at h
  · cases h
  split at h
  · cases h
  unfold sdKey at h
  split at h
  · cases h
  split at h
  · cases h
  split at h
  · cases h
  unfold sdPackage at h
  split at h
  · cases h
  split at h
  · cases h
  split at h
  · cases h
  split at h
  · split at h
    · cases h
    · cases h; left; omega
  · cases h; right; omega

/-! ## worksheet rows -/


/-- a cell whose reference, when it parses, lies inside the grid (the contract of
`CellNameToCoordinates`, property C20) -/
def WFCell (c : Cell) : Prop :=
  ∀ col row, c.r.coords = some (col, row) →
    1 ≤ col ∧ col ≤ (Facts.MaxColumns : Int) ∧ 1 ≤ row ∧ row ≤ (Facts.TotalRows : Int)

def WFRow (r : Row) : Prop := ∀ c ∈ r.cells, WFCell c

/-! ### lastRowNum -/

def lrnStep (num : Int) (c : Cell) : Int :=
  match c.r.coords with
  | some (_, row) => if row > num then row else num
  | none => num

theorem lastRowNum_eq (cells : List Cell) : lastRowNum cells = cells.foldl lrnStep 0 := rfl

theorem foldl_lrn_ge (cells : List Cell) (a : Int) : a ≤ cells.foldl lrnStep a := by
  induction cells generalizing a with
  | nil => simp
  | cons c cs ih =>
    simp only [List.foldl_cons]
    have : a ≤ lrnStep a c := by
      unfold lrnStep; split
      · split <;> omega
      · omega
    exact Int.le_trans this (ih _)

theorem foldl_lrn_mem (cells : List Cell) (a : Int) (c : Cell) (hc : c ∈ cells) (col row : Int)
    (h : c.r.coords = some (col, row)) : row ≤ cells.foldl lrnStep a := by
  induction cells generalizing a with
  | nil => cases hc
  | cons d ds ih =>
    simp only [List.foldl_cons]
    cases hc with
    | head =>
      have : row ≤ lrnStep a c := by
        unfold lrnStep; rw [h]; simp only; split <;> omega
      exact Int.le_trans this (foldl_lrn_ge _ _)
    | tail _ hm => exact ih _ hm

theorem foldl_lrn_le (cells : List Cell) (a b : Int) (ha : a ≤ b)
    (h : ∀ c ∈ cells, ∀ col row, c.r.coords = some (col, row) → row ≤ b) : cells.foldl lrnStep a ≤ b := by
  induction cells generalizing a with
  | nil => simpa
  | cons d ds ih =>
    simp only [List.foldl_cons]
    apply ih
    · unfold lrnStep
      split
      · rename_i c r hc
        have := h d (List.mem_cons_self) c r hc
        split <;> omega
      · exact ha
    · intro c hc; exact h c (List.mem_cons_of_mem _ hc)

/-! ### place / r0Pass keep the number of row slots and never index out of range -/

theorem idx?_some {α : Type} (xs : List α) (i : Int) (h0 : 0 ≤ i) (h1 : i < (xs.length : Int)) :
    idx? xs i = some i.toNat := by
  unfold idx?; simp [h0, h1]

theorem padTo_length (cells : List Cell) (n : Nat) : n ≤ (padTo cells n).length ∧ cells.length ≤ (padTo cells n).length := by
  unfold padTo; simp only [List.length_append, List.length_replicate]; omega

theorem place_ok (g : Grid) (col row : Int) (r0 : Bool) (cell : Cell)
    (hr : 1 ≤ row ∧ row ≤ (g.length : Int)) (hc : 1 ≤ col) :
    ∃ g', place g col row r0 cell = .ok g' ∧ g'.length = g.length := by
  unfold place
  rw [idx?_some g (row - 1) (by omega) (by omega)]
  simp only
  have hp := padTo_length (g.getD (row - 1).toNat emptyRow).cells col.toNat
  rw [idx?_some _ (col - 1) (by omega) (by omega)]
  simp only
  exact ⟨_, rfl, by simp⟩

theorem r0Pass_ok (rowR : Int) (r0 : Bool) (cells : List Cell) :
    ∀ (g : Grid) (i : Nat) (prev : Int), (r0 = true → 0 ≤ prev) → (1 ≤ rowR ∧ rowR ≤ (g.length : Int)) →
      (r0 = true → ∀ c ∈ cells, ∀ col row, c.r.coords = some (col, row) → 1 ≤ col ∧ 1 ≤ row ∧ row ≤ (g.length : Int)) →
      ∃ g', r0Pass g rowR r0 cells i prev = .ok g' ∧ g'.length = g.length := by
  induction cells with
  | nil => intro g i prev _ _ _; exact ⟨g, rfl, rfl⟩
  | cons c cs ih =>
    intro g i prev hp hr hw
    have hcs : ∀ g' : Grid, g'.length = g.length → r0 = true →
        ∀ c ∈ cs, ∀ col row, c.r.coords = some (col, row) → 1 ≤ col ∧ 1 ≤ row ∧ row ≤ (g'.length : Int) := by
      intro g' hl hr0 c hc col row h; rw [hl]; exact hw hr0 c (List.mem_cons_of_mem _ hc) col row h
    unfold r0Pass
    split
    · have hcol : 1 ≤ (if r0 then prev + 1 else (i : Int) + 1) := by
        split
        · rename_i h; have := hp h; omega
        · omega
      obtain ⟨g1, h1, l1⟩ := place_ok g (if r0 then prev + 1 else (i : Int) + 1) rowR r0 c hr hcol
      rw [h1]; simp only [Outcome.bind]
      obtain ⟨g2, h2, l2⟩ := ih g1 (i + 1) (if r0 then prev + 1 else (i : Int) + 1) (fun _ => by omega) (by rw [l1]; exact hr) (hcs g1 l1)
      exact ⟨g2, h2, by rw [l2, l1]⟩
    · split
      · rename_i col row hco
        split
        · rename_i hr0
          have hb := hw hr0 c List.mem_cons_self col row hco
          obtain ⟨g1, h1, l1⟩ := place_ok g col row r0 c ⟨hb.2.1, hb.2.2⟩ hb.1
          rw [h1]; simp only [Outcome.bind]
          obtain ⟨g2, h2, l2⟩ := ih g1 (i + 1) col (fun _ => by omega) (by rw [l1]; exact hr) (hcs g1 l1)
          exact ⟨g2, h2, by rw [l2, l1]⟩
        · rename_i hr0
          exact ih g (i + 1) col (fun h => absurd h hr0) hr (hcs g rfl)
      · exact ih g (i + 1) prev hp hr (hcs g rfl)

/-! ### the loops of checkSheet -/

structure ScanInv (P : Cell → Prop) (row : Int) (r0 kept : List Row) : Prop where
  nonneg : 0 ≤ row
  cells_ok : ∀ r ∈ r0, ∀ c ∈ r.cells, P c
  kept_ok : ∀ r ∈ kept, 1 ≤ r.r ∧ r.r ≤ row
  r0_ok : ∀ r ∈ r0, 1 ≤ r.r ∧ r.r ≤ row ∧
    ∀ c ∈ r.cells, ∀ col rw, c.r.coords = some (col, rw) → rw ≤ row

theorem ScanInv.mono {P : Cell → Prop} {row row' : Int} {r0 kept : List Row} (h : ScanInv P row r0 kept) (hle : row ≤ row') :
    ScanInv P row' r0 kept :=
  ⟨by have := h.nonneg; omega, h.cells_ok,
   fun r hr => by have := h.kept_ok r hr; omega,
   fun r hr => by
    have := h.r0_ok r hr
    exact ⟨this.1, by omega, fun c hc col rw hco => by have := this.2.2 c hc col rw hco; omega⟩⟩

theorem scan_inv (P : Cell → Prop) (rows : List Row) : ∀ (row : Int) (r0 kept : List Row), ScanInv P row r0 kept →
    (∀ r ∈ rows, 0 ≤ r.r) → (∀ r ∈ rows, ∀ c ∈ r.cells, P c) →
    ScanInv P (scan rows row r0 kept).1 (scan rows row r0 kept).2.1 (scan rows row r0 kept).2.2 := by
  induction rows with
  | nil =>
    intro row r0 kept h _ _
    unfold scan
    exact ⟨h.nonneg, fun r hr => h.cells_ok r (by simpa using hr), fun r hr => h.kept_ok r (by simpa using hr), fun r hr => h.r0_ok r (by simpa using hr)⟩
  | cons r rest ih =>
    intro row r0 kept h hg hP
    have hPrest : ∀ r ∈ rest, ∀ c ∈ r.cells, P c := fun x hx => hP x (List.mem_cons_of_mem _ hx)
    have hPr : ∀ c ∈ r.cells, P c := hP r List.mem_cons_self
    have hrest : ∀ r ∈ rest, 0 ≤ r.r := fun x hx => hg x (List.mem_cons_of_mem _ hx)
    have hr0 : 0 ≤ r.r := hg r List.mem_cons_self
    unfold scan
    split
    · -- treated as an r="0" row
      simp only
      apply ih _ _ _ _ hrest hPrest
      have hnum : 0 ≤ lastRowNum r.cells := foldl_lrn_ge r.cells 0
      have hrow := h.nonneg
      generalize hn : lastRowNum r.cells = num at *
      have hmem : ∀ c ∈ r.cells, ∀ col rw, c.r.coords = some (col, rw) → rw ≤ num := by
        intro c hc col rw hco; rw [← hn]; exact foldl_lrn_mem r.cells 0 c hc col rw hco
      have hle : row ≤ (if num = 0 then (if num > row then num else row) + 1 else (if num > row then num else row)) := by
        split <;> split <;> omega
      have hm := h.mono hle
      refine ⟨hm.nonneg, ?_, hm.kept_ok, ?_⟩
      · intro x hx
        cases hx with
        | head => exact hPr
        | tail _ hx' => exact hm.cells_ok x hx'
      intro x hx
      cases hx with
      | head =>
        refine ⟨?_, Int.le_refl _, ?_⟩
        · simp only; split <;> split <;> omega
        · intro c hc col rw hco
          have := hmem c hc col rw hco
          split <;> split <;> omega
      | tail _ hx' => exact hm.r0_ok x hx'
    · -- kept
      rename_i hcond
      simp only
      apply ih _ _ _ _ hrest hPrest
      have hrow := h.nonneg
      have hle : row ≤ (if r.r ≠ 0 ∧ r.r > row then r.r else row) := by split <;> omega
      have hm := h.mono hle
      refine ⟨hm.nonneg, hm.cells_ok, ?_, hm.r0_ok⟩
      intro x hx
      cases hx with
      | head => constructor <;> (try split) <;> omega
      | tail _ hx' => exact hm.kept_ok x hx'

theorem placeRows_ok (kept : List Row) : ∀ (g : Grid) (last : Int),
    (∀ r ∈ kept, 1 ≤ r.r ∧ r.r ≤ (g.length : Int)) → (0 ≤ last ∧ last ≤ (g.length : Int)) →
    ∃ g' last', placeRows g last kept = .ok (g', last') ∧ g'.length = g.length ∧
      0 ≤ last' ∧ last' ≤ (g.length : Int) := by
  induction kept with
  | nil => intro g last _ hl; exact ⟨g, last, rfl, rfl, hl.1, hl.2⟩
  | cons r rest ih =>
    intro g last hk hl
    have hr := hk r List.mem_cons_self
    unfold placeRows
    split
    · rw [idx?_some g (r.r - 1) (by omega) (by omega)]
      simp only
      obtain ⟨g', last', h1, h2, h3, h4⟩ := ih (g.set (r.r - 1).toNat r) r.r
        (by intro x hx; simpa using hk x (List.mem_cons_of_mem _ hx)) (by simp; omega)
      exact ⟨g', last', h1, by simpa using h2, h3, by simpa using h4⟩
    · exact ih g last (fun x hx => hk x (List.mem_cons_of_mem _ hx)) hl

theorem r0Rows_ok (r0 : List Row) : ∀ (g : Grid),
    (∀ r ∈ r0, 1 ≤ r.r ∧ r.r ≤ (g.length : Int) ∧
      ∀ c ∈ r.cells, ∀ col rw, c.r.coords = some (col, rw) → 1 ≤ col ∧ 1 ≤ rw ∧ rw ≤ (g.length : Int)) →
    ∃ g', r0Rows g r0 = .ok g' ∧ g'.length = g.length := by
  induction r0 with
  | nil => intro g _; exact ⟨g, rfl, rfl⟩
  | cons r rest ih =>
    intro g h
    have hr := h r List.mem_cons_self
    unfold r0Rows
    rw [idx?_some g (r.r - 1) (by omega) (by omega)]
    simp only
    obtain ⟨g2, h2, l2⟩ := r0Pass_ok r.r true r.cells
      (g.set (r.r - 1).toNat { (g.getD (r.r - 1).toNat emptyRow) with r := r.r }) 0 0 (fun _ => Int.le_refl _)
      (by simp; omega) (by intro _; simpa using hr.2.2)
    rw [h2]; simp only [Outcome.bind]
    obtain ⟨g3, h3, l3⟩ := ih g2 (by
      intro x hx
      have := h x (List.mem_cons_of_mem _ hx)
      rw [l2]; simpa using this)
    exact ⟨g3, h3, by rw [l3, l2]; simp⟩

theorem fillRows_ok : ∀ (k : Nat) (g : Grid) (i : Nat), 1 ≤ i → i + k ≤ g.length + 1 →
    ∃ g', fillRows g i k = .ok g' ∧ g'.length = g.length := by
  intro k
  induction k with
  | zero => intro g i _ _; exact ⟨g, rfl, rfl⟩
  | succ k ih =>
    intro g i hi hk
    unfold fillRows
    rw [idx?_some g ((i : Int) - 1) (by omega) (by omega)]
    simp only
    obtain ⟨g2, h2, l2⟩ := r0Pass_ok (i : Int) false
      ({ (g.getD ((i : Int) - 1).toNat emptyRow) with r := (i : Int) } : Row).cells
      (g.set ((i : Int) - 1).toNat { (g.getD ((i : Int) - 1).toNat emptyRow) with r := (i : Int) }) 0 0 (fun _ => Int.le_refl _)
      (by simp; omega) (by intro h; cases h)
    rw [h2]; simp only [Outcome.bind]
    obtain ⟨g3, h3, l3⟩ := ih g2 (i + 1) (by omega) (by rw [l2]; simp; omega)
    exact ⟨g3, h3, by rw [l3, l2]; simp⟩

/-- `checkSheet` on rows whose parsed references have column ≥ 1 and row ≥ 1 ends in `ok` or
`err`; when `ok`, the grid has exactly `rowSlots` slots -/
theorem checkSheet_ok (rows : List Row)
    (hw : ∀ r ∈ rows, ∀ c ∈ r.cells, ∀ col rw, c.r.coords = some (col, rw) → 1 ≤ col ∧ 1 ≤ rw) :
    checkSheet rows = .err ∨ ∃ g, checkSheet rows = .ok g ∧ (g.length : Int) = rowSlots rows := by
  unfold checkSheet
  split
  · exact Or.inl rfl
  rename_i hneg
  split
  · exact Or.inl rfl
  right
  have hg : ∀ r ∈ rows, 0 ≤ r.r := by
    intro r hr
    have : ¬ (decide (r.r < 0) = true) := fun hd => hneg (List.any_eq_true.mpr ⟨r, hr, hd⟩)
    simpa using this
  have inv := scan_inv (fun c => ∀ col rw, c.r.coords = some (col, rw) → 1 ≤ col ∧ 1 ≤ rw) rows 0 [] []
    (ScanInv.mk (Int.le_refl _) (fun _ h => absurd h List.not_mem_nil) (fun _ h => absurd h List.not_mem_nil)
      (fun _ h => absurd h List.not_mem_nil)) hg hw
  unfold rowSlots
  generalize scan rows 0 [] [] = res at inv ⊢
  obtain ⟨row, r0, kept⟩ := res
  simp only at inv ⊢
  have hrow := inv.nonneg
  rw [if_neg (by omega)]
  have hlen : ((List.replicate row.toNat emptyRow).length : Int) = row := by simp; omega
  obtain ⟨g1, last, h1, l1, hl0, hl1⟩ := placeRows_ok kept (List.replicate row.toNat emptyRow) 0
    (by intro r hr; rw [hlen]; exact inv.kept_ok r hr) (by rw [hlen]; omega)
  rw [h1]; simp only [Outcome.bind]
  obtain ⟨g2, h2, l2⟩ := r0Rows_ok r0 g1 (by
    intro r hr
    have a := inv.r0_ok r hr
    have b := inv.cells_ok r hr
    rw [l1, hlen]
    refine ⟨a.1, a.2.1, ?_⟩
    intro c hc col rw hco
    have := b c hc col rw hco
    exact ⟨this.1, this.2, a.2.2 c hc col rw hco⟩)
  rw [h2]; simp only [Outcome.bind]
  obtain ⟨g3, h3, l3⟩ := fillRows_ok last.toNat g2 1 (by omega) (by
    rw [l2, l1]; rw [hlen] at hl1; simp only [List.length_replicate]; omega)
  exact ⟨g3, h3, by rw [l3, l2, l1, hlen]⟩


/-! ## checkRow, allocation bound -/


/-- the part of `CellNameToCoordinates`' contract `checkRow` relies on: column ≥ 1 -/
def ColOK (c : Cell) : Prop := ∀ col rw, c.r.coords = some (col, rw) → 1 ≤ col

theorem mkName_colOK (col row : Int) (c r : Int) (h : (mkName col row).coords = some (c, r)) : 1 ≤ c := by
  unfold mkName at h
  split at h
  · rename_i hv
    simp only [R.coords, Option.some.injEq, Prod.mk.injEq] at h
    simp only [validCoord, Bool.and_eq_true, decide_eq_true_eq] at hv
    omega
  · split at h <;> simp [R.coords] at h

theorem fillRefs_ok (rowNum : Int) (cells : List Cell) : ∀ (rc : Int) (out : List Cell),
    fillRefs rowNum cells rc = some out → (∀ c ∈ cells, ColOK c) →
    out.length = cells.length ∧ ∀ c ∈ out, ColOK c := by
  induction cells with
  | nil => intro rc out h _; simp [fillRefs] at h; subst h; simp
  | cons d ds ih =>
    intro rc out h hw
    have hds : ∀ c ∈ ds, ColOK c := fun c hc => hw c (List.mem_cons_of_mem _ hc)
    unfold fillRefs at h
    simp only at h
    split at h
    · cases ht : fillRefs rowNum ds (rc + 1) with
      | none => simp [ht] at h
      | some t =>
        simp only [ht, Option.map_some, Option.some.injEq] at h
        subst h
        obtain ⟨l, w⟩ := ih _ _ ht hds
        refine ⟨by simp [l], ?_⟩
        intro c hc
        cases hc with
        | head => intro col rw hco; exact mkName_colOK _ _ _ _ hco
        | tail _ hm => exact w c hm
    · split at h
      · cases h
      · rename_i lastR _ hco
        cases ht : fillRefs rowNum ds (if lastR > rc + 1 then lastR else rc + 1) with
        | none => simp [ht] at h
        | some t =>
          simp only [ht, Option.map_some, Option.some.injEq] at h
          subst h
          obtain ⟨l, w⟩ := ih _ _ ht hds
          refine ⟨by simp [l], ?_⟩
          intro c hc
          cases hc with
          | head => exact hw d List.mem_cons_self
          | tail _ hm => exact w c hm

theorem maxCol_ge (cells : List Cell) : ∀ (m mc : Int), maxCol cells m = some mc →
    m ≤ mc ∧ ∀ c ∈ cells, ∀ col rw, c.r.coords = some (col, rw) → col ≤ mc := by
  induction cells with
  | nil => intro m mc h; simp [maxCol] at h; subst h; simp
  | cons d ds ih =>
    intro m mc h
    unfold maxCol at h
    split at h
    · cases h
    · rename_i col rw hco
      obtain ⟨a, b⟩ := ih _ _ h
      refine ⟨by split at a <;> omega, ?_⟩
      intro c hc col' rw' hco'
      cases hc with
      | head =>
        rw [hco] at hco'
        simp only [Option.some.injEq, Prod.mk.injEq] at hco'
        split at a <;> omega
      | tail _ hm => exact b c hm col' rw' hco'

theorem targetFrom_length (rowNum : Int) : ∀ (n k : Nat) (t : List Cell),
    targetFrom rowNum k n = some t → t.length = n := by
  intro n
  induction n with
  | zero => intro k t h; simp [targetFrom] at h; subst h; rfl
  | succ n ih =>
    intro k t h
    unfold targetFrom at h
    split at h
    · cases ht : targetFrom rowNum (k + 1) n with
      | none => simp [ht] at h
      | some t' =>
        simp only [ht, Option.map_some, Option.some.injEq] at h
        subst h
        simp [ih _ _ ht]
    · cases h

theorem scatter_no_panic (src : List Cell) : ∀ (tgt : List Cell),
    (∀ c ∈ src, ∀ col rw, c.r.coords = some (col, rw) → 1 ≤ col ∧ col ≤ (tgt.length : Int)) →
    (scatter tgt src).isPanic = false := by
  induction src with
  | nil => intro tgt _; rfl
  | cons d ds ih =>
    intro tgt h
    unfold scatter
    split
    · rfl
    · rename_i col rw hco
      have hb := h d List.mem_cons_self col rw hco
      rw [idx?_some tgt (col - 1) (by omega) (by omega)]
      simp only
      apply ih
      intro c hc col' rw' hco'
      have := h c (List.mem_cons_of_mem _ hc) col' rw' hco'
      simpa using this

theorem bind_no_panic {α β : Type} (o : Outcome α) (f : α → Outcome β)
    (ho : o.isPanic = false) (hf : ∀ a, o = .ok a → (f a).isPanic = false) : (o.bind f).isPanic = false := by
  cases o with
  | ok a => exact hf a rfl
  | err => rfl
  | panic => cases ho

theorem checkRowOne_no_panic (rowNum : Int) (rw : Row) (hw : ∀ c ∈ rw.cells, ColOK c) :
    (checkRowOne rowNum rw).isPanic = false := by
  unfold checkRowOne
  split
  · rfl
  rename_i hne
  split
  · rfl
  rename_i cells hf
  obtain ⟨hl, hc⟩ := fillRefs_ok rowNum rw.cells 0 cells hf hw
  split
  · rename_i hlast
    exfalso
    have : cells = [] := List.getLast?_eq_none_iff.mp hlast
    subst this
    simp at hl
    have : rw.cells = [] := List.eq_nil_of_length_eq_zero hl.symm
    simp [this] at hne
  split
  · rfl
  rename_i lastCol _ _
  split
  · split
    · rfl
    rename_i mc hmc
    obtain ⟨hm1, hm2⟩ := maxCol_ge cells lastCol mc hmc
    split
    · rfl
    rename_i tgt htg
    have htl := targetFrom_length rowNum mc.toNat 0 tgt htg
    apply bind_no_panic
    · apply scatter_no_panic
      intro c hcm col rw' hco
      have h1 := hc c hcm col rw' hco
      have h2 := hm2 c hcm col rw' hco
      rw [htl]
      omega
    · intro a _; rfl
  · rfl

theorem checkRows_no_panic (g : List Row) : ∀ (n : Int), (∀ r ∈ g, ∀ c ∈ r.cells, ColOK c) →
    (checkRows g n).isPanic = false := by
  induction g with
  | nil => intro n _; rfl
  | cons r rest ih =>
    intro n h
    unfold checkRows
    apply bind_no_panic
    · exact checkRowOne_no_panic n r (h r List.mem_cons_self)
    · intro a _
      apply bind_no_panic
      · exact ih (n + 1) (fun x hx => h x (List.mem_cons_of_mem _ hx))
      · intro b _; rfl

/-! ### allocation bound -/

theorem scan_bound (T : Int) (hT : 0 ≤ T) (rows : List Row) : ∀ (row : Int) (r0 kept : List Row),
    (∀ r ∈ rows, r.r ≤ T) → (∀ r ∈ rows, ∀ c ∈ r.cells, ∀ col rw, c.r.coords = some (col, rw) → rw ≤ T) →
    row ≤ T + (r0.length : Int) →
    (scan rows row r0 kept).1 ≤ T + (r0.length : Int) + (rows.length : Int) := by
  induction rows with
  | nil => intro row r0 kept _ _ h; unfold scan; simpa using h
  | cons r rest ih =>
    intro row r0 kept hr hc h
    have hr' : ∀ x ∈ rest, x.r ≤ T := fun x hx => hr x (List.mem_cons_of_mem _ hx)
    have hc' : ∀ x ∈ rest, ∀ c ∈ x.cells, ∀ col rw, c.r.coords = some (col, rw) → rw ≤ T :=
      fun x hx => hc x (List.mem_cons_of_mem _ hx)
    unfold scan
    split
    · simp only
      have hnum : lastRowNum r.cells ≤ T := foldl_lrn_le r.cells 0 T hT (hc r List.mem_cons_self)
      generalize lastRowNum r.cells = num at *
      have := ih (if num = 0 then (if num > row then num else row) + 1 else (if num > row then num else row))
        ({ r with r := (if num = 0 then (if num > row then num else row) + 1 else (if num > row then num else row)) } :: r0)
        kept hr' hc' (by simp only [List.length_cons]; split <;> split <;> omega)
      simp only [List.length_cons] at this ⊢
      omega
    · simp only
      have hrr := hr r List.mem_cons_self
      have := ih (if r.r ≠ 0 ∧ r.r > row then r.r else row) r0 (r :: kept) hr' hc' (by split <;> omega)
      simp only [List.length_cons] at this ⊢
      omega


/-! ## checkSheet only moves cells -/


/-- every cell of the grid satisfies `P` -/
def CellsP (P : Cell → Prop) (g : Grid) : Prop := ∀ r ∈ g, ∀ c ∈ r.cells, P c

theorem getD_cells_P {P : Cell → Prop} {g : Grid} (h : CellsP P g) (i : Nat) :
    ∀ c ∈ (g.getD i emptyRow).cells, P c := by
  intro c hc
  by_cases hi : i < g.length
  · have : g.getD i emptyRow = g[i] := by simp [List.getD, hi]
    rw [this] at hc
    exact h _ (List.getElem_mem hi) c hc
  · have : g.getD i emptyRow = emptyRow := by simp [List.getD, hi]
    rw [this] at hc
    simp [emptyRow] at hc

theorem padTo_P {P : Cell → Prop} (he : P emptyCell) {cells : List Cell} (h : ∀ c ∈ cells, P c) (n : Nat) :
    ∀ c ∈ padTo cells n, P c := by
  intro c hc
  unfold padTo at hc
  rcases List.mem_append.mp hc with h1 | h2
  · exact h c h1
  · have := (List.mem_replicate.mp h2).2
    rw [this]; exact he

theorem set_P {α : Type} {P : α → Prop} {l : List α} (h : ∀ c ∈ l, P c) (i : Nat) {x : α} (hx : P x) :
    ∀ c ∈ l.set i x, P c := by
  intro c hc
  rcases List.mem_or_eq_of_mem_set hc with h1 | h2
  · exact h c h1
  · rw [h2]; exact hx

theorem gridset_P {P : Cell → Prop} {g : Grid} (h : CellsP P g) (i : Nat) {rw : Row} (hr : ∀ c ∈ rw.cells, P c) :
    CellsP P (g.set i rw) := by
  intro r hr' c hc
  rcases List.mem_or_eq_of_mem_set hr' with h1 | h2
  · exact h r h1 c hc
  · rw [h2] at hc; exact hr c hc

theorem place_P {P : Cell → Prop} (he : P emptyCell) {g g' : Grid} {col row : Int} {r0 : Bool} {cell : Cell}
    (hp : place g col row r0 cell = .ok g') (hg : CellsP P g) (hc : P cell) : CellsP P g' := by
  unfold place at hp
  split at hp
  · cases hp
  · rename_i ri _
    simp only at hp
    split at hp
    · cases hp
    · rename_i ci _
      simp only [Outcome.ok.injEq] at hp
      subst hp
      apply gridset_P hg
      simp only
      have hpad := padTo_P he (getD_cells_P hg ri) col.toNat
      split <;> split <;> first
        | exact set_P (set_P hpad _ hc) _ hc
        | exact set_P hpad _ hc
        | exact hpad

theorem r0Pass_P {P : Cell → Prop} (he : P emptyCell) (rowR : Int) (r0 : Bool) (cells : List Cell) :
    ∀ (g g' : Grid) (i : Nat) (prev : Int), r0Pass g rowR r0 cells i prev = .ok g' → CellsP P g → (∀ c ∈ cells, P c) → CellsP P g' := by
  induction cells with
  | nil => intro g g' i prev h hg _; simp [r0Pass] at h; subst h; exact hg
  | cons c cs ih =>
    intro g g' i prev h hg hc
    have hcs : ∀ x ∈ cs, P x := fun x hx => hc x (List.mem_cons_of_mem _ hx)
    have hc0 : P c := hc c List.mem_cons_self
    unfold r0Pass at h
    split at h
    · cases hpl : place g (if r0 then prev + 1 else (i : Int) + 1) rowR r0 c with
      | ok g1 => rw [hpl] at h; simp only [Outcome.bind] at h; exact ih g1 g' _ _ h (place_P he hpl hg hc0) hcs
      | err => rw [hpl] at h; simp [Outcome.bind] at h
      | panic => rw [hpl] at h; simp [Outcome.bind] at h
    · split at h
      · rename_i col row _
        split at h
        · cases hpl : place g col row r0 c with
          | ok g1 => rw [hpl] at h; simp only [Outcome.bind] at h; exact ih g1 g' _ _ h (place_P he hpl hg hc0) hcs
          | err => rw [hpl] at h; simp [Outcome.bind] at h
          | panic => rw [hpl] at h; simp [Outcome.bind] at h
        · exact ih g g' _ _ h hg hcs
      · exact ih g g' _ _ h hg hcs

theorem placeRows_P {P : Cell → Prop} (kept : List Row) : ∀ (g g' : Grid) (last last' : Int),
    placeRows g last kept = .ok (g', last') → CellsP P g → (∀ r ∈ kept, ∀ c ∈ r.cells, P c) → CellsP P g' := by
  induction kept with
  | nil => intro g g' l l' h hg _; simp [placeRows] at h; rw [← h.1]; exact hg
  | cons r rest ih =>
    intro g g' l l' h hg hk
    have hrest : ∀ x ∈ rest, ∀ c ∈ x.cells, P c := fun x hx => hk x (List.mem_cons_of_mem _ hx)
    unfold placeRows at h
    split at h
    · split at h
      · cases h
      · exact ih _ _ _ _ h (gridset_P hg _ (hk r List.mem_cons_self)) hrest
    · exact ih _ _ _ _ h hg hrest

theorem r0Rows_P {P : Cell → Prop} (he : P emptyCell) (r0 : List Row) : ∀ (g g' : Grid),
    r0Rows g r0 = .ok g' → CellsP P g → (∀ r ∈ r0, ∀ c ∈ r.cells, P c) → CellsP P g' := by
  induction r0 with
  | nil => intro g g' h hg _; simp [r0Rows] at h; subst h; exact hg
  | cons r rest ih =>
    intro g g' h hg hk
    have hrest : ∀ x ∈ rest, ∀ c ∈ x.cells, P c := fun x hx => hk x (List.mem_cons_of_mem _ hx)
    unfold r0Rows at h
    split at h
    · cases h
    · rename_i i _
      simp only at h
      have hg1 : CellsP P (g.set i { (g.getD i emptyRow) with r := r.r }) :=
        gridset_P hg i (getD_cells_P hg i)
      cases hp : r0Pass (g.set i { (g.getD i emptyRow) with r := r.r }) r.r true r.cells 0 0 with
      | ok g2 =>
        rw [hp] at h; simp only [Outcome.bind] at h
        exact ih g2 g' h (r0Pass_P he _ _ _ _ _ _ _ hp hg1 (hk r List.mem_cons_self)) hrest
      | err => rw [hp] at h; simp [Outcome.bind] at h
      | panic => rw [hp] at h; simp [Outcome.bind] at h

theorem fillRows_P {P : Cell → Prop} (he : P emptyCell) : ∀ (k : Nat) (g g' : Grid) (i : Nat),
    fillRows g i k = .ok g' → CellsP P g → CellsP P g' := by
  intro k
  induction k with
  | zero => intro g g' i h hg; simp [fillRows] at h; subst h; exact hg
  | succ k ih =>
    intro g g' i h hg
    unfold fillRows at h
    split at h
    · cases h
    · rename_i j _
      simp only at h
      have hrow : ∀ c ∈ ({ (g.getD j emptyRow) with r := (i : Int) } : Row).cells, P c := getD_cells_P hg j
      have hg1 : CellsP P (g.set j { (g.getD j emptyRow) with r := (i : Int) }) := gridset_P hg j hrow
      cases hp : r0Pass (g.set j { (g.getD j emptyRow) with r := (i : Int) }) (i : Int) false
          ({ (g.getD j emptyRow) with r := (i : Int) } : Row).cells 0 0 with
      | ok g2 =>
        rw [hp] at h; simp only [Outcome.bind] at h
        exact ih g2 g' _ h (r0Pass_P he _ _ _ _ _ _ _ hp hg1 hrow)
      | err => rw [hp] at h; simp [Outcome.bind] at h
      | panic => rw [hp] at h; simp [Outcome.bind] at h

theorem scan_cells_P {P : Cell → Prop} (rows : List Row) : ∀ (row : Int) (r0 kept : List Row),
    (∀ r ∈ rows, ∀ c ∈ r.cells, P c) → (∀ r ∈ r0, ∀ c ∈ r.cells, P c) → (∀ r ∈ kept, ∀ c ∈ r.cells, P c) →
    (∀ r ∈ (scan rows row r0 kept).2.1, ∀ c ∈ r.cells, P c) ∧
    (∀ r ∈ (scan rows row r0 kept).2.2, ∀ c ∈ r.cells, P c) := by
  induction rows with
  | nil =>
    intro row r0 kept _ h0 hk
    unfold scan
    exact ⟨fun r hr => h0 r (by simpa using hr), fun r hr => hk r (by simpa using hr)⟩
  | cons r rest ih =>
    intro row r0 kept hr h0 hk
    have hrest : ∀ x ∈ rest, ∀ c ∈ x.cells, P c := fun x hx => hr x (List.mem_cons_of_mem _ hx)
    have hr1 := hr r List.mem_cons_self
    unfold scan
    split
    · simp only
      apply ih _ _ _ hrest _ hk
      intro x hx
      cases hx with
      | head => exact hr1
      | tail _ hx' => exact h0 x hx'
    · simp only
      apply ih _ _ _ hrest h0
      intro x hx
      cases hx with
      | head => exact hr1
      | tail _ hx' => exact hk x hx'

/-- `checkSheet` only moves cells around and adds empty ones -/
theorem checkSheet_P {P : Cell → Prop} (he : P emptyCell) (rows : List Row) (g : Grid)
    (h : checkSheet rows = .ok g) (hr : ∀ r ∈ rows, ∀ c ∈ r.cells, P c) : CellsP P g := by
  unfold checkSheet at h
  split at h
  · cases h
  split at h
  · cases h
  have hs := scan_cells_P (P := P) rows 0 [] [] hr (fun _ h => absurd h List.not_mem_nil) (fun _ h => absurd h List.not_mem_nil)
  generalize scan rows 0 [] [] = res at h hs
  obtain ⟨row, r0, kept⟩ := res
  simp only at h hs
  split at h
  · cases h
  have hg0 : CellsP P (List.replicate row.toNat emptyRow) := by
    intro r hr' c hc
    have := (List.mem_replicate.mp hr').2
    rw [this] at hc; simp [emptyRow] at hc
  cases hp : placeRows (List.replicate row.toNat emptyRow) 0 kept with
  | ok p =>
    obtain ⟨g1, last⟩ := p
    rw [hp] at h; simp only [Outcome.bind] at h
    have hg1 := placeRows_P kept _ _ _ _ hp hg0 hs.2
    cases hq : r0Rows g1 r0 with
    | ok g2 =>
      rw [hq] at h; simp only [Outcome.bind] at h
      exact fillRows_P he _ _ _ _ h (r0Rows_P he r0 _ _ hq hg1 hs.1)
    | err => rw [hq] at h; simp [Outcome.bind] at h
    | panic => rw [hq] at h; simp [Outcome.bind] at h
  | err => rw [hp] at h; simp [Outcome.bind] at h
  | panic => rw [hp] at h; simp [Outcome.bind] at h


/-! ## unzip size accounting -/

theorem zipAccount_iff (sizes : List Nat) : ∀ (run limit : Nat), run ≤ limit →
    (zipAccount sizes run limit = true ↔ run + sizes.sum ≤ limit) := by
  induction sizes with
  | nil => intro run limit h; simp [zipAccount]; exact h
  | cons x xs ih =>
    intro run limit h
    unfold zipAccount
    split
    · simp only [List.sum_cons]; constructor
      · intro h; cases h
      · intro h; omega
    · rw [ih _ _ (by omega)]; simp only [List.sum_cons]; omega

/-! ## repaired decode sites (round 3) -/


theorem inRange_of {i : Int} {n : Nat} (h0 : 0 ≤ i) (h1 : i < (n : Int)) : inRange i n = true := by
  simp [inRange, h0, h1]

theorem no_panic_xfComponent (a p : Bool) (id : Int) (t : Option Nat) : (xfComponent a p id t).isPanic = false := by
  unfold xfComponent
  cases t with
  | none => rfl
  | some n =>
    simp only
    split
    · rename_i h
      simp only [Bool.and_eq_true, decide_eq_true_eq] at h
      rw [inRange_of (by omega) (by omega)]; rfl
    · rfl

theorem no_panic_getStyle' (i : StyleIn) : (getStyle i).isPanic = false := by
  unfold getStyle
  cases h : i.nXf with
  | none => rfl
  | some n =>
    simp only
    split
    · rfl
    · rename_i hg
      rw [inRange_of (by omega) (by omega)]
      simp only [not_true_eq_false, if_false]
      apply bind_no_panic _ _ (no_panic_xfComponent _ _ _ _)
      intro f _
      apply bind_no_panic _ _ (no_panic_xfComponent _ _ _ _)
      intro b _
      apply bind_no_panic _ _ (no_panic_xfComponent _ _ _ _)
      intro c _; rfl

theorem idx?_lt {α : Type} {xs : List α} {i : Int} {k : Nat} (h : idx? xs i = some k) : k < xs.length := by
  unfold idx? at h
  split at h
  · simp only [Option.some.injEq] at h; omega
  · cases h

theorem no_panic_activeSheetID' (v : Bool) (t : Int) (ids : List Int) : (activeSheetID v t ids).isPanic = false := by
  have hf : ((if ids.length ≥ 1 then (match ids[0]? with | some id => Outcome.ok id | none => Outcome.panic) else Outcome.ok 0) : Outcome Int).isPanic = false := by
    split
    · rename_i h
      have : ids[0]? = some ids[0] := List.getElem?_eq_getElem (by omega)
      rw [this]; rfl
    · rfl
  unfold activeSheetID
  simp only
  split
  · split
    · rename_i hg
      rw [idx?_some ids t (by omega) (by omega)]
      simp only
      have hlt : t.toNat < ids.length := by omega
      rw [List.getElem?_eq_getElem hlt]
      simp only
      split
      · rfl
      · exact hf
    · exact hf
  · exact hf

theorem no_panic_getDefaultFont' (n : Option Nat) (a b c : Bool) : (getDefaultFont n a b c).isPanic = false := by
  unfold getDefaultFont
  cases n with
  | none => rfl
  | some k =>
    simp only
    split
    · rfl
    · rw [inRange_of (by omega) (by omega)]
      simp only [not_true_eq_false, if_false]
      cases a <;> cases b <;> cases c <;> rfl

theorem no_panic_themeColor' (len : Nat) (z : Bool) : (themeColor len z).isPanic = false := by
  unfold themeColor
  split
  · rfl
  · split
    · rename_i h1 h2; exfalso; apply h2; simp [sliceOK]; omega
    · rfl

theorem no_panic_commentAuthor' (a : Int) (n : Nat) : (commentAuthor a n).isPanic = false := by
  unfold commentAuthor
  split
  · rename_i h; rw [inRange_of (by omega) (by omega)]; rfl
  · rfl

theorem no_panic_richRuns' (rs : List Bool) : (richRuns rs).isPanic = false := by
  induction rs with
  | nil => rfl
  | cons r rest ih =>
    unfold richRuns
    apply bind_no_panic
    · cases r <;> rfl
    · intro a _; apply bind_no_panic _ _ ih; intro t _; rfl

theorem no_panic_condFmt' (n : Nat) : (condFmtCellIs n).isPanic = false := by
  unfold condFmtCellIs
  split
  · rename_i h; subst h; rfl
  · split
    · rename_i h; rw [inRange_of (by omega) (by omega)]; rfl
    · rfl

theorem no_panic_mergeCellHit' (c r : Int) (rect : List Int) : (mergeCellHit c r rect).isPanic = false := by
  unfold mergeCellHit
  split
  · rename_i h
    match rect, h with
    | [a, b, c', d], _ => rfl
  · rfl

/-! merged-cell matrix -/

theorem filter_split_length {α : Type} (p : α → Bool) (l : List α) :
    (l.filter p).length + (l.filter fun c => !p c).length = l.length := by
  induction l with
  | nil => rfl
  | cons x xs ih =>
    cases h : p x <;> simp [List.filter, h] <;> omega

/-- one `settle` never lengthens the list, and with enough fuel it ends with no listed rectangle
overlapping the result -/
theorem settle_spec : ∀ (fuel : Nat) (r : Rc) (cells : List Rc), cells.length < fuel →
    (settle fuel r cells).2.length ≤ cells.length ∧
    ∀ c ∈ (settle fuel r cells).2, isOverlapRc (settle fuel r cells).1 c = false := by
  intro fuel
  induction fuel with
  | zero => intro r cells h; omega
  | succ f ih =>
    intro r cells h
    unfold settle
    simp only
    split
    · rename_i he
      refine ⟨Nat.le_refl _, ?_⟩
      intro c hc
      have hnil : cells.filter (isOverlapRc r) = [] := List.isEmpty_iff.mp he
      cases ho : isOverlapRc r c with
      | false => rfl
      | true =>
        have : c ∈ cells.filter (isOverlapRc r) := List.mem_filter.mpr ⟨hc, ho⟩
        rw [hnil] at this; cases this
    · rename_i hne
      have hs := filter_split_length (isOverlapRc r) cells
      have hpos : 0 < (cells.filter (isOverlapRc r)).length := by
        cases hl : cells.filter (isOverlapRc r) with
        | nil => simp [hl] at hne
        | cons _ _ => simp
      have hlt : (cells.filter fun c => !isOverlapRc r c).length < f := by omega
      obtain ⟨h1, h2⟩ := ih ((cells.filter (isOverlapRc r)).foldl unionRc r) (cells.filter fun c => !isOverlapRc r c) hlt
      exact ⟨by omega, h2⟩

theorem normalise_length (rs : List Rc) : ∀ (acc : List Rc), (normalise rs acc).length ≤ acc.length + rs.length := by
  induction rs with
  | nil => intro acc; simp [normalise]
  | cons r rest ih =>
    intro acc
    unfold normalise
    simp only
    have h := (settle_spec (acc.length + 1) (sortRc r) acc (by omega)).1
    have := ih ((settle (acc.length + 1) (sortRc r) acc).2 ++ [(settle (acc.length + 1) (sortRc r) acc).1])
    simp only [List.length_append, List.length_cons, List.length_nil] at this ⊢
    omega

/-! compound file -/

theorem no_panic_checkCfbHeader' (len shift : Nat) (cs : List Nat) : (checkCfbHeader len shift cs).isPanic = false := by
  unfold checkCfbHeader
  split
  · rfl
  · split
    · rename_i h1 h2; exfalso; apply h2; simp [sliceOK]; omega
    · split
      · rfl
      · split
        · rename_i h; exfalso; apply h; simp [sliceOK]; omega
        · split <;> rfl

theorem extractAlloc_le (size : Int) (limit : Nat) : extractAlloc size limit ≤ limit := by
  unfold extractAlloc; split <;> omega

/-! agile -/

theorem no_panic_agileCheck' (i : AgIn) : (agileCheck i).isPanic = false := by
  unfold agileCheck
  split; · rfl
  split; · rfl
  split; · rfl
  rename_i h _ _
  rw [inRange_of (by omega) (by omega)]
  simp only [not_true_eq_false, if_false]
  split; · rfl
  split <;> rfl

theorem agileCheck_ok {i : AgIn} (h : agileCheck i = .ok ()) :
    0 < i.nKE ∧ i.blockSize = 16 ∧ 0 < i.hashLen ∧ 0 ≤ i.keyBits ∧ 0 ≤ i.spinCount ∧ i.spinCount ≤ 10000000 := by
  unfold agileCheck at h
  split at h; · cases h
  split at h; · cases h
  split at h; · cases h
  split at h; · cases h
  split at h; · cases h
  split at h; · cases h
  omega

theorem no_panic_agileKeyLen' (i : AgIn) (hk : 0 < i.nKE) (hb : 0 ≤ i.keyBits) : (agileKeyLen i).isPanic = false := by
  unfold agileKeyLen
  rw [inRange_of (by omega) (by omega)]
  simp only [not_true_eq_false, if_false]
  split; · rfl
  split; · rfl
  split
  · rename_i h1 h2
    have : 0 ≤ i.keyBits / 8 := Int.ediv_nonneg hb (by omega)
    rw [if_pos ⟨this, by omega⟩]; rfl
  · rfl

theorem no_panic_cbcDecrypt' (k v n : Nat) : (cbcDecrypt k v n).isPanic = false := by
  unfold cbcDecrypt
  split; · rfl
  split; · rfl
  rename_i h
  rw [if_pos (by omega)]; rfl

theorem no_panic_createIV' (i : AgIn) (hb : i.blockSize = 16) : (createIV i).isPanic = false := by
  unfold createIV
  split; · rfl
  split; · rfl
  split
  · rename_i h; rw [if_pos (by omega)]; rfl
  · rfl

theorem no_panic_padChunk' (n : Nat) (b : Int) (hb : b = 16) : (padChunk n b).isPanic = false := by
  unfold padChunk
  rw [if_neg (by omega), if_neg (by omega)]
  simp only
  split <;> rfl

theorem no_panic_pkgLoop' (i : AgIn) (hb : i.blockSize = 16) :
    ∀ (fuel start : Nat), (pkgLoop i fuel start).isPanic = false := by
  intro fuel
  induction fuel with
  | zero => intro s; rfl
  | succ f ih =>
    intro s
    unfold pkgLoop
    simp only
    split
    · rename_i hlt
      have hs : sliceOK (i.pkgLen - 8) s (if s + 4096 > i.pkgLen - 8 then i.pkgLen - 8 else s + 4096) = true := by
        simp only [sliceOK, Bool.and_eq_true, decide_eq_true_eq]
        split <;> omega
      rw [hs]
      simp only [not_true_eq_false, if_false]
      apply bind_no_panic _ _ (no_panic_padChunk' _ _ hb)
      intro n _
      apply bind_no_panic _ _ (no_panic_createIV' i hb)
      intro iv _
      apply bind_no_panic _ _ (no_panic_cbcDecrypt' _ _ _)
      intro _ _
      exact ih _
    · rfl

theorem targetFrom_bound (rowNum : Int) : ∀ (n k : Nat) (t : List Cell),
    targetFrom rowNum k n = some t → n = 0 ∨ k + n ≤ Facts.MaxColumns := by
  intro n
  induction n with
  | zero => intro k t _; left; rfl
  | succ n ih =>
    intro k t h
    right
    unfold targetFrom at h
    split at h
    · rename_i hv
      cases ht : targetFrom rowNum (k + 1) n with
      | none => simp [ht] at h
      | some t' =>
        rcases ih (k + 1) t' ht with h0 | h1
        · subst h0
          simp only [validCoord, Bool.and_eq_true, decide_eq_true_eq] at hv
          omega
        · omega
    · cases h

theorem scatter_length (src : List Cell) : ∀ (tgt cs : List Cell), scatter tgt src = .ok cs → cs.length = tgt.length := by
  induction src with
  | nil => intro tgt cs h; simp [scatter] at h; subst h; rfl
  | cons d ds ih =>
    intro tgt cs h
    unfold scatter at h
    split at h
    · cases h
    · split at h
      · cases h
      · have := ih _ _ h
        simpa using this

/-- a row rebuilt by `checkRow` is never wider than MaxColumns (otherwise it keeps its width) -/
theorem checkRowOne_width (rowNum : Int) (rw rw' : Row) (h : checkRowOne rowNum rw = .ok rw') :
    rw'.cells.length ≤ Facts.MaxColumns ∨ rw'.cells.length = rw.cells.length := by
  unfold checkRowOne at h
  split at h
  · cases h; right; rfl
  split at h
  · cases h
  rename_i cells hf
  have hl : cells.length = rw.cells.length := by
    have : ∀ (cs : List Cell) (rc : Int) (out : List Cell), fillRefs rowNum cs rc = some out → out.length = cs.length := by
      intro cs
      induction cs with
      | nil => intro rc out h; simp [fillRefs] at h; subst h; rfl
      | cons d ds ih =>
        intro rc out h
        unfold fillRefs at h
        simp only at h
        split at h
        · cases ht : fillRefs rowNum ds (rc + 1) with
          | none => simp [ht] at h
          | some t => simp only [ht, Option.map_some, Option.some.injEq] at h; subst h; simp [ih _ _ ht]
        · split at h
          · cases h
          · rename_i lastR _ _
            cases ht : fillRefs rowNum ds (if lastR > rc + 1 then lastR else rc + 1) with
            | none => simp [ht] at h
            | some t => simp only [ht, Option.map_some, Option.some.injEq] at h; subst h; simp [ih _ _ ht]
    exact this _ _ _ hf
  split at h
  · cases h
  split at h
  · cases h
  split at h
  · split at h
    · cases h
    rename_i mc _
    split at h
    · cases h
    rename_i tgt htg
    cases hs : scatter tgt cells with
    | ok cs =>
      rw [hs] at h; simp only [Outcome.bind, Outcome.ok.injEq] at h
      subst h
      left
      simp only
      rw [scatter_length _ _ _ hs, targetFrom_length rowNum mc.toNat 0 tgt htg]
      rcases targetFrom_bound rowNum mc.toNat 0 tgt htg with h0 | h1
      · omega
      · omega
    | err => rw [hs] at h; simp [Outcome.bind] at h
    | panic => rw [hs] at h; simp [Outcome.bind] at h
  · simp only [Outcome.ok.injEq] at h; subst h; right; simpa using hl

theorem wrap64_range (x : Int) (h0 : 0 ≤ x) (h1 : x < 18446744073709551616) :
    (x < 9223372036854775808 → wrap64 x = x) ∧ (9223372036854775808 ≤ x → wrap64 x < 0) := by
  unfold wrap64
  simp only
  have hm : x % 18446744073709551616 = x := Int.emod_eq_of_lt h0 h1
  rw [hm]
  constructor
  · intro h; rw [if_neg (by omega)]
  · intro h; rw [if_pos (by omega)]; omega

/-- accepted ⇒ no declared size is negative and the true (unwrapped) sum stays within the limit -/
theorem zipAccountI_sound (sizes : List Int) : ∀ (run limit : Int), 0 ≤ run → run ≤ limit →
    limit < 9223372036854775808 → (∀ s ∈ sizes, s < 9223372036854775808) →
    zipAccountI sizes run limit = true → (∀ s ∈ sizes, 0 ≤ s) ∧ run + sizes.sum ≤ limit := by
  induction sizes with
  | nil => intro run limit _ h _ _ _; simp; exact h
  | cons x xs ih =>
    intro run limit h0 h1 hl hs h
    have hx := hs x List.mem_cons_self
    unfold zipAccountI at h
    simp only at h
    split at h
    · cases h
    · rename_i hg
      have hxn : 0 ≤ x := by omega
      have hw := wrap64_range (run + x) (by omega) (by omega)
      by_cases hbig : run + x < 9223372036854775808
      · have he := hw.1 hbig
        rw [he] at h hg
        obtain ⟨a, b⟩ := ih (run + x) limit (by omega) (by omega) hl (fun s hm => hs s (List.mem_cons_of_mem _ hm)) h
        refine ⟨?_, by simp only [List.sum_cons]; omega⟩
        intro s hm
        cases hm with
        | head => exact hxn
        | tail _ hm' => exact a s hm'
      · have := hw.2 (by omega)
        omega

/-! ## bstrUnmarshal -/

/-- the matches are ordered, seven bytes long and inside the string -/
def MatchChain (len : Nat) : List (Nat × Nat) → Nat → Prop
  | [], _ => True
  | (m0, m1) :: rest, cursor => cursor ≤ m0 ∧ m1 = m0 + 7 ∧ m1 ≤ len ∧ MatchChain len rest m1

theorem MatchChain_mono (len : Nat) (ms : List (Nat × Nat)) : ∀ (a b : Nat), a ≤ b → MatchChain len ms b → MatchChain len ms a := by
  cases ms with
  | nil => intro _ _ _ _; trivial
  | cons m rest =>
    obtain ⟨m0, m1⟩ := m
    intro a b hab h
    exact ⟨by have := h.1; omega, h.2.1, h.2.2.1, h.2.2.2⟩

theorem bstrMatches_chain (s : List Char) : ∀ (fuel i : Nat), MatchChain s.length (bstrMatches s fuel i) i := by
  intro fuel
  induction fuel with
  | zero => intro i; trivial
  | succ f ih =>
    intro i
    unfold bstrMatches
    split
    · split
      · rename_i he
        have hl : i + 7 ≤ s.length := by
          simp only [escAt, Bool.and_eq_true, decide_eq_true_eq] at he
          exact he.1.1.1.1.1.1.1
        exact ⟨Nat.le_refl _, rfl, hl, ih (i + 7)⟩
      · exact MatchChain_mono _ _ i (i + 1) (by omega) (ih (i + 1))
    · trivial

theorem bstrSegs_no_panic (len : Nat) (ms : List (Nat × Nat)) : ∀ (cursor : Nat), cursor ≤ len →
    MatchChain len ms cursor → (bstrSegs len ms cursor).isPanic = false := by
  induction ms with
  | nil =>
    intro cursor hc _
    unfold bstrSegs
    split
    · have : sliceOK len cursor len = true := by simp [sliceOK]; omega
      rw [this]; rfl
    · rfl
  | cons m rest ih =>
    obtain ⟨m0, m1⟩ := m
    intro cursor hc h
    obtain ⟨h1, h2, h3, h4⟩ := h
    unfold bstrSegs
    have a : sliceOK len cursor m0 = true := by simp [sliceOK]; omega
    have b : sliceOK len m0 m1 = true := by simp [sliceOK]; omega
    have c : sliceOK len (m0 + 2) (m1 - 1) = true := by simp [sliceOK]; omega
    rw [a, b, c]
    simp only [not_true_eq_false, if_false]
    apply bind_no_panic _ _ (ih m1 h3 h4)
    intro t _; rfl

/-! ## more allocation bounds -/

theorem padTo_length_le (cells : List Cell) (n : Nat) :
    (padTo cells n).length = (if cells.length ≤ n then n else cells.length) := by
  unfold padTo
  simp only [List.length_append, List.length_replicate]
  split <;> omega

theorem mem_le_sum (sizes : List Nat) : ∀ s ∈ sizes, s ≤ sizes.sum := by
  induction sizes with
  | nil => intro s h; cases h
  | cons x xs ih =>
    intro s h
    simp only [List.sum_cons]
    cases h with
    | head => omega
    | tail _ hm => have := ih s hm; omega

/-! ## GetRows accounting -/

theorem getRowsLoop_inv (iters : List Bool) : ∀ (len : Nat) (cur maxVal : Int),
    (len : Int) = maxVal → 0 ≤ maxVal → maxVal ≤ cur →
    ∃ len' maxVal', getRowsLoop iters len cur maxVal = .ok (len', maxVal') ∧ (len' : Int) = maxVal' ∧
      0 ≤ maxVal' ∧ maxVal' ≤ cur + (iters.length : Int) := by
  induction iters with
  | nil => intro len cur maxVal h1 h2 h3; exact ⟨len, maxVal, rfl, h1, h2, by simpa using h3⟩
  | cons b rest ih =>
    intro len cur maxVal h1 h2 h3
    unfold getRowsLoop
    simp only
    cases b with
    | true =>
      simp only [if_true]
      split
      · obtain ⟨l, m, e, a, c, d⟩ := ih (len + (cur + 1 - maxVal - 1).toNat + 1) (cur + 1) (cur + 1) (by omega) (by omega) (Int.le_refl _)
        exact ⟨l, m, e, a, c, by simp only [List.length_cons]; omega⟩
      · obtain ⟨l, m, e, a, c, d⟩ := ih (len + 1) (cur + 1) (cur + 1) (by omega) (by omega) (Int.le_refl _)
        exact ⟨l, m, e, a, c, by simp only [List.length_cons]; omega⟩
    | false =>
      simp only [Bool.false_eq_true, if_false]
      obtain ⟨l, m, e, a, c, d⟩ := ih len (cur + 1) maxVal h1 h2 (by omega)
      exact ⟨l, m, e, a, c, by simp only [List.length_cons]; omega⟩

/-! ## streaming row iterator: per-step facts -/

theorem nextScan_spec (cur seek : Int) (toks : List Tok) :
    (nextScan cur seek toks).2.2.seek = seek ∧
    (nextScan cur seek toks).2.2.toks.length ≤ toks.length ∧
    ((nextScan cur seek toks).1 = true → (nextScan cur seek toks).2.2.toks.length < toks.length) ∧
    ((nextScan cur seek toks).2.2.cur ≤ cur + 1 ∨ (nextScan cur seek toks).2.2.cur ≤ (Facts.TotalRows : Int)) := by
  induction toks with
  | nil => unfold nextScan; refine ⟨by simp, by simp, by simp, Or.inl (by dsimp only; omega)⟩
  | cons t rest ih =>
    cases t with
    | row r =>
      unfold nextScan
      split
      · split
        · refine ⟨by simp, by simp, by simp, Or.inl (by dsimp only; omega)⟩
        · refine ⟨by simp, by simp, by simp, Or.inr (by dsimp only; omega)⟩
      · refine ⟨by simp, by simp, by simp, Or.inl (by dsimp only; omega)⟩
    | cell c b v =>
      unfold nextScan
      obtain ⟨a, b', c', d⟩ := ih
      exact ⟨a, by simp only [List.length_cons]; omega, fun h => by have := c' h; simp only [List.length_cons]; omega, d⟩
    | endData => unfold nextScan; refine ⟨by simp, by simp, by simp, Or.inl (by dsimp only; omega)⟩
    | other =>
      unfold nextScan
      obtain ⟨a, b', c', d⟩ := ih
      exact ⟨a, by simp only [List.length_cons]; omega, fun h => by have := c' h; simp only [List.length_cons]; omega, d⟩

/-! ## namespaceStrictToTransitional scanner -/


theorem byteAtI_some (rest : List Char) (k : Int) (h0 : 0 ≤ k) (h1 : k < (rest.length : Int)) :
    ∃ c, byteAtI rest k = some c := by
  unfold byteAtI
  rw [if_pos ⟨h0, h1⟩]
  have : k.toNat < rest.length := by omega
  exact ⟨rest[k.toNat], List.getElem?_eq_getElem this⟩

theorem nsNameEnd_ok (rest : List Char) : ∀ (fuel : Nat) (e : Int), 0 ≤ e → e ≤ (rest.length : Int) →
    ∃ e', nsNameEnd rest fuel e = .ok e' ∧ 0 ≤ e' ∧ e' ≤ e := by
  intro fuel
  induction fuel with
  | zero => intro e h0 _; exact ⟨e, rfl, h0, Int.le_refl _⟩
  | succ f ih =>
    intro e h0 h1
    unfold nsNameEnd
    split
    · obtain ⟨c, hc⟩ := byteAtI_some rest (e - 1) (by omega) (by omega)
      rw [hc]
      simp only
      split
      · obtain ⟨e', a, b, d⟩ := ih (e - 1) (by omega) (by omega)
        exact ⟨e', a, b, by omega⟩
      · exact ⟨e, rfl, h0, Int.le_refl _⟩
    · exact ⟨e, rfl, h0, Int.le_refl _⟩

theorem nsNameStart_ok (rest : List Char) : ∀ (fuel : Nat) (e : Int), 0 ≤ e → e ≤ (rest.length : Int) →
    ∃ e', nsNameStart rest fuel e = .ok e' ∧ 0 ≤ e' ∧ e' ≤ e := by
  intro fuel
  induction fuel with
  | zero => intro e h0 _; exact ⟨e, rfl, h0, Int.le_refl _⟩
  | succ f ih =>
    intro e h0 h1
    unfold nsNameStart
    split
    · obtain ⟨c, hc⟩ := byteAtI_some rest (e - 1) (by omega) (by omega)
      rw [hc]
      simp only
      split
      · obtain ⟨e', a, b, d⟩ := ih (e - 1) (by omega) (by omega)
        exact ⟨e', a, b, by omega⟩
      · exact ⟨e, rfl, h0, Int.le_refl _⟩
    · exact ⟨e, rfl, h0, Int.le_refl _⟩

theorem idxOfB_lt (c : Char) (l : List Char) : ∀ k, idxOfB c l = some k → k < l.length := by
  induction l with
  | nil => intro k h; simp [idxOfB] at h
  | cons x xs ih =>
    intro k h
    unfold idxOfB at h
    split at h
    · simp only [Option.some.injEq] at h; subst h; simp
    · cases hx : idxOfB c xs with
      | none => simp [hx] at h
      | some m =>
        simp only [hx, Option.map_some, Option.some.injEq] at h
        subst h
        have := ih m hx
        simp only [List.length_cons]; omega

theorem idxOfSub_le (pat : List Char) (l : List Char) : ∀ (k0 k : Nat), idxOfSub pat k0 l = some k →
    k0 ≤ k ∧ k - k0 + pat.length ≤ l.length := by
  induction l with
  | nil => intro k0 k h; simp [idxOfSub] at h
  | cons x xs ih =>
    intro k0 k h
    unfold idxOfSub at h
    split at h
    · rename_i hm
      simp only [Option.some.injEq] at h; subst h
      have heq : (x :: xs).take pat.length = pat := by simpa using hm
      have hl : ((x :: xs).take pat.length).length = pat.length := by rw [heq]
      rw [List.length_take] at hl
      refine ⟨Nat.le_refl _, ?_⟩
      omega
    · have := ih (k0 + 1) k h
      simp only [List.length_cons]; omega

theorem nsTag_no_panic : ∀ (fuel : Nat) (rest : List Char) (j : Nat) (acc : List NsPiece),
    (nsTag fuel rest j acc).isPanic = false := by
  intro fuel
  induction fuel with
  | zero => intro rest j acc; rfl
  | succ f ih =>
    intro rest j acc
    unfold nsTag
    split
    · rename_i hj
      obtain ⟨c, hc⟩ := byteAtI_some rest (j : Int) (by omega) (by omega)
      rw [hc]
      simp only
      split
      · have : sliceOK rest.length 0 (j + 1) = true := by simp [sliceOK]; omega
        rw [this]; rfl
      · split
        · exact ih _ _ _
        · obtain ⟨ne, h1, h2, h3⟩ := nsNameEnd_ok rest (j + 1) (j : Int) (by omega) (by omega)
          rw [h1]; simp only [Outcome.bind]
          obtain ⟨ns, g1, g2, g3⟩ := nsNameStart_ok rest (j + 1) ne h2 (by omega)
          rw [g1]; simp only [Outcome.bind]
          rw [if_neg (by omega)]
          have hs : sliceOK rest.length (j + 1) rest.length = true := by simp [sliceOK]; omega
          rw [hs]
          simp only [not_true_eq_false, if_false]
          split
          · rfl
          · rename_i closing hcl
            have hlt := idxOfB_lt c (rest.drop (j + 1)) closing hcl
            simp only [List.length_drop] at hlt
            split
            · have a : sliceOK rest.length 0 (j + 1) = true := by simp [sliceOK]; omega
              have b : sliceOK rest.length (j + 1) (j + 1 + closing) = true := by simp [sliceOK]; omega
              rw [a, b]
              simp only [and_self, not_true_eq_false, if_false]
              exact ih _ _ _
            · exact ih _ _ _
    · rfl

theorem map_add_some {o : Option Nat} {n e : Nat} (h : o.map (· + n) = some e) : ∃ k, o = some k ∧ e = k + n := by
  cases o with
  | none => simp at h
  | some k => simp only [Option.map_some, Option.some.injEq] at h; exact ⟨k, rfl, h.symm⟩

theorem nsScan_no_panic : ∀ (fuel : Nat) (content : List Char) (acc : List NsPiece),
    (nsScan fuel content acc).isPanic = false := by
  intro fuel
  induction fuel with
  | zero => intro c a; rfl
  | succ f ih =>
    intro content acc
    unfold nsScan
    split
    · rfl
    · rename_i lt hlt
      have hl := idxOfB_lt '<' content lt hlt
      have : sliceOK content.length 0 lt = true := by simp [sliceOK]; omega
      rw [this]
      simp only [not_true_eq_false, if_false]
      split
      · rfl
      · rename_i e hsk
        have he : e ≤ (content.drop lt).length := by
          split at hsk
          · simp only [Option.some.injEq] at hsk
            obtain ⟨k, hk, rfl⟩ := map_add_some hsk
            have := idxOfSub_le _ _ 0 k hk
            simp at this; simp only [List.length_drop]; omega
          · split at hsk
            · simp only [Option.some.injEq] at hsk
              obtain ⟨k, hk, rfl⟩ := map_add_some hsk
              have := idxOfSub_le _ _ 0 k hk
              simp at this; simp only [List.length_drop]; omega
            · split at hsk
              · simp only [Option.some.injEq] at hsk
                obtain ⟨k, hk, rfl⟩ := map_add_some hsk
                have := idxOfSub_le _ _ 0 k hk
                simp at this; simp only [List.length_drop]; omega
              · split at hsk
                · simp only [Option.some.injEq] at hsk
                  obtain ⟨k, hk, rfl⟩ := map_add_some hsk
                  have := idxOfB_lt _ _ k hk
                  omega
                · cases hsk
        have hs : sliceOK (content.drop lt).length 0 e = true := by simp [sliceOK]; simpa using he
        rw [hs]
        simp only [not_true_eq_false, if_false]
        exact ih _ _
      · apply bind_no_panic _ _ (nsTag_no_panic _ _ _ _)
        intro p _
        obtain ⟨a2, left⟩ := p
        simp only
        split
        · rfl
        · exact ih _ _


end XlModel.Decode
