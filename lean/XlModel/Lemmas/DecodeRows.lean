/-
Helper lemmas for the global iteration bound of the `GetRows` loop over the streaming row iterator
(`XlModel.Decode.getRowsIter`): a budget `B` with `cur + tokens ≤ B` and `TotalRows + tokens ≤ B` is kept by
`Next` and `Columns`, and `(B - seek) + tokens` decreases with every delivered row.
-/
import XlModel.Decode
namespace XlModel.Decode
open XlModel

/-- the token loop of `Next` keeps the budget, never puts tokens back, and a `true` answer consumed a token -/
theorem nextScan_budget (B : Int) (cur seek : Int) (toks : List Tok)
    (h1 : cur + (toks.length : Int) ≤ B) (h2 : (Facts.TotalRows : Int) + (toks.length : Int) ≤ B) :
    (nextScan cur seek toks).2.2.seek = seek ∧
    (nextScan cur seek toks).2.2.toks.length ≤ toks.length ∧
    ((nextScan cur seek toks).1 = true → (nextScan cur seek toks).2.2.toks.length < toks.length) ∧
    (nextScan cur seek toks).2.2.cur + ((nextScan cur seek toks).2.2.toks.length : Int) ≤ B := by
  induction toks with
  | nil => unfold nextScan; refine ⟨by simp, by simp, by simp, by simpa using h1⟩
  | cons t rest ih =>
    simp only [List.length_cons, Int.natCast_add, Int.cast_ofNat_Int] at h1 h2
    cases t with
    | row r =>
      unfold nextScan
      split
      · split
        · refine ⟨by simp, by simp, by simp, by dsimp only; omega⟩
        · refine ⟨by simp, by simp, by simp, by dsimp only; omega⟩
      · refine ⟨by simp, by simp, by simp, by dsimp only; omega⟩
    | cell c b v =>
      unfold nextScan
      obtain ⟨a, b', c', d⟩ := ih (by omega) (by omega)
      exact ⟨a, by simp only [List.length_cons]; omega,
        fun h => by have := c' h; simp only [List.length_cons]; omega, d⟩
    | endData => unfold nextScan; refine ⟨by simp, by simp, by simp, by dsimp only; omega⟩
    | other =>
      unfold nextScan
      obtain ⟨a, b', c', d⟩ := ih (by omega) (by omega)
      exact ⟨a, by simp only [List.length_cons]; omega,
        fun h => by have := c' h; simp only [List.length_cons]; omega, d⟩

/-- `Rows.Next` keeps the budget; `seekRow` +1; a `true` answer is the catch-up step or consumed a token -/
theorem rowsNext_budget (B : Int) (s : RowsState)
    (h1 : s.cur + (s.toks.length : Int) ≤ B) (h2 : (Facts.TotalRows : Int) + (s.toks.length : Int) ≤ B) :
    (rowsNext s).2.2.seek = s.seek + 1 ∧
    (rowsNext s).2.2.toks.length ≤ s.toks.length ∧
    ((rowsNext s).1 = true → s.cur ≥ s.seek + 1 ∨ (rowsNext s).2.2.toks.length < s.toks.length) ∧
    (rowsNext s).2.2.cur + ((rowsNext s).2.2.toks.length : Int) ≤ B := by
  unfold rowsNext
  split
  · rename_i h; simp; exact ⟨h, h1⟩
  · have := nextScan_budget B s.cur (s.seek + 1) s.toks h1 h2
    generalize nextScan s.cur (s.seek + 1) s.toks = res at this
    obtain ⟨ok, e, s'⟩ := res
    simp only at this ⊢
    exact ⟨this.1, this.2.1, fun h => Or.inr (this.2.2.1 h), this.2.2.2⟩

/-- `curRow` after a `<row>` token seen by `Columns` -/
def colCur1 (r cur : Int) (heldNil : Bool) : Int := if r ≠ 0 then r else if heldNil then cur + 1 else cur

theorem columnsScan_row (cur seek : Int) (hn : Bool) (cells : Nat) (cc : Int) (r : Int) (rest : List Tok) :
    columnsScan cur seek hn cells cc (.row r :: rest) =
      if r > (Facts.TotalRows : Int) then (cells, .maxRows, { cur := cur, seek := seek, held := none, toks := rest })
      else if colCur1 r cur hn > seek then (cells, .none, { cur := colCur1 r cur hn, seek := seek, held := none, toks := rest })
      else columnsScan (colCur1 r cur hn) seek true cells cc rest := by
  rw [columnsScan]; rfl

theorem colCur1_le (r cur : Int) (hn : Bool) (n B : Int) (hr : ¬ r > (Facts.TotalRows : Int))
    (h1 : cur + (if hn then 1 else 0) + n ≤ B) (h2 : (Facts.TotalRows : Int) + n ≤ B) :
    colCur1 r cur hn + n ≤ B := by
  unfold colCur1
  cases hn <;> simp only [Bool.false_eq_true, if_false, if_true] at h1 ⊢ <;> split <;> omega

/-- the token loop of `Columns` keeps the budget, leaves `seekRow` alone and never puts tokens back -/
theorem columnsScan_budget (B : Int) (seek : Int) (toks : List Tok) :
    ∀ (cur : Int) (heldNil : Bool) (cells : Nat) (cellCol : Int),
    cur + (toks.length : Int) ≤ B → (Facts.TotalRows : Int) + (toks.length : Int) ≤ B →
    (columnsScan cur seek heldNil cells cellCol toks).2.2.seek = seek ∧
    (columnsScan cur seek heldNil cells cellCol toks).2.2.toks.length ≤ toks.length ∧
    (columnsScan cur seek heldNil cells cellCol toks).2.2.cur +
      ((columnsScan cur seek heldNil cells cellCol toks).2.2.toks.length : Int) ≤ B := by
  induction toks with
  | nil => intro cur hn cells cc h1 _; unfold columnsScan; exact ⟨by simp, by simp, by simpa using h1⟩
  | cons t rest ih =>
    intro cur hn cells cc h1 h2
    simp only [List.length_cons, Int.natCast_add, Int.cast_ofNat_Int] at h1 h2
    have hA : cur + (rest.length : Int) ≤ B := by omega
    have hB : (Facts.TotalRows : Int) + (rest.length : Int) ≤ B := by omega
    cases t with
    | row r =>
      rw [columnsScan_row]
      split
      · exact ⟨by simp, by simp, by dsimp only; omega⟩
      · rename_i hr
        have hc : colCur1 r cur hn + (rest.length : Int) ≤ B :=
          colCur1_le r cur hn _ B hr (by cases hn <;> simp <;> omega) hB
        split
        · exact ⟨by simp, by simp, by dsimp only; omega⟩
        · exact ⟨(ih _ _ _ _ hc hB).1, Nat.le_succ_of_le (ih _ _ _ _ hc hB).2.1, (ih _ _ _ _ hc hB).2.2⟩
    | cell col bad val =>
      unfold columnsScan
      split
      · exact ⟨by simp, by simp, by dsimp only; omega⟩
      · exact ⟨(ih _ _ _ _ hA hB).1, Nat.le_succ_of_le (ih _ _ _ _ hA hB).2.1, (ih _ _ _ _ hA hB).2.2⟩
    | endData => unfold columnsScan; exact ⟨by simp, by simp, by dsimp only; omega⟩
    | other =>
      unfold columnsScan
      exact ⟨(ih _ _ _ _ hA hB).1, Nat.le_succ_of_le (ih _ _ _ _ hA hB).2.1, (ih _ _ _ _ hA hB).2.2⟩

/-- `Rows.Columns` keeps the budget (the held `<row>` token it starts from does not count: it was consumed by
`Next`), leaves `seekRow` alone and never puts tokens back -/
theorem rowsColumns_budget (B : Int) (s : RowsState)
    (h1 : s.cur + (s.toks.length : Int) ≤ B) (h2 : (Facts.TotalRows : Int) + (s.toks.length : Int) ≤ B) :
    (rowsColumns s).2.2.seek = s.seek ∧
    (rowsColumns s).2.2.toks.length ≤ s.toks.length ∧
    (rowsColumns s).2.2.cur + ((rowsColumns s).2.2.toks.length : Int) ≤ B := by
  unfold rowsColumns
  split
  · exact ⟨rfl, Nat.le_refl _, h1⟩
  · split
    · rename_i r _
      rw [columnsScan_row]
      split
      · exact ⟨by simp, by simp, by dsimp only; omega⟩
      · rename_i hr
        have hc : colCur1 r s.cur false + (s.toks.length : Int) ≤ B :=
          colCur1_le r s.cur false _ B hr (by simp; omega) h2
        split
        · exact ⟨by simp, by simp, by dsimp only; omega⟩
        · exact columnsScan_budget B s.seek s.toks _ true 0 0 hc h2
    · exact columnsScan_budget B s.seek s.toks s.cur true 0 0 h1 h2

/-- the `GetRows` loop: the rows delivered beyond `acc` are at most `(B - seekRow) + tokens`, whatever the fuel -/
theorem getRowsIter_budget (B : Int) (fuel : Nat) :
    ∀ (s : RowsState) (acc : List Nat),
    s.cur + (s.toks.length : Int) ≤ B → (Facts.TotalRows : Int) + (s.toks.length : Int) ≤ B →
    (getRowsIter fuel s acc).1.length ≤ acc.length + (B - s.seek).toNat + s.toks.length := by
  induction fuel with
  | zero => intro s acc _ _; unfold getRowsIter; simp only [List.length_reverse]; omega
  | succ fuel ih =>
    intro s acc h1 h2
    unfold getRowsIter
    have hn := rowsNext_budget B s h1 h2
    generalize rowsNext s = rn at hn
    obtain ⟨ok, e, s1⟩ := rn
    simp only at hn ⊢
    obtain ⟨n1, n2, n3, n4⟩ := hn
    split
    · simp only [List.length_reverse]; omega
    · split
      · simp only [List.length_reverse]; omega
      · rename_i hok
        have hok' : ok = true := by cases ok <;> simp_all
        have hc := rowsColumns_budget B s1 n4 (by omega)
        generalize rowsColumns s1 = rc at hc
        obtain ⟨n, ce, s2⟩ := rc
        simp only at hc ⊢
        obtain ⟨c1, c2, c3⟩ := hc
        split
        · simp only [List.length_reverse]; omega
        · simp only [List.length_reverse]; omega
        · have := ih s2 (n :: acc) c3 (by omega)
          simp only [List.length_cons] at this
          rw [c1, n1] at this
          rcases n3 hok' with hcu | hlt
          · omega
          · omega

/-- a run that stopped before its fuel was used up is the unbounded run: more fuel never changes it -/
theorem getRowsIter_fuel_enough (fuel : Nat) :
    ∀ (s : RowsState) (acc : List Nat), (getRowsIter fuel s acc).1.length < acc.length + fuel →
    ∀ k, getRowsIter (fuel + k) s acc = getRowsIter fuel s acc := by
  induction fuel with
  | zero => intro s acc h; unfold getRowsIter at h; simp only [List.length_reverse] at h; omega
  | succ fuel ih =>
    intro s acc h k
    rw [Nat.add_right_comm fuel 1 k]
    unfold getRowsIter at h ⊢
    generalize rowsNext s = rn at h ⊢
    obtain ⟨ok, e, s1⟩ := rn
    simp only at h ⊢
    split
    · rfl
    · split
      · rfl
      · generalize rowsColumns s1 = rc at h ⊢
        obtain ⟨n, ce, s2⟩ := rc
        simp only at h ⊢
        rename_i he hok
        rw [if_neg he, if_neg hok] at h
        cases ce with
        | maxRows => rfl
        | other => rfl
        | none =>
          simp only at h ⊢
          exact ih s2 (n :: acc) (by simp only [List.length_cons]; omega) k

/-! ## width of a streamed row -/

/-- every `<c>` token with a parsable reference has its column inside the grid (what `CellNameToCoordinates`
guarantees, C20) -/
def ColsInGrid (toks : List Tok) : Prop :=
  ∀ c b v, Tok.cell (some c) b v ∈ toks → c ≤ (Facts.MaxColumns : Int)

theorem ColsInGrid.tail {t : Tok} {rest : List Tok} (h : ColsInGrid (t :: rest)) : ColsInGrid rest :=
  fun c b v hm => h c b v (List.mem_cons_of_mem _ hm)

/-- the blank-padding of `rowXMLHandler`: the row length never exceeds the budget `B ≥ MaxColumns + tokens` -/
theorem columnsScan_width (B : Int) (seek : Int) (toks : List Tok) :
    ∀ (cur : Int) (heldNil : Bool) (cells : Nat) (cellCol : Int), ColsInGrid toks →
    (cells : Int) + (toks.length : Int) ≤ B → cellCol + (toks.length : Int) ≤ B →
    (Facts.MaxColumns : Int) + (toks.length : Int) ≤ B →
    ((columnsScan cur seek heldNil cells cellCol toks).1 : Int) ≤ B := by
  induction toks with
  | nil => intro cur hn cells cc _ h1 _ _; unfold columnsScan; simpa using h1
  | cons t rest ih =>
    intro cur hn cells cc hG h1 h2 h3
    simp only [List.length_cons, Int.natCast_add, Int.cast_ofNat_Int] at h1 h2 h3
    have hR := hG.tail
    cases t with
    | row r =>
      rw [columnsScan_row]
      split
      · dsimp only; omega
      · split
        · dsimp only; omega
        · exact ih _ _ _ _ hR (by omega) (by omega) (by omega)
    | cell col bad val =>
      cases col with
      | none =>
        unfold columnsScan
        split
        · dsimp only; omega
        · refine ih _ _ _ _ hR ?_ ?_ (by omega)
          · dsimp only; split <;> omega
          · dsimp only; omega
      | some c =>
        have hc : c ≤ (Facts.MaxColumns : Int) := hG c bad val (List.mem_cons_self ..)
        unfold columnsScan
        split
        · dsimp only; omega
        · refine ih _ _ _ _ hR ?_ ?_ (by omega)
          · dsimp only; split <;> omega
          · dsimp only; omega
    | endData => unfold columnsScan; dsimp only; omega
    | other => unfold columnsScan; exact ih _ _ _ _ hR (by omega) (by omega) (by omega)

/-- `Rows.Columns`: a streamed row is at most MaxColumns + remaining tokens wide -/
theorem rowsColumns_width (s : RowsState) (hG : ColsInGrid s.toks) :
    (rowsColumns s).1 ≤ Facts.MaxColumns + s.toks.length := by
  have key : ((rowsColumns s).1 : Int) ≤ (Facts.MaxColumns : Int) + (s.toks.length : Int) := by
    unfold rowsColumns
    split
    · dsimp only; omega
    · split
      · rw [columnsScan_row]
        split
        · dsimp only; omega
        · split
          · dsimp only; omega
          · exact columnsScan_width _ s.seek s.toks _ true 0 0 hG (by omega) (by omega) (by omega)
      · exact columnsScan_width _ s.seek s.toks _ true 0 0 hG (by omega) (by omega) (by omega)
  omega

/-! ## tokens from the raw attribute texts -/

/-- a `<c>` element as `rowXMLHandler` sees it, from the raw text of its `r` attribute: no reference → the
running column; `CellNameToCoordinates` fails → error; otherwise the parsed column (`refOf` is C20's model) -/
def cellTok (s : List Char) (val : Bool) : Tok :=
  match refOf s with
  | .orig (some (c, _)) => .cell (some c) false val
  | .orig none => .cell none true val
  | _ => .cell none false val

/-- what the XML decoder delivers, with the `r` text of each cell undecoded -/
inductive RawTok where
  | row (r : Int)
  | cell (s : List Char) (val : Bool)
  | endData
  | other

def RawTok.tok : RawTok → Tok
  | .row r => .row r
  | .cell s v => cellTok s v
  | .endData => .endData
  | .other => .other

def toksOf (raw : List RawTok) : List Tok := raw.map RawTok.tok

theorem toksOf_length (raw : List RawTok) : (toksOf raw).length = raw.length := by
  simp [toksOf]

/-- a parsed column in the token stream is the column of an accepted reference text -/
theorem toksOf_col (raw : List RawTok) (c : Int) (b v : Bool) (h : Tok.cell (some c) b v ∈ toksOf raw) :
    ∃ s rw, Ref.cellNameToCoordinates s = .ok (c, rw) := by
  simp only [toksOf, List.mem_map] at h
  obtain ⟨x, _, hx⟩ := h
  cases x with
  | row r => simp [RawTok.tok] at hx
  | endData => simp [RawTok.tok] at hx
  | other => simp [RawTok.tok] at hx
  | cell s val =>
    simp only [RawTok.tok, cellTok] at hx
    split at hx
    · rename_i c' r' heq
      simp only [Tok.cell.injEq, Option.some.injEq] at hx
      simp only [refOf] at heq
      split at heq
      · cases heq
      · split at heq
        · rename_i p hp
          simp only [R.orig.injEq, Option.some.injEq] at heq
          exact ⟨s, r', by rw [hp, heq, hx.1]⟩
        · simp at heq
    · simp at hx
    · simp at hx

end XlModel.Decode
