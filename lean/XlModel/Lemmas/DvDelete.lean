import XlModel.DvDelete
namespace XlModel.DvDelete
open XlModel

/-! rows of a run -/

def intsUpTo (a : Int) : Nat → List Int
  | 0 => []
  | n + 1 => a :: intsUpTo (a + 1) n

theorem rowsUpTo_eq (c a : Int) (n : Nat) : rowsUpTo c a n = (intsUpTo a n).map (fun r => (c, r)) := by
  induction n generalizing a with
  | zero => rfl
  | succ n ih => simp [rowsUpTo, intsUpTo, ih]

theorem intsUpTo_succ (a : Int) (n : Nat) : intsUpTo a (n + 1) = intsUpTo a n ++ [a + n] := by
  induction n generalizing a with
  | zero => simp [intsUpTo]
  | succ n ih =>
    rw [intsUpTo, ih (a + 1)]
    simp only [intsUpTo, List.cons_append]
    have : a + 1 + (n : Int) = a + ((n + 1 : Nat) : Int) := by omega
    rw [this]

/-- rows `l..r` -/
def span (l r : Int) : List Int := intsUpTo l (r - l + 1).toNat

theorem span_self (x : Int) : span x x = [x] := by
  simp [span, intsUpTo]

theorem span_succ (l r : Int) (h : l ≤ r) : span l (r + 1) = span l r ++ [r + 1] := by
  unfold span
  have e : (r + 1 - l + 1).toNat = (r - l + 1).toNat + 1 := by omega
  rw [e, intsUpTo_succ]
  congr 2
  omega

def runRows (run : Int × Int) : List Int := span (min run.1 run.2) (max run.1 run.2)

theorem runCells_eq (c : Int) (run : Int × Int) : runCells c run = (runRows run).map (fun r => (c, r)) := by
  simp [runCells, runRows, span, rowsUpTo_eq]

theorem mem_span_succ (l r y : Int) (h : l ≤ r) : y ∈ span l (r + 1) ↔ y ∈ span l r ∨ y = r + 1 := by
  rw [span_succ l r h]; simp

/-- the run loop on rows in ascending order (duplicates allowed) covers exactly those rows -/
theorem mem_squashGo : ∀ (xs : List Int) (l r : Int), l ≤ r → (r :: xs).Pairwise (· ≤ ·) → ∀ y,
    (y ∈ (squashGo l r xs).flatMap runRows ↔ y ∈ span l r ∨ y ∈ xs) := by
  intro xs
  induction xs with
  | nil =>
    intro l r h _ y
    simp [squashGo, runRows, Int.min_eq_left h, Int.max_eq_right h]
  | cons x xs ih =>
    intro l r h hp y
    have hrx : r ≤ x := (List.pairwise_cons.1 hp).1 x (by simp)
    have hp' : (x :: xs).Pairwise (· ≤ ·) := (List.pairwise_cons.1 hp).2
    unfold squashGo
    by_cases hg : x - r > 1
    · simp only [hg, if_true, List.flatMap_cons, List.mem_append]
      rw [ih x x (Int.le_refl x) hp' y, span_self]
      simp [runRows, Int.min_eq_left h, Int.max_eq_right h]
    · simp only [hg, if_false]
      rw [ih l x (by omega) hp' y]
      have hx : x = r ∨ x = r + 1 := by omega
      rcases hx with e | e
      · subst e
        simp only [List.mem_cons]
        constructor
        · intro h'; rcases h' with a | a
          · exact Or.inl a
          · exact Or.inr (Or.inr a)
        · intro h'; rcases h' with a | a | a
          · exact Or.inl a
          · subst a
            left
            have : y ∈ span l y ∨ y = y := Or.inr rfl
            by_cases hl : l = y
            · subst hl; rw [span_self]; simp
            · have h2 : l ≤ y - 1 := by omega
              have := (mem_span_succ l (y - 1) y h2).2 (Or.inr (by omega))
              have e2 : y - 1 + 1 = y := by omega
              rw [e2] at this; exact this
          · exact Or.inr a
      · subst e
        simp only [List.mem_cons, mem_span_succ l r y h]
        constructor
        · intro h'; rcases h' with (a | a) | a
          · exact Or.inl a
          · exact Or.inr (Or.inl a)
          · exact Or.inr (Or.inr a)
        · intro h'; rcases h' with a | a | a
          · exact Or.inl (Or.inl a)
          · exact Or.inl (Or.inr a)
          · exact Or.inr a

theorem mem_squashRows (rows : List Int) (hp : rows.Pairwise (· ≤ ·)) (y : Int) :
    y ∈ (squashRows rows).flatMap runRows ↔ y ∈ rows := by
  cases rows with
  | nil => simp [squashRows]
  | cons x xs =>
    unfold squashRows
    rw [mem_squashGo xs x x (Int.le_refl x) hp y, span_self]
    simp

/-! sorting -/

theorem mem_insertInt (x y : Int) (l : List Int) : y ∈ insertInt x l ↔ y = x ∨ y ∈ l := by
  induction l with
  | nil => simp [insertInt]
  | cons a t ih =>
    unfold insertInt
    by_cases h : x ≤ a
    · simp [h]
    · simp only [h, if_false, List.mem_cons, ih]
      constructor
      · intro h'; rcases h' with e | e | e
        · exact Or.inr (Or.inl e)
        · exact Or.inl e
        · exact Or.inr (Or.inr e)
      · intro h'; rcases h' with e | e | e
        · exact Or.inr (Or.inl e)
        · exact Or.inl e
        · exact Or.inr (Or.inr e)

theorem sorted_insertInt (x : Int) (l : List Int) (hl : l.Pairwise (· ≤ ·)) : (insertInt x l).Pairwise (· ≤ ·) := by
  induction l with
  | nil => simp [insertInt]
  | cons a t ih =>
    unfold insertInt
    have ha := (List.pairwise_cons.1 hl)
    by_cases h : x ≤ a
    · simp only [h, if_true]
      refine List.pairwise_cons.2 ⟨?_, hl⟩
      intro b hb
      simp only [List.mem_cons] at hb
      rcases hb with e | e
      · subst e; exact h
      · exact Int.le_trans h (ha.1 b e)
    · simp only [h, if_false]
      refine List.pairwise_cons.2 ⟨?_, ih ha.2⟩
      intro b hb
      rcases (mem_insertInt x b t).1 hb with e | e
      · subst e; omega
      · exact ha.1 b e

theorem mem_sortInts (l : List Int) (y : Int) : y ∈ sortInts l ↔ y ∈ l := by
  induction l with
  | nil => simp [sortInts]
  | cons a t ih =>
    simp only [sortInts, List.foldr_cons] at ih ⊢
    rw [mem_insertInt, ih]
    simp

theorem sorted_sortInts (l : List Int) : (sortInts l).Pairwise (· ≤ ·) := by
  induction l with
  | nil => simp [sortInts]
  | cons a t ih =>
    simp only [sortInts, List.foldr_cons] at ih ⊢
    exact sorted_insertInt a _ ih

theorem mem_dedup (l : List Int) (a : Int) : a ∈ dedup l ↔ a ∈ l := by
  induction l with
  | nil => simp [dedup]
  | cons x xs ih =>
    unfold dedup
    by_cases h : x ∈ xs
    · simp only [List.contains_iff_mem, h, if_true, ih, List.mem_cons]
      constructor
      · intro h''; exact Or.inr h''
      · intro h''
        rcases h'' with e | e
        · subst e; exact h
        · exact e
    · simp [h, ih]

theorem mem_colRows (cells : List Cell) (c r : Int) : r ∈ colRows cells c ↔ (c, r) ∈ cells := by
  unfold colRows
  simp only [List.mem_map, List.mem_filter, beq_iff_eq]
  constructor
  · intro ⟨p, ⟨hp, hc⟩, hr⟩
    obtain ⟨pc, pr⟩ := p
    simp at hc hr
    subst hc; subst hr; exact hp
  · intro h; exact ⟨(c, r), ⟨h, rfl⟩, rfl⟩

theorem mem_removeCells (cells del : List Cell) (a : Cell) : a ∈ removeCells cells del ↔ a ∈ cells ∧ a ∉ del := by
  simp [removeCells]

/-- the rewritten rule denotes exactly the rule's cells outside the deleted range — for EVERY
rule (overlapping areas, any order of the areas) -/
theorem mem_rewriteRule (cells del : List Cell) (a : Cell) :
    a ∈ rewriteRule cells del ↔ a ∈ cells ∧ a ∉ del := by
  obtain ⟨ac, ar⟩ := a
  unfold rewriteRule
  by_cases hh : hits cells del = true
  · simp only [hh, Bool.not_true, Bool.false_eq_true, if_false, List.mem_flatMap]
    have hsq : ∀ c y, (c, y) ∈ (squashRows (sortInts (colRows (removeCells cells del) c))).flatMap (runCells c) ↔
        (c, y) ∈ removeCells cells del := by
      intro c y
      have h2 : (squashRows (sortInts (colRows (removeCells cells del) c))).flatMap (runCells c) =
          ((squashRows (sortInts (colRows (removeCells cells del) c))).flatMap runRows).map (fun r => (c, r)) := by
        rw [List.map_flatMap]
        congr 1
        funext run
        exact runCells_eq c run
      rw [h2]
      simp only [List.mem_map]
      constructor
      · intro ⟨r, hr, e⟩
        injection e with _ e2
        subst e2
        rw [mem_squashRows _ (sorted_sortInts _), mem_sortInts, mem_colRows] at hr
        exact hr
      · intro h
        exact ⟨y, by rw [mem_squashRows _ (sorted_sortInts _), mem_sortInts, mem_colRows]; exact h, rfl⟩
    constructor
    · intro ⟨c, _, run, hrun, hin⟩
      have hm : (ac, ar) ∈ (squashRows (sortInts (colRows (removeCells cells del) c))).flatMap (runCells c) :=
        List.mem_flatMap.2 ⟨run, hrun, hin⟩
      have hc : ac = c := by
        rw [runCells_eq] at hin
        simp only [List.mem_map] at hin
        obtain ⟨r, _, e⟩ := hin
        injection e with e1 _
        exact e1.symm
      subst hc
      exact (mem_removeCells cells del _).1 ((hsq ac ar).1 hm)
    · intro h
      have hm := (hsq ac ar).2 ((mem_removeCells cells del (ac, ar)).2 h)
      obtain ⟨run, hrun, hin⟩ := List.mem_flatMap.1 hm
      refine ⟨ac, ?_, run, hrun, hin⟩
      rw [mem_sortInts, mem_dedup]
      exact List.mem_map.2 ⟨(ac, ar), h.1, rfl⟩
  · have hh' : hits cells del = false := by simpa using hh
    simp only [hh', Bool.not_false, if_true]
    constructor
    · intro h
      refine ⟨h, ?_⟩
      intro hd
      have : hits cells del = true := by
        unfold hits
        simp only [List.any_eq_true]
        exact ⟨(ac, ar), h, by simpa using hd⟩
      rw [hh'] at this; cases this
    · intro h; exact h.1

end XlModel.DvDelete
