import XlModel.DvDelete
namespace XlModel.DvDelete
open XlModel

/-! rows of a run -/

def intsUpTo (a : Int) : Nat → List Int
  | 0 => []
  | n + 1 => a :: intsUpTo (a + 1) n

theorem rowsUpTo_eq (c a : Int) (n : Nat) : rowsUpTo c a n = (intsUpTo a n).map (fun r => (c, r)) := by
  induction n generalizing a with
  | zero => rfl
  | succ n ih => simp [rowsUpTo, intsUpTo, ih]

theorem intsUpTo_succ (a : Int) (n : Nat) : intsUpTo a (n + 1) = intsUpTo a n ++ [a + n] := by
  induction n generalizing a with
  | zero => simp [intsUpTo]
  | succ n ih =>
    rw [intsUpTo, ih (a + 1)]
    simp only [intsUpTo, List.cons_append]
    have : a + 1 + (n : Int) = a + ((n + 1 : Nat) : Int) := by omega
    rw [this]

/-- rows `l..r` -/
def span (l r : Int) : List Int := intsUpTo l (r - l + 1).toNat

theorem span_self (x : Int) : span x x = [x] := by
  simp [span, intsUpTo]

theorem span_succ (l r : Int) (h : l ≤ r) : span l (r + 1) = span l r ++ [r + 1] := by
  unfold span
  have e : (r + 1 - l + 1).toNat = (r - l + 1).toNat + 1 := by omega
  rw [e, intsUpTo_succ]
  congr 2
  omega

def runRows (run : Int × Int) : List Int := span (min run.1 run.2) (max run.1 run.2)

theorem runCells_eq (c : Int) (run : Int × Int) : runCells c run = (runRows run).map (fun r => (c, r)) := by
  simp [runCells, runRows, span, rowsUpTo_eq]

/-- the run loop on strictly ascending rows covers exactly those rows, in order -/
theorem squashGo_ascending : ∀ (xs : List Int) (l r : Int), l ≤ r →
    (r :: xs).Pairwise (· < ·) →
    (squashGo l r xs).flatMap runRows = span l r ++ xs := by
  intro xs
  induction xs with
  | nil =>
    intro l r h _
    simp [squashGo, runRows, Int.min_eq_left h, Int.max_eq_right h]
  | cons x xs ih =>
    intro l r h hp
    have hrx : r < x := by
      have := (List.pairwise_cons.1 hp).1 x (by simp)
      exact this
    have hp' : (x :: xs).Pairwise (· < ·) := (List.pairwise_cons.1 hp).2
    unfold squashGo
    by_cases hg : x - r > 1
    · simp only [hg, if_true, List.flatMap_cons]
      rw [ih x x (Int.le_refl x) hp', span_self]
      simp [runRows, Int.min_eq_left h, Int.max_eq_right h]
    · simp only [hg, if_false]
      have hx : x = r + 1 := by omega
      rw [ih l x (by omega) hp', hx, span_succ l r h]
      simp

theorem squashRows_ascending (rows : List Int) (hp : rows.Pairwise (· < ·)) :
    (squashRows rows).flatMap runRows = rows := by
  cases rows with
  | nil => rfl
  | cons x xs =>
    unfold squashRows
    rw [squashGo_ascending xs x x (Int.le_refl x) hp, span_self]
    rfl

/-! erasing cells -/

theorem mem_eraseCells (del cells : List Cell) (hn : cells.Nodup) (a : Cell) :
    a ∈ eraseCells cells del ↔ a ∈ cells ∧ a ∉ del := by
  unfold eraseCells
  induction del generalizing cells with
  | nil => simp
  | cons d ds ih =>
    simp only [List.foldl_cons]
    rw [ih (cells.erase d) (hn.erase d), hn.mem_erase_iff]
    simp only [List.mem_cons, not_or]
    constructor
    · intro ⟨⟨h1, h2⟩, h3⟩; exact ⟨h2, h1, h3⟩
    · intro ⟨h1, h2, h3⟩; exact ⟨⟨h2, h1⟩, h3⟩

theorem eraseCells_sublist (del cells : List Cell) : (eraseCells cells del).Sublist cells := by
  unfold eraseCells
  induction del generalizing cells with
  | nil => exact List.Sublist.refl _
  | cons d ds ih =>
    simp only [List.foldl_cons]
    exact List.Sublist.trans (ih (cells.erase d)) (List.erase_sublist)

theorem mem_dedup (l : List Int) (a : Int) : a ∈ dedup l ↔ a ∈ l := by
  induction l with
  | nil => simp [dedup]
  | cons x xs ih =>
    unfold dedup
    by_cases h : x ∈ xs
    · simp only [List.contains_iff_mem, h, if_true, ih, List.mem_cons]
      constructor
      · intro h''; exact Or.inr h''
      · intro h''
        rcases h'' with e | e
        · subst e; exact h
        · exact e
    · simp [h, ih]

/-- a rule whose sqref lists every cell once and, inside each column, with increasing rows
(a single range, disjoint areas written top to bottom, anything `squashSqref` produced) -/
def Clean (cells : List Cell) : Prop :=
  cells.Nodup ∧ ∀ c, (colRows cells c).Pairwise (· < ·)

theorem colRows_sublist (a b : List Cell) (h : a.Sublist b) (c : Int) : (colRows a c).Sublist (colRows b c) := by
  unfold colRows
  exact (h.filter _).map _

theorem mem_colRows (cells : List Cell) (c r : Int) : r ∈ colRows cells c ↔ (c, r) ∈ cells := by
  unfold colRows
  simp only [List.mem_map, List.mem_filter, beq_iff_eq]
  constructor
  · intro ⟨p, ⟨hp, hc⟩, hr⟩
    obtain ⟨pc, pr⟩ := p
    simp at hc hr
    subst hc; subst hr; exact hp
  · intro h; exact ⟨(c, r), ⟨h, rfl⟩, rfl⟩

/-- the rewritten rule of a clean rule denotes exactly its cells outside the deleted range -/
theorem mem_rewriteRule (cells del : List Cell) (hc : Clean cells) (a : Cell) :
    a ∈ rewriteRule cells del ↔ a ∈ cells ∧ a ∉ del := by
  obtain ⟨ac, ar⟩ := a
  unfold rewriteRule
  simp only [List.mem_flatMap]
  have hsq : ∀ c, (squashRows (colRows (eraseCells cells del) c)).flatMap (runCells c) =
      (colRows (eraseCells cells del) c).map (fun r => (c, r)) := by
    intro c
    have hp : (colRows (eraseCells cells del) c).Pairwise (· < ·) :=
      List.Pairwise.sublist (colRows_sublist _ _ (eraseCells_sublist del cells) c) (hc.2 c)
    have := squashRows_ascending _ hp
    have h2 : (squashRows (colRows (eraseCells cells del) c)).flatMap (runCells c) =
        ((squashRows (colRows (eraseCells cells del) c)).flatMap runRows).map (fun r => (c, r)) := by
      rw [List.map_flatMap]
      congr 1
      funext run
      exact runCells_eq c run
    rw [h2, this]
  constructor
  · intro ⟨c, hcm, run, hrun, hin⟩
    have : (ac, ar) ∈ (squashRows (colRows (eraseCells cells del) c)).flatMap (runCells c) :=
      List.mem_flatMap.2 ⟨run, hrun, hin⟩
    rw [hsq c] at this
    simp only [List.mem_map] at this
    obtain ⟨r, hr, e⟩ := this
    injection e with e1 e2
    subst e1; subst e2
    exact (mem_eraseCells del cells hc.1 _).1 ((mem_colRows _ _ _).1 hr)
  · intro h
    have hmem := (mem_eraseCells del cells hc.1 (ac, ar)).2 h
    have hcol : ac ∈ dedup (cells.map (·.1)) := (mem_dedup _ _).2 (List.mem_map.2 ⟨(ac, ar), h.1, rfl⟩)
    have : (ac, ar) ∈ (squashRows (colRows (eraseCells cells del) ac)).flatMap (runCells ac) := by
      rw [hsq ac]
      exact List.mem_map.2 ⟨ar, (mem_colRows _ _ _).2 hmem, rfl⟩
    obtain ⟨run, hrun, hin⟩ := List.mem_flatMap.1 this
    exact ⟨ac, hcol, run, hrun, hin⟩

end XlModel.DvDelete
