import XlModel.FormulaRef
import XlModel.Lemmas.Ref
import XlModel.Lemmas.Ref2
namespace XlModel.FormulaRef
end XlModel.FormulaRef
