/-
Helper lemmas for the formula-reference rewriter (C07), part 1: character
classes, column/row codecs on rendered endpoints, and the two flush functions
(`adjustFormulaColumnName`, `adjustFormulaRowNumber`) against `Spec.shiftCol` /
`Spec.shiftRow`.
-/
import XlModel.FormulaRef
import XlModel.Lemmas.Ref
import XlModel.Lemmas.Ref2
import XlModel.Lemmas.Ref3

namespace XlModel.FormulaRef
open XlModel XlModel.Ref

/-! ### character classes are the ones of the reference codec -/

theorem isColC_eq (c : Char) : Impl.isColC c = isLetter c := rfl
theorem isRowC_eq (c : Char) : Impl.isRowC c = isDigit c := rfl
theorem isDollarC_eq (c : Char) : Impl.isDollarC c = isDollar c := rfl

theorem limits : Facts.MaxColumns = 16384 ∧ Facts.MinColumns = 1 ∧ Facts.TotalRows = 1048576 := by decide

/-! ### codecs on canonical names -/

theorem colNum_numToName {n : Nat} (h1 : 1 ≤ n) (h2 : n ≤ Facts.MaxColumns) :
    columnNameToNumber (numToName n) = .ok (n : Int) :=
  (columnNameToNumber_ok_iff _ _).mpr ⟨numToName_ne_nil h1, n, colRaw_numToName n, h2, rfl⟩

theorem colName_ofInt {i : Int} (h1 : 1 ≤ i) (h2 : i ≤ (Facts.MaxColumns : Int)) :
    columnNumberToName i = .ok (numToName i.toNat) := by
  have hM := limits
  unfold columnNumberToName
  have a : ¬ (i < (Facts.MinColumns : Int)) := by rw [hM.2.1]; omega
  have b : ¬ (i > (Facts.MaxColumns : Int)) := by omega
  simp [a, b]

theorem itoa_ne_nil (n : Nat) : itoa n ≠ [] := by
  unfold itoa
  split
  · simp
  · exact itoaAux_ne_nil (by omega)

theorem itoa_digits (n : Nat) : ∀ c ∈ itoa n, isDigit c = true := by
  unfold itoa
  split
  · intro c hc
    simp only [List.mem_singleton] at hc
    subst hc
    decide
  · exact itoaAux_digits n

theorem digitsVal_itoa {n : Nat} (h : 1 ≤ n) : digitsVal (itoa n) = some n := by
  rw [itoa_pos h]; exact digitsVal_itoaAux h

theorem atoiSat_itoa {n : Nat} (h1 : 1 ≤ n) (h2 : n ≤ Facts.TotalRows) : Impl.atoiSat (itoa n) = (n : Int) := by
  have hM := limits
  unfold Impl.atoiSat
  rw [digitsVal_itoa h1]
  have : n < 9223372036854775808 := by omega
  simp [this]

theorem itoaInt_nat {i : Int} (h : 1 ≤ i) : itoaInt i = itoa i.toNat := by
  rw [itoaInt_pos h, itoa_pos (by omega)]

/-! ### shiftIdx arithmetic -/

theorem shiftIdx_lt {num off : Int} {i : Nat} (h : (i : Int) < num) : Spec.shiftIdx num off i = some i := by
  simp [Spec.shiftIdx, h]

theorem shiftIdx_ge {num off : Int} {i j : Nat} (h : num ≤ (i : Int)) (hs : Spec.shiftIdx num off i = some j) :
    j = ((i : Int) + off).toNat := by
  unfold Spec.shiftIdx at hs
  have : ¬ ((i : Int) < num) := by omega
  simp only [this, if_false] at hs
  split at hs
  · simpa using hs.symm
  · split at hs
    · simpa using hs.symm
    · cases hs

/-! ### the two flush functions against the Spec -/

/-- `adjustFormulaColumnName` on a canonical in-grid column name whose relocation stays in the
grid: the output is the relocated name and `abs` is cleared. -/
theorem adjCol_render (kr : Bool) (e : Edit) (c c' : Spec.ColEnd) (op : Str)
    (hc : Spec.colOk c) (hs : Spec.shiftCol kr e c = some c') (hc' : Spec.colOk c') :
    Impl.adjCol kr e (numToName c.n) op c.abs = .ok (op ++ numToName c'.n, false) := by
  have hM := limits
  obtain ⟨h1, h2⟩ := hc
  obtain ⟨h1', h2'⟩ := hc'
  unfold Impl.adjCol
  have hne : (numToName c.n).isEmpty = false := by
    have := numToName_ne_nil h1
    cases h : numToName c.n with
    | nil => exact absurd h this
    | cons _ _ => rfl
  unfold Spec.shiftCol Spec.moves at hs
  by_cases hkeep : (!c.abs && kr) = true
  · -- relative coordinate of a defined name: copied, `abs` stays false
    have hab : c.abs = false := by
      cases hh : c.abs <;> simp_all
    have hk : kr = true := by
      cases hh : kr <;> simp_all
    have hmv : (c.abs || !kr) = false := by simp [hab, hk]
    simp only [hmv, Bool.false_eq_true, and_false, if_false, Option.some.injEq] at hs
    subst hs
    simp [hne, hab, hk]
  · have hmv : (c.abs || !kr) = true := by
      cases hh : c.abs <;> cases hk : kr <;> simp_all
    simp only [hne, Bool.false_or, hkeep, Bool.false_eq_true, if_false, colNum_numToName h1 h2]
    simp only [hmv, and_true] at hs
    by_cases hd : e.dir = .cols
    · simp only [hd, if_true, true_and] at hs ⊢
      by_cases hge : (c.n : Int) ≥ e.num
      · simp only [hge, if_true]
        obtain ⟨j, hj, hcj⟩ : ∃ j, Spec.shiftIdx e.num e.off c.n = some j ∧ c' = { c with n := j } := by
          cases hx : Spec.shiftIdx e.num e.off c.n with
          | none => simp [hx] at hs
          | some j => simp [hx] at hs; exact ⟨j, rfl, hs.symm⟩
        have hjv := shiftIdx_ge hge hj
        have hcn : c'.n = j := by rw [hcj]
        have hpos : 1 ≤ (c.n : Int) + e.off := by omega
        have hle : (c.n : Int) + e.off ≤ (Facts.MaxColumns : Int) := by omega
        have hw : wrap64 ((c.n : Int) + e.off) = (c.n : Int) + e.off := wrap64_small (by omega) (by omega)
        have hfl : ¬ ((c.n : Int) + e.off < Facts.C07.colFloor) := by
          show ¬ ((c.n : Int) + e.off < 1); omega
        simp only [hw, hfl, if_false, colName_ofInt hpos hle, hcn, hjv]
      · have hlt : (c.n : Int) < e.num := by omega
        simp only [hge, if_false]
        rw [shiftIdx_lt hlt] at hs
        simp only [Option.map_some, Option.some.injEq] at hs
        subst hs
        rfl
    · simp only [hd, false_and, if_false, Option.some.injEq] at hs ⊢
      subst hs
      rfl

/-- `adjustFormulaRowNumber` on a canonical in-grid row number -/
theorem adjRow_render (kr : Bool) (e : Edit) (r r' : Spec.RowEnd) (op : Str)
    (hr : Spec.rowOk r) (hs : Spec.shiftRow kr e r = some r') (hr' : Spec.rowOk r') :
    Impl.adjRow kr e (itoa r.n) op r.abs = .ok (op ++ itoa r'.n, false) := by
  have hM := limits
  obtain ⟨h1, h2⟩ := hr
  obtain ⟨h1', h2'⟩ := hr'
  unfold Impl.adjRow
  have hne : (itoa r.n).isEmpty = false := by
    have := itoa_ne_nil r.n
    cases h : itoa r.n with
    | nil => exact absurd h this
    | cons _ _ => rfl
  unfold Spec.shiftRow Spec.moves at hs
  by_cases hkeep : (!r.abs && kr) = true
  · have hab : r.abs = false := by
      cases hh : r.abs <;> simp_all
    have hk : kr = true := by
      cases hh : kr <;> simp_all
    have hmv : (r.abs || !kr) = false := by simp [hab, hk]
    simp only [hmv, Bool.false_eq_true, and_false, if_false, Option.some.injEq] at hs
    subst hs
    simp [hne, hab, hk]
  · have hmv : (r.abs || !kr) = true := by
      cases hh : r.abs <;> cases hk : kr <;> simp_all
    simp only [hne, Bool.false_or, hkeep, Bool.false_eq_true, if_false, atoiSat_itoa h1 h2]
    simp only [hmv, and_true] at hs
    by_cases hd : e.dir = .rows
    · simp only [hd, if_true, true_and] at hs ⊢
      by_cases hge : (r.n : Int) ≥ e.num
      · simp only [hge, if_true]
        obtain ⟨j, hj, hcj⟩ : ∃ j, Spec.shiftIdx e.num e.off r.n = some j ∧ r' = { r with n := j } := by
          cases hx : Spec.shiftIdx e.num e.off r.n with
          | none => simp [hx] at hs
          | some j => simp [hx] at hs; exact ⟨j, rfl, hs.symm⟩
        have hjv := shiftIdx_ge hge hj
        have hcn : r'.n = j := by rw [hcj]
        have hpos : 1 ≤ (r.n : Int) + e.off := by omega
        have hle : (r.n : Int) + e.off ≤ (Facts.TotalRows : Int) := by omega
        have hw : wrap64 ((r.n : Int) + e.off) = (r.n : Int) + e.off := wrap64_small (by omega) (by omega)
        have hfl : ¬ ((r.n : Int) + e.off < Facts.C07.rowFloor) := by
          show ¬ ((r.n : Int) + e.off < 1); omega
        have hmx : ¬ ((r.n : Int) + e.off > (Facts.TotalRows : Int)) := by omega
        simp only [hw, hfl, if_false, hmx, itoaInt_nat hpos, hcn, hjv]
      · have hlt : (r.n : Int) < e.num := by omega
        simp only [hge, if_false]
        rw [shiftIdx_lt hlt] at hs
        simp only [Option.map_some, Option.some.injEq] at hs
        subst hs
        rfl
    · simp only [hd, false_and, if_false, Option.some.injEq] at hs ⊢
      subst hs
      rfl

end XlModel.FormulaRef
