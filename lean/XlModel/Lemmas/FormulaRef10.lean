/-
C07, shared formulas: `shiftCell` (cell.go) on rendered cell references — a relative reference is
translated by the cell's offset from the master cell, an absolute one is kept.
-/
import XlModel.Props.C20
import XlModel.Lemmas.FormulaRef9

namespace XlModel.FormulaRef
open XlModel XlModel.Ref

theorem filter_letters (L : Str) (h : ∀ c ∈ L, isLetter c = true) : L.filter (fun c => !isDollar c) = L := by
  rw [List.filter_eq_self]
  intro c hc
  simp [isLetter_not_dollar (h c hc)]

theorem filter_digits (D : Str) (h : ∀ c ∈ D, isDigit c = true) : D.filter (fun c => !isDollar c) = D := by
  rw [List.filter_eq_self]
  intro c hc
  simp [isDigit_not_dollar (h c hc)]

theorem decode_canonical (c r : Nat) (hc1 : 1 ≤ c) (hc2 : c ≤ Facts.MaxColumns) (hr1 : 1 ≤ r) (hr2 : r ≤ Facts.TotalRows) :
    cellNameToCoordinates (numToName c ++ itoa r) = .ok ((c : Int), (r : Int)) := by
  obtain ⟨s, h1, h2⟩ := XlModel.Props.C20.cell_encode_decode c r false hc1 hc2 hr1 hr2
  rw [XlModel.Props.C20.cell_encode_eq c r false hc1 hc2 hr1 hr2] at h1
  simp only [Bool.false_eq_true, if_false, List.nil_append, List.append_nil, Except.ok.injEq] at h1
  rw [itoa_pos hr1, h1]
  exact h2

/-- a fully relative cell reference is translated by the offset -/
theorem shiftPart_relative (c r : Nat) (dCol dRow : Int)
    (hc1 : 1 ≤ c) (hc2 : c ≤ Facts.MaxColumns) (hr1 : 1 ≤ r) (hr2 : r ≤ Facts.TotalRows)
    (hc1' : 1 ≤ (c : Int) + dCol) (hc2' : (c : Int) + dCol ≤ Facts.MaxColumns)
    (hr1' : 1 ≤ (r : Int) + dRow) (hr2' : (r : Int) + dRow ≤ Facts.TotalRows) :
    Impl.shiftPart dCol dRow (Spec.render (.cell ⟨false, c⟩ ⟨false, r⟩)) =
      Spec.render (.cell ⟨false, ((c : Int) + dCol).toNat⟩ ⟨false, ((r : Int) + dRow).toNat⟩) := by
  have hL := numToName_letters c
  have hD := itoa_digits r
  have htext : Spec.render (.cell ⟨false, c⟩ ⟨false, r⟩) = numToName c ++ itoa r := by
    simp [Spec.render, Spec.renderCol, Spec.renderRow, Spec.dollarIf]
  have hnd : ∀ x ∈ numToName c ++ itoa r, isDollar x = false := by
    intro x hx
    rcases List.mem_append.mp hx with h | h
    · exact isLetter_not_dollar (hL x h)
    · exact isDigit_not_dollar (hD x h)
  have hfilt : (numToName c ++ itoa r).filter (fun ch => !isDollar ch) = numToName c ++ itoa r := by
    rw [List.filter_eq_self]; intro x hx; simp [hnd x hx]
  have hfirst : firstIdx isDollar (numToName c ++ itoa r) = none := by
    generalize numToName c ++ itoa r = l at hnd
    induction l with
    | nil => rfl
    | cons x xs ih =>
      simp only [firstIdx, hnd x (by simp), Bool.false_eq_true, if_false]
      rw [ih (fun y hy => hnd y (by simp [hy]))]; rfl
  have hlast : lastIdx isDollar (numToName c ++ itoa r) = none := lastIdx_none_of hnd
  obtain ⟨c', hc'⟩ : ∃ c' : Nat, (c : Int) + dCol = c' := ⟨((c : Int) + dCol).toNat, by omega⟩
  obtain ⟨r', hr'⟩ : ∃ r' : Nat, (r : Int) + dRow = r' := ⟨((r : Int) + dRow).toNat, by omega⟩
  rw [htext]
  unfold Impl.shiftPart
  simp only [hfilt, decode_canonical c r hc1 hc2 hr1 hr2, hfirst, hlast]
  rw [hc', hr']
  rw [XlModel.Props.C20.cell_encode_eq c' r' false (by omega) (by omega) (by omega) (by omega)]
  simp [Spec.render, Spec.renderCol, Spec.renderRow, Spec.dollarIf, itoa_pos (show 1 ≤ r' by omega)]

/-- a fully absolute cell reference is kept -/
theorem shiftPart_absolute (c r : Nat) (dCol dRow : Int)
    (hc1 : 1 ≤ c) (hc2 : c ≤ Facts.MaxColumns) (hr1 : 1 ≤ r) (hr2 : r ≤ Facts.TotalRows) :
    Impl.shiftPart dCol dRow (Spec.render (.cell ⟨true, c⟩ ⟨true, r⟩)) = Spec.render (.cell ⟨true, c⟩ ⟨true, r⟩) := by
  have hL := numToName_letters c
  have hD := itoa_digits r
  have htext : Spec.render (.cell ⟨true, c⟩ ⟨true, r⟩) = '$' :: (numToName c ++ '$' :: itoa r) := by
    simp [Spec.render, Spec.renderCol, Spec.renderRow, Spec.dollarIf]
  have hfilt : ('$' :: (numToName c ++ '$' :: itoa r)).filter (fun ch => !isDollar ch) = numToName c ++ itoa r := by
    have d : isDollar '$' = true := by decide
    simp [List.filter, d, filter_letters _ hL, filter_digits _ hD]
  have hfirst : firstIdx isDollar ('$' :: (numToName c ++ '$' :: itoa r)) = some 0 := by
    have d : isDollar '$' = true := by decide
    simp [firstIdx, d]
  have hlast : lastIdx isDollar ('$' :: (numToName c ++ '$' :: itoa r)) = some (1 + (numToName c).length) := by
    have e : '$' :: (numToName c ++ '$' :: itoa r) = (('$' :: numToName c) ++ ['$']) ++ itoa r := by simp
    rw [e, lastIdx_append_none _ _ _ (fun x hx => isDigit_not_dollar (hD x hx)), lastIdx_snoc _ _ _ (by decide)]
    simp; omega
  rw [htext]
  unfold Impl.shiftPart
  simp only [hfilt, decode_canonical c r hc1 hc2 hr1 hr2, hfirst, hlast]
  simp

theorem firstIdx_map_ne_zero (o : Option Nat) : ((o.map (· + 1)) == some 0) = false := by
  cases o <;> simp

/-- `A$1`: the column is translated, the row kept -/
theorem shiftPart_rowAbs (c r : Nat) (dCol dRow : Int)
    (hc1 : 1 ≤ c) (hc2 : c ≤ Facts.MaxColumns) (hr1 : 1 ≤ r) (hr2 : r ≤ Facts.TotalRows)
    (hc1' : 1 ≤ (c : Int) + dCol) (hc2' : (c : Int) + dCol ≤ Facts.MaxColumns) :
    Impl.shiftPart dCol dRow (Spec.render (.cell ⟨false, c⟩ ⟨true, r⟩)) =
      Spec.render (.cell ⟨false, ((c : Int) + dCol).toNat⟩ ⟨true, r⟩) := by
  have hL := numToName_letters c
  have hD := itoa_digits r
  obtain ⟨l, ls, hl, hll⟩ := numToName_cons hc1
  have htext : Spec.render (.cell ⟨false, c⟩ ⟨true, r⟩) = numToName c ++ '$' :: itoa r := by
    simp [Spec.render, Spec.renderCol, Spec.renderRow, Spec.dollarIf]
  have hfilt : (numToName c ++ '$' :: itoa r).filter (fun ch => !isDollar ch) = numToName c ++ itoa r := by
    have d : isDollar '$' = true := by decide
    simp [List.filter_append, List.filter, d, filter_letters _ hL, filter_digits _ hD]
  have hfirst : (firstIdx isDollar (numToName c ++ '$' :: itoa r) == some 0) = false := by
    rw [hl]
    simp only [List.cons_append, firstIdx, isLetter_not_dollar hll, Bool.false_eq_true, if_false]
    exact firstIdx_map_ne_zero _
  have hlast : lastIdx isDollar (numToName c ++ '$' :: itoa r) = some (numToName c).length := by
    have e : numToName c ++ '$' :: itoa r = (numToName c ++ ['$']) ++ itoa r := by simp
    rw [e, lastIdx_append_none _ _ _ (fun x hx => isDigit_not_dollar (hD x hx)), lastIdx_snoc _ _ _ (by decide)]
  have hlen : 0 < (numToName c).length := by rw [hl]; simp
  rw [htext]
  unfold Impl.shiftPart
  simp only [hfilt, decode_canonical c r hc1 hc2 hr1 hr2, hfirst, hlast, hlen, decide_true]
  simp [Impl.okOr, colName_ofInt hc1' hc2', itoaInt_nat (show (1 : Int) ≤ (r : Int) by omega),
    Spec.render, Spec.renderCol, Spec.renderRow, Spec.dollarIf]

/-- `$A1`: the column is kept, the row translated -/
theorem shiftPart_colAbs (c r : Nat) (dCol dRow : Int)
    (hc1 : 1 ≤ c) (hc2 : c ≤ Facts.MaxColumns) (hr1 : 1 ≤ r) (hr2 : r ≤ Facts.TotalRows)
    (hr1' : 1 ≤ (r : Int) + dRow) :
    Impl.shiftPart dCol dRow (Spec.render (.cell ⟨true, c⟩ ⟨false, r⟩)) =
      Spec.render (.cell ⟨true, c⟩ ⟨false, ((r : Int) + dRow).toNat⟩) := by
  have hL := numToName_letters c
  have hD := itoa_digits r
  have htext : Spec.render (.cell ⟨true, c⟩ ⟨false, r⟩) = '$' :: (numToName c ++ itoa r) := by
    simp [Spec.render, Spec.renderCol, Spec.renderRow, Spec.dollarIf]
  have hnd : ∀ x ∈ numToName c ++ itoa r, isDollar x = false := by
    intro x hx
    rcases List.mem_append.mp hx with h | h
    · exact isLetter_not_dollar (hL x h)
    · exact isDigit_not_dollar (hD x h)
  have hfilt : ('$' :: (numToName c ++ itoa r)).filter (fun ch => !isDollar ch) = numToName c ++ itoa r := by
    have d : isDollar '$' = true := by decide
    simp only [List.filter, d, Bool.not_true]
    rw [List.filter_eq_self]; intro x hx; simp [hnd x hx]
  have hfirst : firstIdx isDollar ('$' :: (numToName c ++ itoa r)) = some 0 := by
    have d : isDollar '$' = true := by decide
    simp [firstIdx, d]
  have hlast : lastIdx isDollar ('$' :: (numToName c ++ itoa r)) = some 0 := by
    have d : isDollar '$' = true := by decide
    simp [lastIdx, lastIdx_none_of hnd, d]
  rw [htext]
  unfold Impl.shiftPart
  simp only [hfilt, decode_canonical c r hc1 hc2 hr1 hr2, hfirst, hlast]
  simp [Impl.okOr, colName_ofInt (show (1 : Int) ≤ (c : Int) by omega) (show (c : Int) ≤ Facts.MaxColumns by omega),
    itoaInt_nat hr1', Spec.render, Spec.renderCol, Spec.renderRow, Spec.dollarIf]

/-! ### data-validation formulas: the XML escaping round trip -/

theorem unescapeXML_cons_ne (c : Char) (cs : Str) (h : c ≠ '&') :
    Impl.unescapeXML (c :: cs) = c :: Impl.unescapeXML cs := by
  rw [Impl.unescapeXML.eq_def]
  split
  · contradiction
  · rename_i heq; simp only [List.cons.injEq] at heq; exact absurd heq.1 h
  · rename_i heq; simp only [List.cons.injEq] at heq; exact absurd heq.1 h
  · rename_i heq; simp only [List.cons.injEq] at heq; exact absurd heq.1 h
  · rename_i heq; simp only [List.cons.injEq] at heq; obtain ⟨rfl, rfl⟩ := heq; rfl

theorem unescape_escape (s : Str) : Impl.unescapeXML (Impl.escapeXML s) = s := by
  induction s with
  | nil => rfl
  | cons c cs ih =>
    unfold Impl.escapeXML
    by_cases h1 : c = '&'
    · subst h1; simp [Impl.unescapeXML, ih]
    · by_cases h2 : c = '<'
      · subst h2; simp [Impl.unescapeXML, ih]
      · by_cases h3 : c = '>'
        · subst h3; simp [Impl.unescapeXML, ih]
        · simp only [h1, h2, h3, if_false]
          rw [unescapeXML_cons_ne c _ h1, ih]

end XlModel.FormulaRef
