/-
Helper lemmas for the formula-reference rewriter (C07), part 2: the character
automaton of `adjustFormulaOperand` run on rendered endpoints.
-/
import XlModel.Lemmas.FormulaRef

namespace XlModel.FormulaRef
open XlModel XlModel.Ref Impl

variable (kr : Bool) (e : Edit)

theorem scan_append (s : St) (xs ys : Str) :
    scan kr e s (xs ++ ys) =
      match scan kr e s xs with
      | .error er => .error er
      | .ok s1 => scan kr e s1 ys := by
  induction xs generalizing s with
  | nil => simp [scan]
  | cons x xs ih =>
    simp only [List.cons_append, scan]
    cases step kr e s x with
    | error er => rfl
    | ok s1 => exact ih s1

theorem flushCol_nil (row op : Str) (abs : Bool) :
    flushCol kr e ⟨[], row, op, abs⟩ = .ok ⟨[], row, op, abs⟩ := by
  simp [flushCol, adjCol]

theorem flushRow_nil (col op : Str) (abs : Bool) :
    flushRow kr e ⟨col, [], op, abs⟩ = .ok ⟨col, [], op, abs⟩ := by
  simp [flushRow, adjRow]

theorem step_letter (s : St) (c : Char) (h : isLetter c = true) :
    step kr e s c = .ok { s with col := s.col ++ [c] } := by
  simp [step, isDollarC_eq, isColC_eq, isLetter_not_dollar h, h]

theorem step_digit (s : St) (c : Char) (h : isDigit c = true) :
    step kr e s c = flushCol kr e { s with row := s.row ++ [c] } := by
  simp [step, isDollarC_eq, isColC_eq, isRowC_eq, isDigit_not_dollar h, isDigit_not_letter h, h]

theorem step_dollar (s : St) :
    step kr e s '$' =
      match flushCol kr e s with
      | .error er => .error er
      | .ok s1 => .ok { s1 with abs := true, op := s1.op ++ ['$'] } := by
  have : isDollarC '$' = true := by decide
  unfold step
  simp only [this, if_true]
  cases flushCol kr e s <;> rfl

theorem step_colon (s : St) :
    step kr e s ':' =
      match flushBoth kr e s with
      | .error er => .error er
      | .ok s1 => .ok { s1 with op := s1.op ++ [':'] } := by
  have h1 : isDollarC ':' = false := by decide
  have h2 : isColC ':' = false := by decide
  have h3 : isRowC ':' = false := by decide
  unfold step
  simp only [h1, h2, h3, Bool.false_eq_true, if_false]
  cases flushBoth kr e s <;> rfl

theorem scan_letters (L : Str) (hL : ∀ c ∈ L, isLetter c = true) (col row op : Str) (abs : Bool) :
    scan kr e ⟨col, row, op, abs⟩ L = .ok ⟨col ++ L, row, op, abs⟩ := by
  induction L generalizing col with
  | nil => simp [scan]
  | cons x xs ih =>
    simp only [scan, step_letter kr e _ x (hL x (by simp))]
    rw [ih (fun c hc => hL c (by simp [hc]))]
    simp

theorem scan_digits_clean (D : Str) (hD : ∀ c ∈ D, isDigit c = true) (row op : Str) (abs : Bool) :
    scan kr e ⟨[], row, op, abs⟩ D = .ok ⟨[], row ++ D, op, abs⟩ := by
  induction D generalizing row with
  | nil => simp [scan]
  | cons x xs ih =>
    simp only [scan, step_digit kr e _ x (hD x (by simp)), flushCol_nil]
    rw [ih (fun c hc => hD c (by simp [hc]))]
    simp

/-- `$`? + column letters, from a clean state -/
theorem scan_colpart (c : Spec.ColEnd) (row op : Str) :
    scan kr e ⟨[], row, op, false⟩ (Spec.renderCol c) =
      .ok ⟨numToName c.n, row, op ++ Spec.dollarIf c.abs, c.abs⟩ := by
  unfold Spec.renderCol Spec.dollarIf
  cases hc : c.abs with
  | false =>
    simp only [Bool.false_eq_true, if_false, List.nil_append, List.append_nil]
    rw [scan_letters kr e _ (numToName_letters c.n)]
    simp
  | true =>
    simp only [if_true, List.cons_append, List.nil_append, scan, step_dollar, flushCol_nil]
    rw [scan_letters kr e _ (numToName_letters c.n)]
    simp

theorem flushCol_render (c c' : Spec.ColEnd) (row op : Str)
    (hA : ∀ op, adjCol kr e (numToName c.n) op c.abs = .ok (op ++ numToName c'.n, false)) :
    flushCol kr e ⟨numToName c.n, row, op, c.abs⟩ = .ok ⟨[], row, op ++ numToName c'.n, false⟩ := by
  simp [flushCol, hA op]

theorem flushRow_render (r r' : Spec.RowEnd) (col op : Str)
    (hB : ∀ op, adjRow kr e (itoa r.n) op r.abs = .ok (op ++ itoa r'.n, false)) :
    flushRow kr e ⟨col, itoa r.n, op, r.abs⟩ = .ok ⟨col, [], op ++ itoa r'.n, false⟩ := by
  simp [flushRow, hB op]

/-- `$`? + row digits while a column name is pending -/
theorem scan_rowpart_pending (c c' : Spec.ColEnd) (r : Spec.RowEnd) (op : Str)
    (hA : ∀ op, adjCol kr e (numToName c.n) op c.abs = .ok (op ++ numToName c'.n, false)) :
    scan kr e ⟨numToName c.n, [], op, c.abs⟩ (Spec.renderRow r) =
      .ok ⟨[], itoa r.n, op ++ numToName c'.n ++ Spec.dollarIf r.abs, r.abs⟩ := by
  unfold Spec.renderRow Spec.dollarIf
  cases hr : r.abs with
  | true =>
    simp only [if_true, List.cons_append, List.nil_append, scan, step_dollar,
      flushCol_render kr e c c' [] op hA]
    rw [scan_digits_clean kr e _ (itoa_digits r.n)]
    simp
  | false =>
    simp only [Bool.false_eq_true, if_false, List.nil_append, List.append_nil]
    have hd := itoa_digits r.n
    cases hi : itoa r.n with
    | nil => exact absurd hi (itoa_ne_nil r.n)
    | cons d ds =>
      rw [hi] at hd
      simp only [scan, step_digit kr e _ d (hd d (by simp)), List.nil_append,
        flushCol_render kr e c c' [d] op hA]
      rw [scan_digits_clean kr e _ (fun x hx => hd x (by simp [hx]))]
      simp

/-- `$`? + row digits from a clean state (whole-row endpoint) -/
theorem scan_rowpart_clean (r : Spec.RowEnd) (op : Str) :
    scan kr e ⟨[], [], op, false⟩ (Spec.renderRow r) =
      .ok ⟨[], itoa r.n, op ++ Spec.dollarIf r.abs, r.abs⟩ := by
  unfold Spec.renderRow Spec.dollarIf
  cases hr : r.abs with
  | true =>
    simp only [if_true, List.cons_append, List.nil_append, scan, step_dollar, flushCol_nil]
    rw [scan_digits_clean kr e _ (itoa_digits r.n)]
    simp
  | false =>
    simp only [Bool.false_eq_true, if_false, List.nil_append, List.append_nil]
    rw [scan_digits_clean kr e _ (itoa_digits r.n)]
    simp

theorem shiftCol_abs {c c' : Spec.ColEnd} (hs : Spec.shiftCol kr e c = some c') : c'.abs = c.abs := by
  unfold Spec.shiftCol at hs
  split at hs
  · cases hx : Spec.shiftIdx e.num e.off c.n with
    | none => simp [hx] at hs
    | some j => simp [hx] at hs; rw [← hs]
  · simp at hs; rw [← hs]

theorem shiftRow_abs {r r' : Spec.RowEnd} (hs : Spec.shiftRow kr e r = some r') : r'.abs = r.abs := by
  unfold Spec.shiftRow at hs
  split at hs
  · cases hx : Spec.shiftIdx e.num e.off r.n with
    | none => simp [hx] at hs
    | some j => simp [hx] at hs; rw [← hs]
  · simp at hs; rw [← hs]

/-- scan an endpoint text, then flush (what happens at `:` and at the end of the operand) -/
def runEnd (s : St) (xs : Str) : Except Err St :=
  match scan kr e s xs with
  | .error er => .error er
  | .ok s1 => flushBoth kr e s1

/-- a cell endpoint `$?COL$?ROW` -/
theorem runEnd_cell (c c' : Spec.ColEnd) (r r' : Spec.RowEnd) (op : Str)
    (hA : ∀ op, adjCol kr e (numToName c.n) op c.abs = .ok (op ++ numToName c'.n, false)) (hca : c'.abs = c.abs)
    (hB : ∀ op, adjRow kr e (itoa r.n) op r.abs = .ok (op ++ itoa r'.n, false)) (hra : r'.abs = r.abs) :
    runEnd kr e ⟨[], [], op, false⟩ (Spec.renderCol c ++ Spec.renderRow r) =
      .ok ⟨[], [], op ++ (Spec.renderCol c' ++ Spec.renderRow r'), false⟩ := by
  unfold runEnd
  rw [scan_append, scan_colpart]
  simp only [scan_rowpart_pending kr e c c' r _ hA]
  simp only [flushBoth, flushCol_nil, flushRow_render kr e r r' [] _ hB]
  simp [Spec.renderCol, Spec.renderRow, hca, hra]

/-- a whole-column endpoint `$?COL` -/
theorem runEnd_col (c c' : Spec.ColEnd) (op : Str)
    (hA : ∀ op, adjCol kr e (numToName c.n) op c.abs = .ok (op ++ numToName c'.n, false)) (hca : c'.abs = c.abs) :
    runEnd kr e ⟨[], [], op, false⟩ (Spec.renderCol c) = .ok ⟨[], [], op ++ Spec.renderCol c', false⟩ := by
  unfold runEnd
  rw [scan_colpart]
  simp only [flushBoth, flushCol_render kr e c c' [] _ hA, flushRow_nil]
  simp [Spec.renderCol, hca]

/-- a whole-row endpoint `$?ROW` -/
theorem runEnd_row (r r' : Spec.RowEnd) (op : Str)
    (hB : ∀ op, adjRow kr e (itoa r.n) op r.abs = .ok (op ++ itoa r'.n, false)) (hra : r'.abs = r.abs) :
    runEnd kr e ⟨[], [], op, false⟩ (Spec.renderRow r) = .ok ⟨[], [], op ++ Spec.renderRow r', false⟩ := by
  unfold runEnd
  rw [scan_rowpart_clean]
  simp only [flushBoth, flushCol_nil, flushRow_render kr e r r' [] _ hB]
  simp [Spec.renderRow, hra]

theorem adjustCell_single (op0 op1 X : Str)
    (h : runEnd kr e ⟨[], [], op0, false⟩ X = .ok ⟨[], [], op1, false⟩) :
    adjustCell kr e op0 X = .ok op1 := by
  unfold runEnd at h
  unfold adjustCell
  cases hs : scan kr e ⟨[], [], op0, false⟩ X with
  | error er => simp [hs] at h
  | ok s1 =>
    simp only [hs] at h
    simp [h]

theorem adjustCell_range (op0 op1 op2 X Y : Str)
    (hX : runEnd kr e ⟨[], [], op0, false⟩ X = .ok ⟨[], [], op1, false⟩)
    (hY : runEnd kr e ⟨[], [], op1 ++ [':'], false⟩ Y = .ok ⟨[], [], op2, false⟩) :
    adjustCell kr e op0 (X ++ [':'] ++ Y) = .ok op2 := by
  unfold runEnd at hX hY
  unfold adjustCell
  rw [List.append_assoc, scan_append]
  cases hs : scan kr e ⟨[], [], op0, false⟩ X with
  | error er => simp [hs] at hX
  | ok s1 =>
    simp only [hs] at hX
    simp only [List.singleton_append, scan, step_colon, hX]
    cases hs2 : scan kr e ⟨[], [], op1 ++ [':'], false⟩ Y with
    | error er => simp [hs2] at hY
    | ok s2 =>
      simp only [hs2] at hY
      simp [hY]

end XlModel.FormulaRef
