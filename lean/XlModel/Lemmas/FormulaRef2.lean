import XlModel.Lemmas.FormulaRef
namespace XlModel.FormulaRef
end XlModel.FormulaRef
