/-
Helper lemmas for the formula-reference rewriter (C07), part 3: monotonicity of the index shift,
`strings.Split` on rendered references, the character set of rendered references, efp's quote
reading (`efpQ`) and the per-token piece of the token loop (`pieceOf`). Moved out of Props/C07.lean
so that the property file holds property theorems only.
-/
import XlModel.Lemmas.FormulaRef2

namespace XlModel.FormulaRef
open XlModel XlModel.Ref

def posOk (p : Nat × Nat) : Prop :=
  1 ≤ p.1 ∧ p.1 ≤ Facts.MaxColumns ∧ 1 ≤ p.2 ∧ p.2 ≤ Facts.TotalRows

/-- relocation of indices is strictly monotone on the surviving indices -/
theorem shiftIdx_mono {num off : Int} (hn : 0 ≤ num) {a b a' b' : Nat}
    (ha : Spec.shiftIdx num off a = some a') (hb : Spec.shiftIdx num off b = some b') :
    (a ≤ b ↔ a' ≤ b') := by
  unfold Spec.shiftIdx at ha hb
  split at ha <;> split at hb
  all_goals (try split at ha) <;> (try split at hb) <;> (try split at ha) <;> (try split at hb)
  all_goals simp only [Option.some.injEq, reduceCtorEq] at ha hb
  all_goals omega

theorem between_shift {a b x a' b' x' : Nat}
    (h1 : a ≤ b ↔ a' ≤ b') (h2 : b ≤ a ↔ b' ≤ a') (h3 : a ≤ x ↔ a' ≤ x') (h4 : x ≤ a ↔ x' ≤ a')
    (h5 : b ≤ x ↔ b' ≤ x') (h6 : x ≤ b ↔ x' ≤ b') :
    (min a' b' ≤ x' ∧ x' ≤ max a' b') ↔ (min a b ≤ x ∧ x ≤ max a b) := by
  simp only [Nat.min_def, Nat.max_def]
  split <;> split <;> omega

theorem between_of_shift {num off : Int} (hn : 0 ≤ num) {a b x a' b' x' : Nat}
    (ha : Spec.shiftIdx num off a = some a') (hb : Spec.shiftIdx num off b = some b')
    (hx : Spec.shiftIdx num off x = some x') :
    (min a' b' ≤ x' ∧ x' ≤ max a' b') ↔ (min a b ≤ x ∧ x ≤ max a b) :=
  between_shift (shiftIdx_mono hn ha hb) (shiftIdx_mono hn hb ha) (shiftIdx_mono hn ha hx)
    (shiftIdx_mono hn hx ha) (shiftIdx_mono hn hb hx) (shiftIdx_mono hn hx hb)

theorem eq_of_shift {num off : Int} (hn : 0 ≤ num) {a x a' x' : Nat}
    (ha : Spec.shiftIdx num off a = some a') (hx : Spec.shiftIdx num off x = some x') :
    (x' = a' ↔ x = a) := by
  have h1 := shiftIdx_mono hn ha hx
  have h2 := shiftIdx_mono hn hx ha
  omega

theorem shiftCol_cols {e : Edit} (hd : e.dir = .cols) {c c' : Spec.ColEnd}
    (h : Spec.shiftCol false e c = some c') : Spec.shiftIdx e.num e.off c.n = some c'.n := by
  unfold Spec.shiftCol Spec.moves at h
  simp only [hd, Bool.not_false, Bool.or_true, and_self, if_true] at h
  cases hx : Spec.shiftIdx e.num e.off c.n with
  | none => simp [hx] at h
  | some j => simp [hx] at h; rw [← h]

theorem shiftCol_rows {e : Edit} (hd : e.dir = .rows) {c c' : Spec.ColEnd}
    (h : Spec.shiftCol false e c = some c') : c' = c := by
  unfold Spec.shiftCol at h
  simp [hd] at h
  exact h.symm

theorem shiftRow_rows {e : Edit} (hd : e.dir = .rows) {r r' : Spec.RowEnd}
    (h : Spec.shiftRow false e r = some r') : Spec.shiftIdx e.num e.off r.n = some r'.n := by
  unfold Spec.shiftRow Spec.moves at h
  simp only [hd, Bool.not_false, Bool.or_true, and_self, if_true] at h
  cases hx : Spec.shiftIdx e.num e.off r.n with
  | none => simp [hx] at h
  | some j => simp [hx] at h; rw [← h]

theorem shiftRow_cols {e : Edit} (hd : e.dir = .cols) {r r' : Spec.RowEnd}
    (h : Spec.shiftRow false e r = some r') : r' = r := by
  unfold Spec.shiftRow at h
  simp [hd] at h
  exact h.symm


theorem splitOnAux_none (d : Nat) (s cur : Str) (h : ∀ c ∈ s, (c.toNat == d) = false) :
    Impl.splitOnAux d cur s = [cur.reverse ++ s] := by
  induction s generalizing cur with
  | nil => simp [Impl.splitOnAux]
  | cons x xs ih =>
    simp only [Impl.splitOnAux, h x (by simp), Bool.false_eq_true, if_false]
    rw [ih _ (fun c hc => h c (by simp [hc]))]
    simp

theorem splitOn_none (d : Nat) (s : Str) (h : ∀ c ∈ s, (c.toNat == d) = false) :
    Impl.splitOn d s = [s] := by
  simp [Impl.splitOn, splitOnAux_none d s [] h]

theorem splitOnAux_one (d : Nat) (dc : Char) (hd : (dc.toNat == d) = true) (a b cur : Str)
    (ha : ∀ c ∈ a, (c.toNat == d) = false) (hb : ∀ c ∈ b, (c.toNat == d) = false) :
    Impl.splitOnAux d cur (a ++ dc :: b) = [cur.reverse ++ a, b] := by
  induction a generalizing cur with
  | nil => simp [Impl.splitOnAux, hd, splitOnAux_none d b [] hb]
  | cons x xs ih =>
    simp only [List.cons_append, Impl.splitOnAux, ha x (by simp), Bool.false_eq_true, if_false]
    rw [ih _ (fun c hc => ha c (by simp [hc]))]
    simp

theorem splitOn_one (d : Nat) (dc : Char) (hd : (dc.toNat == d) = true) (a b : Str)
    (ha : ∀ c ∈ a, (c.toNat == d) = false) (hb : ∀ c ∈ b, (c.toNat == d) = false) :
    Impl.splitOn d (a ++ dc :: b) = [a, b] := by
  simp [Impl.splitOn, splitOnAux_one d dc hd a b [] ha hb]

def noBang (s : Str) : Prop := ∀ c ∈ s, (c.toNat == Facts.C07.sheetSep) = false

theorem letter_noBang {c : Char} (h : isLetter c = true) : (c.toNat == Facts.C07.sheetSep) = false := by
  simp only [isLetter, isUp, isLo, Bool.or_eq_true, Bool.and_eq_true, decide_eq_true_eq] at h
  show (c.toNat == 33) = false
  simp only [beq_eq_false_iff_ne]
  omega

theorem digit_noBang {c : Char} (h : isDigit c = true) : (c.toNat == Facts.C07.sheetSep) = false := by
  simp only [isDigit, Bool.and_eq_true, decide_eq_true_eq] at h
  show (c.toNat == 33) = false
  simp only [beq_eq_false_iff_ne]
  omega

theorem renderCol_noBang (c : Spec.ColEnd) : noBang (Spec.renderCol c) := by
  intro x hx
  unfold Spec.renderCol Spec.dollarIf at hx
  rcases List.mem_append.mp hx with h | h
  · split at h
    · simp only [List.mem_singleton] at h; subst h; decide
    · simp at h
  · exact letter_noBang (numToName_letters c.n x h)

theorem renderRow_noBang (r : Spec.RowEnd) : noBang (Spec.renderRow r) := by
  intro x hx
  unfold Spec.renderRow Spec.dollarIf at hx
  rcases List.mem_append.mp hx with h | h
  · split at h
    · simp only [List.mem_singleton] at h; subst h; decide
    · simp at h
  · exact digit_noBang (itoa_digits r.n x h)

theorem noBang_append {a b : Str} (ha : noBang a) (hb : noBang b) : noBang (a ++ b) := by
  intro x hx
  rcases List.mem_append.mp hx with h | h
  · exact ha x h
  · exact hb x h

theorem colon_noBang : noBang [':'] := by
  intro x hx; simp only [List.mem_singleton] at hx; subst hx; decide

theorem render_noBang (r : Spec.Ref) : noBang (Spec.render r) := by
  cases r with
  | cell c ro => exact noBang_append (renderCol_noBang c) (renderRow_noBang ro)
  | range c1 r1 c2 r2 =>
    exact noBang_append (noBang_append (noBang_append (renderCol_noBang c1) (renderRow_noBang r1)) colon_noBang)
      (noBang_append (renderCol_noBang c2) (renderRow_noBang r2))
  | cols c1 c2 => exact noBang_append (noBang_append (renderCol_noBang c1) colon_noBang) (renderCol_noBang c2)
  | rows r1 r2 => exact noBang_append (noBang_append (renderRow_noBang r1) colon_noBang) (renderRow_noBang r2)


/-- efp's reading of a quoted run after the opening quote (`InString` / `InPath`): a doubled quote is
one quote, a single quote ends the run. Returns the content and the rest of the input. -/
def efpQ (q : Nat) : Option Char → Str → Option (Str × Str)
  | none, [] => none
  | some _, [] => some ([], [])
  | some c, d :: ds => if d.toNat == q then (efpQ q none ds).map (fun p => (c :: p.1, p.2)) else some ([], d :: ds)
  | none, c :: cs => if c.toNat == q then efpQ q (some c) cs else (efpQ q none cs).map (fun p => (c :: p.1, p.2))

def efpQuoted (q : Nat) (s : Str) : Option (Str × Str) := efpQ q none s

theorem efpQuoted_double (q : Nat) (qc : Char) (hq : (qc.toNat == q) = true) (s rest : Str)
    (hr : ∀ d ds, rest = d :: ds → (d.toNat == q) = false) :
    efpQuoted q (Impl.doubleQ q s ++ qc :: rest) = some (s, rest) := by
  unfold efpQuoted
  induction s with
  | nil =>
    cases rest with
    | nil => simp [Impl.doubleQ, efpQ, hq]
    | cons d ds => simp [Impl.doubleQ, efpQ, hq, hr d ds rfl]
  | cons c cs ih =>
    by_cases hc : (c.toNat == q) = true
    · simp [Impl.doubleQ, hc, efpQ, ih]
    · have hc' : (c.toNat == q) = false := by simpa using hc
      simp [Impl.doubleQ, hc', efpQ, ih]


def refChar (c : Char) : Prop := isLetter c = true ∨ isDigit c = true ∨ c = '$' ∨ c = ':'

theorem renderCol_chars (c : Spec.ColEnd) : ∀ x ∈ Spec.renderCol c, refChar x := by
  intro x hx
  unfold Spec.renderCol Spec.dollarIf at hx
  rcases List.mem_append.mp hx with h | h
  · split at h
    · simp only [List.mem_singleton] at h; exact Or.inr (Or.inr (Or.inl h))
    · simp at h
  · exact Or.inl (numToName_letters c.n x h)

theorem renderRow_chars (r : Spec.RowEnd) : ∀ x ∈ Spec.renderRow r, refChar x := by
  intro x hx
  unfold Spec.renderRow Spec.dollarIf at hx
  rcases List.mem_append.mp hx with h | h
  · split at h
    · simp only [List.mem_singleton] at h; exact Or.inr (Or.inr (Or.inl h))
    · simp at h
  · exact Or.inr (Or.inl (itoa_digits r.n x h))

theorem render_chars (r : Spec.Ref) : ∀ x ∈ Spec.render r, refChar x := by
  intro x hx
  cases r with
  | cell c ro =>
    rcases List.mem_append.mp hx with h | h
    · exact renderCol_chars c x h
    · exact renderRow_chars ro x h
  | range c1 r1 c2 r2 =>
    simp only [Spec.render, List.mem_append, List.mem_singleton] at hx
    rcases hx with ((h | h) | h) | (h | h)
    · exact renderCol_chars c1 x h
    · exact renderRow_chars r1 x h
    · exact Or.inr (Or.inr (Or.inr h))
    · exact renderCol_chars c2 x h
    · exact renderRow_chars r2 x h
  | cols c1 c2 =>
    simp only [Spec.render, List.mem_append, List.mem_singleton] at hx
    rcases hx with (h | h) | h
    · exact renderCol_chars c1 x h
    · exact Or.inr (Or.inr (Or.inr h))
    · exact renderCol_chars c2 x h
  | rows r1 r2 =>
    simp only [Spec.render, List.mem_append, List.mem_singleton] at hx
    rcases hx with (h | h) | h
    · exact renderRow_chars r1 x h
    · exact Or.inr (Or.inr (Or.inr h))
    · exact renderRow_chars r2 x h

theorem render_noBracket (r : Spec.Ref) : Impl.containsBracket (Spec.render r) = false := by
  unfold Impl.containsBracket
  rw [List.any_eq_false]
  intro c hc
  rcases render_chars r c hc with h | h | h | h
  · simp only [isLetter, isUp, isLo, Bool.or_eq_true, Bool.and_eq_true, decide_eq_true_eq] at h
    simp only [Bool.or_eq_true, beq_iff_eq, not_or]
    omega
  · simp only [isDigit, Bool.and_eq_true, decide_eq_true_eq] at h
    simp only [Bool.or_eq_true, beq_iff_eq, not_or]
    omega
  · subst h; decide
  · subst h; decide

/-- what one token contributes to the output of `adjustFormulaRef` -/
def pieceOf (env : Impl.Env) (t : Token) : Except Err Str :=
  if t.ty = .operand ∧ t.sub = .range then
    if env.names.contains t.tv then .ok t.tv
    else if Impl.containsBracket t.tv then .ok t.tv
    else Impl.adjustOperand env.sheet env.sheetN env.kr env.e t.tv
  else .ok (Impl.verbatim t)


end XlModel.FormulaRef
