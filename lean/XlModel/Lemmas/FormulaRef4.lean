/-
Helper lemmas for the formula-reference rewriter (C07), part 4: `Spec.parseRef` inverts
`Spec.render` (endpoint parser on rendered endpoints, `strings.Split(_, ":")` on rendered references).
-/
import XlModel.Lemmas.FormulaRef3

namespace XlModel.FormulaRef
open XlModel XlModel.Ref

theorem takeWhile_letters (L rest : Str) (hL : ∀ c ∈ L, isLetter c = true)
    (hr : ∀ x xs, rest = x :: xs → isLetter x = false) :
    (L ++ rest).takeWhile isLetter = L ∧ (L ++ rest).dropWhile isLetter = rest := by
  induction L with
  | nil =>
    cases rest with
    | nil => simp
    | cons x xs => simp [List.takeWhile, List.dropWhile, hr x xs rfl]
  | cons l ls ih =>
    have := ih (fun c hc => hL c (by simp [hc]))
    simp [List.takeWhile, List.dropWhile, hL l (by simp), this.1, this.2]

theorem isDollar_dollar : isDollar '$' = true := by decide
theorem isLetter_dollar : isLetter '$' = false := by decide

theorem letter_not_dollar' {c : Char} (h : isLetter c = true) : isDollar c = false := isLetter_not_dollar h

theorem numToName_cons {n : Nat} (h : 1 ≤ n) : ∃ l ls, numToName n = l :: ls ∧ isLetter l = true := by
  cases hn : numToName n with
  | nil => exact absurd hn (numToName_ne_nil h)
  | cons l ls => exact ⟨l, ls, rfl, numToName_letters n l (by rw [hn]; simp)⟩

theorem itoa_cons (n : Nat) : ∃ d ds, itoa n = d :: ds ∧ isDigit d = true := by
  cases hn : itoa n with
  | nil => exact absurd hn (itoa_ne_nil n)
  | cons d ds => exact ⟨d, ds, rfl, itoa_digits n d (by rw [hn]; simp)⟩

theorem digitsVal_itoa' {n : Nat} (h : 1 ≤ n) : digitsVal (itoa n) = some n := digitsVal_itoa h

/-- row part `$?digits` seen after the column letters: no letter at its head, and it is not empty -/
theorem renderRow_head (r : Spec.RowEnd) : ∀ x xs, Spec.renderRow r = x :: xs → isLetter x = false := by
  intro x xs h
  unfold Spec.renderRow Spec.dollarIf at h
  obtain ⟨d, ds, hd, hdd⟩ := itoa_cons r.n
  cases hr : r.abs with
  | true => simp [hr] at h; rw [← h.1]; exact isLetter_dollar
  | false => simp [hr, hd] at h; rw [← h.1]; exact isDigit_not_letter hdd

theorem renderRow_nonempty (r : Spec.RowEnd) : (Spec.renderRow r).isEmpty = false := by
  unfold Spec.renderRow Spec.dollarIf
  obtain ⟨d, ds, hd, _⟩ := itoa_cons r.n
  cases r.abs <;> simp [hd]

/-- stripping the optional `$` in front of a text that does not start with `$` -/
theorem strip_dollarIf (b : Bool) (x : Char) (xs : Str) (hx : isDollar x = false) :
    Spec.headDollar (Spec.dollarIf b ++ x :: xs) = b ∧ Spec.stripDollar (Spec.dollarIf b ++ x :: xs) = x :: xs := by
  cases b <;> simp [Spec.headDollar, Spec.stripDollar, Spec.dollarIf, hx, isDollar_dollar]

theorem parseRowPart_render (r : Spec.RowEnd) (h1 : 1 ≤ r.n) : Spec.parseRowPart (Spec.renderRow r) = some r := by
  obtain ⟨d, ds, hd, hdd⟩ := itoa_cons r.n
  have ⟨s1, s2⟩ := strip_dollarIf r.abs d ds (isDigit_not_dollar hdd)
  unfold Spec.parseRowPart Spec.renderRow
  rw [hd, s1, s2, ← hd, digitsVal_itoa h1]
  rfl

theorem parseEndCore_letters (d1 : Bool) (n : Nat) (h1 : 1 ≤ n) (rest : Str)
    (hr : ∀ x xs, rest = x :: xs → isLetter x = false) :
    Spec.parseEndCore d1 (numToName n ++ rest) =
      if rest.isEmpty then some (some ⟨d1, n⟩, none)
      else (Spec.parseRowPart rest).map (fun r => (some ⟨d1, n⟩, some r)) := by
  obtain ⟨l, ls, hl, _⟩ := numToName_cons h1
  have ⟨tw, dw⟩ := takeWhile_letters (numToName n) rest (numToName_letters n) hr
  have hne : (numToName n).isEmpty = false := by rw [hl]; rfl
  unfold Spec.parseEndCore
  simp only [tw, dw, hne, Bool.false_eq_true, if_false, colRaw_numToName]

theorem parseEnd_cell (c : Spec.ColEnd) (r : Spec.RowEnd) (hc : 1 ≤ c.n) (hr : 1 ≤ r.n) :
    Spec.parseEnd (Spec.renderCol c ++ Spec.renderRow r) = some (some c, some r) := by
  obtain ⟨l, ls, hl, hll⟩ := numToName_cons hc
  unfold Spec.parseEnd Spec.renderCol
  have e : Spec.dollarIf c.abs ++ numToName c.n ++ Spec.renderRow r
      = Spec.dollarIf c.abs ++ l :: (ls ++ Spec.renderRow r) := by rw [hl]; simp
  have ⟨s1, s2⟩ := strip_dollarIf c.abs l (ls ++ Spec.renderRow r) (isLetter_not_dollar hll)
  rw [e, s1, s2]
  have e2 : l :: (ls ++ Spec.renderRow r) = numToName c.n ++ Spec.renderRow r := by rw [hl]; simp
  rw [e2, parseEndCore_letters c.abs c.n hc _ (renderRow_head r)]
  simp [renderRow_nonempty r, parseRowPart_render r hr]

theorem parseEnd_col (c : Spec.ColEnd) (hc : 1 ≤ c.n) :
    Spec.parseEnd (Spec.renderCol c) = some (some c, none) := by
  obtain ⟨l, ls, hl, hll⟩ := numToName_cons hc
  unfold Spec.parseEnd Spec.renderCol
  have ⟨s1, s2⟩ := strip_dollarIf c.abs l ls (isLetter_not_dollar hll)
  rw [hl, s1, s2, ← hl]
  have := parseEndCore_letters c.abs c.n hc [] (by intro x xs h; cases h)
  simp only [List.append_nil] at this
  rw [this]
  simp

theorem parseEnd_row (r : Spec.RowEnd) (hr : 1 ≤ r.n) :
    Spec.parseEnd (Spec.renderRow r) = some (none, some r) := by
  obtain ⟨d, ds, hd, hdd⟩ := itoa_cons r.n
  have ⟨s1, s2⟩ := strip_dollarIf r.abs d ds (isDigit_not_dollar hdd)
  unfold Spec.parseEnd Spec.renderRow
  rw [hd, s1, s2]
  unfold Spec.parseEndCore
  have : (itoa r.n).takeWhile isLetter = [] := by rw [hd]; simp [List.takeWhile, isDigit_not_letter hdd]
  rw [← hd]
  simp only [this, List.isEmpty_nil, if_true, digitsVal_itoa hr]
  rfl

/-! ### `strings.Split(s, ":")` -/

theorem splitColonAux_none (s cur : Str) (h : ∀ c ∈ s, (c.toNat == 58) = false) :
    splitColonAux cur s = [cur.reverse ++ s] := by
  induction s generalizing cur with
  | nil => simp [splitColonAux]
  | cons x xs ih =>
    simp only [splitColonAux, h x (by simp), Bool.false_eq_true, if_false]
    rw [ih _ (fun c hc => h c (by simp [hc]))]
    simp

theorem splitColon_none (s : Str) (h : ∀ c ∈ s, (c.toNat == 58) = false) : splitColon s = [s] := by
  simp [splitColon, splitColonAux_none s [] h]

theorem splitColonAux_one (a b cur : Str) (ha : ∀ c ∈ a, (c.toNat == 58) = false)
    (hb : ∀ c ∈ b, (c.toNat == 58) = false) :
    splitColonAux cur (a ++ ':' :: b) = [cur.reverse ++ a, b] := by
  induction a generalizing cur with
  | nil =>
    have : (':'.toNat == 58) = true := by decide
    simp [splitColonAux, this, splitColonAux_none b [] hb]
  | cons x xs ih =>
    simp only [List.cons_append, splitColonAux, ha x (by simp), Bool.false_eq_true, if_false]
    rw [ih _ (fun c hc => ha c (by simp [hc]))]
    simp

theorem splitColon_one (a b : Str) (ha : ∀ c ∈ a, (c.toNat == 58) = false)
    (hb : ∀ c ∈ b, (c.toNat == 58) = false) : splitColon (a ++ ':' :: b) = [a, b] := by
  simp [splitColon, splitColonAux_one a b [] ha hb]

theorem letter_noColon {c : Char} (h : isLetter c = true) : (c.toNat == 58) = false := by
  simp only [isLetter, isUp, isLo, Bool.or_eq_true, Bool.and_eq_true, decide_eq_true_eq] at h
  simp only [beq_eq_false_iff_ne]; omega

theorem digit_noColon {c : Char} (h : isDigit c = true) : (c.toNat == 58) = false := by
  simp only [isDigit, Bool.and_eq_true, decide_eq_true_eq] at h
  simp only [beq_eq_false_iff_ne]; omega

theorem renderCol_noColon (c : Spec.ColEnd) : ∀ x ∈ Spec.renderCol c, (x.toNat == 58) = false := by
  intro x hx
  unfold Spec.renderCol Spec.dollarIf at hx
  rcases List.mem_append.mp hx with h | h
  · split at h
    · simp only [List.mem_singleton] at h; subst h; decide
    · simp at h
  · exact letter_noColon (numToName_letters c.n x h)

theorem renderRow_noColon (r : Spec.RowEnd) : ∀ x ∈ Spec.renderRow r, (x.toNat == 58) = false := by
  intro x hx
  unfold Spec.renderRow Spec.dollarIf at hx
  rcases List.mem_append.mp hx with h | h
  · split at h
    · simp only [List.mem_singleton] at h; subst h; decide
    · simp at h
  · exact digit_noColon (itoa_digits r.n x h)

theorem cellText_noColon (c : Spec.ColEnd) (r : Spec.RowEnd) :
    ∀ x ∈ Spec.renderCol c ++ Spec.renderRow r, (x.toNat == 58) = false := by
  intro x hx
  rcases List.mem_append.mp hx with h | h
  · exact renderCol_noColon c x h
  · exact renderRow_noColon r x h

/-! ### the parser inverts `render` -/

/-- every endpoint index is at least 1 (weaker than `inGrid`: no upper bound needed) -/
def Spec.Ref.pos : Spec.Ref → Prop
  | .cell c r => 1 ≤ c.n ∧ 1 ≤ r.n
  | .range c1 r1 c2 r2 => 1 ≤ c1.n ∧ 1 ≤ r1.n ∧ 1 ≤ c2.n ∧ 1 ≤ r2.n
  | .cols c1 c2 => 1 ≤ c1.n ∧ 1 ≤ c2.n
  | .rows r1 r2 => 1 ≤ r1.n ∧ 1 ≤ r2.n

theorem parseRef_render (r : Spec.Ref) (h : Spec.Ref.pos r) : Spec.parseRef (Spec.render r) = some r := by
  cases r with
  | cell c ro =>
    obtain ⟨h1, h2⟩ := h
    unfold Spec.parseRef
    simp only [Spec.render]
    rw [splitColon_none _ (cellText_noColon c ro)]
    simp [parseEnd_cell c ro h1 h2]
  | range c1 r1 c2 r2 =>
    obtain ⟨h1, h2, h3, h4⟩ := h
    unfold Spec.parseRef
    simp only [Spec.render]
    have : Spec.renderCol c1 ++ Spec.renderRow r1 ++ [':'] ++ (Spec.renderCol c2 ++ Spec.renderRow r2)
        = (Spec.renderCol c1 ++ Spec.renderRow r1) ++ ':' :: (Spec.renderCol c2 ++ Spec.renderRow r2) := by simp
    rw [this, splitColon_one _ _ (cellText_noColon c1 r1) (cellText_noColon c2 r2)]
    simp [parseEnd_cell c1 r1 h1 h2, parseEnd_cell c2 r2 h3 h4]
  | cols c1 c2 =>
    obtain ⟨h1, h3⟩ := h
    unfold Spec.parseRef
    simp only [Spec.render]
    have : Spec.renderCol c1 ++ [':'] ++ Spec.renderCol c2 = Spec.renderCol c1 ++ ':' :: Spec.renderCol c2 := by simp
    rw [this, splitColon_one _ _ (renderCol_noColon c1) (renderCol_noColon c2)]
    simp [parseEnd_col c1 h1, parseEnd_col c2 h3]
  | rows r1 r2 =>
    obtain ⟨h2, h4⟩ := h
    unfold Spec.parseRef
    simp only [Spec.render]
    have : Spec.renderRow r1 ++ [':'] ++ Spec.renderRow r2 = Spec.renderRow r1 ++ ':' :: Spec.renderRow r2 := by simp
    rw [this, splitColon_one _ _ (renderRow_noColon r1) (renderRow_noColon r2)]
    simp [parseEnd_row r1 h2, parseEnd_row r2 h4]

theorem inGrid_pos {r : Spec.Ref} (h : Spec.inGrid r) : Spec.Ref.pos r := by
  cases r <;> simp only [Spec.inGrid, Spec.colOk, Spec.rowOk, Spec.Ref.pos] at * <;> omega


end XlModel.FormulaRef
