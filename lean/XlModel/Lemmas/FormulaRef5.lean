/-
Helper lemmas for the formula-reference rewriter (C07), part 5: the two flush functions against
the total `Spec.slideCol` / `Spec.slideRow` (what the code does whether or not the endpoint is
deleted), and `shift = some _ → slide`.
-/
import XlModel.Lemmas.FormulaRef4

namespace XlModel.FormulaRef
open XlModel XlModel.Ref

/-- Go's `int` does not overflow on `index + offset` -/
def offOk (e : Edit) : Prop := -4611686018427387904 ≤ e.off

theorem wrap64_small' {v : Int} (h0 : -9223372036854775808 ≤ v) (h1 : v < 9223372036854775808) : wrap64 v = v := by
  unfold wrap64
  simp only []
  split <;> omega

theorem slideIdx_lt {num off : Int} {i : Nat} (h : (i : Int) < num) : Spec.slideIdx num off i = i := by
  simp [Spec.slideIdx, h]

theorem slideIdx_ge {num off : Int} {i : Nat} (h : num ≤ (i : Int)) :
    Spec.slideIdx num off i = (max 1 ((i : Int) + off)).toNat := by
  have : ¬ ((i : Int) < num) := by omega
  simp [Spec.slideIdx, this]

theorem shiftIdx_slide {num off : Int} {i j : Nat} (h : Spec.shiftIdx num off i = some j) (hj : 1 ≤ j) :
    Spec.slideIdx num off i = j := by
  unfold Spec.shiftIdx at h
  unfold Spec.slideIdx
  split at h
  · rename_i hlt; simp only [Option.some.injEq] at h; subst h; simp [hlt]
  · rename_i hlt
    simp only [hlt, if_false]
    split at h
    · simp only [Option.some.injEq] at h; omega
    · split at h
      · simp only [Option.some.injEq] at h; omega
      · cases h

theorem adjCol_slide (kr : Bool) (e : Edit) (c : Spec.ColEnd) (op : Str) (ho : offOk e)
    (hc : Spec.colOk c) (hc' : Spec.colOk (Spec.slideCol kr e c)) :
    Impl.adjCol kr e (numToName c.n) op c.abs = .ok (op ++ numToName (Spec.slideCol kr e c).n, false) := by
  have hM := limits
  obtain ⟨h1, h2⟩ := hc
  unfold offOk at ho
  unfold Impl.adjCol
  have hne : (numToName c.n).isEmpty = false := by
    have := numToName_ne_nil h1
    cases h : numToName c.n with
    | nil => exact absurd h this
    | cons _ _ => rfl
  unfold Spec.slideCol Spec.moves at hc' ⊢
  by_cases hkeep : (!c.abs && kr) = true
  · have hab : c.abs = false := by cases hh : c.abs <;> simp_all
    have hk : kr = true := by cases hh : kr <;> simp_all
    simp [hne, hab, hk]
  · have hmv : (c.abs || !kr) = true := by
      cases hh : c.abs <;> cases hk : kr <;> simp_all
    simp only [hne, Bool.false_or, hkeep, Bool.false_eq_true, if_false, colNum_numToName h1 h2]
    simp only [hmv, and_true] at hc' ⊢
    by_cases hd : e.dir = .cols
    · simp only [hd, if_true, true_and] at hc' ⊢
      by_cases hge : (c.n : Int) ≥ e.num
      · simp only [hge, if_true]
        rw [slideIdx_ge hge] at hc' ⊢
        obtain ⟨g1, g2⟩ := hc'
        simp only at g1 g2
        have hw : wrap64 ((c.n : Int) + e.off) = (c.n : Int) + e.off := wrap64_small' (by omega) (by omega)
        simp only [hw]
        by_cases hfl : (c.n : Int) + e.off < Facts.C07.colFloor
        · have hfl' : (c.n : Int) + e.off < 1 := hfl
          have hm : max 1 ((c.n : Int) + e.off) = 1 := by omega
          simp only [hfl, if_true, hm]
          show (match columnNumberToName 1 with | .error er => Except.error er | .ok nm => Except.ok (op ++ nm, false)) = _
          rw [colName_ofInt (by omega) (by omega)]
        · have hfl' : ¬ ((c.n : Int) + e.off < 1) := hfl
          have hm : max 1 ((c.n : Int) + e.off) = (c.n : Int) + e.off := by omega
          rw [hm] at g1 g2 ⊢
          simp only [hfl, if_false]
          rw [colName_ofInt (by omega) (by omega)]
      · have hlt : (c.n : Int) < e.num := by omega
        simp only [hge, if_false]
        rw [slideIdx_lt hlt]
    · simp only [hd, false_and, if_false]

theorem adjRow_slide (kr : Bool) (e : Edit) (r : Spec.RowEnd) (op : Str) (ho : offOk e)
    (hr : Spec.rowOk r) (hr' : Spec.rowOk (Spec.slideRow kr e r)) :
    Impl.adjRow kr e (itoa r.n) op r.abs = .ok (op ++ itoa (Spec.slideRow kr e r).n, false) := by
  have hM := limits
  obtain ⟨h1, h2⟩ := hr
  unfold offOk at ho
  unfold Impl.adjRow
  have hne : (itoa r.n).isEmpty = false := by
    have := itoa_ne_nil r.n
    cases h : itoa r.n with
    | nil => exact absurd h this
    | cons _ _ => rfl
  unfold Spec.slideRow Spec.moves at hr' ⊢
  by_cases hkeep : (!r.abs && kr) = true
  · have hab : r.abs = false := by cases hh : r.abs <;> simp_all
    have hk : kr = true := by cases hh : kr <;> simp_all
    simp [hne, hab, hk]
  · have hmv : (r.abs || !kr) = true := by
      cases hh : r.abs <;> cases hk : kr <;> simp_all
    simp only [hne, Bool.false_or, hkeep, Bool.false_eq_true, if_false, atoiSat_itoa h1 h2]
    simp only [hmv, and_true] at hr' ⊢
    by_cases hd : e.dir = .rows
    · simp only [hd, if_true, true_and] at hr' ⊢
      by_cases hge : (r.n : Int) ≥ e.num
      · simp only [hge, if_true]
        rw [slideIdx_ge hge] at hr' ⊢
        obtain ⟨g1, g2⟩ := hr'
        simp only at g1 g2
        have hw : wrap64 ((r.n : Int) + e.off) = (r.n : Int) + e.off := wrap64_small' (by omega) (by omega)
        simp only [hw]
        by_cases hfl : (r.n : Int) + e.off < Facts.C07.rowFloor
        · have hfl' : (r.n : Int) + e.off < 1 := hfl
          have hm : max 1 ((r.n : Int) + e.off) = 1 := by omega
          simp only [hfl, if_true, hm]
          show (if Facts.C07.rowFloorSet > (Facts.TotalRows : Int) then Except.error Err.maxRows
            else Except.ok (op ++ itoaInt Facts.C07.rowFloorSet, false)) = _
          have : ¬ (Facts.C07.rowFloorSet > (Facts.TotalRows : Int)) := by decide
          simp only [this, if_false]
          rfl
        · have hfl' : ¬ ((r.n : Int) + e.off < 1) := hfl
          have hm : max 1 ((r.n : Int) + e.off) = (r.n : Int) + e.off := by omega
          rw [hm] at g1 g2 ⊢
          have hmx : ¬ ((r.n : Int) + e.off > (Facts.TotalRows : Int)) := by omega
          simp only [hfl, if_false, hmx, itoaInt_nat (show 1 ≤ (r.n : Int) + e.off by omega)]
      · have hlt : (r.n : Int) < e.num := by omega
        simp only [hge, if_false]
        rw [slideIdx_lt hlt]
    · simp only [hd, false_and, if_false]

/-! ### the operand's sheet prefix: everything before the LAST `!` -/

def isSep (c : Char) : Bool := c.toNat == Facts.C07.sheetSep

theorem lastIdx_noSep (tv : Str) (h : noBang tv) : lastIdx (fun c => c.toNat == Facts.C07.sheetSep) tv = none :=
  lastIdx_none_of h

theorem lastIdx_sep (name cell : Str) (hc : noBang cell) :
    lastIdx (fun c => c.toNat == Facts.C07.sheetSep) (name ++ '!' :: cell) = some name.length := by
  have e : name ++ '!' :: cell = (name ++ ['!']) ++ cell := by simp
  rw [e, lastIdx_append_none _ _ _ hc, lastIdx_snoc _ _ _ (by decide)]

theorem take_sep (name cell : Str) : (name ++ '!' :: cell).take name.length = name := by
  induction name with
  | nil => rfl
  | cons x xs ih => simp [ih]

theorem drop_sep (name cell : Str) : (name ++ '!' :: cell).drop (name.length + 1) = cell := by
  induction name with
  | nil => rfl
  | cons x xs ih => simpa using ih

theorem slideCol_abs (kr : Bool) (e : Edit) (c : Spec.ColEnd) : (Spec.slideCol kr e c).abs = c.abs := by
  unfold Spec.slideCol; split <;> rfl

theorem slideRow_abs (kr : Bool) (e : Edit) (r : Spec.RowEnd) : (Spec.slideRow kr e r).abs = r.abs := by
  unfold Spec.slideRow; split <;> rfl

theorem shiftCol_slide {kr : Bool} {e : Edit} {c c' : Spec.ColEnd} (hs : Spec.shiftCol kr e c = some c')
    (h1 : 1 ≤ c'.n) : Spec.slideCol kr e c = c' := by
  unfold Spec.shiftCol at hs
  unfold Spec.slideCol
  split at hs
  · rename_i hm
    simp only [hm, and_self, if_true]
    cases hx : Spec.shiftIdx e.num e.off c.n with
    | none => simp [hx] at hs
    | some j =>
      simp [hx] at hs
      subst hs
      simp only at h1
      rw [shiftIdx_slide hx h1]
  · rename_i hm
    simp only [hm, if_false]
    simpa using hs

theorem shiftRow_slide {kr : Bool} {e : Edit} {r r' : Spec.RowEnd} (hs : Spec.shiftRow kr e r = some r')
    (h1 : 1 ≤ r'.n) : Spec.slideRow kr e r = r' := by
  unfold Spec.shiftRow at hs
  unfold Spec.slideRow
  split at hs
  · rename_i hm
    simp only [hm, and_self, if_true]
    cases hx : Spec.shiftIdx e.num e.off r.n with
    | none => simp [hx] at hs
    | some j =>
      simp [hx] at hs
      subst hs
      simp only at h1
      rw [shiftIdx_slide hx h1]
  · rename_i hm
    simp only [hm, if_false]
    simpa using hs

/-- without an `ARRAY(` pseudo-function token no token is treated as array punctuation -/
theorem arrayMarks_none (toks : List Token) (st : List Impl.AKind)
    (hna : ∀ t ∈ toks, Impl.isArrayStart t = false) (hst : ∀ k ∈ st, k = Impl.AKind.paren) :
    ∀ m ∈ Impl.arrayMarks st none toks, m = none := by
  induction toks generalizing st with
  | nil => simp [Impl.arrayMarks]
  | cons t ts ih =>
    have hna' : ∀ t ∈ ts, Impl.isArrayStart t = false := fun x hx => hna x (by simp [hx])
    have h0 : Impl.isArrayStart t = false := hna t (by simp)
    have hhead : (st.head? == some Impl.AKind.arr) = false := by
      cases st with
      | nil => rfl
      | cons k _ => have := hst k (by simp); subst this; rfl
    unfold Impl.arrayMarks
    by_cases h1 : Impl.isStartTok t = true
    · simp only [h1, if_true, h0, Bool.false_and, Bool.false_eq_true, if_false, hhead, Bool.and_false]
      intro m hm
      rcases List.mem_cons.mp hm with rfl | hm
      · rfl
      · exact ih _ hna' (by intro k hk; rcases List.mem_cons.mp hk with rfl | hk; rfl; exact hst k hk) m hm
    · simp only [h1, Bool.false_eq_true, if_false]
      by_cases h2 : Impl.isStopTok t = true
      · simp only [h2, if_true]
        cases st with
        | nil =>
          intro m hm
          rcases List.mem_cons.mp hm with rfl | hm
          · rfl
          · exact ih _ hna' (by simp) m hm
        | cons k st' =>
          have := hst k (by simp); subst this
          intro m hm
          rcases List.mem_cons.mp hm with rfl | hm
          · rfl
          · exact ih _ hna' (fun k hk => hst k (by simp [hk])) m hm
      · simp only [h2, Bool.false_eq_true, if_false]
        intro m hm
        rcases List.mem_cons.mp hm with rfl | hm
        · rfl
        · exact ih _ hna' hst m hm


end XlModel.FormulaRef
