/-
C07 joined with C08's evaluator (`XlModel.Calc`, imported, not copied): expression trees whose
leaves are cell references, keyed by their rendered text; the environment induced by a grid of
values; relocation of all keys of a tree.
-/
import XlModel.Calc
import XlModel.Lemmas.FormulaRef5

namespace XlModel.FormulaRef
open XlModel XlModel.Ref

/-- the evaluator's key of a reference: its rendered text as bytes -/
def keyOf (r : Spec.Ref) : Calc.Str := (Spec.render r).map Char.toNat

def keyText (k : Calc.Str) : Str := k.map Char.ofNat

theorem keyText_keyOf (r : Spec.Ref) : keyText (keyOf r) = Spec.render r := by
  simp [keyText, keyOf, List.map_map, Function.comp_def]

/-- the environment `calc.go` sees for a sheet whose cell `(col,row)` holds `g (col,row)`:
a key is resolved by reading it as a cell reference -/
def envOf {V : Type} (g : Nat × Nat → V) (k : Calc.Str) : Option V :=
  match Spec.parseRef (keyText k) with
  | some (.cell c r) => some (g (c.n, r.n))
  | _ => none

/-- rewrite every reference key of a tree -/
def mapRef (f : Calc.Str → Calc.Str) : Calc.Expr → Calc.Expr
  | .num raw => .num raw
  | .text s => .text s
  | .logical raw => .logical raw
  | .ref k => .ref (f k)
  | .neg e => .neg (mapRef f e)
  | .pct e => .pct (mapRef f e)
  | .bin op l r => .bin op (mapRef f l) (mapRef f r)
  | .paren e => .paren (mapRef f e)
  | .call n a => .call n (a.map (fun ks => ks.map f))

/-- every reference key of the tree satisfies `P` -/
def refsAll (P : Calc.Str → Prop) : Calc.Expr → Prop
  | .ref k => P k
  | .neg e => refsAll P e
  | .pct e => refsAll P e
  | .bin _ l r => refsAll P l ∧ refsAll P r
  | .paren e => refsAll P e
  | .call _ a => ∀ ks ∈ a, ∀ k ∈ ks, P k
  | _ => True

/-- what the formula rewriter does to a key (Spec level): parse, relocate, render -/
def shiftKey (e : Edit) (k : Calc.Str) : Calc.Str :=
  match Spec.parseRef (keyText k) with
  | some r =>
    match Spec.shiftRef false e r with
    | some r' => keyOf r'
    | none => k
  | none => k

/-- a key that is the rendering of an in-grid cell reference whose cell survives the edit inside the grid -/
def goodKey (e : Edit) (k : Calc.Str) : Prop :=
  ∃ c r c' r', k = keyOf (.cell c r) ∧ Spec.inGrid (.cell c r) ∧
    Spec.shiftRef false e (.cell c r) = some (.cell c' r') ∧ Spec.inGrid (.cell c' r')

end XlModel.FormulaRef
