/-
C07 joined with C08's evaluator, lemmas: a relocated key resolves, in the relocated grid, to the
value the original key had in the original grid; evaluators are insensitive to a key rewrite that
preserves the resolved values.
-/
import XlModel.Lemmas.FormulaRef6

namespace XlModel.FormulaRef
open XlModel XlModel.Ref

theorem envOf_keyOf_cell {V : Type} (g : Nat × Nat → V) (c : Spec.ColEnd) (r : Spec.RowEnd)
    (h : Spec.inGrid (.cell c r)) : envOf g (keyOf (.cell c r)) = some (g (c.n, r.n)) := by
  unfold envOf
  rw [keyText_keyOf, parseRef_render _ (inGrid_pos h)]

theorem shiftKey_keyOf (e : Edit) (r r' : Spec.Ref) (h : Spec.inGrid r)
    (hs : Spec.shiftRef false e r = some r') : shiftKey e (keyOf r) = keyOf r' := by
  unfold shiftKey
  rw [keyText_keyOf, parseRef_render _ (inGrid_pos h)]
  simp [hs]

/-- the cell a surviving cell reference points to moves exactly as the grid position does -/
theorem shiftRef_cell_pos (e : Edit) (c c' : Spec.ColEnd) (r r' : Spec.RowEnd)
    (hs : Spec.shiftRef false e (.cell c r) = some (.cell c' r')) :
    Spec.shiftPos e (c.n, r.n) = some (c'.n, r'.n) := by
  simp only [Spec.shiftRef] at hs
  cases hc : Spec.shiftCol false e c with
  | none => simp [hc] at hs
  | some c1 =>
    cases hr : Spec.shiftRow false e r with
    | none => simp [hc, hr] at hs
    | some r1 =>
      simp only [hc, hr, Option.some.injEq, Spec.Ref.cell.injEq] at hs
      obtain ⟨rfl, rfl⟩ := hs
      unfold Spec.shiftPos
      cases hd : e.dir with
      | cols => simp [shiftCol_cols hd hc, shiftRow_cols hd hr]
      | rows => simp [shiftRow_rows hd hr, shiftCol_rows hd hc]

/-- **key lemma**: in the relocated grid the relocated key resolves to the original value -/
theorem envOf_shiftKey {V : Type} (e : Edit) (g g' : Nat × Nat → V)
    (hg : ∀ p p', posOk p → posOk p' → Spec.shiftPos e p = some p' → g' p' = g p)
    (k : Calc.Str) (hk : goodKey e k) : envOf g' (shiftKey e k) = envOf g k := by
  obtain ⟨c, r, c', r', rfl, h1, hs, h2⟩ := hk
  rw [shiftKey_keyOf e _ _ h1 hs, envOf_keyOf_cell g' c' r' h2, envOf_keyOf_cell g c r h1]
  have hp := shiftRef_cell_pos e c c' r r' hs
  have ok : posOk (c.n, r.n) := by
    obtain ⟨⟨a, b⟩, ⟨x, y⟩⟩ := h1; exact ⟨a, b, x, y⟩
  have ok' : posOk (c'.n, r'.n) := by
    obtain ⟨⟨a, b⟩, ⟨x, y⟩⟩ := h2; exact ⟨a, b, x, y⟩
  rw [hg _ _ ok ok' hp]

open Calc in
/-- C08's reference evaluator depends on the environment only through the keys of the tree -/
theorem specEval_mapRef {N : Type} [NumOps N] (env env' : Calc.Str → Option (Calc.Spec.Val N))
    (f : Calc.Str → Calc.Str) (t : Calc.Expr) (h : refsAll (fun k => env' (f k) = env k) t) :
    Calc.Spec.eval env' (mapRef f t) = Calc.Spec.eval env t := by
  induction t with
  | num raw => rfl
  | text s => rfl
  | logical raw => rfl
  | ref k => simp only [refsAll] at h; simp [mapRef, Calc.Spec.eval, h]
  | neg e ih => simp only [refsAll] at h; simp [mapRef, Calc.Spec.eval, ih h]
  | pct e ih => simp only [refsAll] at h; simp [mapRef, Calc.Spec.eval, ih h]
  | bin op l r ihl ihr => simp only [refsAll] at h; simp [mapRef, Calc.Spec.eval, ihl h.1, ihr h.2]
  | paren e ih => simp only [refsAll] at h; simp [mapRef, Calc.Spec.eval, ih h]
  | call n a =>
    simp only [refsAll] at h
    simp only [mapRef, Calc.Spec.eval]
    have h1 : (a.map (fun ks => ks.map f)).any (· == []) = a.any (· == []) := by
      clear h
      induction a with
      | nil => rfl
      | cons x xs ih =>
        have : (List.map f x == []) = (x == []) := by cases x <;> rfl
        simp only [List.map_cons, List.any_cons, this, ih]
    have h2 : (a.map (fun ks => ks.map f)).flatten.map (fun k => (env' k).getD .blank)
        = a.flatten.map (fun k => (env k).getD .blank) := by
      clear h1
      induction a with
      | nil => rfl
      | cons x xs ih =>
        simp only [List.map_cons, List.flatten_cons, List.map_append, List.map_map]
        rw [ih (fun ks hks => h ks (by simp [hks]))]
        congr 1
        apply List.map_congr_left
        intro k hk
        simp [h x (by simp) k hk]
    rw [h1, h2]

open Calc in
theorem callArgs_map {N : Type} [NumOps N] (env env' : Calc.Str → Option (Calc.Impl.CellArg N))
    (f : Calc.Str → Calc.Str) (a : List (List Calc.Str)) (acc : List (Calc.Impl.CellArg N))
    (h : ∀ ks ∈ a, ∀ k ∈ ks, env' (f k) = env k) :
    Calc.Impl.callArgs env' (a.map (fun ks => ks.map f)) acc = Calc.Impl.callArgs env a acc := by
  induction a generalizing acc with
  | nil => rfl
  | cons x xs ih =>
    have e1 : (List.map f x = []) ↔ (x = []) := by cases x <;> simp
    have e2 : (x.map f).map (Calc.Impl.cellOf env') = x.map (Calc.Impl.cellOf env) := by
      rw [List.map_map]
      apply List.map_congr_left
      intro k hk
      simp [Calc.Impl.cellOf, h x (by simp) k hk]
    simp only [List.map_cons, Calc.Impl.callArgs, e1, e2]
    rw [ih _ (fun ks hks => h ks (by simp [hks]))]

open Calc in
/-- the same for the transcription of calc.go's own operand semantics (`Impl.evalTree`, including its
`--x` cancellation) -/
theorem implEval_mapRef {N : Type} [NumOps N] (env env' : Calc.Str → Option (Calc.Impl.CellArg N))
    (f : Calc.Str → Calc.Str) (t : Calc.Expr) (h : refsAll (fun k => env' (f k) = env k) t) :
    Calc.Impl.evalTree env' (mapRef f t) = Calc.Impl.evalTree env t := by
  fun_induction Calc.Impl.evalTree env t with
  | case1 raw => rfl
  | case2 s => rfl
  | case3 raw => rfl
  | case4 k hk => simp only [refsAll] at h; simp [mapRef, Calc.Impl.evalTree, h, hk]
  | case5 k c hk => simp only [refsAll] at h; simp [mapRef, Calc.Impl.evalTree, h, hk]
  | case6 e ih => simp only [refsAll] at h; simp [mapRef, Calc.Impl.evalTree, ih h]
  | case7 e hne ih =>
    simp only [refsAll] at h
    have : ∀ x, mapRef f e ≠ .neg x := by
      intro x hx
      cases e <;> simp [mapRef] at hx
      exact hne _ rfl
    simp only [mapRef]
    rw [Calc.Impl.evalTree.eq_def]
    cases hm : mapRef f e <;> simp_all [Calc.Impl.evalTree]
  | case8 e ih => simp only [refsAll] at h; simp [mapRef, Calc.Impl.evalTree, ih h]
  | case9 op l r ihl ihr => simp only [refsAll] at h; simp [mapRef, Calc.Impl.evalTree, ihl h.1, ihr h.2]
  | case10 e ih => simp only [refsAll] at h; simp [mapRef, Calc.Impl.evalTree, ih h]
  | case11 n a =>
    simp only [refsAll] at h
    simp only [mapRef, Calc.Impl.evalTree, Calc.Impl.callValue, callArgs_map env env' f a [] h]

theorem refsAll_mono {P Q : Calc.Str → Prop} (hpq : ∀ k, P k → Q k) (t : Calc.Expr) (h : refsAll P t) :
    refsAll Q t := by
  induction t with
  | ref k => exact hpq k h
  | neg e ih => exact ih h
  | pct e ih => exact ih h
  | bin op l r ihl ihr => exact ⟨ihl h.1, ihr h.2⟩
  | paren e ih => exact ih h
  | call n a => exact fun ks hks k hk => hpq k (h ks hks k hk)
  | num _ => trivial
  | text _ => trivial
  | logical _ => trivial

end XlModel.FormulaRef
