/-
C07 joined with C08's aggregates: (A) `Calc.Spec.aggregate` does not see blank cells; (B) the
contents of an index interval, filtered, are the same before and after an insertion/deletion when the
surviving indices keep their contents and the inserted / deleted ones contribute nothing.
-/
import XlModel.Lemmas.FormulaRef7

namespace XlModel.FormulaRef
open XlModel XlModel.Ref

/-! ### (A) aggregates ignore blank cells -/

section Agg
open Calc
variable {N : Type}

def nonBlankB : Calc.Spec.Val N → Bool
  | .blank => false
  | _ => true

theorem numbers_filter (l : List (Calc.Spec.Val N)) :
    Calc.Spec.numbers (l.filter nonBlankB) = Calc.Spec.numbers l := by
  induction l with
  | nil => rfl
  | cons x xs ih => cases x <;> simp [List.filter, nonBlankB, Calc.Spec.numbers, ih]

theorem firstErr_filter (l : List (Calc.Spec.Val N)) :
    Calc.Spec.firstErr (l.filter nonBlankB) = Calc.Spec.firstErr l := by
  induction l with
  | nil => rfl
  | cons x xs ih => cases x <;> simp [List.filter, nonBlankB, Calc.Spec.firstErr, ih]

theorem nonBlank_filter (l : List (Calc.Spec.Val N)) :
    Calc.Spec.nonBlank (l.filter nonBlankB) = Calc.Spec.nonBlank l := by
  induction l with
  | nil => rfl
  | cons x xs ih => cases x <;> simp [List.filter, nonBlankB, Calc.Spec.nonBlank, ih]

/-- Excel's aggregates (SUM, AVERAGE, COUNT, COUNTA, MAX, MIN, PRODUCT as specified by C08) depend on
the cell list only through its non-blank cells, in order -/
theorem aggregate_filter [NumOps N] (fn : Calc.Impl.AggFn) (l : List (Calc.Spec.Val N)) :
    Calc.Spec.aggregate fn (l.filter nonBlankB) = Calc.Spec.aggregate fn l := by
  simp only [Calc.Spec.aggregate, numbers_filter, firstErr_filter, nonBlank_filter]

end Agg

/-! ### (A') the transcription of calc.go's aggregates (`Calc.Impl.aggregate`) ignores empty cells -/

section AggImpl
open Calc
variable {N : Type}

def nonEmptyB : Calc.Impl.CellArg N → Bool
  | .empty => false
  | _ => true

theorem foldl_filter_id {σ β : Type} (step : σ → β → σ) (p : β → Bool) (l : List β) (s : σ)
    (h : ∀ s x, p x = false → step s x = s) : (l.filter p).foldl step s = l.foldl step s := by
  induction l generalizing s with
  | nil => rfl
  | cons x xs ih =>
    by_cases hx : p x = true
    · simp [List.filter, hx, ih]
    · have hx' : p x = false := by simpa using hx
      simp [List.filter, hx', h s x hx', ih]

/-- every aggregate of the Impl except SUM skips empty cells outright; SUM adds `zero` for one, so it
needs `x + 0 = x` of the numeric carrier -/
theorem impl_aggregate_filter [NumOps N] (fn : Calc.Impl.AggFn) (l : List (Calc.Impl.CellArg N))
    (hz : fn = .sum → ∀ s : N, NumOps.add s NumOps.zero = s) :
    Calc.Impl.aggregate fn (l.filter nonEmptyB) = Calc.Impl.aggregate fn l := by
  have hne : ∀ x : Calc.Impl.CellArg N, nonEmptyB x = false → x = .empty := by
    intro x hx; cases x <;> simp [nonEmptyB] at hx ⊢
  cases fn with
  | sum =>
    simp only [Calc.Impl.aggregate]
    rw [foldl_filter_id Calc.Impl.sumStep nonEmptyB l _ (fun s x hx => by
      rw [hne x hx]; exact hz rfl s)]
  | average =>
    simp only [Calc.Impl.aggregate]
    rw [foldl_filter_id Calc.Impl.avgStep nonEmptyB l _ (fun s x hx => by rw [hne x hx]; rfl)]
  | count =>
    simp only [Calc.Impl.aggregate]
    rw [foldl_filter_id Calc.Impl.countStep nonEmptyB l _ (fun s x hx => by rw [hne x hx]; rfl)]
  | counta =>
    simp only [Calc.Impl.aggregate]
    rw [foldl_filter_id Calc.Impl.countaStep nonEmptyB l _ (fun s x hx => by rw [hne x hx]; rfl)]
  | max =>
    simp only [Calc.Impl.aggregate]
    rw [foldl_filter_id Calc.Impl.maxStep nonEmptyB l _ (fun s x hx => by rw [hne x hx]; rfl)]
  | min =>
    simp only [Calc.Impl.aggregate]
    rw [foldl_filter_id Calc.Impl.minStep nonEmptyB l _ (fun s x hx => by rw [hne x hx]; rfl)]
  | product =>
    simp only [Calc.Impl.aggregate]
    rw [foldl_filter_id Calc.Impl.productStep nonEmptyB l _ (fun s x hx => by rw [hne x hx]; rfl)]

end AggImpl

/-! ### (B) intervals of indices under insertion / deletion -/

section Seg
variable {α : Type} (P : α → Bool)

/-- contents of the interval `[a,b]` (each index contributes a list), kept elements only -/
def seg (F : Nat → List α) (a b : Nat) : List α := ((idxs a b).flatMap F).filter P

theorem mem_idxs {a b i : Nat} : i ∈ idxs a b ↔ a ≤ i ∧ i ≤ b := by
  simp only [idxs, List.mem_range'_1]; omega

theorem flatMap_congr' {β : Type} (l : List Nat) (F F' : Nat → List β) (h : ∀ i ∈ l, F' i = F i) :
    l.flatMap F' = l.flatMap F := by
  induction l with
  | nil => rfl
  | cons x xs ih =>
    simp only [List.flatMap_cons, h x (by simp)]
    rw [ih (fun i hi => h i (by simp [hi]))]

theorem seg_congr (F F' : Nat → List α) (a b : Nat) (h : ∀ i, a ≤ i → i ≤ b → F' i = F i) :
    seg P F' a b = seg P F a b := by
  unfold seg
  congr 1
  exact flatMap_congr' _ F F' (fun i hi => h i (mem_idxs.mp hi).1 (mem_idxs.mp hi).2)

theorem idxs_split (a m b : Nat) (h1 : a ≤ m + 1) (h2 : m ≤ b) : idxs a b = idxs a m ++ idxs (m + 1) b := by
  unfold idxs
  have e : m + 1 = a + (m + 1 - a) := by omega
  have : List.range' (m + 1) (b + 1 - (m + 1)) = List.range' (a + (m + 1 - a)) (b + 1 - (m + 1)) := by
    congr 1
  rw [this, List.range'_append_1]
  congr 1
  omega

theorem seg_split (F : Nat → List α) (a m b : Nat) (h1 : a ≤ m + 1) (h2 : m ≤ b) :
    seg P F a b = seg P F a m ++ seg P F (m + 1) b := by
  unfold seg
  rw [idxs_split a m b h1 h2, List.flatMap_append, List.filter_append]

theorem seg_nil (F : Nat → List α) (a b : Nat) (h : ∀ i, a ≤ i → i ≤ b → (F i).filter P = []) :
    seg P F a b = [] := by
  unfold seg
  rw [List.filter_flatMap]
  rw [List.flatMap_eq_nil_iff]
  intro i hi
  exact h i (mem_idxs.mp hi).1 (mem_idxs.mp hi).2

theorem seg_empty_interval (F : Nat → List α) (a b : Nat) (h : b < a) : seg P F a b = [] := by
  unfold seg idxs
  have : b + 1 - a = 0 := by omega
  simp [this]

theorem seg_shift_up (F' : Nat → List α) (a b n : Nat) (hab : a ≤ b) :
    seg P F' (a + n) (b + n) = seg P (fun i => F' (i + n)) a b := by
  unfold seg idxs
  have e : b + n + 1 - (a + n) = b + 1 - a := by omega
  rw [e]
  have : List.range' (a + n) (b + 1 - a) = (List.range' a (b + 1 - a)).map (n + ·) := by
    rw [List.map_add_range']; congr 1; omega
  rw [this, List.flatMap_map]
  congr 2
  funext i
  congr 1
  omega

/-- insertion of `n` indices at `num`: old index `i` goes to `i` (`i < num`) or `i + n` -/
theorem seg_insert (F F' : Nat → List α) (num n a b : Nat) (hab : a ≤ b)
    (hlo : ∀ i, i < num → F' i = F i) (hhi : ∀ i, num ≤ i → F' (i + n) = F i)
    (hins : ∀ j, num ≤ j → j < num + n → (F' j).filter P = []) :
    seg P F' (if a < num then a else a + n) (if b < num then b else b + n) = seg P F a b := by
  by_cases hb : b < num
  · have ha : a < num := by omega
    simp only [ha, hb, if_true]
    exact seg_congr P F F' a b (fun i _ h2 => hlo i (by omega))
  · by_cases ha : a < num
    · simp only [ha, hb, if_true, if_false]
      -- [a, num-1] ++ [num, num+n-1] (inserted) ++ [num+n, b+n]
      have hnum : 1 ≤ num := by omega
      rw [seg_split P F' a (num - 1) (b + n) (by omega) (by omega),
        seg_split P F a (num - 1) b (by omega) (by omega)]
      have e1 : num - 1 + 1 = num := by omega
      rw [e1]
      congr 1
      · exact seg_congr P F F' a (num - 1) (fun i _ h2 => hlo i (by omega))
      · by_cases hn0 : n = 0
        · subst hn0
          simp only [Nat.add_zero]
          exact seg_congr P F F' num b (fun i h1 _ => by have := hhi i h1; simpa using this)
        · rw [seg_split P F' num (num + n - 1) (b + n) (by omega) (by omega)]
          have e2 : num + n - 1 + 1 = num + n := by omega
          rw [e2, seg_nil P F' num (num + n - 1) (fun j h1 h2 => hins j h1 (by omega)), List.nil_append,
            seg_shift_up P F' num b n (by omega)]
          exact seg_congr P F (fun i => F' (i + n)) num b (fun i h1 _ => hhi i h1)
    · simp only [ha, hb, if_false]
      rw [seg_shift_up P F' a b n hab]
      exact seg_congr P F (fun i => F' (i + n)) a b (fun i h1 _ => hhi i (by omega))

/-- deletion of the `n` indices `num … num+n-1` (which contribute nothing): old index `i` goes to `i`
(`i < num`) or `i - n` (`i ≥ num + n`); `a` and `b` survive -/
theorem seg_delete (F F' : Nat → List α) (num n a b : Nat) (hab : a ≤ b)
    (hlo : ∀ i, i < num → F' i = F i) (hhi : ∀ i, num + n ≤ i → F' (i - n) = F i)
    (hdel : ∀ i, num ≤ i → i < num + n → (F i).filter P = [])
    (ha : a < num ∨ num + n ≤ a) (hb : b < num ∨ num + n ≤ b) :
    seg P F' (if a < num then a else a - n) (if b < num then b else b - n) = seg P F a b := by
  have hup : ∀ x y, num + n ≤ x → x ≤ y → seg P F' (x - n) (y - n) = seg P F x y := by
    intro x y hx hxy
    have := seg_shift_up P F (x - n) (y - n) n (by omega)
    have e1 : x - n + n = x := by omega
    have e2 : y - n + n = y := by omega
    rw [e1, e2] at this
    rw [this]
    exact seg_congr P (fun i => F (i + n)) F' (x - n) (y - n) (fun i h1 _ => by
      have := hhi (i + n) (by omega)
      simpa using this)
  by_cases hb' : b < num
  · have ha' : a < num := by omega
    simp only [ha', hb', if_true]
    exact seg_congr P F F' a b (fun i _ h2 => hlo i (by omega))
  · have hb2 : num + n ≤ b := by omega
    by_cases ha' : a < num
    · simp only [ha', hb', if_true, if_false]
      have hnum : 1 ≤ num := by omega
      by_cases hn0 : n = 0
      · subst hn0
        simp only [Nat.sub_zero]
        exact seg_congr P F F' a b (fun i _ _ => by
          by_cases hi : i < num
          · exact hlo i hi
          · have := hhi i (by omega); simpa using this)
      · -- old: [a, num-1] ++ [num, num+n-1] (deleted) ++ [num+n, b];  new: [a, num-1] ++ [num, b-n]
        rw [seg_split P F a (num - 1) b (by omega) (by omega),
          seg_split P F' a (num - 1) (b - n) (by omega) (by omega)]
        have e1 : num - 1 + 1 = num := by omega
        rw [e1]
        congr 1
        · exact seg_congr P F F' a (num - 1) (fun i _ h2 => hlo i (by omega))
        · rw [seg_split P F num (num + n - 1) b (by omega) (by omega)]
          have e2 : num + n - 1 + 1 = num + n := by omega
          rw [e2, seg_nil P F num (num + n - 1) (fun i h1 h2 => hdel i h1 (by omega)), List.nil_append]
          have := hup (num + n) b (by omega) hb2
          have e3 : num + n - n = num := by omega
          rw [e3] at this
          exact this
    · have ha2 : num + n ≤ a := by omega
      simp only [ha', hb', if_false]
      exact hup a b ha2 hab

end Seg

/-! ### (C) rectangles of cells, row-major, under row / column insertion and deletion -/

section Rect
variable {V : Type} (P : V → Bool)

def rowVals (g : Nat × Nat → V) (c1 c2 row : Nat) : List V := (idxs c1 c2).map (fun col => g (col, row))

theorem rectVals_seg (g : Nat × Nat → V) (c1 r1 c2 r2 : Nat) :
    ((cellsOf c1 r1 c2 r2).map g).filter P = seg P (rowVals g c1 c2) r1 r2 := by
  unfold cellsOf seg rowVals
  rw [List.map_flatMap]
  simp only [List.map_map, Function.comp_def]

theorem flatMap_single {β : Type} (l : List Nat) (f : Nat → β) : l.flatMap (fun x => [f x]) = l.map f := by
  induction l with
  | nil => rfl
  | cons x xs ih => simp [List.flatMap_cons, ih]

theorem rowVals_seg (g : Nat × Nat → V) (c1 c2 row : Nat) :
    (rowVals g c1 c2 row).filter P = seg P (fun col => [g (col, row)]) c1 c2 := by
  unfold rowVals seg
  rw [flatMap_single]

/-- where an index goes: insertion of `n` at `num` / deletion of `n` at `num` (for survivors) -/
def insIdx (num n i : Nat) : Nat := if i < num then i else i + n
def delIdx (num n i : Nat) : Nat := if i < num then i else i - n

/-- rows inserted: the kept values of the relocated rectangle are those of the original one -/
theorem rect_rows_insert (g g' : Nat × Nat → V) (num n c1 r1 c2 r2 : Nat) (hr : r1 ≤ r2)
    (hg : ∀ c row, g' (c, insIdx num n row) = g (c, row))
    (hb : ∀ c j, num ≤ j → j < num + n → P (g' (c, j)) = false) :
    ((cellsOf c1 (insIdx num n r1) c2 (insIdx num n r2)).map g').filter P =
      ((cellsOf c1 r1 c2 r2).map g).filter P := by
  rw [rectVals_seg, rectVals_seg]
  unfold insIdx
  apply seg_insert P (rowVals g c1 c2) (rowVals g' c1 c2) num n r1 r2 hr
  · intro i hi
    unfold rowVals
    apply List.map_congr_left
    intro c _
    have := hg c i
    simpa [insIdx, hi] using this
  · intro i hi
    unfold rowVals
    apply List.map_congr_left
    intro c _
    have := hg c i
    have hlt : ¬ i < num := by omega
    simpa [insIdx, hlt] using this
  · intro j h1 h2
    unfold rowVals
    rw [List.filter_eq_nil_iff]
    intro v hv
    obtain ⟨c, _, rfl⟩ := List.mem_map.mp hv
    simp [hb c j h1 h2]

/-- rows deleted (the deleted rows hold nothing that is kept) -/
theorem rect_rows_delete (g g' : Nat × Nat → V) (num n c1 r1 c2 r2 : Nat) (hr : r1 ≤ r2)
    (h1 : r1 < num ∨ num + n ≤ r1) (h2 : r2 < num ∨ num + n ≤ r2)
    (hg : ∀ c row, (row < num ∨ num + n ≤ row) → g' (c, delIdx num n row) = g (c, row))
    (hd : ∀ c i, num ≤ i → i < num + n → P (g (c, i)) = false) :
    ((cellsOf c1 (delIdx num n r1) c2 (delIdx num n r2)).map g').filter P =
      ((cellsOf c1 r1 c2 r2).map g).filter P := by
  rw [rectVals_seg, rectVals_seg]
  unfold delIdx
  apply seg_delete P (rowVals g c1 c2) (rowVals g' c1 c2) num n r1 r2 hr
  · intro i hi
    unfold rowVals
    apply List.map_congr_left
    intro c _
    have := hg c i (Or.inl hi)
    simpa [delIdx, hi] using this
  · intro i hi
    unfold rowVals
    apply List.map_congr_left
    intro c _
    have := hg c i (Or.inr hi)
    have hlt : ¬ i < num := by omega
    simpa [delIdx, hlt] using this
  · intro i a b
    unfold rowVals
    rw [List.filter_eq_nil_iff]
    intro v hv
    obtain ⟨c, _, rfl⟩ := List.mem_map.mp hv
    simp [hd c i a b]
  · exact h1
  · exact h2

/-- columns inserted -/
theorem rect_cols_insert (g g' : Nat × Nat → V) (num n c1 r1 c2 r2 : Nat) (hc : c1 ≤ c2)
    (hg : ∀ c row, g' (insIdx num n c, row) = g (c, row))
    (hb : ∀ j row, num ≤ j → j < num + n → P (g' (j, row)) = false) :
    ((cellsOf (insIdx num n c1) r1 (insIdx num n c2) r2).map g').filter P =
      ((cellsOf c1 r1 c2 r2).map g).filter P := by
  rw [rectVals_seg, rectVals_seg]
  unfold seg
  rw [List.filter_flatMap, List.filter_flatMap]
  apply flatMap_congr'
  intro row _
  rw [rowVals_seg, rowVals_seg]
  unfold insIdx
  apply seg_insert P (fun col => [g (col, row)]) (fun col => [g' (col, row)]) num n c1 c2 hc
  · intro i hi
    have := hg i row
    simp only [insIdx, hi, if_true] at this
    simp [this]
  · intro i hi
    have := hg i row
    have hlt : ¬ i < num := by omega
    simp only [insIdx, hlt, if_false] at this
    simp [this]
  · intro j a b
    simp [hb j row a b]

/-- columns deleted -/
theorem rect_cols_delete (g g' : Nat × Nat → V) (num n c1 r1 c2 r2 : Nat) (hc : c1 ≤ c2)
    (h1 : c1 < num ∨ num + n ≤ c1) (h2 : c2 < num ∨ num + n ≤ c2)
    (hg : ∀ c row, (c < num ∨ num + n ≤ c) → g' (delIdx num n c, row) = g (c, row))
    (hd : ∀ i row, num ≤ i → i < num + n → P (g (i, row)) = false) :
    ((cellsOf (delIdx num n c1) r1 (delIdx num n c2) r2).map g').filter P =
      ((cellsOf c1 r1 c2 r2).map g).filter P := by
  rw [rectVals_seg, rectVals_seg]
  unfold seg
  rw [List.filter_flatMap, List.filter_flatMap]
  apply flatMap_congr'
  intro row _
  rw [rowVals_seg, rowVals_seg]
  unfold delIdx
  apply seg_delete P (fun col => [g (col, row)]) (fun col => [g' (col, row)]) num n c1 c2 hc
  · intro i hi
    have := hg i row (Or.inl hi)
    simp only [delIdx, hi, if_true] at this
    simp [this]
  · intro i hi
    have := hg i row (Or.inr hi)
    have hlt : ¬ i < num := by omega
    simp only [delIdx, hlt, if_false] at this
    simp [this]
  · intro i a b
    simp [hd i row a b]
  · exact h1
  · exact h2

end Rect

end XlModel.FormulaRef
