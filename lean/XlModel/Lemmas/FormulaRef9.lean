/-
C07 joined with C08's aggregates, glue: `Spec.shiftIdx` in terms of `insIdx` / `delIdx`, and the
rectangle lemmas restated for an `Edit`, `Spec.shiftRef` and `Spec.shiftPos`.
-/
import XlModel.Lemmas.FormulaRef8

namespace XlModel.FormulaRef
open XlModel XlModel.Ref

theorem shiftIdx_ins (num n i : Nat) : Spec.shiftIdx (num : Int) (n : Int) i = some (insIdx num n i) := by
  unfold Spec.shiftIdx insIdx
  by_cases h : i < num
  · have : (i : Int) < (num : Int) := by omega
    simp [h, this]
  · have : ¬ (i : Int) < (num : Int) := by omega
    have h0 : (0 : Int) ≤ (n : Int) := by omega
    simp only [h, this, if_false, h0, if_true, Option.some.injEq]
    omega

theorem shiftIdx_del (num n i : Nat) (h : i < num ∨ num + n ≤ i) :
    Spec.shiftIdx (num : Int) (-(n : Int)) i = some (delIdx num n i) := by
  unfold Spec.shiftIdx delIdx
  by_cases hlt : i < num
  · have : (i : Int) < (num : Int) := by omega
    simp [hlt, this]
  · have h1 : ¬ (i : Int) < (num : Int) := by omega
    have h2 : num + n ≤ i := by omega
    simp only [hlt, h1, if_false]
    split
    · simp only [Option.some.injEq]; omega
    · have : (num : Int) - -(n : Int) ≤ (i : Int) := by omega
      simp only [this, if_true, Option.some.injEq]; omega

theorem shiftIdx_del_none (num n i : Nat) (h1 : num ≤ i) (h2 : i < num + n) :
    Spec.shiftIdx (num : Int) (-(n : Int)) i = none := by
  unfold Spec.shiftIdx
  have a : ¬ (i : Int) < (num : Int) := by omega
  have b : ¬ (0 : Int) ≤ -(n : Int) := by omega
  have c : ¬ (num : Int) - -(n : Int) ≤ (i : Int) := by omega
  simp only [a, b, c, if_false]

theorem shiftIdx_ins_image (num n j : Nat) (h : ∀ i, Spec.shiftIdx (num : Int) (n : Int) i ≠ some j) :
    num ≤ j ∧ j < num + n := by
  constructor
  · apply Classical.byContradiction
    intro hlt
    apply h j
    rw [shiftIdx_ins]; simp [insIdx]; omega
  · apply Classical.byContradiction
    intro hge
    by_cases hj : j < num
    · apply h j; rw [shiftIdx_ins]; simp [insIdx, hj]
    · apply h (j - n)
      rw [shiftIdx_ins]
      have : ¬ (j - n < num) := by omega
      simp only [insIdx, this, if_false, Option.some.injEq]; omega

end XlModel.FormulaRef
