/-
Helper lemmas for the grid model (C03): the comparison tables read from the facts,
`modifyAt`, the abstraction `cellAt` through densification and slot updates, the
representation invariant `Dense`, and the getter under `Dense`.
-/
import XlModel.Grid

namespace XlModel.Grid
open XlModel

/-! ### facts -/

theorem contains_iff (q : Rect) (c r : Nat) :
    q.contains c r = true ↔ q.c1 ≤ c ∧ c ≤ q.c2 ∧ q.r1 ≤ r ∧ r ≤ q.r2 := by
  simp [Rect.contains, Facts.C03.cellInRangeConds, cmpOp, Rect.idx]

theorem rowsGuard (a b : Nat) : cmpOp Facts.C03.rowsGuardOp a b = decide (a < b) := by
  simp [cmpOp, Facts.C03.rowsGuardOp]

theorem colsGuard (a b : Nat) : cmpOp Facts.C03.colsGuardOp a b = decide (a < b) := by
  simp [cmpOp, Facts.C03.colsGuardOp]

/-! ### modifyAt -/

theorem length_modifyAt {α} (l : List α) (i : Nat) (f : α → α) : (modifyAt l i f).length = l.length := by
  unfold modifyAt; split <;> simp

theorem getElem?_modifyAt {α} (l : List α) (i j : Nat) (f : α → α) :
    (modifyAt l i f)[j]? = if i = j then l[j]?.map f else l[j]? := by
  unfold modifyAt
  split
  · rename_i x hx
    rw [List.getElem?_set]
    by_cases hij : i = j
    · subst hij
      have : i < l.length := by
        rcases Nat.lt_or_ge i l.length with h | h
        · exact h
        · rw [List.getElem?_eq_none h] at hx; cases hx
      have hx' : l[i] = x := by
        have := List.getElem?_eq_getElem this
        rw [this] at hx; exact Option.some.inj hx
      simp [this, hx']
    · simp [hij]
  · rename_i hx
    by_cases hij : i = j
    · subst hij; simp [hx]
    · simp [hij]

/-! ### slots and the abstraction -/

/-- the cell stored in slot (c,r), if the slot exists -/
def slot (rows : List Row) (c r : Nat) : Option Cell :=
  match rows[r - 1]? with
  | some rd => rd.cells[c - 1]?
  | none => none

theorem cellAt_eq_slot (rows : List Row) (c r : Nat) :
    cellAt rows c r = if c = 0 ∨ r = 0 then CellV.blank else
      match slot rows c r with
      | some cell => cell.val
      | none => CellV.blank := by
  unfold cellAt slot
  split
  · rfl
  · cases rows[r - 1]? <;> rfl

theorem fill_getElem? (cells : List Cell) (col row j : Nat) :
    (fillColumns cells col row)[j]? =
      if j < cells.length then cells[j]? else if j < col then some ⟨j + 1, row, CellV.blank⟩ else none := by
  unfold fillColumns
  rw [colsGuard]
  by_cases h : cells.length < col
  · simp only [h, decide_true, if_true, List.getElem?_append]
    by_cases hj : j < cells.length
    · simp [hj]
    · simp only [hj, if_false, List.getElem?_map]
      by_cases hjc : j < col
      · have : j - cells.length < col - cells.length := by omega
        rw [List.getElem?_range' this]
        simp [hjc]; omega
      · have : col - cells.length ≤ j - cells.length := by omega
        simp [hjc, this]
  · simp only [h, decide_false]
    by_cases hj : j < cells.length
    · simp [hj]
    · have : ¬ j < col := by omega
      simp [hj, this]

theorem extend_getElem? (rows : List Row) (row i : Nat) :
    (extendRows rows row)[i]? =
      if i < rows.length then rows[i]? else if i < row then some ⟨i + 1, []⟩ else none := by
  unfold extendRows
  rw [rowsGuard]
  by_cases h : rows.length < row
  · simp only [h, decide_true, if_true, List.getElem?_append]
    by_cases hj : i < rows.length
    · simp [hj]
    · simp only [hj, if_false, List.getElem?_map]
      by_cases hjc : i < row
      · have : i - rows.length < row - rows.length := by omega
        rw [List.getElem?_range' this]
        simp [hjc]; omega
      · have : row - rows.length ≤ i - rows.length := by omega
        simp [hjc, this]
  · simp only [h, decide_false]
    by_cases hj : i < rows.length
    · simp [hj]
    · have : ¬ i < row := by omega
      simp [hj, this]

/-- content of column c in a cell list -/
def rowVal (cells : List Cell) (c : Nat) : CellV :=
  match cells[c - 1]? with
  | some cell => cell.val
  | none => CellV.blank

theorem cellAt_eq_rowVal (rows : List Row) (c r : Nat) :
    cellAt rows c r = if c = 0 ∨ r = 0 then CellV.blank else
      match rows[r - 1]? with
      | some rd => rowVal rd.cells c
      | none => CellV.blank := by
  unfold cellAt rowVal; rfl

theorem rowVal_fill (cells : List Cell) (col row c : Nat) :
    rowVal (fillColumns cells col row) c = rowVal cells c := by
  unfold rowVal
  rw [fill_getElem?]
  by_cases h : c - 1 < cells.length
  · simp [h]
  · have hn : cells[c - 1]? = none := List.getElem?_eq_none (by omega)
    simp only [h, if_false, hn]
    by_cases hc : c - 1 < col <;> simp [hc]

theorem rowVal_nil (c : Nat) : rowVal [] c = CellV.blank := by simp [rowVal]

theorem prepare_getElem? (rows : List Row) (col row i : Nat) :
    (prepareSheetXML rows col row)[i]? =
      if row - 1 = i then ((extendRows rows row)[i]?).map (fun rd => { rd with cells := fillColumns rd.cells col row })
      else (extendRows rows row)[i]? := by
  unfold prepareSheetXML; rw [getElem?_modifyAt]

/-- densification is invisible to the abstraction: filler rows and cells are blank -/
theorem cellAt_prepare (rows : List Row) (col row : Nat) :
    cellAt (prepareSheetXML rows col row) = cellAt rows := by
  funext c r
  rw [cellAt_eq_rowVal, cellAt_eq_rowVal]
  by_cases h0 : c = 0 ∨ r = 0
  · simp [h0]
  · simp only [h0, if_false]
    rw [prepare_getElem?, extend_getElem?]
    by_cases hlt : r - 1 < rows.length
    · obtain ⟨rd, hrd⟩ : ∃ rd, rows[r - 1]? = some rd := ⟨rows[r - 1], List.getElem?_eq_getElem hlt⟩
      simp only [hlt, if_true, hrd]
      by_cases hm : row - 1 = r - 1
      · simp [hm, rowVal_fill]
      · simp [hm]
    · have hn : rows[r - 1]? = none := List.getElem?_eq_none (by omega)
      simp only [hlt, if_false, hn]
      by_cases hr : r - 1 < row
      · by_cases hm : row - 1 = r - 1
        · simp [hm, hr, rowVal_fill, rowVal_nil]
        · simp [hm, hr, rowVal_nil]
      · by_cases hm : row - 1 = r - 1
        · simp [hm, hr]
        · simp [hm, hr]

/-- after `prepareSheetXML(col,row)` the slot (col,row) exists -/
theorem slot_prepare_self (rows : List Row) (col row : Nat) (hc : 1 ≤ col) (hr : 1 ≤ row) :
    ∃ cell, slot (prepareSheetXML rows col row) col row = some cell := by
  unfold slot
  rw [prepare_getElem?, extend_getElem?]
  simp only [if_true]
  by_cases hlt : row - 1 < rows.length
  · obtain ⟨rd, hrd⟩ : ∃ rd, rows[row - 1]? = some rd := ⟨rows[row - 1], List.getElem?_eq_getElem hlt⟩
    simp only [hlt, if_true, hrd, Option.map_some]
    rw [fill_getElem?]
    by_cases h : col - 1 < rd.cells.length
    · exact ⟨rd.cells[col - 1], by simp [h]⟩
    · have : col - 1 < col := by omega
      exact ⟨⟨col - 1 + 1, row, CellV.blank⟩, by simp [h, this]⟩
  · have h2 : row - 1 < row := by omega
    simp only [hlt, if_false, h2, if_true, Option.map_some]
    rw [fill_getElem?]
    have : col - 1 < col := by omega
    exact ⟨⟨col - 1 + 1, row, CellV.blank⟩, by simp [this]⟩

theorem setSlot_getElem? (rows : List Row) (c r i : Nat) (f : CellV → CellV) :
    (setSlot rows c r f)[i]? =
      if r - 1 = i then (rows[i]?).map (fun rd =>
        { rd with cells := modifyAt rd.cells (c - 1) (fun x => { x with val := f x.val }) })
      else rows[i]? := by
  unfold setSlot; rw [getElem?_modifyAt]

/-- overwriting an existing slot is a function update of the abstraction -/
theorem cellAt_setSlot (rows : List Row) (c r : Nat) (f : CellV → CellV) (cell : Cell)
    (hs : slot rows c r = some cell) (hc : 1 ≤ c) (hr : 1 ≤ r) :
    cellAt (setSlot rows c r f) = Spec.upd (cellAt rows) c r (f cell.val) := by
  funext c' r'
  unfold Spec.upd
  rw [cellAt_eq_rowVal, cellAt_eq_rowVal]
  unfold slot at hs
  by_cases h0 : c' = 0 ∨ r' = 0
  · have : ¬ (c' = c ∧ r' = r) := by omega
    simp [h0, this]
  · simp only [h0, if_false]
    rw [setSlot_getElem?]
    by_cases hm : r - 1 = r' - 1
    · have hrr : r' = r := by omega
      subst hrr
      cases hrd : rows[r' - 1]? with
      | none => rw [hrd] at hs; cases hs
      | some rd =>
        rw [hrd] at hs
        simp only [if_true, Option.map_some]
        unfold rowVal
        rw [getElem?_modifyAt]
        by_cases hcc : c - 1 = c' - 1
        · have : c' = c := by omega
          subst this
          simp [hs]
        · have : ¬ (c' = c) := by omega
          simp [hcc, this]
    · have : ¬ (r' = r) := by omega
      simp [hm, this]

/-- `prepareCell` + update of the returned cell: a function update at (c,r) -/
theorem cellAt_prepare_setSlot (rows : List Row) (c r : Nat) (f : CellV → CellV) (hc : 1 ≤ c) (hr : 1 ≤ r) :
    cellAt (setSlot (prepareSheetXML rows c r) c r f) = Spec.upd (cellAt rows) c r (f (cellAt rows c r)) := by
  obtain ⟨cell, hcell⟩ := slot_prepare_self rows c r hc hr
  rw [cellAt_setSlot _ c r f cell hcell hc hr, cellAt_prepare]
  have : cell.val = cellAt rows c r := by
    have h := congrFun (congrFun (cellAt_prepare rows c r) c) r
    rw [cellAt_eq_slot, hcell] at h
    have h0 : ¬ (c = 0 ∨ r = 0) := by omega
    simpa [h0] using h
  rw [this]

end XlModel.Grid
