/-
Refinement lemmas for the grid model (C03): every modelled operation acts on the
abstraction `abs` exactly like the corresponding `Spec` operation.
-/
import XlModel.Lemmas.Grid

namespace XlModel.Grid
open XlModel

theorem abs_writeAt (s : Sheet) (c r : Nat) (f : CellV → CellV) :
    abs (writeAt s c r f).1 = (Spec.writeAt (abs s) c r f).1 ∧
    (writeAt s c r f).2 = (Spec.writeAt (abs s) c r f).2 := by
  unfold writeAt Spec.writeAt
  by_cases h0 : c = 0 ∨ r = 0
  · simp [h0]
  · simp only [h0, if_false]
    have hm : (abs s).merges = s.merges := rfl
    rw [hm]
    by_cases h1 : (anchor s.merges c r).1 = 0 ∨ (anchor s.merges c r).2 = 0
    · simp [h1]
    · simp only [h1, if_false, and_true]
      have hc : 1 ≤ (anchor s.merges c r).1 := by omega
      have hr : 1 ≤ (anchor s.merges c r).2 := by omega
      simp only [abs]
      rw [cellAt_prepare_setSlot _ _ _ f hc hr]

/-- folding position-wise idempotent updates over a list of positions -/
theorem foldl_upd_cellAt (Inv : List Row → Prop) (h : CellV → CellV) (hid : ∀ v, h (h v) = h v)
    (F : List Row → Nat × Nat → List Row) (pts : List (Nat × Nat))
    (hInv : ∀ rs p, p ∈ pts → Inv rs → Inv (F rs p))
    (hF : ∀ rs p, p ∈ pts → Inv rs → cellAt (F rs p) = Spec.upd (cellAt rs) p.1 p.2 (h (cellAt rs p.1 p.2))) :
    ∀ (l : List (Nat × Nat)) (rows : List Row), (∀ p ∈ l, p ∈ pts) → Inv rows →
      Inv (l.foldl F rows) ∧
      cellAt (l.foldl F rows) = fun c r => if (c, r) ∈ l then h (cellAt rows c r) else cellAt rows c r := by
  intro l
  induction l with
  | nil => intro rows _ hi; exact ⟨hi, by simp⟩
  | cons p ps ih =>
    intro rows hsub hi
    have hp : p ∈ pts := hsub p (by simp)
    have hi' := hInv rows p hp hi
    obtain ⟨hinv, hc⟩ := ih (F rows p) (fun q hq => hsub q (by simp [hq])) hi'
    refine ⟨by simpa using hinv, ?_⟩
    simp only [List.foldl_cons]
    rw [hc, hF rows p hp hi]
    funext c r
    unfold Spec.upd
    by_cases hcr : (c, r) = p
    · subst hcr
      by_cases hin : (c, r) ∈ ps
      · simp [hin, hid]
      · simp [hin]
    · have hne : ¬ (c = p.1 ∧ r = p.2) := by
        intro ⟨h1, h2⟩; apply hcr; cases p; simp_all
      have hmem : ((c, r) ∈ p :: ps) ↔ (c, r) ∈ ps := by simp [hcr]
      by_cases hin : (c, r) ∈ ps
      · simp [hin, hne, hmem]
      · simp [hin, hne, hmem]

theorem mem_colMajor (q : Rect) (c r : Nat) :
    (c, r) ∈ colMajor q ↔ q.c1 ≤ c ∧ c ≤ q.c2 ∧ q.r1 ≤ r ∧ r ≤ q.r2 := by
  simp only [colMajor, List.mem_flatMap, List.mem_map, List.mem_range'_1, Prod.mk.injEq]
  constructor
  · rintro ⟨a, ⟨h1, h2⟩, b, ⟨h3, h4⟩, rfl, rfl⟩; omega
  · intro h; exact ⟨c, by omega, r, by omega, rfl, rfl⟩

theorem mem_rowMajor (q : Rect) (c r : Nat) :
    (c, r) ∈ rowMajor q ↔ q.c1 ≤ c ∧ c ≤ q.c2 ∧ q.r1 ≤ r ∧ r ≤ q.r2 := by
  simp only [rowMajor, List.mem_flatMap, List.mem_map, List.mem_range'_1, Prod.mk.injEq]
  constructor
  · rintro ⟨a, ⟨h1, h2⟩, b, ⟨h3, h4⟩, rfl, rfl⟩; omega
  · intro h; exact ⟨r, by omega, c, by omega, rfl, rfl⟩

theorem sortRect_pos (c1 r1 c2 r2 : Nat) (h : ¬ (c1 = 0 ∨ r1 = 0 ∨ c2 = 0 ∨ r2 = 0)) :
    1 ≤ (sortRect c1 r1 c2 r2).c1 ∧ 1 ≤ (sortRect c1 r1 c2 r2).r1 ∧
    (sortRect c1 r1 c2 r2).c1 ≤ (sortRect c1 r1 c2 r2).c2 ∧ (sortRect c1 r1 c2 r2).r1 ≤ (sortRect c1 r1 c2 r2).r2 := by
  unfold sortRect
  simp only
  refine ⟨?_, ?_, ?_, ?_⟩ <;> split <;> omega

theorem clearCell_idem (v : CellV) : clearCell (clearCell v) = clearCell v := rfl

/-- the cell loop of `MergeCell` clears exactly the covered cells other than the top-left one -/
theorem cellAt_mergeLoop (rows : List Row) (q : Rect) (h1 : 1 ≤ q.c1) (h2 : 1 ≤ q.r1) :
    cellAt (((colMajor q).filter fun p => !(p.1 = q.c1 ∧ p.2 = q.r1)).foldl
      (fun rs p => setSlot (prepareSheetXML rs p.1 p.2) p.1 p.2 clearCell) rows) =
    fun c r => if (q.c1 ≤ c ∧ c ≤ q.c2 ∧ q.r1 ≤ r ∧ r ≤ q.r2) ∧ ¬(c = q.c1 ∧ r = q.r1)
      then clearCell (cellAt rows c r) else cellAt rows c r := by
  have hpts : ∀ p ∈ (colMajor q).filter (fun p => !(p.1 = q.c1 ∧ p.2 = q.r1)), 1 ≤ p.1 ∧ 1 ≤ p.2 := by
    intro p hp
    have := (List.mem_filter.mp hp).1
    have := (mem_colMajor q p.1 p.2).mp this
    omega
  have := (foldl_upd_cellAt (fun _ => True) clearCell clearCell_idem
    (fun rs p => setSlot (prepareSheetXML rs p.1 p.2) p.1 p.2 clearCell)
    ((colMajor q).filter fun p => !(p.1 = q.c1 ∧ p.2 = q.r1))
    (fun _ _ _ _ => trivial)
    (fun rs p hp _ => cellAt_prepare_setSlot rs p.1 p.2 clearCell (hpts p hp).1 (hpts p hp).2)
    _ rows (fun _ h => h) trivial).2
  rw [this]
  funext c r
  have hm : ((c, r) ∈ (colMajor q).filter fun p => !(p.1 = q.c1 ∧ p.2 = q.r1)) ↔
      ((q.c1 ≤ c ∧ c ≤ q.c2 ∧ q.r1 ≤ r ∧ r ≤ q.r2) ∧ ¬(c = q.c1 ∧ r = q.r1)) := by
    rw [List.mem_filter, mem_colMajor]; simp; intros; omega
  by_cases hh : (q.c1 ≤ c ∧ c ≤ q.c2 ∧ q.r1 ≤ r ∧ r ≤ q.r2) ∧ ¬(c = q.c1 ∧ r = q.r1)
  · rw [if_pos (hm.mpr hh), if_pos hh]
  · rw [if_neg (fun x => hh (hm.mp x)), if_neg hh]

/-! ### SetCellStyle -/

/-- `fillColumns(&Row[r-1], n, r)` -/
def fillAt (rs : List Row) (r n : Nat) : List Row :=
  modifyAt rs (r - 1) (fun rd => { rd with cells := fillColumns rd.cells n r })

theorem makeContiguous_eq (rows : List Row) (a b n : Nat) :
    makeContiguousColumns rows a b n = (List.range' a (b - a)).foldl (fun rs r => fillAt rs r n) rows := rfl

theorem prepare_eq (rows : List Row) (col row : Nat) :
    prepareSheetXML rows col row = fillAt (extendRows rows row) row col := rfl

theorem fillAt_getElem? (rs : List Row) (r n i : Nat) :
    (fillAt rs r n)[i]? = if r - 1 = i then (rs[i]?).map (fun rd => { rd with cells := fillColumns rd.cells n r })
      else rs[i]? := by
  unfold fillAt; rw [getElem?_modifyAt]

theorem length_fillAt (rs : List Row) (r n : Nat) : (fillAt rs r n).length = rs.length := by
  unfold fillAt; rw [length_modifyAt]

theorem cellAt_fillAt (rs : List Row) (r n : Nat) : cellAt (fillAt rs r n) = cellAt rs := by
  funext c r'
  rw [cellAt_eq_rowVal, cellAt_eq_rowVal]
  by_cases h0 : c = 0 ∨ r' = 0
  · simp [h0]
  · simp only [h0, if_false]
    rw [fillAt_getElem?]
    by_cases hm : r - 1 = r' - 1
    · cases hrd : rs[r' - 1]? with
      | none => simp [hm, hrd]
      | some rd => simp [hm, hrd, rowVal_fill]
    · simp [hm]

theorem length_fillColumns (cells : List Cell) (n r : Nat) :
    n ≤ (fillColumns cells n r).length ∧ cells.length ≤ (fillColumns cells n r).length := by
  unfold fillColumns
  rw [colsGuard]
  by_cases h : cells.length < n
  · simp [h]; omega
  · simp [h]; omega

/-- row slot r exists and has at least n cell slots -/
def wide (rs : List Row) (r n : Nat) : Prop := ∃ rd, rs[r - 1]? = some rd ∧ n ≤ rd.cells.length

theorem wide_fillAt_mono (rs : List Row) (r n r' m : Nat) (h : wide rs r' m) : wide (fillAt rs r n) r' m := by
  obtain ⟨rd, h1, h2⟩ := h
  unfold wide
  rw [fillAt_getElem?]
  by_cases hm : r - 1 = r' - 1
  · refine ⟨_, by simp [hm, h1]; rfl, ?_⟩
    have := (length_fillColumns rd.cells n r).2
    simp; omega
  · exact ⟨rd, by simp [hm, h1], h2⟩

theorem wide_fillAt_self (rs : List Row) (r n : Nat) (h : r - 1 < rs.length) : wide (fillAt rs r n) r n := by
  unfold wide
  rw [fillAt_getElem?]
  refine ⟨_, by simp [List.getElem?_eq_getElem h]; rfl, ?_⟩
  exact (length_fillColumns _ n r).1

theorem wide_fold (n : Nat) : ∀ (l : List Nat) (rs : List Row), (∀ r ∈ l, r - 1 < rs.length) →
    (∀ r ∈ l, wide (l.foldl (fun rs r => fillAt rs r n) rs) r n) ∧
    (∀ r' m, wide rs r' m → wide (l.foldl (fun rs r => fillAt rs r n) rs) r' m) := by
  intro l
  induction l with
  | nil => intro rs _; exact ⟨by simp, fun _ _ h => h⟩
  | cons a l ih =>
    intro rs hl
    have ha : a - 1 < rs.length := hl a (by simp)
    have hl' : ∀ r ∈ l, r - 1 < (fillAt rs a n).length := by
      intro r hr; rw [length_fillAt]; exact hl r (by simp [hr])
    obtain ⟨i1, i2⟩ := ih (fillAt rs a n) hl'
    constructor
    · intro r hr
      simp only [List.foldl_cons]
      rcases List.mem_cons.mp hr with rfl | hr
      · exact i2 _ _ (wide_fillAt_self rs _ n ha)
      · exact i1 r hr
    · intro r' m h
      simp only [List.foldl_cons]
      exact i2 _ _ (wide_fillAt_mono rs a n r' m h)

theorem cellAt_fold_fillAt (n : Nat) : ∀ (l : List Nat) (rs : List Row),
    cellAt (l.foldl (fun rs r => fillAt rs r n) rs) = cellAt rs := by
  intro l
  induction l with
  | nil => intro rs; rfl
  | cons a l ih => intro rs; simp only [List.foldl_cons]; rw [ih, cellAt_fillAt]

theorem length_extendRows (rows : List Row) (row : Nat) :
    row ≤ (extendRows rows row).length ∧ rows.length ≤ (extendRows rows row).length := by
  unfold extendRows
  rw [rowsGuard]
  by_cases h : rows.length < row
  · simp [h]; omega
  · simp [h]; omega

theorem slot_of_wide (rs : List Row) (c r n : Nat) (h : wide rs r n) (h1 : 1 ≤ c) (h2 : c ≤ n) :
    ∃ cell, slot rs c r = some cell := by
  obtain ⟨rd, hrd, hn⟩ := h
  unfold slot
  rw [hrd]
  have : c - 1 < rd.cells.length := by omega
  exact ⟨rd.cells[c - 1], List.getElem?_eq_getElem this⟩

theorem slot_setSlot_some (rs : List Row) (c r c' r' : Nat) (f : CellV → CellV) (cell : Cell)
    (h : slot rs c' r' = some cell) : ∃ cell', slot (setSlot rs c r f) c' r' = some cell' := by
  unfold slot at *
  rw [setSlot_getElem?]
  cases hrd : rs[r' - 1]? with
  | none => rw [hrd] at h; cases h
  | some rd =>
    rw [hrd] at h
    by_cases hm : r - 1 = r' - 1
    · simp only [hm, if_true, Option.map_some]
      rw [getElem?_modifyAt]
      by_cases hc : c - 1 = c' - 1
      · simp [hc, h]
      · simp [hc, h]
    · simp [hm, h]

/-- after the two densification calls of `SetCellStyle` every slot of the block exists -/
theorem style_slots (rows : List Row) (q : Rect) (h1 : 1 ≤ q.c1) (h2 : 1 ≤ q.r1) (h4 : q.r1 ≤ q.r2) :
    ∀ p ∈ rowMajor q, ∃ cell,
      slot (makeContiguousColumns (prepareSheetXML rows q.c2 q.r2) q.r1 q.r2 q.c2) p.1 p.2 = some cell := by
  intro p hp
  have hp' := (mem_rowMajor q p.1 p.2).mp hp
  rw [makeContiguous_eq, prepare_eq]
  have hlen : q.r2 ≤ (fillAt (extendRows rows q.r2) q.r2 q.c2).length := by
    rw [length_fillAt]; exact (length_extendRows rows q.r2).1
  have hrange : ∀ r ∈ List.range' q.r1 (q.r2 - q.r1), r - 1 < (fillAt (extendRows rows q.r2) q.r2 q.c2).length := by
    intro r hr; have := List.mem_range'_1.mp hr; omega
  obtain ⟨w1, w2⟩ := wide_fold q.c2 (List.range' q.r1 (q.r2 - q.r1)) _ hrange
  have hw : wide ((List.range' q.r1 (q.r2 - q.r1)).foldl (fun rs r => fillAt rs r q.c2)
      (fillAt (extendRows rows q.r2) q.r2 q.c2)) p.2 q.c2 := by
    by_cases hlast : p.2 = q.r2
    · rw [hlast]
      apply w2
      apply wide_fillAt_self
      have := (length_extendRows rows q.r2).1
      omega
    · apply w1
      apply List.mem_range'_1.mpr
      omega
  exact slot_of_wide _ p.1 p.2 q.c2 hw (by omega) (by omega)

/-- the two loops of `SetCellStyle` set the style of exactly the cells of the block -/
theorem cellAt_styleLoop (rows : List Row) (q : Rect) (id : Nat)
    (h1 : 1 ≤ q.c1) (h2 : 1 ≤ q.r1) (h4 : q.r1 ≤ q.r2) :
    cellAt ((rowMajor q).foldl (fun rs p => setSlot rs p.1 p.2 (fun v => { v with s := id }))
      (makeContiguousColumns (prepareSheetXML rows q.c2 q.r2) q.r1 q.r2 q.c2)) =
    fun c r => if q.c1 ≤ c ∧ c ≤ q.c2 ∧ q.r1 ≤ r ∧ r ≤ q.r2 then { cellAt rows c r with s := id } else cellAt rows c r := by
  have hbase : cellAt (makeContiguousColumns (prepareSheetXML rows q.c2 q.r2) q.r1 q.r2 q.c2) = cellAt rows := by
    rw [makeContiguous_eq, cellAt_fold_fillAt, cellAt_prepare]
  have hpos : ∀ p ∈ rowMajor q, 1 ≤ p.1 ∧ 1 ≤ p.2 := by
    intro p hp; have := (mem_rowMajor q p.1 p.2).mp hp; omega
  have := (foldl_upd_cellAt
    (fun rs => ∀ p ∈ rowMajor q, ∃ cell, slot rs p.1 p.2 = some cell)
    (fun v => { v with s := id }) (fun _ => rfl)
    (fun rs p => setSlot rs p.1 p.2 (fun v => { v with s := id })) (rowMajor q)
    (fun rs p _ hinv p' hp' => by
      obtain ⟨cell, hc⟩ := hinv p' hp'
      exact slot_setSlot_some rs p.1 p.2 p'.1 p'.2 _ cell hc)
    (fun rs p hp hinv => by
      obtain ⟨cell, hc⟩ := hinv p hp
      rw [cellAt_setSlot rs p.1 p.2 _ cell hc (hpos p hp).1 (hpos p hp).2]
      have : cell.val = cellAt rs p.1 p.2 := by
        rw [cellAt_eq_slot, hc]
        have h0 : ¬ (p.1 = 0 ∨ p.2 = 0) := by have := hpos p hp; omega
        simp [h0]
      rw [this])
    (rowMajor q) _ (fun _ h => h) (style_slots rows q h1 h2 h4)).2
  rw [this, hbase]
  funext c r
  by_cases hh : q.c1 ≤ c ∧ c ≤ q.c2 ∧ q.r1 ≤ r ∧ r ≤ q.r2
  · rw [if_pos ((mem_rowMajor q c r).mpr hh), if_pos hh]
  · rw [if_neg (fun x => hh ((mem_rowMajor q c r).mp x)), if_neg hh]

end XlModel.Grid
