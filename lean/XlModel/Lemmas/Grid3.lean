/-
The representation invariant `Dense` (C03): preserved by every modelled operation, and
under it the getter (search by stored row number and reference) finds exactly the slot.
-/
import XlModel.Lemmas.Grid2

namespace XlModel.Grid
open XlModel

/-- row slot i holds r = i+1; cell slot j of it holds the reference of (j+1, i+1) -/
def Dense (rows : List Row) : Prop :=
  ∀ i rd, rows[i]? = some rd →
    rd.r = i + 1 ∧ ∀ j cell, rd.cells[j]? = some cell → cell.col = j + 1 ∧ cell.row = i + 1

theorem dense_nil : Dense [] := by intro i rd h; simp at h

theorem dense_extend (rows : List Row) (row : Nat) (h : Dense rows) : Dense (extendRows rows row) := by
  intro i rd hi
  rw [extend_getElem?] at hi
  by_cases h1 : i < rows.length
  · simp only [h1, if_true] at hi; exact h i rd hi
  · simp only [h1, if_false] at hi
    by_cases h2 : i < row
    · simp only [h2, if_true, Option.some.injEq] at hi
      subst hi
      exact ⟨rfl, by intro j cell hj; simp at hj⟩
    · simp [h2] at hi

theorem dense_fillAt (rs : List Row) (r n : Nat) (hr : 1 ≤ r) (h : Dense rs) : Dense (fillAt rs r n) := by
  intro i rd hi
  rw [fillAt_getElem?] at hi
  by_cases hm : r - 1 = i
  · simp only [hm, if_true] at hi
    cases hrd : rs[i]? with
    | none => rw [hrd] at hi; simp at hi
    | some rd0 =>
      rw [hrd] at hi
      simp only [Option.map_some, Option.some.injEq] at hi
      subst hi
      obtain ⟨d1, d2⟩ := h i rd0 hrd
      refine ⟨d1, ?_⟩
      intro j cell hj
      simp only at hj
      rw [fill_getElem?] at hj
      by_cases hj1 : j < rd0.cells.length
      · simp only [hj1, if_true] at hj; exact d2 j cell hj
      · simp only [hj1, if_false] at hj
        by_cases hj2 : j < n
        · simp only [hj2, if_true, Option.some.injEq] at hj
          subst hj
          exact ⟨rfl, by simp; omega⟩
        · simp [hj2] at hj
  · simp only [hm, if_false] at hi; exact h i rd hi

theorem dense_prepare (rows : List Row) (col row : Nat) (hr : 1 ≤ row) (h : Dense rows) :
    Dense (prepareSheetXML rows col row) := by
  rw [prepare_eq]; exact dense_fillAt _ _ _ hr (dense_extend _ _ h)

theorem dense_setSlot (rows : List Row) (c r : Nat) (f : CellV → CellV) (h : Dense rows) :
    Dense (setSlot rows c r f) := by
  intro i rd hi
  rw [setSlot_getElem?] at hi
  by_cases hm : r - 1 = i
  · simp only [hm, if_true] at hi
    cases hrd : rows[i]? with
    | none => rw [hrd] at hi; simp at hi
    | some rd0 =>
      rw [hrd] at hi
      simp only [Option.map_some, Option.some.injEq] at hi
      subst hi
      obtain ⟨d1, d2⟩ := h i rd0 hrd
      refine ⟨d1, ?_⟩
      intro j cell hj
      simp only at hj
      rw [getElem?_modifyAt] at hj
      by_cases hc : c - 1 = j
      · simp only [hc, if_true] at hj
        cases hcell : rd0.cells[j]? with
        | none => rw [hcell] at hj; simp at hj
        | some c0 =>
          rw [hcell] at hj
          simp only [Option.map_some, Option.some.injEq] at hj
          subst hj
          exact d2 j c0 hcell
      · simp only [hc, if_false] at hj; exact d2 j cell hj
  · simp only [hm, if_false] at hi; exact h i rd hi

theorem dense_foldl {α} (F : List Row → α → List Row) (P : α → Prop)
    (hF : ∀ rs a, P a → Dense rs → Dense (F rs a)) :
    ∀ (l : List α) (rs : List Row), (∀ a ∈ l, P a) → Dense rs → Dense (l.foldl F rs) := by
  intro l
  induction l with
  | nil => intro rs _ h; exact h
  | cons a l ih =>
    intro rs hl h
    simp only [List.foldl_cons]
    exact ih _ (fun b hb => hl b (by simp [hb])) (hF rs a (hl a (by simp)) h)

theorem dense_writeAt (s : Sheet) (c r : Nat) (f : CellV → CellV) (h : Dense s.rows) :
    Dense (writeAt s c r f).1.rows := by
  unfold writeAt
  by_cases h0 : c = 0 ∨ r = 0
  · simp [h0, h]
  · simp only [h0, if_false]
    by_cases h1 : (anchor s.merges c r).1 = 0 ∨ (anchor s.merges c r).2 = 0
    · simp [h1, h]
    · simp only [h1, if_false]
      exact dense_setSlot _ _ _ _ (dense_prepare _ _ _ (by omega) h)

/-- `Dense` is preserved by every modelled operation -/
theorem dense_step (s : Sheet) (op : Op) (h : Dense s.rows) : Dense (step s op).1.rows := by
  cases op with
  | set k c r p =>
    simp only [step, setCell]
    cases p with
    | sst e =>
      simp only
      split
      · exact dense_writeAt s c r _ h
      · exact h
    | tv t v => exact dense_writeAt s c r _ h
    | num v => exact dense_writeAt s c r _ h
    | inl x => exact dense_writeAt s c r _ h
    | clr => exact dense_writeAt s c r _ h
  | formula c r fm => exact dense_writeAt s c r _ h
  | style c1 r1 c2 r2 id =>
    simp only [step, setStyle]
    by_cases h0 : c1 = 0 ∨ r1 = 0 ∨ c2 = 0 ∨ r2 = 0
    · simp [h0, h]
    · simp only [h0, if_false]
      obtain ⟨p1, p2, p3, p4⟩ := sortRect_pos c1 r1 c2 r2 h0
      have hd1 : Dense (makeContiguousColumns (prepareSheetXML s.rows (sortRect c1 r1 c2 r2).c2 (sortRect c1 r1 c2 r2).r2)
          (sortRect c1 r1 c2 r2).r1 (sortRect c1 r1 c2 r2).r2 (sortRect c1 r1 c2 r2).c2) := by
        rw [makeContiguous_eq]
        apply dense_foldl (fun rs r => fillAt rs r _) (fun r => 1 ≤ r) (fun rs a ha hd => dense_fillAt rs a _ ha hd)
        · intro a ha; have := List.mem_range'_1.mp ha; omega
        · exact dense_prepare _ _ _ (by omega) h
      split
      · exact hd1
      · exact dense_foldl (fun rs (p : Nat × Nat) => setSlot rs p.1 p.2 _) (fun _ => True)
          (fun rs a _ hd => dense_setSlot rs _ _ _ hd) _ _ (fun _ _ => trivial) hd1
  | getStyle c r =>
    simp only [step, getStyle]
    split <;> exact h
  | merge c1 r1 c2 r2 =>
    simp only [step, mergeCell]
    by_cases h0 : c1 = 0 ∨ r1 = 0 ∨ c2 = 0 ∨ r2 = 0
    · simp [h0, h]
    · simp only [h0, if_false]
      obtain ⟨p1, p2, p3, p4⟩ := sortRect_pos c1 r1 c2 r2 h0
      apply dense_foldl (fun rs (p : Nat × Nat) => setSlot (prepareSheetXML rs p.1 p.2) p.1 p.2 clearCell) (fun (p : Nat × Nat) => 1 ≤ p.2)
        (fun rs a ha hd => dense_setSlot _ _ _ _ (dense_prepare _ _ _ ha hd))
      · intro a ha
        have := (mem_colMajor _ a.1 a.2).mp (List.mem_filter.mp ha).1
        omega
      · exact h
  | unmerge c1 r1 c2 r2 =>
    simp only [step, unmergeCell]
    split
    · exact h
    · split <;> exact h
  | getMerges => simp only [step, getMerges]; split <;> exact h

/-! ### the getter under `Dense` -/

theorem find_cells (r : Nat) : ∀ (cells : List Cell) (k c : Nat),
    (∀ j cell, cells[j]? = some cell → cell.col = k + j + 1 ∧ cell.row = r) → k < c →
    cells.find? (fun cell => decide (cell.col = c ∧ cell.row = r)) = cells[c - 1 - k]? := by
  intro cells
  induction cells with
  | nil => intro k c _ _; simp
  | cons x xs ih =>
    intro k c h hc
    obtain ⟨hx1, hx2⟩ := h 0 x (by simp)
    by_cases hck : c = k + 1
    · have : c - 1 - k = 0 := by omega
      rw [this]
      simp [List.find?, hx1, hx2, hck]
    · have hne : ¬ (x.col = c ∧ x.row = r) := by omega
      have hidx : c - 1 - k = (c - 1 - (k + 1)) + 1 := by omega
      rw [hidx, List.getElem?_cons_succ]
      simp only [List.find?, hne, decide_false]
      apply ih (k + 1) c
      · intro j cell hj
        have := h (j + 1) cell (by simpa using hj)
        omega
      · omega

theorem findSome_rows (c r : Nat) (hc : 1 ≤ c) : ∀ (rows : List Row) (k : Nat),
    (∀ i rd, rows[i]? = some rd →
      rd.r = k + i + 1 ∧ ∀ j cell, rd.cells[j]? = some cell → cell.col = j + 1 ∧ cell.row = k + i + 1) → k < r →
    rows.findSome? (fun rd => if rd.r = r then rd.cells.find? (fun cell => decide (cell.col = c ∧ cell.row = r)) else none) =
      (rows[r - 1 - k]?).bind (fun rd => rd.cells[c - 1]?) := by
  intro rows
  induction rows with
  | nil => intro k _ _; simp
  | cons rd tl ih =>
    intro k h hr
    obtain ⟨hr1, hcells⟩ := h 0 rd (by simp)
    by_cases hrk : r = k + 1
    · have h0 : r - 1 - k = 0 := by omega
      rw [h0]
      have hfind : rd.cells.find? (fun cell => decide (cell.col = c ∧ cell.row = r)) = rd.cells[c - 1]? := by
        have := find_cells r rd.cells 0 c (by
          intro j cell hj
          have := hcells j cell hj
          omega) (by omega)
        simpa using this
      simp only [List.findSome?, List.getElem?_cons_zero, Option.bind_some]
      have hrr : rd.r = r := by omega
      simp only [hrr, if_true, hfind]
      cases hcell : rd.cells[c - 1]? with
      | some cell => rfl
      | none =>
        simp only
        apply List.findSome?_eq_none_iff.mpr
        intro x hx
        obtain ⟨i, hi⟩ := List.getElem?_of_mem hx
        have := (h (i + 1) x (by simpa using hi)).1
        have : ¬ x.r = r := by omega
        simp [this]
    · have hne : ¬ rd.r = r := by omega
      have hidx : r - 1 - k = (r - 1 - (k + 1)) + 1 := by omega
      rw [hidx, List.getElem?_cons_succ]
      simp only [List.findSome?, hne, if_false]
      apply ih (k + 1)
      · intro i rd' hi
        have := h (i + 1) rd' (by simpa using hi)
        obtain ⟨a, b⟩ := this
        refine ⟨by omega, ?_⟩
        intro j cell hj
        have := b j cell hj
        omega
      · omega

theorem slot_eq_bind (rows : List Row) (c r : Nat) :
    slot rows c r = (rows[r - 1]?).bind (fun rd => rd.cells[c - 1]?) := by
  unfold slot; cases rows[r - 1]? <;> rfl

theorem lastRow_dense (rows : List Row) (h : Dense rows) : lastRowNum rows = rows.length := by
  unfold lastRowNum
  rw [List.getLast?_eq_getElem?]
  cases hl : rows[rows.length - 1]? with
  | none =>
    have : rows.length = 0 := by
      rcases Nat.eq_zero_or_pos rows.length with h0 | h0
      · exact h0
      · have : rows.length - 1 < rows.length := by omega
        rw [List.getElem?_eq_getElem this] at hl; cases hl
    simp [this]
  | some rd =>
    have hpos : 0 < rows.length := by
      rcases Nat.eq_zero_or_pos rows.length with h0 | h0
      · have : rows = [] := List.eq_nil_of_length_eq_zero h0
        subst this; simp at hl
      · exact h0
    have := (h _ rd hl).1
    simp only; omega

/-- under `Dense` the getter returns exactly the slot of the anchor -/
theorem getCell_dense (s : Sheet) (h : Dense s.rows) (c r : Nat) :
    getCell s c r =
      if c = 0 ∨ r = 0 then .err else
      if (anchor s.merges c r).1 = 0 ∨ (anchor s.merges c r).2 = 0 then .err else
      .cell (slot s.rows (anchor s.merges c r).1 (anchor s.merges c r).2) := by
  unfold getCell
  by_cases h0 : c = 0 ∨ r = 0
  · simp [h0]
  · simp only [h0, if_false]
    by_cases h1 : (anchor s.merges c r).1 = 0 ∨ (anchor s.merges c r).2 = 0
    · simp [h1]
    · simp only [h1, if_false]
      rw [lastRow_dense s.rows h]
      by_cases hgt : (anchor s.merges c r).2 > s.rows.length
      · have hn : s.rows[(anchor s.merges c r).2 - 1]? = none := List.getElem?_eq_none (by omega)
        simp [hgt, slot, hn]
      · simp only [hgt, if_false]
        have := findSome_rows (anchor s.merges c r).1 (anchor s.merges c r).2 (by omega) s.rows 0
          (by
            intro i rd hi
            obtain ⟨a, b⟩ := h i rd hi
            refine ⟨by omega, ?_⟩
            intro j cell hj
            have := b j cell hj
            omega) (by omega)
        simp only [Nat.sub_zero] at this
        rw [this, slot_eq_bind]

end XlModel.Grid
