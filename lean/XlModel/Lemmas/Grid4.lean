/-
Merge normalisation (C03): `mergeOverlapCells` (flatMergedCells + the selection pass, with
object ids, mutable rect heap and the layered matrix) is the identity on a list of valid,
pairwise disjoint rectangles.
-/
import XlModel.Lemmas.Grid3

namespace XlModel.Grid
open XlModel

/-- two rectangles share no position -/
def NoCommon (a b : Rect) : Prop := ∀ x y, ¬ (a.contains x y = true ∧ b.contains x y = true)

/-- a rectangle as `sortCoordinates` leaves it -/
def ValidR (q : Rect) : Prop := q.c1 ≤ q.c2 ∧ q.r1 ≤ q.r2

/-- the merge list holds valid rectangles no two of which (at different list positions) share a cell -/
def PairwiseDisjoint (ms : List MObj) : Prop :=
  ms.Pairwise (fun a b => NoCommon a.rect b.rect) ∧ ∀ m ∈ ms, ValidR m.rect

theorem NoCommon.symm {a b : Rect} (h : NoCommon a b) : NoCommon b a :=
  fun x y hh => h x y ⟨hh.2, hh.1⟩

theorem matrix_get_none (m : Matrix) (x y : Nat) (h : ∀ l ∈ m, l.1.contains x y = false) :
    Matrix.get m x y = none := by
  unfold Matrix.get
  have : m.find? (fun l => l.1.contains x y) = none := by
    apply List.find?_eq_none.mpr
    intro l hl; rw [h l hl]; simp
  rw [this]

theorem matrix_get_hit (L1 L2 : Matrix) (q : Rect) (v : Option Nat) (x y : Nat)
    (h1 : ∀ l ∈ L1, l.1.contains x y = false) (h2 : q.contains x y = true) :
    Matrix.get (L1 ++ (q, v) :: L2) x y = v := by
  unfold Matrix.get
  have : L1.find? (fun l => l.1.contains x y) = none := by
    apply List.find?_eq_none.mpr
    intro l hl; rw [h1 l hl]; simp
  rw [List.find?_append, this]
  simp [List.find?, h2]

theorem tl_contains (q : Rect) (h : ValidR q) : q.contains q.c1 q.r1 = true := by
  rw [contains_iff]; unfold ValidR at h; omega

theorem flatStep_fresh (st : FlatSt) (i : Nat) (ref rect : Rect) (nid : Nat)
    (hh : heapGet st.heap i = rect)
    (hm : ∀ p ∈ colMajor rect, st.matrix.get p.1 p.2 = none) :
    flatStep st i ref nid = { st with matrix := (rect, some i) :: st.matrix, cells := (i, ref) :: st.cells } := by
  unfold flatStep
  simp only [hh]
  have : (colMajor rect).filterMap (fun p => st.matrix.get p.1 p.2) = [] :=
    List.filterMap_eq_nil_iff.mpr hm
  simp [this]

abbrev IM := Nat × MObj

theorem flat_fold (heap : List (Nat × Rect)) (n : Nat) :
    ∀ (rest : List IM) (st : FlatSt), st.heap = heap →
      (∀ im ∈ rest, heapGet heap im.1 = im.2.rect) →
      (∀ im ∈ rest, ∀ l ∈ st.matrix, NoCommon l.1 im.2.rect) →
      rest.Pairwise (fun a b => NoCommon a.2.rect b.2.rect) →
      (rest.foldl (fun st (im : IM) => flatStep st im.1 im.2.ref (n + im.1)) st).heap = heap ∧
      (rest.foldl (fun st (im : IM) => flatStep st im.1 im.2.ref (n + im.1)) st).matrix =
        rest.reverse.map (fun im => (im.2.rect, some im.1)) ++ st.matrix ∧
      (rest.foldl (fun st (im : IM) => flatStep st im.1 im.2.ref (n + im.1)) st).cells =
        rest.reverse.map (fun im => (im.1, im.2.ref)) ++ st.cells := by
  intro rest
  induction rest with
  | nil => intro st h _ _ _; simp [h]
  | cons a rest ih =>
    intro st hheap hget hmat hpw
    obtain ⟨hpa, hpr⟩ := List.pairwise_cons.mp hpw
    have hfresh : flatStep st a.1 a.2.ref (n + a.1) =
        { st with matrix := (a.2.rect, some a.1) :: st.matrix, cells := (a.1, a.2.ref) :: st.cells } := by
      apply flatStep_fresh
      · rw [hheap]; exact hget a (by simp)
      · intro p hp
        apply matrix_get_none
        intro l hl
        have hc : a.2.rect.contains p.1 p.2 = true := by
          rw [contains_iff]; exact (mem_colMajor _ p.1 p.2).mp hp
        have := hmat a (by simp) l hl p.1 p.2
        cases hlc : l.1.contains p.1 p.2 with
        | false => rfl
        | true => exact absurd ⟨hlc, hc⟩ this
    simp only [List.foldl_cons, hfresh]
    obtain ⟨i1, i2, i3⟩ := ih { st with matrix := (a.2.rect, some a.1) :: st.matrix, cells := (a.1, a.2.ref) :: st.cells }
      hheap (fun im him => hget im (by simp [him]))
      (by
        intro im him l hl
        rcases List.mem_cons.mp hl with rfl | hl
        · exact hpa im him
        · exact hmat im (by simp [him]) l hl)
      hpr
    refine ⟨i1, ?_, ?_⟩
    · rw [i2]; simp [List.reverse_cons, List.map_append, List.append_assoc]
    · rw [i3]; simp [List.reverse_cons, List.map_append, List.append_assoc]

theorem select_fold (heap : List (Nat × Rect)) (ps : List IM)
    (hheap : ∀ im ∈ ps, heapGet heap im.1 = im.2.rect)
    (hpw : ps.Pairwise (fun a b => NoCommon a.2.rect b.2.rect))
    (hvalid : ∀ im ∈ ps, ValidR im.2.rect) :
    ∀ (rest done : List IM), ps = done ++ rest →
      rest.foldl (fun acc (im : IM) => selectStep heap acc (im.1, im.2.ref))
        (done.reverse.map (fun im => (im.2.rect, (none : Option Nat))) ++ ps.reverse.map (fun im => (im.2.rect, some im.1)),
         done.reverse.map (fun im => (im.1, im.2.ref))) =
      (ps.reverse.map (fun im => (im.2.rect, (none : Option Nat))) ++ ps.reverse.map (fun im => (im.2.rect, some im.1)),
       ps.reverse.map (fun im => (im.1, im.2.ref))) := by
  intro rest
  induction rest with
  | nil => intro done h; simp at h; subst h; rfl
  | cons a rest ih =>
    intro done hps
    have ha : a ∈ ps := by rw [hps]; simp
    obtain ⟨hpd, hpar, hcross⟩ := List.pairwise_append.mp (hps ▸ hpw)
    obtain ⟨hpa, _⟩ := List.pairwise_cons.mp hpar
    have hrect : heapGet heap a.1 = a.2.rect := hheap a ha
    have hrev : ps.reverse.map (fun im => (im.2.rect, some im.1)) =
        rest.reverse.map (fun im => (im.2.rect, some im.1)) ++ (a.2.rect, some a.1) :: done.reverse.map (fun im => (im.2.rect, some im.1)) := by
      rw [hps]; simp [List.reverse_append, List.reverse_cons, List.map_append, List.append_assoc]
    have hget : Matrix.get (done.reverse.map (fun im => (im.2.rect, (none : Option Nat))) ++ ps.reverse.map (fun im => (im.2.rect, some im.1)))
        a.2.rect.c1 a.2.rect.r1 = some a.1 := by
      rw [hrev, ← List.append_assoc]
      apply matrix_get_hit
      · intro l hl
        have htl := tl_contains a.2.rect (hvalid a ha)
        rcases List.mem_append.mp hl with hl | hl
        · obtain ⟨b, hb, rfl⟩ := List.mem_map.mp hl
          have hb' : b ∈ done := by simpa using hb
          have := hcross b hb' a (by simp) a.2.rect.c1 a.2.rect.r1
          cases hc : b.2.rect.contains a.2.rect.c1 a.2.rect.r1 with
          | false => rfl
          | true => exact absurd ⟨hc, htl⟩ this
        · obtain ⟨b, hb, rfl⟩ := List.mem_map.mp hl
          have hb' : b ∈ rest := by simpa using hb
          have := hpa b hb' a.2.rect.c1 a.2.rect.r1
          cases hc : b.2.rect.contains a.2.rect.c1 a.2.rect.r1 with
          | false => rfl
          | true => exact absurd ⟨htl, hc⟩ this
      · exact tl_contains a.2.rect (hvalid a ha)
    simp only [List.foldl_cons]
    have hstep : selectStep heap
        (done.reverse.map (fun im => (im.2.rect, (none : Option Nat))) ++ ps.reverse.map (fun im => (im.2.rect, some im.1)),
         done.reverse.map (fun im => (im.1, im.2.ref))) (a.1, a.2.ref) =
        ((done ++ [a]).reverse.map (fun im => (im.2.rect, (none : Option Nat))) ++ ps.reverse.map (fun im => (im.2.rect, some im.1)),
         (done ++ [a]).reverse.map (fun im => (im.1, im.2.ref))) := by
      unfold selectStep
      simp only [hrect, hget]
      simp [List.reverse_append]
    rw [hstep]
    exact ih (done ++ [a]) (by rw [hps]; simp)

theorem heapGet_zip : ∀ (ps : List IM), (ps.map Prod.fst).Nodup →
    ∀ im ∈ ps, heapGet (ps.map fun (im : IM) => (im.1, im.2.rect)) im.1 = im.2.rect := by
  intro ps
  induction ps with
  | nil => intro _ im h; simp at h
  | cons a ps ih =>
    intro hnd im him
    simp only [List.map_cons, List.nodup_cons] at hnd
    obtain ⟨hna, hnd'⟩ := hnd
    unfold heapGet
    rcases List.mem_cons.mp him with rfl | him'
    · simp [List.find?]
    · have hne : a.1 ≠ im.1 := by
        intro he
        apply hna
        rw [he]
        exact List.mem_map.mpr ⟨im, him', rfl⟩
      have hb : (a.1 == im.1) = false := by simpa using hne
      simp only [List.map_cons, List.find?, hb]
      have := ih hnd' im him'
      unfold heapGet at this
      exact this

/-- `mergeOverlapCells` leaves a list of valid, pairwise disjoint rectangles exactly as it is
(same entries, same order, same `Ref` and cached `rect`) -/
theorem mergeOverlap_id (ms : List MObj) (h : PairwiseDisjoint ms) : mergeOverlapCells ms = ms := by
  obtain ⟨hpw, hvalid⟩ := h
  unfold mergeOverlapCells
  have hlen : (List.range ms.length).length = ms.length := List.length_range
  have hsnd : ((List.range ms.length).zip ms).map Prod.snd = ms := List.map_snd_zip (by omega)
  have hfst : ((List.range ms.length).zip ms).map Prod.fst = List.range ms.length := List.map_fst_zip (by omega)
  have hnd : (((List.range ms.length).zip ms).map Prod.fst).Nodup := by rw [hfst]; exact List.nodup_range
  have hpw' : ((List.range ms.length).zip ms).Pairwise (fun a b => NoCommon a.2.rect b.2.rect) := by
    have h1 : (((List.range ms.length).zip ms).map Prod.snd).Pairwise (fun a b => NoCommon a.rect b.rect) := by
      rw [hsnd]; exact hpw
    exact (List.pairwise_map (f := Prod.snd) (R := fun (a b : MObj) => NoCommon a.rect b.rect)).mp h1
  have hvalid' : ∀ im ∈ (List.range ms.length).zip ms, ValidR im.2.rect := by
    intro im him
    apply hvalid
    rw [← hsnd]; exact List.mem_map.mpr ⟨im, him, rfl⟩
  have hheap := heapGet_zip _ hnd
  simp only []
  have hmap : (List.map (fun (x : Nat × MObj) => match x with | (i, m) => (i, m.rect)) ((List.range ms.length).zip ms)) =
      ((List.range ms.length).zip ms).map (fun (im : IM) => (im.1, im.2.rect)) := rfl
  obtain ⟨f1, f2, f3⟩ := flat_fold (((List.range ms.length).zip ms).map (fun (im : IM) => (im.1, im.2.rect))) ms.length
    ((List.range ms.length).zip ms) { heap := ((List.range ms.length).zip ms).map (fun (im : IM) => (im.1, im.2.rect)) }
    rfl hheap (by intro im _ l hl; simp at hl) hpw'
  rw [hmap, f1, f2, f3]
  have hsel := select_fold _ _ hheap hpw' hvalid' ((List.range ms.length).zip ms) [] (by simp)
  simp only [List.reverse_nil, List.map_nil, List.nil_append, List.append_nil, List.map_reverse, List.reverse_reverse] at hsel ⊢
  rw [List.foldl_map, hsel]
  rw [← List.map_reverse, List.reverse_reverse, List.map_map]
  conv => rhs; rw [← hsnd]
  apply List.map_congr_left
  intro im him
  simp only [Function.comp]
  rw [hheap im him]

end XlModel.Grid

namespace XlModel.Grid
open XlModel

/-! ### the normal form `normSpec` is pairwise disjoint -/

theorem meetsB_comm (a b : Rect) : meetsB a b = meetsB b a := by
  unfold meetsB
  by_cases h : a.c1 ≤ b.c2 ∧ b.c1 ≤ a.c2 ∧ a.r1 ≤ b.r2 ∧ b.r1 ≤ a.r2
  · have : b.c1 ≤ a.c2 ∧ a.c1 ≤ b.c2 ∧ b.r1 ≤ a.r2 ∧ a.r1 ≤ b.r2 := by omega
    simp [h, this]
  · have : ¬ (b.c1 ≤ a.c2 ∧ a.c1 ≤ b.c2 ∧ b.r1 ≤ a.r2 ∧ a.r1 ≤ b.r2) := by omega
    simp [h, this]

/-- rectangles that fail the interval test share no cell -/
theorem noCommon_of_not_meets (a b : Rect) (h : meetsB a b = false) : NoCommon a b := by
  intro x y ⟨h1, h2⟩
  rw [contains_iff] at h1 h2
  unfold meetsB at h
  have : a.c1 ≤ b.c2 ∧ b.c1 ≤ a.c2 ∧ a.r1 ≤ b.r2 ∧ b.r1 ≤ a.r2 := by omega
  simp [this] at h

theorem normStep_pairwise (live : List Rect) (q : Rect) (l : List Rect)
    (hp : live.Pairwise (fun a b => meetsB a b = false)) (h : normStep live q = some l) :
    l.Pairwise (fun a b => meetsB a b = false) := by
  unfold normStep at h
  simp only at h
  split at h
  · cases h
  · rename_i hany
    simp only [Option.some.injEq] at h
    subst h
    apply List.pairwise_append.mpr
    refine ⟨hp.filter _, by simp, ?_⟩
    intro a ha b hb
    simp only [List.mem_singleton] at hb
    subst hb
    have := List.any_eq_false.mp (by simpa using hany) a ha
    rw [meetsB_comm]
    simpa using this

theorem normSpec_aux (rs : List Rect) : ∀ (acc : Option (List Rect)) (l : List Rect),
    (∀ live, acc = some live → live.Pairwise (fun a b => meetsB a b = false)) →
    rs.foldl (fun acc q => match acc with
      | some live => normStep live q
      | none => none) acc = some l → l.Pairwise (fun a b => meetsB a b = false) := by
  induction rs with
  | nil => intro acc l hacc h; exact hacc l h
  | cons q rs ih =>
    intro acc l hacc h
    simp only [List.foldl_cons] at h
    apply ih _ l _ h
    intro live hlive
    cases acc with
    | none => simp at hlive
    | some live0 => exact normStep_pairwise live0 q live (hacc live0 rfl) hlive

/-- the normal form computed by `normSpec` is pairwise disjoint -/
theorem normSpec_pairwise (rs l : List Rect) (h : normSpec rs = some l) :
    l.Pairwise (fun a b => NoCommon a b) := by
  have := normSpec_aux rs (some []) l (by intro live hl; cases hl; simp) h
  exact this.imp (fun {a b} hab => noCommon_of_not_meets a b hab)

end XlModel.Grid
