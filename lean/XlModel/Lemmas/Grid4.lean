/-
Merge normalisation (C03), after the repair: `mergeOverlapCells` absorbs overlapping ranges into their
bounding box until nothing overlaps. Its result is pairwise disjoint for ANY input, covers every input
cell, is the input itself when that is already pairwise disjoint, and the loop terminates within
`live.length` rounds.
-/
import XlModel.Lemmas.Grid3

namespace XlModel.Grid
open XlModel

/-- two rectangles share no position -/
def NoCommon (a b : Rect) : Prop := ∀ x y, ¬ (a.contains x y = true ∧ b.contains x y = true)

/-- a rectangle as `sortCoordinates` leaves it -/
def ValidR (q : Rect) : Prop := q.c1 ≤ q.c2 ∧ q.r1 ≤ q.r2

/-- the merge list holds valid rectangles no two of which (at different list positions) share a cell -/
def PairwiseDisjoint (ms : List MObj) : Prop :=
  ms.Pairwise (fun a b => NoCommon a.rect b.rect) ∧ ∀ m ∈ ms, ValidR m.rect

/-- no two entries (at different positions) pass the interval test -/
def DisjB (ms : List MObj) : Prop := ms.Pairwise (fun a b => meetsB a.rect b.rect = false)

theorem isOverlap_eq_meets (a b : Rect) : isOverlap a b = meetsB a b := by
  simp [isOverlap, meetsB, Facts.C03.isOverlapConds, cmpOp, Rect.idx]

theorem bbox_eq (a b : Rect) :
    bbox a b = ⟨min a.c1 b.c1, min a.r1 b.r1, max a.c2 b.c2, max a.r2 b.r2⟩ := by
  simp [bbox, Facts.C03.mergeCellBox, Rect.idx]

theorem meetsB_comm (a b : Rect) : meetsB a b = meetsB b a := by
  unfold meetsB
  by_cases h : a.c1 ≤ b.c2 ∧ b.c1 ≤ a.c2 ∧ a.r1 ≤ b.r2 ∧ b.r1 ≤ a.r2
  · have : b.c1 ≤ a.c2 ∧ a.c1 ≤ b.c2 ∧ b.r1 ≤ a.r2 ∧ a.r1 ≤ b.r2 := by omega
    simp [h, this]
  · have : ¬ (b.c1 ≤ a.c2 ∧ a.c1 ≤ b.c2 ∧ b.r1 ≤ a.r2 ∧ a.r1 ≤ b.r2) := by omega
    simp [h, this]

/-- rectangles that fail the interval test share no cell -/
theorem noCommon_of_not_meets (a b : Rect) (h : meetsB a b = false) : NoCommon a b := by
  intro x y ⟨h1, h2⟩
  rw [contains_iff] at h1 h2
  unfold meetsB at h
  have : a.c1 ≤ b.c2 ∧ b.c1 ≤ a.c2 ∧ a.r1 ≤ b.r2 ∧ b.r1 ≤ a.r2 := by omega
  simp [this] at h

/-- valid rectangles that share no cell fail the interval test -/
theorem not_meets_of_noCommon (a b : Rect) (va : ValidR a) (vb : ValidR b) (h : NoCommon a b) :
    meetsB a b = false := by
  cases hm : meetsB a b with
  | false => rfl
  | true =>
    exfalso
    unfold meetsB at hm
    have hm' : a.c1 ≤ b.c2 ∧ b.c1 ≤ a.c2 ∧ a.r1 ≤ b.r2 ∧ b.r1 ≤ a.r2 := by simpa using hm
    unfold ValidR at va vb
    apply h (max a.c1 b.c1) (max a.r1 b.r1)
    constructor <;> rw [contains_iff] <;> omega

theorem bbox_contains_left (a b : Rect) (x y : Nat) (h : a.contains x y = true) : (bbox a b).contains x y = true := by
  rw [contains_iff] at h ⊢; rw [bbox_eq]; simp only; omega

theorem bbox_contains_right (a b : Rect) (x y : Nat) (h : b.contains x y = true) : (bbox a b).contains x y = true := by
  rw [contains_iff] at h ⊢; rw [bbox_eq]; simp only; omega

theorem foldl_bbox_contains (x y : Nat) : ∀ (hit : List MObj) (q : Rect),
    (q.contains x y = true ∨ ∃ k ∈ hit, k.rect.contains x y = true) →
    (hit.foldl (fun b k => bbox b k.rect) q).contains x y = true := by
  intro hit
  induction hit with
  | nil => intro q h; rcases h with h | ⟨k, hk, _⟩; exact h; simp at hk
  | cons a hit ih =>
    intro q h
    simp only [List.foldl_cons]
    apply ih
    rcases h with h | ⟨k, hk, hc⟩
    · exact Or.inl (bbox_contains_left _ _ _ _ h)
    · rcases List.mem_cons.mp hk with rfl | hk
      · exact Or.inl (bbox_contains_right _ _ _ _ hc)
      · exact Or.inr ⟨k, hk, hc⟩

theorem filter_not_length (live : List MObj) (q : Rect)
    (h : (live.filter fun k => isOverlap q k.rect).isEmpty = false) :
    (live.filter fun k => !isOverlap q k.rect).length < live.length := by
  apply List.length_filter_lt_length_iff_exists.mpr
  cases hf : live.filter (fun k => isOverlap q k.rect) with
  | nil => rw [hf] at h; simp at h
  | cons k _ =>
    have hk : k ∈ live.filter (fun k => isOverlap q k.rect) := by rw [hf]; simp
    obtain ⟨h1, h2⟩ := List.mem_filter.mp hk
    exact ⟨k, h1, by simpa using h2⟩

/-- a range that overlaps nothing is appended as it is -/
theorem absorb_fresh (n : Nat) (live : List MObj) (q : MObj)
    (h : ∀ k ∈ live, meetsB q.rect k.rect = false) : absorb n live q = live ++ [q] := by
  cases n with
  | zero => rfl
  | succ n =>
    unfold absorb
    have : (live.filter fun k => isOverlap q.rect k.rect) = [] := by
      apply List.filter_eq_nil_iff.mpr
      intro k hk; rw [isOverlap_eq_meets, h k hk]; simp
    simp [this]

/-- the result of one insertion is pairwise disjoint when the live list was -/
theorem absorb_disj : ∀ (n : Nat) (live : List MObj) (q : MObj), live.length ≤ n → DisjB live →
    DisjB (absorb n live q) := by
  intro n
  induction n with
  | zero =>
    intro live q hl _
    have : live = [] := List.eq_nil_of_length_eq_zero (by omega)
    subst this; simp [absorb, DisjB]
  | succ n ih =>
    intro live q hl hd
    unfold absorb
    simp only
    split
    · rename_i hemp
      have hnil := List.isEmpty_iff.mp hemp
      apply List.pairwise_append.mpr
      refine ⟨hd, by simp, ?_⟩
      intro a ha b hb
      simp only [List.mem_singleton] at hb
      subst hb
      have := List.filter_eq_nil_iff.mp hnil a ha
      rw [isOverlap_eq_meets] at this
      rw [meetsB_comm]
      simpa using this
    · rename_i hne
      have hlt := filter_not_length live q.rect (by simpa using hne)
      exact ih _ _ (by omega) (hd.filter _)

theorem mergeOverlap_disj_aux : ∀ (ms acc : List MObj), DisjB acc →
    DisjB (ms.foldl (fun live q => absorb live.length live q) acc) := by
  intro ms
  induction ms with
  | nil => intro acc h; exact h
  | cons q ms ih => intro acc h; simp only [List.foldl_cons]; exact ih _ (absorb_disj _ acc q (Nat.le_refl _) h)

/-- for ANY merge list the normalised list is pairwise disjoint -/
theorem mergeOverlap_disj (ms : List MObj) : DisjB (mergeOverlapCells ms) :=
  mergeOverlap_disj_aux ms [] (by simp [DisjB])

/-- one insertion loses no cell -/
theorem absorb_covers (x y : Nat) : ∀ (n : Nat) (live : List MObj) (q : MObj),
    (q.rect.contains x y = true ∨ ∃ k ∈ live, k.rect.contains x y = true) →
    ∃ m ∈ absorb n live q, m.rect.contains x y = true := by
  intro n
  induction n with
  | zero =>
    intro live q h
    rcases h with h | ⟨k, hk, hc⟩
    · exact ⟨q, by simp [absorb], h⟩
    · exact ⟨k, by simp [absorb, hk], hc⟩
  | succ n ih =>
    intro live q h
    unfold absorb
    simp only
    split
    · rcases h with h | ⟨k, hk, hc⟩
      · exact ⟨q, by simp, h⟩
      · exact ⟨k, by simp [hk], hc⟩
    · apply ih
      rcases h with h | ⟨k, hk, hc⟩
      · exact Or.inl (foldl_bbox_contains x y _ _ (Or.inl h))
      · by_cases ho : isOverlap q.rect k.rect = true
        · exact Or.inl (foldl_bbox_contains x y _ _ (Or.inr ⟨k, List.mem_filter.mpr ⟨hk, ho⟩, hc⟩))
        · exact Or.inr ⟨k, List.mem_filter.mpr ⟨hk, by simpa using ho⟩, hc⟩

theorem mergeOverlap_covers_aux (x y : Nat) : ∀ (ms acc : List MObj),
    ((∃ k ∈ acc, k.rect.contains x y = true) ∨ ∃ k ∈ ms, k.rect.contains x y = true) →
    ∃ m ∈ ms.foldl (fun live q => absorb live.length live q) acc, m.rect.contains x y = true := by
  intro ms
  induction ms with
  | nil => intro acc h; rcases h with h | ⟨k, hk, _⟩; exact h; simp at hk
  | cons q ms ih =>
    intro acc h
    simp only [List.foldl_cons]
    apply ih
    rcases h with ⟨k, hk, hc⟩ | ⟨k, hk, hc⟩
    · exact Or.inl (absorb_covers x y _ acc q (Or.inr ⟨k, hk, hc⟩))
    · rcases List.mem_cons.mp hk with rfl | hk
      · exact Or.inl (absorb_covers x y _ acc k (Or.inl hc))
      · exact Or.inr ⟨k, hk, hc⟩

/-- every cell of an input range lies in some range of the normalised list -/
theorem mergeOverlap_covers (ms : List MObj) (m : MObj) (hm : m ∈ ms) (x y : Nat)
    (h : m.rect.contains x y = true) : ∃ m' ∈ mergeOverlapCells ms, m'.rect.contains x y = true :=
  mergeOverlap_covers_aux x y ms [] (Or.inr ⟨m, hm, h⟩)

theorem mergeOverlap_id_aux : ∀ (rest pre : List MObj), DisjB (pre ++ rest) →
    rest.foldl (fun live q => absorb live.length live q) pre = pre ++ rest := by
  intro rest
  induction rest with
  | nil => intro pre _; simp
  | cons q rest ih =>
    intro pre h
    simp only [List.foldl_cons]
    have hq : ∀ k ∈ pre, meetsB q.rect k.rect = false := by
      intro k hk
      have := (List.pairwise_append.mp h).2.2 k hk q (by simp)
      rw [meetsB_comm]; exact this
    rw [absorb_fresh _ pre q hq, ih (pre ++ [q]) (by simpa using h)]
    simp

/-- `mergeOverlapCells` leaves a list of valid, pairwise disjoint rectangles exactly as it is -/
theorem mergeOverlap_id (ms : List MObj) (h : PairwiseDisjoint ms) : mergeOverlapCells ms = ms := by
  have hd : DisjB ([] ++ ms) := by
    simp only [List.nil_append, DisjB]
    obtain ⟨hp, hv⟩ := h
    exact hp.imp_of_mem (fun {a b} ha hb hab => not_meets_of_noCommon _ _ (hv a ha) (hv b hb) hab)
  simpa [mergeOverlapCells] using mergeOverlap_id_aux ms [] hd

/-- the `for` loop needs at most `live.length` rounds: more fuel changes nothing -/
theorem absorb_fuel : ∀ (n m : Nat) (live : List MObj) (q : MObj), live.length ≤ n → live.length ≤ m →
    absorb n live q = absorb m live q := by
  intro n
  induction n with
  | zero =>
    intro m live q hn _
    have : live = [] := List.eq_nil_of_length_eq_zero (by omega)
    subst this
    cases m with
    | zero => rfl
    | succ m => simp [absorb]
  | succ n ih =>
    intro m live q hn hm
    cases m with
    | zero =>
      have : live = [] := List.eq_nil_of_length_eq_zero (by omega)
      subst this; simp [absorb]
    | succ m =>
      unfold absorb
      simp only
      split
      · rfl
      · rename_i hne
        have hlt := filter_not_length live q.rect (by simpa using hne)
        exact ih m _ _ (by omega) (by omega)

end XlModel.Grid
