/- Helper lemmas for the hyperlink list of C03. -/
import XlModel.GridLinks

namespace XlModel.Grid
open XlModel

theorem lookup_upsert_self (l : Links) (k : Nat × Nat) (v : Tok) : lookupLink (upsert l k v) k = some v := by
  induction l with
  | nil => simp [upsert, lookupLink]
  | cons e t ih =>
    obtain ⟨k', v'⟩ := e
    by_cases h : k' = k
    · simp [upsert, lookupLink, h]
    · simp [upsert, lookupLink, h, ih]

theorem lookup_upsert_other (l : Links) (k k' : Nat × Nat) (v : Tok) (hne : k' ≠ k) :
    lookupLink (upsert l k v) k' = lookupLink l k' := by
  induction l with
  | nil => simp [upsert, lookupLink, Ne.symm hne]
  | cons e t ih =>
    obtain ⟨k0, v0⟩ := e
    by_cases h : k0 = k
    · subst h
      simp [upsert, lookupLink, Ne.symm hne]
    · by_cases h2 : k0 = k'
      · subst h2; simp [upsert, lookupLink, h]
      · simp [upsert, lookupLink, h, h2, ih]

theorem lookup_filter_self (l : Links) (k : Nat × Nat) :
    lookupLink (l.filter (fun e => !(e.1 = k))) k = none := by
  induction l with
  | nil => simp [lookupLink]
  | cons e t ih =>
    obtain ⟨k0, v0⟩ := e
    by_cases h : k0 = k
    · simp [List.filter, h, ih]
    · simp [List.filter, h, lookupLink, ih]

theorem lookup_filter_other (l : Links) (k k' : Nat × Nat) (hne : k' ≠ k) :
    lookupLink (l.filter (fun e => !(e.1 = k))) k' = lookupLink l k' := by
  induction l with
  | nil => simp [lookupLink]
  | cons e t ih =>
    obtain ⟨k0, v0⟩ := e
    by_cases h : k0 = k
    · subst h
      simp [List.filter, lookupLink, Ne.symm hne, ih]
    · by_cases h2 : k0 = k'
      · subst h2; simp [List.filter, h, lookupLink]
      · simp [List.filter, h, lookupLink, h2, ih]

end XlModel.Grid
