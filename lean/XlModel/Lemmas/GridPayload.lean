/- Helper lemmas for the typed payloads of C03. -/
import XlModel.GridPayload
import XlModel.Lemmas.Ref

namespace XlModel.Grid
open XlModel XlModel.Ref

theorem digitsVal_itoa (n : Nat) : digitsVal (itoa n) = some n := by
  unfold itoa
  by_cases h : n = 0
  · subst h; decide
  · simp only [h, if_false]; exact digitsVal_itoaAux (by omega)

theorem itoa_head_digit (n : Nat) : ∃ c cs, itoa n = c :: cs ∧ isDigit c = true := by
  unfold itoa
  by_cases h : n = 0
  · subst h; exact ⟨'0', [], rfl, by decide⟩
  · simp only [h, if_false]
    cases hl : itoaAux n with
    | nil => exact absurd hl (itoaAux_ne_nil (by omega))
    | cons c cs => exact ⟨c, cs, rfl, itoaAux_digits n c (by rw [hl]; simp)⟩

theorem digit_ne_minus (c : Char) (h : isDigit c = true) : c ≠ '-' := by
  intro hc; subst hc; revert h; decide

theorem decInt_itoa (n : Nat) : decInt (itoa n) = some (n : Int) := by
  obtain ⟨c, cs, hl, hd⟩ := itoa_head_digit n
  have hv := digitsVal_itoa n
  rw [hl] at hv ⊢
  simp [decInt, digit_ne_minus c hd, hv]

/-- the decimal text `strconv.FormatInt` produces denotes the integer it was made from -/
theorem decInt_itoaInt (i : Int) : decInt (itoaInt i) = some i := by
  unfold itoaInt
  by_cases h : i < 0
  · simp only [h, if_true, decInt, digitsVal_itoa]
    simp; omega
  · simp only [h, if_false]
    rw [decInt_itoa]
    congr 1; omega

end XlModel.Grid
