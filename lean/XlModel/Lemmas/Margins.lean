/- helper lemmas for `XlModel.Margins` (C18) -/
import XlModel.Margins

namespace XlModel.Margins

theorem merge_map_some {α : Type} (m : List (Option α)) (xs : List α) (h : m.length = xs.length) :
    (merge m xs).map some = List.zipWith (fun a b => a <|> b) m (xs.map some) := by
  induction m generalizing xs with
  | nil => cases xs with
    | nil => rfl
    | cons x xs => simp at h
  | cons a m ih =>
    cases xs with
    | nil => simp at h
    | cons x xs =>
      have h' : m.length = xs.length := by simpa using h
      cases a <;> simp [merge, ih xs h']

theorem zipWith_all_none {α : Type} (m ys : List (Option α)) (h : m.length = ys.length)
    (hn : m.all Option.isNone = true) : List.zipWith (fun a b => a <|> b) m ys = ys := by
  induction m generalizing ys with
  | nil => cases ys with
    | nil => rfl
    | cons y ys => simp at h
  | cons a m ih =>
    cases ys with
    | nil => simp at h
    | cons y ys =>
      have h' : m.length = ys.length := by simpa using h
      cases a with
      | none =>
        have hn' : m.all Option.isNone = true := by simpa using hn
        simpa using ih ys h' hn'
      | some a => simp at hn

theorem merge_length {α : Type} (m : List (Option α)) (xs : List α) : (merge m xs).length = xs.length := by
  induction m generalizing xs with
  | nil => cases xs <;> rfl
  | cons a m ih =>
    cases xs with
    | nil => cases a <;> rfl
    | cons x xs => cases a <;> simp [merge, ih xs]

end XlModel.Margins
