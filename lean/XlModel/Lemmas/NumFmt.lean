/-
Helper lemmas for C10 (number-format rendering): thousands grouping, the
half-unit bound of exact decimal rounding, totality of the numeric path.
-/
import XlModel.NumFmt

namespace XlModel.NumFmt

theorem groupSize_eq : groupSize = 3 := by decide

/-! ## printCommaSep -/

theorem commaLoop_three (x y z : Char) : commaLoop false [x, y, z] = [',', x, y, z] := by
  simp [commaLoop, groupSize_eq]

/-- appending one full group of three digits appends one separator and the group -/
theorem commaLoop_append3 (b : Str) (hb : b.length = 3) :
    ∀ (a : Str) (f : Bool), (a ≠ [] ∨ f = false) → commaLoop f (a ++ b) = commaLoop f a ++ ',' :: b := by
  intro a
  induction a with
  | nil =>
    intro f h
    rcases h with h | h
    · exact absurd rfl h
    · subst h
      match b, hb with
      | [x, y, z], _ => simp [commaLoop, groupSize_eq]
  | cons c cs ih =>
    intro f _
    have hlen : ((cs ++ b).length + 1) % groupSize = (cs.length + 1) % groupSize := by
      rw [groupSize_eq, List.length_append, hb]; omega
    have ih' := ih false (Or.inr rfl)
    simp only [List.cons_append, commaLoop, hlen, ih', List.append_assoc, List.cons_append]

/-- up to three digits: no separator -/
theorem commaLoop_short (s : Str) (h : s.length ≤ 3) : commaLoop true s = s := by
  match s, h with
  | [], _ => rfl
  | [_], _ => simp [commaLoop, groupSize_eq]
  | [_, _], _ => simp [commaLoop, groupSize_eq]
  | [_, _, _], _ => simp [commaLoop, groupSize_eq]

/-- removing the separators gives the digits back -/
theorem commaLoop_strip (s : Str) (h : ∀ c ∈ s, c ≠ ',') :
    ∀ f, (commaLoop f s).filter (· ≠ ',') = s := by
  induction s with
  | nil => intro f; rfl
  | cons c cs ih =>
    intro f
    have hc : c ≠ ',' := h c (by simp)
    have ih' := ih (fun x hx => h x (by simp [hx])) false
    simp only [commaLoop]
    split <;> (simp [hc]; simpa using ih')

/-! ## exact rounding -/

/-- `k = ⌊(2m+q)/(2q)⌋` is within half a unit of `m/q` (ties upward) -/
theorem half_unit (m q : Nat) (hq : 0 < q) :
    2 * q * ((2 * m + q) / (2 * q)) ≤ 2 * m + q ∧ 2 * m < 2 * q * ((2 * m + q) / (2 * q)) + q := by
  have h1 := Nat.mul_div_le (2 * m + q) (2 * q)
  have h2 := Nat.lt_mul_div_succ (2 * m + q) (show 0 < 2 * q by omega)
  constructor
  · exact h1
  · have : 2 * q * ((2 * m + q) / (2 * q) + 1) = 2 * q * ((2 * m + q) / (2 * q)) + 2 * q := by
      rw [Nat.mul_add, Nat.mul_one]
    omega

/-! ## the numeric path never panics -/

theorem fractionNumber_ne_panic (items : List Tok) (up : Bool) (n : NumIn) :
    fractionNumber items up n ≠ .panic := by
  unfold fractionNumber
  dsimp only
  split <;> simp

theorem numberHandler_ne_panic (items : List Tok) (value : Str) (up : Bool) (n : NumIn) :
    numberHandler items value up n ≠ .panic := by
  unfold numberHandler
  split
  · simp
  · split
    · exact fractionNumber_ne_panic items up n
    · dsimp only
      split
      · simp
      · split
        · split <;> simp
        · simp

theorem positiveLoop_no_date (items : List Tok) (value : Str) (up : Bool) (n : NumIn) (d : DateIn) :
    ∀ (ts : List Tok) (fmtNum : Bool), (∀ t ∈ ts, isDateTok t = false) →
      positiveLoop items value up n d ts fmtNum ≠ .panic := by
  intro ts
  induction ts with
  | nil => intro f _; unfold positiveLoop; exact numberHandler_ne_panic items value up n
  | cons t ts ih =>
    intro f h
    unfold positiveLoop
    split
    · split <;> simp
    · have ht : isDateTok t = false := h t (by simp)
      simp only [ht]
      exact ih _ (fun x hx => h x (by simp [hx]))

theorem Out.map_ne_panic (f : Str → Str) (o : Out) (h : o ≠ .panic) : o.map f ≠ .panic := by
  cases o <;> simp_all [Out.map]

theorem Out.finish_ne_panic (v : Str) (f : Str → Str) (o : Out) (h : o ≠ .panic) : o.finish v f ≠ .panic := by
  cases o <;> simp_all [Out.finish]

end XlModel.NumFmt
