/-
C10 helper lemmas for the date/time path: the two unguarded index operations
(`aps[1]`, `strconv.Itoa(year)[2:]`) cannot fail under a data predicate that is
(a) proved for the regenerated AM/PM pattern table and (b) proved for every
serial the decoder of C19 accepts.
-/
import XlModel.Lemmas.NumFmt

namespace XlModel.NumFmt

/-! ## splitting at '/' -/

theorem splitC_ne_nil (c : Char) (s : Str) : splitC c s ≠ [] := by
  induction s with
  | nil => simp [splitC]
  | cons x xs ih =>
    unfold splitC
    split
    · simp
    · split <;> simp

theorem splitC_len_of_mem (c : Char) (s : Str) (h : c ∈ s) : 2 ≤ (splitC c s).length := by
  induction s with
  | nil => simp at h
  | cons x xs ih =>
    unfold splitC
    by_cases hx : x = c
    · simp only [hx, if_true, List.length_cons]
      have := splitC_ne_nil c xs
      cases hsp : splitC c xs with
      | nil => exact absurd hsp this
      | cons a b => simp
    · simp only [hx, if_false]
      have hm : c ∈ xs := by
        rcases List.mem_cons.mp h with h | h
        · exact absurd h.symm hx
        · exact h
      have := ih hm
      cases hsp : splitC c xs with
      | nil => rw [hsp] at this; simp at this
      | cons a b => rw [hsp] at this; simpa using this

theorem upper_letters_ne_slash : ∀ k : Fin 26, Char.ofNat (k.val + 97 - 32) ≠ '/' := by decide

theorem upC_slash (c : Char) : upC c = '/' ↔ c = '/' := by
  unfold upC
  split
  · rename_i h
    simp only [isLo, Bool.and_eq_true, decide_eq_true_eq] at h
    constructor
    · intro h2
      exfalso
      have hk : c.toNat - 97 < 26 := by omega
      have := upper_letters_ne_slash ⟨c.toNat - 97, hk⟩
      have he : c.toNat - 97 + 97 - 32 = c.toNat - 32 := by omega
      simp only [he] at this
      exact this h2
    · intro h2
      subst h2
      exfalso
      have : ('/' : Char).toNat = 47 := by decide
      omega
  · exact Iff.rfl

theorem slash_mem_upper (v : Str) : '/' ∈ upper v ↔ '/' ∈ v := by
  unfold upper
  constructor
  · intro h
    obtain ⟨c, hc, he⟩ := List.mem_map.mp h
    rw [(upC_slash c).mp he] at hc
    exact hc
  · intro h
    exact List.mem_map.mpr ⟨'/', h, by decide⟩

theorem amPm_all_slash : ∀ p ∈ amPm, '/' ∈ p := by decide +kernel

theorem inFold_amPm_slash (v : Str) (h : inFold amPm v = true) : '/' ∈ v := by
  unfold inFold at h
  rw [List.any_eq_true] at h
  obtain ⟨p, hp, hb⟩ := h
  have hs := amPm_all_slash p hp
  simp only [Bool.or_eq_true, beq_iff_eq] at hb
  rcases hb with hb | hb
  · have : '/' ∈ upper p := (slash_mem_upper p).mpr hs
    rw [hb] at this
    exact (slash_mem_upper v).mp this
  · rw [← hb]; exact hs

/-! ## the data predicate -/

/-- a supported locale's AM/PM pattern contains the separator `strings.Split(_, "/")` needs -/
def ApOK (l : Locale) : Prop := l.ok = true → '/' ∈ l.apFmt

/-- `strconv.Itoa(year)` has at least the two characters `[2:]` needs -/
def YearOK (t : TimeF) : Prop := 2 ≤ (itoaInt t.year).length

/-- the nested renderings through Options.LongDatePattern / LongTimePattern did not panic -/
def NestedOK (d : DateIn) : Prop := d.sysDate ≠ some .panic ∧ d.sysTime ≠ some .panic

def DateOK (d : DateIn) : Prop :=
  YearOK d.t0 ∧ YearOK d.t1 ∧ (∀ c, ApOK (d.loc0 c) ∧ ApOK (d.loc1 c)) ∧ NestedOK d

theorem apParts_len (loc : Locale) (v : Str) (hl : ApOK loc) (hv : '/' ∈ v) :
    2 ≤ (apParts loc v).length := by
  unfold apParts
  split
  · rename_i h; exact splitC_len_of_mem _ _ (hl h)
  · exact splitC_len_of_mem _ _ hv

theorem apNextAux_fold : ∀ (ts : List Tok) (v : Str), apNextAux ts = some v → inFold amPm v = true := by
  intro ts
  induction ts with
  | nil => intro v h; simp [apNextAux] at h
  | cons t ts ih =>
    intro v h
    unfold apNextAux at h
    split at h
    · split at h
      · simp at h
      · split at h
        · rename_i hf
          simp only [Option.some.injEq] at h
          rw [← h]; exact hf
        · exact ih v h
    · exact ih v h

theorem itoaAux_len_pos (n : Nat) (h : 1 ≤ n) : 1 ≤ (itoaAux n).length := by
  cases n with
  | zero => omega
  | succ m => unfold itoaAux; simp

theorem itoa_len_ge2 (n : Nat) (h : 10 ≤ n) : 2 ≤ (itoa n).length := by
  unfold itoa
  have : n ≠ 0 := by omega
  simp only [this, if_false]
  cases n with
  | zero => omega
  | succ m =>
    unfold itoaAux
    have := itoaAux_len_pos ((m + 1) / 10) (by omega)
    simp only [List.length_append, List.length_cons, List.length_nil]
    omega

theorem yearOK_of_ge (t : TimeF) (h : 10 ≤ t.year) : YearOK t := by
  unfold YearOK itoaInt
  have : ¬ t.year < 0 := by omega
  simp only [this, if_false]
  exact itoa_len_ge2 _ (by omega)


/-! ## no panic on the date path -/

theorem two_le_cons_cons {α} {l : List α} (h : 2 ≤ l.length) : ∃ a b r, l = a :: b :: r := by
  match l, h with
  | a :: b :: r, _ => exact ⟨a, b, r, rfl⟩

theorem dateTimesHandler_ne_panic (items : List Tok) (i : Nat) (t : Tok) (tm : TimeF) (loc : Locale)
    (d : DateIn) (st : DtSt) (hy : YearOK tm) (hl : ApOK loc) :
    dateTimesHandler items i t tm loc d st ≠ .panic := by
  unfold dateTimesHandler
  split
  · -- AM/PM token
    rename_i hap
    have hs : '/' ∈ t.val := (slash_mem_upper _).mp (inFold_amPm_slash _ hap)
    obtain ⟨a, b, r, he⟩ := two_le_cons_cons (apParts_len loc t.val hl hs)
    split
    · simp only [he]
      split <;> simp
    · simp
  · dsimp only
    split
    · simp
    · -- years
      have hyr : ¬ (itoaInt tm.year).length < 2 := by unfold YearOK at hy; omega
      split
      · rename_i hyy
        exfalso
        revert hyy
        split
        · split
          · simp [hyr]
          · simp
        · split
          · split <;> simp
          · split <;> simp
      · simp
      · rename_i st' _
        split
        · rename_i hh
          exfalso
          revert hh
          split
          · cases hap : apNext items i with
            | none => simp
            | some v =>
              have hv : '/' ∈ v := inFold_amPm_slash v (apNextAux_fold _ v hap)
              obtain ⟨a, b, r, he⟩ := two_le_cons_cons (apParts_len loc v hl hv)
              simp only [he]
              split
              · rename_i hq
                split at hq <;> simp at hq
              · simp
              · simp
          · simp
        · simp
        · simp

theorem dtLoop_ne_panic (items : List Tok) (value : Str) (tm : TimeF) (loc : Str → Locale) (d : DateIn)
    (hy : YearOK tm) (hl : ∀ c, ApOK (loc c)) (hn : NestedOK d) :
    ∀ (l : List (Nat × Tok)) (st : DtSt), dtLoop items value tm loc d l st ≠ .panic := by
  intro l
  induction l with
  | nil => intro st; simp [dtLoop]
  | cons p rest ih =>
    intro st
    obtain ⟨i, t⟩ := p
    unfold dtLoop
    split
    · split
      · simp
      · cases hsd : d.sysDate with
        | none => simp
        | some o => simp only [Option.getD_some]; intro h; exact hn.1 (by rw [hsd, h])
      · cases hsd : d.sysTime with
        | none => simp
        | some o => simp only [Option.getD_some]; intro h; exact hn.2 (by rw [hsd, h])
      · exact ih _
    · split
      · have := dateTimesHandler_ne_panic items i t tm (loc st.localCode) d st hy (hl _)
        split
        · rename_i hp; exact absurd hp this
        · simp
        · exact ih _
      · split
        · exact ih _
        · split
          · exact ih _
          · split
            · exact ih _
            · split
              · simp
              · split
                · exact ih _
                · exact ih _

theorem dateTimeHandler_ne_panic (items : List Tok) (value : Str) (ms : Bool) (d : DateIn) (h : DateOK d) :
    dateTimeHandler items value ms d ≠ .panic := by
  obtain ⟨h0, h1, hl, hn⟩ := h
  unfold dateTimeHandler
  dsimp only
  split
  · exact dtLoop_ne_panic _ _ _ _ _ h1 (fun c => (hl c).2) hn _ _
  · exact dtLoop_ne_panic _ _ _ _ _ h0 (fun c => (hl c).1) hn _ _

theorem positiveLoop_ne_panic (items : List Tok) (value : Str) (up : Bool) (n : NumIn) (d : DateIn) (h : DateOK d) :
    ∀ (ts : List Tok) (fmtNum : Bool), positiveLoop items value up n d ts fmtNum ≠ .panic := by
  intro ts
  induction ts with
  | nil => intro f; unfold positiveLoop; exact numberHandler_ne_panic items value up n
  | cons t ts ih =>
    intro f
    unfold positiveLoop
    split
    · split <;> simp
    · dsimp only
      split
      · split
        · simp
        · split
          · simp
          · exact dateTimeHandler_ne_panic _ _ _ _ h
      · exact ih _

/-- `format` has no panic outcome, for every section list, value, cell type and number layer, under
the data predicate `DateOK` -/
theorem format_ne_panic (secs : List Sec) (value : Str) (cn : Bool) (n : NumIn) (d : DateIn) (h : DateOK d) :
    format secs value cn n d ≠ .panic := by
  unfold format
  simp only []
  split
  · simp
  · split
    · split
      · apply Out.finish_ne_panic
        unfold positiveHandler
        split
        · simp
        · exact positiveLoop_ne_panic _ _ _ _ _ h _ _
      · apply Out.finish_ne_panic
        unfold negativeHandler
        split
        · simp
        · exact numberHandler_ne_panic _ _ _ _
    · simp

end XlModel.NumFmt
