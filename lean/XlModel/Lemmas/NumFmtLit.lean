/-
C10: digit preservation of printNumberLiteral / handleDigitsLiteral.  The placeholder tokens of a
section cut the pre-formatted text into consecutive slices; together the slices are the whole text,
in order, for every token list with at least one placeholder and every text.
-/
import XlModel.NumFmt
import XlModel.Lemmas.NumFmt

namespace XlModel.NumFmt

/-- `text[a:b]` with both bounds clamped at 0 (and at the length by take/drop) -/
def sliceI (text : Str) (a b : Int) : Str := (text.take b.toNat).drop a.toNat

theorem drop_take_split {α} (l : List α) (a b : Nat) (h : a ≤ b) :
    l.drop a = (l.take b).drop a ++ l.drop b := by
  by_cases hl : a ≤ (l.take b).length
  · conv => lhs; rw [← List.take_append_drop b l]
    rw [List.drop_append_of_le_length hl]
  · have hlen : l.length < a := by
      simp only [List.length_take] at hl
      omega
    rw [List.drop_eq_nil_of_le (by omega), List.drop_eq_nil_of_le (by simp; omega),
      List.drop_eq_nil_of_le (by omega)]
    rfl

theorem sliceI_append (text : Str) (a b c : Int) (hab : a ≤ b) (hbc : b ≤ c) :
    sliceI text a b ++ sliceI text b c = sliceI text a c := by
  unfold sliceI
  have h1 : a.toNat ≤ b.toNat := by omega
  have h2 : b.toNat ≤ c.toNat := by omega
  rw [drop_take_split (text.take c.toNat) a.toNat b.toNat h1, List.take_take, Nat.min_eq_left h2]

theorem sliceI_all (text : Str) (a c : Int) (ha : a ≤ 0) (hc : (text.length : Int) ≤ c) :
    sliceI text a c = text := by
  unfold sliceI
  have : a.toNat = 0 := by omega
  rw [this, List.drop_zero, List.take_of_length_le (by omega)]

theorem sliceI_step (text : Str) (off : Int) (l : Nat) :
    sliceI text off (off + ((l + 1 : Nat) : Int)) =
      sliceI text off (off + (l : Int)) ++
        (if 0 ≤ (l : Int) + off then (text[((l : Int) + off).toNat]?).toList else []) := by
  by_cases h : 0 ≤ (l : Int) + off
  · rw [if_pos h]
    have e1 : (off + ((l + 1 : Nat) : Int)).toNat = ((l : Int) + off).toNat + 1 := by omega
    have e2 : (off + (l : Int)).toNat = ((l : Int) + off).toNat := by omega
    unfold sliceI
    rw [e1, e2, List.take_succ]
    generalize ((l : Int) + off).toNat = n at *
    by_cases hl : off.toNat ≤ (text.take n).length
    · rw [List.drop_append_of_le_length hl]
    · have hn : off.toNat ≤ n := by omega
      have hlen : text.length < off.toNat := by
        simp only [List.length_take] at hl; omega
      have : text[n]? = none := List.getElem?_eq_none (by omega)
      rw [this]; simp
  · rw [if_neg h]
    unfold sliceI
    have e1 : (off + ((l + 1 : Nat) : Int)).toNat = 0 := by omega
    have e2 : (off + (l : Int)).toNat = 0 := by omega
    rw [e1, e2]; simp

/-- the index loop of handleDigitsLiteral emits exactly the slice `[off, off+l)` of the text -/
theorem emitRange_slice (text : Str) (off : Int) (l : Nat) :
    emitRange text off l = sliceI text off (off + (l : Int)) := by
  induction l with
  | zero =>
    unfold emitRange sliceI
    simp
  | succ n ih =>
    rw [sliceI_step, ← ih]
    unfold emitRange
    rw [List.range_succ, List.filterMap_append]
    simp only [List.filterMap_cons, List.filterMap_nil]
    by_cases hj : 0 ≤ (n : Int) + off
    · simp only [hj, if_true]
      cases text[((n : Int) + off).toNat]? <;> rfl
    · simp only [hj, if_false]


/-! ## the fold over the tokens -/

def phSum : List Tok → Nat
  | [] => 0
  | t :: ts => (if isPlaceholder t then t.val.length else 0) + phSum ts

def isHashZero (t : Tok) : Bool := t.ty = "HashPlaceHolder" || t.ty = "ZeroPlaceHolder"

def hzSum : List Tok → Nat
  | [] => 0
  | t :: ts => (if isHashZero t then t.val.length else 0) + hzSum ts

theorem foldl_len_acc (l : List Tok) (a : Nat) :
    l.foldl (fun a t => a + t.val.length) a = a + l.foldl (fun a t => a + t.val.length) 0 := by
  induction l generalizing a with
  | nil => simp
  | cons t ts ih => simp only [List.foldl_cons]; rw [ih, ih (0 + t.val.length)]; omega

theorem hashZeroLen_eq (items : List Tok) : hashZeroLen items = hzSum items := by
  unfold hashZeroLen
  induction items with
  | nil => rfl
  | cons t ts ih =>
    unfold hzSum isHashZero
    simp only [List.filter_cons]
    split
    · simp only [List.foldl_cons]; rw [foldl_len_acc, ih]; simp [isHashZero]
    · rw [ih]; simp

theorem hzSum_le_phSum (items : List Tok) : hzSum items ≤ phSum items := by
  induction items with
  | nil => simp [hzSum, phSum]
  | cons t ts ih =>
    unfold hzSum phSum
    have : isHashZero t = true → isPlaceholder t = true := by
      unfold isHashZero isPlaceholder; intro h; simp only [Bool.or_eq_true] at h ⊢; exact Or.inl h
    by_cases h : isHashZero t = true
    · have hp := this h
      rw [if_pos h, if_pos hp]; omega
    · rw [if_neg h]; split <;> omega

/-- the placeholder emissions of printNumberLiteral, in token order -/
def emitFold (text : Str) (hz : Nat) : List Tok → Int → Str → Int × Str
  | [], ipl, out => (ipl, out)
  | t :: ts, ipl, out =>
    if isPlaceholder t then
      emitFold text hz ts (ipl + ((handleDigitsLiteral text t.val.length ipl hz).1 : Int))
        (out ++ (handleDigitsLiteral text t.val.length ipl hz).2)
    else emitFold text hz ts ipl out

def emitted (items : List Tok) (text : Str) : Str := (emitFold text (hashZeroLen items) items 0 []).2

def delta (text : Str) (hz : Nat) : Int := if text.length < hz then (text.length : Int) - (hz : Int) else 0

structure EmitInv (text : Str) (hz : Nat) (ipl : Int) (out : Str) (seen : Bool) (S : Nat) : Prop where
  out_eq : out = sliceI text (delta text hz) (delta text hz + ipl)
  nonneg : 0 ≤ ipl
  gt_seen : text.length > hz → seen = true → ipl = (text.length : Int) - (hz : Int) + (S : Int)
  gt_unseen : text.length > hz → seen = false → ipl = 0 ∧ S = 0
  le : text.length ≤ hz → ipl = (S : Int)

theorem emitFold_inv (text : Str) (hz : Nat) :
    ∀ (ts : List Tok) (ipl : Int) (out : Str) (seen : Bool) (S : Nat), EmitInv text hz ipl out seen S →
      EmitInv text hz (emitFold text hz ts ipl out).1 (emitFold text hz ts ipl out).2
        (seen || ts.any isPlaceholder) (S + phSum ts) := by
  intro ts
  induction ts with
  | nil => intro ipl out seen S h; simpa [emitFold, phSum] using h
  | cons t ts ih =>
    intro ipl out seen S h
    unfold emitFold
    by_cases hp : isPlaceholder t = true
    · simp only [hp, if_true]
      have hstep : EmitInv text hz (ipl + ((handleDigitsLiteral text t.val.length ipl hz).1 : Int))
          (out ++ (handleDigitsLiteral text t.val.length ipl hz).2) true (S + t.val.length) := by
        obtain ⟨ho, hn, hgs, hgu, hle⟩ := h
        unfold handleDigitsLiteral
        simp only []
        rw [emitRange_slice]
        have hd : (if text.length < hz then ipl + ((text.length : Int) - (hz : Int)) else ipl) = delta text hz + ipl := by
          unfold delta; split <;> omega
        rw [hd]
        have hdl : delta text hz ≤ 0 := by unfold delta; split <;> omega
        constructor
        · rw [ho, sliceI_append _ _ _ _ (by omega) (by omega)]
          congr 1; omega
        · omega
        · intro hgt _
          cases seen with
          | true =>
            have := hgs hgt rfl
            have hne : ¬ (ipl = 0 ∧ text.length > hz) := by omega
            simp only [hne, if_false]; omega
          | false =>
            have := hgu hgt rfl
            have hy : ipl = 0 ∧ text.length > hz := ⟨this.1, hgt⟩
            simp only [hy, and_self, if_true]; omega
        · intro _ hf; exact absurd hf (by simp)
        · intro hl
          have := hle hl
          have hne : ¬ (ipl = 0 ∧ text.length > hz) := by omega
          simp only [hne, if_false]; omega
      have := ih _ _ true (S + t.val.length) hstep
      have e1 : (seen || (t :: ts).any isPlaceholder) = (true || ts.any isPlaceholder) := by simp [hp]
      have e2 : S + phSum (t :: ts) = S + t.val.length + phSum ts := by simp [phSum, hp]; omega
      rw [e1, e2]; exact this
    · simp only [hp]
      have := ih ipl out seen S h
      have e1 : (seen || (t :: ts).any isPlaceholder) = (seen || ts.any isPlaceholder) := by simp [hp]
      have e2 : S + phSum (t :: ts) = S + phSum ts := by simp [phSum, hp]
      rw [e1, e2]; exact this

/-- digit preservation: with at least one placeholder token the emissions are the whole text, in
order, nothing lost, nothing duplicated — for every token list and every text -/
theorem emitted_eq_text (items : List Tok) (text : Str) (h : items.any isPlaceholder = true) :
    emitted items text = text := by
  unfold emitted
  have h0 : EmitInv text (hashZeroLen items) 0 [] false 0 := by
    constructor
    · unfold sliceI; simp
    · omega
    · intro _ hf; exact absurd hf (by simp)
    · intro _ _; exact ⟨rfl, rfl⟩
    · intro _; rfl
  have hinv := emitFold_inv text (hashZeroLen items) items 0 [] false 0 h0
  simp only [Bool.false_or, h, Nat.zero_add] at hinv
  obtain ⟨ho, hn, hgs, _, hle⟩ := hinv
  rw [ho]
  have hT : hashZeroLen items ≤ phSum items := by rw [hashZeroLen_eq]; exact hzSum_le_phSum items
  apply sliceI_all
  · unfold delta; split <;> omega
  · unfold delta
    by_cases hgt : text.length > hashZeroLen items
    · have := hgs hgt rfl
      have : ¬ text.length < hashZeroLen items := by omega
      simp only [this, if_false]; omega
    · have := hle (by omega)
      split <;> omega

/-! ## from the emissions to the rendered text -/

/-- the characters of a rendering that denote the number: digits and the decimal point -/
def digitsOf (s : Str) : Str := s.filter fun c => isDigitC c || c == '.'

theorem digitsOf_append (a b : Str) : digitsOf (a ++ b) = digitsOf a ++ digitsOf b := by
  unfold digitsOf; exact List.filter_append ..

/-- literal tokens without digits or points, and no currency bracket -/
def PlainLits (items : List Tok) : Prop :=
  ∀ t ∈ items, t.ty ≠ "CurrencyLanguage" ∧ (t.ty = "Literal" → digitsOf t.val = [])

theorem literal_not_placeholder (t : Tok) (h : t.ty = "Literal") : isPlaceholder t = false := by
  unfold isPlaceholder; rw [h]; decide

theorem lit_lockstep (text : Str) (hz : Nat) (pre : Str) :
    ∀ (ts : List Tok), PlainLits ts → ∀ (st : LitSt) (out : Str),
      digitsOf st.result = pre ++ digitsOf out →
      digitsOf (ts.foldl (litStep text hz) st).result = pre ++ digitsOf (emitFold text hz ts st.intPartLen out).2 := by
  intro ts
  induction ts with
  | nil => intro _ st out h; simpa [emitFold] using h
  | cons t ts ih =>
    intro hp st out h
    have ht := hp t (by simp)
    have hp' : PlainLits ts := fun x hx => hp x (by simp [hx])
    simp only [List.foldl_cons]
    unfold emitFold
    unfold litStep
    simp only [ht.1, if_false]
    by_cases hl : t.ty = "Literal"
    · simp only [hl, if_true]
      have hnp : isPlaceholder t = false := literal_not_placeholder t hl
      simp only [hnp, Bool.false_eq_true, if_false]
      apply ih hp'
      simp only [digitsOf_append, ht.2 hl, List.append_nil]; exact h
    · simp only [hl, if_false]
      by_cases hph : isPlaceholder t = true
      · simp only [hph, if_true]
        apply ih hp'
        simp only [digitsOf_append, h, List.append_assoc]
      · simp only [hph, if_false]
        exact ih hp' st out h

/-- rendered digits: whatever pre-formatted text numberHandler hands to printNumberLiteral, the
digits and the decimal point of the final string are exactly those of that text, in order — for
every token list with a placeholder whose literals are digit-free (sign prefix included) -/
theorem printNumberLiteral_digits (items : List Tok) (up : Bool) (text : Str)
    (hph : items.any isPlaceholder = true) (hpl : PlainLits items) :
    digitsOf (printNumberLiteral items up text) = digitsOf text := by
  unfold printNumberLiteral
  have h0 : digitsOf (if up then ['-'] else ([] : Str)) = [] ++ digitsOf [] := by
    cases up <;> decide
  have := lit_lockstep text (hashZeroLen items) [] items hpl
    { result := if up then ['-'] else [] } [] h0
  simp only [List.nil_append] at this
  rw [this]
  have he := emitted_eq_text items text hph
  unfold emitted at he
  rw [he]

theorem commaLoop_digits (s : Str) : ∀ f, digitsOf (commaLoop f s) = digitsOf s := by
  induction s with
  | nil => intro f; rfl
  | cons c cs ih =>
    intro f
    unfold commaLoop
    have hc : digitsOf [','] = [] := by decide
    split
    · rw [digitsOf_append, hc, List.nil_append]
      show digitsOf ([c] ++ commaLoop false cs) = digitsOf ([c] ++ cs)
      rw [digitsOf_append, digitsOf_append, ih]
    · rw [List.nil_append]
      show digitsOf ([c] ++ commaLoop false cs) = digitsOf ([c] ++ cs)
      rw [digitsOf_append, digitsOf_append, ih]

/-! ## the decimal-point split of printCommaSep -/

theorem splitC_no (sep : Char) (s : Str) (h : sep ∉ s) : splitC sep s = [s] := by
  induction s with
  | nil => rfl
  | cons c cs ih =>
    have hc : c ≠ sep := fun e => h (by simp [e])
    have hcs : sep ∉ cs := fun e => h (by simp [e])
    unfold splitC
    rw [if_neg hc, ih hcs]

theorem splitC_at (sep : Char) (b : Str) :
    ∀ a : Str, sep ∉ a → splitC sep (a ++ sep :: b) = a :: splitC sep b := by
  intro a
  induction a with
  | nil => intro _; simp [splitC]
  | cons c cs ih =>
    intro h
    have hc : c ≠ sep := fun e => h (by simp [e])
    have hcs : sep ∉ cs := fun e => h (by simp [e])
    rw [List.cons_append, splitC, if_neg hc, ih hcs]

theorem printCommaSep_no_point (p : Str) (h : '.' ∉ p) : printCommaSep p = commaLoop true p := by
  unfold printCommaSep
  rw [splitC_no '.' p h]

theorem printCommaSep_point (p q : Str) (hp : '.' ∉ p) (hq : '.' ∉ q) :
    printCommaSep (p ++ '.' :: q) = commaLoop true p ++ '.' :: q := by
  unfold printCommaSep
  rw [splitC_at '.' q p hp, splitC_no '.' q hq]

/-- a text with at most one '.' is `p` or `p.q` with point-free `p`, `q` -/
theorem one_point_cases (text : Str) (h : text.count '.' ≤ 1) :
    '.' ∉ text ∨ ∃ p q, text = p ++ '.' :: q ∧ '.' ∉ p ∧ '.' ∉ q := by
  by_cases hm : '.' ∈ text
  · right
    obtain ⟨p, q, he, hp⟩ := List.eq_append_cons_of_mem hm
    refine ⟨p, q, he, hp, ?_⟩
    rw [he, List.count_append, List.count_cons_self] at h
    have : q.count '.' = 0 := by omega
    exact List.count_eq_zero.mp this
  · exact Or.inl hm

theorem printCommaSep_digits (text : Str) (h : text.count '.' ≤ 1) :
    digitsOf (printCommaSep text) = digitsOf text := by
  rcases one_point_cases text h with hn | ⟨p, q, he, hp, hq⟩
  · rw [printCommaSep_no_point text hn, commaLoop_digits]
  · rw [he, printCommaSep_point p q hp hq, digitsOf_append, commaLoop_digits, digitsOf_append]

theorem printCommaSep_strip (text : Str) (h : text.count '.' ≤ 1) (hc : ∀ c ∈ text, c ≠ ',') :
    (printCommaSep text).filter (· ≠ ',') = text := by
  rcases one_point_cases text h with hn | ⟨p, q, he, hp, hq⟩
  · rw [printCommaSep_no_point text hn, commaLoop_strip text hc true]
  · subst he
    have hcp : ∀ c ∈ p, c ≠ ',' := fun c hx => hc c (by simp [hx])
    have hcq : ∀ c ∈ '.' :: q, c ≠ ',' := fun c hx => hc c (List.mem_append_right _ hx)
    rw [printCommaSep_point p q hp hq, List.filter_append, commaLoop_strip p hcp true]
    congr 1
    exact List.filter_eq_self.mpr (fun c hx => by simpa using hcq c hx)

/-! ## `%0w.df` of the exact layer has at most one point -/

theorem digitChar_ne_point : ∀ r : Fin 10, Char.ofNat (r.val + 48) ≠ '.' := by decide

theorem itoaAux_no_point : ∀ n : Nat, '.' ∉ itoaAux n := by
  intro n
  induction n using Nat.strongRecOn with
  | _ n ih =>
    cases n with
    | zero => simp [itoaAux]
    | succ m =>
      unfold itoaAux
      intro h
      rcases List.mem_append.mp h with h1 | h1
      · exact ih ((m + 1) / 10) (by omega) h1
      · have := digitChar_ne_point ⟨(m + 1) % 10, by omega⟩
        simp only [List.mem_singleton] at h1
        exact this h1.symm

theorem itoa_no_point (n : Nat) : '.' ∉ itoa n := by
  unfold itoa
  split
  · decide
  · exact itoaAux_no_point n

theorem zeros_no_point (n : Nat) : '.' ∉ zeros n := by
  unfold zeros
  intro h
  exact absurd (List.eq_of_mem_replicate h) (by decide)

theorem renderFixed_one_point (k d : Nat) : (Exact.renderFixed k d).count '.' ≤ 1 := by
  unfold Exact.renderFixed
  simp only
  split
  · rw [List.count_eq_zero.mpr (itoa_no_point _)]; omega
  · rw [List.count_append, List.count_cons_self, List.count_append,
      List.count_eq_zero.mpr (itoa_no_point _), List.count_eq_zero.mpr (zeros_no_point _),
      List.count_eq_zero.mpr (itoaAux_no_point _)]
    omega

theorem padLeft_count_point (w : Nat) (s : Str) : (padLeft w s).count '.' = s.count '.' := by
  unfold padLeft
  split
  · rename_i c cs
    rw [List.count_append]
    have : '.' ∉ List.replicate (w - (c :: cs).length) (if isDigitC c then '0' else ' ') := by
      intro h
      have := List.eq_of_mem_replicate h
      split at this <;> exact absurd this (by decide)
    rw [List.count_eq_zero.mpr this, Nat.zero_add]
  · have : '.' ∉ List.replicate w ' ' := fun h => absurd (List.eq_of_mem_replicate h) (by decide)
    rw [List.count_eq_zero.mpr this]; rfl

end XlModel.NumFmt
