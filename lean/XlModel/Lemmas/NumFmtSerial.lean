/-
C10 ⋈ C19: the fields the date/time handlers read for a stored serial are those of the serial's
calendar instant.  Uses C19's decode theorem (`decode_both`, Mathlib-backed) — imported, not copied.
-/
import XlModel.NumFmtDate
import XlModel.Lemmas.NumFmtDate
import XlModel.Lemmas.DateDecode

namespace XlModel.NumFmt
open XlModel XlModel.Date XlModel.Date.Impl

theorem epochs_eval : epoch1900 = -25569 * 86400000000000 ∧ epoch1904 = -24107 * 86400000000000 := by
  decide +kernel

/-- day number (days since 1970-01-01) of serial 0 in each date system -/
def epochDay (date1904 : Bool) : Int := if date1904 then -24107 else -25569

/-- the record of day `E + D`, second `k` of the day -/
def civilTimeF (date1904 : Bool) (D k : Int) : TimeF :=
  let c := civilFromDays (epochDay date1904 + D)
  { year := c.1, month := c.2.1.toNat, day := c.2.2.toNat, hour := (k / 3600).toNat, minute := (k % 3600 / 60).toNat,
    second := (k % 60).toNat, nano := 0, elapsedSec := D * 86400 + k }

theorem timeFOfInstant_eval (s : Bool) (D k : Int) (hk0 : 0 ≤ k) (hk : k < 86400) :
    timeFOfInstant ((if s then epoch1904 else epoch1900) + (D * 86400000000000 + k * 1000000000)) s
      = civilTimeF s D k := by
  have he := epochs_eval
  unfold timeFOfInstant civilOf civilTimeF epochDay
  have hns : nsPerSec = 1000000000 := by decide
  have hnd : nsPerDay = 86400000000000 := by decide
  rw [hns, hnd]
  cases s
  · simp only [Bool.false_eq_true, if_false, he.1]
    have h1 : (-25569 * 86400000000000 + (D * 86400000000000 + k * 1000000000)) / 86400000000000 = -25569 + D := by omega
    have h2 : (-25569 * 86400000000000 + (D * 86400000000000 + k * 1000000000)) % 86400000000000 = k * 1000000000 := by omega
    have h3 : k * 1000000000 / 1000000000 = k := by omega
    have h4 : k * 1000000000 % 1000000000 = 0 := by omega
    have h5 : (-25569 * 86400000000000 + (D * 86400000000000 + k * 1000000000)) / 1000000000
        - -25569 * 86400000000000 / 1000000000 = D * 86400 + k := by omega
    rw [h1, h2, h3, h4, h5]
    rfl
  · simp only [if_true, he.2]
    have h1 : (-24107 * 86400000000000 + (D * 86400000000000 + k * 1000000000)) / 86400000000000 = -24107 + D := by omega
    have h2 : (-24107 * 86400000000000 + (D * 86400000000000 + k * 1000000000)) % 86400000000000 = k * 1000000000 := by omega
    have h3 : k * 1000000000 / 1000000000 = k := by omega
    have h4 : k * 1000000000 % 1000000000 = 0 := by omega
    have h5 : (-24107 * 86400000000000 + (D * 86400000000000 + k * 1000000000)) / 1000000000
        - -24107 * 86400000000000 / 1000000000 = D * 86400 + k := by omega
    rw [h1, h2, h3, h4, h5]
    rfl

/-- the year of every day at or after serial 0 has four digits or more -/
theorem year_ge_1600 (s : Bool) (D : Int) (hD : 0 ≤ D) : 1600 ≤ (civilFromDays (epochDay s + D)).1 := by
  unfold civilFromDays yearOfEra epochDay
  cases s <;> simp only [Bool.false_eq_true, if_false, if_true] <;> (split <;> split <;> split <;> omega)

end XlModel.NumFmt
