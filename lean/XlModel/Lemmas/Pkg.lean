/-
Helper lemmas for C05 (package bookkeeping): the delete-while-ranging loop,
max+1 relationship id allocation, unique-key splitting, save-time trimming.
-/
import XlModel.Pkg
import XlModel.Lemmas.Ref
import XlModel.Lemmas.Ref2
namespace XlModel.Lemmas.Pkg
open XlModel XlModel.Ref XlModel.Pkg XlModel.Pkg.Impl


theorem getLastD_mem {α} (w : α) (r : List α) : (w :: r).getLast?.getD w ∈ w :: r := by
  cases h : (w :: r).getLast? with
  | none => simp
  | some a => simp only [Option.getD_some]; exact List.mem_of_getLast? h

theorem rdStale_nomatch {α} (p : α → Bool) (done stale : List α) (h : ∀ x ∈ stale, p x = false) :
    rdStale p done stale = .ok done := by
  induction stale with
  | nil => rfl
  | cons s ss ih =>
    have hs := h s (by simp)
    simp only [rdStale, hs]
    exact ih (fun x hx => h x (by simp [hx]))

theorem rdLive_skip {α} (p : α → Bool) (done : List α) (v : α) (rest stale : List α) (hv : p v = false) :
    rdLive p done (v :: rest) stale = rdLive p (done ++ [v]) rest stale := by
  cases rest with
  | nil => simp [rdLive, hv]
  | cons w r => simp [rdLive, hv]

theorem rdLive_nomatch {α} (p : α → Bool) (done live stale : List α)
    (hl : ∀ x ∈ live, p x = false) (hs : ∀ x ∈ stale, p x = false) :
    rdLive p done live stale = .ok (done ++ live) := by
  induction live generalizing done with
  | nil => simp [rdLive, rdStale_nomatch p done stale hs]
  | cons v rest ih =>
    rw [rdLive_skip p done v rest stale (hl v (by simp))]
    rw [ih (done ++ [v]) (fun x hx => hl x (by simp [hx]))]
    simp

theorem rdLive_single {α} (p : α → Bool) (done pre : List α) (x : α) (post stale : List α)
    (hpre : ∀ y ∈ pre, p y = false) (hx : p x = true) (hpost : ∀ y ∈ post, p y = false)
    (hs : ∀ y ∈ stale, p y = false) :
    rdLive p done (pre ++ x :: post) stale = .ok (done ++ pre ++ post) := by
  induction pre generalizing done with
  | nil =>
    cases post with
    | nil => simp [rdLive, hx, rdStale_nomatch p done stale hs]
    | cons w r =>
      simp only [List.nil_append, rdLive, hx, if_true]
      rw [rdLive_nomatch p (done ++ [w]) r _ (fun y hy => hpost y (by simp [hy]))]
      · simp
      · intro y hy
        rcases List.mem_cons.mp hy with h | h
        · rw [h]; exact hpost _ (getLastD_mem w r)
        · exact hs y h
  | cons y ys ih =>
    rw [List.cons_append, rdLive_skip p done y _ stale (hpre y (by simp))]
    rw [ih (done ++ [y]) (fun z hz => hpre z (by simp [hz]))]
    simp

/-- no element matches: the list is returned unchanged, no panic -/
theorem rangeDelete_nomatch {α} (p : α → Bool) (xs : List α) (h : ∀ x ∈ xs, p x = false) :
    rangeDelete p xs = .ok xs := by
  simpa [rangeDelete] using rdLive_nomatch p [] xs [] h (by simp)

/-- exactly one element matches: it is removed, everything else keeps its order, no panic -/
theorem rangeDelete_single {α} (p : α → Bool) (pre : List α) (x : α) (post : List α)
    (hpre : ∀ y ∈ pre, p y = false) (hx : p x = true) (hpost : ∀ y ∈ post, p y = false) :
    rangeDelete p (pre ++ x :: post) = .ok (pre ++ post) := by
  simpa [rangeDelete] using rdLive_single p [] pre x post [] hpre hx hpost (by simp)



/-- running maximum of the numeric relationship ids (the loop variable `rID` of addRels) -/
def maxRelNum : List Rel → Int → Int
  | [], m => m
  | r :: rs, m => maxRelNum rs (if relNum r.id > m then relNum r.id else m)

theorem le_maxRelNum (rs : List Rel) (m : Int) : m ≤ maxRelNum rs m := by
  induction rs generalizing m with
  | nil => simp [maxRelNum]
  | cons r rs ih =>
    simp only [maxRelNum]
    have := ih (if relNum r.id > m then relNum r.id else m)
    by_cases hc : relNum r.id > m <;> simp only [hc, if_true, if_false] at this ⊢ <;> omega

theorem mem_le_maxRelNum (rs : List Rel) (m : Int) (r : Rel) (h : r ∈ rs) : relNum r.id ≤ maxRelNum rs m := by
  induction rs generalizing m with
  | nil => cases h
  | cons x xs ih =>
    simp only [maxRelNum]
    rcases List.mem_cons.mp h with h | h
    · subst h
      have := le_maxRelNum xs (if relNum r.id > m then relNum r.id else m)
      by_cases hc : relNum r.id > m <;> simp only [hc, if_true, if_false] at this ⊢ <;> omega
    · exact ih _ h

theorem addRelsGo_nouniq (done : List Rel) (m : Int) (ty tg md : Str) (rest : List Rel)
    (hu : uniqPart ty = none) :
    addRelsGo done m ty tg md rest =
      ((done.reverse ++ rest) ++ [⟨mkRid (wrap64 (maxRelNum rest m + 1)), ty, tg, md⟩],
        wrap64 (maxRelNum rest m + 1)) := by
  induction rest generalizing done m with
  | nil => simp [addRelsGo, maxRelNum]
  | cons r rs ih =>
    simp only [addRelsGo, maxRelNum]
    by_cases hty : (ty == r.type) = true
    · have : r.type = ty := (eq_of_beq hty).symm
      simp only [hty, if_true, this, hu]
      rw [ih]; simp
    · simp only [hty]
      rw [ih]; simp

theorem trimPrefix_append (p x : Str) : trimPrefix p (p ++ x) = x := by
  unfold trimPrefix
  have : p.isPrefixOf (p ++ x) = true := by
    rw [List.isPrefixOf_iff_prefix]; exact List.prefix_append p x
  simp [this]

theorem atoiGo_itoaAux (k : Nat) (h1 : 1 ≤ k) (h2 : k < 9223372036854775808) :
    atoiGo (itoaAux k) = (k : Int) := by
  have hne := itoaAux_ne_nil h1
  have hd := itoaAux_digits k
  cases hD : itoaAux k with
  | nil => exact absurd hD hne
  | cons c rest =>
    have hc : isDigit c = true := hd c (by rw [hD]; simp)
    have ⟨s1, s2⟩ := isDigit_not_sign hc
    have hv : digitsVal (c :: rest) = some k := by rw [← hD]; exact digitsVal_itoaAux h1
    simp only [atoiGo, s1, s2, Bool.false_or, Bool.false_eq_true, if_false, hv]
    simp [h2]

theorem relNum_mkRid (n : Int) (h1 : 1 ≤ n) (h2 : n < 9223372036854775808) : relNum (mkRid n) = n := by
  unfold relNum mkRid
  rw [trimPrefix_append, itoaInt_pos h1, atoiGo_itoaAux n.toNat (by omega) (by omega)]
  omega

/-- max+1 never collides: the id `rId(max+1)` differs from every id in the list,
whatever strings those ids are (non-numeric ids count as 0) -/
theorem mkRid_fresh (rels : List Rel) (hno : maxRelNum rels 0 + 1 < 9223372036854775808) :
    ∀ r ∈ rels, r.id ≠ mkRid (maxRelNum rels 0 + 1) := by
  intro r hr heq
  have h0 := le_maxRelNum rels 0
  have hle := mem_le_maxRelNum rels 0 r hr
  rw [heq, relNum_mkRid _ (by omega) hno] at hle
  omega



/-- keys are pairwise different and `p` only matches one key: at most one element matches -/
theorem unique_split {α κ : Type} (key : α → κ) (k : κ) (p : α → Bool)
    (hp : ∀ x, p x = true → key x = k) (l : List α) (hn : (l.map key).Nodup) :
    (∀ x ∈ l, p x = false) ∨
    ∃ pre x post, l = pre ++ x :: post ∧ p x = true ∧ (∀ y ∈ pre, p y = false) ∧ (∀ y ∈ post, p y = false) := by
  induction l with
  | nil => left; intro x hx; cases hx
  | cons a l ih =>
    rw [List.map_cons, List.nodup_cons] at hn
    by_cases ha : p a = true
    · right
      refine ⟨[], a, l, rfl, ha, ?_, ?_⟩
      · intro y hy; cases hy
      intro y hy
      cases hpy : p y with
      | false => rfl
      | true =>
        exfalso
        apply hn.1
        rw [hp a ha, ← hp y hpy]
        exact List.mem_map_of_mem hy
    · have ha' : p a = false := by cases h : p a <;> simp_all
      rcases ih hn.2 with h | ⟨pre, x, post, hl, hx, hpre, hpost⟩
      · left; intro x hx
        rcases List.mem_cons.mp hx with h' | h'
        · rw [h']; exact ha'
        · exact h x h'
      · right
        refine ⟨a :: pre, x, post, by rw [hl]; rfl, hx, ?_, hpost⟩
        intro y hy
        rcases List.mem_cons.mp hy with h' | h'
        · rw [h']; exact ha'
        · exact hpre y h'

theorem nodup_map_sublist {α κ : Type} (key : α → κ) {l l' : List α} (hs : l'.Sublist l)
    (hn : (l.map key).Nodup) : (l'.map key).Nodup :=
  List.Nodup.sublist (List.Sublist.map key hs) hn

theorem trimCell_r (row : Row) : (trimCell row).r = row.r := by
  unfold trimCell; split <;> rfl

theorem trimCell_sublist (row : Row) : (trimCell row).cells.Sublist row.cells := by
  unfold trimCell; split
  · exact List.Sublist.refl _
  · exact List.filter_sublist

theorem trimOne_spec (keep : Bool) (row t : Row) (h : trimOne keep row = some t) :
    t.r = row.r ∧ t.cells.Sublist row.cells := by
  unfold trimOne at h
  dsimp only at h
  split at h
  · cases h; exact ⟨trimCell_r row, trimCell_sublist row⟩
  · split at h
    · cases h; exact ⟨rfl, List.Sublist.refl _⟩
    · cases h

theorem trim_dense (keep : Bool) (rows : List Row) (k : Nat) (h : Spec.denseFrom k rows) :
    Spec.rowsOk (trimRowWith keep rows) ∧ ∀ row ∈ trimRowWith keep rows, k ≤ row.r := by
  induction rows generalizing k with
  | nil => simp [trimRowWith, Spec.rowsOk]
  | cons row rest ih =>
    obtain ⟨hr, hc, hp, hrest⟩ := h
    obtain ⟨⟨ihp, ihc⟩, ihk⟩ := ih (k + 1) hrest
    unfold trimRowWith at *
    rw [List.filterMap_cons]
    cases ht : trimOne keep row with
    | none =>
      refine ⟨⟨ihp, ihc⟩, ?_⟩
      intro r hr'; have := ihk r hr'; omega
    | some t =>
      obtain ⟨htr, hts⟩ := trimOne_spec keep row t ht
      refine ⟨⟨?_, ?_⟩, ?_⟩
      · rw [List.map_cons, List.pairwise_cons]
        refine ⟨?_, ihp⟩
        intro x hx
        obtain ⟨r', hr', rfl⟩ := List.mem_map.mp hx
        have := ihk r' hr'; omega
      · intro r' hr'
        rcases List.mem_cons.mp hr' with h' | h'
        · subst h'
          refine ⟨List.Pairwise.sublist (List.Sublist.map _ hts) hp, ?_⟩
          intro c hc'
          rw [htr, hr]; exact hc c (hts.subset hc')
        · exact ihc r' h'
      · intro r' hr'
        rcases List.mem_cons.mp hr' with h' | h'
        · subst h'; omega
        · have := ihk r' h'; omega


theorem maxRelNum_mono (l : List Rel) {m m' : Int} (h : m ≤ m') : maxRelNum l m ≤ maxRelNum l m' := by
  induction l generalizing m m' with
  | nil => simpa [maxRelNum] using h
  | cons r rs ih =>
    simp only [maxRelNum]
    apply ih
    by_cases h1 : relNum r.id > m <;> by_cases h2 : relNum r.id > m' <;> simp only [h1, h2, if_true, if_false] <;> omega

theorem maxRelNum_append (l l' : List Rel) (m : Int) : maxRelNum (l ++ l') m = maxRelNum l' (maxRelNum l m) := by
  induction l generalizing m with
  | nil => rfl
  | cons r rs ih => simp only [List.cons_append, maxRelNum]; exact ih _

theorem maxRelNum_append_new (rels : List Rel) (ty tg md : Str)
    (hno : maxRelNum rels 0 + 1 < 9223372036854775808) :
    maxRelNum (rels ++ [⟨mkRid (maxRelNum rels 0 + 1), ty, tg, md⟩]) 0 ≤ maxRelNum rels 0 + 1 := by
  have h0 := le_maxRelNum rels 0
  rw [maxRelNum_append]
  simp only [maxRelNum, relNum_mkRid _ (by omega) hno]
  split <;> omega

end XlModel.Lemmas.Pkg
