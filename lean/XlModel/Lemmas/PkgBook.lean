/-
Helper lemmas for C05, sheet-list level: NewSheet / DeleteSheet keep the
correspondence workbook sheets ↔ worksheet relationships ↔ worksheet parts ↔
worksheet Overrides (`Spec.BookOk`).
-/
import XlModel.Lemmas.Pkg
namespace XlModel.Lemmas.Pkg
open XlModel XlModel.Ref XlModel.Pkg XlModel.Pkg.Impl XlModel.Pkg.Spec

/-! ### sheet ids -/

theorem le_maxSheetId (l : List SheetEnt) (m : Int) : m ≤ maxSheetId l m := by
  induction l generalizing m with
  | nil => simp [maxSheetId]
  | cons s ss ih =>
    simp only [maxSheetId]
    have := ih (if s.sheetId > m then s.sheetId else m)
    by_cases hc : s.sheetId > m <;> simp only [hc, if_true, if_false] at this ⊢ <;> omega

theorem mem_le_maxSheetId (l : List SheetEnt) (m : Int) (s : SheetEnt) (h : s ∈ l) :
    s.sheetId ≤ maxSheetId l m := by
  induction l generalizing m with
  | nil => cases h
  | cons x xs ih =>
    simp only [maxSheetId]
    rcases List.mem_cons.mp h with h | h
    · subst h
      have := le_maxSheetId xs (if s.sheetId > m then s.sheetId else m)
      by_cases hc : s.sheetId > m <;> simp only [hc, if_true, if_false] at this ⊢ <;> omega
    · exact ih _ h

theorem maxSheetId_lt (l : List SheetEnt) (m B : Int) (hm : m < B) (h : ∀ s ∈ l, s.sheetId < B) :
    maxSheetId l m < B := by
  induction l generalizing m with
  | nil => simpa [maxSheetId] using hm
  | cons x xs ih =>
    simp only [maxSheetId]
    apply ih
    · have := h x (by simp)
      by_cases hc : x.sheetId > m <;> simp only [hc, if_true, if_false] <;> omega
    · intro s hs; exact h s (by simp [hs])

/-! ### part names -/

theorem itoaInt_inj {a b : Int} (ha : 1 ≤ a) (ha' : a < 9223372036854775808) (hb : 1 ≤ b)
    (hb' : b < 9223372036854775808) (h : itoaInt a = itoaInt b) : a = b := by
  rw [itoaInt_pos ha, itoaInt_pos hb] at h
  have h1 := atoiGo_itoaAux a.toNat (by omega) (by omega)
  have h2 := atoiGo_itoaAux b.toNat (by omega) (by omega)
  rw [h] at h1
  omega

theorem sheetPartAbs_inj {a b : Int} (ha : 1 ≤ a) (ha' : a < 9223372036854775808) (hb : 1 ≤ b)
    (hb' : b < 9223372036854775808) (h : sheetPartAbs a = sheetPartAbs b) : a = b := by
  unfold sheetPartAbs at h
  rw [List.append_assoc, List.append_assoc] at h
  have h1 := List.append_cancel_left h
  exact itoaInt_inj ha ha' hb hb' (List.append_cancel_right h1)

theorem sheetPartAbs_prefix (k : Int) : wsPartPrefix.isPrefixOf (sheetPartAbs k) = true := by
  unfold sheetPartAbs wsPartPrefix
  rw [List.append_assoc, List.isPrefixOf_iff_prefix]
  exact List.prefix_append _ _

theorem prefix_slash : ∃ t, sl Facts.C05.newSheetPartPrefix = '/' :: t := by
  have : (sl Facts.C05.newSheetPartPrefix).head? = some '/' := by decide +kernel
  cases h : sl Facts.C05.newSheetPartPrefix with
  | nil => rw [h] at this; cases this
  | cons c t => rw [h] at this; simp at this; exact ⟨t, by rw [this]⟩

/-- the Override name of a sheet part is "/" + its package path -/
theorem sheetPartAbs_slash (k : Int) : sheetPartAbs k = '/' :: sheetPath k := by
  obtain ⟨t, ht⟩ := prefix_slash
  unfold sheetPath worksheetPath sheetPartAbs
  rw [ht]
  rfl

theorem sheetPath_inj {a b : Int} (ha : 1 ≤ a) (ha' : a < 9223372036854775808) (hb : 1 ≤ b)
    (hb' : b < 9223372036854775808) (h : sheetPath a = sheetPath b) : a = b :=
  sheetPartAbs_inj ha ha' hb hb' (by rw [sheetPartAbs_slash, sheetPartAbs_slash, h])

theorem mem_insertSet (xs : List Str) (x p : Str) : p ∈ insertSet xs x ↔ p ∈ xs ∨ p = x := by
  unfold insertSet
  split
  · rename_i h
    constructor
    · intro hp; exact Or.inl hp
    · rintro (hp | hp)
      · exact hp
      · rw [hp]; exact List.elem_iff.mp h |> fun x => x
  · simp [List.mem_append]


theorem addRels_eq (rels : List Rel) (ty tg md : Str) (hu : uniqPart ty = none)
    (hno : maxRelNum rels 0 + 1 < 9223372036854775808) :
    addRels rels ty tg md = (rels ++ [⟨mkRid (maxRelNum rels 0 + 1), ty, tg, md⟩], maxRelNum rels 0 + 1) := by
  have h0 := le_maxRelNum rels 0
  unfold addRels
  rw [addRelsGo_nouniq [] 0 ty tg md rels hu, wrap64_small (by omega) hno]
  simp

theorem nodup_append_singleton {α : Type} {l : List α} {a : α} (h : l.Nodup) (ha : a ∉ l) : (l ++ [a]).Nodup := by
  rw [List.nodup_append]
  refine ⟨h, by simp, ?_⟩
  intro x hx y hy
  simp only [List.mem_singleton] at hy
  intro hxy; rw [hy] at hxy; rw [hxy] at hx; exact ha hx

/-- in a natively numbered workbook the first candidate id of NewSheet is free -/
theorem freshSheetId_native (b : Book) (h : BookOk b) (hid : maxSheetId b.sheets 0 + 1 < 9223372036854775807) :
    freshSheetId b.wsParts (b.wsParts.length + 1) (maxSheetId b.sheets 0 + 1) = maxSheetId b.sheets 0 + 1 := by
  have hN0 := le_maxSheetId b.sheets 0
  have hc : b.wsParts.contains (worksheetPath (sheetPartAbs (maxSheetId b.sheets 0 + 1))) = false := by
    cases hc : b.wsParts.contains (worksheetPath (sheetPartAbs (maxSheetId b.sheets 0 + 1))) with
    | false => rfl
    | true =>
      exfalso
      obtain ⟨s, hs, hp⟩ := (h.parts _).mp (List.elem_iff.mp hc)
      have hr := h.idrange s hs
      have hle := mem_le_maxSheetId b.sheets 0 s hs
      have := sheetPath_inj (a := maxSheetId b.sheets 0 + 1) (b := s.sheetId) (by omega) (by omega) hr.1 (by omega) hp
      omega
  show (if b.wsParts.contains (worksheetPath (sheetPartAbs (maxSheetId b.sheets 0 + 1))) = true then _ else _) = _
  rw [hc]; rfl

/-- NewSheet keeps the sheet ↔ relationship ↔ part ↔ Override correspondence -/
theorem newSheet_ok (b : Book) (name : Str) (h : BookOk b)
    (hno : maxRelNum b.wbRels 0 + 1 < 9223372036854775808)
    (hid : maxSheetId b.sheets 0 + 1 < 9223372036854775807) : BookOk (newSheet b name) := by
  unfold newSheet
  split
  · exact h
  · rename_i hnew
    have hN0 := le_maxSheetId b.sheets 0
    have hw : wrap64 (maxSheetId b.sheets 0 + 1) = maxSheetId b.sheets 0 + 1 :=
      wrap64_small (by omega) (by omega)
    have hu : uniqPart relWorksheet = none := by decide +kernel
    have heq := addRels_eq b.wbRels relWorksheet (sheetPartAbs (maxSheetId b.sheets 0 + 1)) [] hu hno
    have hfresh := mkRid_fresh b.wbRels hno
    have hfree := freshSheetId_native b h hid
    simp only [hw, hfree, heq]
    -- abbreviations
    generalize hN : maxSheetId b.sheets 0 + 1 = N at *
    generalize hn : maxRelNum b.wbRels 0 + 1 = n at *
    have hNgt : ∀ s ∈ b.sheets, s.sheetId < N := by
      intro s hs; have := mem_le_maxSheetId b.sheets 0 s hs; omega
    have hridfresh : mkRid n ∉ b.sheets.map (·.rid) := by
      intro hm
      obtain ⟨s, hs, hsr⟩ := List.mem_map.mp hm
      obtain ⟨r, hr, hrid, _, _⟩ := h.sheetRel s hs
      exact hfresh r hr (by rw [hrid, hsr])
    have hpartfresh : sheetPartAbs N ∉ b.ct.overrides.map (·.1) := by
      intro hm
      obtain ⟨o, ho, hoe⟩ := List.mem_map.mp hm
      obtain ⟨s, hs, hse⟩ := h.ovrSheet o ho (by rw [hoe]; exact sheetPartAbs_prefix N)
      have hr := h.idrange s hs
      have := sheetPartAbs_inj (a := N) (b := s.sheetId) (by omega) (by omega) hr.1 (by omega) (by rw [← hoe, hse])
      have := hNgt s hs; omega
    have hnames : ∀ s ∈ b.sheets, lower s.name ≠ lower name := by
      intro s hs heq'
      apply hnew
      rw [List.any_eq_true]
      exact ⟨s, hs, by simp [eqFold, heq']⟩
    refine
      { rels := ?_, ct := ?_, names := ?_, ids := ?_, idrange := ?_, rids := ?_, sheetRel := ?_,
        relSheet := ?_, parts := ?_, ovrSheet := ?_, sheetOvr := ?_ }
    · -- rels
      show ((b.wbRels ++ [_]).map (fun r : Rel => r.id)).Nodup
      rw [List.map_append]
      apply nodup_append_singleton h.rels
      intro hm
      obtain ⟨r, hr, hre⟩ := List.mem_map.mp hm
      exact hfresh r hr hre
    · -- ct
      show ((b.ct.overrides ++ [_]).map (fun o : Str × Str => o.1)).Nodup
      rw [List.map_append]
      exact nodup_append_singleton h.ct hpartfresh
    · -- names
      show ((b.sheets ++ [_]).map fun s : SheetEnt => lower s.name).Nodup
      rw [List.map_append]
      apply nodup_append_singleton h.names
      intro hm
      obtain ⟨s, hs, hse⟩ := List.mem_map.mp hm
      exact hnames s hs hse
    · -- ids
      show ((b.sheets ++ [_]).map (fun s : SheetEnt => s.sheetId)).Nodup
      rw [List.map_append]
      apply nodup_append_singleton h.ids
      intro hm
      obtain ⟨s, hs, hse⟩ := List.mem_map.mp hm
      have := hNgt s hs
      simp only at hse; omega
    · -- idrange
      intro s hs
      rcases List.mem_append.mp hs with hs | hs
      · exact h.idrange s hs
      · simp only [List.mem_singleton] at hs; subst hs; simp only; omega
    · -- rids
      show ((b.sheets ++ [_]).map (fun s : SheetEnt => s.rid)).Nodup
      rw [List.map_append]
      exact nodup_append_singleton h.rids hridfresh
    · -- sheetRel
      intro s hs
      rcases List.mem_append.mp hs with hs | hs
      · obtain ⟨r, hr, h1, h2, h3⟩ := h.sheetRel s hs
        exact ⟨r, List.mem_append_left _ hr, h1, h2, h3⟩
      · simp only [List.mem_singleton] at hs; subst hs
        exact ⟨_, List.mem_append_right _ (List.mem_singleton.mpr rfl), rfl, rfl, rfl⟩
    · -- relSheet
      intro r hr hty
      rcases List.mem_append.mp hr with hr | hr
      · obtain ⟨s, hs, hse⟩ := h.relSheet r hr hty
        exact ⟨s, List.mem_append_left _ hs, hse⟩
      · simp only [List.mem_singleton] at hr; subst hr
        exact ⟨_, List.mem_append_right _ (List.mem_singleton.mpr rfl), rfl⟩
    · -- parts
      intro p
      show p ∈ insertSet b.wsParts (worksheetPath (sheetPartAbs N)) ↔ _
      rw [mem_insertSet, h.parts p]
      constructor
      · rintro (⟨s, hs, hp⟩ | hp)
        · exact ⟨s, List.mem_append_left _ hs, hp⟩
        · exact ⟨_, List.mem_append_right _ (List.mem_singleton.mpr rfl), hp⟩
      · rintro ⟨s, hs, hp⟩
        rcases List.mem_append.mp hs with hs | hs
        · exact Or.inl ⟨s, hs, hp⟩
        · simp only [List.mem_singleton] at hs; subst hs; exact Or.inr hp
    · -- ovrSheet
      intro o ho hpre
      rcases List.mem_append.mp ho with ho | ho
      · obtain ⟨s, hs, hse⟩ := h.ovrSheet o ho hpre
        exact ⟨s, List.mem_append_left _ hs, hse⟩
      · simp only [List.mem_singleton] at ho; subst ho
        exact ⟨_, List.mem_append_right _ (List.mem_singleton.mpr rfl), rfl⟩
    · -- sheetOvr
      intro s hs
      rcases List.mem_append.mp hs with hs | hs
      · exact List.mem_append_left _ (h.sheetOvr s hs)
      · simp only [List.mem_singleton] at hs; subst hs
        exact List.mem_append_right _ (List.mem_singleton.mpr rfl)


/-! ### DeleteSheet -/

theorem rangeDelete_unique_spec {α κ : Type} (key : α → κ) (k : κ) (p : α → Bool)
    (hp : ∀ x, p x = true → key x = k) (l : List α) (hn : (l.map key).Nodup) :
    ∃ l', rangeDelete p l = .ok l' ∧ l'.Sublist l ∧ (∀ x ∈ l', p x = false) ∧
      (∀ x ∈ l, p x = false → x ∈ l') := by
  rcases unique_split key k p hp l hn with h | ⟨pre, x, post, hl, hx, hpre, hpost⟩
  · exact ⟨l, rangeDelete_nomatch p l h, List.Sublist.refl _, h, fun x hx _ => hx⟩
  · subst hl
    refine ⟨pre ++ post, rangeDelete_single p pre x post hpre hx hpost,
      List.Sublist.append (List.Sublist.refl _) (List.sublist_cons_self x post), ?_, ?_⟩
    · intro y hy
      rcases List.mem_append.mp hy with h | h
      · exact hpre y h
      · exact hpost y h
    · intro y hy hpy
      rcases List.mem_append.mp hy with h | h
      · exact List.mem_append_left _ h
      · rcases List.mem_cons.mp h with h' | h'
        · subst h'; rw [hx] at hpy; cases hpy
        · exact List.mem_append_right _ h'

theorem nodup_map_split {α κ : Type} (f : α → κ) (pre : List α) (x : α) (post : List α)
    (h : ((pre ++ x :: post).map f).Nodup) : ∀ y ∈ pre ++ post, f y ≠ f x := by
  rw [List.map_append, List.map_cons, List.nodup_append] at h
  obtain ⟨_, h2, h3⟩ := h
  rw [List.nodup_cons] at h2
  intro y hy
  rcases List.mem_append.mp hy with hy | hy
  · exact h3 (f y) (List.mem_map_of_mem hy) (f x) (by simp)
  · intro he; exact h2.1 (by rw [← he]; exact List.mem_map_of_mem hy)

theorem nodup_key_eq {α κ : Type} (f : α → κ) (l : List α) (h : (l.map f).Nodup) (a b : α)
    (ha : a ∈ l) (hb : b ∈ l) (hab : f a = f b) : a = b := by
  induction l with
  | nil => cases ha
  | cons x xs ih =>
    rw [List.map_cons, List.nodup_cons] at h
    rcases List.mem_cons.mp ha with ha1 | ha1
    · rcases List.mem_cons.mp hb with hb1 | hb1
      · rw [ha1, hb1]
      · exact absurd (by rw [← ha1, hab]; exact List.mem_map_of_mem hb1) h.1
    · rcases List.mem_cons.mp hb with hb1 | hb1
      · exact absurd (by rw [← hb1, ← hab]; exact List.mem_map_of_mem ha1) h.1
      · exact ih h.2 ha1 hb1

theorem deleteRelFirst_split (pre : List Rel) (x : Rel) (post : List Rel) (rid : Str)
    (hpre : ∀ r ∈ pre, (r.id == rid) = false) (hx : (x.id == rid) = true) :
    deleteRelFirst (pre ++ x :: post) rid = (pre ++ post, x.target) := by
  induction pre with
  | nil => simp [deleteRelFirst, hx]
  | cons a as ih =>
    have ha := hpre a (by simp)
    simp only [List.cons_append, deleteRelFirst, ha, Bool.false_eq_true, if_false]
    rw [ih (fun r hr => hpre r (by simp [hr]))]

theorem foldl_last_match (pre : List Rel) (x : Rel) (post : List Rel) (rid : Str) (acc : Str)
    (hx : (x.id == rid) = true) (hpost : ∀ r ∈ post, (r.id == rid) = false) :
    (pre ++ x :: post).foldl (fun acc r => if r.id == rid then worksheetPath r.target else acc) acc
      = worksheetPath x.target := by
  rw [List.foldl_append, List.foldl_cons]
  simp only [hx, if_true]
  induction post with
  | nil => rfl
  | cons a as ih =>
    have ha := hpost a (by simp)
    simp only [List.foldl_cons, ha, Bool.false_eq_true, if_false]
    exact ih (fun r hr => hpost r (by simp [hr]))

theorem part_of_target (target : Str) :
    (if (sl "/").isPrefixOf target then target else sl "/xl/" ++ target) = '/' :: worksheetPath target := by
  have h1 : sl "/" = ['/'] := by decide +kernel
  have h2 : sl "/xl/" = '/' :: sl "xl/" := by decide +kernel
  rw [h1, h2]
  cases target with
  | nil => simp [worksheetPath, List.isPrefixOf]
  | cons c t =>
    by_cases hc : c = '/'
    · subst hc; simp [worksheetPath, List.isPrefixOf]
    · have : (['/'] : List Char).isPrefixOf (c :: t) = false := by
        simp [List.isPrefixOf, Ne.symm hc]
      simp only [this, Bool.false_eq_true, if_false, List.cons_append]
      unfold worksheetPath
      split
      · rename_i h; cases h; exact absurd rfl hc
      · rfl

theorem dsStale_nomatch (name : Str) (b : Book) (done stale : List SheetEnt)
    (h : ∀ s ∈ stale, eqFold s.name name = false) : dsStale name b done stale = .ok { b with sheets := done } := by
  induction stale with
  | nil => rfl
  | cons s ss ih =>
    simp only [dsStale, h s (by simp), Bool.false_eq_true, if_false]
    exact ih (fun x hx => h x (by simp [hx]))

theorem dsLive_skip (name : Str) (b : Book) (done : List SheetEnt) (v : SheetEnt) (rest stale : List SheetEnt)
    (hv : eqFold v.name name = false) :
    dsLive name b done (v :: rest) stale = dsLive name b (done ++ [v]) rest stale := by
  cases rest with
  | nil => simp [dsLive, hv]
  | cons w r => simp [dsLive, hv]

theorem dsLive_nomatch (name : Str) (b : Book) (done live stale : List SheetEnt)
    (hl : ∀ s ∈ live, eqFold s.name name = false) (hs : ∀ s ∈ stale, eqFold s.name name = false) :
    dsLive name b done live stale = .ok { b with sheets := done ++ live } := by
  induction live generalizing done with
  | nil => simp [dsLive, dsStale_nomatch name b done stale hs]
  | cons v rest ih =>
    rw [dsLive_skip name b done v rest stale (hl v (by simp)), ih (done ++ [v]) (fun x hx => hl x (by simp [hx]))]
    simp

theorem dsLive_single (name : Str) (b : Book) (done pre : List SheetEnt) (x : SheetEnt) (post stale : List SheetEnt)
    (hpre : ∀ s ∈ pre, eqFold s.name name = false) (hx : eqFold x.name name = true)
    (hpost : ∀ s ∈ post, eqFold s.name name = false) (hs : ∀ s ∈ stale, eqFold s.name name = false) :
    dsLive name b done (pre ++ x :: post) stale =
      (deleteSheetBody b x).bind fun b' => .ok { b' with sheets := done ++ pre ++ post } := by
  induction pre generalizing done with
  | nil =>
    cases post with
    | nil =>
      simp only [List.nil_append, dsLive, hx, if_true, List.append_nil]
      cases deleteSheetBody b x with
      | panic => rfl
      | ok b' => simp only [Out.bind]; exact dsStale_nomatch name b' done stale hs
    | cons w r =>
      simp only [List.nil_append, dsLive, hx, if_true, List.append_nil]
      cases deleteSheetBody b x with
      | panic => rfl
      | ok b' =>
        simp only [Out.bind]
        rw [dsLive_nomatch name b' (done ++ [w]) r _ (fun y hy => hpost y (by simp [hy]))]
        · simp
        · intro y hy
          rcases List.mem_cons.mp hy with h | h
          · rw [h]; exact hpost _ (getLastD_mem w r)
          · exact hs y h
  | cons y ys ih =>
    rw [List.cons_append, dsLive_skip name b done y _ stale (hpre y (by simp)),
      ih (done ++ [y]) (fun z hz => hpre z (by simp [hz]))]
    simp


theorem mem_of_mem_split {α : Type} {pre post : List α} {x y : α} (h : y ∈ pre ++ x :: post) (hne : y ≠ x) :
    y ∈ pre ++ post := by
  rcases List.mem_append.mp h with h | h
  · exact List.mem_append_left _ h
  · rcases List.mem_cons.mp h with h | h
    · exact absurd h hne
    · exact List.mem_append_right _ h

theorem mem_split_of_mem {α : Type} {pre post : List α} {x y : α} (h : y ∈ pre ++ post) : y ∈ pre ++ x :: post := by
  rcases List.mem_append.mp h with h | h
  · exact List.mem_append_left _ h
  · exact List.mem_append_right _ (List.mem_cons_of_mem _ h)

/-- DeleteSheet keeps the correspondence and does not panic -/
theorem deleteSheet_ok (b : Book) (name : Str) (h : BookOk b) :
    ∃ b', deleteSheet b name = .ok b' ∧ BookOk b' ∧ b'.sheets.Sublist b.sheets ∧ b'.wbRels.Sublist b.wbRels := by
  unfold deleteSheet
  split
  · exact ⟨b, rfl, h, List.Sublist.refl _, List.Sublist.refl _⟩
  split
  · exact ⟨b, rfl, h, List.Sublist.refl _, List.Sublist.refl _⟩
  -- exactly one sheet carries the name
  rcases unique_split (fun s : SheetEnt => lower s.name) (lower name) (fun s => eqFold s.name name)
      (fun x hx => by unfold eqFold at hx; exact eq_of_beq hx) b.sheets h.names with hnone | ⟨pre, v, post, hl, hv, hpre, hpost⟩
  · rw [dsLive_nomatch name b [] b.sheets [] hnone (by simp)]
    exact ⟨_, rfl, by simpa using h, by simp, List.Sublist.refl _⟩
  have hvmem : v ∈ b.sheets := by rw [hl]; simp
  rw [hl, dsLive_single name b [] pre v post [] hpre hv hpost (by simp)]
  -- the workbook relationship of the sheet
  obtain ⟨r0, hr0, hr0id, hr0ty, hr0path⟩ := h.sheetRel v hvmem
  rcases unique_split (fun r : Rel => r.id) v.rid (fun r => r.id == v.rid) (fun x hx => eq_of_beq hx)
      b.wbRels h.rels with hn | ⟨rpre, rx, rpost, hrl, hrx, hrpre, hrpost⟩
  · have := hn r0 hr0; simp [hr0id] at this
  have hrx0 : rx = r0 := by
    apply nodup_key_eq (fun r : Rel => r.id) b.wbRels h.rels rx r0 (by rw [hrl]; simp) hr0
    show rx.id = r0.id
    rw [eq_of_beq hrx, hr0id]
  subst hrx0
  -- the Override of the sheet part
  obtain ⟨ovs, hdel, hsub, hgone, hkeep⟩ := rangeDelete_unique_spec (fun o : Str × Str => o.1)
    (sheetPartAbs v.sheetId) (fun o => o.1 == sheetPartAbs v.sheetId && o.2 == ctWorksheet)
    (fun x hx => by simp only [Bool.and_eq_true] at hx; exact eq_of_beq hx.1) b.ct.overrides h.ct
  have hpart : (if (sl "/").isPrefixOf rx.target then rx.target else sl "/xl/" ++ rx.target) = sheetPartAbs v.sheetId := by
    rw [part_of_target, hr0path, sheetPartAbs_slash]
  have hbody : deleteSheetBody b v = .ok (⟨⟨b.ct.defaults, ovs⟩, rpre ++ rpost, b.sheets,
      b.wsParts.filter (fun p => p != sheetPath v.sheetId), b.sheetCount - 1⟩ : Book) := by
    unfold deleteSheetBody
    simp only [hrl, deleteRelFirst_split rpre rx rpost v.rid hrpre hrx,
      foldl_last_match rpre rx rpost v.rid [] hrx hrpost, removeContentTypesPart, hpart, hdel, Out.bind, hr0path]
  rw [hbody]
  simp only [Out.bind, List.nil_append]
  have hsheetsub : (pre ++ post).Sublist b.sheets := by
    rw [hl]; exact List.Sublist.append (List.Sublist.refl _) (List.sublist_cons_self v post)
  have hrelsub : (rpre ++ rpost).Sublist b.wbRels := by
    rw [hrl]; exact List.Sublist.append (List.Sublist.refl _) (List.sublist_cons_self rx rpost)
  refine ⟨_, rfl, ?_, by rw [← hl]; exact hsheetsub, hrelsub⟩
  have hridne : ∀ s ∈ pre ++ post, s.rid ≠ v.rid := nodup_map_split (fun s : SheetEnt => s.rid) pre v post (by rw [← hl]; exact h.rids)
  have hidne : ∀ s ∈ pre ++ post, s.sheetId ≠ v.sheetId := nodup_map_split (fun s : SheetEnt => s.sheetId) pre v post (by rw [← hl]; exact h.ids)
  have hrelidne : ∀ r ∈ rpre ++ rpost, r.id ≠ rx.id := nodup_map_split (fun r : Rel => r.id) rpre rx rpost (by rw [← hrl]; exact h.rels)
  have hmemS : ∀ s ∈ pre ++ post, s ∈ b.sheets := fun s hs => hsheetsub.subset hs
  have hvr := h.idrange v hvmem
  refine
    { rels := ?_, ct := ?_, names := ?_, ids := ?_, idrange := ?_, rids := ?_, sheetRel := ?_,
      relSheet := ?_, parts := ?_, ovrSheet := ?_, sheetOvr := ?_ }
  · exact nodup_map_sublist _ hrelsub h.rels
  · exact nodup_map_sublist _ hsub h.ct
  · exact nodup_map_sublist _ hsheetsub h.names
  · exact nodup_map_sublist _ hsheetsub h.ids
  · intro s hs; exact h.idrange s (hmemS s hs)
  · exact nodup_map_sublist _ hsheetsub h.rids
  · -- sheetRel
    intro s hs
    obtain ⟨r, hr, h1, h2, h3⟩ := h.sheetRel s (hmemS s hs)
    refine ⟨r, ?_, h1, h2, h3⟩
    apply mem_of_mem_split (x := rx) (by rw [← hrl]; exact hr)
    intro he; apply hridne s hs; rw [← h1, he, hr0id]
  · -- relSheet
    intro r hr hty
    obtain ⟨s, hs, hse⟩ := h.relSheet r (hrelsub.subset hr) hty
    refine ⟨s, ?_, hse⟩
    apply mem_of_mem_split (x := v) (by rw [← hl]; exact hs)
    intro he; apply hrelidne r hr; rw [← hse, he, hr0id]
  · -- parts
    intro p
    show p ∈ b.wsParts.filter (fun p => p != sheetPath v.sheetId) ↔ _
    rw [List.mem_filter, h.parts p]
    constructor
    · rintro ⟨⟨s, hs, hp⟩, hne⟩
      refine ⟨s, ?_, hp⟩
      apply mem_of_mem_split (x := v) (by rw [← hl]; exact hs)
      intro he; rw [hp, he] at hne; simp at hne
    · rintro ⟨s, hs, hp⟩
      refine ⟨⟨s, hmemS s hs, hp⟩, ?_⟩
      have hsr := h.idrange s (hmemS s hs)
      have : sheetPath s.sheetId ≠ sheetPath v.sheetId := fun he =>
        hidne s hs (sheetPath_inj hsr.1 (by omega) hvr.1 (by omega) he)
      rw [hp]; simpa using this
  · -- ovrSheet
    intro o ho hpre'
    obtain ⟨s, hs, hse⟩ := h.ovrSheet o (hsub.subset ho) hpre'
    refine ⟨s, ?_, hse⟩
    apply mem_of_mem_split (x := v) (by rw [← hl]; exact hs)
    intro he
    have hov := h.sheetOvr v hvmem
    have : o = (sheetPartAbs v.sheetId, ctWorksheet) :=
      nodup_key_eq (fun o : Str × Str => o.1) b.ct.overrides h.ct o _ (hsub.subset ho) hov (by simp only; rw [hse, he])
    have hg := hgone o ho
    rw [this] at hg; simp at hg
  · -- sheetOvr
    intro s hs
    apply hkeep _ (h.sheetOvr s (hmemS s hs))
    have hsr := h.idrange s (hmemS s hs)
    have : sheetPartAbs s.sheetId ≠ sheetPartAbs v.sheetId := fun he =>
      hidne s hs (sheetPartAbs_inj hsr.1 (by omega) hvr.1 (by omega) he)
    simp [this]


theorem maxSheetId_mono (l : List SheetEnt) {m m' : Int} (h : m ≤ m') : maxSheetId l m ≤ maxSheetId l m' := by
  induction l generalizing m m' with
  | nil => simpa [maxSheetId] using h
  | cons r rs ih =>
    simp only [maxSheetId]
    apply ih
    by_cases h1 : r.sheetId > m <;> by_cases h2 : r.sheetId > m' <;> simp only [h1, h2, if_true, if_false] <;> omega

theorem maxSheetId_sublist {l l' : List SheetEnt} (h : l'.Sublist l) (m : Int) : maxSheetId l' m ≤ maxSheetId l m := by
  induction h generalizing m with
  | slnil => simp [maxSheetId]
  | cons a _ ih =>
    simp only [maxSheetId]
    exact Int.le_trans (ih m) (maxSheetId_mono _ (by split <;> omega))
  | cons_cons a _ ih => simp only [maxSheetId]; exact ih _

theorem maxRelNum_sublist' {l l' : List Rel} (h : l'.Sublist l) (m : Int) : maxRelNum l' m ≤ maxRelNum l m := by
  induction h generalizing m with
  | slnil => simp [maxRelNum]
  | cons a _ ih =>
    simp only [maxRelNum]
    exact Int.le_trans (ih m) (maxRelNum_mono _ (by split <;> omega))
  | cons_cons a _ ih => simp only [maxRelNum]; exact ih _

theorem maxSheetId_append (l l' : List SheetEnt) (m : Int) : maxSheetId (l ++ l') m = maxSheetId l' (maxSheetId l m) := by
  induction l generalizing m with
  | nil => rfl
  | cons r rs ih => simp only [List.cons_append, maxSheetId]; exact ih _

/-- NewSheet raises the largest relationship number and the largest sheet id by at most one -/
theorem newSheet_bounds (b : Book) (name : Str) (h : BookOk b)
    (hno : maxRelNum b.wbRels 0 + 1 < 9223372036854775808)
    (hid : maxSheetId b.sheets 0 + 1 < 9223372036854775807) :
    maxRelNum (newSheet b name).wbRels 0 ≤ maxRelNum b.wbRels 0 + 1 ∧
    maxSheetId (newSheet b name).sheets 0 ≤ maxSheetId b.sheets 0 + 1 := by
  have hN0 := le_maxSheetId b.sheets 0
  have hR0 := le_maxRelNum b.wbRels 0
  unfold newSheet
  split
  · constructor <;> omega
  · have hw : wrap64 (maxSheetId b.sheets 0 + 1) = maxSheetId b.sheets 0 + 1 :=
      wrap64_small (by omega) (by omega)
    have hu : uniqPart relWorksheet = none := by decide +kernel
    have heq : ∀ k, addRels b.wbRels relWorksheet (sheetPartAbs k) [] = _ := fun k =>
      addRels_eq b.wbRels relWorksheet (sheetPartAbs k) [] hu hno
    simp only [hw, freshSheetId_native b h hid, heq]
    constructor
    · exact maxRelNum_append_new b.wbRels _ _ _ hno
    · rw [maxSheetId_append]
      simp only [maxSheetId]
      split <;> omega


/-! ### content-type operations at the sheet level -/

theorem take_eq_of_prefix {p a x : Str} (n : Nat) (h : p.isPrefixOf (a ++ x) = true) (hp : n ≤ p.length) (ha : n ≤ a.length) :
    a.take n = p.take n := by
  rw [List.isPrefixOf_iff_prefix] at h
  obtain ⟨t, ht⟩ := h
  have h1 : (p ++ t).take n = p.take n := List.take_append_of_le_length hp
  have h2 : (a ++ x).take n = a.take n := List.take_append_of_le_length ha
  rw [← h1, ht, h2]

/-- no kind of addContentTypePart produces a part name below the worksheet prefix -/
theorem kindPart_not_ws (index : Int) (kind : Str) : wsPartPrefix.isPrefixOf (kindPart index kind).1 = false := by
  have hnil : wsPartPrefix.isPrefixOf ([] : Str) = false := by decide +kernel
  have hlen : 5 ≤ wsPartPrefix.length := by decide +kernel
  have hall : ∀ k ∈ Facts.C05.ctPartKinds, 5 ≤ (sl k.2.1).length ∧ (sl k.2.1).take 5 ≠ wsPartPrefix.take 5 := by decide +kernel
  unfold kindPart kindInfo
  cases hf : Facts.C05.ctPartKinds.find? (fun k => sl k.1 == kind) with
  | none => simpa using hnil
  | some k =>
    obtain ⟨k1, pre, suf, ctype, indexed⟩ := k
    have hk := hall _ (List.mem_of_find?_eq_some hf)
    simp only
    cases hb : wsPartPrefix.isPrefixOf (sl pre ++ (if indexed = true then itoaInt index else []) ++ sl suf) with
    | false => rfl
    | true =>
      exfalso
      rw [List.append_assoc] at hb
      exact hk.2 (take_eq_of_prefix 5 hb hlen hk.1)

theorem addContentTypePart_overrides (ct : CT) (index : Int) (kind : Str) :
    (addContentTypePart ct index kind).overrides = ct.overrides ∨
    (addContentTypePart ct index kind).overrides = ct.overrides ++ [kindPart index kind] := by
  unfold addContentTypePart
  dsimp only
  split
  · left; rfl
  · right; rfl

/-- addContentTypePart on the content types of a `BookOk` workbook keeps it `BookOk` -/
theorem addCT_ok (b : Book) (index : Int) (kind : Str) (h : BookOk b) (hct : ctOk (addContentTypePart b.ct index kind)) :
    BookOk { b with ct := addContentTypePart b.ct index kind } := by
  refine
    { rels := h.rels, ct := hct, names := h.names, ids := h.ids, idrange := h.idrange, rids := h.rids,
      sheetRel := h.sheetRel, relSheet := h.relSheet, parts := h.parts, ovrSheet := ?_, sheetOvr := ?_ }
  · intro o ho hpre
    show ∃ s ∈ b.sheets, _
    have ho' : o ∈ (addContentTypePart b.ct index kind).overrides := ho
    rcases addContentTypePart_overrides b.ct index kind with e | e
    · rw [e] at ho'; exact h.ovrSheet o ho' hpre
    · rw [e] at ho'
      rcases List.mem_append.mp ho' with h1 | h1
      · exact h.ovrSheet o h1 hpre
      · simp only [List.mem_singleton] at h1
        rw [h1, kindPart_not_ws] at hpre; cases hpre
  · intro s hs
    show _ ∈ (addContentTypePart b.ct index kind).overrides
    rcases addContentTypePart_overrides b.ct index kind with e | e
    · rw [e]; exact h.sheetOvr s hs
    · rw [e]; exact List.mem_append_left _ (h.sheetOvr s hs)

/-- removeContentTypesPart for a content type other than the worksheet one never panics on a
`BookOk` workbook and keeps it `BookOk` -/
theorem removeCT_ok (b : Book) (ctype part : Str) (h : BookOk b) (hne : ctype ≠ ctWorksheet) :
    ∃ ct', removeContentTypesPart b.ct ctype part = .ok ct' ∧ BookOk { b with ct := ct' } := by
  unfold removeContentTypesPart
  dsimp only
  generalize (if (sl "/").isPrefixOf part then part else sl "/xl/" ++ part) = k
  obtain ⟨ovs, hdel, hsub, _, hkeep⟩ := rangeDelete_unique_spec (fun o : Str × Str => o.1) k
    (fun o => o.1 == k && o.2 == ctype)
    (fun x hx => by simp only [Bool.and_eq_true] at hx; exact eq_of_beq hx.1) b.ct.overrides h.ct
  rw [hdel]
  refine ⟨_, rfl, ?_⟩
  refine
    { rels := h.rels, ct := nodup_map_sublist _ hsub h.ct, names := h.names, ids := h.ids, idrange := h.idrange,
      rids := h.rids, sheetRel := h.sheetRel, relSheet := h.relSheet, parts := h.parts, ovrSheet := ?_, sheetOvr := ?_ }
  · intro o ho hpre; exact h.ovrSheet o (hsub.subset ho) hpre
  · intro s hs
    apply hkeep _ (h.sheetOvr s hs)
    have : (ctWorksheet == ctype) = false := by
      cases hc : ctWorksheet == ctype with
      | false => rfl
      | true => exact absurd (eq_of_beq hc).symm hne
    simp [this]


/-! ### NewSheet on any numbering: the id it picks has no part yet -/

theorem contains_erase_of_ne (parts : List Str) (p x : Str) (h : x ≠ p) :
    (parts.erase p).contains x = parts.contains x := by
  rw [Bool.eq_iff_iff]
  simp only [List.contains_iff_mem]
  exact List.mem_erase_of_ne h

theorem freshSheetId_range (parts : List Str) (fuel : Nat) (k : Int) (hk : 0 ≤ k)
    (hb : k + fuel < 9223372036854775808) :
    k ≤ freshSheetId parts fuel k ∧ freshSheetId parts fuel k ≤ k + fuel := by
  induction fuel generalizing k with
  | zero => simp [freshSheetId]
  | succ n ih =>
    unfold freshSheetId
    split
    · have hw : wrap64 (k + 1) = k + 1 := wrap64_small (by omega) (by omega)
      rw [hw]
      have := ih (k + 1) (by omega) (by omega)
      omega
    · omega

theorem freshSheetId_erase (parts : List Str) (p : Str) (fuel : Nat) (k : Int) (hk : 0 ≤ k)
    (hb : k + fuel < 9223372036854775808)
    (hne : ∀ j : Int, k ≤ j → j ≤ k + fuel → sheetPath j ≠ p) :
    freshSheetId (parts.erase p) fuel k = freshSheetId parts fuel k := by
  induction fuel generalizing k with
  | zero => rfl
  | succ n ih =>
    have hc : (parts.erase p).contains (worksheetPath (sheetPartAbs k)) = parts.contains (worksheetPath (sheetPartAbs k)) :=
      contains_erase_of_ne parts p _ (hne k (by omega) (by omega))
    have hw : wrap64 (k + 1) = k + 1 := wrap64_small (by omega) (by omega)
    unfold freshSheetId
    rw [hc, hw]
    split
    · exact ih (k + 1) (by omega) (by omega) (fun j h1 h2 => hne j (by omega) (by omega))
    · rfl

/-- the id NewSheet picks names a worksheet part that does not exist yet, whatever the numbering
of the existing parts (pigeonhole over `parts.length + 1` consecutive candidates) -/
theorem freshSheetId_absent (parts : List Str) (fuel : Nat) (k : Int) (hk : 1 ≤ k)
    (hb : k + fuel < 9223372036854775808) (hlen : parts.length < fuel) :
    sheetPath (freshSheetId parts fuel k) ∉ parts := by
  induction fuel generalizing parts k with
  | zero => omega
  | succ n ih =>
    unfold freshSheetId
    split
    · rename_i hc
      have hmem : sheetPath k ∈ parts := List.contains_iff_mem.mp hc
      have hw : wrap64 (k + 1) = k + 1 := wrap64_small (by omega) (by omega)
      rw [hw]
      have hne : ∀ j : Int, k + 1 ≤ j → j ≤ k + 1 + n → sheetPath j ≠ sheetPath k := by
        intro j h1 h2 he
        have := sheetPath_inj (a := j) (b := k) (by omega) (by omega) hk (by omega) he
        omega
      have herase := freshSheetId_erase parts (sheetPath k) n (k + 1) (by omega) (by omega) hne
      have hlen' : (parts.erase (sheetPath k)).length < n := by
        have hpos := List.length_pos_of_mem hmem
        rw [List.length_erase_of_mem hmem]; omega
      have hih := ih (parts.erase (sheetPath k)) (k + 1) (by omega) (by omega) hlen'
      rw [herase] at hih
      have hr := freshSheetId_range parts n (k + 1) (by omega) (by omega)
      intro hin
      apply hih
      exact (List.mem_erase_of_ne (hne _ hr.1 hr.2)).mpr hin
    · rename_i hc
      intro hin
      exact hc (List.contains_iff_mem.mpr hin)

end XlModel.Lemmas.Pkg
