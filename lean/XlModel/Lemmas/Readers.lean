/-
Helper lemmas for C04: a generic "sparse fill" (what both the streaming row
reader and GetRows do: append values at ascending 1-based positions, padding
the gaps) and its connection to `cellStep` / `rowStep`.
-/
import XlModel.Readers

namespace XlModel.Readers

section Fill
variable {α : Type}

def place (blank : α) (acc : List α) (p : Nat) (v : α) : List α :=
  acc ++ List.replicate (p - acc.length - 1) blank ++ [v]

/-- append the `some` payloads at their positions, padding with `blank` -/
def fill (blank : α) : List α → List (Nat × Option α) → List α
  | acc, [] => acc
  | acc, (_, none) :: xs => fill blank acc xs
  | acc, (p, some v) :: xs => fill blank (place blank acc p v) xs

def Asc : Nat → List (Nat × Option α) → Prop
  | _, [] => True
  | lo, (p, _) :: xs => lo < p ∧ Asc p xs

def look : List (Nat × Option α) → Nat → Option α
  | [], _ => none
  | (p, x) :: xs, k => if p = k then x else look xs k

def lastSome : Nat → List (Nat × Option α) → Nat
  | d, [] => d
  | d, (_, none) :: xs => lastSome d xs
  | _, (p, some _) :: xs => lastSome p xs

theorem place_length (blank : α) (acc : List α) (p : Nat) (v : α) (h : acc.length < p) :
    (place blank acc p v).length = p := by
  simp [place]; omega

theorem place_get_lt (blank : α) (acc : List α) (p : Nat) (v : α) (j : Nat) (h : j < acc.length) :
    (place blank acc p v)[j]? = acc[j]? := by
  unfold place
  rw [List.append_assoc, List.getElem?_append_left h]

theorem place_get_mid (blank : α) (acc : List α) (p : Nat) (v : α) (j : Nat)
    (h1 : acc.length ≤ j) (h2 : j + 1 < p) : (place blank acc p v)[j]? = some blank := by
  unfold place
  rw [List.append_assoc, List.getElem?_append_right h1]
  have : j - acc.length < p - acc.length - 1 := by omega
  rw [List.getElem?_append_left (by simpa using this)]
  simp [List.getElem?_replicate, this]

theorem place_get_last (blank : α) (acc : List α) (p : Nat) (v : α) (h : acc.length < p) :
    (place blank acc p v)[p - 1]? = some v := by
  unfold place
  have hl : (acc ++ List.replicate (p - acc.length - 1) blank).length = p - 1 := by
    simp; omega
  rw [List.getElem?_append_right (by omega)]
  simp [hl]

theorem look_none_of_asc : ∀ (xs : List (Nat × Option α)) (lo k : Nat),
    Asc lo xs → k ≤ lo → look xs k = none
  | [], _, _, _, _ => rfl
  | (p, x) :: xs, lo, k, h, hk => by
    have hp : ¬ p = k := by have := h.1; omega
    simp only [look, hp, if_false]
    exact look_none_of_asc xs p k h.2 (by have := h.1; omega)

theorem fill_get (blank : α) : ∀ (xs : List (Nat × Option α)) (acc : List α) (lo : Nat),
    Asc lo xs → acc.length ≤ lo → ∀ j,
    ((fill blank acc xs)[j]?).getD blank =
      if j < acc.length then (acc[j]?).getD blank else (look xs (j + 1)).getD blank
  | [], acc, _, _, _, j => by
    by_cases hj : j < acc.length
    · simp [fill, hj]
    · have : acc[j]? = none := List.getElem?_eq_none (by omega)
      simp [fill, hj, this, look]
  | (p, none) :: xs, acc, lo, h, hl, j => by
    have ih := fill_get blank xs acc p h.2 (by have := h.1; omega) j
    simp only [fill]
    rw [ih]
    by_cases hj : j < acc.length
    · simp [hj]
    · simp only [hj, if_false, look]
      by_cases hp : p = j + 1
      · simp only [hp, if_true]
        rw [look_none_of_asc xs p (j + 1) h.2 (by omega)]
      · simp [hp]
  | (p, some v) :: xs, acc, lo, h, hl, j => by
    have hlt : acc.length < p := by have := h.1; omega
    have hlen := place_length blank acc p v hlt
    have ih := fill_get blank xs (place blank acc p v) p h.2 (by omega) j
    simp only [fill]
    rw [ih, hlen]
    by_cases hj : j < acc.length
    · have : j < p := by omega
      simp [hj, this, place_get_lt blank acc p v j hj]
    · simp only [hj, if_false, look]
      by_cases hjp : j < p
      · simp only [hjp, if_true]
        by_cases hlast : j + 1 = p
        · have : j = p - 1 := by omega
          subst this
          rw [place_get_last blank acc p v hlt]
          have : p = p - 1 + 1 := by omega
          simp [← this]
        · rw [place_get_mid blank acc p v j (by omega) (by omega)]
          have hp : ¬ p = j + 1 := by omega
          simp only [hp, if_false]
          rw [look_none_of_asc xs p (j + 1) h.2 (by omega)]
          rfl
      · have hp : ¬ p = j + 1 := by omega
        simp [hjp, hp]

theorem fill_length (blank : α) : ∀ (xs : List (Nat × Option α)) (acc : List α) (lo : Nat),
    Asc lo xs → acc.length ≤ lo → (fill blank acc xs).length = lastSome acc.length xs
  | [], _, _, _, _ => rfl
  | (p, none) :: xs, acc, lo, h, hl => by
    simpa [fill, lastSome] using fill_length blank xs acc p h.2 (by have := h.1; omega)
  | (p, some v) :: xs, acc, lo, h, hl => by
    have hlt : acc.length < p := by have := h.1; omega
    have := fill_length blank xs (place blank acc p v) p h.2 (by rw [place_length blank acc p v hlt]; omega)
    simpa [fill, lastSome, place_length blank acc p v hlt] using this

end Fill

/-! ## the streaming row reader is a fill -/

theorem appendSpaceStart_eq : Facts.C04.appendSpaceStart = 1 := by decide

def cellItems : Nat → List Cell → List (Nat × Option Val)
  | _, [] => []
  | cc, c :: cs => (effCol cc c, if c.live then some c.val else none) :: cellItems (effCol cc c) cs

theorem foldl_cellStep_eq_fill : ∀ (cs : List Cell) (it : Iter),
    (cs.foldl cellStep it).cells = fill [] it.cells (cellItems it.cellCol cs)
  | [], _ => rfl
  | c :: cs, it => by
    simp only [List.foldl_cons, cellItems]
    rw [foldl_cellStep_eq_fill cs (cellStep it c)]
    unfold cellStep
    by_cases hl : c.live = true
    · simp [hl, fill, place, appendSpace, appendSpaceStart_eq]
    · simp [hl, fill]

theorem rowCells_eq_fill (cs : List Cell) : rowCells cs = fill [] [] (cellItems 0 cs) :=
  foldl_cellStep_eq_fill cs ⟨0, []⟩

theorem asc_cellItems : ∀ (cs : List Cell) (cc : Nat), ColsAsc cc cs → Asc cc (cellItems cc cs)
  | [], _, _ => trivial
  | c :: cs, cc, h => ⟨h.1, asc_cellItems cs _ h.2⟩

theorem live_false_val {c : Cell} (h : ¬ c.live = true) : c.val = [] := by
  unfold Cell.live at h
  by_cases hv : c.val = []
  · exact hv
  · simp [hv] at h

theorem look_cellItems : ∀ (cs : List Cell) (cc k : Nat),
    (look (cellItems cc cs) k).getD [] = valAt cc cs k
  | [], _, _ => rfl
  | c :: cs, cc, k => by
    simp only [cellItems, look, valAt]
    by_cases he : effCol cc c = k
    · simp only [he, if_true]
      by_cases hl : c.live = true
      · simp [hl]
      · simp [hl, live_false_val hl]
    · simp only [he, if_false]
      exact look_cellItems cs _ k

/-- the cells of a row, indexed from 0: exactly the values at the effective columns -/
theorem rowCells_get (cs : List Cell) (h : ColsAsc 0 cs) (j : Nat) :
    ((rowCells cs)[j]?).getD [] = valAt 0 cs (j + 1) := by
  rw [rowCells_eq_fill, fill_get [] (cellItems 0 cs) [] 0 (asc_cellItems cs 0 h) (Nat.le_refl _) j]
  simp [look_cellItems]

/-! ## GetRows is a fill of the rows -/

def rowItems : Nat → Sheet → List (Nat × Option (List Val))
  | _, [] => []
  | cur, r :: rs =>
    (effRow cur r, if (rowCells r.cells).isEmpty then none else some (rowCells r.cells))
      :: rowItems (effRow cur r) rs

/-- every `r` attribute is within `TotalRows` (the guard `Rows.Next`/`Rows.Columns` have) -/
def RowAttrsOK : Sheet → Prop
  | [] => True
  | r :: rs => r.r ≤ Facts.TotalRows ∧ RowAttrsOK rs

theorem foldl_rowStep_eq_fill : ∀ (rs : Sheet) (st : RState), st.seek = st.cur →
    st.stopped = false → RowsAsc st.cur rs → RowAttrsOK rs →
    flush (rs.foldl rowStep st) = fill [] (flush st) (rowItems st.cur rs)
  | [], _, _, _, _, _ => rfl
  | r :: rs, st, hs, hst, h, ha => by
    have hgt : effRow st.cur r > st.seek := by rw [hs]; exact h.1
    have hle : ¬ r.r > Facts.TotalRows := by have := ha.1; omega
    have hstep : rowStep st r =
        { seek := effRow st.cur r, cur := effRow st.cur r,
          it := r.cells.foldl cellStep ⟨0, []⟩, results := flush st } := by
      unfold rowStep; simp [hgt, hst, hle]
    simp only [List.foldl_cons, rowItems]
    rw [hstep, foldl_rowStep_eq_fill rs _ rfl rfl h.2.2 ha.2]
    by_cases he : (rowCells r.cells).isEmpty = true
    · have he' : (List.foldl cellStep ⟨0, []⟩ r.cells).cells.isEmpty = true := he
      simp [he, fill, flush, he']
    · have he' : ¬ (List.foldl cellStep ⟨0, []⟩ r.cells).cells.isEmpty = true := he
      simp only [he, if_false, Bool.false_eq_true, fill]
      congr 1
      simp only [flush, he', if_false, Bool.false_eq_true, place]
      rfl

theorem getRows_eq_fill (s : Sheet) (h : WF s) (ha : RowAttrsOK s) :
    getRows s = fill [] [] (rowItems 0 s) := by
  have := foldl_rowStep_eq_fill s ⟨0, 0, ⟨0, []⟩, [], false⟩ rfl rfl h ha
  simpa [getRows, flush] using this

theorem asc_rowItems : ∀ (s : Sheet) (cur : Nat), RowsAsc cur s → Asc cur (rowItems cur s)
  | [], _, _ => trivial
  | r :: rs, cur, h => ⟨h.1, asc_rowItems rs _ h.2.2⟩

theorem look_rowItems : ∀ (s : Sheet) (cur k : Nat),
    (look (rowItems cur s) k).getD [] = rowCells (rowAt cur s k)
  | [], _, _ => rfl
  | r :: rs, cur, k => by
    simp only [rowItems, look, rowAt]
    by_cases he : effRow cur r = k
    · simp only [he, if_true]
      by_cases hl : (rowCells r.cells).isEmpty = true
      · simp only [hl, if_true, Option.getD_none]
        exact (List.isEmpty_iff.mp hl).symm
      · simp [hl]
    · simp only [he, if_false]
      exact look_rowItems rs _ k

theorem colsAsc_rowAt : ∀ (s : Sheet) (cur k : Nat), RowsAsc cur s → ColsAsc 0 (rowAt cur s k)
  | [], _, _, _ => trivial
  | r :: rs, cur, k, h => by
    simp only [rowAt]
    by_cases he : effRow cur r = k
    · simp only [he, if_true]; exact h.2.1
    · simp only [he, if_false]; exact colsAsc_rowAt rs _ k h.2.2

/-- row `j+1` of GetRows is the streaming reader's output for the row numbered `j+1` -/
theorem getRows_get (s : Sheet) (h : WF s) (ha : RowAttrsOK s) (j : Nat) :
    ((getRows s)[j]?).getD [] = rowCells (rowAt 0 s (j + 1)) := by
  rw [getRows_eq_fill s h ha, fill_get [] (rowItems 0 s) [] 0 (asc_rowItems s 0 h) (Nat.le_refl _) j]
  simp [look_rowItems]

end XlModel.Readers

namespace XlModel.Readers

/-! ## what is trimmed: lengths -/

theorem lastSome_cellItems : ∀ (cs : List Cell) (cc d : Nat),
    lastSome d (cellItems cc cs) = lastLive cc cs d
  | [], _, _ => rfl
  | c :: cs, cc, d => by
    simp only [cellItems, lastLive]
    by_cases hl : c.live = true
    · simp only [hl, if_true, lastSome]; exact lastSome_cellItems cs _ _
    · simp only [hl, if_false, Bool.false_eq_true, lastSome]; exact lastSome_cellItems cs _ _

theorem rowCells_length (cs : List Cell) (h : ColsAsc 0 cs) :
    (rowCells cs).length = lastLive 0 cs 0 := by
  rw [rowCells_eq_fill, fill_length [] (cellItems 0 cs) [] 0 (asc_cellItems cs 0 h) (Nat.le_refl _)]
  exact lastSome_cellItems cs 0 0

theorem lastSome_rowItems : ∀ (s : Sheet) (cur d : Nat), RowsAsc cur s →
    lastSome d (rowItems cur s) = lastLiveRow cur s d
  | [], _, _, _ => rfl
  | r :: rs, cur, d, h => by
    simp only [rowItems, lastLiveRow]
    have hlen := rowCells_length r.cells h.2.1
    by_cases he : (rowCells r.cells).isEmpty = true
    · have h0 : lastLive 0 r.cells 0 = 0 := by
        rw [← hlen]; simp [List.isEmpty_iff.mp he]
      simp only [he, if_true, lastSome, h0, ne_eq, not_true_eq_false, if_false]
      exact lastSome_rowItems rs _ _ h.2.2
    · have h0 : lastLive 0 r.cells 0 ≠ 0 := by
        rw [← hlen]; intro hz
        exact he (by simp [List.eq_nil_of_length_eq_zero hz])
      simp only [he, Bool.false_eq_true, if_false, lastSome, h0, ne_eq, not_false_eq_true, if_true]
      exact lastSome_rowItems rs _ _ h.2.2

theorem getRows_length (s : Sheet) (h : WF s) (ha : RowAttrsOK s) :
    (getRows s).length = lastLiveRow 0 s 0 := by
  rw [getRows_eq_fill s h ha, fill_length [] (rowItems 0 s) [] 0 (asc_rowItems s 0 h) (Nat.le_refl _)]
  exact lastSome_rowItems s 0 0 h

/-! ## GetCellValue on a sheet that carries every reference -/

theorem effRow_explicit {cur : Nat} {r : Row} (h : r.r ≠ 0) : effRow cur r = r.r := by
  simp [effRow, h]

theorem valAt_explicit : ∀ (cs : List Cell) (cc rn c : Nat), ExplicitCells rn cs →
    valAt cc cs c = match cs.find? (fun x => x.col = c ∧ x.row = rn) with
      | some cell => cell.val | none => []
  | [], _, _, _, _ => rfl
  | x :: cs, cc, rn, c, h => by
    have he : effCol cc x = x.col := by simp [effCol, h.1]
    simp only [valAt, he, List.find?_cons]
    by_cases hc : x.col = c
    · simp [hc, h.2.2.1]
    · simp only [hc, if_false, false_and, decide_false]
      exact valAt_explicit cs _ rn c h.2.2.2

theorem rowsAsc_all_gt : ∀ (s : Sheet) (cur : Nat), RowsAsc cur s → Explicit s →
    ∀ row ∈ s, cur < row.r
  | [], _, _, _, _, hm => by cases hm
  | r :: rs, cur, h, he, row, hm => by
    have h1 : cur < r.r := by have := h.1; rwa [effRow_explicit he.1] at this
    cases hm with
    | head => exact h1
    | tail _ hm' =>
      have := rowsAsc_all_gt rs (effRow cur r) h.2.2 he.2.2.2 row hm'
      rw [effRow_explicit he.1] at this; omega

theorem gcvRows_nil_of_gt : ∀ (s : Sheet) (c r : Nat), (∀ row ∈ s, r < row.r) → gcvRows s c r = []
  | [], _, _, _ => rfl
  | x :: xs, c, r, h => by
    have : ¬ x.r = r := by have := h x (List.mem_cons_self ..); omega
    simp only [gcvRows, this, if_false]
    exact gcvRows_nil_of_gt xs c r (fun row hm => h row (List.mem_cons_of_mem _ hm))

theorem rowAt_nil_of_gt : ∀ (s : Sheet) (cur r : Nat), Explicit s → (∀ row ∈ s, r < row.r) →
    rowAt cur s r = []
  | [], _, _, _, _ => rfl
  | x :: xs, cur, r, he, h => by
    have : ¬ effRow cur x = r := by
      rw [effRow_explicit he.1]; have := h x (List.mem_cons_self ..); omega
    simp only [rowAt, this, if_false]
    exact rowAt_nil_of_gt xs _ r he.2.2.2 (fun row hm => h row (List.mem_cons_of_mem _ hm))

theorem gcvRows_eq_value : ∀ (s : Sheet) (cur c r : Nat), RowsAsc cur s → Explicit s →
    gcvRows s c r = valAt 0 (rowAt cur s r) c
  | [], _, _, _, _, _ => rfl
  | x :: xs, cur, c, r, h, he => by
    have hx : effRow cur x = x.r := effRow_explicit he.1
    simp only [gcvRows, rowAt, hx]
    by_cases hr : x.r = r
    · simp only [hr, if_true]
      have hgt : ∀ row ∈ xs, r < row.r := by
        intro row hm
        have := rowsAsc_all_gt xs (effRow cur x) h.2.2 he.2.2.2 row hm
        rw [hx] at this; omega
      rw [valAt_explicit x.cells 0 r c (hr ▸ he.2.2.1)]
      cases x.cells.find? (fun y => y.col = c ∧ y.row = r) with
      | some cell => rfl
      | none => exact gcvRows_nil_of_gt xs c r hgt
    · simp only [hr, if_false]
      have := gcvRows_eq_value xs (effRow cur x) c r h.2.2 he.2.2.2
      rw [hx] at this; exact this

theorem rowAttrsOK_of_explicit : ∀ (s : Sheet), Explicit s → RowAttrsOK s
  | [], _ => trivial
  | _ :: rs, h => ⟨h.2.1, rowAttrsOK_of_explicit rs h.2.2.2⟩

theorem le_lastNum : ∀ (s : Sheet) (cur : Nat), RowsAsc cur s → Explicit s →
    ∀ row ∈ s, row.r ≤ lastNum s
  | [], _, _, _, _, hm => by cases hm
  | [a], _, _, _, row, hm => by
    simp only [List.mem_singleton] at hm; subst hm; simp [lastNum]
  | a :: b :: t, cur, h, he, row, hm => by
    have hl : lastNum (a :: b :: t) = lastNum (b :: t) := by simp [lastNum, List.getLast?_cons_cons]
    rw [hl]
    have ih := le_lastNum (b :: t) (effRow cur a) h.2.2 he.2.2.2
    cases hm with
    | head =>
      have hb := ih b (List.mem_cons_self ..)
      have := rowsAsc_all_gt (b :: t) (effRow cur a) h.2.2 he.2.2.2 b (List.mem_cons_self ..)
      rw [effRow_explicit he.1] at this; omega
    | tail _ hm' => exact ih row hm'

theorem rowAt_nil_of_all_lt : ∀ (s : Sheet) (cur r : Nat), Explicit s → (∀ row ∈ s, row.r < r) →
    rowAt cur s r = []
  | [], _, _, _, _ => rfl
  | x :: xs, cur, r, he, h => by
    have : ¬ effRow cur x = r := by
      rw [effRow_explicit he.1]; have := h x (List.mem_cons_self ..); omega
    simp only [rowAt, this, if_false]
    exact rowAt_nil_of_all_lt xs _ r he.2.2.2 (fun row hm => h row (List.mem_cons_of_mem _ hm))

theorem getCellValue_eq_value (s : Sheet) (c r : Nat) (h : WF s) (he : Explicit s) :
    getCellValue s c r = value s c r := by
  unfold getCellValue value
  show (if r > lastNum s then [] else gcvRows s c r) = valAt 0 (rowAt 0 s r) c
  by_cases hg : r > lastNum s
  · rw [if_pos hg]
    rw [rowAt_nil_of_all_lt s 0 r he (fun row hm => by have := le_lastNum s 0 h he row hm; omega)]
    rfl
  · rw [if_neg hg]
    exact gcvRows_eq_value s 0 c r h he

end XlModel.Readers

namespace XlModel.Readers

/-! ## SearchSheet (literal) -/

theorem searchTracks_eq : Facts.C04.searchTracksPositions = true := by decide

def hitsCells (rowNum : Nat) (needle : Val) : Nat → List Cell → List (Nat × Nat)
  | _, [] => []
  | cc, c :: cs =>
    (if c.val = needle then [(effCol cc c, rowNum)] else []) ++ hitsCells rowNum needle (effCol cc c) cs

/-- the cell elements whose value equals the needle, in document order -/
def hits (needle : Val) : Nat → Sheet → List (Nat × Nat)
  | _, [] => []
  | cur, r :: rs => hitsCells (effRow cur r) needle 0 r.cells ++ hits needle (effRow cur r) rs

def InGridCells : Nat → List Cell → Prop
  | _, [] => True
  | cc, c :: cs => effCol cc c ≤ Facts.MaxColumns ∧ InGridCells (effCol cc c) cs

/-- every effective position lies inside the grid -/
def InGrid : Nat → Sheet → Prop
  | _, [] => True
  | cur, r :: rs => effRow cur r ≤ Facts.TotalRows ∧ InGridCells 0 r.cells ∧ InGrid (effRow cur r) rs

theorem searchCells_ok (n : Nat) (needle : Val) (hn1 : 1 ≤ n) (hn2 : n ≤ Facts.TotalRows) :
    ∀ (cs : List Cell) (cc : Nat) (acc : List (Nat × Nat)), ColsAsc cc cs → InGridCells cc cs →
    searchCells n needle cc cs acc = .ok (acc ++ hitsCells n needle cc cs)
  | [], _, acc, _, _ => by simp [searchCells, hitsCells]
  | c :: cs, cc, acc, h, hg => by
    simp only [searchCells, searchTracks_eq, if_true, hitsCells]
    by_cases hv : c.val = needle
    · have h1 : ¬ (effCol cc c = 0 ∨ effCol cc c > Facts.MaxColumns) := by
        have := h.1; have := hg.1; omega
      have h2 : ¬ (n < 1 ∨ n > Facts.TotalRows) := by omega
      simp only [hv, ne_eq, not_true_eq_false, if_false, h1, h2, if_true]
      rw [searchCells_ok n needle hn1 hn2 cs _ _ h.2 hg.2]
      simp [List.append_assoc]
    · simp only [hv, ne_eq, not_false_eq_true, if_true, if_false, List.nil_append]
      exact searchCells_ok n needle hn1 hn2 cs _ acc h.2 hg.2

theorem searchRows_ok (needle : Val) : ∀ (s : Sheet) (cur : Nat) (acc : List (Nat × Nat)),
    RowsAsc cur s → InGrid cur s → searchRows needle cur s acc = .ok (acc ++ hits needle cur s)
  | [], _, acc, _, _ => by simp [searchRows, hits]
  | r :: rs, cur, acc, h, hg => by
    simp only [searchRows, searchTracks_eq, if_true, hits]
    rw [searchCells_ok (effRow cur r) needle (by have := h.1; omega) hg.1 r.cells 0 acc h.2.1 hg.2.1]
    simp only
    rw [searchRows_ok needle rs _ _ h.2.2 hg.2.2]
    simp [List.append_assoc]

theorem mem_hitsCells_gt (n : Nat) (needle : Val) : ∀ (cs : List Cell) (cc k m : Nat),
    ColsAsc cc cs → (k, m) ∈ hitsCells n needle cc cs → cc < k ∧ m = n
  | [], _, _, _, _, hm => by simp [hitsCells] at hm
  | c :: cs, cc, k, m, h, hm => by
    simp only [hitsCells, List.mem_append] at hm
    cases hm with
    | inl h1 =>
      by_cases hv : c.val = needle
      · simp only [hv, if_true, List.mem_singleton, Prod.mk.injEq] at h1
        have := h.1; omega
      · simp [hv] at h1
    | inr h2 =>
      have := mem_hitsCells_gt n needle cs _ k m h.2 h2
      have := h.1; omega

theorem valAt_nil_of_le : ∀ (cs : List Cell) (cc k : Nat), ColsAsc cc cs → k ≤ cc → valAt cc cs k = []
  | [], _, _, _, _ => rfl
  | c :: cs, cc, k, h, hk => by
    have : ¬ effCol cc c = k := by have := h.1; omega
    simp only [valAt, this, if_false]
    exact valAt_nil_of_le cs _ k h.2 (by have := h.1; omega)

theorem mem_hitsCells_iff (n : Nat) (needle : Val) (hne : needle ≠ []) :
    ∀ (cs : List Cell) (cc k : Nat), ColsAsc cc cs →
    ((k, n) ∈ hitsCells n needle cc cs ↔ valAt cc cs k = needle)
  | [], _, _, _ => by simp [hitsCells, valAt, Ne.symm hne]
  | c :: cs, cc, k, h => by
    simp only [hitsCells, List.mem_append, valAt]
    have ih := mem_hitsCells_iff n needle hne cs (effCol cc c) k h.2
    by_cases hk : effCol cc c = k
    · simp only [hk, if_true]
      constructor
      · intro hm
        cases hm with
        | inl h1 =>
          by_cases hv : c.val = needle
          · exact hv
          · simp [hv] at h1
        | inr h2 =>
          have := (mem_hitsCells_gt n needle cs k k n (hk ▸ h.2) h2).1
          omega
      · intro hv; left; simp [hv]
    · simp only [hk, if_false]
      constructor
      · intro hm
        cases hm with
        | inl h1 =>
          by_cases hv : c.val = needle
          · simp only [hv, if_true, List.mem_singleton, Prod.mk.injEq] at h1; exact absurd h1.1.symm hk
          · simp [hv] at h1
        | inr h2 => exact ih.mp h2
      · intro hv; right; exact ih.mpr hv

theorem mem_hits_gt (needle : Val) : ∀ (s : Sheet) (cur k m : Nat),
    RowsAsc cur s → (k, m) ∈ hits needle cur s → cur < m
  | [], _, _, _, _, hm => by simp [hits] at hm
  | r :: rs, cur, k, m, h, hm => by
    simp only [hits, List.mem_append] at hm
    cases hm with
    | inl h1 => have := (mem_hitsCells_gt _ needle r.cells 0 k m h.2.1 h1).2; have := h.1; omega
    | inr h2 => have := mem_hits_gt needle rs _ k m h.2.2 h2; have := h.1; omega

theorem rowAt_nil_of_le : ∀ (s : Sheet) (cur k : Nat), RowsAsc cur s → k ≤ cur → rowAt cur s k = []
  | [], _, _, _, _ => rfl
  | r :: rs, cur, k, h, hk => by
    have : ¬ effRow cur r = k := by have := h.1; omega
    simp only [rowAt, this, if_false]
    exact rowAt_nil_of_le rs _ k h.2.2 (by have := h.1; omega)

theorem mem_hits_iff (needle : Val) (hne : needle ≠ []) : ∀ (s : Sheet) (cur k m : Nat),
    RowsAsc cur s → ((k, m) ∈ hits needle cur s ↔ valAt 0 (rowAt cur s m) k = needle)
  | [], _, _, _, _ => by simp [hits, rowAt, valAt, Ne.symm hne]
  | r :: rs, cur, k, m, h => by
    simp only [hits, List.mem_append, rowAt]
    have ih := mem_hits_iff needle hne rs (effRow cur r) k m h.2.2
    by_cases hm : effRow cur r = m
    · simp only [hm, if_true]
      subst hm
      constructor
      · intro hx
        cases hx with
        | inl h1 => exact (mem_hitsCells_iff _ needle hne r.cells 0 k h.2.1).mp h1
        | inr h2 => have := mem_hits_gt needle rs _ k _ h.2.2 h2; omega
      · intro hv; left; exact (mem_hitsCells_iff _ needle hne r.cells 0 k h.2.1).mpr hv
    · simp only [hm, if_false]
      constructor
      · intro hx
        cases hx with
        | inl h1 => exact absurd (mem_hitsCells_gt _ needle r.cells 0 k m h.2.1 h1).2.symm hm
        | inr h2 => exact ih.mp h2
      · intro hv; right; exact ih.mpr hv

end XlModel.Readers

namespace XlModel.Readers

/-! ## the column reader (Cols / GetCols) -/


/-- the row part of every present reference is the row's effective number -/
def RefsOK (n : Nat) (cs : List Cell) : Prop := ∀ c ∈ cs, c.col ≠ 0 → c.row = n

def Consistent : Nat → Sheet → Prop
  | _, [] => True
  | cur, r :: rs => RefsOK (effRow cur r) r.cells ∧ Consistent (effRow cur r) rs

theorem getD_pad (acc : List Val) (m j : Nat) :
    ((acc ++ List.replicate m ([] : Val))[j]?).getD [] = (acc[j]?).getD [] := by
  by_cases h : j < acc.length
  · rw [List.getElem?_append_left h]
  · rw [List.getElem?_append_right (by omega)]
    have : acc[j]? = none := List.getElem?_eq_none (by omega)
    rw [this]
    by_cases h2 : j - acc.length < m
    · simp [List.getElem?_replicate, h2]
    · simp [List.getElem?_replicate, h2]

theorem getD_snoc (l : List Val) (v : Val) (j : Nat) :
    ((l ++ [v])[j]?).getD [] = if j = l.length then v else (l[j]?).getD [] := by
  by_cases h : j < l.length
  · rw [List.getElem?_append_left h]
    have : ¬ j = l.length := by omega
    simp [this]
  · rw [List.getElem?_append_right (by omega)]
    by_cases h2 : j = l.length
    · simp [h2]
    · have h3 : l[j]? = none := List.getElem?_eq_none (by omega)
      obtain ⟨k, hk⟩ : ∃ k, j - l.length = k + 1 := ⟨j - l.length - 1, by omega⟩
      simp [h2, h3, hk]

theorem colCellStep_eq (k n : Nat) (it : CIter) (x : Cell) (hrow : it.cellRow = n)
    (href : x.col ≠ 0 → x.row = n) :
    colCellStep k it x =
      ⟨effCol it.cellCol x, n,
        if effCol it.cellCol x = k
        then it.cells ++ List.replicate (n - it.cells.length - 1) [] ++ [x.val]
        else it.cells ++ List.replicate (n - it.cells.length - 1) []⟩ := by
  have hcr : (if x.col ≠ 0 then x.row else it.cellRow) = n := by
    by_cases hx : x.col ≠ 0
    · rw [if_pos hx]; exact href hx
    · rw [if_neg hx]; exact hrow
  unfold colCellStep
  simp only [hcr]
  split <;> rfl

theorem colInner (k n : Nat) : ∀ (cs : List Cell) (it : CIter),
    it.cellRow = n → it.cells.length ≤ n → (it.cells.length = n → k ≤ it.cellCol) →
    ColsAsc it.cellCol cs → RefsOK n cs →
    (cs.foldl (colCellStep k) it).cellRow = n ∧
    (cs.foldl (colCellStep k) it).cells.length ≤ n ∧
    it.cells.length ≤ (cs.foldl (colCellStep k) it).cells.length ∧
    ∀ j, (((cs.foldl (colCellStep k) it).cells)[j]?).getD [] =
      if j < it.cells.length then (it.cells[j]?).getD []
      else if j + 1 = n then valAt it.cellCol cs k else []
  | [], it, hrow, hlen, _, _, _ => by
    refine ⟨hrow, hlen, Nat.le_refl _, fun j => ?_⟩
    by_cases hj : j < it.cells.length
    · simp [hj]
    · have : it.cells[j]? = none := List.getElem?_eq_none (by omega)
      simp [hj, this, valAt]
  | x :: xs, it, hrow, hlen, hside, hasc, href => by
    have hx := colCellStep_eq k n it x hrow (href x (List.mem_cons_self ..))
    have hlt : it.cellCol < effCol it.cellCol x := hasc.1
    have href' : RefsOK n xs := fun c hc => href c (List.mem_cons_of_mem _ hc)
    simp only [List.foldl_cons]
    rw [hx]
    by_cases he : effCol it.cellCol x = k
    · -- the cell of this column: pad to n-1, append
      have hl1 : it.cells.length < n := by
        rcases Nat.lt_or_ge it.cells.length n with h | h
        · exact h
        · have := hside (by omega); omega
      simp only [he, if_true]
      have hplen : (it.cells ++ List.replicate (n - it.cells.length - 1) ([] : Val) ++ [x.val]).length = n := by
        simp; omega
      have ih := colInner k n xs ⟨k, n, it.cells ++ List.replicate (n - it.cells.length - 1) [] ++ [x.val]⟩
        rfl (by rw [hplen]; exact Nat.le_refl _) (fun _ => Nat.le_refl _) (he ▸ hasc.2) href'
      refine ⟨ih.1, ih.2.1, by have := ih.2.2.1; simp only [hplen] at this; omega, fun j => ?_⟩
      rw [ih.2.2.2 j]
      simp only [hplen, valAt, he, if_true]
      have hpl : (it.cells ++ List.replicate (n - it.cells.length - 1) ([] : Val)).length = n - 1 := by
        simp; omega
      by_cases hjn : j < n
      · simp only [hjn, if_true]
        rw [getD_snoc, hpl, getD_pad]
        by_cases hj : j < it.cells.length
        · rw [if_neg (by omega : ¬ j = n - 1), if_pos hj]
        · by_cases hj2 : j + 1 = n
          · rw [if_pos (by omega : j = n - 1), if_neg hj, if_pos hj2]
          · have h2 : it.cells[j]? = none := List.getElem?_eq_none (by omega)
            rw [if_neg (by omega : ¬ j = n - 1), if_neg hj, if_neg hj2, h2]
            rfl
      · have h1 : ¬ j < it.cells.length := by omega
        have h2 : ¬ j + 1 = n := by omega
        simp [hjn, h1, h2]
    · simp only [he, if_false]
      have hpl : (it.cells ++ List.replicate (n - it.cells.length - 1) ([] : Val)).length
          = it.cells.length + (n - it.cells.length - 1) := by simp
      have ih := colInner k n xs ⟨effCol it.cellCol x, n, it.cells ++ List.replicate (n - it.cells.length - 1) []⟩
        rfl (by rw [hpl]; omega)
        (fun h => by
          have h' : (it.cells ++ List.replicate (n - it.cells.length - 1) ([] : Val)).length = n := h
          rw [hpl] at h'
          have := hside (by omega)
          show k ≤ effCol it.cellCol x
          omega) hasc.2 href'
      refine ⟨ih.1, ih.2.1, by have := ih.2.2.1; rw [hpl] at this; omega, fun j => ?_⟩
      rw [ih.2.2.2 j]
      simp only [hpl, valAt, he, if_false]
      rw [getD_pad]
      by_cases hj : j < it.cells.length
      · have : j < it.cells.length + (n - it.cells.length - 1) := by omega
        simp [hj, this]
      · simp only [hj, if_false]
        by_cases hj1 : j < it.cells.length + (n - it.cells.length - 1)
        · have h1 : ¬ j + 1 = n := by omega
          have h2 : it.cells[j]? = none := List.getElem?_eq_none (by omega)
          simp [hj1, h1, h2]
        · simp [hj1]

theorem colFold_get (k : Nat) : ∀ (rs : Sheet) (it : CIter),
    it.cells.length ≤ it.cellRow → RowsAsc it.cellRow rs → Consistent it.cellRow rs →
    ∀ j, (((rs.foldl (colRowStep k) it).cells)[j]?).getD [] =
      if j < it.cells.length then (it.cells[j]?).getD []
      else valAt 0 (rowAt it.cellRow rs (j + 1)) k
  | [], it, _, _, _, j => by
    by_cases hj : j < it.cells.length
    · simp [hj]
    · have : it.cells[j]? = none := List.getElem?_eq_none (by omega)
      simp [hj, this, rowAt, valAt]
  | r :: rs, it, hlen, h, hc, j => by
    have hn : it.cellRow < effRow it.cellRow r := h.1
    have inner := colInner k (effRow it.cellRow r) r.cells ⟨0, effRow it.cellRow r, it.cells⟩
      rfl (by show it.cells.length ≤ _; omega)
      (fun hh => by have hh' : it.cells.length = effRow it.cellRow r := hh; omega) h.2.1 hc.1
    have hstep : colRowStep k it r =
        r.cells.foldl (colCellStep k) ⟨0, effRow it.cellRow r, it.cells⟩ := rfl
    simp only [List.foldl_cons]
    rw [hstep]
    have ih := colFold_get k rs (r.cells.foldl (colCellStep k) ⟨0, effRow it.cellRow r, it.cells⟩)
      (by rw [inner.1]; exact inner.2.1) (by rw [inner.1]; exact h.2.2) (by rw [inner.1]; exact hc.2) j
    rw [ih, inner.1]
    have hge := inner.2.2.1
    have hle := inner.2.1
    simp only at hge
    simp only [rowAt]
    by_cases hj : j < it.cells.length
    · have : j < (r.cells.foldl (colCellStep k) ⟨0, effRow it.cellRow r, it.cells⟩).cells.length := by omega
      simp only [this, if_true, hj]
      rw [inner.2.2.2 j]; simp [hj]
    · simp only [hj, if_false]
      by_cases hj1 : j < (r.cells.foldl (colCellStep k) ⟨0, effRow it.cellRow r, it.cells⟩).cells.length
      · simp only [hj1, if_true]
        rw [inner.2.2.2 j]
        simp only [hj, if_false]
        by_cases hjn : j + 1 = effRow it.cellRow r
        · simp [hjn]
        · have : ¬ effRow it.cellRow r = j + 1 := fun e => hjn e.symm
          simp only [hjn, this, if_false]
          rw [rowAt_nil_of_le rs _ (j + 1) h.2.2 (by omega)]
          rfl
      · simp only [hj1, if_false]
        by_cases hjn : effRow it.cellRow r = j + 1
        · simp only [hjn, if_true]
          have hnone : (r.cells.foldl (colCellStep k) ⟨0, effRow it.cellRow r, it.cells⟩).cells[j]? = none :=
            List.getElem?_eq_none (by omega)
          have := inner.2.2.2 j
          rw [hnone] at this
          simp only [hj, if_false, hjn.symm, if_true, Option.getD_none] at this
          rw [← this, rowAt_nil_of_le rs (j + 1) (j + 1) (hjn ▸ h.2.2) (Nat.le_refl _)]
          rfl
        · simp [hjn]

/-- every column list of the column reader, at any position: the value of the grid -/
theorem colCells_get (s : Sheet) (h : WF s) (hc : Consistent 0 s) (c j : Nat) :
    ((colCells s c)[j]?).getD [] = value s c (j + 1) := by
  have := colFold_get c s ⟨0, 0, []⟩ (Nat.le_refl _) h hc j
  simpa [colCells, value] using this

/-! ## the number of columns -/

def tcFold (cc tot : Nat) (cs : List Cell) : Nat :=
  (cs.foldl (fun (p : Nat × Nat) c =>
      let cc := effCol p.1 c; (cc, if cc > p.2 then cc else p.2)) (cc, tot)).2

theorem totalColsRow_eq (cs : List Cell) (tot : Nat) : totalColsRow cs tot = tcFold 0 tot cs := rfl

theorem tcFold_cons (cc tot : Nat) (c : Cell) (cs : List Cell) :
    tcFold cc tot (c :: cs) =
      tcFold (effCol cc c) (if effCol cc c > tot then effCol cc c else tot) cs := rfl

theorem le_tcFold : ∀ (cs : List Cell) (cc tot : Nat), tot ≤ tcFold cc tot cs
  | [], _, _ => Nat.le_refl _
  | c :: cs, cc, tot => by
    rw [tcFold_cons]
    have hT : tot ≤ (if effCol cc c > tot then effCol cc c else tot) := by split <;> omega
    have := le_tcFold cs (effCol cc c) (if effCol cc c > tot then effCol cc c else tot)
    generalize (if effCol cc c > tot then effCol cc c else tot) = T at *
    omega

theorem valAt_nil_beyond : ∀ (cs : List Cell) (cc tot k : Nat), tcFold cc tot cs < k →
    valAt cc cs k = []
  | [], _, _, _, _ => rfl
  | c :: cs, cc, tot, k, h => by
    rw [tcFold_cons] at h
    have hle := le_tcFold cs (effCol cc c) (if effCol cc c > tot then effCol cc c else tot)
    have hT : effCol cc c ≤ (if effCol cc c > tot then effCol cc c else tot) := by split <;> omega
    have hne : ¬ effCol cc c = k := by
      generalize (if effCol cc c > tot then effCol cc c else tot) = T at *
      omega
    simp only [valAt, hne, if_false]
    exact valAt_nil_beyond cs _ _ k h

def tcs (tot : Nat) (rs : Sheet) : Nat := rs.foldl (fun tot r => totalColsRow r.cells tot) tot

theorem le_tcs : ∀ (rs : Sheet) (tot : Nat), tot ≤ tcs tot rs
  | [], _ => Nat.le_refl _
  | r :: rs, tot => by
    have h1 : tcs tot (r :: rs) = tcs (totalColsRow r.cells tot) rs := rfl
    rw [h1]
    have := le_tcs rs (totalColsRow r.cells tot)
    have := le_tcFold r.cells 0 tot
    rw [totalColsRow_eq] at *
    omega

theorem rowAt_valAt_nil_beyond : ∀ (rs : Sheet) (cur tot k r : Nat), tcs tot rs < k →
    valAt 0 (rowAt cur rs r) k = []
  | [], _, _, _, _, _ => rfl
  | x :: rs, cur, tot, k, r, h => by
    have h1 : tcs tot (x :: rs) = tcs (totalColsRow x.cells tot) rs := rfl
    rw [h1] at h
    simp only [rowAt]
    by_cases he : effRow cur x = r
    · simp only [he, if_true]
      have := le_tcs rs (totalColsRow x.cells tot)
      exact valAt_nil_beyond x.cells 0 tot k (by rw [← totalColsRow_eq]; omega)
    · simp only [he, if_false]
      exact rowAt_valAt_nil_beyond rs _ _ k r h

/-- no cell lies to the right of the last column `GetCols` returns -/
theorem value_nil_beyond_totalCols (s : Sheet) (c r : Nat) (h : totalCols s < c) :
    value s c r = [] :=
  rowAt_valAt_nil_beyond s 0 0 c r h

theorem getCols_length (s : Sheet) : (getCols s).length = totalCols s := by simp [getCols]

theorem getCols_cell (s : Sheet) (h : WF s) (hc : Consistent 0 s) (c r : Nat) (h1 : 1 ≤ c)
    (h2 : 1 ≤ r) : cellOfCols (getCols s) c r = value s c r := by
  have h0 : ¬ (r = 0 ∨ c = 0) := by omega
  unfold cellOfCols cellOf
  rw [if_neg h0]
  by_cases hin : c - 1 < totalCols s
  · have hg : (getCols s)[c - 1]? = some (colCells s (c - 1 + 1)) := by
      simp [getCols, hin]
    rw [hg]
    have hc' : c - 1 + 1 = c := by omega
    have hr' : r - 1 + 1 = r := by omega
    have := colCells_get s h hc c (r - 1)
    rw [hr'] at this
    simpa [hc'] using this
  · have hg : (getCols s)[c - 1]? = none :=
      List.getElem?_eq_none (by rw [getCols_length]; omega)
    rw [hg, value_nil_beyond_totalCols s c r (by omega)]
    rfl

end XlModel.Readers

namespace XlModel.Readers

/-! ## GetRows and the row limit -/

theorem rowsBound_eq : Facts.C04.rowsBoundByTotalRows = true := by decide

theorem foldl_rowStep_not_stopped : ∀ (rs : Sheet) (st : RState), st.stopped = false →
    RowAttrsOK rs → (rs.foldl rowStep st).stopped = false
  | [], _, h, _ => h
  | r :: rs, st, h, ha => by
    have hle : ¬ r.r > Facts.TotalRows := by have := ha.1; omega
    simp only [List.foldl_cons]
    apply foldl_rowStep_not_stopped rs _ _ ha.2
    unfold rowStep
    simp only [h, Bool.false_eq_true, if_false, hle, decide_false, Bool.and_false]
    split <;> simp [h]

theorem foldl_rowStep_stopped : ∀ (rs : Sheet) (st : RState),
    (st.stopped = true ∨ ∃ r ∈ rs, r.r > Facts.TotalRows) → (rs.foldl rowStep st).stopped = true
  | [], st, h => by
    cases h with
    | inl h => exact h
    | inr h => obtain ⟨_, hm, _⟩ := h; cases hm
  | r :: rs, st, h => by
    simp only [List.foldl_cons]
    apply foldl_rowStep_stopped rs
    by_cases hs : st.stopped = true
    · left; unfold rowStep; simp [hs]
    · have hs' : st.stopped = false := by simpa using hs
      by_cases hr : r.r > Facts.TotalRows
      · left; unfold rowStep; simp [hs', hr, rowsBound_eq]
      · right
        cases h with
        | inl h => exact absurd h hs
        | inr h =>
          obtain ⟨x, hm, hx⟩ := h
          cases hm with
          | head => exact absurd hx hr
          | tail _ hm' => exact ⟨x, hm', hx⟩

end XlModel.Readers
