/-
Helper lemmas for C04: a generic "sparse fill" (what both the streaming row
reader and GetRows do: append values at ascending 1-based positions, padding
the gaps) and its connection to `cellStep` / `rowStep`.
-/
import XlModel.Readers

namespace XlModel.Readers

section Fill
variable {α : Type}

def place (blank : α) (acc : List α) (p : Nat) (v : α) : List α :=
  acc ++ List.replicate (p - acc.length - 1) blank ++ [v]

/-- append the `some` payloads at their positions, padding with `blank` -/
def fill (blank : α) : List α → List (Nat × Option α) → List α
  | acc, [] => acc
  | acc, (_, none) :: xs => fill blank acc xs
  | acc, (p, some v) :: xs => fill blank (place blank acc p v) xs

def Asc : Nat → List (Nat × Option α) → Prop
  | _, [] => True
  | lo, (p, _) :: xs => lo < p ∧ Asc p xs

def look : List (Nat × Option α) → Nat → Option α
  | [], _ => none
  | (p, x) :: xs, k => if p = k then x else look xs k

def lastSome : Nat → List (Nat × Option α) → Nat
  | d, [] => d
  | d, (_, none) :: xs => lastSome d xs
  | _, (p, some _) :: xs => lastSome p xs

theorem place_length (blank : α) (acc : List α) (p : Nat) (v : α) (h : acc.length < p) :
    (place blank acc p v).length = p := by
  simp [place]; omega

theorem place_get_lt (blank : α) (acc : List α) (p : Nat) (v : α) (j : Nat) (h : j < acc.length) :
    (place blank acc p v)[j]? = acc[j]? := by
  unfold place
  rw [List.append_assoc, List.getElem?_append_left h]

theorem place_get_mid (blank : α) (acc : List α) (p : Nat) (v : α) (j : Nat)
    (h1 : acc.length ≤ j) (h2 : j + 1 < p) : (place blank acc p v)[j]? = some blank := by
  unfold place
  rw [List.append_assoc, List.getElem?_append_right h1]
  have : j - acc.length < p - acc.length - 1 := by omega
  rw [List.getElem?_append_left (by simpa using this)]
  simp [List.getElem?_replicate, this]

theorem place_get_last (blank : α) (acc : List α) (p : Nat) (v : α) (h : acc.length < p) :
    (place blank acc p v)[p - 1]? = some v := by
  unfold place
  have hl : (acc ++ List.replicate (p - acc.length - 1) blank).length = p - 1 := by
    simp; omega
  rw [List.getElem?_append_right (by omega)]
  simp [hl]

theorem look_none_of_asc : ∀ (xs : List (Nat × Option α)) (lo k : Nat),
    Asc lo xs → k ≤ lo → look xs k = none
  | [], _, _, _, _ => rfl
  | (p, x) :: xs, lo, k, h, hk => by
    have hp : ¬ p = k := by have := h.1; omega
    simp only [look, hp, if_false]
    exact look_none_of_asc xs p k h.2 (by have := h.1; omega)

theorem fill_get (blank : α) : ∀ (xs : List (Nat × Option α)) (acc : List α) (lo : Nat),
    Asc lo xs → acc.length ≤ lo → ∀ j,
    ((fill blank acc xs)[j]?).getD blank =
      if j < acc.length then (acc[j]?).getD blank else (look xs (j + 1)).getD blank
  | [], acc, _, _, _, j => by
    by_cases hj : j < acc.length
    · simp [fill, hj]
    · have : acc[j]? = none := List.getElem?_eq_none (by omega)
      simp [fill, hj, this, look]
  | (p, none) :: xs, acc, lo, h, hl, j => by
    have ih := fill_get blank xs acc p h.2 (by have := h.1; omega) j
    simp only [fill]
    rw [ih]
    by_cases hj : j < acc.length
    · simp [hj]
    · simp only [hj, if_false, look]
      by_cases hp : p = j + 1
      · simp only [hp, if_true]
        rw [look_none_of_asc xs p (j + 1) h.2 (by omega)]
      · simp [hp]
  | (p, some v) :: xs, acc, lo, h, hl, j => by
    have hlt : acc.length < p := by have := h.1; omega
    have hlen := place_length blank acc p v hlt
    have ih := fill_get blank xs (place blank acc p v) p h.2 (by omega) j
    simp only [fill]
    rw [ih, hlen]
    by_cases hj : j < acc.length
    · have : j < p := by omega
      simp [hj, this, place_get_lt blank acc p v j hj]
    · simp only [hj, if_false, look]
      by_cases hjp : j < p
      · simp only [hjp, if_true]
        by_cases hlast : j + 1 = p
        · have : j = p - 1 := by omega
          subst this
          rw [place_get_last blank acc p v hlt]
          have : p = p - 1 + 1 := by omega
          simp [← this]
        · rw [place_get_mid blank acc p v j (by omega) (by omega)]
          have hp : ¬ p = j + 1 := by omega
          simp only [hp, if_false]
          rw [look_none_of_asc xs p (j + 1) h.2 (by omega)]
          rfl
      · have hp : ¬ p = j + 1 := by omega
        simp [hjp, hp]

theorem fill_length (blank : α) : ∀ (xs : List (Nat × Option α)) (acc : List α) (lo : Nat),
    Asc lo xs → acc.length ≤ lo → (fill blank acc xs).length = lastSome acc.length xs
  | [], _, _, _, _ => rfl
  | (p, none) :: xs, acc, lo, h, hl => by
    simpa [fill, lastSome] using fill_length blank xs acc p h.2 (by have := h.1; omega)
  | (p, some v) :: xs, acc, lo, h, hl => by
    have hlt : acc.length < p := by have := h.1; omega
    have := fill_length blank xs (place blank acc p v) p h.2 (by rw [place_length blank acc p v hlt]; omega)
    simpa [fill, lastSome, place_length blank acc p v hlt] using this

end Fill

/-! ## the streaming row reader is a fill -/

theorem appendSpaceStart_eq : Facts.C04.appendSpaceStart = 1 := by decide

def cellItems : Nat → List Cell → List (Nat × Option Val)
  | _, [] => []
  | cc, c :: cs => (effCol cc c, if c.live then some c.val else none) :: cellItems (effCol cc c) cs

theorem foldl_cellStep_eq_fill : ∀ (cs : List Cell) (it : Iter),
    (cs.foldl cellStep it).cells = fill [] it.cells (cellItems it.cellCol cs)
  | [], _ => rfl
  | c :: cs, it => by
    simp only [List.foldl_cons, cellItems]
    rw [foldl_cellStep_eq_fill cs (cellStep it c)]
    unfold cellStep
    by_cases hl : c.live = true
    · simp [hl, fill, place, appendSpace, appendSpaceStart_eq]
    · simp [hl, fill]

theorem rowCells_eq_fill (cs : List Cell) : rowCells cs = fill [] [] (cellItems 0 cs) :=
  foldl_cellStep_eq_fill cs ⟨0, []⟩

theorem asc_cellItems : ∀ (cs : List Cell) (cc : Nat), ColsAsc cc cs → Asc cc (cellItems cc cs)
  | [], _, _ => trivial
  | c :: cs, cc, h => ⟨h.1, asc_cellItems cs _ h.2⟩

theorem live_false_val {c : Cell} (h : ¬ c.live = true) : c.val = [] := by
  unfold Cell.live at h
  by_cases hv : c.val = []
  · exact hv
  · simp [hv] at h

theorem look_cellItems : ∀ (cs : List Cell) (cc k : Nat),
    (look (cellItems cc cs) k).getD [] = valAt cc cs k
  | [], _, _ => rfl
  | c :: cs, cc, k => by
    simp only [cellItems, look, valAt]
    by_cases he : effCol cc c = k
    · simp only [he, if_true]
      by_cases hl : c.live = true
      · simp [hl]
      · simp [hl, live_false_val hl]
    · simp only [he, if_false]
      exact look_cellItems cs _ k

/-- the cells of a row, indexed from 0: exactly the values at the effective columns -/
theorem rowCells_get (cs : List Cell) (h : ColsAsc 0 cs) (j : Nat) :
    ((rowCells cs)[j]?).getD [] = valAt 0 cs (j + 1) := by
  rw [rowCells_eq_fill, fill_get [] (cellItems 0 cs) [] 0 (asc_cellItems cs 0 h) (Nat.le_refl _) j]
  simp [look_cellItems]

/-! ## GetRows is a fill of the rows -/

def rowItems : Nat → Sheet → List (Nat × Option (List Val))
  | _, [] => []
  | cur, r :: rs =>
    (effRow cur r, if (rowCells r.cells).isEmpty then none else some (rowCells r.cells))
      :: rowItems (effRow cur r) rs

theorem foldl_rowStep_eq_fill : ∀ (rs : Sheet) (st : RState), st.seek = st.cur →
    RowsAsc st.cur rs →
    flush (rs.foldl rowStep st) = fill [] (flush st) (rowItems st.cur rs)
  | [], _, _, _ => rfl
  | r :: rs, st, hs, h => by
    have hgt : effRow st.cur r > st.seek := by rw [hs]; exact h.1
    have hstep : rowStep st r =
        { seek := effRow st.cur r, cur := effRow st.cur r,
          it := r.cells.foldl cellStep ⟨0, []⟩, results := flush st } := by
      unfold rowStep; simp [hgt]
    simp only [List.foldl_cons, rowItems]
    rw [hstep, foldl_rowStep_eq_fill rs _ rfl h.2.2]
    by_cases he : (rowCells r.cells).isEmpty = true
    · have he' : (List.foldl cellStep ⟨0, []⟩ r.cells).cells.isEmpty = true := he
      simp [he, fill, flush, he']
    · have he' : ¬ (List.foldl cellStep ⟨0, []⟩ r.cells).cells.isEmpty = true := he
      simp only [he, if_false, Bool.false_eq_true, fill]
      congr 1
      simp only [flush, he', if_false, Bool.false_eq_true, place]
      rfl

theorem getRows_eq_fill (s : Sheet) (h : WF s) : getRows s = fill [] [] (rowItems 0 s) := by
  have := foldl_rowStep_eq_fill s ⟨0, 0, ⟨0, []⟩, []⟩ rfl h
  simpa [getRows, flush] using this

theorem asc_rowItems : ∀ (s : Sheet) (cur : Nat), RowsAsc cur s → Asc cur (rowItems cur s)
  | [], _, _ => trivial
  | r :: rs, cur, h => ⟨h.1, asc_rowItems rs _ h.2.2⟩

theorem look_rowItems : ∀ (s : Sheet) (cur k : Nat),
    (look (rowItems cur s) k).getD [] = rowCells (rowAt cur s k)
  | [], _, _ => rfl
  | r :: rs, cur, k => by
    simp only [rowItems, look, rowAt]
    by_cases he : effRow cur r = k
    · simp only [he, if_true]
      by_cases hl : (rowCells r.cells).isEmpty = true
      · simp only [hl, if_true, Option.getD_none]
        exact (List.isEmpty_iff.mp hl).symm
      · simp [hl]
    · simp only [he, if_false]
      exact look_rowItems rs _ k

theorem colsAsc_rowAt : ∀ (s : Sheet) (cur k : Nat), RowsAsc cur s → ColsAsc 0 (rowAt cur s k)
  | [], _, _, _ => trivial
  | r :: rs, cur, k, h => by
    simp only [rowAt]
    by_cases he : effRow cur r = k
    · simp only [he, if_true]; exact h.2.1
    · simp only [he, if_false]; exact colsAsc_rowAt rs _ k h.2.2

/-- row `j+1` of GetRows is the streaming reader's output for the row numbered `j+1` -/
theorem getRows_get (s : Sheet) (h : WF s) (j : Nat) :
    ((getRows s)[j]?).getD [] = rowCells (rowAt 0 s (j + 1)) := by
  rw [getRows_eq_fill s h, fill_get [] (rowItems 0 s) [] 0 (asc_rowItems s 0 h) (Nat.le_refl _) j]
  simp [look_rowItems]

end XlModel.Readers

namespace XlModel.Readers

/-! ## what is trimmed: lengths -/

theorem lastSome_cellItems : ∀ (cs : List Cell) (cc d : Nat),
    lastSome d (cellItems cc cs) = lastLive cc cs d
  | [], _, _ => rfl
  | c :: cs, cc, d => by
    simp only [cellItems, lastLive]
    by_cases hl : c.live = true
    · simp only [hl, if_true, lastSome]; exact lastSome_cellItems cs _ _
    · simp only [hl, if_false, Bool.false_eq_true, lastSome]; exact lastSome_cellItems cs _ _

theorem rowCells_length (cs : List Cell) (h : ColsAsc 0 cs) :
    (rowCells cs).length = lastLive 0 cs 0 := by
  rw [rowCells_eq_fill, fill_length [] (cellItems 0 cs) [] 0 (asc_cellItems cs 0 h) (Nat.le_refl _)]
  exact lastSome_cellItems cs 0 0

theorem lastSome_rowItems : ∀ (s : Sheet) (cur d : Nat), RowsAsc cur s →
    lastSome d (rowItems cur s) = lastLiveRow cur s d
  | [], _, _, _ => rfl
  | r :: rs, cur, d, h => by
    simp only [rowItems, lastLiveRow]
    have hlen := rowCells_length r.cells h.2.1
    by_cases he : (rowCells r.cells).isEmpty = true
    · have h0 : lastLive 0 r.cells 0 = 0 := by
        rw [← hlen]; simp [List.isEmpty_iff.mp he]
      simp only [he, if_true, lastSome, h0, ne_eq, not_true_eq_false, if_false]
      exact lastSome_rowItems rs _ _ h.2.2
    · have h0 : lastLive 0 r.cells 0 ≠ 0 := by
        rw [← hlen]; intro hz
        exact he (by simp [List.eq_nil_of_length_eq_zero hz])
      simp only [he, Bool.false_eq_true, if_false, lastSome, h0, ne_eq, not_false_eq_true, if_true]
      exact lastSome_rowItems rs _ _ h.2.2

theorem getRows_length (s : Sheet) (h : WF s) : (getRows s).length = lastLiveRow 0 s 0 := by
  rw [getRows_eq_fill s h, fill_length [] (rowItems 0 s) [] 0 (asc_rowItems s 0 h) (Nat.le_refl _)]
  exact lastSome_rowItems s 0 0 h

/-! ## GetCellValue on a sheet that carries every reference -/

theorem effRow_explicit {cur : Nat} {r : Row} (h : r.r ≠ 0) : effRow cur r = r.r := by
  simp [effRow, h]

theorem valAt_explicit : ∀ (cs : List Cell) (cc rn c : Nat), ExplicitCells rn cs →
    valAt cc cs c = match cs.find? (fun x => x.col = c ∧ x.row = rn) with
      | some cell => cell.val | none => []
  | [], _, _, _, _ => rfl
  | x :: cs, cc, rn, c, h => by
    have he : effCol cc x = x.col := by simp [effCol, h.1]
    simp only [valAt, he, List.find?_cons]
    by_cases hc : x.col = c
    · simp [hc, h.2.2.1]
    · simp only [hc, if_false, false_and, decide_false]
      exact valAt_explicit cs _ rn c h.2.2.2

theorem rowsAsc_all_gt : ∀ (s : Sheet) (cur : Nat), RowsAsc cur s → Explicit s →
    ∀ row ∈ s, cur < row.r
  | [], _, _, _, _, hm => by cases hm
  | r :: rs, cur, h, he, row, hm => by
    have h1 : cur < r.r := by have := h.1; rwa [effRow_explicit he.1] at this
    cases hm with
    | head => exact h1
    | tail _ hm' =>
      have := rowsAsc_all_gt rs (effRow cur r) h.2.2 he.2.2.2 row hm'
      rw [effRow_explicit he.1] at this; omega

theorem gcvRows_nil_of_gt : ∀ (s : Sheet) (c r : Nat), (∀ row ∈ s, r < row.r) → gcvRows s c r = []
  | [], _, _, _ => rfl
  | x :: xs, c, r, h => by
    have : ¬ x.r = r := by have := h x (List.mem_cons_self ..); omega
    simp only [gcvRows, this, if_false]
    exact gcvRows_nil_of_gt xs c r (fun row hm => h row (List.mem_cons_of_mem _ hm))

theorem rowAt_nil_of_gt : ∀ (s : Sheet) (cur r : Nat), Explicit s → (∀ row ∈ s, r < row.r) →
    rowAt cur s r = []
  | [], _, _, _, _ => rfl
  | x :: xs, cur, r, he, h => by
    have : ¬ effRow cur x = r := by
      rw [effRow_explicit he.1]; have := h x (List.mem_cons_self ..); omega
    simp only [rowAt, this, if_false]
    exact rowAt_nil_of_gt xs _ r he.2.2.2 (fun row hm => h row (List.mem_cons_of_mem _ hm))

theorem gcvRows_eq_value : ∀ (s : Sheet) (cur c r : Nat), RowsAsc cur s → Explicit s →
    gcvRows s c r = valAt 0 (rowAt cur s r) c
  | [], _, _, _, _, _ => rfl
  | x :: xs, cur, c, r, h, he => by
    have hx : effRow cur x = x.r := effRow_explicit he.1
    simp only [gcvRows, rowAt, hx]
    by_cases hr : x.r = r
    · simp only [hr, if_true]
      have hgt : ∀ row ∈ xs, r < row.r := by
        intro row hm
        have := rowsAsc_all_gt xs (effRow cur x) h.2.2 he.2.2.2 row hm
        rw [hx] at this; omega
      rw [valAt_explicit x.cells 0 r c (hr ▸ he.2.2.1)]
      cases x.cells.find? (fun y => y.col = c ∧ y.row = r) with
      | some cell => rfl
      | none => exact gcvRows_nil_of_gt xs c r hgt
    · simp only [hr, if_false]
      have := gcvRows_eq_value xs (effRow cur x) c r h.2.2 he.2.2.2
      rw [hx] at this; exact this

def lastNum (s : Sheet) : Nat := match s.getLast? with | some row => row.r | none => 0

theorem le_lastNum : ∀ (s : Sheet) (cur : Nat), RowsAsc cur s → Explicit s →
    ∀ row ∈ s, row.r ≤ lastNum s
  | [], _, _, _, _, hm => by cases hm
  | [a], _, _, _, row, hm => by
    simp only [List.mem_singleton] at hm; subst hm; simp [lastNum]
  | a :: b :: t, cur, h, he, row, hm => by
    have hl : lastNum (a :: b :: t) = lastNum (b :: t) := by simp [lastNum, List.getLast?_cons_cons]
    rw [hl]
    have ih := le_lastNum (b :: t) (effRow cur a) h.2.2 he.2.2.2
    cases hm with
    | head =>
      have hb := ih b (List.mem_cons_self ..)
      have := rowsAsc_all_gt (b :: t) (effRow cur a) h.2.2 he.2.2.2 b (List.mem_cons_self ..)
      rw [effRow_explicit he.1] at this; omega
    | tail _ hm' => exact ih row hm'

theorem rowAt_nil_of_all_lt : ∀ (s : Sheet) (cur r : Nat), Explicit s → (∀ row ∈ s, row.r < r) →
    rowAt cur s r = []
  | [], _, _, _, _ => rfl
  | x :: xs, cur, r, he, h => by
    have : ¬ effRow cur x = r := by
      rw [effRow_explicit he.1]; have := h x (List.mem_cons_self ..); omega
    simp only [rowAt, this, if_false]
    exact rowAt_nil_of_all_lt xs _ r he.2.2.2 (fun row hm => h row (List.mem_cons_of_mem _ hm))

theorem getCellValue_eq_value (s : Sheet) (c r : Nat) (h : WF s) (he : Explicit s) :
    getCellValue s c r = value s c r := by
  unfold getCellValue value
  show (if r > lastNum s then [] else gcvRows s c r) = valAt 0 (rowAt 0 s r) c
  by_cases hg : r > lastNum s
  · rw [if_pos hg]
    rw [rowAt_nil_of_all_lt s 0 r he (fun row hm => by have := le_lastNum s 0 h he row hm; omega)]
    rfl
  · rw [if_neg hg]
    exact gcvRows_eq_value s 0 c r h he

end XlModel.Readers

namespace XlModel.Readers

/-! ## SearchSheet (literal) -/

theorem searchTracks_eq : Facts.C04.searchTracksPositions = true := by decide

def hitsCells (rowNum : Nat) (needle : Val) : Nat → List Cell → List (Nat × Nat)
  | _, [] => []
  | cc, c :: cs =>
    (if c.val = needle then [(effCol cc c, rowNum)] else []) ++ hitsCells rowNum needle (effCol cc c) cs

/-- the cell elements whose value equals the needle, in document order -/
def hits (needle : Val) : Nat → Sheet → List (Nat × Nat)
  | _, [] => []
  | cur, r :: rs => hitsCells (effRow cur r) needle 0 r.cells ++ hits needle (effRow cur r) rs

def InGridCells : Nat → List Cell → Prop
  | _, [] => True
  | cc, c :: cs => effCol cc c ≤ Facts.MaxColumns ∧ InGridCells (effCol cc c) cs

/-- every effective position lies inside the grid -/
def InGrid : Nat → Sheet → Prop
  | _, [] => True
  | cur, r :: rs => effRow cur r ≤ Facts.TotalRows ∧ InGridCells 0 r.cells ∧ InGrid (effRow cur r) rs

theorem searchCells_ok (n : Nat) (needle : Val) (hn1 : 1 ≤ n) (hn2 : n ≤ Facts.TotalRows) :
    ∀ (cs : List Cell) (cc : Nat) (acc : List (Nat × Nat)), ColsAsc cc cs → InGridCells cc cs →
    searchCells n needle cc cs acc = .ok (acc ++ hitsCells n needle cc cs)
  | [], _, acc, _, _ => by simp [searchCells, hitsCells]
  | c :: cs, cc, acc, h, hg => by
    simp only [searchCells, searchTracks_eq, if_true, hitsCells]
    by_cases hv : c.val = needle
    · have h1 : ¬ (effCol cc c = 0 ∨ effCol cc c > Facts.MaxColumns) := by
        have := h.1; have := hg.1; omega
      have h2 : ¬ (n < 1 ∨ n > Facts.TotalRows) := by omega
      simp only [hv, ne_eq, not_true_eq_false, if_false, h1, h2, if_true]
      rw [searchCells_ok n needle hn1 hn2 cs _ _ h.2 hg.2]
      simp [List.append_assoc]
    · simp only [hv, ne_eq, not_false_eq_true, if_true, if_false, List.nil_append]
      exact searchCells_ok n needle hn1 hn2 cs _ acc h.2 hg.2

theorem searchRows_ok (needle : Val) : ∀ (s : Sheet) (cur : Nat) (acc : List (Nat × Nat)),
    RowsAsc cur s → InGrid cur s → searchRows needle cur s acc = .ok (acc ++ hits needle cur s)
  | [], _, acc, _, _ => by simp [searchRows, hits]
  | r :: rs, cur, acc, h, hg => by
    simp only [searchRows, searchTracks_eq, if_true, hits]
    rw [searchCells_ok (effRow cur r) needle (by have := h.1; omega) hg.1 r.cells 0 acc h.2.1 hg.2.1]
    simp only
    rw [searchRows_ok needle rs _ _ h.2.2 hg.2.2]
    simp [List.append_assoc]

theorem mem_hitsCells_gt (n : Nat) (needle : Val) : ∀ (cs : List Cell) (cc k m : Nat),
    ColsAsc cc cs → (k, m) ∈ hitsCells n needle cc cs → cc < k ∧ m = n
  | [], _, _, _, _, hm => by simp [hitsCells] at hm
  | c :: cs, cc, k, m, h, hm => by
    simp only [hitsCells, List.mem_append] at hm
    cases hm with
    | inl h1 =>
      by_cases hv : c.val = needle
      · simp only [hv, if_true, List.mem_singleton, Prod.mk.injEq] at h1
        have := h.1; omega
      · simp [hv] at h1
    | inr h2 =>
      have := mem_hitsCells_gt n needle cs _ k m h.2 h2
      have := h.1; omega

theorem valAt_nil_of_le : ∀ (cs : List Cell) (cc k : Nat), ColsAsc cc cs → k ≤ cc → valAt cc cs k = []
  | [], _, _, _, _ => rfl
  | c :: cs, cc, k, h, hk => by
    have : ¬ effCol cc c = k := by have := h.1; omega
    simp only [valAt, this, if_false]
    exact valAt_nil_of_le cs _ k h.2 (by have := h.1; omega)

theorem mem_hitsCells_iff (n : Nat) (needle : Val) (hne : needle ≠ []) :
    ∀ (cs : List Cell) (cc k : Nat), ColsAsc cc cs →
    ((k, n) ∈ hitsCells n needle cc cs ↔ valAt cc cs k = needle)
  | [], _, _, _ => by simp [hitsCells, valAt, Ne.symm hne]
  | c :: cs, cc, k, h => by
    simp only [hitsCells, List.mem_append, valAt]
    have ih := mem_hitsCells_iff n needle hne cs (effCol cc c) k h.2
    by_cases hk : effCol cc c = k
    · simp only [hk, if_true]
      constructor
      · intro hm
        cases hm with
        | inl h1 =>
          by_cases hv : c.val = needle
          · exact hv
          · simp [hv] at h1
        | inr h2 =>
          have := (mem_hitsCells_gt n needle cs k k n (hk ▸ h.2) h2).1
          omega
      · intro hv; left; simp [hv]
    · simp only [hk, if_false]
      constructor
      · intro hm
        cases hm with
        | inl h1 =>
          by_cases hv : c.val = needle
          · simp only [hv, if_true, List.mem_singleton, Prod.mk.injEq] at h1; exact absurd h1.1.symm hk
          · simp [hv] at h1
        | inr h2 => exact ih.mp h2
      · intro hv; right; exact ih.mpr hv

theorem mem_hits_gt (needle : Val) : ∀ (s : Sheet) (cur k m : Nat),
    RowsAsc cur s → (k, m) ∈ hits needle cur s → cur < m
  | [], _, _, _, _, hm => by simp [hits] at hm
  | r :: rs, cur, k, m, h, hm => by
    simp only [hits, List.mem_append] at hm
    cases hm with
    | inl h1 => have := (mem_hitsCells_gt _ needle r.cells 0 k m h.2.1 h1).2; have := h.1; omega
    | inr h2 => have := mem_hits_gt needle rs _ k m h.2.2 h2; have := h.1; omega

theorem rowAt_nil_of_le : ∀ (s : Sheet) (cur k : Nat), RowsAsc cur s → k ≤ cur → rowAt cur s k = []
  | [], _, _, _, _ => rfl
  | r :: rs, cur, k, h, hk => by
    have : ¬ effRow cur r = k := by have := h.1; omega
    simp only [rowAt, this, if_false]
    exact rowAt_nil_of_le rs _ k h.2.2 (by have := h.1; omega)

theorem mem_hits_iff (needle : Val) (hne : needle ≠ []) : ∀ (s : Sheet) (cur k m : Nat),
    RowsAsc cur s → ((k, m) ∈ hits needle cur s ↔ valAt 0 (rowAt cur s m) k = needle)
  | [], _, _, _, _ => by simp [hits, rowAt, valAt, Ne.symm hne]
  | r :: rs, cur, k, m, h => by
    simp only [hits, List.mem_append, rowAt]
    have ih := mem_hits_iff needle hne rs (effRow cur r) k m h.2.2
    by_cases hm : effRow cur r = m
    · simp only [hm, if_true]
      subst hm
      constructor
      · intro hx
        cases hx with
        | inl h1 => exact (mem_hitsCells_iff _ needle hne r.cells 0 k h.2.1).mp h1
        | inr h2 => have := mem_hits_gt needle rs _ k _ h.2.2 h2; omega
      · intro hv; left; exact (mem_hitsCells_iff _ needle hne r.cells 0 k h.2.1).mpr hv
    · simp only [hm, if_false]
      constructor
      · intro hx
        cases hx with
        | inl h1 => exact absurd (mem_hitsCells_gt _ needle r.cells 0 k m h.2.1 h1).2.symm hm
        | inr h2 => exact ih.mp h2
      · intro hv; right; exact ih.mpr hv

end XlModel.Readers
