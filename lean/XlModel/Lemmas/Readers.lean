import XlModel.Readers
namespace XlModel.Readers
end XlModel.Readers
