/-
Helper lemmas for C04's caching theorem (`load_pure`): what `checkRow`
(`crAssign`, `crPlace`) and `checkSheet` do to a worksheet that satisfies the
reader invariant, and that no reader can tell the difference.
-/
import XlModel.Lemmas.Readers

namespace XlModel.Readers

/-! ## `crAssign`: every cell gets its effective position as reference -/

def explicitize (n : Nat) : Nat → List Cell → List Cell
  | _, [] => []
  | cc, c :: cs => { c with col := effCol cc c, row := n } :: explicitize n (effCol cc c) cs

theorem crAssign_eq (n : Nat) : ∀ (cs : List Cell) (cc : Nat), ColsAsc cc cs → RefsOK n cs →
    crAssign n cc cs = explicitize n cc cs
  | [], _, _, _ => rfl
  | c :: cs, cc, h, hr => by
    have hr' : RefsOK n cs := fun x hx => hr x (List.mem_cons_of_mem _ hx)
    have hlt : cc < effCol cc c := h.1
    by_cases hc : c.col ≠ 0
    · have he : effCol cc c = c.col := by simp [effCol, hc]
      have hrow : c.row = n := hr c (List.mem_cons_self ..) hc
      have hmax : (if c.col > cc + 1 then c.col else cc + 1) = c.col := by
        rw [he] at hlt; split <;> omega
      simp only [crAssign, hc, if_true, explicitize, hmax, ne_eq, not_false_eq_true]
      rw [he, crAssign_eq n cs c.col (he ▸ h.2) hr']
      congr 1
      cases c
      simp only at hrow
      simp [hrow]
    · have hc0 : c.col = 0 := by simpa using hc
      have he : effCol cc c = cc + 1 := by simp [effCol, hc0]
      simp only [crAssign, hc, if_false, explicitize, he]
      rw [crAssign_eq n cs (cc + 1) (he ▸ h.2) hr']

theorem explicitize_length (n : Nat) : ∀ (cs : List Cell) (cc : Nat),
    (explicitize n cc cs).length = cs.length
  | [], _ => rfl
  | c :: cs, cc => by simp [explicitize, explicitize_length n cs]

theorem effCol_explicitized {cc' e n : Nat} {c : Cell} (he : e ≠ 0) :
    effCol cc' { c with col := e, row := n } = e := by simp [effCol, he]

theorem colsAsc_explicitize (n : Nat) : ∀ (cs : List Cell) (cc : Nat), ColsAsc cc cs →
    ColsAsc cc (explicitize n cc cs)
  | [], _, _ => trivial
  | c :: cs, cc, h => by
    have hne : effCol cc c ≠ 0 := by have := h.1; omega
    refine ⟨?_, ?_⟩
    · show cc < effCol cc { c with col := effCol cc c, row := n }
      rw [effCol_explicitized hne]; exact h.1
    · show ColsAsc (effCol cc { c with col := effCol cc c, row := n }) _
      rw [effCol_explicitized hne]; exact colsAsc_explicitize n cs _ h.2

theorem explicitCells_explicitize (n : Nat) : ∀ (cs : List Cell) (cc : Nat), ColsAsc cc cs →
    InGridCells cc cs → ExplicitCells n (explicitize n cc cs)
  | [], _, _, _ => trivial
  | c :: cs, cc, h, hg => by
    have hne : effCol cc c ≠ 0 := by have := h.1; omega
    exact ⟨hne, hg.1, rfl, explicitCells_explicitize n cs _ h.2 hg.2⟩

theorem valAt_explicitize (n : Nat) : ∀ (cs : List Cell) (cc k : Nat), ColsAsc cc cs →
    valAt cc (explicitize n cc cs) k = valAt cc cs k
  | [], _, _, _ => rfl
  | c :: cs, cc, k, h => by
    have hne : effCol cc c ≠ 0 := by have := h.1; omega
    simp only [explicitize, valAt, effCol_explicitized hne]
    rw [valAt_explicitize n cs _ k h.2]

/-- the streaming row reader sees exactly the same items -/
theorem cellItems_explicitize (n : Nat) : ∀ (cs : List Cell) (cc : Nat), ColsAsc cc cs →
    cellItems cc (explicitize n cc cs) = cellItems cc cs
  | [], _, _ => rfl
  | c :: cs, cc, h => by
    have hne : effCol cc c ≠ 0 := by have := h.1; omega
    simp only [explicitize, cellItems, effCol_explicitized hne]
    rw [cellItems_explicitize n cs _ h.2]
    rfl

theorem hitsCells_explicitize (n m : Nat) (needle : Val) : ∀ (cs : List Cell) (cc : Nat),
    ColsAsc cc cs → hitsCells m needle cc (explicitize n cc cs) = hitsCells m needle cc cs
  | [], _, _ => rfl
  | c :: cs, cc, h => by
    have hne : effCol cc c ≠ 0 := by have := h.1; omega
    simp only [explicitize, hitsCells, effCol_explicitized hne]
    rw [hitsCells_explicitize n m needle cs _ h.2]

/-! ## dense explicit rows -/

/-- cells at consecutive positions `off+1, off+2, …` carrying their reference in row `n` -/
def Dense (n : Nat) : Nat → List Cell → Prop
  | _, [] => True
  | off, c :: cs => c.col = off + 1 ∧ c.row = n ∧ Dense n (off + 1) cs

theorem dense_of_index (n : Nat) : ∀ (D : List Cell) (off : Nat),
    (∀ j (h : j < D.length), D[j].col = off + j + 1 ∧ D[j].row = n) → Dense n off D
  | [], _, _ => trivial
  | c :: cs, off, h => by
    have h0 := h 0 (by simp)
    refine ⟨by simpa using h0.1, by simpa using h0.2, dense_of_index n cs (off + 1) ?_⟩
    intro j hj
    have := h (j + 1) (by simp; omega)
    simp only [List.getElem_cons_succ] at this
    exact ⟨by omega, this.2⟩

theorem colsAsc_dense (n : Nat) : ∀ (D : List Cell) (off : Nat), Dense n off D → ColsAsc off D
  | [], _, _ => trivial
  | c :: cs, off, h => by
    have he : effCol off c = off + 1 := by simp [effCol, h.1]
    exact ⟨by rw [he]; omega, by rw [he]; exact colsAsc_dense n cs _ h.2.2⟩

theorem explicitCells_dense (n : Nat) : ∀ (D : List Cell) (off : Nat), Dense n off D →
    off + D.length ≤ Facts.MaxColumns → ExplicitCells n D
  | [], _, _, _ => trivial
  | c :: cs, off, h, hl => by
    simp only [List.length_cons] at hl
    exact ⟨by rw [h.1]; omega, by rw [h.1]; omega, h.2.1,
      explicitCells_dense n cs (off + 1) h.2.2 (by omega)⟩

theorem valAt_dense (n : Nat) : ∀ (D : List Cell) (off k : Nat), Dense n off D →
    valAt off D k = if off < k then ((D[k - off - 1]?).map (·.val)).getD [] else []
  | [], _, _, _ => by simp [valAt]
  | c :: cs, off, k, h => by
    have he : effCol off c = off + 1 := by simp [effCol, h.1]
    simp only [valAt, he]
    by_cases hk : off + 1 = k
    · subst hk
      simp
    · rw [if_neg hk, valAt_dense n cs (off + 1) k h.2.2]
      by_cases h1 : off + 1 < k
      · have h2 : off < k := by omega
        obtain ⟨m, hm⟩ : ∃ m, k - off - 1 = m + 1 := ⟨k - off - 2, by omega⟩
        have h3 : k - (off + 1) - 1 = m := by omega
        simp [h1, h2, hm, h3]
      · have h2 : ¬ off < k := by omega
        simp [h1, h2]

/-! ## `crPlace`: the re-densification of a row -/

/-- references present and strictly ascending -/
def AscCols : Nat → List Cell → Prop
  | _, [] => True
  | lo, c :: cs => lo < c.col ∧ AscCols c.col cs

theorem ascCols_explicitize (n : Nat) : ∀ (cs : List Cell) (cc : Nat), ColsAsc cc cs →
    AscCols cc (explicitize n cc cs)
  | [], _, _ => trivial
  | c :: cs, cc, h => ⟨h.1, ascCols_explicitize n cs _ h.2⟩

theorem find_none_of_ascCols : ∀ (E : List Cell) (lo k : Nat), AscCols lo E → k ≤ lo →
    E.find? (fun c => c.col = k) = none
  | [], _, _, _, _ => rfl
  | c :: cs, lo, k, h, hk => by
    have : ¬ c.col = k := by have := h.1; omega
    simp only [List.find?_cons, this, decide_false]
    exact find_none_of_ascCols cs c.col k h.2 (by have := h.1; omega)

theorem valAt_ascCols : ∀ (E : List Cell) (lo cc k : Nat), AscCols lo E →
    valAt cc E k = match E.find? (fun c => c.col = k) with | some c => c.val | none => []
  | [], _, _, _, _ => rfl
  | c :: cs, lo, cc, k, h => by
    have hne : c.col ≠ 0 := by have := h.1; omega
    have he : effCol cc c = c.col := by simp [effCol, hne]
    simp only [valAt, he, List.find?_cons]
    by_cases hk : c.col = k
    · simp [hk]
    · simp only [hk, if_false, decide_false]
      exact valAt_ascCols cs c.col _ k h.2

theorem crPlace_spec : ∀ (E tgt : List Cell) (lo : Nat), AscCols lo E →
    (∀ c ∈ E, c.col ≤ tgt.length) →
    ∃ R, crPlace E tgt = .ok R ∧ R.length = tgt.length ∧
      ∀ j, R[j]? = match E.find? (fun c => c.col = j + 1) with
        | some c => some c
        | none => tgt[j]?
  | [], tgt, _, _, _ => ⟨tgt, rfl, rfl, fun _ => rfl⟩
  | c :: cs, tgt, lo, h, hb => by
    have hne : c.col ≠ 0 := by have := h.1; omega
    have hle : c.col ≤ tgt.length := hb c (List.mem_cons_self ..)
    have hnp : ¬ (c.col = 0 ∨ c.col > tgt.length) := by omega
    obtain ⟨R, hR, hlen, hget⟩ := crPlace_spec cs (tgt.set (c.col - 1) c) c.col h.2
      (fun x hx => by simpa using hb x (List.mem_cons_of_mem _ hx))
    refine ⟨R, by simp only [crPlace, hnp, if_false]; exact hR, by simpa using hlen, fun j => ?_⟩
    rw [hget j]
    simp only [List.find?_cons]
    by_cases hj : c.col = j + 1
    · have hnone := find_none_of_ascCols cs c.col (j + 1) h.2 (by omega)
      have hidx : c.col - 1 = j := by omega
      have hjl : j < tgt.length := by omega
      simp [hj, hnone, hidx, hjl]
    · simp only [hj, decide_false]
      cases hf : cs.find? (fun x => x.col = j + 1) with
      | some x => rfl
      | none =>
        have hidx : ¬ c.col - 1 = j := by omega
        simp [List.getElem?_set, hidx]

theorem le_lastCol : ∀ (E : List Cell) (lo : Nat), AscCols lo E →
    ∀ c ∈ E, c.col ≤ lastColOf E
  | [], _, _, _, hm => by cases hm
  | [a], _, _, c, hm => by simp only [List.mem_singleton] at hm; subst hm; simp [lastColOf]
  | a :: b :: t, lo, h, c, hm => by
    have hl : lastColOf (a :: b :: t) = lastColOf (b :: t) := by
      simp [lastColOf, List.getLast?_cons_cons]
    rw [hl]
    have ih := le_lastCol (b :: t) a.col h.2
    cases hm with
    | head => have := ih b (List.mem_cons_self ..); have := h.2.1; omega
    | tail _ hm' => exact ih c hm'

theorem foldl_max_eq : ∀ (E : List Cell) (m : Nat), (∀ c ∈ E, c.col ≤ m) →
    E.foldl (fun m c => if c.col > m then c.col else m) m = m
  | [], _, _ => rfl
  | c :: cs, m, h => by
    have : ¬ c.col > m := by have := h c (List.mem_cons_self ..); omega
    simp only [List.foldl_cons, this, if_false]
    exact foldl_max_eq cs m (fun x hx => h x (List.mem_cons_of_mem _ hx))

/-! ## `checkRow` on one row slot -/

theorem checkRowSizes_eq : Facts.C04.checkRowSizesByGreatest = true := by decide

theorem explicitCells_mem (n : Nat) : ∀ (E : List Cell), ExplicitCells n E →
    ∀ c ∈ E, c.col ≤ Facts.MaxColumns ∧ c.row = n
  | [], _, _, hm => by cases hm
  | x :: xs, h, c, hm => by
    cases hm with
    | head => exact ⟨h.2.1, h.2.2.1⟩
    | tail _ hm' => exact explicitCells_mem n xs h.2.2.2 c hm'

/-- what `checkRow` does to one row that satisfies the reader invariant: it succeeds, the
result carries every reference, satisfies the invariant again, and holds the same value at
every column. -/
theorem checkRow1_spec (idx : Nat) (r : Row) (h : ColsAsc 0 r.cells)
    (hr : RefsOK (idx + 1) r.cells) (hg : InGridCells 0 r.cells) :
    ∃ cells', checkRow1 idx r = .ok { r with cells := cells' } ∧ ColsAsc 0 cells' ∧
      ExplicitCells (idx + 1) cells' ∧ (∀ k, valAt 0 cells' k = valAt 0 r.cells k) ∧
      (r.cells = [] → cells' = []) := by
  by_cases hnil : r.cells = []
  · refine ⟨[], ?_, trivial, trivial, fun k => by rw [hnil], fun _ => rfl⟩
    unfold checkRow1
    simp only [hnil, List.isEmpty_nil, if_true]
    cases r; simp_all
  · have hne : r.cells.isEmpty = false := by
      cases hc : r.cells with
      | nil => exact absurd hc hnil
      | cons _ _ => rfl
    have hE := crAssign_eq (idx + 1) r.cells 0 h hr
    have hasc := ascCols_explicitize (idx + 1) r.cells 0 h
    have hexp := explicitCells_explicitize (idx + 1) r.cells 0 h hg
    have hcol := colsAsc_explicitize (idx + 1) r.cells 0 h
    have hval := valAt_explicitize (idx + 1) r.cells 0
    unfold checkRow1
    simp only [hne, Bool.false_eq_true, if_false, hE, checkRowSizes_eq, if_true]
    generalize hEdef : explicitize (idx + 1) 0 r.cells = E at *
    have hEne : E ≠ [] := by
      intro he
      have := explicitize_length (idx + 1) r.cells 0
      rw [hEdef, he] at this
      exact hnil (List.eq_nil_of_length_eq_zero this.symm)
    by_cases hd : E.length < lastColOf E
    · simp only [hd, if_true]
      have hle := le_lastCol E 0 hasc
      rw [foldl_max_eq E _ hle]
      have hLmax : lastColOf E ≤ Facts.MaxColumns := by
        unfold lastColOf
        cases hgl : E.getLast? with
        | none => simp
        | some x =>
          simp only
          exact (explicitCells_mem (idx + 1) E hexp x (List.mem_of_getLast? hgl)).1
      generalize hL : lastColOf E = L at *
      obtain ⟨R, hR, hlen, hget⟩ := crPlace_spec E
        ((List.range L).map fun j => { blankCell with col := j + 1, row := idx + 1 }) 0 hasc
        (fun c hc => by simpa using hle c hc)
      have hRlen : R.length = L := by simpa using hlen
      have hdense : Dense (idx + 1) 0 R := by
        apply dense_of_index
        intro j hj
        have hjs : R[j]? = some R[j] := List.getElem?_eq_getElem hj
        have hg' := hget j
        rw [hjs] at hg'
        cases hf : E.find? (fun c => c.col = j + 1) with
        | some c =>
          rw [hf] at hg'
          have hc : R[j] = c := Option.some.inj hg'
          have hp := List.find?_some hf
          have hm := List.mem_of_find?_eq_some hf
          rw [hc]
          exact ⟨by simpa using hp, (explicitCells_mem (idx + 1) E hexp c hm).2⟩
        | none =>
          rw [hf] at hg'
          have : j < L := by omega
          simp [this] at hg'
          rw [hg']
          exact ⟨by simp, rfl⟩
      refine ⟨R, by rw [hR], colsAsc_dense _ R 0 hdense,
        explicitCells_dense _ R 0 hdense (by omega), fun k => ?_, fun hn => absurd hn hnil⟩
      rw [valAt_dense _ R 0 k hdense, ← hval k h, valAt_ascCols E 0 0 k hasc]
      by_cases hk : 0 < k
      · have hk1 : k - 0 - 1 + 1 = k := by omega
        simp only [hk, if_true]
        rw [hget (k - 0 - 1), hk1]
        cases hf : E.find? (fun c => c.col = k) with
        | some c => rfl
        | none =>
          simp only [List.getElem?_map, Option.map_map]
          cases (List.range L)[k - 0 - 1]? <;> rfl
      · have hk0 : k = 0 := by omega
        subst hk0
        rw [find_none_of_ascCols E 0 0 hasc (Nat.le_refl _)]
        simp
    · simp only [hd, if_false]
      exact ⟨E, rfl, hcol, hexp, fun k => hval k h,
        fun hn => absurd hn hnil⟩

/-! ## `checkSheet` on a sheet whose rows carry their `r` attribute -/

/-- every `<row>` has an `r` attribute -/
def AllR : Sheet → Prop
  | [] => True
  | r :: rs => r.r ≠ 0 ∧ AllR rs

/-- the row slot `i` of the cached worksheet -/
def slotOf (s : Sheet) (i : Nat) : Row :=
  match s.find? (fun r => r.r = i + 1) with
  | some r => { r with r := i + 1 }
  | none => { emptyRow with r := i + 1 }

def lastR : Nat → Sheet → Nat
  | d, [] => d
  | _, r :: rs => lastR r.r rs

theorem lastNum_cons (a : Row) (t : Sheet) :
    lastNum (a :: t) = if t = [] then a.r else lastNum t := by
  cases t with
  | nil => simp [lastNum]
  | cons b t => simp [lastNum, List.getLast?_cons_cons]

theorem lastR_eq : ∀ (s : Sheet) (d : Nat), lastR d s = if s = [] then d else lastNum s
  | [], _ => by simp [lastR]
  | a :: t, d => by
    simp only [lastR, lastR_eq t a.r, lastNum_cons]
    simp

theorem checkSheetBounds_eq : Facts.C04.checkSheetBoundsRows = true := by decide

theorem cs1_allR : ∀ (s : Sheet) (st : CS1), RowsAsc st.row s → AllR s →
    s.foldl cs1Step st = ⟨lastR st.row s, st.r0, st.kept ++ s⟩
  | [], st, _, _ => by simp [lastR]
  | r :: rs, st, h, ha => by
    have he : effRow st.row r = r.r := by simp [effRow, ha.1]
    have hgt : st.row < r.r := by have := h.1; rwa [he] at this
    have hn : ¬ (r.r = 0 ∨ r.r = st.row) := by have := ha.1; omega
    have hstep : cs1Step st r = ⟨r.r, st.r0, st.kept ++ [r]⟩ := by
      unfold cs1Step
      simp only [hn, if_false]
      have : r.r > st.row := hgt
      simp [this]
    simp only [List.foldl_cons, hstep]
    rw [cs1_allR rs ⟨r.r, st.r0, st.kept ++ [r]⟩ (he ▸ h.2.2) ha.2]
    simp [lastR]

theorem find_none_rows : ∀ (s : Sheet) (lo k : Nat), RowsAsc lo s → AllR s → k ≤ lo →
    s.find? (fun r => r.r = k) = none
  | [], _, _, _, _, _ => rfl
  | r :: rs, lo, k, h, ha, hk => by
    have he : effRow lo r = r.r := by simp [effRow, ha.1]
    have hgt : lo < r.r := by have := h.1; rwa [he] at this
    have : ¬ r.r = k := by omega
    simp only [List.find?_cons, this, decide_false]
    exact find_none_rows rs r.r k (he ▸ h.2.2) ha.2 (by omega)

theorem foldl_set_get : ∀ (s : Sheet) (lo : Nat) (sl : List Row), RowsAsc lo s → AllR s → ∀ i,
    (s.foldl (fun sl r => sl.set (r.r - 1) r) sl)[i]? =
      if i < sl.length then
        (match s.find? (fun r => r.r = i + 1) with | some r => some r | none => sl[i]?)
      else none
  | [], _, sl, _, _, i => by
    by_cases hi : i < sl.length
    · simp [hi]
    · simp [hi, List.getElem?_eq_none (Nat.le_of_not_lt hi)]
  | r :: rs, lo, sl, h, ha, i => by
    have he : effRow lo r = r.r := by simp [effRow, ha.1]
    have hgt : lo < r.r := by have := h.1; rwa [he] at this
    simp only [List.foldl_cons]
    rw [foldl_set_get rs r.r (sl.set (r.r - 1) r) (he ▸ h.2.2) ha.2 i]
    simp only [List.length_set, List.find?_cons]
    by_cases hi : i < sl.length
    · simp only [hi, if_true]
      by_cases hr : r.r = i + 1
      · have hnone := find_none_rows rs r.r (i + 1) (he ▸ h.2.2) ha.2 (by omega)
        have hidx : r.r - 1 = i := by omega
        simp [hr, hnone, hidx, hi]
      · simp only [hr, decide_false]
        cases hf : rs.find? (fun x => x.r = i + 1) with
        | some x => rfl
        | none =>
          have hidx : ¬ r.r - 1 = i := by have := ha.1; omega
          simp [List.getElem?_set, hidx]
    · simp [hi]

theorem rowAttrs_any : ∀ (s : Sheet), RowAttrsOK s →
    s.any (fun r => decide (r.r > Facts.TotalRows)) = false
  | [], _ => rfl
  | r :: rs, h => by
    have : ¬ r.r > Facts.TotalRows := by have := h.1; omega
    simp [List.any_cons, this, rowAttrs_any rs h.2]

theorem range'_get (N i : Nat) (h : i < N) : (List.range' 0 N)[i]? = some i := by
  rw [← List.range_eq_range', List.getElem?_range h]

theorem range'_get_none (N i : Nat) (h : ¬ i < N) : (List.range' 0 N)[i]? = none := by
  apply List.getElem?_eq_none; simp; omega

/-- `checkSheet` on a sheet whose rows all carry `r`: slot `i` holds the row numbered `i+1`
(or an empty row), up to the last row number. -/
theorem checkSheet_allR (s : Sheet) (h : WF s) (ha : AllR s) (hb : RowAttrsOK s) :
    checkSheet s = .ok ((List.range' 0 (lastNum s)).map (slotOf s)) := by
  unfold checkSheet
  have hfold := cs1_allR s ⟨0, [], []⟩ h ha
  simp only [checkSheetBounds_eq, rowAttrs_any s hb, Bool.and_false, Bool.false_eq_true, if_false,
    hfold, List.nil_append, r0Rows]
  have hN : lastR 0 s = lastNum s := by
    rw [lastR_eq]
    by_cases hs : s = []
    · simp [hs, lastNum]
    · simp [hs]
  rw [hN]
  congr 1
  apply List.ext_getElem?
  intro i
  rw [List.getElem?_mapIdx, foldl_set_get s 0 _ h ha i]
  simp only [List.length_replicate, List.getElem?_map]
  by_cases hi : i < lastNum s
  · simp only [hi, if_true, range'_get _ _ hi, Option.map_some]
    unfold slotOf
    cases hf : s.find? (fun r => r.r = i + 1) with
    | some r => simp
    | none => simp [List.getElem?_replicate, hi]
  · simp [hi, range'_get_none _ _ hi]

/-! ## `checkRow` over all slots, and what the readers see afterwards -/

def SlotsOK : Nat → List Row → Prop
  | _, [] => True
  | i, a :: as => a.r = i + 1 ∧ ColsAsc 0 a.cells ∧ RefsOK (i + 1) a.cells ∧ InGridCells 0 a.cells ∧
      i + 1 ≤ Facts.TotalRows ∧ SlotsOK (i + 1) as

def LoadedRel : Nat → List Row → List Row → Prop
  | _, [], [] => True
  | i, a :: as, b :: bs => b.r = i + 1 ∧ b.hidden = a.hidden ∧ ColsAsc 0 b.cells ∧
      ExplicitCells (i + 1) b.cells ∧ (∀ k, valAt 0 b.cells k = valAt 0 a.cells k) ∧
      LoadedRel (i + 1) as bs
  | _, _, _ => False

theorem checkRows_spec : ∀ (slots : List Row) (i : Nat), SlotsOK i slots →
    ∃ out, checkRows i slots = .ok out ∧ LoadedRel i slots out
  | [], _, _ => ⟨[], rfl, trivial⟩
  | a :: as, i, h => by
    obtain ⟨cells', h1, hasc, hexp, hval, _⟩ := checkRow1_spec i a h.2.1 h.2.2.1 h.2.2.2.1
    obtain ⟨out', h2, hrel⟩ := checkRows_spec as (i + 1) h.2.2.2.2.2
    refine ⟨{ a with cells := cells' } :: out', ?_, h.1, rfl, hasc, hexp, hval, hrel⟩
    simp only [checkRows, h1, h2]

theorem loadedRel_wf : ∀ (slots out : List Row) (i : Nat), LoadedRel i slots out → RowsAsc i out
  | [], [], _, _ => trivial
  | _ :: as, b :: bs, i, h => by
    have he : effRow i b = i + 1 := by simp [effRow, h.1]
    exact ⟨by rw [he]; omega, h.2.2.1, by rw [he]; exact loadedRel_wf as bs (i + 1) h.2.2.2.2.2⟩
  | [], _ :: _, _, h => absurd h (by simp [LoadedRel])
  | _ :: _, [], _, h => absurd h (by simp [LoadedRel])

theorem loadedRel_explicit : ∀ (slots out : List Row) (i : Nat), SlotsOK i slots →
    LoadedRel i slots out → Explicit out
  | [], [], _, _, _ => trivial
  | _ :: as, b :: bs, i, hs, h => by
    refine ⟨by rw [h.1]; omega, by rw [h.1]; exact hs.2.2.2.2.1, by rw [h.1]; exact h.2.2.2.1,
      loadedRel_explicit as bs (i + 1) hs.2.2.2.2.2 h.2.2.2.2.2⟩
  | [], _ :: _, _, _, h => absurd h (by simp [LoadedRel])
  | _ :: _, [], _, _, h => absurd h (by simp [LoadedRel])

theorem loadedRel_value : ∀ (slots out : List Row) (i : Nat), SlotsOK i slots →
    LoadedRel i slots out → ∀ c k, valAt 0 (rowAt i out k) c = valAt 0 (rowAt i slots k) c
  | [], [], _, _, _, _, _ => rfl
  | a :: as, b :: bs, i, hs, h, c, k => by
    have he : effRow i b = i + 1 := by simp [effRow, h.1]
    have he' : effRow i a = i + 1 := by simp [effRow, hs.1]
    simp only [rowAt, he, he']
    by_cases hk : i + 1 = k
    · simp only [hk, if_true]; exact h.2.2.2.2.1 c
    · simp only [hk, if_false]
      exact loadedRel_value as bs (i + 1) hs.2.2.2.2.2 h.2.2.2.2.2 c k
  | [], _ :: _, _, _, h, _, _ => absurd h (by simp [LoadedRel])
  | _ :: _, [], _, _, h, _, _ => absurd h (by simp [LoadedRel])

/-! ## the slots of `checkSheet` are fit for `checkRow` and show the same grid -/

theorem rows_all : ∀ (s : Sheet) (cur : Nat), RowsAsc cur s → AllR s → Consistent cur s →
    InGrid cur s → ∀ r ∈ s, ColsAsc 0 r.cells ∧ RefsOK r.r r.cells ∧ InGridCells 0 r.cells ∧
      r.r ≤ Facts.TotalRows ∧ cur < r.r
  | [], _, _, _, _, _, _, hm => by cases hm
  | x :: xs, cur, h, ha, hc, hg, r, hm => by
    have he : effRow cur x = x.r := by simp [effRow, ha.1]
    cases hm with
    | head => exact ⟨h.2.1, he ▸ hc.1, hg.2.1, he ▸ hg.1, he ▸ h.1⟩
    | tail _ hm' =>
      have := rows_all xs x.r (he ▸ h.2.2) ha.2 (he ▸ hc.2) (he ▸ hg.2.2) r hm'
      have hlt : cur < x.r := he ▸ h.1
      exact ⟨this.1, this.2.1, this.2.2.1, this.2.2.2.1, by omega⟩

theorem rowAt_find : ∀ (s : Sheet) (cur k : Nat), AllR s →
    rowAt cur s k = match s.find? (fun r => r.r = k) with | some r => r.cells | none => []
  | [], _, _, _ => rfl
  | x :: xs, cur, k, ha => by
    have he : effRow cur x = x.r := by simp [effRow, ha.1]
    simp only [rowAt, he, List.find?_cons]
    by_cases hk : x.r = k
    · simp [hk]
    · simp only [hk, if_false, decide_false]
      exact rowAt_find xs x.r k ha.2

theorem le_lastNum_allR : ∀ (s : Sheet) (cur : Nat), RowsAsc cur s → AllR s →
    ∀ row ∈ s, row.r ≤ lastNum s
  | [], _, _, _, _, hm => by cases hm
  | a :: t, cur, h, ha, row, hm => by
    have he : effRow cur a = a.r := by simp [effRow, ha.1]
    rw [lastNum_cons]
    by_cases ht : t = []
    · subst ht
      simp only [List.mem_singleton] at hm
      subst hm; simp
    · simp only [ht, if_false]
      have ih := le_lastNum_allR t a.r (he ▸ h.2.2) ha.2
      cases hm with
      | head =>
        cases t with
        | nil => exact absurd rfl ht
        | cons b t' =>
          have hb := ih b (List.mem_cons_self ..)
          have heb : effRow a.r b = b.r := by simp [effRow, ha.2.1]
          have hlt : a.r < b.r := by have h3 := h.2.2.1; rw [he, heb] at h3; exact h3
          omega
      | tail _ hm' => exact ih row hm'

theorem slotOf_ok (s : Sheet) (h : WF s) (ha : AllR s) (hc : Consistent 0 s) (hg : InGrid 0 s)
    (i : Nat) : (slotOf s i).r = i + 1 ∧ ColsAsc 0 (slotOf s i).cells ∧
      RefsOK (i + 1) (slotOf s i).cells ∧ InGridCells 0 (slotOf s i).cells := by
  unfold slotOf
  cases hf : s.find? (fun r => r.r = i + 1) with
  | some r =>
    have hm := List.mem_of_find?_eq_some hf
    have hp : r.r = i + 1 := by simpa using List.find?_some hf
    have := rows_all s 0 h ha hc hg r hm
    exact ⟨rfl, this.1, hp ▸ this.2.1, this.2.2.1⟩
  | none =>
    refine ⟨rfl, trivial, ?_, trivial⟩
    intro c hcm
    exact absurd hcm (by simp [emptyRow])

theorem slotsOK_range (s : Sheet) (h : WF s) (ha : AllR s) (hc : Consistent 0 s)
    (hg : InGrid 0 s) : ∀ (n off : Nat), off + n ≤ Facts.TotalRows →
    SlotsOK off ((List.range' off n).map (slotOf s))
  | 0, _, _ => trivial
  | n + 1, off, hb => by
    have := slotOf_ok s h ha hc hg off
    simp only [List.range'_succ, List.map_cons]
    exact ⟨this.1, this.2.1, this.2.2.1, this.2.2.2, by omega,
      slotsOK_range s h ha hc hg n (off + 1) (by omega)⟩

theorem rowAt_range (s : Sheet) : ∀ (n off k : Nat),
    rowAt off ((List.range' off n).map (slotOf s)) k =
      if off < k ∧ k ≤ off + n then (slotOf s (k - 1)).cells else []
  | 0, off, k => by
    have : ¬ (off < k ∧ k ≤ off + 0) := by omega
    rw [if_neg this]; rfl
  | n + 1, off, k => by
    have hr : (slotOf s off).r = off + 1 := by
      unfold slotOf; cases s.find? (fun r => r.r = off + 1) <;> rfl
    have he : effRow off (slotOf s off) = off + 1 := by simp [effRow, hr]
    simp only [List.range'_succ, List.map_cons, rowAt, he]
    by_cases hk : off + 1 = k
    · have : off < k ∧ k ≤ off + (n + 1) := by omega
      subst hk
      simp [this]
    · rw [if_neg hk, rowAt_range s n (off + 1) k]
      by_cases h1 : off + 1 < k ∧ k ≤ off + 1 + n
      · have : off < k ∧ k ≤ off + (n + 1) := by omega
        simp [h1, this]
      · have : ¬ (off < k ∧ k ≤ off + (n + 1)) := by omega
        simp [h1, this]

/-- caching a worksheet whose rows all carry `r` (cells may lack it): `load` succeeds, the
cached form satisfies the invariant, carries every reference, and denotes the same grid. -/
theorem load_allR (s : Sheet) (h : WF s) (ha : AllR s) (hb : RowAttrsOK s)
    (hc : Consistent 0 s) (hg : InGrid 0 s) :
    ∃ s', load s = .ok s' ∧ WF s' ∧ Explicit s' ∧ ∀ c k, value s' c k = value s c k := by
  have hN : 0 + lastNum s ≤ Facts.TotalRows := by
    unfold lastNum
    cases hl : s.getLast? with
    | none => simp
    | some r =>
      have := (rows_all s 0 h ha hc hg r (List.mem_of_getLast? hl)).2.2.2.1
      simpa using this
  have hok := slotsOK_range s h ha hc hg (lastNum s) 0 hN
  obtain ⟨out, hout, hrel⟩ := checkRows_spec _ 0 hok
  refine ⟨out, ?_, loadedRel_wf _ out 0 hrel, loadedRel_explicit _ out 0 hok hrel, fun c k => ?_⟩
  · unfold load; rw [checkSheet_allR s h ha hb]; exact hout
  · unfold value
    rw [loadedRel_value _ out 0 hok hrel c k, rowAt_range s (lastNum s) 0 k, rowAt_find s 0 k ha]
    by_cases hk : 0 < k ∧ k ≤ 0 + lastNum s
    · have hk1 : k - 1 + 1 = k := by omega
      simp only [hk, and_self, if_true]
      unfold slotOf
      rw [hk1]
      cases s.find? (fun r => r.r = k) <;> rfl
    · simp only [hk, if_false]
      have hnone : s.find? (fun r => r.r = k) = none := by
        cases hf : s.find? (fun r => r.r = k) with
        | none => rfl
        | some r =>
          have hm := List.mem_of_find?_eq_some hf
          have hp : r.r = k := by simpa using List.find?_some hf
          have h1 := le_lastNum_allR s 0 h ha r hm
          have h2 := (rows_all s 0 h ha hc hg r hm).2.2.2.2
          omega
      rw [hnone]

theorem consistent_of_explicit : ∀ (s : Sheet) (cur : Nat), Explicit s → Consistent cur s
  | [], _, _ => trivial
  | r :: rs, cur, h => by
    have he : effRow cur r = r.r := by simp [effRow, h.1]
    refine ⟨?_, ?_⟩
    · rw [he]; intro c hc _; exact (explicitCells_mem r.r r.cells h.2.2.1 c hc).2
    · rw [he]; exact consistent_of_explicit rs r.r h.2.2.2

theorem inGridCells_of_explicit (n : Nat) : ∀ (cs : List Cell) (cc : Nat), ExplicitCells n cs →
    InGridCells cc cs
  | [], _, _ => trivial
  | c :: cs, cc, h => by
    have he : effCol cc c = c.col := by simp [effCol, h.1]
    exact ⟨by rw [he]; exact h.2.1, by rw [he]; exact inGridCells_of_explicit n cs c.col h.2.2.2⟩

theorem inGrid_of_explicit : ∀ (s : Sheet) (cur : Nat), Explicit s → InGrid cur s
  | [], _, _ => trivial
  | r :: rs, cur, h => by
    have he : effRow cur r = r.r := by simp [effRow, h.1]
    exact ⟨by rw [he]; exact h.2.1, inGridCells_of_explicit r.r r.cells 0 h.2.2.1,
      by rw [he]; exact inGrid_of_explicit rs r.r h.2.2.2⟩

end XlModel.Readers
