/-
Helper lemmas for C04's caching theorem (`load_pure`): what `checkRow`
(`crAssign`, `crPlace`) and `checkSheet` do to a worksheet that satisfies the
reader invariant, and that no reader can tell the difference.
-/
import XlModel.Lemmas.Readers

namespace XlModel.Readers

/-! ## `crAssign`: every cell gets its effective position as reference -/

def explicitize (n : Nat) : Nat → List Cell → List Cell
  | _, [] => []
  | cc, c :: cs => { c with col := effCol cc c, row := n } :: explicitize n (effCol cc c) cs

theorem crAssign_eq (n : Nat) : ∀ (cs : List Cell) (cc : Nat), ColsAsc cc cs → RefsOK n cs →
    crAssign n cc cs = explicitize n cc cs
  | [], _, _, _ => rfl
  | c :: cs, cc, h, hr => by
    have hr' : RefsOK n cs := fun x hx => hr x (List.mem_cons_of_mem _ hx)
    have hlt : cc < effCol cc c := h.1
    by_cases hc : c.col ≠ 0
    · have he : effCol cc c = c.col := by simp [effCol, hc]
      have hrow : c.row = n := hr c (List.mem_cons_self ..) hc
      have hmax : (if c.col > cc + 1 then c.col else cc + 1) = c.col := by
        rw [he] at hlt; split <;> omega
      simp only [crAssign, hc, if_true, explicitize, hmax, ne_eq, not_false_eq_true]
      rw [he, crAssign_eq n cs c.col (he ▸ h.2) hr']
      congr 1
      cases c
      simp only at hrow
      simp [hrow]
    · have hc0 : c.col = 0 := by simpa using hc
      have he : effCol cc c = cc + 1 := by simp [effCol, hc0]
      simp only [crAssign, hc, if_false, explicitize, he]
      rw [crAssign_eq n cs (cc + 1) (he ▸ h.2) hr']

theorem explicitize_length (n : Nat) : ∀ (cs : List Cell) (cc : Nat),
    (explicitize n cc cs).length = cs.length
  | [], _ => rfl
  | c :: cs, cc => by simp [explicitize, explicitize_length n cs]

theorem effCol_explicitized {cc' e n : Nat} {c : Cell} (he : e ≠ 0) :
    effCol cc' { c with col := e, row := n } = e := by simp [effCol, he]

theorem colsAsc_explicitize (n : Nat) : ∀ (cs : List Cell) (cc : Nat), ColsAsc cc cs →
    ColsAsc cc (explicitize n cc cs)
  | [], _, _ => trivial
  | c :: cs, cc, h => by
    have hne : effCol cc c ≠ 0 := by have := h.1; omega
    refine ⟨?_, ?_⟩
    · show cc < effCol cc { c with col := effCol cc c, row := n }
      rw [effCol_explicitized hne]; exact h.1
    · show ColsAsc (effCol cc { c with col := effCol cc c, row := n }) _
      rw [effCol_explicitized hne]; exact colsAsc_explicitize n cs _ h.2

theorem explicitCells_explicitize (n : Nat) : ∀ (cs : List Cell) (cc : Nat), ColsAsc cc cs →
    InGridCells cc cs → ExplicitCells n (explicitize n cc cs)
  | [], _, _, _ => trivial
  | c :: cs, cc, h, hg => by
    have hne : effCol cc c ≠ 0 := by have := h.1; omega
    exact ⟨hne, hg.1, rfl, explicitCells_explicitize n cs _ h.2 hg.2⟩

theorem valAt_explicitize (n : Nat) : ∀ (cs : List Cell) (cc k : Nat), ColsAsc cc cs →
    valAt cc (explicitize n cc cs) k = valAt cc cs k
  | [], _, _, _ => rfl
  | c :: cs, cc, k, h => by
    have hne : effCol cc c ≠ 0 := by have := h.1; omega
    simp only [explicitize, valAt, effCol_explicitized hne]
    rw [valAt_explicitize n cs _ k h.2]

/-- the streaming row reader sees exactly the same items -/
theorem cellItems_explicitize (n : Nat) : ∀ (cs : List Cell) (cc : Nat), ColsAsc cc cs →
    cellItems cc (explicitize n cc cs) = cellItems cc cs
  | [], _, _ => rfl
  | c :: cs, cc, h => by
    have hne : effCol cc c ≠ 0 := by have := h.1; omega
    simp only [explicitize, cellItems, effCol_explicitized hne]
    rw [cellItems_explicitize n cs _ h.2]
    rfl

theorem hitsCells_explicitize (n m : Nat) (needle : Val) : ∀ (cs : List Cell) (cc : Nat),
    ColsAsc cc cs → hitsCells m needle cc (explicitize n cc cs) = hitsCells m needle cc cs
  | [], _, _ => rfl
  | c :: cs, cc, h => by
    have hne : effCol cc c ≠ 0 := by have := h.1; omega
    simp only [explicitize, hitsCells, effCol_explicitized hne]
    rw [hitsCells_explicitize n m needle cs _ h.2]

/-! ## dense explicit rows -/

/-- cells at consecutive positions `off+1, off+2, …` carrying their reference in row `n` -/
def Dense (n : Nat) : Nat → List Cell → Prop
  | _, [] => True
  | off, c :: cs => c.col = off + 1 ∧ c.row = n ∧ Dense n (off + 1) cs

theorem dense_of_index (n : Nat) : ∀ (D : List Cell) (off : Nat),
    (∀ j (h : j < D.length), D[j].col = off + j + 1 ∧ D[j].row = n) → Dense n off D
  | [], _, _ => trivial
  | c :: cs, off, h => by
    have h0 := h 0 (by simp)
    refine ⟨by simpa using h0.1, by simpa using h0.2, dense_of_index n cs (off + 1) ?_⟩
    intro j hj
    have := h (j + 1) (by simp; omega)
    simp only [List.getElem_cons_succ] at this
    exact ⟨by omega, this.2⟩

theorem colsAsc_dense (n : Nat) : ∀ (D : List Cell) (off : Nat), Dense n off D → ColsAsc off D
  | [], _, _ => trivial
  | c :: cs, off, h => by
    have he : effCol off c = off + 1 := by simp [effCol, h.1]
    exact ⟨by rw [he]; omega, by rw [he]; exact colsAsc_dense n cs _ h.2.2⟩

theorem explicitCells_dense (n : Nat) : ∀ (D : List Cell) (off : Nat), Dense n off D →
    off + D.length ≤ Facts.MaxColumns → ExplicitCells n D
  | [], _, _, _ => trivial
  | c :: cs, off, h, hl => by
    simp only [List.length_cons] at hl
    exact ⟨by rw [h.1]; omega, by rw [h.1]; omega, h.2.1,
      explicitCells_dense n cs (off + 1) h.2.2 (by omega)⟩

theorem valAt_dense (n : Nat) : ∀ (D : List Cell) (off k : Nat), Dense n off D →
    valAt off D k = if off < k then ((D[k - off - 1]?).map (·.val)).getD [] else []
  | [], _, _, _ => by simp [valAt]
  | c :: cs, off, k, h => by
    have he : effCol off c = off + 1 := by simp [effCol, h.1]
    simp only [valAt, he]
    by_cases hk : off + 1 = k
    · subst hk
      simp
    · rw [if_neg hk, valAt_dense n cs (off + 1) k h.2.2]
      by_cases h1 : off + 1 < k
      · have h2 : off < k := by omega
        obtain ⟨m, hm⟩ : ∃ m, k - off - 1 = m + 1 := ⟨k - off - 2, by omega⟩
        have h3 : k - (off + 1) - 1 = m := by omega
        simp [h1, h2, hm, h3]
      · have h2 : ¬ off < k := by omega
        simp [h1, h2]

/-! ## `crPlace`: the re-densification of a row -/

/-- references present and strictly ascending -/
def AscCols : Nat → List Cell → Prop
  | _, [] => True
  | lo, c :: cs => lo < c.col ∧ AscCols c.col cs

theorem ascCols_explicitize (n : Nat) : ∀ (cs : List Cell) (cc : Nat), ColsAsc cc cs →
    AscCols cc (explicitize n cc cs)
  | [], _, _ => trivial
  | c :: cs, cc, h => ⟨h.1, ascCols_explicitize n cs _ h.2⟩

theorem find_none_of_ascCols : ∀ (E : List Cell) (lo k : Nat), AscCols lo E → k ≤ lo →
    E.find? (fun c => c.col = k) = none
  | [], _, _, _, _ => rfl
  | c :: cs, lo, k, h, hk => by
    have : ¬ c.col = k := by have := h.1; omega
    simp only [List.find?_cons, this, decide_false]
    exact find_none_of_ascCols cs c.col k h.2 (by have := h.1; omega)

theorem valAt_ascCols : ∀ (E : List Cell) (lo cc k : Nat), AscCols lo E →
    valAt cc E k = match E.find? (fun c => c.col = k) with | some c => c.val | none => []
  | [], _, _, _, _ => rfl
  | c :: cs, lo, cc, k, h => by
    have hne : c.col ≠ 0 := by have := h.1; omega
    have he : effCol cc c = c.col := by simp [effCol, hne]
    simp only [valAt, he, List.find?_cons]
    by_cases hk : c.col = k
    · simp [hk]
    · simp only [hk, if_false, decide_false]
      exact valAt_ascCols cs c.col _ k h.2

theorem crPlace_spec : ∀ (E tgt : List Cell) (lo : Nat), AscCols lo E →
    (∀ c ∈ E, c.col ≤ tgt.length) →
    ∃ R, crPlace E tgt = .ok R ∧ R.length = tgt.length ∧
      ∀ j, R[j]? = match E.find? (fun c => c.col = j + 1) with
        | some c => some c
        | none => tgt[j]?
  | [], tgt, _, _, _ => ⟨tgt, rfl, rfl, fun _ => rfl⟩
  | c :: cs, tgt, lo, h, hb => by
    have hne : c.col ≠ 0 := by have := h.1; omega
    have hle : c.col ≤ tgt.length := hb c (List.mem_cons_self ..)
    have hnp : ¬ (c.col = 0 ∨ c.col > tgt.length) := by omega
    obtain ⟨R, hR, hlen, hget⟩ := crPlace_spec cs (tgt.set (c.col - 1) c) c.col h.2
      (fun x hx => by simpa using hb x (List.mem_cons_of_mem _ hx))
    refine ⟨R, by simp only [crPlace, hnp, if_false]; exact hR, by simpa using hlen, fun j => ?_⟩
    rw [hget j]
    simp only [List.find?_cons]
    by_cases hj : c.col = j + 1
    · have hnone := find_none_of_ascCols cs c.col (j + 1) h.2 (by omega)
      have hidx : c.col - 1 = j := by omega
      have hjl : j < tgt.length := by omega
      simp [hj, hnone, hidx, hjl]
    · simp only [hj, decide_false]
      cases hf : cs.find? (fun x => x.col = j + 1) with
      | some x => rfl
      | none =>
        have hidx : ¬ c.col - 1 = j := by omega
        simp [List.getElem?_set, hidx]

theorem le_lastCol : ∀ (E : List Cell) (lo : Nat), AscCols lo E →
    ∀ c ∈ E, c.col ≤ lastColOf E
  | [], _, _, _, hm => by cases hm
  | [a], _, _, c, hm => by simp only [List.mem_singleton] at hm; subst hm; simp [lastColOf]
  | a :: b :: t, lo, h, c, hm => by
    have hl : lastColOf (a :: b :: t) = lastColOf (b :: t) := by
      simp [lastColOf, List.getLast?_cons_cons]
    rw [hl]
    have ih := le_lastCol (b :: t) a.col h.2
    cases hm with
    | head => have := ih b (List.mem_cons_self ..); have := h.2.1; omega
    | tail _ hm' => exact ih c hm'

theorem foldl_max_eq : ∀ (E : List Cell) (m : Nat), (∀ c ∈ E, c.col ≤ m) →
    E.foldl (fun m c => if c.col > m then c.col else m) m = m
  | [], _, _ => rfl
  | c :: cs, m, h => by
    have : ¬ c.col > m := by have := h c (List.mem_cons_self ..); omega
    simp only [List.foldl_cons, this, if_false]
    exact foldl_max_eq cs m (fun x hx => h x (List.mem_cons_of_mem _ hx))

/-! ## `checkRow` on one row slot -/

theorem checkRowSizes_eq : Facts.C04.checkRowSizesByGreatest = true := by decide

theorem explicitCells_mem (n : Nat) : ∀ (E : List Cell), ExplicitCells n E →
    ∀ c ∈ E, c.col ≤ Facts.MaxColumns ∧ c.row = n
  | [], _, _, hm => by cases hm
  | x :: xs, h, c, hm => by
    cases hm with
    | head => exact ⟨h.2.1, h.2.2.1⟩
    | tail _ hm' => exact explicitCells_mem n xs h.2.2.2 c hm'

/-- what `checkRow` does to one row that satisfies the reader invariant: it succeeds, the
result carries every reference, satisfies the invariant again, and holds the same value at
every column. -/
theorem checkRow1_spec (idx : Nat) (r : Row) (h : ColsAsc 0 r.cells)
    (hr : RefsOK (idx + 1) r.cells) (hg : InGridCells 0 r.cells) :
    ∃ cells', checkRow1 idx r = .ok { r with cells := cells' } ∧ ColsAsc 0 cells' ∧
      ExplicitCells (idx + 1) cells' ∧ (∀ k, valAt 0 cells' k = valAt 0 r.cells k) ∧
      (r.cells = [] → cells' = []) := by
  by_cases hnil : r.cells = []
  · refine ⟨[], ?_, trivial, trivial, fun k => by rw [hnil], fun _ => rfl⟩
    unfold checkRow1
    simp only [hnil, List.isEmpty_nil, if_true]
    cases r; simp_all
  · have hne : r.cells.isEmpty = false := by
      cases hc : r.cells with
      | nil => exact absurd hc hnil
      | cons _ _ => rfl
    have hE := crAssign_eq (idx + 1) r.cells 0 h hr
    have hasc := ascCols_explicitize (idx + 1) r.cells 0 h
    have hexp := explicitCells_explicitize (idx + 1) r.cells 0 h hg
    have hcol := colsAsc_explicitize (idx + 1) r.cells 0 h
    have hval := valAt_explicitize (idx + 1) r.cells 0
    unfold checkRow1
    simp only [hne, Bool.false_eq_true, if_false, hE, checkRowSizes_eq, if_true]
    generalize hEdef : explicitize (idx + 1) 0 r.cells = E at *
    have hEne : E ≠ [] := by
      intro he
      have := explicitize_length (idx + 1) r.cells 0
      rw [hEdef, he] at this
      exact hnil (List.eq_nil_of_length_eq_zero this.symm)
    by_cases hd : E.length < lastColOf E
    · simp only [hd, if_true]
      have hle := le_lastCol E 0 hasc
      rw [foldl_max_eq E _ hle]
      have hLmax : lastColOf E ≤ Facts.MaxColumns := by
        unfold lastColOf
        cases hgl : E.getLast? with
        | none => simp
        | some x =>
          simp only
          exact (explicitCells_mem (idx + 1) E hexp x (List.mem_of_getLast? hgl)).1
      generalize hL : lastColOf E = L at *
      obtain ⟨R, hR, hlen, hget⟩ := crPlace_spec E
        ((List.range L).map fun j => { blankCell with col := j + 1, row := idx + 1 }) 0 hasc
        (fun c hc => by simpa using hle c hc)
      have hRlen : R.length = L := by simpa using hlen
      have hdense : Dense (idx + 1) 0 R := by
        apply dense_of_index
        intro j hj
        have hjs : R[j]? = some R[j] := List.getElem?_eq_getElem hj
        have hg' := hget j
        rw [hjs] at hg'
        cases hf : E.find? (fun c => c.col = j + 1) with
        | some c =>
          rw [hf] at hg'
          have hc : R[j] = c := Option.some.inj hg'
          have hp := List.find?_some hf
          have hm := List.mem_of_find?_eq_some hf
          rw [hc]
          exact ⟨by simpa using hp, (explicitCells_mem (idx + 1) E hexp c hm).2⟩
        | none =>
          rw [hf] at hg'
          have : j < L := by omega
          simp [this] at hg'
          rw [hg']
          exact ⟨by simp, rfl⟩
      refine ⟨R, by rw [hR], colsAsc_dense _ R 0 hdense,
        explicitCells_dense _ R 0 hdense (by omega), fun k => ?_, fun hn => absurd hn hnil⟩
      rw [valAt_dense _ R 0 k hdense, ← hval k h, valAt_ascCols E 0 0 k hasc]
      by_cases hk : 0 < k
      · have hk1 : k - 0 - 1 + 1 = k := by omega
        simp only [hk, if_true]
        rw [hget (k - 0 - 1), hk1]
        cases hf : E.find? (fun c => c.col = k) with
        | some c => rfl
        | none =>
          simp only [List.getElem?_map, Option.map_map]
          cases (List.range L)[k - 0 - 1]? <;> rfl
      · have hk0 : k = 0 := by omega
        subst hk0
        rw [find_none_of_ascCols E 0 0 hasc (Nat.le_refl _)]
        simp
    · simp only [hd, if_false]
      exact ⟨E, rfl, hcol, hexp, fun k => hval k h,
        fun hn => absurd hn hnil⟩

/-! ## `checkSheet` on a sheet whose rows carry their `r` attribute -/

/-- every `<row>` has an `r` attribute -/
def AllR : Sheet → Prop
  | [] => True
  | r :: rs => r.r ≠ 0 ∧ AllR rs

/-- the row slot `i` of the cached worksheet -/
def slotOf (s : Sheet) (i : Nat) : Row :=
  match s.find? (fun r => r.r = i + 1) with
  | some r => { r with r := i + 1 }
  | none => { emptyRow with r := i + 1 }

def lastR : Nat → Sheet → Nat
  | d, [] => d
  | _, r :: rs => lastR r.r rs

theorem lastNum_cons (a : Row) (t : Sheet) :
    lastNum (a :: t) = if t = [] then a.r else lastNum t := by
  cases t with
  | nil => simp [lastNum]
  | cons b t => simp [lastNum, List.getLast?_cons_cons]

theorem lastR_eq : ∀ (s : Sheet) (d : Nat), lastR d s = if s = [] then d else lastNum s
  | [], _ => by simp [lastR]
  | a :: t, d => by
    simp only [lastR, lastR_eq t a.r, lastNum_cons]
    simp

theorem checkSheetBounds_eq : Facts.C04.checkSheetBoundsRows = true := by decide

theorem cs1_allR : ∀ (s : Sheet) (st : CS1), RowsAsc st.row s → AllR s →
    s.foldl cs1Step st = ⟨lastR st.row s, st.r0, st.kept ++ s⟩
  | [], st, _, _ => by simp [lastR]
  | r :: rs, st, h, ha => by
    have he : effRow st.row r = r.r := by simp [effRow, ha.1]
    have hgt : st.row < r.r := by have := h.1; rwa [he] at this
    have hn : ¬ (r.r = 0 ∨ r.r = st.row) := by have := ha.1; omega
    have hstep : cs1Step st r = ⟨r.r, st.r0, st.kept ++ [r]⟩ := by
      unfold cs1Step
      simp only [hn, if_false]
      have : r.r > st.row := hgt
      simp [this]
    simp only [List.foldl_cons, hstep]
    rw [cs1_allR rs ⟨r.r, st.r0, st.kept ++ [r]⟩ (he ▸ h.2.2) ha.2]
    simp [lastR]

theorem find_none_rows : ∀ (s : Sheet) (lo k : Nat), RowsAsc lo s → AllR s → k ≤ lo →
    s.find? (fun r => r.r = k) = none
  | [], _, _, _, _, _ => rfl
  | r :: rs, lo, k, h, ha, hk => by
    have he : effRow lo r = r.r := by simp [effRow, ha.1]
    have hgt : lo < r.r := by have := h.1; rwa [he] at this
    have : ¬ r.r = k := by omega
    simp only [List.find?_cons, this, decide_false]
    exact find_none_rows rs r.r k (he ▸ h.2.2) ha.2 (by omega)

theorem foldl_set_get : ∀ (s : Sheet) (lo : Nat) (sl : List Row), RowsAsc lo s → AllR s → ∀ i,
    (s.foldl (fun sl r => sl.set (r.r - 1) r) sl)[i]? =
      if i < sl.length then
        (match s.find? (fun r => r.r = i + 1) with | some r => some r | none => sl[i]?)
      else none
  | [], _, sl, _, _, i => by
    by_cases hi : i < sl.length
    · simp [hi]
    · simp [hi, List.getElem?_eq_none (Nat.le_of_not_lt hi)]
  | r :: rs, lo, sl, h, ha, i => by
    have he : effRow lo r = r.r := by simp [effRow, ha.1]
    have hgt : lo < r.r := by have := h.1; rwa [he] at this
    simp only [List.foldl_cons]
    rw [foldl_set_get rs r.r (sl.set (r.r - 1) r) (he ▸ h.2.2) ha.2 i]
    simp only [List.length_set, List.find?_cons]
    by_cases hi : i < sl.length
    · simp only [hi, if_true]
      by_cases hr : r.r = i + 1
      · have hnone := find_none_rows rs r.r (i + 1) (he ▸ h.2.2) ha.2 (by omega)
        have hidx : r.r - 1 = i := by omega
        simp [hr, hnone, hidx, hi]
      · simp only [hr, decide_false]
        cases hf : rs.find? (fun x => x.r = i + 1) with
        | some x => rfl
        | none =>
          have hidx : ¬ r.r - 1 = i := by have := ha.1; omega
          simp [List.getElem?_set, hidx]
    · simp [hi]

theorem rowAttrs_any : ∀ (s : Sheet), RowAttrsOK s →
    s.any (fun r => decide (r.r > Facts.TotalRows)) = false
  | [], _ => rfl
  | r :: rs, h => by
    have : ¬ r.r > Facts.TotalRows := by have := h.1; omega
    simp [List.any_cons, this, rowAttrs_any rs h.2]

theorem range'_get (N i : Nat) (h : i < N) : (List.range' 0 N)[i]? = some i := by
  rw [← List.range_eq_range', List.getElem?_range h]

theorem range'_get_none (N i : Nat) (h : ¬ i < N) : (List.range' 0 N)[i]? = none := by
  apply List.getElem?_eq_none; simp; omega

/-- `checkSheet` on a sheet whose rows all carry `r`: slot `i` holds the row numbered `i+1`
(or an empty row), up to the last row number. -/
theorem checkSheet_allR (s : Sheet) (h : WF s) (ha : AllR s) (hb : RowAttrsOK s) :
    checkSheet s = .ok ((List.range' 0 (lastNum s)).map (slotOf s)) := by
  unfold checkSheet
  have hfold := cs1_allR s ⟨0, [], []⟩ h ha
  simp only [checkSheetBounds_eq, rowAttrs_any s hb, Bool.and_false, Bool.false_eq_true, if_false,
    hfold, List.nil_append, r0Rows]
  have hN : lastR 0 s = lastNum s := by
    rw [lastR_eq]
    by_cases hs : s = []
    · simp [hs, lastNum]
    · simp [hs]
  rw [hN]
  congr 1
  apply List.ext_getElem?
  intro i
  rw [List.getElem?_mapIdx, foldl_set_get s 0 _ h ha i]
  simp only [List.length_replicate, List.getElem?_map]
  by_cases hi : i < lastNum s
  · simp only [hi, if_true, range'_get _ _ hi, Option.map_some]
    unfold slotOf
    cases hf : s.find? (fun r => r.r = i + 1) with
    | some r => simp
    | none => simp [List.getElem?_replicate, hi]
  · simp [hi, range'_get_none _ _ hi]

/-! ## `checkRow` over all slots, and what the readers see afterwards -/

def SlotsOK : Nat → List Row → Prop
  | _, [] => True
  | i, a :: as => a.r = i + 1 ∧ ColsAsc 0 a.cells ∧ RefsOK (i + 1) a.cells ∧ InGridCells 0 a.cells ∧
      i + 1 ≤ Facts.TotalRows ∧ SlotsOK (i + 1) as

def LoadedRel : Nat → List Row → List Row → Prop
  | _, [], [] => True
  | i, a :: as, b :: bs => b.r = i + 1 ∧ b.hidden = a.hidden ∧ ColsAsc 0 b.cells ∧
      ExplicitCells (i + 1) b.cells ∧ (∀ k, valAt 0 b.cells k = valAt 0 a.cells k) ∧
      LoadedRel (i + 1) as bs
  | _, _, _ => False

theorem checkRows_spec : ∀ (slots : List Row) (i : Nat), SlotsOK i slots →
    ∃ out, checkRows i slots = .ok out ∧ LoadedRel i slots out
  | [], _, _ => ⟨[], rfl, trivial⟩
  | a :: as, i, h => by
    obtain ⟨cells', h1, hasc, hexp, hval, _⟩ := checkRow1_spec i a h.2.1 h.2.2.1 h.2.2.2.1
    obtain ⟨out', h2, hrel⟩ := checkRows_spec as (i + 1) h.2.2.2.2.2
    refine ⟨{ a with cells := cells' } :: out', ?_, h.1, rfl, hasc, hexp, hval, hrel⟩
    simp only [checkRows, h1, h2]

theorem loadedRel_wf : ∀ (slots out : List Row) (i : Nat), LoadedRel i slots out → RowsAsc i out
  | [], [], _, _ => trivial
  | _ :: as, b :: bs, i, h => by
    have he : effRow i b = i + 1 := by simp [effRow, h.1]
    exact ⟨by rw [he]; omega, h.2.2.1, by rw [he]; exact loadedRel_wf as bs (i + 1) h.2.2.2.2.2⟩
  | [], _ :: _, _, h => absurd h (by simp [LoadedRel])
  | _ :: _, [], _, h => absurd h (by simp [LoadedRel])

theorem loadedRel_explicit : ∀ (slots out : List Row) (i : Nat), SlotsOK i slots →
    LoadedRel i slots out → Explicit out
  | [], [], _, _, _ => trivial
  | _ :: as, b :: bs, i, hs, h => by
    refine ⟨by rw [h.1]; omega, by rw [h.1]; exact hs.2.2.2.2.1, by rw [h.1]; exact h.2.2.2.1,
      loadedRel_explicit as bs (i + 1) hs.2.2.2.2.2 h.2.2.2.2.2⟩
  | [], _ :: _, _, _, h => absurd h (by simp [LoadedRel])
  | _ :: _, [], _, _, h => absurd h (by simp [LoadedRel])

theorem loadedRel_value : ∀ (slots out : List Row) (i : Nat), SlotsOK i slots →
    LoadedRel i slots out → ∀ c k, valAt 0 (rowAt i out k) c = valAt 0 (rowAt i slots k) c
  | [], [], _, _, _, _, _ => rfl
  | a :: as, b :: bs, i, hs, h, c, k => by
    have he : effRow i b = i + 1 := by simp [effRow, h.1]
    have he' : effRow i a = i + 1 := by simp [effRow, hs.1]
    simp only [rowAt, he, he']
    by_cases hk : i + 1 = k
    · simp only [hk, if_true]; exact h.2.2.2.2.1 c
    · simp only [hk, if_false]
      exact loadedRel_value as bs (i + 1) hs.2.2.2.2.2 h.2.2.2.2.2 c k
  | [], _ :: _, _, _, h, _, _ => absurd h (by simp [LoadedRel])
  | _ :: _, [], _, _, h, _, _ => absurd h (by simp [LoadedRel])

/-! ## the slots of `checkSheet` are fit for `checkRow` and show the same grid -/

theorem rows_all : ∀ (s : Sheet) (cur : Nat), RowsAsc cur s → AllR s → Consistent cur s →
    InGrid cur s → ∀ r ∈ s, ColsAsc 0 r.cells ∧ RefsOK r.r r.cells ∧ InGridCells 0 r.cells ∧
      r.r ≤ Facts.TotalRows ∧ cur < r.r
  | [], _, _, _, _, _, _, hm => by cases hm
  | x :: xs, cur, h, ha, hc, hg, r, hm => by
    have he : effRow cur x = x.r := by simp [effRow, ha.1]
    cases hm with
    | head => exact ⟨h.2.1, he ▸ hc.1, hg.2.1, he ▸ hg.1, he ▸ h.1⟩
    | tail _ hm' =>
      have := rows_all xs x.r (he ▸ h.2.2) ha.2 (he ▸ hc.2) (he ▸ hg.2.2) r hm'
      have hlt : cur < x.r := he ▸ h.1
      exact ⟨this.1, this.2.1, this.2.2.1, this.2.2.2.1, by omega⟩

theorem rowAt_find : ∀ (s : Sheet) (cur k : Nat), AllR s →
    rowAt cur s k = match s.find? (fun r => r.r = k) with | some r => r.cells | none => []
  | [], _, _, _ => rfl
  | x :: xs, cur, k, ha => by
    have he : effRow cur x = x.r := by simp [effRow, ha.1]
    simp only [rowAt, he, List.find?_cons]
    by_cases hk : x.r = k
    · simp [hk]
    · simp only [hk, if_false, decide_false]
      exact rowAt_find xs x.r k ha.2

theorem le_lastNum_allR : ∀ (s : Sheet) (cur : Nat), RowsAsc cur s → AllR s →
    ∀ row ∈ s, row.r ≤ lastNum s
  | [], _, _, _, _, hm => by cases hm
  | a :: t, cur, h, ha, row, hm => by
    have he : effRow cur a = a.r := by simp [effRow, ha.1]
    rw [lastNum_cons]
    by_cases ht : t = []
    · subst ht
      simp only [List.mem_singleton] at hm
      subst hm; simp
    · simp only [ht, if_false]
      have ih := le_lastNum_allR t a.r (he ▸ h.2.2) ha.2
      cases hm with
      | head =>
        cases t with
        | nil => exact absurd rfl ht
        | cons b t' =>
          have hb := ih b (List.mem_cons_self ..)
          have heb : effRow a.r b = b.r := by simp [effRow, ha.2.1]
          have hlt : a.r < b.r := by have h3 := h.2.2.1; rw [he, heb] at h3; exact h3
          omega
      | tail _ hm' => exact ih row hm'

theorem slotOf_ok (s : Sheet) (h : WF s) (ha : AllR s) (hc : Consistent 0 s) (hg : InGrid 0 s)
    (i : Nat) : (slotOf s i).r = i + 1 ∧ ColsAsc 0 (slotOf s i).cells ∧
      RefsOK (i + 1) (slotOf s i).cells ∧ InGridCells 0 (slotOf s i).cells := by
  unfold slotOf
  cases hf : s.find? (fun r => r.r = i + 1) with
  | some r =>
    have hm := List.mem_of_find?_eq_some hf
    have hp : r.r = i + 1 := by simpa using List.find?_some hf
    have := rows_all s 0 h ha hc hg r hm
    exact ⟨rfl, this.1, hp ▸ this.2.1, this.2.2.1⟩
  | none =>
    refine ⟨rfl, trivial, ?_, trivial⟩
    intro c hcm
    exact absurd hcm (by simp [emptyRow])

theorem slotsOK_range (s : Sheet) (h : WF s) (ha : AllR s) (hc : Consistent 0 s)
    (hg : InGrid 0 s) : ∀ (n off : Nat), off + n ≤ Facts.TotalRows →
    SlotsOK off ((List.range' off n).map (slotOf s))
  | 0, _, _ => trivial
  | n + 1, off, hb => by
    have := slotOf_ok s h ha hc hg off
    simp only [List.range'_succ, List.map_cons]
    exact ⟨this.1, this.2.1, this.2.2.1, this.2.2.2, by omega,
      slotsOK_range s h ha hc hg n (off + 1) (by omega)⟩

theorem rowAt_range (s : Sheet) : ∀ (n off k : Nat),
    rowAt off ((List.range' off n).map (slotOf s)) k =
      if off < k ∧ k ≤ off + n then (slotOf s (k - 1)).cells else []
  | 0, off, k => by
    have : ¬ (off < k ∧ k ≤ off + 0) := by omega
    rw [if_neg this]; rfl
  | n + 1, off, k => by
    have hr : (slotOf s off).r = off + 1 := by
      unfold slotOf; cases s.find? (fun r => r.r = off + 1) <;> rfl
    have he : effRow off (slotOf s off) = off + 1 := by simp [effRow, hr]
    simp only [List.range'_succ, List.map_cons, rowAt, he]
    by_cases hk : off + 1 = k
    · have : off < k ∧ k ≤ off + (n + 1) := by omega
      subst hk
      simp [this]
    · rw [if_neg hk, rowAt_range s n (off + 1) k]
      by_cases h1 : off + 1 < k ∧ k ≤ off + 1 + n
      · have : off < k ∧ k ≤ off + (n + 1) := by omega
        simp [h1, this]
      · have : ¬ (off < k ∧ k ≤ off + (n + 1)) := by omega
        simp [h1, this]

/-- caching a worksheet whose rows all carry `r` (cells may lack it): `load` succeeds, the
cached form satisfies the invariant, carries every reference, and denotes the same grid. -/
theorem load_allR (s : Sheet) (h : WF s) (ha : AllR s) (hb : RowAttrsOK s)
    (hc : Consistent 0 s) (hg : InGrid 0 s) :
    ∃ s', load s = .ok s' ∧ WF s' ∧ Explicit s' ∧ ∀ c k, value s' c k = value s c k := by
  have hN : 0 + lastNum s ≤ Facts.TotalRows := by
    unfold lastNum
    cases hl : s.getLast? with
    | none => simp
    | some r =>
      have := (rows_all s 0 h ha hc hg r (List.mem_of_getLast? hl)).2.2.2.1
      simpa using this
  have hok := slotsOK_range s h ha hc hg (lastNum s) 0 hN
  obtain ⟨out, hout, hrel⟩ := checkRows_spec _ 0 hok
  refine ⟨out, ?_, loadedRel_wf _ out 0 hrel, loadedRel_explicit _ out 0 hok hrel, fun c k => ?_⟩
  · unfold load; rw [checkSheet_allR s h ha hb]; exact hout
  · unfold value
    rw [loadedRel_value _ out 0 hok hrel c k, rowAt_range s (lastNum s) 0 k, rowAt_find s 0 k ha]
    by_cases hk : 0 < k ∧ k ≤ 0 + lastNum s
    · have hk1 : k - 1 + 1 = k := by omega
      simp only [hk, and_self, if_true]
      unfold slotOf
      rw [hk1]
      cases s.find? (fun r => r.r = k) <;> rfl
    · simp only [hk, if_false]
      have hnone : s.find? (fun r => r.r = k) = none := by
        cases hf : s.find? (fun r => r.r = k) with
        | none => rfl
        | some r =>
          have hm := List.mem_of_find?_eq_some hf
          have hp : r.r = k := by simpa using List.find?_some hf
          have h1 := le_lastNum_allR s 0 h ha r hm
          have h2 := (rows_all s 0 h ha hc hg r hm).2.2.2.2
          omega
      rw [hnone]

theorem consistent_of_explicit : ∀ (s : Sheet) (cur : Nat), Explicit s → Consistent cur s
  | [], _, _ => trivial
  | r :: rs, cur, h => by
    have he : effRow cur r = r.r := by simp [effRow, h.1]
    refine ⟨?_, ?_⟩
    · rw [he]; intro c hc _; exact (explicitCells_mem r.r r.cells h.2.2.1 c hc).2
    · rw [he]; exact consistent_of_explicit rs r.r h.2.2.2

theorem inGridCells_of_explicit (n : Nat) : ∀ (cs : List Cell) (cc : Nat), ExplicitCells n cs →
    InGridCells cc cs
  | [], _, _ => trivial
  | c :: cs, cc, h => by
    have he : effCol cc c = c.col := by simp [effCol, h.1]
    exact ⟨by rw [he]; exact h.2.1, by rw [he]; exact inGridCells_of_explicit n cs c.col h.2.2.2⟩

theorem inGrid_of_explicit : ∀ (s : Sheet) (cur : Nat), Explicit s → InGrid cur s
  | [], _, _ => trivial
  | r :: rs, cur, h => by
    have he : effRow cur r = r.r := by simp [effRow, h.1]
    exact ⟨by rw [he]; exact h.2.1, inGridCells_of_explicit r.r r.cells 0 h.2.2.1,
      by rw [he]; exact inGrid_of_explicit rs r.r h.2.2.2⟩

end XlModel.Readers

namespace XlModel.Readers

/-! ## `checkSheet` on a sheet written without any `r` attribute (rows and cells) -/

def CellsNoRef : List Cell → Prop
  | [] => True
  | c :: cs => c.col = 0 ∧ CellsNoRef cs

/-- no `<row>` and no `<c>` carries an `r` attribute -/
def NoRefs : Sheet → Prop
  | [] => True
  | r :: rs => r.r = 0 ∧ CellsNoRef r.cells ∧ NoRefs rs

/-- rows numbered consecutively from `k + 1` -/
def number : Nat → Sheet → Sheet
  | _, [] => []
  | k, r :: rs => { r with r := k + 1 } :: number (k + 1) rs

theorem number_length : ∀ (s : Sheet) (k : Nat), (number k s).length = s.length
  | [], _ => rfl
  | _ :: rs, k => by simp [number, number_length rs]

theorem lastRowNumOf_noRef : ∀ (cs : List Cell) (n : Nat), CellsNoRef cs →
    cs.foldl (fun n c => if c.col ≠ 0 ∧ c.row > n then c.row else n) n = n
  | [], _, _ => rfl
  | c :: cs, n, h => by
    have : ¬ (c.col ≠ 0 ∧ c.row > n) := by simp [h.1]
    simp only [List.foldl_cons, this, if_false]
    exact lastRowNumOf_noRef cs n h.2

theorem cs1_noRefs : ∀ (s : Sheet) (st : CS1), NoRefs s →
    s.foldl cs1Step st = ⟨st.row + s.length, st.r0 ++ number st.row s, st.kept⟩
  | [], st, _ => by simp [number]
  | r :: rs, st, h => by
    have hnum : lastRowNumOf r.cells = 0 := lastRowNumOf_noRef r.cells 0 h.2.1
    have hstep : cs1Step st r = ⟨st.row + 1, st.r0 ++ [{ r with r := st.row + 1 }], st.kept⟩ := by
      unfold cs1Step
      simp [h.1, hnum]
    simp only [List.foldl_cons, hstep]
    rw [cs1_noRefs rs _ h.2.2]
    simp [number, Nat.add_assoc, Nat.add_comm 1]

theorem r0Keeps_eq : Facts.C04.r0KeepsRowAttrs = true := by decide
theorem r0Running_eq : Facts.C04.r0RunningCol = true := by decide

theorem set_same {α : Type} (l : List α) (i : Nat) (a : α) (h : l[i]? = some a) : l.set i a = l := by
  apply List.ext_getElem?
  intro j
  have hlt : i < l.length := by
    rcases Nat.lt_or_ge i l.length with h1 | h1
    · exact h1
    · rw [List.getElem?_eq_none h1] at h; cases h
  by_cases hij : i = j
  · subst hij
    simp only [List.getElem?_set_self hlt]
    exact h.symm
  · simp [List.getElem?_set, hij]

/-- placing the unreferenced cells of a row one after the other appends them -/
theorem r0Cells_append (n : Nat) (hn : n ≠ 0) : ∀ (cs : List Cell) (i : Nat) (slots : List Row)
    (tgt : Row), CellsNoRef cs → slots[n - 1]? = some tgt → tgt.cells.length = i →
    r0CellsAux true n i i cs slots = .ok (slots.set (n - 1) { tgt with cells := tgt.cells ++ cs })
  | [], _, slots, tgt, _, hs, _ => by
    have : slots.set (n - 1) { tgt with cells := tgt.cells ++ [] } = slots := by
      simp only [List.append_nil]
      exact set_same slots (n - 1) tgt hs
    simp only [r0CellsAux]
    rw [this]
  | c :: cs, i, slots, tgt, h, hs, hl => by
    have hc : c.col = 0 := h.1
    have hplace : r0Place slots (i + 1) n c =
        .ok (slots.set (n - 1) { tgt with cells := tgt.cells ++ [c] }) := by
      unfold r0Place
      have h0 : ¬ (n = 0 ∨ i + 1 = 0) := by omega
      simp only [h0, if_false, hs]
      congr 2
      have : i + 1 - tgt.cells.length = 1 := by omega
      simp [this, hl.symm]
    simp only [r0CellsAux, hc, if_true, hplace]
    have hs' : (slots.set (n - 1) { tgt with cells := tgt.cells ++ [c] })[n - 1]? =
        some { tgt with cells := tgt.cells ++ [c] } := by
      have hlt : n - 1 < slots.length := by
        rcases Nat.lt_or_ge (n - 1) slots.length with h1 | h1
        · exact h1
        · rw [List.getElem?_eq_none h1] at hs; cases hs
      simp [hlt]
    rw [r0Cells_append n hn cs (i + 1) _ _ h.2 hs' (by simp [hl])]
    simp [List.append_assoc]

end XlModel.Readers

namespace XlModel.Readers

theorem getElem?_append_mid {α : Type} (pre post : List α) (x : α) :
    (pre ++ x :: post)[pre.length]? = some x := by
  rw [List.getElem?_append_right (Nat.le_refl _)]; simp

theorem set_append_mid {α : Type} (pre post : List α) (x y : α) :
    (pre ++ x :: post).set pre.length y = pre ++ y :: post := by
  rw [List.set_append_right _ _ (Nat.le_refl _)]; simp

theorem r0Rows_number : ∀ (rs : Sheet) (pre : List Row), NoRefs rs →
    r0Rows (number pre.length rs) (pre ++ List.replicate rs.length emptyRow) =
      .ok (pre ++ number pre.length rs)
  | [], pre, _ => by simp [number, r0Rows]
  | r :: rs, pre, h => by
    have hrep : List.replicate (r :: rs).length emptyRow = emptyRow :: List.replicate rs.length emptyRow := by
      simp [List.replicate_succ]
    simp only [number, r0Rows, hrep, Nat.add_sub_cancel, getElem?_append_mid]
    have htgt : (if (Facts.C04.r0KeepsRowAttrs && emptyRow.cells.isEmpty && !emptyRow.hidden) = true
        then { ({ r with r := pre.length + 1 } : Row) with cells := emptyRow.cells } else emptyRow)
        = ⟨pre.length + 1, r.hidden, []⟩ := by
      simp [r0Keeps_eq, emptyRow]
    simp only [htgt, set_append_mid]
    have hc := r0Cells_append (pre.length + 1) (by omega) r.cells 0
      (pre ++ (⟨pre.length + 1, r.hidden, []⟩ : Row) :: List.replicate rs.length emptyRow)
      ⟨pre.length + 1, r.hidden, []⟩ h.2.1
      (by simpa using getElem?_append_mid pre (List.replicate rs.length emptyRow) (⟨pre.length + 1, r.hidden, []⟩ : Row))
      rfl
    simp only [Nat.add_sub_cancel, set_append_mid, List.nil_append] at hc
    unfold r0Cells
    rw [r0Running_eq, hc]
    have ih := r0Rows_number rs (pre ++ [⟨pre.length + 1, r.hidden, r.cells⟩]) h.2.2
    simp only [List.length_append, List.length_singleton, List.append_assoc, List.singleton_append] at ih
    simpa using ih

/-- `checkSheet` on a sheet without any `r` attribute only numbers the rows -/
theorem checkSheet_noRefs (s : Sheet) (h : NoRefs s) : checkSheet s = .ok (number 0 s) := by
  have hany : s.any (fun r => decide (r.r > Facts.TotalRows)) = false := by
    induction s with
    | nil => rfl
    | cons r rs ih => simp [List.any_cons, h.1, ih h.2.2]
  unfold checkSheet
  have hfold := cs1_noRefs s ⟨0, [], []⟩ h
  simp only [checkSheetBounds_eq, hany, Bool.and_false, Bool.false_eq_true, if_false, hfold,
    List.nil_append, Nat.zero_add, List.foldl_nil]
  have := r0Rows_number s [] h
  simp only [List.length_nil, List.nil_append] at this
  rw [this]
  simp only [lastNum, List.getLast?_nil, Nat.not_lt_zero, if_false]
  congr 1
  apply List.ext_getElem?
  intro i
  simp [List.getElem?_mapIdx]

end XlModel.Readers

namespace XlModel.Readers

theorem colsAsc_noRef : ∀ (cs : List Cell) (cc : Nat), CellsNoRef cs → ColsAsc cc cs
  | [], _, _ => trivial
  | c :: cs, cc, h => by
    have he : effCol cc c = cc + 1 := by simp [effCol, h.1]
    exact ⟨by rw [he]; omega, by rw [he]; exact colsAsc_noRef cs _ h.2⟩

theorem noRef_mem : ∀ (cs : List Cell), CellsNoRef cs → ∀ c ∈ cs, c.col = 0
  | [], _, _, hm => by cases hm
  | x :: xs, h, c, hm => by
    cases hm with
    | head => exact h.1
    | tail _ hm' => exact noRef_mem xs h.2 c hm'

theorem slotsOK_number : ∀ (s : Sheet) (k : Nat), NoRefs s → InGrid k s → SlotsOK k (number k s)
  | [], _, _, _ => trivial
  | r :: rs, k, h, hg => by
    have he : effRow k r = k + 1 := by simp [effRow, h.1]
    refine ⟨rfl, colsAsc_noRef r.cells 0 h.2.1, ?_, hg.2.1, by have := hg.1; rw [he] at this; exact this,
      slotsOK_number rs (k + 1) h.2.2 (he ▸ hg.2.2)⟩
    intro c hc hne
    exact absurd (noRef_mem r.cells h.2.1 c hc) hne

theorem rowAt_number : ∀ (s : Sheet) (k j : Nat), NoRefs s → rowAt k (number k s) j = rowAt k s j
  | [], _, _, _ => rfl
  | r :: rs, k, j, h => by
    have he : effRow k r = k + 1 := by simp [effRow, h.1]
    have he' : effRow k ({ r with r := k + 1 } : Row) = k + 1 := by simp [effRow]
    simp only [number, rowAt, he, he']
    by_cases hj : k + 1 = j
    · simp [hj]
    · simp only [hj, if_false]
      exact rowAt_number rs (k + 1) j h.2.2

/-- caching a worksheet written without any `r` attribute: `load` succeeds, the cached form
satisfies the invariant, carries every reference, and denotes the same grid. -/
theorem load_noRefs (s : Sheet) (h : NoRefs s) (hg : InGrid 0 s) :
    ∃ s', load s = .ok s' ∧ WF s' ∧ Explicit s' ∧ ∀ c k, value s' c k = value s c k := by
  have hok := slotsOK_number s 0 h hg
  obtain ⟨out, hout, hrel⟩ := checkRows_spec _ 0 hok
  refine ⟨out, ?_, loadedRel_wf _ out 0 hrel, loadedRel_explicit _ out 0 hok hrel, fun c k => ?_⟩
  · unfold load; rw [checkSheet_noRefs s h]; exact hout
  · unfold value
    rw [loadedRel_value _ out 0 hok hrel c k, rowAt_number s 0 k h]

theorem wf_noRefs : ∀ (s : Sheet) (k : Nat), NoRefs s → RowsAsc k s
  | [], _, _ => trivial
  | r :: rs, k, h => by
    have he : effRow k r = k + 1 := by simp [effRow, h.1]
    exact ⟨by rw [he]; omega, colsAsc_noRef r.cells 0 h.2.1, by rw [he]; exact wf_noRefs rs _ h.2.2⟩

theorem consistent_noRefs : ∀ (s : Sheet) (k : Nat), NoRefs s → Consistent k s
  | [], _, _ => trivial
  | r :: rs, k, h =>
    ⟨fun c hc hne => absurd (noRef_mem r.cells h.2.1 c hc) hne, consistent_noRefs rs _ h.2.2⟩

theorem rowAttrsOK_noRefs : ∀ (s : Sheet), NoRefs s → RowAttrsOK s
  | [], _ => trivial
  | r :: rs, h => ⟨by rw [h.1]; exact Nat.zero_le _, rowAttrsOK_noRefs rs h.2.2⟩

end XlModel.Readers
