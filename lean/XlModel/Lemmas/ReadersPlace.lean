/-
Helper lemmas for C04 (round 5): the column at which the streaming row reader
(`Rows.rowXMLHandler`, model `cellStep`) places a `<c>` element equals the column
`checkRow`'s first loop (`crAssign`) writes into the cached cell — for rows that mix
cells with `r`, cells without `r`, and empty cells (which the streaming reader does not
append but which still advance its running column).
-/
import XlModel.Lemmas.ReadersLoad

namespace XlModel.Readers

/-- the running column after one `<c>`: advanced whether or not the cell is kept -/
theorem cellStep_cellCol (it : Iter) (c : Cell) :
    (cellStep it c).cellCol = effCol it.cellCol c := by
  unfold cellStep
  dsimp only
  split <;> rfl

/-- one step of `checkRow`'s first loop on a cell whose effective column lies right of
the running column -/
theorem crAssign_cons_asc (n cc : Nat) (c : Cell) (cs : List Cell) (h : cc < effCol cc c) :
    crAssign n cc (c :: cs) =
      { c with col := effCol cc c, row := if c.col ≠ 0 then c.row else n } ::
        crAssign n (effCol cc c) cs := by
  by_cases hc : c.col ≠ 0
  · have he : effCol cc c = c.col := by simp [effCol, hc]
    have hmax : (if c.col > cc + 1 then c.col else cc + 1) = c.col := by
      rw [he] at h; split <;> omega
    simp only [crAssign, hc, if_true, hmax, he, ne_eq, not_false_eq_true]
  · have hc0 : c.col = 0 := by simpa using hc
    have he : effCol cc c = cc + 1 := by simp [effCol, hc0]
    simp only [crAssign, hc, if_false, he]

/-- the cell at index `pre.length` of the row after `checkRow`'s first loop carries the
streaming reader's running column at that element as its reference -/
theorem crAssign_at_stream (n : Nat) : ∀ (pre : List Cell) (c : Cell) (post : List Cell)
    (it : Iter), ColsAsc it.cellCol (pre ++ c :: post) →
    (crAssign n it.cellCol (pre ++ c :: post))[pre.length]? =
      some { c with col := effCol (pre.foldl cellStep it).cellCol c,
                    row := if c.col ≠ 0 then c.row else n }
  | [], c, post, it, h => by
    rw [List.nil_append, crAssign_cons_asc n _ c post h.1]
    rfl
  | p :: pre, c, post, it, h => by
    have h' : ColsAsc (cellStep it p).cellCol (pre ++ c :: post) := by
      rw [cellStep_cellCol]; exact h.2
    have ih := crAssign_at_stream n pre c post (cellStep it p) h'
    rw [List.cons_append, crAssign_cons_asc n _ p _ h.1]
    simp only [List.length_cons, List.getElem?_cons_succ, List.foldl_cons]
    rw [← cellStep_cellCol]
    exact ih

end XlModel.Readers
