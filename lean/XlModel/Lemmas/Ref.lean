/-
Helper lemmas for the reference-codec model (C20).
-/
import XlModel.Ref

namespace XlModel.Ref
open XlModel

deriving instance DecidableEq for Except

/-! ### characters -/

theorem letter_facts : ∀ k : Fin 26,
    isUp (Char.ofNat (k.val + 65)) = true ∧ letterVal (Char.ofNat (k.val + 65)) = k.val + 1 ∧
    isDollar (Char.ofNat (k.val + 65)) = false ∧ isDigit (Char.ofNat (k.val + 65)) = false := by
  decide

theorem digit_facts : ∀ k : Fin 10,
    isDigit (Char.ofNat (k.val + 48)) = true ∧ (Char.ofNat (k.val + 48)).toNat - 48 = k.val ∧
    isAlpha (Char.ofNat (k.val + 48)) = false ∧
    ((Char.ofNat (k.val + 48)).toNat == 45) = false ∧ ((Char.ofNat (k.val + 48)).toNat == 43) = false := by
  decide

theorem isDigit_not_alpha {c : Char} (h : isDigit c = true) : isAlpha c = false := by
  simp only [isDigit, isAlpha, isLetter, isUp, isLo, isDollar, Bool.and_eq_true, decide_eq_true_eq,
    Bool.or_eq_false_iff, Bool.and_eq_false_iff, decide_eq_false_iff_not, beq_eq_false_iff_ne] at *
  omega

theorem isDigit_not_sign {c : Char} (h : isDigit c = true) :
    (c.toNat == 45) = false ∧ (c.toNat == 43) = false := by
  simp only [isDigit, Bool.and_eq_true, decide_eq_true_eq, beq_eq_false_iff_ne] at *
  omega

theorem isDigit_not_letter {c : Char} (h : isDigit c = true) : isLetter c = false := by
  simp only [isDigit, isLetter, isUp, isLo, Bool.and_eq_true, decide_eq_true_eq,
    Bool.or_eq_false_iff, Bool.and_eq_false_iff, decide_eq_false_iff_not] at *
  omega

theorem isDigit_not_dollar {c : Char} (h : isDigit c = true) : isDollar c = false := by
  simp only [isDigit, isDollar, Bool.and_eq_true, decide_eq_true_eq, beq_eq_false_iff_ne] at *
  omega

theorem isLetter_not_dollar {c : Char} (h : isLetter c = true) : isDollar c = false := by
  simp only [isLetter, isUp, isLo, isDollar, Bool.or_eq_true, Bool.and_eq_true, decide_eq_true_eq,
    beq_eq_false_iff_ne] at *
  omega

theorem isLetter_alpha {c : Char} (h : isLetter c = true) : isAlpha c = true := by
  simp [isAlpha, h]

theorem isDollar_alpha {c : Char} (h : isDollar c = true) : isAlpha c = true := by
  simp [isAlpha, h]

theorem letterVal_pos {c : Char} (h : isLetter c = true) : 1 ≤ letterVal c ∧ letterVal c ≤ 26 := by
  simp only [isLetter, isUp, isLo, Bool.or_eq_true, Bool.and_eq_true, decide_eq_true_eq] at h
  unfold letterVal isUp
  split <;> rename_i hu <;> simp only [Bool.and_eq_true, decide_eq_true_eq] at hu <;> omega

/-! ### column numerals -/

theorem colRawAux_append (acc : Nat) (xs ys : List Char) :
    colRawAux acc (xs ++ ys) = (colRawAux acc xs).bind (fun a => colRawAux a ys) := by
  induction xs generalizing acc with
  | nil => simp [colRawAux]
  | cons x xs ih =>
    simp only [List.cons_append, colRawAux]
    split
    · exact ih _
    · simp

/-- decoding the digits produced by `ColumnNumberToName` gives the number back: all `n` -/
theorem colRaw_numToName (n : Nat) : colRaw (numToName n) = some n := by
  induction n using Nat.strongRecOn with
  | _ n ih =>
    cases n with
    | zero => simp [numToName, colRaw, colRawAux]
    | succ m =>
      unfold numToName
      unfold colRaw
      rw [colRawAux_append]
      have h := ih (m / 26) (by omega)
      unfold colRaw at h
      rw [h]
      have hk := letter_facts ⟨m % 26, Nat.mod_lt _ (by decide)⟩
      simp only [Option.bind_some, colRawAux, isLetter, hk.1, hk.2.1, Bool.true_or, if_true]
      congr 1
      omega

theorem numToName_upper (n : Nat) : ∀ c ∈ numToName n, isUp c = true := by
  induction n using Nat.strongRecOn with
  | _ n ih =>
    cases n with
    | zero => simp [numToName]
    | succ m =>
      unfold numToName
      intro c hc
      rcases List.mem_append.mp hc with h | h
      · exact ih (m / 26) (by omega) c h
      · simp only [List.mem_singleton] at h
        subst h
        exact (letter_facts ⟨m % 26, Nat.mod_lt _ (by decide)⟩).1

theorem numToName_ne_nil {n : Nat} (h : 1 ≤ n) : numToName n ≠ [] := by
  cases n with
  | zero => omega
  | succ m => unfold numToName; simp

theorem numToName_letters (n : Nat) : ∀ c ∈ numToName n, isLetter c = true := by
  intro c hc; simp [isLetter, numToName_upper n c hc]

theorem colRawAux_some_letters {acc v : Nat} {xs : List Char} (h : colRawAux acc xs = some v) :
    ∀ c ∈ xs, isLetter c = true := by
  induction xs generalizing acc with
  | nil => simp
  | cons x xs ih =>
    simp only [colRawAux] at h
    split at h
    · rename_i hx
      intro c hc
      rcases List.mem_cons.mp hc with rfl | hc
      · exact hx
      · exact ih h c hc
    · cases h

theorem colRawAux_of_letters (acc : Nat) (xs : List Char) (h : ∀ c ∈ xs, isLetter c = true) :
    ∃ v, colRawAux acc xs = some v := by
  induction xs generalizing acc with
  | nil => exact ⟨acc, rfl⟩
  | cons x xs ih =>
    simp only [colRawAux, h x (by simp), if_true]
    exact ih _ (fun c hc => h c (by simp [hc]))

/-- size bound: `25 v + 26 ≤ (25 acc + 26) · 26^len` -/
theorem colRawAux_bound {acc v : Nat} {xs : List Char} (h : colRawAux acc xs = some v) :
    25 * v + 26 ≤ (25 * acc + 26) * 26 ^ xs.length ∧ acc ≤ v ∧ (xs ≠ [] → 1 ≤ v) := by
  induction xs generalizing acc with
  | nil => simp only [colRawAux, Option.some.injEq] at h; subst h; simp
  | cons x xs ih =>
    simp only [colRawAux] at h
    split at h
    · rename_i hx
      have ⟨h1, h2, _⟩ := ih h
      have hv := letterVal_pos hx
      refine ⟨?_, by omega, fun _ => by omega⟩
      simp only [List.length_cons, Nat.pow_succ]
      have : 25 * (acc * 26 + letterVal x) + 26 ≤ (25 * acc + 26) * 26 := by omega
      calc 25 * v + 26 ≤ (25 * (acc * 26 + letterVal x) + 26) * 26 ^ xs.length := h1
        _ ≤ ((25 * acc + 26) * 26) * 26 ^ xs.length := Nat.mul_le_mul_right _ this
        _ = (25 * acc + 26) * (26 ^ xs.length * 26) := by
              rw [Nat.mul_assoc, Nat.mul_comm 26 (26 ^ xs.length)]
    · cases h

theorem pow26_mono {a b : Nat} (h : a ≤ b) : 26 ^ a ≤ 26 ^ b :=
  Nat.pow_le_pow_right (by decide) h

theorem colRaw_lt_of_short {v : Nat} {xs : List Char} (h : colRaw xs = some v) (hl : xs.length ≤ 13) :
    v < 9223372036854775808 := by
  have ⟨h1, _, _⟩ := colRawAux_bound h
  have : 26 ^ xs.length ≤ 26 ^ 13 := pow26_mono hl
  have e : (26:Nat) ^ 13 = 2481152873203736576 := by decide
  simp only [Nat.mul_zero, Nat.zero_add] at h1
  omega

theorem toUpper_facts : ∀ k : Fin 26,
    toUpper (Char.ofNat (k.val + 97)) = Char.ofNat (k.val + 65) ∧
    isLo (Char.ofNat (k.val + 97)) = true ∧ isUp (Char.ofNat (k.val + 97)) = false ∧
    letterVal (Char.ofNat (k.val + 97)) = k.val + 1 := by decide

theorem lo_eq {c : Char} (h : isLo c = true) : ∃ k : Fin 26, c = Char.ofNat (k.val + 97) := by
  simp only [isLo, Bool.and_eq_true, decide_eq_true_eq] at h
  refine ⟨⟨c.toNat - 97, by omega⟩, ?_⟩
  have : c.toNat - 97 + 97 = c.toNat := by omega
  simp only [this]
  exact (Char.ofNat_toNat c).symm

theorem up_eq {c : Char} (h : isUp c = true) : ∃ k : Fin 26, c = Char.ofNat (k.val + 65) := by
  simp only [isUp, Bool.and_eq_true, decide_eq_true_eq] at h
  refine ⟨⟨c.toNat - 65, by omega⟩, ?_⟩
  have : c.toNat - 65 + 65 = c.toNat := by omega
  simp only [this]
  exact (Char.ofNat_toNat c).symm

theorem toUpper_of_up {c : Char} (h : isUp c = true) : toUpper c = c := by
  have : isLo c = false := by
    simp only [isUp, isLo, Bool.and_eq_true, decide_eq_true_eq, Bool.and_eq_false_iff,
      decide_eq_false_iff_not] at *
    omega
  simp [toUpper, this]

/-- upper-casing a letter keeps it a letter with the same digit value and makes it upper-case -/
theorem toUpper_letter_val {c : Char} (h : isLetter c = true) :
    isUp (toUpper c) = true ∧ letterVal (toUpper c) = letterVal c := by
  simp only [isLetter, Bool.or_eq_true] at h
  rcases h with h | h
  · rw [toUpper_of_up h]; exact ⟨h, rfl⟩
  · obtain ⟨k, rfl⟩ := lo_eq h
    have t := toUpper_facts k
    have l := letter_facts k
    rw [t.1]; exact ⟨l.1, by rw [l.2.1, t.2.2.2]⟩

theorem toUpper_nonletter {c : Char} (h : isLetter c = false) : toUpper c = c := by
  simp only [isLetter, Bool.or_eq_false_iff] at h
  simp [toUpper, h.2]

/-- case-insensitivity of the column decoder -/
theorem colRawAux_toUpper (acc : Nat) (xs : List Char) :
    colRawAux acc (xs.map toUpper) = colRawAux acc xs := by
  induction xs generalizing acc with
  | nil => rfl
  | cons x xs ih =>
    simp only [List.map_cons, colRawAux]
    cases hx : isLetter x with
    | true =>
      have ⟨hu, hv⟩ := toUpper_letter_val hx
      simp only [isLetter, hu, Bool.true_or, if_true, hv]
      exact ih _
    | false =>
      rw [toUpper_nonletter hx]; simp [hx]

/-- encoding the value of an upper-case name gives the name back -/
theorem numToName_colRaw_snoc (m : Nat) (c : Char) (hc : isUp c = true) :
    numToName (m * 26 + letterVal c) = numToName m ++ [c] := by
  obtain ⟨k, rfl⟩ := up_eq hc
  have l := letter_facts k
  rw [l.2.1]
  have : m * 26 + (k.val + 1) = (m * 26 + k.val) + 1 := by omega
  rw [this, numToName]
  have hk := k.isLt
  have h1 : (m * 26 + k.val) / 26 = m := by omega
  have h2 : (m * 26 + k.val) % 26 = k.val := by omega
  rw [h1, h2]

theorem numToName_of_colRawAux (pre : List Char) (acc : Nat) (hacc : colRaw pre = some acc)
    (hpre : numToName acc = pre) (xs : List Char) (hup : ∀ c ∈ xs, isUp c = true) (v : Nat)
    (h : colRawAux acc xs = some v) : numToName v = pre ++ xs := by
  induction xs generalizing pre acc with
  | nil => simp only [colRawAux, Option.some.injEq] at h; subst h; simpa using hpre
  | cons x xs ih =>
    have hx := hup x (by simp)
    simp only [colRawAux, isLetter, hx, Bool.true_or, if_true] at h
    have := ih (pre ++ [x]) (acc * 26 + letterVal x)
      (by unfold colRaw at *; rw [colRawAux_append, hacc]; simp [colRawAux, isLetter, hx])
      (by rw [numToName_colRaw_snoc acc x hx, hpre])
      (fun c hc => hup c (by simp [hc])) h
    simpa using this

theorem numToName_of_colRaw {xs : List Char} (hup : ∀ c ∈ xs, isUp c = true) {v : Nat}
    (h : colRaw xs = some v) : numToName v = xs := by
  have := numToName_of_colRawAux [] 0 (by simp [colRaw, colRawAux]) (by simp [numToName]) xs hup v h
  simpa using this

/-! ### decimal numerals -/

theorem digitsValAux_append (acc : Nat) (xs ys : List Char) :
    digitsValAux acc (xs ++ ys) = (digitsValAux acc xs).bind (fun a => digitsValAux a ys) := by
  induction xs generalizing acc with
  | nil => simp [digitsValAux]
  | cons x xs ih =>
    simp only [List.cons_append, digitsValAux]
    split
    · exact ih _
    · simp

theorem digitsValAux_itoaAux (n : Nat) : digitsValAux 0 (itoaAux n) = some n := by
  induction n using Nat.strongRecOn with
  | _ n ih =>
    cases n with
    | zero => simp [itoaAux, digitsValAux]
    | succ m =>
      unfold itoaAux
      rw [digitsValAux_append, ih ((m + 1) / 10) (by omega)]
      have hk := digit_facts ⟨(m + 1) % 10, Nat.mod_lt _ (by decide)⟩
      simp only [Option.bind_some, digitsValAux, hk.1, hk.2.1, if_true]
      congr 1
      omega

theorem itoaAux_digits (n : Nat) : ∀ c ∈ itoaAux n, isDigit c = true := by
  induction n using Nat.strongRecOn with
  | _ n ih =>
    cases n with
    | zero => simp [itoaAux]
    | succ m =>
      unfold itoaAux
      intro c hc
      rcases List.mem_append.mp hc with h | h
      · exact ih ((m + 1) / 10) (by omega) c h
      · simp only [List.mem_singleton] at h
        subst h
        exact (digit_facts ⟨(m + 1) % 10, Nat.mod_lt _ (by decide)⟩).1

theorem itoaAux_ne_nil {n : Nat} (h : 1 ≤ n) : itoaAux n ≠ [] := by
  cases n with
  | zero => omega
  | succ m => unfold itoaAux; simp

theorem itoa_pos {n : Nat} (h : 1 ≤ n) : itoa n = itoaAux n := by
  simp [itoa]; omega

theorem itoaInt_pos {i : Int} (h : 1 ≤ i) : itoaInt i = itoaAux i.toNat := by
  have : ¬ i < 0 := by omega
  simp only [itoaInt, this, if_false]
  exact itoa_pos (by omega)

theorem digitsVal_itoaAux {n : Nat} (h : 1 ≤ n) : digitsVal (itoaAux n) = some n := by
  unfold digitsVal
  have := itoaAux_ne_nil h
  simp [List.isEmpty_iff, this, digitsValAux_itoaAux]

/-- `atoi` on a non-empty digit string takes the unsigned path -/
theorem atoi_digits {D : List Char} (hD : D ≠ []) (hd : ∀ c ∈ D, isDigit c = true) :
    atoi D = (digitsVal D).bind (fun v => if v < 9223372036854775808 then some (v : Int) else none) := by
  cases D with
  | nil => exact absurd rfl hD
  | cons c rest =>
    have ⟨h1, h2⟩ := isDigit_not_sign (hd c (by simp))
    simp only [atoi, h1, h2, Bool.false_or, Bool.false_eq_true, if_false]
    cases digitsVal (c :: rest) <;> rfl

/-! ### index functions -/

theorem lastIdx_none_of {p : Char → Bool} {ys : List Char} (h : ∀ c ∈ ys, p c = false) :
    lastIdx p ys = none := by
  induction ys with
  | nil => rfl
  | cons y ys ih =>
    simp only [lastIdx, ih (fun c hc => h c (by simp [hc])), h y (by simp)]
    simp

theorem lastIdx_none {p : Char → Bool} {ys : List Char} (h : lastIdx p ys = none) :
    ∀ c ∈ ys, p c = false := by
  induction ys with
  | nil => simp
  | cons y ys ih =>
    intro c hc
    simp only [lastIdx] at h
    cases hy' : lastIdx p ys with
    | some k => simp [hy'] at h
    | none =>
      simp only [hy'] at h
      have hpy : p y = false := by
        cases hq : p y with
        | true => simp [hq] at h
        | false => rfl
      rcases List.mem_cons.mp hc with rfl | hc
      · exact hpy
      · exact ih hy' c hc

theorem lastIdx_append_none (p : Char → Bool) (xs ys : List Char) (h : ∀ c ∈ ys, p c = false) :
    lastIdx p (xs ++ ys) = lastIdx p xs := by
  induction xs with
  | nil => simp [lastIdx_none_of h, lastIdx]
  | cons x xs ih => simp only [List.cons_append, lastIdx, ih]

theorem lastIdx_snoc (p : Char → Bool) (xs : List Char) (c : Char) (h : p c = true) :
    lastIdx p (xs ++ [c]) = some xs.length := by
  induction xs with
  | nil => simp [lastIdx, h]
  | cons x xs ih => simp only [List.cons_append, lastIdx, ih, List.length_cons]

/-- what `LastIndexFunc` returning `i` means -/
theorem lastIdx_some {p : Char → Bool} {xs : List Char} {i : Nat} (h : lastIdx p xs = some i) :
    i < xs.length ∧ (∀ c ∈ xs.drop (i + 1), p c = false) ∧ (∃ c, xs[i]? = some c ∧ p c = true) := by
  induction xs generalizing i with
  | nil => simp [lastIdx] at h
  | cons x xs ih =>
    simp only [lastIdx] at h
    cases hl : lastIdx p xs with
    | some j =>
      simp only [hl, Option.some.injEq] at h
      subst h
      have ⟨a, b, c⟩ := ih hl
      refine ⟨by simp; omega, ?_, ?_⟩
      · simpa using b
      · simpa using c
    | none =>
      simp only [hl] at h
      cases hp : p x with
      | false => simp [hp] at h
      | true =>
        simp only [hp, if_true, Option.some.injEq] at h
        subst h
        refine ⟨by simp, ?_, ⟨x, by simp, hp⟩⟩
        simpa using lastIdx_none hl

theorem firstIdx_zero_iff {p : Char → Bool} {xs : List Char} :
    firstIdx p xs = some 0 ↔ ∃ c rest, xs = c :: rest ∧ p c = true := by
  cases xs with
  | nil => simp [firstIdx]
  | cons x xs =>
    simp only [firstIdx]
    cases hp : p x with
    | true => simp [hp]
    | false =>
      simp only [Bool.false_eq_true, if_false, Option.map_eq_some_iff]
      constructor
      · rintro ⟨a, _, h⟩; omega
      · rintro ⟨c, rest, h, hc⟩
        simp only [List.cons.injEq] at h
        rw [← h.1, hp] at hc; cases hc

end XlModel.Ref
