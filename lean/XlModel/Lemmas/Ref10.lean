/-
Acceptance paths of references inside option structs (`XlModel.RefOpts`), C20 round 3.
-/
import XlModel.Lemmas.Ref9
import XlModel.RefOpts

namespace XlModel.Ref
open XlModel

theorem decode_isOk_iff_a1 (s : List Char) :
    decodeOk s = true ↔ ∃ c r, parseA1 s = some (c, r) := by
  unfold decodeOk
  cases hd : cellNameToCoordinates s with
  | error e =>
    simp only [Bool.false_eq_true, false_iff, not_exists]
    intro c r hp
    have := decode_of_shape (shape_of_parseA1 hp)
    rw [hd] at this; cases this
  | ok p =>
    obtain ⟨c, r, hs, _, _⟩ := shape_of_decode (ci := p.1) (ri := p.2) hd
    simp only [true_iff]
    exact ⟨c, r, parseA1_of_shape hs⟩

theorem range_isOk_iff_strict (s : List Char) :
    rangeOk s = true ↔ ∃ q, parseRangeStrict s = some q := by
  unfold rangeOk
  cases hd : rangeRefToCoordinates s with
  | error e =>
    simp only [Bool.false_eq_true, false_iff, not_exists]
    intro q hq
    obtain ⟨c1, r1, c2, r2⟩ := q
    have := (rangeRef_ok_iff s _ _ _ _).mpr ⟨c1, r1, c2, r2, rfl, rfl, rfl, rfl,
      (parseRangeStrict_iff s c1 r1 c2 r2).mp hq⟩
    rw [hd] at this; cases this
  | ok q =>
    obtain ⟨c1, r1, c2, r2⟩ := q
    obtain ⟨n1, m1, n2, m2, _, _, _, _, hs⟩ := (rangeRef_ok_iff s _ _ _ _).mp hd
    simp only [true_iff]
    exact ⟨_, (parseRangeStrict_iff s n1 m1 n2 m2).mpr hs⟩

theorem stripDollar_append' (a b : List Char) :
    stripDollar (a ++ b) = stripDollar a ++ stripDollar b := by
  unfold stripDollar; exact List.filter_append ..

theorem stripDollar_colon_cons' (b : List Char) :
    stripDollar (':' :: b) = ':' :: stripDollar b := by
  have : (!isDollar ':') = true := by decide
  simp [stripDollar, List.filter_cons, this]

/-- deleting every `$` of a strict cell reference leaves a strict (relative) one -/
theorem shape_stripDollar {s : List Char} {c r : Nat} (h : Shape s c r) :
    Shape (stripDollar s) c r := by
  obtain ⟨d1, L, d2, D, rfl, h1, h2, hL, hLl, hD, hDd, hc, hc1, hc2, hr, hr1, hr2⟩ := h
  refine ⟨[], L, [], D, ?_, Or.inl rfl, Or.inl rfl, hL, hLl, hD, hDd, hc, hc1, hc2, hr, hr1, hr2⟩
  unfold stripDollar
  rw [filter_dollar_encoded d1 L d2 D h1 h2 hLl hDd]
  simp

theorem rangeStrict_stripDollar {s : List Char} {c1 r1 c2 r2 : Nat} (h : RangeStrict s c1 r1 c2 r2) :
    RangeStrict (stripDollar s) c1 r1 c2 r2 := by
  obtain ⟨A, B, rfl, hA, hB⟩ := h
  exact ⟨stripDollar A, stripDollar B, by rw [stripDollar_append', stripDollar_colon_cons'],
    shape_stripDollar hA, shape_stripDollar hB⟩

/-! ### well-formedness of the pieces `squashSqref` emits -/

/-- an emitted piece lies in column `c`, its corners are input cells, a span goes downwards -/
def PieceWf (c : Int) (cells : List Cell) : Piece → Prop
  | .one q => q ∈ cells ∧ q.1 = c
  | .span a b => a ∈ cells ∧ b ∈ cells ∧ a.1 = c ∧ b.1 = c ∧ a.2 ≤ b.2

theorem PieceWf.mono {c : Int} {l1 l2 : List Cell} (h : ∀ x ∈ l1, x ∈ l2) {piece : Piece}
    (hw : PieceWf c l1 piece) : PieceWf c l2 piece := by
  cases piece with
  | one q => exact ⟨h q hw.1, hw.2⟩
  | span a b => exact ⟨h a hw.1, h b hw.2.1, hw.2.2⟩

theorem squashAux_wf (c : Int) (xs : List Cell) :
    ∀ (start prev : Cell) (single : Bool), start.1 = c → prev.1 = c → start.2 ≤ prev.2 →
      (∀ x ∈ xs, x.1 = c) → List.Pairwise (fun a b : Cell => a.2 < b.2) (prev :: xs) →
      ∀ piece ∈ squashAux start prev single xs, PieceWf c (start :: prev :: xs) piece := by
  induction xs with
  | nil =>
    intro start prev single hs hp hle _ _ piece hpc
    simp only [squashAux, List.mem_singleton] at hpc
    subst hpc
    cases single with
    | true => exact ⟨by simp, hs⟩
    | false => exact ⟨by simp, by simp, hs, hp, hle⟩
  | cons x xs ih =>
    intro start prev single hs hp hle hcol hpw piece hpc
    have hx : x.1 = c := hcol x (by simp)
    have hcol' : ∀ y ∈ xs, y.1 = c := fun y hy => hcol y (by simp [hy])
    have hpw' : List.Pairwise (fun a b : Cell => a.2 < b.2) (x :: xs) := (List.pairwise_cons.mp hpw).2
    have hlt : prev.2 < x.2 := (List.pairwise_cons.mp hpw).1 x (by simp)
    have hsame : (x.1 == prev.1) = true := by rw [hx, hp]; simp
    simp only [squashAux, hsame, Bool.true_and] at hpc
    by_cases hgap : x.2 - prev.2 > 1
    · simp only [hgap, decide_true, if_true, List.mem_cons] at hpc
      rcases hpc with rfl | hpc
      · cases single with
        | true => exact ⟨by simp, hs⟩
        | false => exact ⟨by simp, by simp, hs, hp, hle⟩
      · exact (ih x x true hx hx (Int.le_refl _) hcol' hpw' piece hpc).mono
          (by intro y hy; simp only [List.mem_cons] at hy ⊢; rcases hy with h | h | h <;> simp [h])
    · simp only [hgap, decide_false, Bool.false_eq_true, if_false] at hpc
      exact (ih start x false hs hx (by omega) hcol' hpw' piece hpc).mono
        (by intro y hy; simp only [List.mem_cons] at hy ⊢; rcases hy with h | h | h <;> simp [h])

theorem squashPieces_wf (c : Int) (cells : List Cell) (hcol : ∀ x ∈ cells, x.1 = c)
    (hpw : List.Pairwise (fun a b : Cell => a.2 < b.2) cells) :
    ∀ piece ∈ squashPieces cells, PieceWf c cells piece := by
  match cells, hcol, hpw with
  | [], _, _ => simp [squashPieces]
  | [q], hcol, _ =>
    intro piece hp
    simp only [squashPieces, List.mem_singleton] at hp
    subst hp
    exact ⟨by simp, hcol q (by simp)⟩
  | a :: b :: rest, hcol, hpw =>
    intro piece hp
    have ha : a.1 = c := hcol a (by simp)
    simp only [squashPieces] at hp
    exact (squashAux_wf c (b :: rest) a a true ha ha (Int.le_refl _)
      (fun x hx => hcol x (by simp [hx])) hpw piece hp).mono
      (by intro y hy; simp only [List.mem_cons] at hy ⊢; rcases hy with h | h | h <;> simp [h])

end XlModel.Ref
