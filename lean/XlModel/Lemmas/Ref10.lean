/-
Acceptance paths of references inside option structs (`XlModel.RefOpts`), C20 round 3.
-/
import XlModel.Lemmas.Ref9
import XlModel.RefOpts

namespace XlModel.Ref
open XlModel

theorem decode_isOk_iff_a1 (s : List Char) :
    decodeOk s = true ↔ ∃ c r, parseA1 s = some (c, r) := by
  unfold decodeOk
  cases hd : cellNameToCoordinates s with
  | error e =>
    simp only [Bool.false_eq_true, false_iff, not_exists]
    intro c r hp
    have := decode_of_shape (shape_of_parseA1 hp)
    rw [hd] at this; cases this
  | ok p =>
    obtain ⟨c, r, hs, _, _⟩ := shape_of_decode (ci := p.1) (ri := p.2) hd
    simp only [true_iff]
    exact ⟨c, r, parseA1_of_shape hs⟩

theorem range_isOk_iff_strict (s : List Char) :
    rangeOk s = true ↔ ∃ q, parseRangeStrict s = some q := by
  unfold rangeOk
  cases hd : rangeRefToCoordinates s with
  | error e =>
    simp only [Bool.false_eq_true, false_iff, not_exists]
    intro q hq
    obtain ⟨c1, r1, c2, r2⟩ := q
    have := (rangeRef_ok_iff s _ _ _ _).mpr ⟨c1, r1, c2, r2, rfl, rfl, rfl, rfl,
      (parseRangeStrict_iff s c1 r1 c2 r2).mp hq⟩
    rw [hd] at this; cases this
  | ok q =>
    obtain ⟨c1, r1, c2, r2⟩ := q
    obtain ⟨n1, m1, n2, m2, _, _, _, _, hs⟩ := (rangeRef_ok_iff s _ _ _ _).mp hd
    simp only [true_iff]
    exact ⟨_, (parseRangeStrict_iff s n1 m1 n2 m2).mpr hs⟩

theorem stripDollar_append' (a b : List Char) :
    stripDollar (a ++ b) = stripDollar a ++ stripDollar b := by
  unfold stripDollar; exact List.filter_append ..

theorem stripDollar_colon_cons' (b : List Char) :
    stripDollar (':' :: b) = ':' :: stripDollar b := by
  have : (!isDollar ':') = true := by decide
  simp [stripDollar, List.filter_cons, this]

/-- deleting every `$` of a strict cell reference leaves a strict (relative) one -/
theorem shape_stripDollar {s : List Char} {c r : Nat} (h : Shape s c r) :
    Shape (stripDollar s) c r := by
  obtain ⟨d1, L, d2, D, rfl, h1, h2, hL, hLl, hD, hDd, hc, hc1, hc2, hr, hr1, hr2⟩ := h
  refine ⟨[], L, [], D, ?_, Or.inl rfl, Or.inl rfl, hL, hLl, hD, hDd, hc, hc1, hc2, hr, hr1, hr2⟩
  unfold stripDollar
  rw [filter_dollar_encoded d1 L d2 D h1 h2 hLl hDd]
  simp

theorem rangeStrict_stripDollar {s : List Char} {c1 r1 c2 r2 : Nat} (h : RangeStrict s c1 r1 c2 r2) :
    RangeStrict (stripDollar s) c1 r1 c2 r2 := by
  obtain ⟨A, B, rfl, hA, hB⟩ := h
  exact ⟨stripDollar A, stripDollar B, by rw [stripDollar_append', stripDollar_colon_cons'],
    shape_stripDollar hA, shape_stripDollar hB⟩

end XlModel.Ref
