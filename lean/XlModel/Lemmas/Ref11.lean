/-
`SetConditionalFormat`'s reference grammar (`XlModel.RefCF`) and the merged-cell scan on
lists that contain empty and single-cell references (C20 round 4).
-/
import XlModel.Lemmas.Ref10
import XlModel.RefCF

namespace XlModel.Ref
open XlModel

/-- the corner a part stands for lies inside the grid -/
def CfPartOk : CfPart → Prop
  | .cell c r => 1 ≤ c ∧ c ≤ (Facts.MaxColumns : Int) ∧ 1 ≤ r ∧ r ≤ (Facts.TotalRows : Int)
  | .col c => 1 ≤ c ∧ c ≤ (Facts.MaxColumns : Int)
  | .row r => 1 ≤ r ∧ r ≤ (Facts.TotalRows : Int)

/-- a single-cell merged reference `X` is scanned as `X:X` -/
theorem countColon_cell {ref : List Char} {c r : Nat} (h : Shape ref c r) : countColon ref = 0 :=
  countColon_nocolon (shape_nocolon h)

/-- the scan never fails on a list whose references are empty, strict cells or strict ranges -/
theorem redirectScan_total' (p : Cell) (canon : List Char) (ms : List (List Char))
    (h : ∀ ref ∈ ms, ref = [] ∨ (∃ c r, Shape ref c r) ∨ ∃ c1 r1 c2 r2, RangeStrict ref c1 r1 c2 r2) :
    ∃ a, redirectScan p canon ms = .ok a := by
  induction ms with
  | nil => exact ⟨canon, rfl⟩
  | cons ref rest ih =>
    have ih' := ih (fun x hx => h x (by simp [hx]))
    simp only [redirectScan]
    by_cases he : ref.isEmpty = true
    · simp only [he, if_true]; exact ih'
    · simp only [he, Bool.false_eq_true, if_false]
      rcases h ref (by simp) with rfl | ⟨c, r, hs⟩ | ⟨c1, r1, c2, r2, hs⟩
      · simp at he
      · have hdec := (rangeRef_ok_iff (ref ++ [':'] ++ ref) _ _ _ _).mpr
          ⟨c, r, c, r, rfl, rfl, rfl, rfl, ref, ref, by simp, hs, hs⟩
        have hcc : (countColon ref != 1) = true := by rw [countColon_cell hs]; decide
        simp only [hcc, if_true, hdec]
        split
        · exact ⟨_, rfl⟩
        · exact ih'
      · have hdec := (rangeRef_ok_iff ref _ _ _ _).mpr ⟨c1, r1, c2, r2, rfl, rfl, rfl, rfl, hs⟩
        simp only [countColon_strict hs, bne_self_eq_false, Bool.false_eq_true, if_false, hdec]
        split
        · exact ⟨_, rfl⟩
        · exact ih'

end XlModel.Ref
