/-
Structure lemmas for `SplitCellName` / `CellNameToCoordinates` (C20).
-/
import XlModel.Lemmas.Ref

namespace XlModel.Ref
open XlModel

theorem wrap64_small {v : Int} (h0 : 0 ≤ v) (h1 : v < 9223372036854775808) : wrap64 v = v := by
  unfold wrap64
  simp only []
  split <;> omega

theorem lastIdx_all_append (p : Char → Bool) (pre D : List Char) (hpre : pre ≠ [])
    (hall : ∀ c ∈ pre, p c = true) (hD : ∀ c ∈ D, p c = false) :
    lastIdx p (pre ++ D) = some (pre.length - 1) := by
  rw [lastIdx_append_none p pre D hD]
  have e := List.dropLast_concat_getLast hpre
  have hl : p (pre.getLast hpre) = true := hall _ (List.getLast_mem hpre)
  have := lastIdx_snoc p pre.dropLast (pre.getLast hpre) hl
  rw [e] at this
  rw [this]; simp

/-- `SplitCellName` on (alpha-only prefix) ++ (digit-only suffix) -/
theorem split_pre (pre D : List Char) (hpre : pre ≠ []) (hall : ∀ c ∈ pre, isAlpha c = true)
    (hD : D ≠ []) (hDd : ∀ c ∈ D, isDigit c = true) :
    splitCellName (pre ++ D) =
      match digitsVal D with
      | some v =>
        if 0 < v ∧ v < 9223372036854775808 then
          .ok (pre.filter (fun c => !isDollar c), (v : Int))
        else .error .cellName
      | none => .error .cellName := by
  have hlen : 1 ≤ pre.length := by
    cases pre with
    | nil => exact absurd rfl hpre
    | cons a as => simp
  have hfirst : firstIdx isAlpha (pre ++ D) = some 0 := by
    cases pre with
    | nil => exact absurd rfl hpre
    | cons a as => exact firstIdx_zero_iff.mpr ⟨a, as ++ D, rfl, hall a (by simp)⟩
  have hlast := lastIdx_all_append isAlpha pre D hpre hall (fun c hc => isDigit_not_alpha (hDd c hc))
  have hi : pre.length - 1 + 1 = pre.length := by omega
  have hDlen : 1 ≤ D.length := by
    cases D with
    | nil => exact absurd rfl hD
    | cons a as => simp
  unfold splitCellName
  simp only [hfirst, if_true, hlast, hi, List.length_append]
  have : pre.length < pre.length + D.length := by omega
  simp only [this, if_true, List.take_left', List.drop_left']
  rw [atoi_digits hD hDd]
  cases hv : digitsVal D with
  | none => simp
  | some v =>
    simp only [Option.bind_some]
    by_cases h1 : v < 9223372036854775808
    · simp only [h1, if_true]
      by_cases h0 : 0 < v
      · have : (v : Int) > 0 := by omega
        simp [this, h0]
      · have : ¬ (v : Int) > 0 := by omega
        simp [this, h0]
    · simp [h1]

/-- what an accepted `SplitCellName` looked like -/
theorem split_ok_shape {s col : List Char} {row : Int} (h : splitCellName s = .ok (col, row)) :
    ∃ pre D, s = pre ++ D ∧ pre ≠ [] ∧ D ≠ [] ∧ (∃ a as, pre = a :: as ∧ isAlpha a = true) ∧
      (∀ c ∈ D, isAlpha c = false) ∧ col = pre.filter (fun c => !isDollar c) ∧
      atoi D = some row ∧ row > 0 := by
  unfold splitCellName at h
  split at h
  · rename_i hf
    split at h
    · rename_i i hl
      split at h
      · rename_i hlt
        split at h
        · rename_i r hat
          split at h
          · rename_i hr
            simp only [Except.ok.injEq, Prod.mk.injEq] at h
            have ⟨_, hdrop, _⟩ := lastIdx_some hl
            obtain ⟨a, rest, hs, ha⟩ := firstIdx_zero_iff.mp hf
            refine ⟨s.take (i + 1), s.drop (i + 1), (List.take_append_drop _ _).symm, ?_, ?_, ?_, hdrop,
              h.1.symm, by rw [← h.2]; exact hat, by rw [← h.2]; exact hr⟩
            · subst hs; simp
            · intro hnil
              have := congrArg List.length hnil
              simp at this; omega
            · subst hs; exact ⟨a, rest.take i, by simp, ha⟩
          · cases h
        · cases h
      · cases h
    · cases h
  · cases h

end XlModel.Ref
