/-
Structure lemmas for `SplitCellName` / `CellNameToCoordinates` (C20).
-/
import XlModel.Lemmas.Ref

namespace XlModel.Ref
open XlModel

theorem wrap64_small {v : Int} (h0 : 0 ≤ v) (h1 : v < 9223372036854775808) : wrap64 v = v := by
  unfold wrap64
  simp only []
  split <;> omega

theorem lastIdx_all_append (p : Char → Bool) (pre D : List Char) (hpre : pre ≠ [])
    (hall : ∀ c ∈ pre, p c = true) (hD : ∀ c ∈ D, p c = false) :
    lastIdx p (pre ++ D) = some (pre.length - 1) := by
  rw [lastIdx_append_none p pre D hD]
  have e := List.dropLast_concat_getLast hpre
  have hl : p (pre.getLast hpre) = true := hall _ (List.getLast_mem hpre)
  have := lastIdx_snoc p pre.dropLast (pre.getLast hpre) hl
  rw [e] at this
  rw [this]; simp

/-! ### optional absolute markers -/

/-- an optional absolute marker: nothing or one `$` -/
def IsDol (d : List Char) : Prop := d = [] ∨ d = ['$']

theorem IsDol.alpha {d : List Char} (h : IsDol d) : ∀ c ∈ d, isAlpha c = true := by
  rcases h with rfl | rfl
  · simp
  · intro c hc; simp at hc; subst hc; decide

theorem IsDol.reverse {d : List Char} (h : IsDol d) : d.reverse = d := by
  rcases h with rfl | rfl <;> rfl

theorem dropDollar_decomp' (s : List Char) : ∃ d, IsDol d ∧ s = d ++ dropDollar s := by
  cases s with
  | nil => exact ⟨[], Or.inl rfl, rfl⟩
  | cons x xs =>
    unfold dropDollar
    cases hx : isDollar x with
    | true =>
      have hn : x.toNat = 36 := by simpa [isDollar] using hx
      have : x = '$' := by
        have h2 : Char.ofNat x.toNat = x := Char.ofNat_toNat x
        rw [hn] at h2
        exact h2.symm
      subst this
      exact ⟨['$'], Or.inr rfl, by simp [hx]⟩
    | false => exact ⟨[], Or.inl rfl, by simp [hx]⟩

theorem trimSuffix_decomp (s : List Char) : ∃ d, IsDol d ∧ s = trimSuffixDollar s ++ d := by
  obtain ⟨d, hd, e⟩ := dropDollar_decomp' s.reverse
  refine ⟨d, hd, ?_⟩
  have := congrArg List.reverse e
  simp only [List.reverse_reverse, List.reverse_append, hd.reverse] at this
  exact this

theorem dropDollar_pre (d1 L t : List Char) (h1 : IsDol d1) (hL : L ≠ [])
    (hLl : ∀ c ∈ L, isLetter c = true) : dropDollar (d1 ++ L ++ t) = L ++ t := by
  rcases h1 with rfl | rfl
  · cases L with
    | nil => exact absurd rfl hL
    | cons a as =>
      have := isLetter_not_dollar (hLl a (by simp))
      simp [dropDollar, this]
  · have : isDollar '$' = true := by decide
    simp [dropDollar, this]

theorem trimSuffix_post (L d2 : List Char) (h2 : IsDol d2) (hL : L ≠ [])
    (hLl : ∀ c ∈ L, isLetter c = true) : trimSuffixDollar (L ++ d2) = L := by
  unfold trimSuffixDollar
  rw [List.reverse_append, h2.reverse]
  have hr : L.reverse ≠ [] := by simpa using hL
  rcases h2 with rfl | rfl
  · cases hlr : L.reverse with
    | nil => exact absurd hlr hr
    | cons b bs =>
      have hb : b ∈ L := by
        have : b ∈ L.reverse := by rw [hlr]; simp
        simpa using this
      have := isLetter_not_dollar (hLl b hb)
      simp only [List.nil_append, dropDollar, this, Bool.false_eq_true, if_false]
      rw [← hlr, List.reverse_reverse]
  · have : isDollar '$' = true := by decide
    simp [dropDollar, this]

/-- `SplitCellName` on `$?LETTERS$?DIGITS` -/
theorem split_shape (d1 L d2 D : List Char) (h1 : IsDol d1) (h2 : IsDol d2) (hL : L ≠ [])
    (hLl : ∀ c ∈ L, isLetter c = true) (hD : D ≠ []) (hDd : ∀ c ∈ D, isDigit c = true) :
    splitCellName (d1 ++ L ++ d2 ++ D) =
      match digitsVal D with
      | some v =>
        if 0 < v ∧ v < 9223372036854775808 then .ok (L, (v : Int)) else .error .cellName
      | none => .error .cellName := by
  have hpre : d1 ++ L ++ d2 ≠ [] := by simp [hL]
  have hall : ∀ c ∈ d1 ++ L ++ d2, isAlpha c = true := by
    intro c hc
    simp only [List.mem_append] at hc
    rcases hc with (hc | hc) | hc
    · exact h1.alpha c hc
    · exact isLetter_alpha (hLl c hc)
    · exact h2.alpha c hc
  have hlen : 1 ≤ (d1 ++ L ++ d2).length := by
    cases hq : d1 ++ L ++ d2 with
    | nil => exact absurd hq hpre
    | cons a as => simp
  have hfirst : firstIdx isAlpha (d1 ++ L ++ d2 ++ D) = some 0 := by
    cases hq : d1 ++ L ++ d2 with
    | nil => exact absurd hq hpre
    | cons a as =>
      exact firstIdx_zero_iff.mpr ⟨a, as ++ D, by simp, hall a (by rw [hq]; simp)⟩
  have hlast := lastIdx_all_append isAlpha (d1 ++ L ++ d2) D hpre hall
    (fun c hc => isDigit_not_alpha (hDd c hc))
  have hi : (d1 ++ L ++ d2).length - 1 + 1 = (d1 ++ L ++ d2).length := by omega
  have hDlen : 1 ≤ D.length := by
    cases D with
    | nil => exact absurd rfl hD
    | cons a as => simp
  have hcol : trimSuffixDollar (dropDollar (d1 ++ L ++ d2)) = L := by
    rw [dropDollar_pre d1 L d2 h1 hL hLl, trimSuffix_post L d2 h2 hL hLl]
  have hLe : L.isEmpty = false := by simpa [List.isEmpty_iff] using hL
  have hLd : L.any isDollar = false := by
    simp only [List.any_eq_false]
    intro c hc; simp [isLetter_not_dollar (hLl c hc)]
  have hsg : headSign D = false := by
    cases D with
    | nil => exact absurd rfl hD
    | cons a as =>
      have ⟨s1, s2⟩ := isDigit_not_sign (hDd a (by simp))
      simp only [headSign, isSign, Bool.or_eq_false_iff]
      exact ⟨s2, s1⟩
  unfold splitCellName
  simp only [hfirst, if_true, hlast, hi]
  have : (d1 ++ L ++ d2).length < (d1 ++ L ++ d2 ++ D).length := by
    simp only [List.length_append] at *; omega
  simp only [this, if_true, List.take_left', List.drop_left', hcol, hLe, hLd, hsg,
    Bool.not_false, Bool.and_self]
  rw [atoi_digits hD hDd]
  cases hv : digitsVal D with
  | none => simp
  | some v =>
    simp only [Option.bind_some]
    by_cases hb : v < 9223372036854775808
    · simp only [hb, if_true]
      by_cases h0 : 0 < v
      · have : (v : Int) > 0 := by omega
        simp [this, h0]
      · have : ¬ (v : Int) > 0 := by omega
        simp [this, h0]
    · simp [hb]

/-- `Atoi` without a leading sign accepts exactly non-empty digit strings below 2^63 -/
theorem atoi_nosign {D : List Char} {row : Int} (hs : headSign D = false) (h : atoi D = some row) :
    D ≠ [] ∧ (∀ c ∈ D, isDigit c = true) ∧
      ∃ v, digitsVal D = some v ∧ v < 9223372036854775808 ∧ row = (v : Int) := by
  cases D with
  | nil => simp [atoi] at h
  | cons c rest =>
    simp only [headSign, isSign, Bool.or_eq_false_iff] at hs
    simp only [atoi, hs.1, hs.2, Bool.or_self, Bool.false_eq_true, if_false] at h
    cases hv : digitsVal (c :: rest) with
    | none => simp [hv] at h
    | some v =>
      simp only [hv] at h
      split at h
      · rename_i hlt
        simp only [Option.some.injEq] at h
        have hd : ∀ x ∈ c :: rest, isDigit x = true := by
          unfold digitsVal at hv
          simp only [List.isEmpty_cons, Bool.false_eq_true, if_false] at hv
          -- all characters consumed by digitsValAux are digits
          have aux : ∀ (xs : List Char) (acc w : Nat), digitsValAux acc xs = some w →
              ∀ x ∈ xs, isDigit x = true := by
            intro xs
            induction xs with
            | nil => intro _ _ _ x hx; simp at hx
            | cons y ys ih =>
              intro acc w hw x hx
              simp only [digitsValAux] at hw
              split at hw
              · rename_i hy
                rcases List.mem_cons.mp hx with rfl | hx
                · exact hy
                · exact ih _ _ hw x hx
              · cases hw
          exact aux _ _ _ hv
        exact ⟨by simp, hd, v, rfl, hlt, h.symm⟩
      · cases h

/-- what an accepted `SplitCellName` looked like -/
theorem split_ok_shape {s col : List Char} {row : Int} (h : splitCellName s = .ok (col, row)) :
    ∃ pre D, s = pre ++ D ∧ D ≠ [] ∧ col = trimSuffixDollar (dropDollar pre) ∧ col ≠ [] ∧
      (∀ c ∈ col, isDollar c = false) ∧ headSign D = false ∧ atoi D = some row ∧ row > 0 := by
  unfold splitCellName at h
  split at h
  · split at h
    · rename_i i hl
      split at h
      · rename_i hlt
        dsimp only at h
        split at h
        · rename_i hcond
          split at h
          · rename_i r hat
            split at h
            · rename_i hr
              simp only [Except.ok.injEq, Prod.mk.injEq] at h
              simp only [Bool.and_eq_true, Bool.not_eq_true', List.any_eq_false] at hcond
              refine ⟨s.take (i + 1), s.drop (i + 1), (List.take_append_drop _ _).symm, ?_,
                h.1.symm, ?_, ?_, hcond.2, by rw [← h.2]; exact hat, by rw [← h.2]; exact hr⟩
              · intro hnil
                have := congrArg List.length hnil
                simp at this; omega
              · rw [← h.1]; intro e; rw [e] at hcond; simp at hcond
              · rw [← h.1]; intro c hc
                have := hcond.1.2 c hc
                simpa using this
            · cases h
          · cases h
        · cases h
      · cases h
    · cases h
  · cases h

end XlModel.Ref
