/-
`ColumnNameToNumber` after the overflow fix: the backwards loop with a limit
check after every letter (`colLoop`) against the exact big-endian numeral
(`colRaw`).  (C20)
-/
import XlModel.Lemmas.Ref
import Mathlib.Tactic.Ring

namespace XlModel.Ref
open XlModel

theorem leVal_snoc (xs : List Char) (c : Char) :
    leVal (xs ++ [c]) = leVal xs + 26 ^ xs.length * letterVal c := by
  induction xs with
  | nil => simp [leVal]
  | cons x xs ih =>
    simp only [List.cons_append, leVal, ih, List.length_cons]
    ring

/-- the big-endian Horner value is the little-endian value of the reversed name -/
theorem colRawAux_leVal {acc v : Nat} {xs : List Char} (h : colRawAux acc xs = some v) :
    v = acc * 26 ^ xs.length + leVal xs.reverse := by
  induction xs generalizing acc with
  | nil => simp only [colRawAux, Option.some.injEq] at h; subst h; simp [leVal]
  | cons x xs ih =>
    simp only [colRawAux] at h
    split at h
    · have := ih h
      rw [this, List.reverse_cons, leVal_snoc, List.length_reverse, List.length_cons]
      ring
    · cases h

/-- the loop on an all-letter (reversed) name: it returns the exact value when
that is within the limit and `ErrColumnNumber` otherwise — the early exit is
sound because the accumulated value only grows. -/
theorem colLoop_spec (rs : List Char) (hl : ∀ c ∈ rs, isLetter c = true) (col multi : Nat)
    (hcol : col ≤ Facts.MaxColumns) :
    colLoop col multi rs =
      if col + multi * leVal rs ≤ Facts.MaxColumns then .ok (col + multi * leVal rs)
      else .error .colNumber := by
  induction rs generalizing col multi with
  | nil => simp [colLoop, leVal, hcol]
  | cons c cs ih =>
    have hc := hl c (by simp)
    have e : col + multi * leVal (c :: cs) =
        (col + letterVal c * multi) + (multi * 26) * leVal cs := by
      simp only [leVal]; ring
    simp only [colLoop, hc, if_true]
    by_cases h : col + letterVal c * multi > Facts.MaxColumns
    · simp only [h, if_true]
      have : ¬ (col + multi * leVal (c :: cs) ≤ Facts.MaxColumns) := by rw [e]; omega
      simp [this]
    · simp only [h, if_false]
      rw [ih (fun x hx => hl x (by simp [hx])) _ _ (by omega), e]

/-- a non-letter anywhere makes the loop fail (with either error) -/
theorem colLoop_nonletter (rs : List Char) (h : ∃ c ∈ rs, isLetter c = false) (col multi v : Nat) :
    colLoop col multi rs ≠ .ok v := by
  induction rs generalizing col multi with
  | nil => obtain ⟨c, hc, _⟩ := h; simp at hc
  | cons x xs ih =>
    simp only [colLoop]
    cases hx : isLetter x with
    | false => simp
    | true =>
      simp only [if_true]
      split
      · simp
      · apply ih
        obtain ⟨c, hc, hcl⟩ := h
        rcases List.mem_cons.mp hc with rfl | hc
        · rw [hx] at hcl; cases hcl
        · exact ⟨c, hc, hcl⟩

/-- **No wrap-around**: whenever the loop goes on after a letter, the product it
just added is within the column limit, so `col ≤ MaxColumns` and
`multi ≤ MaxColumns` throughout and every intermediate Go `int` value is below
`MaxColumns + 26 * MaxColumns` — far from 2^63. This is what makes the exact
`Nat` loop the 64-bit loop. -/
theorem colLoop_small (col multi : Nat) (c : Char) (cs : List Char) (v : Nat)
    (hc : isLetter c = true) (h : colLoop col multi (c :: cs) = .ok v) :
    col + letterVal c * multi ≤ Facts.MaxColumns ∧ multi ≤ Facts.MaxColumns := by
  simp only [colLoop, hc, if_true] at h
  split at h
  · cases h
  · rename_i hle
    have hv := letterVal_pos hc
    have : multi ≤ letterVal c * multi := Nat.le_mul_of_pos_left _ (by omega)
    exact ⟨by omega, by omega⟩

/-- `ColumnNameToNumber` accepts exactly the non-empty all-letter names whose exact
bijective base-26 value is within the limit, and returns that value. -/
theorem columnNameToNumber_ok_iff (name : List Char) (c : Int) :
    columnNameToNumber name = .ok c ↔
      name ≠ [] ∧ ∃ v, colRaw name = some v ∧ v ≤ Facts.MaxColumns ∧ c = (v : Int) := by
  unfold columnNameToNumber
  constructor
  · intro h
    split at h
    · cases h
    · rename_i hne
      have hne' : name ≠ [] := by intro e; subst e; simp at hne
      refine ⟨hne', ?_⟩
      split at h
      · cases h
      · rename_i v hv
        simp only [Except.ok.injEq] at h
        by_cases hall : ∀ x ∈ name.reverse, isLetter x = true
        · rw [colLoop_spec _ hall 0 1 (Nat.zero_le _)] at hv
          split at hv
          · rename_i hle
            simp only [Except.ok.injEq] at hv
            have hall' : ∀ x ∈ name, isLetter x = true := fun x hx => hall x (by simpa using hx)
            obtain ⟨w, hw⟩ := colRawAux_of_letters 0 name hall'
            have := colRawAux_leVal hw
            refine ⟨w, hw, ?_, ?_⟩
            · omega
            · rw [← h]; congr 1; omega
          · cases hv
        · exfalso
          apply colLoop_nonletter name.reverse _ 0 1 v hv
          simp only [not_forall] at hall
          obtain ⟨x, hx, hxl⟩ := hall
          exact ⟨x, hx, by simpa using hxl⟩
  · rintro ⟨hne, v, hv, hle, rfl⟩
    have : name.isEmpty = false := by simpa [List.isEmpty_iff] using hne
    simp only [this, Bool.false_eq_true, if_false]
    have hall : ∀ x ∈ name.reverse, isLetter x = true :=
      fun x hx => colRawAux_some_letters hv x (by simpa using hx)
    have e := colRawAux_leVal hv
    rw [colLoop_spec _ hall 0 1 (Nat.zero_le _)]
    have e2 : leVal name.reverse = v := by omega
    simp only [Nat.zero_add, Nat.one_mul, e2, hle, if_true]

end XlModel.Ref
