/-
The strict A1 shape `$?LETTERS$?DIGITS` inside the grid, and its equivalence
with both the implementation model (`cellNameToCoordinates`) and the
specification parser (`parseA1`).  (C20)
-/
import XlModel.Lemmas.Ref2
import XlModel.Lemmas.Ref3

namespace XlModel.Ref
open XlModel

/-- `s` is `$?LETTERS$?DIGITS` denoting column `c`, row `r` inside the grid -/
def Shape (s : List Char) (c r : Nat) : Prop :=
  ∃ d1 L d2 D, s = d1 ++ L ++ d2 ++ D ∧ IsDol d1 ∧ IsDol d2 ∧ L ≠ [] ∧
    (∀ x ∈ L, isLetter x = true) ∧ D ≠ [] ∧ (∀ x ∈ D, isDigit x = true) ∧
    colRaw L = some c ∧ 1 ≤ c ∧ c ≤ Facts.MaxColumns ∧
    digitsVal D = some r ∧ 1 ≤ r ∧ r ≤ Facts.TotalRows

theorem totalRows_small : Facts.TotalRows < 9223372036854775808 := by decide

theorem takeWhile_append_stop (p : Char → Bool) (pre D : List Char) (hp : ∀ c ∈ pre, p c = true)
    (hD : ∃ d ds, D = d :: ds ∧ p d = false) :
    (pre ++ D).takeWhile p = pre ∧ (pre ++ D).dropWhile p = D := by
  obtain ⟨d, ds, rfl, hd⟩ := hD
  induction pre with
  | nil => simp [List.takeWhile, List.dropWhile, hd]
  | cons x xs ih =>
    have hx := hp x (by simp)
    have := ih (fun c hc => hp c (by simp [hc]))
    simp [List.takeWhile, List.dropWhile, hx, this.1, this.2]

theorem map_toUpper_digits (D : List Char) (h : ∀ c ∈ D, isDigit c = true) : D.map toUpper = D := by
  induction D with
  | nil => rfl
  | cons x xs ih =>
    simp [toUpper_nonletter (isDigit_not_letter (h x (by simp))), ih (fun c hc => h c (by simp [hc]))]

/-- the implementation decodes every string of the shape to the cell it denotes -/
theorem decode_of_shape {s : List Char} {c r : Nat} (h : Shape s c r) :
    cellNameToCoordinates s = .ok ((c : Int), (r : Int)) := by
  obtain ⟨d1, L, d2, D, rfl, h1, h2, hL, hLl, hD, hDd, hc, hc1, hc2, hr, hr1, hr2⟩ := h
  have hs := split_shape d1 L d2 D h1 h2 hL hLl hD hDd
  rw [hr] at hs
  have hsm := totalRows_small
  have : 0 < r ∧ r < 9223372036854775808 := ⟨by omega, by omega⟩
  simp only [this, and_self, if_true] at hs
  unfold cellNameToCoordinates
  rw [hs]
  have d : ¬ ((r : Int) > (Facts.TotalRows : Int)) := by omega
  simp only [d, if_false]
  rw [(columnNameToNumber_ok_iff L (c : Int)).mpr ⟨hL, c, hc, hc2, rfl⟩]

/-- …and maps nothing else to a coordinate -/
theorem shape_of_decode {s : List Char} {ci ri : Int} (h : cellNameToCoordinates s = .ok (ci, ri)) :
    ∃ c r : Nat, Shape s c r ∧ ci = c ∧ ri = r := by
  unfold cellNameToCoordinates at h
  split at h
  · cases h
  · rename_i col row hsplit
    split at h
    · cases h
    · rename_i hrow
      split at h
      · cases h
      · rename_i cn hcn
        simp only [Except.ok.injEq, Prod.mk.injEq] at h
        obtain ⟨rfl, rfl⟩ := h
        obtain ⟨pre, D, rfl, hD, hcol, hcne, _, hsg, hat, hrow0⟩ := split_ok_shape hsplit
        obtain ⟨_, v, hv, hvle, rfl⟩ := (columnNameToNumber_ok_iff col cn).mp hcn
        obtain ⟨hDne, hDd, w, hw, hwlt, rfl⟩ := atoi_nosign hsg hat
        obtain ⟨d1, hd1, e1⟩ := dropDollar_decomp' pre
        obtain ⟨d2, hd2, e2⟩ := trimSuffix_decomp (dropDollar pre)
        rw [← hcol] at e2
        have hLl : ∀ x ∈ col, isLetter x = true := colRawAux_some_letters hv
        have hv1 : 1 ≤ v := (colRawAux_bound hv).2.2 hcne
        refine ⟨v, w, ⟨d1, col, d2, D, ?_, hd1, hd2, hcne, hLl, hDne, hDd, hv, hv1, hvle, hw,
          by omega, by omega⟩, rfl, rfl⟩
        calc pre ++ D = (d1 ++ dropDollar pre) ++ D := by rw [← e1]
          _ = (d1 ++ (col ++ d2)) ++ D := by rw [← e2]
          _ = d1 ++ col ++ d2 ++ D := by simp

/-- the specification parser accepts every string of the shape -/
theorem parseA1_of_shape {s : List Char} {c r : Nat} (h : Shape s c r) : parseA1 s = some (c, r) := by
  obtain ⟨d1, L, d2, D, rfl, h1, h2, hL, hLl, hD, hDd, hc, hc1, hc2, hr, hr1, hr2⟩ := h
  obtain ⟨d, ds, rfl⟩ : ∃ d ds, D = d :: ds := by
    cases D with
    | nil => exact absurd rfl hD
    | cons d ds => exact ⟨d, ds, rfl⟩
  have hdd := hDd d (by simp)
  have e0 : dropDollar (d1 ++ L ++ d2 ++ d :: ds) = L ++ (d2 ++ d :: ds) := by
    have := dropDollar_pre d1 L (d2 ++ d :: ds) h1 hL hLl
    simpa using this
  have hstop : ∃ x xs, d2 ++ d :: ds = x :: xs ∧ isLetter x = false := by
    rcases h2 with rfl | rfl
    · exact ⟨d, ds, rfl, isDigit_not_letter hdd⟩
    · exact ⟨'$', d :: ds, rfl, by decide⟩
  have hst := takeWhile_append_stop isLetter L (d2 ++ d :: ds) hLl hstop
  have e2 : dropDollar (d2 ++ d :: ds) = d :: ds := by
    rcases h2 with rfl | rfl
    · simp [dropDollar, isDigit_not_dollar hdd]
    · have : isDollar '$' = true := by decide
      simp [dropDollar, this]
  unfold parseA1
  have hLe : L.isEmpty = false := by simpa [List.isEmpty_iff] using hL
  simp only [e0, hst.1, hst.2, e2, hLe, Bool.false_eq_true, if_false, hc, hr]
  have g : 1 ≤ c ∧ c ≤ Facts.MaxColumns ∧ 1 ≤ r ∧ r ≤ Facts.TotalRows := ⟨hc1, hc2, hr1, hr2⟩
  simp [g]

theorem digitsValAux_some_digits {acc v : Nat} {xs : List Char} (h : digitsValAux acc xs = some v) :
    ∀ c ∈ xs, isDigit c = true := by
  induction xs generalizing acc with
  | nil => simp
  | cons x xs ih =>
    simp only [digitsValAux] at h
    split at h
    · rename_i hx
      intro c hc
      rcases List.mem_cons.mp hc with rfl | hc
      · exact hx
      · exact ih h c hc
    · cases h

theorem digitsVal_some {D : List Char} {v : Nat} (h : digitsVal D = some v) :
    D ≠ [] ∧ ∀ c ∈ D, isDigit c = true := by
  unfold digitsVal at h
  split at h
  · cases h
  · rename_i hne
    exact ⟨by intro e; subst e; simp at hne, digitsValAux_some_digits h⟩

/-- …and only those -/
theorem shape_of_parseA1 {s : List Char} {c r : Nat} (h : parseA1 s = some (c, r)) : Shape s c r := by
  unfold parseA1 at h
  simp only [] at h
  split at h
  · cases h
  · rename_i hLne
    split at h
    · rename_i cv rv hcol hdig
      split at h
      · rename_i hrange
        simp only [Option.some.injEq, Prod.mk.injEq] at h
        obtain ⟨rfl, rfl⟩ := h
        obtain ⟨d1, hd1, e1⟩ := dropDollar_decomp' s
        obtain ⟨d2, hd2, e2⟩ := dropDollar_decomp' ((dropDollar s).dropWhile isLetter)
        have e3 : dropDollar s =
            (dropDollar s).takeWhile isLetter ++ (dropDollar s).dropWhile isLetter :=
          (List.takeWhile_append_dropWhile).symm
        have hLl : ∀ ch ∈ (dropDollar s).takeWhile isLetter, isLetter ch = true :=
          fun ch hch => List.all_eq_true.mp List.all_takeWhile ch hch
        have ⟨hDne, hDd⟩ := digitsVal_some hdig
        have hLne' : (dropDollar s).takeWhile isLetter ≠ [] := by
          intro e; rw [e] at hLne; simp at hLne
        refine ⟨d1, (dropDollar s).takeWhile isLetter, d2,
          dropDollar ((dropDollar s).dropWhile isLetter), ?_, hd1, hd2, hLne', hLl, hDne, hDd,
          hcol, hrange.1, hrange.2.1, hdig, hrange.2.2.1, hrange.2.2.2⟩
        calc s = d1 ++ dropDollar s := e1
          _ = d1 ++ ((dropDollar s).takeWhile isLetter ++ (dropDollar s).dropWhile isLetter) := by
                rw [← e3]
          _ = d1 ++ ((dropDollar s).takeWhile isLetter ++
                (d2 ++ dropDollar ((dropDollar s).dropWhile isLetter))) := by rw [← e2]
          _ = _ := by simp
      · cases h
    · cases h

/-- upper-casing keeps the shape and the denoted cell -/
theorem shape_upper {s : List Char} {c r : Nat} (h : Shape s c r) : Shape (s.map toUpper) c r := by
  obtain ⟨d1, L, d2, D, rfl, h1, h2, hL, hLl, hD, hDd, hc, hc1, hc2, hr, hr1, hr2⟩ := h
  have hdol : ∀ d, IsDol d → d.map toUpper = d := by
    intro d hd; rcases hd with rfl | rfl
    · rfl
    · decide
  have hupl : ∀ ch ∈ L.map toUpper, isLetter ch = true := by
    intro ch hch
    obtain ⟨x, hx, rfl⟩ := List.mem_map.mp hch
    simp [isLetter, (toUpper_letter_val (hLl x hx)).1]
  refine ⟨d1, L.map toUpper, d2, D, ?_, h1, h2, by simpa using hL, hupl, hD, hDd, ?_, hc1, hc2,
    hr, hr1, hr2⟩
  · simp only [List.map_append, hdol d1 h1, hdol d2 h2, map_toUpper_digits D hDd]
  · unfold colRaw; rw [colRawAux_toUpper]; exact hc

/-! ### the converse: nothing becomes a reference by (ASCII) upper-casing -/

theorem isLetter_toUpper (c : Char) : isLetter (toUpper c) = isLetter c := by
  cases h : isLetter c with
  | true => simp [isLetter, (toUpper_letter_val h).1]
  | false => rw [toUpper_nonletter h, h]

theorem toUpper_eq_of_nonletter_image {c : Char} (h : isLetter (toUpper c) = false) : toUpper c = c := by
  rw [isLetter_toUpper] at h
  exact toUpper_nonletter h

theorem map_toUpper_eq_of_nonletters {xs ys : List Char} (h : xs.map toUpper = ys)
    (hy : ∀ c ∈ ys, isLetter c = false) : xs = ys := by
  subst h
  induction xs with
  | nil => rfl
  | cons x xs ih =>
    have hx : isLetter (toUpper x) = false := hy _ (by simp)
    have : toUpper x = x := toUpper_eq_of_nonletter_image hx
    simp only [List.map_cons, this]
    congr 1
    exact ih (fun c hc => hy c (by simp [hc]))

theorem IsDol.nonletters {d : List Char} (h : IsDol d) : ∀ c ∈ d, isLetter c = false := by
  rcases h with rfl | rfl
  · simp
  · intro c hc; simp at hc; subst hc; decide

/-- if the upper-cased string has the shape, the string itself has it (same cell) -/
theorem shape_of_upper {s : List Char} {c r : Nat} (h : Shape (s.map toUpper) c r) : Shape s c r := by
  obtain ⟨d1, L, d2, D, e, h1, h2, hL, hLl, hD, hDd, hc, hc1, hc2, hr, hr1, hr2⟩ := h
  obtain ⟨s123, s4, rfl, e123, e4⟩ := List.map_eq_append_iff.mp e
  obtain ⟨s12, s3, rfl, e12, e3⟩ := List.map_eq_append_iff.mp e123
  obtain ⟨s1, s2, rfl, e1, e2⟩ := List.map_eq_append_iff.mp e12
  have hs1 : s1 = d1 := map_toUpper_eq_of_nonletters e1 h1.nonletters
  have hs3 : s3 = d2 := map_toUpper_eq_of_nonletters e3 h2.nonletters
  have hs4 : s4 = D := map_toUpper_eq_of_nonletters e4 (fun c hc => isDigit_not_letter (hDd c hc))
  subst hs1 hs3 hs4
  subst e2
  have hl2 : ∀ x ∈ s2, isLetter x = true := by
    intro x hx
    have := hLl (toUpper x) (List.mem_map.mpr ⟨x, hx, rfl⟩)
    rwa [isLetter_toUpper] at this
  refine ⟨s1, s2, s3, s4, rfl, h1, h2, by simpa using hL, hl2, hD, hDd, ?_, hc1, hc2, hr, hr1, hr2⟩
  have : colRaw (s2.map toUpper) = colRaw s2 := by unfold colRaw; exact colRawAux_toUpper 0 s2
  rw [← this]; exact hc

end XlModel.Ref
