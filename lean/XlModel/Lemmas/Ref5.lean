/-
`strings.Split(·, ":")` and `$`-stripping on encoded ranges (C20: range helpers).
-/
import XlModel.Lemmas.Ref4

namespace XlModel.Ref
open XlModel

def isColon (c : Char) : Bool := c.toNat == 58

theorem splitColonAux_nocolon (cur xs : List Char) (h : ∀ c ∈ xs, isColon c = false) :
    splitColonAux cur xs = [cur.reverse ++ xs] := by
  induction xs generalizing cur with
  | nil => simp [splitColonAux]
  | cons x xs ih =>
    have hx : (x.toNat == 58) = false := h x (by simp)
    simp only [splitColonAux, hx, Bool.false_eq_true, if_false]
    rw [ih _ (fun c hc => h c (by simp [hc]))]
    simp

theorem splitColonAux_colon (cur a b : List Char) (ha : ∀ c ∈ a, isColon c = false) :
    splitColonAux cur (a ++ ':' :: b) = (cur.reverse ++ a) :: splitColonAux [] b := by
  induction a generalizing cur with
  | nil =>
    have : (':'.toNat == 58) = true := by decide
    simp [splitColonAux, this]
  | cons x xs ih =>
    have hx : (x.toNat == 58) = false := ha x (by simp)
    simp only [List.cons_append, splitColonAux, hx, Bool.false_eq_true, if_false]
    rw [ih _ (fun c hc => ha c (by simp [hc]))]
    simp

/-- splitting `a:b` where neither side contains a colon -/
theorem splitColon_two (a b : List Char) (ha : ∀ c ∈ a, isColon c = false)
    (hb : ∀ c ∈ b, isColon c = false) : splitColon (a ++ ':' :: b) = [a, b] := by
  unfold splitColon
  rw [splitColonAux_colon [] a b ha, splitColonAux_nocolon [] b hb]
  simp

theorem isLetter_not_colon {c : Char} (h : isLetter c = true) : isColon c = false := by
  simp only [isLetter, isUp, isLo, isColon, Bool.or_eq_true, Bool.and_eq_true, decide_eq_true_eq,
    beq_eq_false_iff_ne] at *
  omega

theorem isDigit_not_colon {c : Char} (h : isDigit c = true) : isColon c = false := by
  simp only [isDigit, isColon, Bool.and_eq_true, decide_eq_true_eq, beq_eq_false_iff_ne] at *
  omega

/-- removing every `$` from an encoded cell leaves the relative spelling -/
theorem filter_dollar_encoded (d1 L d2 D : List Char) (h1 : IsDol d1) (h2 : IsDol d2)
    (hL : ∀ c ∈ L, isLetter c = true) (hD : ∀ c ∈ D, isDigit c = true) :
    (d1 ++ L ++ d2 ++ D).filter (fun c => !isDollar c) = L ++ D := by
  have f : ∀ d, IsDol d → d.filter (fun c => !isDollar c) = [] := by
    intro d hd; rcases hd with rfl | rfl
    · rfl
    · decide
  have fL : L.filter (fun c => !isDollar c) = L :=
    List.filter_eq_self.mpr (fun c hc => by simp [isLetter_not_dollar (hL c hc)])
  have fD : D.filter (fun c => !isDollar c) = D :=
    List.filter_eq_self.mpr (fun c hc => by simp [isDigit_not_dollar (hD c hc)])
  simp [List.filter_append, f d1 h1, f d2 h2, fL, fD]

end XlModel.Ref
