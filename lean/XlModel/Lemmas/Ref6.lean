/-
`JoinCellName` / `SplitCellName` against each other and against the cell codecs
(C20: "SplitCellName/JoinCellName agree with them").
-/
import XlModel.Lemmas.Ref5

namespace XlModel.Ref
open XlModel

theorem filter_length_lt_of_not_all (p : Char → Bool) (l : List Char)
    (h : ¬ ∀ c ∈ l, p c = true) : (l.filter p).length < l.length := by
  induction l with
  | nil => exact absurd (by simp) h
  | cons x xs ih =>
    by_cases hx : p x = true
    · have : ¬ ∀ c ∈ xs, p c = true := by
        intro hall; apply h; intro c hc
        rcases List.mem_cons.mp hc with rfl | hc
        · exact hx
        · exact hall c hc
      have := ih this
      simp only [List.filter_cons, hx, if_true, List.length_cons]; omega
    · have hle := List.length_filter_le p xs
      simp only [List.filter_cons, hx, Bool.false_eq_true, if_false, List.length_cons]; omega

/-- exact input/output behaviour of `JoinCellName` -/
theorem joinCellName_ok_iff (col : List Char) (row : Int) (s : List Char) :
    joinCellName col row = .ok s ↔
      col ≠ [] ∧ (∀ c ∈ col, isLetter c = true) ∧ 1 ≤ row ∧
        s = col.map toUpper ++ itoaAux row.toNat := by
  unfold joinCellName
  simp only [List.length_map]
  by_cases hall : ∀ c ∈ col, isLetter c = true
  · have hf : col.filter isLetter = col := List.filter_eq_self.mpr hall
    rw [hf]
    by_cases he : col = []
    · subst he; simp
    · have he' : col.isEmpty = false := by simpa [List.isEmpty_iff] using he
      by_cases hr : row < 1
      · have : ¬ 1 ≤ row := by omega
        simp [he', hr, this]
      · have h1 : 1 ≤ row := by omega
        simp only [he', bne_self_eq_false, Bool.or_self, Bool.false_eq_true, if_false, hr,
          itoaInt_pos h1, Except.ok.injEq]
        constructor
        · intro h; exact ⟨he, hall, h1, h.symm⟩
        · intro h; exact h.2.2.2.symm
  · have hlt := filter_length_lt_of_not_all isLetter col hall
    have hne : (col.length != (col.filter isLetter).length) = true := by
      simp only [bne_iff_ne, ne_eq]; omega
    simp only [hne, Bool.or_true, if_true]
    constructor
    · intro h; cases h
    · intro h; exact absurd h.2.1 hall

theorem map_toUpper_letters {col : List Char} (h : ∀ c ∈ col, isLetter c = true) :
    ∀ c ∈ col.map toUpper, isLetter c = true := by
  intro c hc
  obtain ⟨x, hx, rfl⟩ := List.mem_map.mp hc
  rw [isLetter_toUpper]; exact h x hx

theorem map_toUpper_of_up (l : List Char) (h : ∀ c ∈ l, isUp c = true) : l.map toUpper = l := by
  induction l with
  | nil => rfl
  | cons x xs ih =>
    simp only [List.map_cons, toUpper_of_up (h x (by simp)),
      ih (fun ch hch => h ch (by simp [hch]))]

/-- `SplitCellName (JoinCellName col row)` for a row inside Go's `int` -/
theorem split_of_join {col : List Char} {row : Int} {s : List Char}
    (h : joinCellName col row = .ok s) (hrow : row < 9223372036854775808) :
    splitCellName s = .ok (col.map toUpper, row) := by
  obtain ⟨hne, hall, h1, rfl⟩ := (joinCellName_ok_iff col row s).mp h
  have hn : 1 ≤ row.toNat := by omega
  have hs := split_shape [] (col.map toUpper) [] (itoaAux row.toNat) (Or.inl rfl) (Or.inl rfl)
    (by simpa using hne) (map_toUpper_letters hall) (itoaAux_ne_nil hn) (itoaAux_digits _)
  rw [digitsVal_itoaAux hn] at hs
  have hc : 0 < row.toNat ∧ row.toNat < 9223372036854775808 := ⟨by omega, by omega⟩
  simp only [hc, and_self, if_true, List.nil_append, List.append_nil] at hs
  rw [hs]
  have : ((row.toNat : Nat) : Int) = row := by omega
  rw [this]

/-- on an accepted cell name `SplitCellName` returns the letters and the row of
the strict shape, and `JoinCellName` of these is the canonical relative spelling -/
theorem split_join_of_shape {s : List Char} {c r : Nat} (h : Shape s c r) :
    ∃ L, splitCellName s = .ok (L, (r : Int)) ∧ colRaw L = some c ∧
      (∀ x ∈ L, isLetter x = true) ∧ L ≠ [] ∧
      joinCellName L (r : Int) = .ok (numToName c ++ itoaAux r) := by
  obtain ⟨d1, L, d2, D, rfl, h1, h2, hL, hLl, hD, hDd, hc, hc1, hc2, hr, hr1, hr2⟩ := h
  have hs := split_shape d1 L d2 D h1 h2 hL hLl hD hDd
  rw [hr] at hs
  have hsm := totalRows_small
  have : 0 < r ∧ r < 9223372036854775808 := ⟨by omega, by omega⟩
  simp only [this, and_self, if_true] at hs
  refine ⟨L, hs, hc, hLl, hL, ?_⟩
  rw [joinCellName_ok_iff]
  refine ⟨hL, hLl, by omega, ?_⟩
  have hu : colRaw (L.map toUpper) = some c := by
    unfold colRaw; rw [colRawAux_toUpper]; exact hc
  have hup : ∀ ch ∈ L.map toUpper, isUp ch = true := by
    intro ch hch
    obtain ⟨x, hx, rfl⟩ := List.mem_map.mp hch
    exact (toUpper_letter_val (hLl x hx)).1
  rw [numToName_of_colRaw hup hu]
  simp

end XlModel.Ref
