/-
Exact acceptance of `rangeRefToCoordinates` (C20: range helpers). Since the
repair it splits the reference at `:`, requires exactly two parts and decodes
each part with `CellNameToCoordinates`: it accepts exactly `cell:cell`.
-/
import XlModel.Lemmas.Ref6
import XlModel.RefApi

namespace XlModel.Ref
open XlModel

/-- the strict reading: `A:B`, both sides strict A1 references in the grid -/
def RangeStrict (ref : List Char) (c1 r1 c2 r2 : Nat) : Prop :=
  ∃ A B, ref = A ++ ':' :: B ∧ Shape A c1 r1 ∧ Shape B c2 r2

theorem isColon_eq {c : Char} (h : isColon c = true) : c = ':' := by
  have hn : c.toNat = 58 := by simpa [isColon] using h
  have h2 : Char.ofNat c.toNat = c := Char.ofNat_toNat c
  rw [hn] at h2
  exact h2.symm

/-- shape of the result list of `strings.Split(s, ":")` -/
theorem splitColonAux_cons {cur xs p : List Char} {ps : List (List Char)}
    (h : splitColonAux cur xs = p :: ps) :
    ∃ x', p = cur.reverse ++ x' ∧ (∀ c ∈ x', isColon c = false) ∧
      ((ps = [] ∧ xs = x') ∨ ∃ y, xs = x' ++ ':' :: y ∧ ps = splitColonAux [] y) := by
  induction xs generalizing cur with
  | nil =>
    simp only [splitColonAux, List.cons.injEq] at h
    exact ⟨[], by simp [h.1], by simp, Or.inl ⟨h.2.symm, rfl⟩⟩
  | cons x xs ih =>
    cases hx : isColon x with
    | true =>
      have hx' : (x.toNat == 58) = true := hx
      simp only [splitColonAux, hx', if_true, List.cons.injEq] at h
      have := isColon_eq hx
      subst this
      exact ⟨[], by simp [h.1], by simp, Or.inr ⟨xs, rfl, h.2.symm⟩⟩
    | false =>
      have hx' : (x.toNat == 58) = false := hx
      simp only [splitColonAux, hx', Bool.false_eq_true, if_false] at h
      obtain ⟨x', hp, hnc, hrest⟩ := ih h
      refine ⟨x :: x', by simp [hp], ?_, ?_⟩
      · intro c hc
        rcases List.mem_cons.mp hc with rfl | hc
        · exact hx
        · exact hnc c hc
      · rcases hrest with ⟨h1, h2⟩ | ⟨y, h1, h2⟩
        · exact Or.inl ⟨h1, by rw [h2]⟩
        · exact Or.inr ⟨y, by rw [h1]; rfl, h2⟩

theorem splitColonAux_ne_nil (cur xs : List Char) : splitColonAux cur xs ≠ [] := by
  induction xs generalizing cur with
  | nil => simp [splitColonAux]
  | cons x xs ih =>
    simp only [splitColonAux]
    split
    · simp
    · exact ih _

/-- exactly two parts: the string is `a:b` with colon-free sides -/
theorem splitColon_exactly_two {s a b : List Char} (h : splitColon s = [a, b]) :
    s = a ++ ':' :: b ∧ (∀ c ∈ a, isColon c = false) ∧ (∀ c ∈ b, isColon c = false) := by
  unfold splitColon at h
  obtain ⟨a', ha, hac, hr⟩ := splitColonAux_cons h
  simp only [List.reverse_nil, List.nil_append] at ha
  subst ha
  rcases hr with ⟨h1, _⟩ | ⟨y, hs, hps⟩
  · cases h1
  · obtain ⟨b', hb, hbc, hr2⟩ := splitColonAux_cons hps.symm
    simp only [List.reverse_nil, List.nil_append] at hb
    subst hb
    rcases hr2 with ⟨_, hy⟩ | ⟨z, _, hz⟩
    · exact ⟨by rw [hs, hy], hac, hbc⟩
    · exact absurd hz.symm (splitColonAux_ne_nil [] z)

theorem shape_nocolon {s : List Char} {c r : Nat} (h : Shape s c r) :
    ∀ x ∈ s, isColon x = false := by
  obtain ⟨d1, L, d2, D, rfl, h1, h2, _, hLl, _, hDd, _⟩ := h
  have hd : ∀ d, IsDol d → ∀ x ∈ d, isColon x = false := by
    intro d hd x hx
    rcases hd with rfl | rfl
    · simp at hx
    · simp at hx; subst hx; decide
  intro x hx
  simp only [List.mem_append] at hx
  rcases hx with ((hx | hx) | hx) | hx
  · exact hd d1 h1 x hx
  · exact isLetter_not_colon (hLl x hx)
  · exact hd d2 h2 x hx
  · exact isDigit_not_colon (hDd x hx)

/-- the only way to cut `A:B` (colon-free sides) at a colon -/
theorem colon_cut_unique {X Y A B : List Char} (h : X ++ ':' :: Y = A ++ ':' :: B)
    (hA : ∀ c ∈ A, isColon c = false) (hB : ∀ c ∈ B, isColon c = false) : X = A ∧ Y = B := by
  have hc : isColon ':' = true := by decide
  rcases List.append_eq_append_iff.mp h with ⟨a', hA', h2⟩ | ⟨c', hX, h2⟩
  · cases a' with
    | nil => simp at h2; subst hA'; simp [h2]
    | cons x xs =>
      simp only [List.cons_append, List.cons.injEq] at h2
      have : isColon ':' = false := hA ':' (by rw [hA']; simp [← h2.1])
      rw [hc] at this; cases this
  · cases c' with
    | nil => simp at h2; subst hX; simp [h2]
    | cons x xs =>
      simp only [List.cons_append, List.cons.injEq] at h2
      have : isColon ':' = false := hB ':' (by rw [h2.2]; simp)
      rw [hc] at this; cases this

/-- **exact acceptance of `rangeRefToCoordinates`**: exactly the strict ranges -/
theorem rangeRef_ok_iff (ref : List Char) (c1 r1 c2 r2 : Int) :
    rangeRefToCoordinates ref = .ok (c1, r1, c2, r2) ↔
      ∃ n1 m1 n2 m2 : Nat, c1 = n1 ∧ r1 = m1 ∧ c2 = n2 ∧ r2 = m2 ∧ RangeStrict ref n1 m1 n2 m2 := by
  constructor
  · intro h
    unfold rangeRefToCoordinates at h
    split at h
    · rename_i a b hsp
      split at h
      · cases h
      · rename_i x1 y1 hd1
        split at h
        · cases h
        · rename_i x2 y2 hd2
          simp only [Except.ok.injEq, Prod.mk.injEq] at h
          obtain ⟨rfl, rfl, rfl, rfl⟩ := h
          obtain ⟨n1, m1, hs1, rfl, rfl⟩ := shape_of_decode hd1
          obtain ⟨n2, m2, hs2, rfl, rfl⟩ := shape_of_decode hd2
          exact ⟨n1, m1, n2, m2, rfl, rfl, rfl, rfl, a, b, (splitColon_exactly_two hsp).1, hs1, hs2⟩
    · cases h
  · rintro ⟨n1, m1, n2, m2, rfl, rfl, rfl, rfl, A, B, rfl, hs1, hs2⟩
    unfold rangeRefToCoordinates
    rw [splitColon_two A B (shape_nocolon hs1) (shape_nocolon hs2)]
    simp only [decode_of_shape hs1, decode_of_shape hs2]

/-- the specification parser of ranges is the strict reading -/
theorem parseRangeStrict_iff (ref : List Char) (c1 r1 c2 r2 : Nat) :
    parseRangeStrict ref = some (c1, r1, c2, r2) ↔ RangeStrict ref c1 r1 c2 r2 := by
  constructor
  · intro h
    unfold parseRangeStrict at h
    split at h
    · rename_i a b hsp
      split at h
      · rename_i x1 y1 x2 y2 hp1 hp2
        simp only [Option.some.injEq, Prod.mk.injEq] at h
        obtain ⟨rfl, rfl, rfl, rfl⟩ := h
        exact ⟨a, b, (splitColon_exactly_two hsp).1, shape_of_parseA1 hp1, shape_of_parseA1 hp2⟩
      · cases h
    · cases h
  · rintro ⟨A, B, rfl, hA, hB⟩
    unfold parseRangeStrict
    rw [splitColon_two A B (shape_nocolon hA) (shape_nocolon hB)]
    simp only [parseA1_of_shape hA, parseA1_of_shape hB]

end XlModel.Ref
