/-
Exact acceptance of `rangeRefToCoordinates` (C20: range helpers): it removes
EVERY `$` from the whole reference, splits at `:` and decodes the first two
parts, ignoring anything after a second colon.
-/
import XlModel.Lemmas.Ref6
import XlModel.RefApi

namespace XlModel.Ref
open XlModel

/-- what the lenient decoder accepts, stated on the reference as passed:
`A:B` or `A:B:junk`, where `A` and `B` are colon-free and become strict
(relative) cell references once every `$` in them has been removed. -/
def RangeLoose (ref : List Char) (c1 r1 c2 r2 : Nat) : Prop :=
  ∃ A B tail, ref = A ++ ':' :: B ++ tail ∧ (tail = [] ∨ ∃ j, tail = ':' :: j) ∧
    (∀ c ∈ A, isColon c = false) ∧ (∀ c ∈ B, isColon c = false) ∧
    Shape (stripDollar A) c1 r1 ∧ Shape (stripDollar B) c2 r2

/-- the strict reading: `A:B`, both sides strict A1 references in the grid -/
def RangeStrict (ref : List Char) (c1 r1 c2 r2 : Nat) : Prop :=
  ∃ A B, ref = A ++ ':' :: B ∧ Shape A c1 r1 ∧ Shape B c2 r2

theorem colon_not_dollar {c : Char} (h : isColon c = true) : isDollar c = false := by
  simp only [isColon, isDollar, beq_iff_eq, beq_eq_false_iff_ne] at *
  omega

theorem isDollar_not_colon {c : Char} (h : isDollar c = true) : isColon c = false := by
  simp only [isColon, isDollar, beq_iff_eq, beq_eq_false_iff_ne] at *
  omega

theorem isColon_eq {c : Char} (h : isColon c = true) : c = ':' := by
  have hn : c.toNat = 58 := by simpa [isColon] using h
  have h2 : Char.ofNat c.toNat = c := Char.ofNat_toNat c
  rw [hn] at h2
  exact h2.symm

theorem stripDollar_append (a b : List Char) :
    stripDollar (a ++ b) = stripDollar a ++ stripDollar b := by
  unfold stripDollar; exact List.filter_append ..

theorem stripDollar_colon_cons (b : List Char) :
    stripDollar (':' :: b) = ':' :: stripDollar b := by
  have : (!isDollar ':') = true := by decide
  simp [stripDollar, List.filter_cons, this]

theorem stripDollar_nocolon {a : List Char} (h : ∀ c ∈ a, isColon c = false) :
    ∀ c ∈ stripDollar a, isColon c = false := by
  intro c hc
  exact h c (List.mem_filter.mp hc).1

theorem nocolon_of_stripDollar {a : List Char} (h : ∀ c ∈ stripDollar a, isColon c = false) :
    ∀ c ∈ a, isColon c = false := by
  intro c hc
  cases hcol : isColon c with
  | false => rfl
  | true =>
    have : c ∈ stripDollar a := List.mem_filter.mpr ⟨hc, by simp [colon_not_dollar hcol]⟩
    rw [h c this] at hcol; cases hcol

/-- a colon in the stripped string comes from a colon in the string itself -/
theorem stripDollar_eq_append_colon (ref a t : List Char)
    (h : stripDollar ref = a ++ ':' :: t) (ha : ∀ c ∈ a, isColon c = false) :
    ∃ A T, ref = A ++ ':' :: T ∧ stripDollar A = a ∧ stripDollar T = t ∧
      ∀ c ∈ A, isColon c = false := by
  induction ref generalizing a with
  | nil => simp [stripDollar] at h
  | cons x xs ih =>
    cases hx : isDollar x with
    | true =>
      have e : stripDollar (x :: xs) = stripDollar xs := by simp [stripDollar, List.filter_cons, hx]
      rw [e] at h
      obtain ⟨A, T, rfl, hA, hT, hAc⟩ := ih a h ha
      refine ⟨x :: A, T, rfl, ?_, hT, ?_⟩
      · simp only [stripDollar, List.filter_cons, hx, Bool.not_true, Bool.false_eq_true, if_false]
        exact hA
      · intro c hc
        rcases List.mem_cons.mp hc with rfl | hc
        · exact isDollar_not_colon hx
        · exact hAc c hc
    | false =>
      have e : stripDollar (x :: xs) = x :: stripDollar xs := by
        simp [stripDollar, List.filter_cons, hx]
      rw [e] at h
      cases a with
      | nil =>
        simp only [List.nil_append, List.cons.injEq] at h
        obtain ⟨rfl, ht⟩ := h
        exact ⟨[], xs, rfl, rfl, ht, by simp⟩
      | cons y a' =>
        simp only [List.cons_append, List.cons.injEq] at h
        obtain ⟨rfl, ht⟩ := h
        obtain ⟨A, T, rfl, hA, hT, hAc⟩ := ih a' ht (fun c hc => ha c (by simp [hc]))
        refine ⟨x :: A, T, rfl, ?_, hT, ?_⟩
        · simp only [stripDollar, List.filter_cons, hx, Bool.not_false, if_true]
          exact congrArg _ hA
        · intro c hc
          rcases List.mem_cons.mp hc with rfl | hc
          · exact ha c (by simp)
          · exact hAc c hc

/-- shape of the result list of `strings.Split(s, ":")` -/
theorem splitColonAux_cons {cur xs p : List Char} {ps : List (List Char)}
    (h : splitColonAux cur xs = p :: ps) :
    ∃ x', p = cur.reverse ++ x' ∧ (∀ c ∈ x', isColon c = false) ∧
      ((ps = [] ∧ xs = x') ∨ ∃ y, xs = x' ++ ':' :: y ∧ ps = splitColonAux [] y) := by
  induction xs generalizing cur with
  | nil =>
    simp only [splitColonAux, List.cons.injEq] at h
    exact ⟨[], by simp [h.1], by simp, Or.inl ⟨h.2.symm, rfl⟩⟩
  | cons x xs ih =>
    cases hx : isColon x with
    | true =>
      have hx' : (x.toNat == 58) = true := hx
      simp only [splitColonAux, hx', if_true, List.cons.injEq] at h
      have := isColon_eq hx
      subst this
      exact ⟨[], by simp [h.1], by simp, Or.inr ⟨xs, rfl, h.2.symm⟩⟩
    | false =>
      have hx' : (x.toNat == 58) = false := hx
      simp only [splitColonAux, hx', Bool.false_eq_true, if_false] at h
      obtain ⟨x', hp, hnc, hrest⟩ := ih h
      refine ⟨x :: x', by simp [hp], ?_, ?_⟩
      · intro c hc
        rcases List.mem_cons.mp hc with rfl | hc
        · exact hx
        · exact hnc c hc
      · rcases hrest with ⟨h1, h2⟩ | ⟨y, h1, h2⟩
        · exact Or.inl ⟨h1, by rw [h2]⟩
        · exact Or.inr ⟨y, by rw [h1]; rfl, h2⟩

theorem splitColonAux_ne_nil (cur xs : List Char) : splitColonAux cur xs ≠ [] := by
  induction xs generalizing cur with
  | nil => simp [splitColonAux]
  | cons x xs ih =>
    simp only [splitColonAux]
    split
    · simp
    · exact ih _

/-- at least two parts: the string is `a:b` or `a:b:junk` -/
theorem splitColon_two_parts {s a b : List Char} {rest : List (List Char)}
    (h : splitColon s = a :: b :: rest) :
    ∃ tail, s = a ++ ':' :: b ++ tail ∧ (tail = [] ∨ ∃ j, tail = ':' :: j) ∧
      (∀ c ∈ a, isColon c = false) ∧ (∀ c ∈ b, isColon c = false) := by
  unfold splitColon at h
  obtain ⟨a', ha, hac, hr⟩ := splitColonAux_cons h
  simp only [List.reverse_nil, List.nil_append] at ha
  subst ha
  rcases hr with ⟨h1, _⟩ | ⟨y, hs, hps⟩
  · cases h1
  · obtain ⟨b', hb, hbc, hr2⟩ := splitColonAux_cons hps.symm
    simp only [List.reverse_nil, List.nil_append] at hb
    subst hb
    rcases hr2 with ⟨_, hy⟩ | ⟨z, hy, _⟩
    · exact ⟨[], by rw [hs, hy]; simp, Or.inl rfl, hac, hbc⟩
    · exact ⟨':' :: z, by rw [hs, hy]; simp, Or.inr ⟨z, rfl⟩, hac, hbc⟩

/-- conversely -/
theorem splitColon_of_two_parts (a b tail : List Char) (ht : tail = [] ∨ ∃ j, tail = ':' :: j)
    (ha : ∀ c ∈ a, isColon c = false) (hb : ∀ c ∈ b, isColon c = false) :
    ∃ rest, splitColon (a ++ ':' :: b ++ tail) = a :: b :: rest := by
  unfold splitColon
  have e : a ++ ':' :: b ++ tail = a ++ ':' :: (b ++ tail) := by simp
  rw [e, splitColonAux_colon [] a _ ha]
  rcases ht with rfl | ⟨j, rfl⟩
  · rw [List.append_nil, splitColonAux_nocolon [] b hb]
    exact ⟨[], by simp⟩
  · rw [splitColonAux_colon [] b j hb]
    exact ⟨splitColonAux [] j, by simp⟩

/-- **exact acceptance of `rangeRefToCoordinates`** -/
theorem rangeRef_ok_iff (ref : List Char) (c1 r1 c2 r2 : Int) :
    rangeRefToCoordinates ref = .ok (c1, r1, c2, r2) ↔
      ∃ n1 m1 n2 m2 : Nat, c1 = n1 ∧ r1 = m1 ∧ c2 = n2 ∧ r2 = m2 ∧ RangeLoose ref n1 m1 n2 m2 := by
  constructor
  · intro h
    unfold rangeRefToCoordinates at h
    split at h
    · rename_i a b rest hsp
      split at h
      · cases h
      · rename_i x1 y1 hd1
        split at h
        · cases h
        · rename_i x2 y2 hd2
          simp only [Except.ok.injEq, Prod.mk.injEq] at h
          obtain ⟨rfl, rfl, rfl, rfl⟩ := h
          obtain ⟨n1, m1, hs1, rfl, rfl⟩ := shape_of_decode hd1
          obtain ⟨n2, m2, hs2, rfl, rfl⟩ := shape_of_decode hd2
          refine ⟨n1, m1, n2, m2, rfl, rfl, rfl, rfl, ?_⟩
          obtain ⟨tail, hs, ht, hac, hbc⟩ := splitColon_two_parts hsp
          have hs' : stripDollar ref = a ++ ':' :: (b ++ tail) := by
            unfold stripDollar; rw [hs]; simp
          obtain ⟨A, T, rfl, hA, hT, hAc⟩ := stripDollar_eq_append_colon ref a _ hs' hac
          rcases ht with rfl | ⟨j, rfl⟩
          · rw [List.append_nil] at hT
            refine ⟨A, T, [], by simp, Or.inl rfl, hAc, ?_, by rw [hA]; exact hs1,
              by rw [hT]; exact hs2⟩
            exact nocolon_of_stripDollar (by rw [hT]; exact hbc)
          · obtain ⟨B, J, rfl, hB, _, hBc⟩ := stripDollar_eq_append_colon T b j hT hbc
            exact ⟨A, B, ':' :: J, by simp, Or.inr ⟨J, rfl⟩, hAc, hBc, by rw [hA]; exact hs1,
              by rw [hB]; exact hs2⟩
    · cases h
  · rintro ⟨n1, m1, n2, m2, rfl, rfl, rfl, rfl, A, B, tail, rfl, ht, hAc, hBc, hs1, hs2⟩
    have hst : stripDollar (A ++ ':' :: B ++ tail) =
        stripDollar A ++ ':' :: stripDollar B ++ stripDollar tail := by
      rw [stripDollar_append, stripDollar_append, stripDollar_colon_cons]
    have ht' : stripDollar tail = [] ∨ ∃ j, stripDollar tail = ':' :: j := by
      rcases ht with rfl | ⟨j, rfl⟩
      · exact Or.inl rfl
      · exact Or.inr ⟨stripDollar j, stripDollar_colon_cons j⟩
    obtain ⟨rest, hsp⟩ := splitColon_of_two_parts (stripDollar A) (stripDollar B) _ ht'
      (stripDollar_nocolon hAc) (stripDollar_nocolon hBc)
    rw [← hst] at hsp
    unfold rangeRefToCoordinates
    unfold stripDollar at hsp
    rw [hsp]
    have d1 := decode_of_shape hs1
    have d2 := decode_of_shape hs2
    unfold stripDollar at d1 d2
    simp only [d1, d2]

/-- stripping a strict reference leaves a strict (relative) reference of the same cell -/
theorem shape_stripDollar {s : List Char} {c r : Nat} (h : Shape s c r) :
    Shape (stripDollar s) c r := by
  obtain ⟨d1, L, d2, D, rfl, h1, h2, hL, hLl, hD, hDd, hc, hc1, hc2, hr, hr1, hr2⟩ := h
  refine ⟨[], L, [], D, ?_, Or.inl rfl, Or.inl rfl, hL, hLl, hD, hDd, hc, hc1, hc2, hr, hr1, hr2⟩
  unfold stripDollar
  rw [filter_dollar_encoded d1 L d2 D h1 h2 hLl hDd]
  simp

theorem shape_nocolon {s : List Char} {c r : Nat} (h : Shape s c r) :
    ∀ x ∈ s, isColon x = false := by
  obtain ⟨d1, L, d2, D, rfl, h1, h2, _, hLl, _, hDd, _⟩ := h
  have hd : ∀ d, IsDol d → ∀ x ∈ d, isColon x = false := by
    intro d hd x hx
    rcases hd with rfl | rfl
    · simp at hx
    · simp at hx; subst hx; decide
  intro x hx
  simp only [List.mem_append] at hx
  rcases hx with ((hx | hx) | hx) | hx
  · exact hd d1 h1 x hx
  · exact isLetter_not_colon (hLl x hx)
  · exact hd d2 h2 x hx
  · exact isDigit_not_colon (hDd x hx)

/-- every strict range is a loose range denoting the same corners -/
theorem rangeLoose_of_strict {ref : List Char} {c1 r1 c2 r2 : Nat}
    (h : RangeStrict ref c1 r1 c2 r2) : RangeLoose ref c1 r1 c2 r2 := by
  obtain ⟨A, B, rfl, hA, hB⟩ := h
  exact ⟨A, B, [], by simp, Or.inl rfl, shape_nocolon hA, shape_nocolon hB,
    shape_stripDollar hA, shape_stripDollar hB⟩

/-- the specification parser of ranges is the strict reading -/
theorem parseRangeStrict_iff (ref : List Char) (c1 r1 c2 r2 : Nat) :
    parseRangeStrict ref = some (c1, r1, c2, r2) ↔ RangeStrict ref c1 r1 c2 r2 := by
  constructor
  · intro h
    unfold parseRangeStrict at h
    split at h
    · rename_i a b hsp
      split at h
      · rename_i x1 y1 x2 y2 hp1 hp2
        simp only [Option.some.injEq, Prod.mk.injEq] at h
        obtain ⟨rfl, rfl, rfl, rfl⟩ := h
        obtain ⟨tail, hs, ht, _, _⟩ := splitColon_two_parts hsp
        rcases ht with rfl | ⟨j, rfl⟩
        · exact ⟨a, b, by rw [hs]; simp, shape_of_parseA1 hp1, shape_of_parseA1 hp2⟩
        · -- three or more parts: `splitColon` would have returned a longer list
          exfalso
          have hb := shape_nocolon (shape_of_parseA1 hp2)
          have ha := shape_nocolon (shape_of_parseA1 hp1)
          have e : a ++ ':' :: b ++ ':' :: j = a ++ ':' :: (b ++ ':' :: j) := by simp
          rw [hs, e] at hsp
          unfold splitColon at hsp
          rw [splitColonAux_colon [] a _ ha, splitColonAux_colon [] b j hb] at hsp
          simp only [List.reverse_nil, List.nil_append, List.cons.injEq, true_and] at hsp
          exact splitColonAux_ne_nil [] j hsp
      · cases h
    · cases h
  · rintro ⟨A, B, rfl, hA, hB⟩
    unfold parseRangeStrict
    rw [splitColon_two A B (shape_nocolon hA) (shape_nocolon hB)]
    simp only [parseA1_of_shape hA, parseA1_of_shape hB]

end XlModel.Ref
