/-
Lookup paths of the cell-name taking APIs (`XlModel.RefApi`): what each path does
to an accepted spelling (C20: "every API taking a cell name treats all spellings it
accepts for one cell as the same cell").
-/
import XlModel.Lemmas.Ref7

namespace XlModel.Ref
open XlModel

end XlModel.Ref
