/-
Lookup paths of the cell-name taking APIs (`XlModel.RefApi`): what each path does
to an accepted spelling (C20: "every API taking a cell name treats all spellings it
accepts for one cell as the same cell").
-/
import XlModel.Lemmas.Ref7

namespace XlModel.Ref
open XlModel

theorem split_ok_of_decode {s : List Char} {p : Int × Int} (h : cellNameToCoordinates s = .ok p) :
    ∃ q, splitCellName s = .ok q := by
  unfold cellNameToCoordinates at h
  split at h
  · cases h
  · rename_i col row hs
    exact ⟨(col, row), hs⟩

/-- `sortCoordinates` on in-grid corners yields in-grid corners -/
theorem sort_in_grid (c1 r1 c2 r2 : Nat) (C R : Nat)
    (h1 : 1 ≤ c1 ∧ c1 ≤ C) (h2 : 1 ≤ r1 ∧ r1 ≤ R) (h3 : 1 ≤ c2 ∧ c2 ≤ C) (h4 : 1 ≤ r2 ∧ r2 ≤ R) :
    ∃ a b c d : Nat, sortCoordinates ((c1 : Int), (r1 : Int), (c2 : Int), (r2 : Int)) =
        ((a : Int), (b : Int), (c : Int), (d : Int)) ∧
      (1 ≤ a ∧ a ≤ C) ∧ (1 ≤ b ∧ b ≤ R) ∧ (1 ≤ c ∧ c ≤ C) ∧ (1 ≤ d ∧ d ≤ R) ∧
      a ≤ c ∧ b ≤ d ∧ (a = c1 ∧ c = c2 ∨ a = c2 ∧ c = c1) ∧ (b = r1 ∧ d = r2 ∨ b = r2 ∧ d = r1) := by
  unfold sortCoordinates
  by_cases hc : (c2 : Int) < c1 <;> by_cases hr : (r2 : Int) < r1
  · exact ⟨c2, r2, c1, r1, by simp [hc, hr], h3, h4, h1, h2, by omega, by omega, Or.inr ⟨rfl, rfl⟩, Or.inr ⟨rfl, rfl⟩⟩
  · exact ⟨c2, r1, c1, r2, by simp [hc, hr], h3, h2, h1, h4, by omega, by omega, Or.inr ⟨rfl, rfl⟩, Or.inl ⟨rfl, rfl⟩⟩
  · exact ⟨c1, r2, c2, r1, by simp [hc, hr], h1, h4, h3, h2, by omega, by omega, Or.inl ⟨rfl, rfl⟩, Or.inr ⟨rfl, rfl⟩⟩
  · exact ⟨c1, r1, c2, r2, by simp [hc, hr], h1, h2, h3, h4, by omega, by omega, Or.inl ⟨rfl, rfl⟩, Or.inl ⟨rfl, rfl⟩⟩

end XlModel.Ref
