/-
The multi-range layer (`XlModel.RefMulti`): what `flatSqref` enumerates, what
`squashSqref` re-encodes, where `mergeCellsParser` redirects (C20, round 2).
-/
import XlModel.Lemmas.Ref8
import XlModel.RefMulti

namespace XlModel.Ref
open XlModel

theorem cellInRange_iff (p : Cell) (q : Rect) :
    cellInRange p q = true ↔ q.1 ≤ p.1 ∧ p.1 ≤ q.2.2.1 ∧ q.2.1 ≤ p.2 ∧ p.2 ≤ q.2.2.2 := by
  simp only [cellInRange, Bool.and_eq_true, decide_eq_true_eq, ge_iff_le]
  constructor
  · rintro ⟨⟨⟨a, b⟩, c⟩, d⟩; exact ⟨a, b, c, d⟩
  · rintro ⟨a, b, c, d⟩; exact ⟨⟨⟨a, b⟩, c⟩, d⟩

theorem isOverlap_iff (a b : Rect) :
    isOverlap a b = true ↔ a.1 ≤ b.2.2.1 ∧ b.1 ≤ a.2.2.1 ∧ a.2.1 ≤ b.2.2.2 ∧ b.2.1 ≤ a.2.2.2 := by
  simp only [isOverlap, Bool.and_eq_true, decide_eq_true_eq]
  constructor
  · rintro ⟨⟨⟨x, y⟩, z⟩, w⟩; exact ⟨x, y, z, w⟩
  · rintro ⟨x, y, z, w⟩; exact ⟨⟨⟨x, y⟩, z⟩, w⟩

theorem mem_rectCells (p : Cell) (q : Rect) :
    p ∈ rectCells q ↔ q.1 ≤ p.1 ∧ p.1 ≤ q.2.2.1 ∧ q.2.1 ≤ p.2 ∧ p.2 ≤ q.2.2.2 := by
  obtain ⟨pc, pr⟩ := p
  obtain ⟨c1, r1, c2, r2⟩ := q
  simp only [rectCells, List.mem_flatMap, List.mem_map, List.mem_range, Prod.mk.injEq]
  constructor
  · rintro ⟨i, hi, j, hj, h1, h2⟩
    omega
  · intro h
    exact ⟨(pc - c1).toNat, by omega, (pr - r1).toNat, by omega, by omega, by omega⟩

theorem sort_minmax (c1 r1 c2 r2 : Int) :
    sortCoordinates (c1, r1, c2, r2) = (min c1 c2, min r1 r2, max c1 c2, max r1 r2) := by
  unfold sortCoordinates
  by_cases hc : c2 < c1 <;> by_cases hr : r2 < r1 <;> simp [hc, hr] <;> omega

/-! ### one reference -/

theorem splitColon_single {s a : List Char} (h : splitColon s = [a]) :
    s = a ∧ ∀ c ∈ s, isColon c = false := by
  unfold splitColon at h
  obtain ⟨a', ha, hac, hr⟩ := splitColonAux_cons h
  simp only [List.reverse_nil, List.nil_append] at ha
  subst ha
  rcases hr with ⟨_, hs⟩ | ⟨y, _, hy⟩
  · subst hs; exact ⟨rfl, hac⟩
  · exact absurd hy.symm (splitColonAux_ne_nil [] y)

theorem splitColon_of_nocolon {s : List Char} (h : ∀ c ∈ s, isColon c = false) : splitColon s = [s] := by
  unfold splitColon
  rw [splitColonAux_nocolon [] s h]; simp

theorem splitColon_of_parseA1 {s : List Char} {c r : Nat} (h : parseA1 s = some (c, r)) :
    splitColon s = [s] := splitColon_of_nocolon (shape_nocolon (shape_of_parseA1 h))

theorem splitColon_of_parseRange {s : List Char} {q : Nat × Nat × Nat × Nat}
    (h : parseRangeStrict s = some q) : ∃ a b, splitColon s = [a, b] := by
  unfold parseRangeStrict at h
  split at h
  · rename_i a b hsp; exact ⟨a, b, hsp⟩
  · cases h

/-- what one reference of a sequence contributes: exactly the cells it denotes; a
reference with three or more parts is an error -/
theorem flatRef_denotes {ref : List Char} {o : Option (List Cell)} (h : flatRef ref = .ok o) (p : Cell) :
    p ∈ o.getD [] ↔ refHas ref p := by
  unfold flatRef at h
  split at h
  · -- a single cell
    rename_i a hsp
    obtain ⟨rfl, _⟩ := splitColon_single hsp
    split at h
    · cases h
    · rename_i p0 hd
      cases h
      obtain ⟨c, r, hs, h1, h2⟩ := shape_of_decode (ci := p0.1) (ri := p0.2) hd
      have hp := parseA1_of_shape hs
      simp only [Option.getD_some, List.mem_singleton]
      constructor
      · intro e; subst e
        exact Or.inl ⟨c, r, hp, Prod.ext h1 h2⟩
      · rintro (⟨c', r', hp', rfl⟩ | ⟨c1, r1, c2, r2, hq, _⟩)
        · rw [hp] at hp'; cases hp'
          exact Prod.ext h1.symm h2.symm
        · obtain ⟨a, b, hab⟩ := splitColon_of_parseRange hq
          rw [hsp] at hab; cases hab
  · -- a range
    rename_i a b hsp
    split at h
    · cases h
    · rename_i q hd
      cases h
      obtain ⟨c1, r1, c2, r2⟩ := q
      obtain ⟨n1, m1, n2, m2, rfl, rfl, rfl, rfl, hs⟩ := (rangeRef_ok_iff ref _ _ _ _).mp hd
      have hq := (parseRangeStrict_iff ref n1 m1 n2 m2).mpr hs
      simp only [Option.getD_some, mem_rectCells, sort_minmax]
      constructor
      · intro hb
        exact Or.inr ⟨n1, m1, n2, m2, hq, hb.1, hb.2.1, hb.2.2.1, hb.2.2.2⟩
      · rintro (⟨c', r', hp', _⟩ | ⟨c1, r1, c2, r2, hq', h1, h2, h3, h4⟩)
        · rw [splitColon_of_parseA1 hp'] at hsp; cases hsp
        · rw [hq] at hq'; cases hq'
          exact ⟨h1, h2, h3, h4⟩
  · cases h

theorem flatRefs_denotes {rs : List (List Char)} {cells : List Cell} (h : flatRefs rs = .ok cells)
    (p : Cell) : p ∈ cells ↔ ∃ ref ∈ rs, refHas ref p := by
  induction rs generalizing cells with
  | nil => simp only [flatRefs, Except.ok.injEq] at h; subst h; simp
  | cons r rs ih =>
    simp only [flatRefs] at h
    split at h
    · cases h
    · rename_i o ho
      split at h
      · cases h
      · rename_i rest hrest
        cases h
        rw [List.mem_append, flatRef_denotes ho p, ih hrest]
        simp

/-- acceptance of one reference: exactly a strict cell or a strict range -/
theorem flatRef_ok_iff (ref : List Char) :
    (∃ o, flatRef ref = .ok o) ↔
      (∃ c r, parseA1 ref = some (c, r)) ∨ (∃ q, parseRangeStrict ref = some q) := by
  unfold flatRef
  split
  · rename_i a hsp
    obtain ⟨rfl, _⟩ := splitColon_single hsp
    cases hd : cellNameToCoordinates ref with
    | error e =>
      simp only [false_iff, reduceCtorEq, exists_false, not_or, not_exists]
      refine ⟨?_, ?_⟩
      · intro c r hp
        have := decode_of_shape (shape_of_parseA1 hp)
        rw [hd] at this; cases this
      · intro q hq
        obtain ⟨a, b, hab⟩ := splitColon_of_parseRange hq
        rw [hsp] at hab; cases hab
    | ok p0 =>
      obtain ⟨c, r, hs, _, _⟩ := shape_of_decode (ci := p0.1) (ri := p0.2) hd
      exact ⟨fun _ => Or.inl ⟨c, r, parseA1_of_shape hs⟩, fun _ => ⟨_, rfl⟩⟩
  · rename_i a b hsp
    cases hd : rangeRefToCoordinates ref with
    | error e =>
      simp only [false_iff, reduceCtorEq, exists_false, not_or, not_exists]
      refine ⟨?_, ?_⟩
      · intro c r hp
        rw [splitColon_of_parseA1 hp] at hsp; cases hsp
      · intro q hq
        obtain ⟨c1, r1, c2, r2⟩ := q
        have := (rangeRef_ok_iff ref _ _ _ _).mpr ⟨c1, r1, c2, r2, rfl, rfl, rfl, rfl,
          (parseRangeStrict_iff ref c1 r1 c2 r2).mp hq⟩
        rw [hd] at this; cases this
    | ok q =>
      obtain ⟨c1, r1, c2, r2⟩ := q
      obtain ⟨n1, m1, n2, m2, _, _, _, _, hs⟩ := (rangeRef_ok_iff ref _ _ _ _).mp hd
      exact ⟨fun _ => Or.inr ⟨_, (parseRangeStrict_iff ref n1 m1 n2 m2).mpr hs⟩,
        fun _ => ⟨_, rfl⟩⟩
  · rename_i hne1 hne2
    simp only [false_iff, reduceCtorEq, exists_false, not_or, not_exists]
    refine ⟨?_, ?_⟩
    · intro c r hp; exact hne1 _ (splitColon_of_parseA1 hp)
    · intro q hq
      obtain ⟨a, b, hab⟩ := splitColon_of_parseRange hq
      exact hne2 a b hab

theorem flatRefs_ok_iff (rs : List (List Char)) :
    (∃ cells, flatRefs rs = .ok cells) ↔ ∀ ref ∈ rs, ∃ o, flatRef ref = .ok o := by
  induction rs with
  | nil => simp [flatRefs]
  | cons r rs ih =>
    simp only [flatRefs, List.mem_cons, forall_eq_or_imp]
    cases hr : flatRef r with
    | error e => simp
    | ok o =>
      cases hrest : flatRefs rs with
      | error e =>
        have : ¬ ∃ cells, flatRefs rs = .ok cells := by rw [hrest]; simp
        rw [ih] at this
        simp [this]
      | ok rest =>
        have : ∃ cells, flatRefs rs = .ok cells := ⟨rest, hrest⟩
        rw [ih] at this
        simp only [Except.ok.injEq, exists_eq', true_and, true_iff]
        exact this

/-! ### `squashSqref` on the coordinate level -/

/-- the cells a piece denotes -/
def pieceHas : Piece → Cell → Prop
  | .one q, p => p = q
  | .span a b, p => p.1 = a.1 ∧ a.1 = b.1 ∧ a.2 ≤ p.2 ∧ p.2 ≤ b.2

theorem squashAux_spec (c : Int) (xs : List Cell) :
    ∀ (start prev : Cell) (single : Bool), start.1 = c → prev.1 = c → start.2 ≤ prev.2 →
      (single = true → start = prev) → (∀ x ∈ xs, x.1 = c) →
      List.Pairwise (fun a b : Cell => a.2 < b.2) (prev :: xs) →
      ∀ p : Cell, (∃ piece ∈ squashAux start prev single xs, pieceHas piece p) ↔
        (p.1 = c ∧ start.2 ≤ p.2 ∧ p.2 ≤ prev.2) ∨ p ∈ xs := by
  induction xs with
  | nil =>
    intro start prev single hs hp hle hsingle _ _ p
    simp only [squashAux, List.mem_singleton, exists_eq_left, List.not_mem_nil, or_false]
    cases single with
    | true =>
      have := hsingle rfl; subst this
      simp only [if_true, pieceHas]
      constructor
      · intro e; subst e; exact ⟨hs, Int.le_refl _, Int.le_refl _⟩
      · rintro ⟨h1, h2, h3⟩
        exact Prod.ext (by rw [h1, hs]) (by omega)
    | false =>
      simp only [Bool.false_eq_true, if_false, pieceHas]
      constructor
      · rintro ⟨h1, _, h3, h4⟩; exact ⟨by rw [h1, hs], h3, h4⟩
      · rintro ⟨h1, h3, h4⟩; exact ⟨by rw [h1, hs], by rw [hs, hp], h3, h4⟩
  | cons x xs ih =>
    intro start prev single hs hp hle hsingle hcol hpw p
    have hx : x.1 = c := hcol x (by simp)
    have hcol' : ∀ y ∈ xs, y.1 = c := fun y hy => hcol y (by simp [hy])
    have hpw' : List.Pairwise (fun a b : Cell => a.2 < b.2) (x :: xs) := (List.pairwise_cons.mp hpw).2
    have hlt : prev.2 < x.2 := (List.pairwise_cons.mp hpw).1 x (by simp)
    have hsame : (x.1 == prev.1) = true := by rw [hx, hp]; simp
    have hpx : (p.1 = c ∧ x.2 ≤ p.2 ∧ p.2 ≤ x.2) ↔ p = x := by
      constructor
      · rintro ⟨h1, h2, h3⟩; exact Prod.ext (by rw [h1, hx]) (by omega)
      · intro e; subst e; exact ⟨hx, Int.le_refl _, Int.le_refl _⟩
    simp only [squashAux, hsame, Bool.true_and]
    by_cases hgap : x.2 - prev.2 > 1
    · simp only [hgap, decide_true, if_true, List.mem_cons, exists_eq_or_imp]
      rw [ih x x true hx hx (Int.le_refl _) (fun _ => rfl) hcol' hpw' p, hpx]
      have hrun : pieceHas (if single = true then Piece.one start else Piece.span start prev) p ↔
          (p.1 = c ∧ start.2 ≤ p.2 ∧ p.2 ≤ prev.2) := by
        cases single with
        | true =>
          have := hsingle rfl; subst this
          simp only [if_true, pieceHas]
          constructor
          · intro e; subst e; exact ⟨hs, Int.le_refl _, Int.le_refl _⟩
          · rintro ⟨h1, h2, h3⟩; exact Prod.ext (by rw [h1, hs]) (by omega)
        | false =>
          simp only [Bool.false_eq_true, if_false, pieceHas]
          constructor
          · rintro ⟨h1, _, h3, h4⟩; exact ⟨by rw [h1, hs], h3, h4⟩
          · rintro ⟨h1, h3, h4⟩; exact ⟨by rw [h1, hs], by rw [hs, hp], h3, h4⟩
      rw [hrun]
    · simp only [hgap, decide_false, Bool.false_eq_true, if_false]
      rw [ih start x false hs hx (by omega) (fun h => by cases h) hcol' hpw' p, List.mem_cons]
      constructor
      · rintro (⟨h1, h2, h3⟩ | h)
        · by_cases hle2 : p.2 ≤ prev.2
          · exact Or.inl ⟨h1, h2, hle2⟩
          · exact Or.inr (Or.inl (hpx.mp ⟨h1, by omega, h3⟩))
        · exact Or.inr (Or.inr h)
      · rintro (⟨h1, h2, h3⟩ | h | h)
        · exact Or.inl ⟨h1, h2, by omega⟩
        · subst h; exact Or.inl ⟨hx, by omega, Int.le_refl _⟩
        · exact Or.inr h

/-- **`squashSqref` preserves the denotation** on the coordinate level: for the cells
of one column in strictly ascending row order (what `flatSqref` yields for ascending,
duplicate-free areas) the emitted pieces denote exactly the input cells. -/
theorem squashPieces_denotes (c : Int) (cells : List Cell) (hcol : ∀ x ∈ cells, x.1 = c)
    (hpw : List.Pairwise (fun a b : Cell => a.2 < b.2) cells) (p : Cell) :
    (∃ piece ∈ squashPieces cells, pieceHas piece p) ↔ p ∈ cells := by
  match cells, hcol, hpw with
  | [], _, _ => simp [squashPieces]
  | [q], _, _ => simp [squashPieces, pieceHas]
  | a :: b :: rest, hcol, hpw =>
    have ha : a.1 = c := hcol a (by simp)
    simp only [squashPieces]
    rw [squashAux_spec c (b :: rest) a a true ha ha (Int.le_refl _) (fun _ => rfl)
      (fun x hx => hcol x (by simp [hx])) hpw p, List.mem_cons (a := p) (b := a)]
    constructor
    · rintro (⟨h1, h2, h3⟩ | h)
      · exact Or.inl (Prod.ext (by rw [h1, ha]) (by omega))
      · exact Or.inr h
    · rintro (h | h)
      · subst h; exact Or.inl ⟨ha, Int.le_refl _, Int.le_refl _⟩
      · exact Or.inr h

/-! ### the merged-cell redirect -/

/-- a merged-cell reference "hits" the cell -/
def MergeHit (p : Cell) (ref : List Char) : Prop :=
  ref ≠ [] ∧ ∃ q, rangeRefToCoordinates (if countColon ref != 1 then ref ++ [':'] ++ ref else ref) = .ok q ∧
    cellInRange p (sortCoordinates q) = true

theorem redirectScan_ok {p : Cell} {canon a : List Char} {ms : List (List Char)}
    (h : redirectScan p canon ms = .ok a) :
    (a = canon ∧ ∀ ref ∈ ms, ¬ MergeHit p ref) ∨
      ∃ pre ref post, ms = pre ++ ref :: post ∧ (∀ r ∈ pre, ¬ MergeHit p r) ∧ MergeHit p ref ∧
        a = (splitColon ref).headD [] := by
  induction ms with
  | nil =>
    simp only [redirectScan, Except.ok.injEq] at h
    exact Or.inl ⟨h.symm, by simp⟩
  | cons ref rest ih =>
    simp only [redirectScan] at h
    by_cases he : ref.isEmpty = true
    · simp only [he, if_true] at h
      have hnot : ¬ MergeHit p ref := by
        rintro ⟨hne, _⟩; exact hne (List.isEmpty_iff.mp he)
      rcases ih h with ⟨h1, h2⟩ | ⟨pre, r, post, e, h2, h3, h4⟩
      · exact Or.inl ⟨h1, by intro r hr; rcases List.mem_cons.mp hr with rfl | hr; exact hnot; exact h2 r hr⟩
      · exact Or.inr ⟨ref :: pre, r, post, by rw [e]; rfl,
          by intro x hx; rcases List.mem_cons.mp hx with rfl | hx; exact hnot; exact h2 x hx, h3, h4⟩
    · simp only [he, Bool.false_eq_true, if_false] at h
      split at h
      · cases h
      · rename_i q hq
        have hne : ref ≠ [] := by intro e; subst e; simp at he
        by_cases hin : cellInRange p (sortCoordinates q) = true
        · simp only [hin, if_true, Except.ok.injEq] at h
          exact Or.inr ⟨[], ref, rest, rfl, by simp, ⟨hne, q, hq, hin⟩, h.symm⟩
        · simp only [hin, Bool.false_eq_true, if_false] at h
          have hnot : ¬ MergeHit p ref := by
            rintro ⟨_, q', hq', hin'⟩
            rw [hq] at hq'; cases hq'; exact hin hin'
          rcases ih h with ⟨h1, h2⟩ | ⟨pre, r, post, e, h2, h3, h4⟩
          · exact Or.inl ⟨h1, by intro r hr; rcases List.mem_cons.mp hr with rfl | hr; exact hnot; exact h2 r hr⟩
          · exact Or.inr ⟨ref :: pre, r, post, by rw [e]; rfl,
              by intro x hx; rcases List.mem_cons.mp hx with rfl | hx; exact hnot; exact h2 x hx, h3, h4⟩

theorem countColon_nocolon {s : List Char} (h : ∀ c ∈ s, isColon c = false) : countColon s = 0 := by
  unfold countColon
  rw [List.length_eq_zero_iff, List.filter_eq_nil_iff]
  intro c hc
  have := h c hc
  simpa [isColon] using this

theorem countColon_strict {ref : List Char} {c1 r1 c2 r2 : Nat} (h : RangeStrict ref c1 r1 c2 r2) :
    countColon ref = 1 := by
  obtain ⟨A, B, rfl, hA, hB⟩ := h
  have a := countColon_nocolon (shape_nocolon hA)
  have b := countColon_nocolon (shape_nocolon hB)
  unfold countColon at *
  have hc : ((':' : Char).toNat == 58) = true := by decide
  rw [List.filter_append, List.filter_cons, List.length_append]
  simp only [hc, if_true, List.length_cons]
  omega

theorem colname_nocolon {a : List Char} {x : Int} (h : columnNameToNumber a = .ok x) :
    ∀ c ∈ a, isColon c = false := by
  obtain ⟨_, v, hv, _, _⟩ := (columnNameToNumber_ok_iff a x).mp h
  intro c hc
  exact isLetter_not_colon (colRawAux_some_letters hv c hc)

/-- on a well-formed merged-cell list the scan never fails -/
theorem redirectScan_total (p : Cell) (canon : List Char) (ms : List (List Char))
    (h : ∀ ref ∈ ms, ∃ c1 r1 c2 r2, RangeStrict ref c1 r1 c2 r2) :
    ∃ a, redirectScan p canon ms = .ok a := by
  induction ms with
  | nil => exact ⟨canon, rfl⟩
  | cons ref rest ih =>
    obtain ⟨c1, r1, c2, r2, hs⟩ := h ref (by simp)
    have ih' := ih (fun x hx => h x (by simp [hx]))
    have hdec := (rangeRef_ok_iff ref _ _ _ _).mpr ⟨c1, r1, c2, r2, rfl, rfl, rfl, rfl, hs⟩
    simp only [redirectScan]
    by_cases he : ref.isEmpty = true
    · simp only [he, if_true]; exact ih'
    · simp only [he, Bool.false_eq_true, if_false, countColon_strict hs, bne_self_eq_false, hdec]
      by_cases hin : cellInRange p (sortCoordinates ((c1 : Int), (r1 : Int), (c2 : Int), (r2 : Int))) = true
      · simp only [hin, if_true]; exact ⟨_, rfl⟩
      · simp only [hin, Bool.false_eq_true, if_false]; exact ih'

end XlModel.Ref
