import XlModel.Save
/-!
Helper lemmas for C02 (`XlModel.Save`).
-/
namespace XlModel.Save

/-! ### hasValue -/

/-- `hasValue` tests every field the observation distinguishes: a cell that
`trimCell` drops is indistinguishable from a cell that was never created.
(Proved over the regenerated field list: removing a disjunct from cell.go
`hasValue` makes this fail.) -/
theorem hasValue_complete (c : Content) (h : hasValue c = false) : c = Content.blank := by
  obtain ⟨s, t, v, f⟩ := c
  simp [hasValue, Facts.C02.hasValueFields, fieldNonzero] at h
  obtain ⟨h1, h2, h3, h4⟩ := h
  subst h1; subst h2; subst h4
  cases f with
  | none => rfl
  | some x => simp at h3

theorem hasValue_blank : hasValue Content.blank = false := by
  simp [hasValue, Facts.C02.hasValueFields, fieldNonzero, Content.blank]

/-! ### trimCell: the in-place compaction equals a filter -/

abbrev hv (c : Cell) : Bool := hasValue c.c

theorem trimCellLoop_spec (fuel : Nat) : ∀ (buf : List Cell) (i j : Nat),
    i ≤ j → buf.length ≤ j + fuel →
    ((trimCellLoop fuel buf i j).1.take (trimCellLoop fuel buf i j).2)
      = buf.take i ++ (buf.drop j).filter hv := by
  induction fuel with
  | zero =>
    intro buf i j _ hlen
    simp [trimCellLoop]
    have : buf.drop j = [] := List.drop_eq_nil_of_le (by omega)
    simp [this]
  | succ n ih =>
    intro buf i j hij hlen
    unfold trimCellLoop
    cases hj : buf[j]? with
    | none =>
      have : buf.drop j = [] := List.drop_eq_nil_of_le (by
        have := List.getElem?_eq_none_iff.mp hj; omega)
      simp [this]
    | some c =>
      have hjl : j < buf.length := by
        rcases List.getElem?_eq_some_iff.mp hj with ⟨h, _⟩; exact h
      have hdrop : buf.drop j = c :: buf.drop (j + 1) := by
        rw [List.drop_eq_getElem_cons hjl]
        rcases List.getElem?_eq_some_iff.mp hj with ⟨_, h2⟩
        rw [h2]
      simp only []
      by_cases hc : hasValue c.c = true
      · simp only [hc, if_true]
        rw [ih (buf.set i c) (i + 1) (j + 1) (by omega) (by simp; omega)]
        rw [hdrop]
        have h1 : (buf.set i c).drop (j + 1) = buf.drop (j + 1) := by
          rw [List.drop_set]; simp; intro h; omega
        have h2 : (buf.set i c).take (i + 1) = buf.take i ++ [c] := by
          rw [List.take_set]
          have hil : i < buf.length := by omega
          rw [List.take_succ_eq_append_getElem hil]
          rw [List.set_append]
          simp [List.length_take, Nat.min_eq_left (Nat.le_of_lt hil)]
        rw [h1, h2]
        simp [hv, hc]
      · have hc' : hasValue c.c = false := by simpa using hc
        simp only [hc', Bool.false_eq_true, if_false]
        rw [ih buf i (j + 1) (by omega) (by omega)]
        rw [hdrop]
        simp [hv, hc']

/-- sheet.go `trimCell`: although the kept cells are compacted into the array
they are read from, the visible result is exactly the sub-list of cells that
have a value. -/
theorem trimCell_eq_filter (cells : List Cell) : trimCell cells = cells.filter hv := by
  unfold trimCell
  by_cases hall : cells.all (fun c => hasValue c.c) = true
  · simp only [hall, if_true]
    symm
    rw [List.filter_eq_self]
    intro a ha
    exact (List.all_eq_true.mp hall) a ha
  · simp only [hall]
    have := trimCellLoop_spec cells.length cells 0 0 (Nat.le_refl _) (by omega)
    simpa using this

/-! ### sorted and dense cell lists, lookup by stored reference -/

/-- cells of row `rw` in strictly increasing column order, all columns `> lo` -/
def sortedCells (rw : Nat) : Nat → List Cell → Bool
  | _, [] => true
  | lo, c :: cs => decide (lo < c.col) && c.row == rw && sortedCells rw c.col cs

theorem sortedCells_mono {rw : Nat} : ∀ {cs : List Cell} {lo lo' : Nat}, lo' ≤ lo →
    sortedCells rw lo cs = true → sortedCells rw lo' cs = true := by
  intro cs lo lo' h hs
  cases cs with
  | nil => rfl
  | cons c cs =>
    simp [sortedCells] at hs ⊢
    exact ⟨⟨by omega, hs.1.2⟩, hs.2⟩

theorem dense_sorted {rw : Nat} : ∀ (cs : List Cell) (k : Nat),
    denseCells rw k cs = true → sortedCells rw k cs = true := by
  intro cs
  induction cs with
  | nil => intros; rfl
  | cons c cs ih =>
    intro k h
    simp [denseCells] at h
    simp [sortedCells]
    refine ⟨⟨by omega, h.1.2⟩, ?_⟩
    have := ih (k + 1) h.2
    rw [h.1.1]; exact this

theorem sorted_filter {rw : Nat} (p : Cell → Bool) : ∀ (cs : List Cell) (lo : Nat),
    sortedCells rw lo cs = true → sortedCells rw lo (cs.filter p) = true := by
  intro cs
  induction cs with
  | nil => intros; rfl
  | cons c cs ih =>
    intro lo h
    simp [sortedCells] at h
    by_cases hp : p c = true
    · simp [List.filter, hp, sortedCells]
      exact ⟨h.1, ih _ h.2⟩
    · simp [List.filter, hp]
      exact sortedCells_mono (Nat.le_of_lt h.1.1) (ih _ h.2)

theorem findCell_cons (c : Cell) (cs : List Cell) (col rw : Nat) :
    findCell (c :: cs) col rw = if (c.col == col && c.row == rw) = true then some c.c else findCell cs col rw := by
  simp only [findCell, List.findSome?_cons]
  by_cases h : (c.col == col && c.row == rw) = true
  · simp [h]
  · simp [h]

theorem sorted_find_none {rw : Nat} : ∀ (cs : List Cell) (lo col : Nat),
    sortedCells rw lo cs = true → col ≤ lo → findCell cs col rw = none := by
  intro cs
  induction cs with
  | nil => intros; rfl
  | cons c cs ih =>
    intro lo col h hle
    simp [sortedCells] at h
    rw [findCell_cons]
    have : ¬ ((c.col == col && c.row == rw) = true) := by
      simp; intro h1; omega
    simp only [this, if_false]
    exact ih c.col col h.2 (by omega)

/-- dropping the cells without a value does not change what a lookup by
reference reports (a dropped cell reads as blank, and so does a missing one) -/
theorem find_filter {rw : Nat} : ∀ (cs : List Cell) (lo col : Nat),
    sortedCells rw lo cs = true →
    (findCell (cs.filter hv) col rw).getD Content.blank = (findCell cs col rw).getD Content.blank := by
  intro cs
  induction cs with
  | nil => intros; rfl
  | cons c cs ih =>
    intro lo col h
    simp [sortedCells] at h
    rw [findCell_cons c cs]
    by_cases hm : (c.col == col && c.row == rw) = true
    · simp only [hm, if_true]
      by_cases hp : hv c = true
      · simp [List.filter, hp, findCell_cons, hm]
      · simp only [List.filter, hp]
        have hc : c.c = Content.blank := hasValue_complete _ (by simpa [hv] using hp)
        have hcol : c.col = col := by
          simp at hm; exact hm.1
        have := sorted_find_none (cs.filter hv) c.col col (sorted_filter hv cs _ h.2) (by omega)
        simp [this, hc]
    · simp only [hm, if_false]
      by_cases hp : hv c = true
      · simp only [List.filter, hp, findCell_cons, hm, if_false]
        exact ih c.col col h.2
      · simp only [List.filter, hp]
        exact ih c.col col h.2

/-- in a dense list the lookup by reference is the slot access -/
theorem dense_find {rw : Nat} : ∀ (cs : List Cell) (k col : Nat),
    denseCells rw k cs = true →
    findCell cs col rw = if k < col then (cs[col - k - 1]?).map (·.c) else none := by
  intro cs
  induction cs with
  | nil => intro k col _; simp [findCell]
  | cons c cs ih =>
    intro k col h
    simp [denseCells] at h
    rw [findCell_cons]
    by_cases hm : (c.col == col && c.row == rw) = true
    · simp only [hm, if_true]
      have : c.col = col := by simp at hm; exact hm.1
      have hk : k < col := by omega
      have h0 : col - k - 1 = 0 := by omega
      simp [hk, h0]
    · simp only [hm, if_false]
      rw [ih (k + 1) col h.2]
      have hne : c.col ≠ col := by
        intro e; apply hm; simp [e, h.1.2]
      by_cases hk : k < col
      · have hk1 : k + 1 < col := by omega
        have e : col - k - 1 = (col - (k + 1) - 1) + 1 := by omega
        simp [hk, hk1, e]
      · have hk1 : ¬ (k + 1 < col) := by omega
        simp [hk, hk1]

theorem dense_set {rw : Nat} : ∀ (cs : List Cell) (k j : Nat) (c : Cell),
    denseCells rw k cs = true → c.col = k + j + 1 → c.row = rw →
    denseCells rw k (cs.set j c) = true := by
  intro cs
  induction cs with
  | nil => intros; rfl
  | cons d cs ih =>
    intro k j c h hc hr
    simp [denseCells] at h
    cases j with
    | zero =>
      simp [denseCells]
      exact ⟨⟨by omega, hr⟩, h.2⟩
    | succ j =>
      simp [denseCells]
      exact ⟨h.1, ih (k + 1) j c h.2 (by omega) hr⟩

theorem dense_length_find {rw : Nat} (cs : List Cell) (col : Nat)
    (h : denseCells rw 0 cs = true) (hc : cs.length < col) : findCell cs col rw = none := by
  rw [dense_find cs 0 col h]
  have : cs[col - 0 - 1]? = none := List.getElem?_eq_none_iff.mpr (by omega)
  simp only [this]; simp

/-- the copy loop of `checkRow` on a dense target and a sorted source -/
theorem placeCells_spec {rw : Nat} : ∀ (cs tgt : List Cell) (lo : Nat),
    denseCells rw 0 tgt = true → sortedCells rw lo cs = true →
    (∀ c ∈ cs, c.col ≤ tgt.length) →
    ∃ tgt', placeCells tgt cs = some tgt' ∧ denseCells rw 0 tgt' = true ∧ tgt'.length = tgt.length ∧
      ∀ col, findCell tgt' col rw =
        (match findCell cs col rw with | some x => some x | none => findCell tgt col rw) := by
  intro cs
  induction cs with
  | nil =>
    intro tgt lo hd _ _
    exact ⟨tgt, rfl, hd, rfl, fun col => by simp [findCell]⟩
  | cons c cs ih =>
    intro tgt lo hd hs hle
    simp [sortedCells] at hs
    have hcl : c.col ≤ tgt.length := hle c (List.mem_cons_self)
    have hlt : c.col - 1 < tgt.length := by omega
    have hd1 : denseCells rw 0 (tgt.set (c.col - 1) c) = true :=
      dense_set tgt 0 (c.col - 1) c hd (by omega) hs.1.2
    obtain ⟨tgt', h1, h2, h3, h4⟩ := ih (tgt.set (c.col - 1) c) c.col hd1 hs.2
      (by intro d hdm; simp; exact hle d (List.mem_cons_of_mem _ hdm))
    refine ⟨tgt', ?_, h2, by simpa using h3, ?_⟩
    · simp [placeCells, hlt, h1]
    · intro col
      rw [h4 col, findCell_cons c cs]
      by_cases hm : (c.col == col && c.row == rw) = true
      · have hcol : c.col = col := by simp at hm; exact hm.1
        have hn := sorted_find_none cs c.col col hs.2 (by omega)
        simp only [hn, hm, if_true]
        rw [dense_find _ 0 col hd1]
        have : 0 < col := by omega
        simp only [this, if_true]
        have e : col - 0 - 1 = c.col - 1 := by omega
        rw [e, List.getElem?_set_self hlt]; rfl
      · simp only [hm]
        cases hf : findCell cs col rw with
        | some x => simp
        | none =>
          simp only [Bool.false_eq_true, if_false]
          rw [dense_find _ 0 col hd1, dense_find _ 0 col hd]
          have hne : c.col ≠ col := by
            intro e; apply hm; simp [e, hs.1.2]
          by_cases h0 : 0 < col
          · simp only [h0, if_true]
            rw [List.getElem?_set_ne (by omega)]
          · simp [h0]

/-- lower bound: the `j`-th cell of a sorted list is in column `> lo + j` -/
theorem sorted_last_ge {rw : Nat} : ∀ (cs : List Cell) (lo : Nat) (l : Cell),
    sortedCells rw lo cs = true → cs.getLast? = some l → lo + cs.length ≤ l.col := by
  intro cs
  induction cs with
  | nil => intro lo l _ h; simp at h
  | cons c cs ih =>
    intro lo l hs hl
    simp [sortedCells] at hs
    cases cs with
    | nil =>
      simp at hl; subst hl; simp; omega
    | cons d ds =>
      have hl' : (d :: ds).getLast? = some l := by
        simpa [List.getLast?_cons_cons] using hl
      have := ih c.col l hs.2 hl'
      simp at this ⊢; omega

/-- a sorted list whose last column equals its length is dense -/
theorem sorted_full_dense {rw : Nat} : ∀ (cs : List Cell) (lo : Nat) (l : Cell),
    sortedCells rw lo cs = true → cs.getLast? = some l → l.col ≤ lo + cs.length →
    denseCells rw lo cs = true := by
  intro cs
  induction cs with
  | nil => intros; rfl
  | cons c cs ih =>
    intro lo l hs hl hle
    simp [sortedCells] at hs
    cases cs with
    | nil =>
      simp at hl; subst hl
      simp at hle
      simp [denseCells]; exact ⟨by omega, hs.1.2⟩
    | cons d ds =>
      have hl' : (d :: ds).getLast? = some l := by
        simpa [List.getLast?_cons_cons] using hl
      have hge := sorted_last_ge (d :: ds) c.col l hs.2 hl'
      simp at hge hle
      have hc : c.col = lo + 1 := by omega
      have := ih c.col l hs.2 hl' (by simp; omega)
      rw [hc] at this
      have e : denseCells rw lo (c :: d :: ds) =
          (c.col == lo + 1 && c.row == rw && denseCells rw (lo + 1) (d :: ds)) := rfl
      rw [e, this, hc, hs.1.2]; simp

theorem sorted_mem_le {rw : Nat} : ∀ (cs : List Cell) (lo : Nat) (l : Cell),
    sortedCells rw lo cs = true → cs.getLast? = some l → ∀ c ∈ cs, c.col ≤ l.col := by
  intro cs
  induction cs with
  | nil => intro lo l _ h; simp at h
  | cons c cs ih =>
    intro lo l hs hl d hd
    simp [sortedCells] at hs
    cases cs with
    | nil =>
      simp at hl hd; subst hl; subst hd; exact Nat.le_refl _
    | cons e es =>
      have hl' : (e :: es).getLast? = some l := by
        simpa [List.getLast?_cons_cons] using hl
      rcases List.mem_cons.mp hd with rfl | hd'
      · have := sorted_last_ge (e :: es) d.col l hs.2 hl'
        omega
      · exact ih c.col l hs.2 hl' d hd'

theorem dense_get {rw : Nat} : ∀ (cs : List Cell) (k j : Nat) (c : Cell),
    denseCells rw k cs = true → cs[j]? = some c → c.col = k + j + 1 ∧ c.row = rw := by
  intro cs
  induction cs with
  | nil => intro k j c _ h; simp at h
  | cons d cs ih =>
    intro k j c h hj
    simp [denseCells] at h
    cases j with
    | zero => simp at hj; subst hj; exact ⟨by omega, h.1.2⟩
    | succ j =>
      simp at hj
      have := ih (k + 1) j c h.2 hj
      exact ⟨by omega, this.2⟩

theorem dense_mem_le {rw : Nat} (cs : List Cell) (c : Cell)
    (h : denseCells rw 0 cs = true) (hm : c ∈ cs) : 1 ≤ c.col ∧ c.col ≤ cs.length ∧ c.row = rw := by
  obtain ⟨j, hj, e⟩ := List.mem_iff_getElem.mp hm
  have h1 : cs[j]? = some c := by rw [List.getElem?_eq_getElem hj, e]
  have := dense_get cs 0 j c h h1
  omega

theorem dense_valid {rw : Nat} (cs : List Cell) (h : denseCells rw 0 cs = true)
    (hl : cs.length ≤ Facts.MaxColumns) (h1 : 1 ≤ rw) (h2 : rw ≤ Facts.TotalRows) :
    cs.all validRef = true := by
  rw [List.all_eq_true]
  intro c hc
  have := dense_mem_le cs c h hc
  simp [validRef]; omega

theorem dense_blank_range (rw : Nat) : ∀ (n k : Nat),
    denseCells rw k ((List.range' k n).map (fun j => blankCell (j + 1) rw)) = true := by
  intro n
  induction n with
  | zero => intro k; rfl
  | succ n ih =>
    intro k
    simp [List.range'_succ, denseCells, blankCell]
    exact ih (k + 1)

theorem find_blank_range (rw n col : Nat) :
    (findCell ((List.range' 0 n).map (fun j => blankCell (j + 1) rw)) col rw).getD Content.blank
      = Content.blank := by
  rw [dense_find _ 0 col (dense_blank_range rw n 0)]
  by_cases h : 0 < col
  · simp only [h, if_true]
    cases hg : ((List.range' 0 n).map (fun j => blankCell (j + 1) rw))[col - 0 - 1]? with
    | none => rfl
    | some c =>
      have hm : c ∈ (List.range' 0 n).map (fun j => blankCell (j + 1) rw) := List.mem_of_getElem? hg
      simp [blankCell] at hm
      obtain ⟨a, _, rfl⟩ := hm
      rfl
  · simp [h]

theorem maxCol_of_le : ∀ (cs : List Cell) (m : Nat), (∀ c ∈ cs, c.col ≤ m) → maxCol m cs = m := by
  intro cs
  induction cs with
  | nil => intros; rfl
  | cons c cs ih =>
    intro m h
    unfold maxCol
    simp only [List.foldl_cons]
    have hc : ¬ (c.col > m) := by have := h c List.mem_cons_self; omega
    simp only [hc, if_false]
    exact ih m (fun x hx => h x (List.mem_cons_of_mem _ hx))

/-- **Row level.** What a save does to one dense row that stays in memory or is
re-read: trim (`trimRow`, in place) followed by `checkRow` gives back a dense
row with the same number, the same attribute, and the same content at every
position; no error, no panic. -/
theorem trim_check_row (rw : Nat) (hid : Bool) (cells : List Cell)
    (hd : denseCells rw 0 cells = true) (hlen : cells.length ≤ Facts.MaxColumns)
    (h1 : 1 ≤ rw) (h2 : rw ≤ Facts.TotalRows) (idx : Nat) (hidx : idx + 1 = rw) :
    ∃ r', checkRow1 idx (trimRow1 ⟨rw, hid, cells⟩) = Res.ok r' ∧ r'.r = rw ∧ r'.hidden = hid ∧
      denseCells rw 0 r'.cells = true ∧ r'.cells.length ≤ cells.length ∧
      ∀ col, (findCell r'.cells col rw).getD Content.blank = (findCell cells col rw).getD Content.blank := by
  have hs : sortedCells rw 0 cells = true := dense_sorted cells 0 hd
  have hvalid := dense_valid cells hd hlen h1 h2
  have hff := fun col => find_filter cells 0 col hs
  have hsf : sortedCells rw 0 (cells.filter hv) = true := sorted_filter hv cells 0 hs
  have hvf : (cells.filter hv).all validRef = true := by
    rw [List.all_eq_true] at hvalid ⊢
    intro c hc; exact hvalid c ((List.mem_filter.mp hc).1)
  unfold trimRow1
  simp only [trimCell_eq_filter]
  cases hcs : cells.filter hv with
  | nil =>
    cases hid with
    | true =>
      refine ⟨⟨rw, true, []⟩, ?_, rfl, rfl, rfl, by simp, ?_⟩
      · simp [hasAttr, checkRow1]
      · intro col; have := hff col; rw [hcs] at this; simpa using this
    | false =>
      refine ⟨⟨rw, false, cells⟩, ?_, rfl, rfl, hd, Nat.le_refl _, fun _ => rfl⟩
      simp only [hasAttr, List.length_nil, bne_self_eq_false, Bool.or_false, Bool.false_eq_true, if_false]
      unfold checkRow1
      cases hl : cells.getLast? with
      | none => rfl
      | some l =>
        simp only [hvalid, Bool.not_true, Bool.false_eq_true, if_false]
        have hm : l ∈ cells := List.mem_of_getLast? hl
        have := dense_mem_le cells l hd hm
        have : ¬ (cells.length < l.col) := by omega
        simp [this]
  | cons c0 cs0 =>
    rw [← hcs]
    have hne : ((cells.filter hv).length != 0 || hasAttr ⟨rw, hid, cells⟩) = true := by
      rw [hcs]; simp
    simp only [hne, if_true]
    unfold checkRow1
    cases hl : (cells.filter hv).getLast? with
    | none => rw [hcs] at hl; simp at hl
    | some l =>
      simp only [hvf, Bool.not_true, Bool.false_eq_true, if_false]
      have hlm : l ∈ cells := (List.mem_filter.mp (List.mem_of_getLast? hl)).1
      have hlb := dense_mem_le cells l hd hlm
      by_cases hlt : (cells.filter hv).length < l.col
      · simp only [hlt, if_true]
        rw [maxCol_of_le _ l.col (sorted_mem_le _ 0 l hsf hl)]
        have hdt := dense_blank_range (idx + 1) l.col 0
        rw [hidx] at hdt
        have hrange : List.range l.col = List.range' 0 l.col := List.range_eq_range' ..
        obtain ⟨tgt', e1, e2, e3, e4⟩ := placeCells_spec (cells.filter hv)
          ((List.range' 0 l.col).map (fun j => blankCell (j + 1) rw)) 0 hdt hsf
          (by intro c hc; have := sorted_mem_le _ 0 l hsf hl c hc; simpa using this)
        rw [hrange, hidx, e1]
        refine ⟨⟨rw, hid, tgt'⟩, rfl, rfl, rfl, e2, by simp at e3; simp [e3]; omega, ?_⟩
        intro col
        simp only []
        rw [e4 col, ← hff col]
        cases hf : findCell (cells.filter hv) col rw with
        | some x => rfl
        | none => simpa using find_blank_range rw l.col col
      · simp only [hlt, if_false]
        refine ⟨⟨rw, hid, cells.filter hv⟩, rfl, rfl, rfl, ?_, List.length_filter_le _ _, hff⟩
        exact sorted_full_dense _ 0 l hsf hl (by simp at hlt ⊢; omega)

/-! ### sheet level -/

/-- well-formed worksheet: dense grid inside the sheet limits -/
def Wf (s : Sheet) : Prop :=
  denseRows 0 s.rows = true ∧ s.rows.length ≤ Facts.TotalRows ∧
    ∀ r ∈ s.rows, r.cells.length ≤ Facts.MaxColumns

/-- what a lookup by reference reports for row slot `j` (row number `n`) -/
def rowLook (r : Row) (n col : Nat) : Content := (findCell r.cells col n).getD Content.blank

theorem trim_check_rows : ∀ (rows : List Row) (i : Nat),
    denseRows i rows = true → i + rows.length ≤ Facts.TotalRows →
    (∀ r ∈ rows, r.cells.length ≤ Facts.MaxColumns) →
    ∃ rows', checkRows i (rows.map trimRow1) = (rows', Res.ok ()) ∧ denseRows i rows' = true ∧
      rows'.length = rows.length ∧ (∀ r ∈ rows', r.cells.length ≤ Facts.MaxColumns) ∧
      ∀ j r r', rows[j]? = some r → rows'[j]? = some r' →
        r'.hidden = r.hidden ∧ ∀ col, rowLook r' (i + j + 1) col = rowLook r (i + j + 1) col := by
  intro rows
  induction rows with
  | nil =>
    intro i _ _ _
    exact ⟨[], rfl, rfl, rfl, by simp, by simp⟩
  | cons r rows ih =>
    intro i hd hlen hcols
    simp only [denseRows, Bool.and_eq_true, beq_iff_eq] at hd
    obtain ⟨⟨hr, hdc⟩, hdr⟩ := hd
    obtain ⟨rn, hidn, cells⟩ := r
    simp only at hr hdc
    subst hr
    simp only [List.length_cons] at hlen
    obtain ⟨r', e1, e2, e3, e4, e5, e6⟩ := trim_check_row (i + 1) hidn cells hdc
      (hcols _ List.mem_cons_self) (by omega) (by omega) i rfl
    obtain ⟨rows', f1, f2, f3, f4, f5⟩ := ih (i + 1) hdr (by omega)
      (fun x hx => hcols x (List.mem_cons_of_mem _ hx))
    refine ⟨r' :: rows', ?_, ?_, by simp [f3], ?_, ?_⟩
    · simp only [List.map_cons, checkRows, e1, f1]
    · simp only [denseRows, e2, e4, f2, beq_self_eq_true, Bool.and_self]
    · intro x hx
      rcases List.mem_cons.mp hx with rfl | hx
      · have := hcols _ List.mem_cons_self; simp at this; omega
      · exact f4 x hx
    · intro j a a' ha ha'
      cases j with
      | zero =>
        simp at ha ha'; subst ha; subst ha'
        exact ⟨e3, fun col => by simpa [rowLook] using e6 col⟩
      | succ j =>
        simp at ha ha'
        have := f5 j a a' ha ha'
        have e : i + (j + 1) + 1 = i + 1 + j + 1 := by omega
        rw [e]; exact this

/-- observational equality of two worksheets, slot by slot -/
def SameObs (s' s : Sheet) : Prop :=
  s'.rows.length = s.rows.length ∧
    ∀ j r r', s.rows[j]? = some r → s'.rows[j]? = some r' →
      r'.hidden = r.hidden ∧ ∀ col, rowLook r' (j + 1) col = rowLook r (j + 1) col

/-- **Sheet level.** trim in place, then `checkRow`: well-formed again, same observation. -/
theorem trim_checkRow_sheet (s : Sheet) (h : Wf s) :
    ∃ s', checkRow (trimRow s) = (s', Res.ok ()) ∧ Wf s' ∧ SameObs s' s := by
  obtain ⟨hd, hl, hc⟩ := h
  obtain ⟨rows', e1, e2, e3, e4, e5⟩ := trim_check_rows s.rows 0 hd (by omega) hc
  refine ⟨⟨rows'⟩, ?_, ⟨e2, by simp [e3]; exact hl, e4⟩, e3, ?_⟩
  · simp [checkRow, trimRow, e1]
  · intro j r r' hr hr'
    have := e5 j r r' hr hr'
    simpa using this

theorem denseRows_get : ∀ (rows : List Row) (i j : Nat) (r : Row),
    denseRows i rows = true → rows[j]? = some r → r.r = i + j + 1 := by
  intro rows
  induction rows with
  | nil => intro i j r _ h; simp at h
  | cons a rows ih =>
    intro i j r h hj
    simp only [denseRows, Bool.and_eq_true, beq_iff_eq] at h
    cases j with
    | zero => simp at hj; subst hj; omega
    | succ j =>
      simp at hj
      have := ih (i + 1) j r h.2 hj
      omega

theorem dense_lastRowNum (rows : List Row) (h : denseRows 0 rows = true) :
    lastRowNum ⟨rows⟩ = rows.length := by
  unfold lastRowNum
  cases hl : rows.getLast? with
  | none =>
    have : rows = [] := List.getLast?_eq_none_iff.mp hl
    simp [this]
  | some l =>
    simp only [hl]
    rw [List.getLast?_eq_getElem?] at hl
    have := denseRows_get rows 0 (rows.length - 1) l h hl
    have hne : rows ≠ [] := by intro e; simp [e] at hl
    have : 0 < rows.length := List.length_pos_iff.mpr hne
    omega

theorem dense_findRow {α : Type} (F : Row → Option α) : ∀ (rows : List Row) (i row : Nat),
    denseRows i rows = true →
    rows.findSome? (fun r => if (r.r == row) = true then F r else none)
      = if i < row then (rows[row - i - 1]?).bind F else none := by
  intro rows
  induction rows with
  | nil => intro i row _; simp
  | cons a rows ih =>
    intro i row h
    simp only [denseRows, Bool.and_eq_true, beq_iff_eq] at h
    rw [List.findSome?_cons]
    by_cases hm : a.r = row
    · have hk : i < row := by omega
      have h0 : row - i - 1 = 0 := by omega
      simp only [hm, beq_self_eq_true, if_true, hk, h0, List.getElem?_cons_zero, Option.bind_some]
      cases hF : F a with
      | some x => rfl
      | none =>
        simp only []
        rw [ih (i + 1) row h.2]
        have : ¬ (i + 1 < row) := by omega
        simp [this]
    · have hb : (a.r == row) = false := by simpa using hm
      simp only [hb, Bool.false_eq_true, if_false]
      rw [ih (i + 1) row h.2]
      by_cases hk : i < row
      · have hk1 : i + 1 < row := by omega
        have e : row - i - 1 = (row - (i + 1) - 1) + 1 := by omega
        simp [hk, hk1, e]
      · have hk1 : ¬ (i + 1 < row) := by omega
        simp [hk, hk1]

/-- on a dense worksheet the getters' scan by stored reference is a slot access -/
theorem getCell_dense (rows : List Row) (h : denseRows 0 rows = true) (col row : Nat) :
    getCell ⟨rows⟩ col row =
      match (if row = 0 then none else rows[row - 1]?) with
      | some r => rowLook r row col
      | none => Content.blank := by
  unfold getCell
  rw [dense_lastRowNum rows h]
  by_cases hgt : row > rows.length
  · have : rows[row - 1]? = none := List.getElem?_eq_none_iff.mpr (by omega)
    simp only [hgt, if_true, this]
    have e : (if row = 0 then (none : Option Row) else none) = none := by split <;> rfl
    rw [e]
  · simp only [hgt, if_false]
    have := dense_findRow (fun r => findCell r.cells col row) rows 0 row h
    rw [this]
    by_cases h0 : row = 0
    · simp [h0]
    · have hp : 0 < row := by omega
      simp only [hp, if_true, h0, if_false, Nat.sub_zero]
      cases rows[row - 1]? with
      | none => rfl
      | some r => rfl

/-- two dense worksheets that agree slot by slot have the same abstraction -/
theorem abs_eq_of_sameObs (s' s : Sheet) (h' : denseRows 0 s'.rows = true)
    (h : denseRows 0 s.rows = true) (ho : SameObs s' s) : abs s' = abs s := by
  obtain ⟨hl, hr⟩ := ho
  unfold abs
  congr 1
  · funext col row
    have e1 := getCell_dense s'.rows h' col row
    have e2 := getCell_dense s.rows h col row
    show getCell ⟨s'.rows⟩ col row = getCell ⟨s.rows⟩ col row
    rw [e1, e2]
    by_cases h0 : row = 0
    · simp [h0]
    · simp only [h0, if_false]
      cases hs : s.rows[row - 1]? with
      | none =>
        have : s'.rows[row - 1]? = none := by
          rw [List.getElem?_eq_none_iff] at hs ⊢; omega
        simp [this]
      | some r =>
        have hlt : row - 1 < s'.rows.length := by
          have := (List.getElem?_eq_some_iff.mp hs).1; omega
        have hs' : s'.rows[row - 1]? = some s'.rows[row - 1] := List.getElem?_eq_getElem hlt
        have := (hr (row - 1) r _ hs hs').2 col
        have e : row - 1 + 1 = row := by omega
        rw [e] at this
        simp [hs', this]
  · funext row
    unfold rowAt
    by_cases h0 : row = 0
    · simp [h0]
    · simp only [h0, if_false]
      cases hs : s.rows[row - 1]? with
      | none =>
        have : s'.rows[row - 1]? = none := by
          rw [List.getElem?_eq_none_iff] at hs ⊢; omega
        simp [this]
      | some r =>
        have hlt : row - 1 < s'.rows.length := by
          have := (List.getElem?_eq_some_iff.mp hs).1; omega
        have hs' : s'.rows[row - 1]? = some s'.rows[row - 1] := List.getElem?_eq_getElem hlt
        have := (hr (row - 1) r _ hs hs').1
        simp [hs', this]

/-! ### checkSheet on what `trimRow` writes: the identity -/

def numbered : Nat → List Row → Bool
  | _, [] => true
  | i, r :: rs => r.r == i + 1 && numbered (i + 1) rs

theorem dense_numbered : ∀ (rows : List Row) (i : Nat), denseRows i rows = true → numbered i rows = true := by
  intro rows
  induction rows with
  | nil => intros; rfl
  | cons r rows ih =>
    intro i h
    simp only [denseRows, Bool.and_eq_true, beq_iff_eq] at h
    simp only [numbered, Bool.and_eq_true, beq_iff_eq]
    exact ⟨h.1.1, ih _ h.2⟩

theorem trimRow1_r (r : Row) : (trimRow1 r).r = r.r := by
  unfold trimRow1; simp only []; split <;> rfl

theorem numbered_trim : ∀ (rows : List Row) (i : Nat), numbered i rows = true →
    numbered i (rows.map trimRow1) = true := by
  intro rows
  induction rows with
  | nil => intros; rfl
  | cons r rows ih =>
    intro i h
    simp only [numbered, Bool.and_eq_true, beq_iff_eq] at h
    simp only [List.map_cons, numbered, Bool.and_eq_true, beq_iff_eq, trimRow1_r]
    exact ⟨h.1, ih _ h.2⟩

theorem checkSheetMax_numbered : ∀ (rows : List Row) (m : Nat), numbered m rows = true →
    checkSheetMax m rows = some (m + rows.length) := by
  intro rows
  induction rows with
  | nil => intro m _; rfl
  | cons r rows ih =>
    intro m h
    simp only [numbered, Bool.and_eq_true, beq_iff_eq] at h
    unfold checkSheetMax
    have h1 : (r.r == 0 || r.r == m) = false := by simp; omega
    have h2 : (if r.r > m then r.r else m) = m + 1 := by
      have : r.r > m := by omega
      simp only [this, if_true]; omega
    simp only [h1, Bool.false_eq_true, if_false, h2]
    rw [ih (m + 1) h.2]; simp; omega

theorem placeRows_numbered : ∀ (rows pre : List Row), numbered pre.length rows = true →
    placeRows (pre ++ List.replicate rows.length zeroRow) rows = pre ++ rows := by
  intro rows
  induction rows with
  | nil => intro pre _; simp [placeRows]
  | cons r rows ih =>
    intro pre h
    simp only [numbered, Bool.and_eq_true, beq_iff_eq] at h
    unfold placeRows
    have e : (pre ++ List.replicate (r :: rows).length zeroRow).set (r.r - 1) r
        = (pre ++ [r]) ++ List.replicate rows.length zeroRow := by
      rw [h.1]
      simp [List.replicate_succ, List.set_append]
    rw [e]
    have := ih (pre ++ [r]) (by simpa using h.2)
    rw [this]; simp

theorem renumber_numbered (rows : List Row) (h : numbered 0 rows = true) :
    renumber rows.length rows = rows := by
  unfold renumber
  apply List.ext_getElem?
  intro j
  rw [List.getElem?_mapIdx]
  cases hj : rows[j]? with
  | none => rfl
  | some r =>
    have hlt : j < rows.length := (List.getElem?_eq_some_iff.mp hj).1
    have hr : r.r = j + 1 := by
      have aux : ∀ (rows : List Row) (i j : Nat) (r : Row), numbered i rows = true →
          rows[j]? = some r → r.r = i + j + 1 := by
        intro rows
        induction rows with
        | nil => intro i j r _ h; simp at h
        | cons a rows ih =>
          intro i j r h hj
          simp only [numbered, Bool.and_eq_true, beq_iff_eq] at h
          cases j with
          | zero => simp at hj; subst hj; omega
          | succ j => simp at hj; have := ih (i + 1) j r h.2 hj; omega
      have := aux rows 0 j r h hj; omega
    simp only [Option.map_some, hlt, if_true]
    congr 1
    cases r; simp at hr; simp [hr]

/-- `checkSheet` is the identity on the rows `trimRow` leaves for a dense worksheet -/
theorem numbered_get : ∀ (rows : List Row) (i j : Nat) (r : Row), numbered i rows = true →
    rows[j]? = some r → r.r = i + j + 1 := by
  intro rows
  induction rows with
  | nil => intro i j r _ h; simp at h
  | cons a rows ih =>
    intro i j r h hj
    simp only [numbered, Bool.and_eq_true, beq_iff_eq] at h
    cases j with
    | zero => simp at hj; subst hj; omega
    | succ j => simp at hj; have := ih (i + 1) j r h.2 hj; omega

theorem checkSheet_trim (s : Sheet) (h : denseRows 0 s.rows = true)
    (hlen : s.rows.length ≤ Facts.TotalRows) :
    checkSheet (trimRow s).rows = Res.ok (trimRow s).rows := by
  have hn : numbered 0 (trimRow s).rows = true := numbered_trim _ 0 (dense_numbered _ 0 h)
  have hlen' : (trimRow s).rows.length ≤ Facts.TotalRows := by simpa [trimRow] using hlen
  generalize (trimRow s).rows = rows at hn hlen'
  unfold checkSheet
  have hb : rows.any (fun r => decide (r.r > Facts.TotalRows)) = false := by
    rw [List.any_eq_false]
    intro r hr
    obtain ⟨j, hj, e⟩ := List.mem_iff_getElem.mp hr
    have h1 : rows[j]? = some r := by rw [List.getElem?_eq_getElem hj, e]
    have := numbered_get rows 0 j r hn h1
    simp; omega
  simp only [hb, Bool.false_eq_true, if_false]
  rw [checkSheetMax_numbered rows 0 hn]
  cases hl : rows.getLast? with
  | none => rfl
  | some l =>
    simp only []
    have hp := placeRows_numbered rows [] (by simpa using hn)
    simp only [List.nil_append, Nat.zero_add] at hp ⊢
    rw [hp]
    have hlr : l.r = rows.length := by
      rw [List.getLast?_eq_getElem?] at hl
      have hne : rows ≠ [] := by intro e; simp [e] at hl
      have : 0 < rows.length := List.length_pos_iff.mpr hne
      have aux : ∀ (rows : List Row) (i j : Nat) (r : Row), numbered i rows = true →
          rows[j]? = some r → r.r = i + j + 1 := by
        intro rows
        induction rows with
        | nil => intro i j r _ h; simp at h
        | cons a rows ih =>
          intro i j r h hj
          simp only [numbered, Bool.and_eq_true, beq_iff_eq] at h
          cases j with
          | zero => simp at hj; subst hj; omega
          | succ j => simp at hj; have := ih (i + 1) j r h.2 hj; omega
      have := aux rows 0 (rows.length - 1) l hn hl
      omega
    rw [hlr, renumber_numbered rows hn]

end XlModel.Save
