import XlModel.Save
namespace XlModel.Save
end XlModel.Save
