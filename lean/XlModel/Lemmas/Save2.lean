import XlModel.Lemmas.Save
/-!
Setter / getter lemmas on well-formed worksheets (C02, deepening round): `setCell`,
`setRowHidden` keep `Wf` and act on `abs` as the specification's function update;
the getters are functions of `abs`.
-/
namespace XlModel.Save

/-! ### dense lists: append, modify -/

theorem denseCells_append {rw : Nat} : ∀ (a b : List Cell) (k : Nat),
    denseCells rw k (a ++ b) = (denseCells rw k a && denseCells rw (k + a.length) b) := by
  intro a
  induction a with
  | nil => intro b k; simp [denseCells]
  | cons c a ih =>
    intro b k
    simp only [List.cons_append, denseCells, ih, List.length_cons]
    have : k + 1 + a.length = k + (a.length + 1) := by omega
    rw [this]; simp [Bool.and_assoc]

theorem denseCells_modify {rw : Nat} (u : Content → Content) : ∀ (cs : List Cell) (k j : Nat),
    denseCells rw k cs = true →
    denseCells rw k (cs.modify j (fun c => { c with c := u c.c })) = true := by
  intro cs
  induction cs with
  | nil => intros; simp [denseCells]
  | cons c cs ih =>
    intro k j h
    simp only [denseCells, Bool.and_eq_true, beq_iff_eq] at h
    cases j with
    | zero => simp [List.modify, denseCells, h.1.1, h.1.2, h.2]
    | succ j =>
      simp only [List.modify_succ_cons, denseCells, Bool.and_eq_true, beq_iff_eq]
      exact ⟨h.1, ih (k + 1) j h.2⟩

theorem fillColumns_dense {rw : Nat} (cs : List Cell) (col : Nat) (h : denseCells rw 0 cs = true) :
    denseCells rw 0 (fillColumns cs col rw) = true := by
  unfold fillColumns
  split
  · rw [denseCells_append, h]
    simpa using dense_blank_range rw (col - cs.length) cs.length
  · exact h

theorem fillColumns_length (cs : List Cell) (col rw : Nat) :
    (fillColumns cs col rw).length = max cs.length col := by
  unfold fillColumns
  split
  · simp; omega
  · omega

theorem denseRows_append : ∀ (a b : List Row) (i : Nat),
    denseRows i (a ++ b) = (denseRows i a && denseRows (i + a.length) b) := by
  intro a
  induction a with
  | nil => intro b i; simp [denseRows]
  | cons r a ih =>
    intro b i
    simp only [List.cons_append, denseRows, ih, List.length_cons]
    have : i + 1 + a.length = i + (a.length + 1) := by omega
    rw [this]; simp [Bool.and_assoc]

theorem denseRows_newRows : ∀ (n k : Nat),
    denseRows k ((List.range' k n).map (fun i => (⟨i + 1, false, []⟩ : Row))) = true := by
  intro n
  induction n with
  | zero => intro k; rfl
  | succ n ih =>
    intro k
    simp [List.range'_succ, denseRows, denseCells]
    exact ih (k + 1)

theorem appendRows_dense (rows : List Row) (row : Nat) (h : denseRows 0 rows = true) :
    denseRows 0 (appendRows rows row) = true := by
  unfold appendRows
  split
  · rw [denseRows_append, h]
    simpa using denseRows_newRows (row - rows.length) rows.length
  · exact h

theorem appendRows_length (rows : List Row) (row : Nat) :
    (appendRows rows row).length = max rows.length row := by
  unfold appendRows
  split
  · simp; omega
  · omega

/-- modifying row slot `j` by a function that keeps the row number and dense cells -/
theorem denseRows_modify (f : Row → Row) : ∀ (rows : List Row) (i j : Nat),
    denseRows i rows = true →
    (∀ row, row.r = i + j + 1 → denseCells (i + j + 1) 0 row.cells = true →
      (f row).r = row.r ∧ denseCells (i + j + 1) 0 (f row).cells = true) →
    denseRows i (rows.modify j f) = true := by
  intro rows
  induction rows with
  | nil => intros; simp [denseRows]
  | cons r rows ih =>
    intro i j h hf
    simp only [denseRows, Bool.and_eq_true, beq_iff_eq] at h
    cases j with
    | zero =>
      have := hf r (by omega) (by simpa using h.1.2)
      simp only [List.modify_zero_cons, denseRows, Bool.and_eq_true, beq_iff_eq]
      exact ⟨⟨by omega, by simpa using this.2⟩, h.2⟩
    | succ j =>
      simp only [List.modify_succ_cons, denseRows, Bool.and_eq_true, beq_iff_eq]
      refine ⟨h.1, ih (i + 1) j h.2 ?_⟩
      intro row hr hd
      have e : i + 1 + j + 1 = i + (j + 1) + 1 := by omega
      rw [e] at hr hd ⊢
      exact hf row hr hd

/-! ### the observation of a row list, slot by slot -/

/-- what the getters report for `(c, r)` on a dense row list -/
def cellAt (rows : List Row) (c r : Nat) : Content :=
  match (if r = 0 then none else rows[r - 1]?) with
  | some row => rowLook row r c
  | none => Content.blank

theorem getCell_eq_cellAt (rows : List Row) (h : denseRows 0 rows = true) (c r : Nat) :
    getCell ⟨rows⟩ c r = cellAt rows c r := getCell_dense rows h c r

theorem cellAt_appendRows (rows : List Row) (row c r : Nat) :
    cellAt (appendRows rows row) c r = cellAt rows c r := by
  unfold appendRows
  split
  · rename_i hlt
    unfold cellAt
    by_cases h0 : r = 0
    · simp [h0]
    · simp only [h0, if_false]
      by_cases hr : r - 1 < rows.length
      · rw [List.getElem?_append_left hr]
      · rw [List.getElem?_append_right (by omega)]
        have hn : rows[r - 1]? = none := List.getElem?_eq_none_iff.mpr (by omega)
        rw [hn]
        cases hg : ((List.range' rows.length (row - rows.length)).map
            (fun i => (⟨i + 1, false, []⟩ : Row)))[r - 1 - rows.length]? with
        | none => rfl
        | some x =>
          have hm := List.mem_of_getElem? hg
          simp at hm
          obtain ⟨a, _, rfl⟩ := hm
          simp [rowLook, findCell]
  · rfl

theorem cellAt_modify (rows : List Row) (j : Nat) (f : Row → Row) (c r : Nat) :
    cellAt (rows.modify j f) c r =
      if r ≠ 0 ∧ r - 1 = j then
        (match rows[j]? with | some row => rowLook (f row) r c | none => Content.blank)
      else cellAt rows c r := by
  unfold cellAt
  by_cases h0 : r = 0
  · simp [h0]
  · simp only [h0, if_false, ne_eq, not_false_eq_true, true_and]
    rw [List.getElem?_modify]
    by_cases hj : r - 1 = j
    · simp only [hj, if_true]
      cases rows[j]? <;> rfl
    · have : ¬ (j = r - 1) := fun e => hj e.symm
      simp [hj, this]

/-- lookup in a dense cell list after `fillColumns` and a content update at slot `col - 1` -/
theorem rowLook_set {rw : Nat} (row : Row) (u : Content → Content) (col c : Nat)
    (hd : denseCells rw 0 row.cells = true) (hc : 1 ≤ col) :
    rowLook ⟨row.r, row.hidden, List.modify (fillColumns row.cells col rw) (col - 1)
        (fun x => { x with c := u x.c })⟩ rw c
      = if c = col then u (rowLook row rw c) else rowLook row rw c := by
  have hf := fillColumns_dense row.cells col hd
  have hm := denseCells_modify u _ 0 (col - 1) hf
  unfold rowLook
  simp only []
  rw [dense_find _ 0 c hm, dense_find _ 0 c hd]
  by_cases h0 : 0 < c
  · simp only [h0, if_true, Nat.sub_zero]
    rw [List.getElem?_modify]
    -- the filled list at slot c-1
    have hfill : ∀ k, ((fillColumns row.cells col rw)[k]?).map (·.c)
        = if k < max row.cells.length col then some (((row.cells[k]?).map (·.c)).getD Content.blank) else none := by
      intro k
      unfold fillColumns
      split
      · rename_i hlt
        by_cases hk : k < row.cells.length
        · rw [List.getElem?_append_left hk]
          have : k < max row.cells.length col := by omega
          simp only [this, if_true]
          rw [List.getElem?_eq_getElem hk]; simp
        · rw [List.getElem?_append_right (by omega)]
          have hn : row.cells[k]? = none := List.getElem?_eq_none_iff.mpr (by omega)
          by_cases hk2 : k < col
          · have : k < max row.cells.length col := by omega
            simp only [this, if_true, hn]
            rw [List.getElem?_map, List.getElem?_range' (by omega)]
            simp [blankCell]
          · have : ¬ (k < max row.cells.length col) := by omega
            simp only [this, if_false]
            rw [List.getElem?_map]
            have : (List.range' row.cells.length (col - row.cells.length))[k - row.cells.length]? = none := by
              rw [List.getElem?_eq_none_iff]; simp; omega
            simp [this]
      · rename_i hge
        by_cases hk : k < row.cells.length
        · have : k < max row.cells.length col := by omega
          simp only [this, if_true]
          rw [List.getElem?_eq_getElem hk]; simp
        · have hn : row.cells[k]? = none := List.getElem?_eq_none_iff.mpr (by omega)
          have : ¬ (k < max row.cells.length col) := by omega
          simp [this, hn]
    by_cases hcc : c = col
    · subst hcc
      simp only [if_true]
      have := hfill (c - 1)
      have hlt : c - 1 < max row.cells.length c := by omega
      simp only [hlt, if_true] at this
      cases hg : (fillColumns row.cells c rw)[c - 1]? with
      | none => rw [hg] at this; simp at this
      | some x =>
        rw [hg] at this
        simp only [Option.map_some, Option.some.injEq] at this
        simp [this]
    · have hne : ¬ (col - 1 = c - 1) := by omega
      simp only [hne, if_false, hcc]
      have := hfill (c - 1)
      cases hg : (fillColumns row.cells col rw)[c - 1]? with
      | none =>
        rw [hg] at this
        simp only [Option.map_none] at this
        by_cases hlt : c - 1 < max row.cells.length col
        · simp [hlt] at this
        · have hn : row.cells[c - 1]? = none := List.getElem?_eq_none_iff.mpr (by omega)
          simp [hn]
      | some x =>
        rw [hg] at this
        by_cases hlt : c - 1 < max row.cells.length col
        · simp only [hlt, if_true, Option.map_some, Option.some.injEq] at this
          simpa using this
        · rw [if_neg hlt] at this; simp at this
  · have hne : c ≠ col := by omega
    simp [h0, hne]

theorem denseRows_getCells : ∀ (rows : List Row) (i j : Nat) (r : Row),
    denseRows i rows = true → rows[j]? = some r → denseCells (i + j + 1) 0 r.cells = true := by
  intro rows
  induction rows with
  | nil => intro i j r _ h; simp at h
  | cons a rows ih =>
    intro i j r h hj
    simp only [denseRows, Bool.and_eq_true, beq_iff_eq] at h
    cases j with
    | zero => simp at hj; subst hj; simpa using h.1.2
    | succ j =>
      simp at hj
      have := ih (i + 1) j r h.2 hj
      have e : i + 1 + j + 1 = i + (j + 1) + 1 := by omega
      rw [e] at this; exact this

theorem mem_modify {α} (f : α → α) : ∀ (l : List α) (j : Nat) (a : α),
    a ∈ l.modify j f → a ∈ l ∨ ∃ x ∈ l, a = f x := by
  intro l
  induction l with
  | nil => intro j a h; simp at h
  | cons b l ih =>
    intro j a h
    cases j with
    | zero =>
      simp only [List.modify_zero_cons, List.mem_cons] at h
      rcases h with rfl | h
      · exact Or.inr ⟨b, List.mem_cons_self, rfl⟩
      · exact Or.inl (List.mem_cons_of_mem _ h)
    | succ j =>
      simp only [List.modify_succ_cons, List.mem_cons] at h
      rcases h with rfl | h
      · exact Or.inl List.mem_cons_self
      · rcases ih j a h with h | ⟨x, hx, e⟩
        · exact Or.inl (List.mem_cons_of_mem _ h)
        · exact Or.inr ⟨x, List.mem_cons_of_mem _ hx, e⟩

theorem mem_appendRows (rows : List Row) (row : Nat) (a : Row) (h : a ∈ appendRows rows row) :
    a ∈ rows ∨ a.cells = [] := by
  unfold appendRows at h
  split at h
  · rcases List.mem_append.mp h with h | h
    · exact Or.inl h
    · simp at h; obtain ⟨x, _, rfl⟩ := h; exact Or.inr rfl
  · exact Or.inl h

/-- row visibility flag by slot -/
def hidAt (rows : List Row) (r : Nat) : Bool :=
  match (if r = 0 then none else rows[r - 1]?) with
  | some row => row.hidden
  | none => false

theorem hidAt_appendRows (rows : List Row) (row r : Nat) :
    hidAt (appendRows rows row) r = hidAt rows r := by
  unfold appendRows
  split
  · unfold hidAt
    by_cases h0 : r = 0
    · simp [h0]
    · simp only [h0, if_false]
      by_cases hr : r - 1 < rows.length
      · rw [List.getElem?_append_left hr]
      · rw [List.getElem?_append_right (by omega)]
        have hn : rows[r - 1]? = none := List.getElem?_eq_none_iff.mpr (by omega)
        rw [hn]
        cases hg : ((List.range' rows.length (row - rows.length)).map
            (fun i => (⟨i + 1, false, []⟩ : Row)))[r - 1 - rows.length]? with
        | none => rfl
        | some x =>
          have hm := List.mem_of_getElem? hg
          simp at hm
          obtain ⟨a, _, rfl⟩ := hm
          rfl
  · rfl

theorem hidAt_modify (rows : List Row) (j : Nat) (f : Row → Row) (r : Nat) :
    hidAt (rows.modify j f) r =
      if r ≠ 0 ∧ r - 1 = j then
        (match rows[j]? with | some row => (f row).hidden | none => false)
      else hidAt rows r := by
  unfold hidAt
  by_cases h0 : r = 0
  · simp [h0]
  · simp only [h0, if_false, ne_eq, not_false_eq_true, true_and]
    rw [List.getElem?_modify]
    by_cases hj : r - 1 = j
    · simp only [hj, if_true]
      cases rows[j]? <;> rfl
    · have : ¬ (j = r - 1) := fun e => hj e.symm
      simp [hj, this]

/-- `abs` of a dense worksheet in terms of the slot functions -/
theorem abs_dense (s : Sheet) (h : denseRows 0 s.rows = true) :
    abs s = ⟨fun c r => cellAt s.rows c r, fun r => hidAt s.rows r, s.rows.length⟩ := by
  unfold abs
  congr 1
  funext c r
  exact getCell_eq_cellAt s.rows h c r

/-- **setters.** On a well-formed worksheet `prepareCell` + a setter body at slot
`[row-1][col-1]` succeeds, keeps the worksheet well-formed and is the specification's
function update of the observation. -/
theorem setCell_wf (s : Sheet) (col row : Nat) (u : Content → Content) (h : Wf s)
    (hg : inGrid col row = true) :
    ∃ s', setCell s col row u = Res.ok s' ∧ Wf s' ∧ abs s' = (abs s).set col row u := by
  obtain ⟨hd, hl, hc⟩ := h
  simp only [inGrid, Bool.and_eq_true, decide_eq_true_eq] at hg
  obtain ⟨⟨⟨hc1, hc2⟩, hr1⟩, hr2⟩ := hg
  have hr0 : row ≠ 0 := by omega
  let f : Row → Row := fun r => { r with cells := fillColumns r.cells col row }
  let g : Row → Row := fun r => { r with cells := r.cells.modify (col - 1) (fun c => { c with c := u c.c }) }
  let rows0 := appendRows s.rows row
  let rows2 := (rows0.modify (row - 1) f).modify (row - 1) g
  have hres : setCell s col row u = Res.ok ⟨rows2⟩ := by
    unfold setCell prepareSheetXML
    have hin : inGrid col row = true := by
      simp [inGrid]; omega
    simp [hin, hr0, rows2, rows0, f, g]
  have hd0 : denseRows 0 rows0 = true := appendRows_dense s.rows row hd
  have hd1 : denseRows 0 (rows0.modify (row - 1) f) = true := by
    apply denseRows_modify f rows0 0 (row - 1) hd0
    intro r _ hdc
    have e : 0 + (row - 1) + 1 = row := by omega
    rw [e] at hdc ⊢
    exact ⟨rfl, fillColumns_dense r.cells col hdc⟩
  have hd2 : denseRows 0 rows2 = true := by
    apply denseRows_modify g _ 0 (row - 1) hd1
    intro r _ hdc
    exact ⟨rfl, denseCells_modify u r.cells 0 (col - 1) hdc⟩
  have hlen0 : rows0.length = max s.rows.length row := appendRows_length s.rows row
  have hlen2 : rows2.length = max s.rows.length row := by simp [rows2, hlen0]
  have hj : row - 1 < rows0.length := by omega
  have hrow0 : rows0[row - 1]? = some rows0[row - 1] := List.getElem?_eq_getElem hj
  have hdc0 : denseCells row 0 (rows0[row - 1]).cells = true := by
    have := denseRows_getCells rows0 0 (row - 1) _ hd0 hrow0
    have e : 0 + (row - 1) + 1 = row := by omega
    rw [e] at this; exact this
  refine ⟨⟨rows2⟩, hres, ⟨hd2, by simp only [hlen2]; omega, ?_⟩, ?_⟩
  · intro a ha
    rcases mem_modify g _ _ a ha with ha | ⟨x, hx, rfl⟩
    · rcases mem_modify f _ _ a ha with ha | ⟨y, hy, rfl⟩
      · rcases mem_appendRows _ _ a ha with ha | ha
        · exact hc a ha
        · simp [ha]
      · simp only [f, fillColumns_length]
        rcases mem_appendRows _ _ y hy with hy | hy
        · have := hc y hy; omega
        · simp [hy]; omega
    · simp only [g, List.length_modify]
      rcases mem_modify f _ _ x hx with hx | ⟨y, hy, rfl⟩
      · rcases mem_appendRows _ _ x hx with hx | hx
        · exact hc x hx
        · simp [hx]
      · simp only [f, fillColumns_length]
        rcases mem_appendRows _ _ y hy with hy | hy
        · have := hc y hy; omega
        · simp [hy]; omega
  · rw [abs_dense ⟨rows2⟩ hd2, abs_dense s hd]
    unfold Spec.Grid.set
    simp only []
    congr 1
    · funext c r
      rw [cellAt_modify]
      by_cases hrr : r ≠ 0 ∧ r - 1 = row - 1
      · have hreq : r = row := by omega
        subst hreq
        simp only [hrr, and_self, if_true]
        rw [List.getElem?_modify]
        have := rowLook_set (rw := r) rows0[r - 1] u col c hdc0 hc1
        simp only [if_true, hrow0, Option.map_eq_map, Option.map_some, ne_eq, hr0, not_false_eq_true,
          and_self, and_true, true_and, g, f]
        rw [this]
        have hca : rowLook rows0[r - 1] r c = cellAt s.rows c r := by
          rw [← cellAt_appendRows s.rows r c r]
          unfold cellAt
          simp only [hr0, if_false]
          show _ = match rows0[r - 1]? with | some row => rowLook row r c | none => Content.blank
          rw [hrow0]
        rw [hca]
      · simp only [hrr, if_false]
        rw [cellAt_modify]
        simp only [hrr, if_false]
        rw [cellAt_appendRows]
        have : ¬ (c = col ∧ r = row) := by
          intro ⟨_, e⟩; apply hrr; subst e; exact ⟨hr0, rfl⟩
        simp [this]
    · funext r
      rw [hidAt_modify]
      by_cases hrr : r ≠ 0 ∧ r - 1 = row - 1
      · simp only [hrr, and_self, if_true]
        rw [List.getElem?_modify]
        have hreq : r = row := by omega
        subst hreq
        simp only [if_true, hrow0, Option.map_eq_map, Option.map_some, ne_eq, hr0, not_false_eq_true,
          and_self, and_true, true_and, g, f]
        rw [← hidAt_appendRows s.rows r r]
        unfold hidAt
        simp only [hr0, if_false]
        show _ = match rows0[r - 1]? with | some row => row.hidden | none => false
        rw [hrow0]
      · simp only [hrr, if_false]
        rw [hidAt_modify]
        simp only [hrr, if_false]
        exact hidAt_appendRows s.rows row r

theorem fillColumns_zero (cs : List Cell) (rw : Nat) : fillColumns cs 0 rw = cs := by
  unfold fillColumns; simp

/-- **SetRowVisible** on a well-formed worksheet -/
theorem setRowHidden_wf (s : Sheet) (row : Nat) (b : Bool) (h : Wf s)
    (h1 : 1 ≤ row) (h2 : row ≤ Facts.TotalRows) :
    ∃ s', setRowHidden s row b = Res.ok s' ∧ Wf s' ∧ abs s' = (abs s).setHidden row b := by
  obtain ⟨hd, hl, hc⟩ := h
  have hr0 : row ≠ 0 := by omega
  let f : Row → Row := fun r => { r with cells := fillColumns r.cells 0 row }
  let g : Row → Row := fun r => { r with hidden := b }
  let rows0 := appendRows s.rows row
  let rows2 := (rows0.modify (row - 1) f).modify (row - 1) g
  have hff : ∀ r : Row, f r = r := by intro r; simp [f, fillColumns_zero]
  have hres : setRowHidden s row b = Res.ok ⟨rows2⟩ := by
    unfold setRowHidden prepareSheetXML
    have : ¬ (row < 1) := by omega
    simp [this, hr0, rows2, rows0, f, g]
  have hd0 : denseRows 0 rows0 = true := appendRows_dense s.rows row hd
  have hd1 : denseRows 0 (rows0.modify (row - 1) f) = true := by
    apply denseRows_modify f rows0 0 (row - 1) hd0
    intro r _ hdc
    rw [hff]; exact ⟨rfl, hdc⟩
  have hd2 : denseRows 0 rows2 = true := by
    apply denseRows_modify g _ 0 (row - 1) hd1
    intro r _ hdc
    exact ⟨rfl, hdc⟩
  have hlen0 : rows0.length = max s.rows.length row := appendRows_length s.rows row
  have hlen2 : rows2.length = max s.rows.length row := by simp [rows2, hlen0]
  have hj : row - 1 < rows0.length := by omega
  have hrow0 : rows0[row - 1]? = some rows0[row - 1] := List.getElem?_eq_getElem hj
  refine ⟨⟨rows2⟩, hres, ⟨hd2, by simp only [hlen2]; omega, ?_⟩, ?_⟩
  · intro a ha
    have key : ∀ x, x ∈ rows0 → x.cells.length ≤ Facts.MaxColumns := by
      intro x hx
      rcases mem_appendRows _ _ x hx with hx | hx
      · exact hc x hx
      · simp [hx]
    rcases mem_modify g _ _ a ha with ha | ⟨x, hx, rfl⟩
    · rcases mem_modify f _ _ a ha with ha | ⟨y, hy, rfl⟩
      · exact key a ha
      · rw [hff]; exact key y hy
    · show x.cells.length ≤ _
      rcases mem_modify f _ _ x hx with hx | ⟨y, hy, rfl⟩
      · exact key x hx
      · rw [hff]; exact key y hy
  · rw [abs_dense ⟨rows2⟩ hd2, abs_dense s hd]
    unfold Spec.Grid.setHidden
    simp only []
    congr 1
    · funext c r
      rw [cellAt_modify]
      by_cases hrr : r ≠ 0 ∧ r - 1 = row - 1
      · have hreq : r = row := by omega
        subst hreq
        rw [List.getElem?_modify]
        simp only [if_true, hrow0, Option.map_eq_map, Option.map_some, ne_eq, hr0, not_false_eq_true,
          and_self, and_true, true_and, hff]
        rw [← cellAt_appendRows s.rows r c r]
        unfold cellAt
        simp only [hr0, if_false]
        show _ = match rows0[r - 1]? with | some row => rowLook row r c | none => Content.blank
        rw [hrow0]
        rfl
      · simp only [hrr, if_false]
        rw [cellAt_modify]
        simp only [hrr, if_false]
        exact cellAt_appendRows s.rows row c r
    · funext r
      rw [hidAt_modify]
      by_cases hrr : r ≠ 0 ∧ r - 1 = row - 1
      · have hreq : r = row := by omega
        subst hreq
        rw [List.getElem?_modify]
        simp [hrow0, hr0, g]
      · simp only [hrr, if_false]
        rw [hidAt_modify]
        simp only [hrr, if_false]
        rw [hidAt_appendRows]
        have : ¬ (r = row) := by
          intro e; apply hrr; subst e; exact ⟨hr0, rfl⟩
        simp [this]

/-! ### getters as functions of `abs` -/

theorem findFormula_cons (c : Cell) (cs : List Cell) (col rw : Nat) :
    findFormula (c :: cs) col rw =
      (if (c.col == col && c.row == rw) = true then c.c.f else none).or (findFormula cs col rw) := by
  simp only [findFormula, List.findSome?_cons]
  by_cases h : (c.col == col && c.row == rw) = true
  · simp only [h, if_true]
    cases c.c.f <;> rfl
  · simp [h]

/-- on a dense list GetCellFormula's scan finds the formula of the one matching cell -/
theorem dense_findFormula {rw : Nat} : ∀ (cs : List Cell) (k col : Nat),
    denseCells rw k cs = true → findFormula cs col rw = (findCell cs col rw).bind (·.f) := by
  intro cs
  induction cs with
  | nil => intros; rfl
  | cons c cs ih =>
    intro k col h
    have hs := dense_sorted (c :: cs) k h
    simp only [denseCells, Bool.and_eq_true, beq_iff_eq] at h
    simp only [sortedCells, Bool.and_eq_true, decide_eq_true_eq, beq_iff_eq] at hs
    rw [findFormula_cons, findCell_cons, ih (k + 1) col h.2]
    by_cases hm : (c.col == col && c.row == rw) = true
    · have hcol : c.col = col := by simp at hm; exact hm.1
      have := sorted_find_none cs c.col col hs.2 (by omega)
      simp [hm, this]
    · simp [hm]

theorem getFormula_dense (s : Sheet) (h : denseRows 0 s.rows = true) (col row : Nat) :
    getFormula s col row = (getCell s col row).f := by
  unfold getFormula getCell
  rw [dense_lastRowNum s.rows h]
  by_cases hgt : row > s.rows.length
  · simp [hgt, Content.blank]
  · simp only [hgt, if_false]
    rw [dense_findRow (fun r => findFormula r.cells col row) s.rows 0 row h,
      dense_findRow (fun r => findCell r.cells col row) s.rows 0 row h]
    by_cases h0 : 0 < row
    · simp only [h0, if_true, Nat.sub_zero]
      cases hr : s.rows[row - 1]? with
      | none => simp [Content.blank]
      | some r =>
        have hdc := denseRows_getCells s.rows 0 (row - 1) r h hr
        have e : 0 + (row - 1) + 1 = row := by omega
        rw [e] at hdc
        simp only [Option.bind_some]
        rw [dense_findFormula r.cells 0 col hdc]
        cases findCell r.cells col row <;> simp [Content.blank]
    · simp [h0, Content.blank]

theorem getRowVisible_abs (s : Sheet) (row : Nat) (h1 : 1 ≤ row) :
    getRowVisible s row = (decide (row ≤ (abs s).nrows) && !(abs s).hidden row) := by
  unfold getRowVisible abs rowAt
  have h0 : row ≠ 0 := by omega
  by_cases hgt : row > s.rows.length
  · have : ¬ (row ≤ s.rows.length) := by omega
    simp [hgt, this]
  · have hle : row ≤ s.rows.length := by omega
    simp only [hgt, if_false, h0, hle, decide_true, Bool.true_and]
    cases hr : s.rows[row - 1]? with
    | none =>
      have := List.getElem?_eq_none_iff.mp hr
      omega
    | some r => rfl

end XlModel.Save
