import XlModel.Lemmas.Save2
/-!
Workbook level (C02, deepening round): the simulation between the implementation
model (cache / checked set / parts) and the specification (a list of grids), one step
at a time, saves included.
-/
namespace XlModel.Save

/-- a worksheet part stands for the grid `g`: either the cached worksheet is well-formed
with observation `g`, or nothing is cached, the part is not marked checked, and its
bytes decode to a well-formed worksheet with observation `g` -/
def PartInv (w : WS) (g : Spec.Grid) : Prop :=
  (∃ s, w.cache = some s ∧ Wf s ∧ abs s = g) ∨
  (w.cache = none ∧ w.checked = false ∧ ∃ s, decodePart false w.pkg = Res.ok s ∧ Wf s ∧ abs s = g)

/-- the stored bytes of the part decode to `g` -/
def SavedOk (w : WS) (g : Spec.Grid) : Prop :=
  ∃ d, decodePart false w.pkg = Res.ok d ∧ Wf d ∧ abs d = g

/-- pointwise relation of two lists of the same length -/
inductive All2 {α β : Type} (R : α → β → Prop) : List α → List β → Prop
  | nil : All2 R [] []
  | cons {a b l1 l2} : R a b → All2 R l1 l2 → All2 R (a :: l1) (b :: l2)

def Sim (wb : WB) (b : Spec.Book) : Prop := All2 PartInv wb.sheets b

/-! ### Forall₂ plumbing -/

theorem forall₂_get {α β : Type} {R : α → β → Prop} : ∀ {l1 : List α} {l2 : List β}, All2 R l1 l2 →
    ∀ (i : Nat), (∀ a, l1[i]? = some a → ∃ b, l2[i]? = some b ∧ R a b) ∧ (l1[i]? = none ↔ l2[i]? = none) := by
  intro l1 l2 h
  induction h with
  | nil => intro i; simp
  | cons hab _ ih =>
    intro i
    cases i with
    | zero => simp; exact hab
    | succ i => simpa using ih i

theorem forall₂_set {α β : Type} {R : α → β → Prop} : ∀ {l1 : List α} {l2 : List β}, All2 R l1 l2 →
    ∀ (i : Nat) (a : α) (b : β), R a b → All2 R (l1.set i a) (l2.set i b) := by
  intro l1 l2 h
  induction h with
  | nil => intro i a b _; simp; exact All2.nil
  | cons hab ht ih =>
    intro i a b hr
    cases i with
    | zero => simp; exact All2.cons hr ht
    | succ i => simp; exact All2.cons hab (ih i a b hr)

theorem forall₂_length {α β : Type} {R : α → β → Prop} : ∀ {l1 : List α} {l2 : List β}, All2 R l1 l2 →
    l1.length = l2.length := by
  intro l1 l2 h
  induction h with
  | nil => rfl
  | cons _ _ ih => simp [ih]

theorem forall₂_append {α β : Type} {R : α → β → Prop} : ∀ {l1 : List α} {l2 : List β}, All2 R l1 l2 →
    ∀ (a : α) (b : β), R a b → All2 R (l1 ++ [a]) (l2 ++ [b]) := by
  intro l1 l2 h
  induction h with
  | nil => intro a b hr; exact All2.cons hr All2.nil
  | cons hab _ ih => intro a b hr; exact All2.cons hab (ih a b hr)

theorem set_same {α} (l : List α) (i : Nat) (a : α) (h : l[i]? = some a) : l.set i a = l := by
  apply List.ext_getElem?
  intro j
  rw [List.getElem?_set]
  by_cases hij : i = j
  · subst hij
    obtain ⟨hlt, e⟩ := List.getElem?_eq_some_iff.mp h
    simp [hlt, e]
  · simp [hij]

/-! ### loading and saving one part -/

theorem load_inv (w : WS) (g : Spec.Grid) (h : PartInv w g) :
    ∃ w1 s, loadWS w = Res.ok (w1, s) ∧ w1.cache = some s ∧ Wf s ∧ abs s = g := by
  rcases h with ⟨s, hc, hw, ha⟩ | ⟨hc, hk, s, hd, hw, ha⟩
  · exact ⟨w, s, by simp [loadWS, hc], hc, hw, ha⟩
  · refine ⟨{ w with cache := some s, checked := true }, s, ?_, rfl, hw, ha⟩
    unfold loadWS
    simp only [hc, hk, hd]

theorem partInv_cached (w : WS) (s : Sheet) (g : Spec.Grid) (hw : Wf s) (ha : abs s = g) :
    PartInv { w with cache := some s } g := Or.inl ⟨s, rfl, hw, ha⟩

theorem partInv_of_cache (w : WS) (s : Sheet) (g : Spec.Grid) (hc : w.cache = some s) (hw : Wf s)
    (ha : abs s = g) : PartInv w g := Or.inl ⟨s, hc, hw, ha⟩

/-- `workSheetWriter` on one part: the invariant is kept and the stored bytes decode to `g` -/
theorem save_inv (w : WS) (g : Spec.Grid) (h : PartInv w g) :
    ∃ w', saveWS w = Res.ok w' ∧ PartInv w' g ∧ SavedOk w' g := by
  have hf : Facts.C02.redensifyCached = true := by decide
  rcases h with ⟨s, hc, hw, ha⟩ | ⟨hc, hk, s, hd, hw, ha⟩
  · obtain ⟨s', e, hw', ha'⟩ := trim_checkRow_sheet s hw
    have ha'' : abs s' = abs s := abs_eq_of_sameObs s' s hw'.1 hw.1 ha'
    have hdec : decodePart false (some (trimRow s).rows) = Res.ok s' := by
      unfold decodePart
      simp only [Option.getD_some, Bool.false_eq_true, if_false]
      rw [checkSheet_trim s hw.1 hw.2.1]
      have : (⟨(trimRow s).rows⟩ : Sheet) = trimRow s := rfl
      simp only [this, e]
    unfold saveWS saveWSWith
    rw [hc]
    simp only []
    cases hk : w.checked with
    | true =>
      simp only [if_true]
      exact ⟨_, rfl, Or.inr ⟨rfl, rfl, s', hdec, hw', by rw [ha'', ha]⟩,
        ⟨s', hdec, hw', by rw [ha'', ha]⟩⟩
    | false =>
      simp only [Bool.false_eq_true, if_false, hf, if_true, e]
      exact ⟨_, rfl, Or.inl ⟨s', rfl, hw', by rw [ha'', ha]⟩, ⟨s', hdec, hw', by rw [ha'', ha]⟩⟩
  · refine ⟨w, ?_, Or.inr ⟨hc, hk, s, hd, hw, ha⟩, ⟨s, hd, hw, ha⟩⟩
    unfold saveWS saveWSWith
    rw [hc]

theorem saveAll_sim : ∀ {ws : List WS} {b : Spec.Book}, All2 PartInv ws b →
    ∃ ws', saveAll ws = Res.ok ws' ∧ All2 PartInv ws' b ∧ All2 SavedOk ws' b := by
  intro ws b h
  induction h with
  | nil => exact ⟨[], rfl, All2.nil, All2.nil⟩
  | cons hab _ ih =>
    obtain ⟨w', e1, p1, q1⟩ := save_inv _ _ hab
    obtain ⟨ws', e2, p2, q2⟩ := ih
    exact ⟨w' :: ws', by simp [saveAll, e1, e2], All2.cons p1 p2, All2.cons q1 q2⟩

theorem all2_reopen : ∀ {ws : List WS} {b : Spec.Book}, All2 SavedOk ws b →
    All2 PartInv (ws.map (fun w => (⟨none, false, w.pkg⟩ : WS))) b := by
  intro ws b h
  induction h with
  | nil => exact All2.nil
  | cons hab _ ih =>
    obtain ⟨d, hd, hw, ha⟩ := hab
    exact All2.cons (Or.inr ⟨rfl, rfl, d, hd, hw, ha⟩) ih

/-! ### reading a sheet through the cache -/

theorem read_sim (wb : WB) (b : Spec.Book) (i : Nat) (w : WS) (g : Spec.Grid) (h : Sim wb b)
    (hw : wb.sheets[i]? = some w) (hg : b[i]? = some g) :
    ∃ w1 s, readSheet wb i = Res.ok (⟨wb.sheets.set i w1⟩, s) ∧ loadWS w = Res.ok (w1, s) ∧
      w1.cache = some s ∧ Wf s ∧ abs s = g ∧ Sim ⟨wb.sheets.set i w1⟩ b := by
  obtain ⟨g', hg', hp⟩ := (forall₂_get h i).1 w hw
  rw [hg] at hg'; injection hg' with hg'; subst hg'
  obtain ⟨w1, s, hl, hc, hwf, ha⟩ := load_inv w g hp
  refine ⟨w1, s, ?_, hl, hc, hwf, ha, ?_⟩
  · unfold readSheet; simp only [hw, hl]
  · have := forall₂_set h i w1 g (partInv_of_cache w1 s g hc hwf ha)
    rw [set_same b i g hg] at this
    exact this

theorem read_none (wb : WB) (b : Spec.Book) (i : Nat) (h : Sim wb b) (hg : b[i]? = none) :
    wb.sheets[i]? = none := ((forall₂_get h i).2).mpr hg

/-- a setter on sheet `i` that succeeds exactly when `ok` holds and then performs the
grid update `upd` -/
theorem onSheet_sim (wb : WB) (b : Spec.Book) (i : Nat) (op : Sheet → Res Sheet) (ok : Bool)
    (upd : Spec.Grid → Spec.Grid) (h : Sim wb b)
    (hop : ∀ s, Wf s → if ok = true then ∃ s', op s = Res.ok s' ∧ Wf s' ∧ abs s' = upd (abs s)
                        else op s = Res.err) :
    (liftOn (onSheet wb i op)).2 = (Spec.onGrid b i ok upd).2 ∧
      Sim (liftOn (onSheet wb i op)).1 (Spec.onGrid b i ok upd).1 := by
  cases hg : b[i]? with
  | none =>
    have hw := read_none wb b i h hg
    simp [onSheet, Spec.onGrid, hw, hg, liftOn, liftRes, h]
  | some g =>
    obtain ⟨w, hw, hp⟩ : ∃ w, wb.sheets[i]? = some w ∧ PartInv w g := by
      cases hw : wb.sheets[i]? with
      | none => have := ((forall₂_get h i).2).mp hw; rw [hg] at this; cases this
      | some w =>
        obtain ⟨g', hg', hp⟩ := (forall₂_get h i).1 w hw
        rw [hg] at hg'; injection hg' with hg'; subst hg'
        exact ⟨w, rfl, hp⟩
    obtain ⟨w1, s, hl, hc, hwf, ha⟩ := load_inv w g hp
    have hops := hop s hwf
    cases hok : ok with
    | true =>
      simp only [hok, if_true] at hops
      obtain ⟨s', e, hwf', ha'⟩ := hops
      simp only [onSheet, hw, hl, e, liftOn, liftRes, Spec.onGrid, hg, if_true]
      refine ⟨trivial, ?_⟩
      exact forall₂_set h i _ _ (partInv_cached w1 s' _ hwf' (by rw [ha', ha]))
    | false =>
      simp only [hok, Bool.false_eq_true, if_false] at hops
      simp only [onSheet, hw, hl, hops, liftOn, liftRes, Spec.onGrid, hg, Bool.false_eq_true, if_false]
      refine ⟨trivial, ?_⟩
      have := forall₂_set h i w1 g (partInv_of_cache w1 s g hc hwf ha)
      rw [set_same b i g hg] at this
      exact this

/-- the one argument the library does not bound: `SetRowVisible` accepts any `row ≥ 1` -/
def OpOk : Op → Prop
  | .setHidden _ r _ => r ≤ Facts.TotalRows
  | _ => True

theorem abs_empty : abs ⟨[]⟩ = Spec.Grid.empty := by
  unfold abs Spec.Grid.empty
  congr 1
  · funext c r
    simp [getCell, lastRowNum]
  · funext r
    simp [rowAt]

theorem wf_empty : Wf ⟨[]⟩ := ⟨rfl, Nat.zero_le _, by simp⟩

theorem onGrid_err (b : Spec.Book) (i : Nat) (upd : Spec.Grid → Spec.Grid) :
    Spec.onGrid b i false upd = (b, Out.err) := by
  unfold Spec.onGrid
  cases b[i]? <;> simp

theorem setCell_sim (wb : WB) (b : Spec.Book) (sh c r : Nat) (u : Content → Content) (h : Sim wb b) :
    (liftOn (onSheet wb sh (fun s => setCell s c r u))).2 = (Spec.onGrid b sh (inGrid c r) (fun g => g.set c r u)).2 ∧
    Sim (liftOn (onSheet wb sh (fun s => setCell s c r u))).1 (Spec.onGrid b sh (inGrid c r) (fun g => g.set c r u)).1 := by
  apply onSheet_sim wb b sh _ (inGrid c r) _ h
  intro s hw
  cases hg : inGrid c r with
  | true => simp only [if_true]; exact setCell_wf s c r u hw hg
  | false => simp [setCell, hg]

/-- **one step.** Every API call of the model — setters, getters, NewSheet, CopySheet,
save, reopen — answers what the specification answers and keeps the simulation. -/
theorem step_sim (wb : WB) (b : Spec.Book) (op : Op) (h : Sim wb b) (hok : OpOk op) :
    (step wb op).2 = (Spec.step b op).2 ∧ Sim (step wb op).1 (Spec.step b op).1 := by
  cases op with
  | setVal sh c r t v => exact setCell_sim wb b sh c r _ h
  | setFormula sh c r f => exact setCell_sim wb b sh c r _ h
  | setStyle sh c r st =>
    simp only [step, Spec.step]
    cases hg : inGrid c r with
    | true =>
      simp only [Bool.not_true, Bool.false_eq_true, if_false]
      have := setCell_sim wb b sh c r (updStyle st) h
      rw [hg] at this; exact this
    | false =>
      simp only [Bool.not_false, if_true, onGrid_err]
      exact ⟨trivial, h⟩
  | setHidden sh r hd =>
    simp only [step, Spec.step]
    by_cases h1 : r < 1
    · have : decide (1 ≤ r) = false := by simp; omega
      simp only [h1, if_true, this, onGrid_err]
      exact ⟨trivial, h⟩
    · have hd1 : decide (1 ≤ r) = true := by simp; omega
      simp only [h1, if_false, hd1]
      apply onSheet_sim wb b sh _ true _ h
      intro s hw
      simp only [if_true]
      exact setRowHidden_wf s r hd hw (by omega) hok
  | newSheet =>
    simp only [step, Spec.step, newSheet]
    exact ⟨trivial, forall₂_append h _ _ (Or.inl ⟨⟨[]⟩, rfl, wf_empty, abs_empty⟩)⟩
  | copy a d =>
    simp only [step, Spec.step]
    have hlen := forall₂_length h
    by_cases had : a = d
    · simp [copySheet, had, liftOn, liftRes, h]
    · cases hga : b[a]? with
      | none =>
        have hwa := read_none wb b a h hga
        simp only [had, if_false]
        by_cases hdl : wb.sheets.length ≤ d
        · simp [copySheet, had, hdl, liftOn, liftRes, h]
        · simp [copySheet, had, hdl, readSheet, hwa, liftOn, liftRes, h]
      | some ga =>
        cases hgd : b[d]? with
        | none =>
          have hwd := read_none wb b d h hgd
          have hdl : wb.sheets.length ≤ d := List.getElem?_eq_none_iff.mp hwd
          simp [copySheet, had, hdl, liftOn, liftRes, h]
        | some gd =>
          have hdl : ¬ (wb.sheets.length ≤ d) := by
            have := (List.getElem?_eq_some_iff.mp hgd).1; omega
          obtain ⟨wa, hwa⟩ : ∃ wa, wb.sheets[a]? = some wa := by
            cases hx : wb.sheets[a]? with
            | none => have := ((forall₂_get h a).2).mp hx; rw [hga] at this; cases this
            | some wa => exact ⟨wa, rfl⟩
          obtain ⟨w1, s, hr1, _, _, hwf, habs, hs1⟩ := read_sim wb b a wa ga h hwa hga
          obtain ⟨wd, hwd⟩ : ∃ wd, (wb.sheets.set a w1)[d]? = some wd := by
            cases hx : (wb.sheets.set a w1)[d]? with
            | none => have := ((forall₂_get hs1 d).2).mp hx; rw [hgd] at this; cases this
            | some wd => exact ⟨wd, rfl⟩
          obtain ⟨w2, s2, hr2, _, _, _, _, hs2⟩ := read_sim ⟨wb.sheets.set a w1⟩ b d wd gd hs1 hwd hgd
          have hget : ((wb.sheets.set a w1).set d w2)[d]? = some w2 := by
            rw [List.getElem?_set]
            have : d < wb.sheets.length := by omega
            simp [this]
          simp only [had, if_false, copySheet, hdl, or_self, hr1, hr2, hget, liftOn, liftRes]
          refine ⟨trivial, ?_⟩
          exact forall₂_set hs2 d _ _ (partInv_cached w2 s ga hwf habs)
  | save =>
    simp only [step, Spec.step, save]
    obtain ⟨ws', e, hp, _⟩ := saveAll_sim h
    simp only [e, liftRes]
    exact ⟨trivial, hp⟩
  | reopen =>
    simp only [step, Spec.step, reopen, save]
    obtain ⟨ws', e, _, hq⟩ := saveAll_sim h
    simp only [e, liftRes]
    exact ⟨trivial, all2_reopen hq⟩
  | get sh c r =>
    simp only [step, Spec.step]
    cases hg : b[sh]? with
    | none =>
      have hw := read_none wb b sh h hg
      cases inGrid c r <;> simp [readSheet, hw, h]
    | some g =>
      obtain ⟨w, hw⟩ : ∃ w, wb.sheets[sh]? = some w := by
        cases hx : wb.sheets[sh]? with
        | none => have := ((forall₂_get h sh).2).mp hx; rw [hg] at this; cases this
        | some w => exact ⟨w, rfl⟩
      obtain ⟨w1, s, hr, _, _, hwf, habs, hs⟩ := read_sim wb b sh w g h hw hg
      simp only [hr]
      cases hin : inGrid c r with
      | false => simp [hs]
      | true =>
        simp only [Bool.not_true, Bool.false_eq_true, if_false]
        refine ⟨?_, hs⟩
        rw [getFormula_dense s hwf.1, ← habs]
        rfl
  | vis sh r =>
    simp only [step, Spec.step]
    by_cases h1 : r < 1
    · simp [h1, h]
    · simp only [h1, if_false]
      cases hg : b[sh]? with
      | none =>
        have hw := read_none wb b sh h hg
        simp [readSheet, hw, h]
      | some g =>
        obtain ⟨w, hw⟩ : ∃ w, wb.sheets[sh]? = some w := by
          cases hx : wb.sheets[sh]? with
          | none => have := ((forall₂_get h sh).2).mp hx; rw [hg] at this; cases this
          | some w => exact ⟨w, rfl⟩
        obtain ⟨w1, s, hr, _, _, hwf, habs, hs⟩ := read_sim wb b sh w g h hw hg
        simp only [hr]
        refine ⟨?_, hs⟩
        rw [getRowVisible_abs s r (by omega), habs]

theorem checkSheet_err (rows : List Row)
    (h : rows.any (fun r => decide (r.r > Facts.TotalRows)) = true) : checkSheet rows = Res.err := by
  unfold checkSheet; simp only [h, if_true]


end XlModel.Save
