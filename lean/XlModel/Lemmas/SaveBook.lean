/-
Helper lemmas for the workbook-level model (C01): the XML layer is the identity on legal content, one
worksheet through save/XML/open, the list of worksheets, the whole workbook; transitivity of the
observation equality (for the second cycle).
-/
import XlModel.SaveBook
import XlModel.Lemmas.SaveGrid4
import XlModel.Lemmas.SaveCols3
namespace XlModel.SaveBook
open XlModel XlModel.Grid

theorem legalO_map (x : List Char → List Char) (hx : ∀ t, LegalS t → x t = t) (o : Option (List Char))
    (h : LegalO o) : o.map x = o := by
  cases o with
  | none => rfl
  | some s => simp [hx s h]

theorem xCell_legal (x : List Char → List Char) (hx : ∀ t, LegalS t → x t = t) (c : Cell)
    (h : LegalContent (content c)) : xCell x c = c := by
  obtain ⟨h1, h2, h3, h4⟩ := h
  cases c
  simp only [content] at h1 h2 h3 h4
  simp [xCell, hx _ h1, hx _ h2, legalO_map x hx _ h3, legalO_map x hx _ h4]

theorem map_id_of {α} (f : α → α) (l : List α) (h : ∀ a ∈ l, f a = a) : l.map f = l := by
  induction l with
  | nil => rfl
  | cons a t ih => simp [h a (by simp), ih (fun b hb => h b (by simp [hb]))]

/-- every cell of a saved row is a cell of the row before the trim -/
theorem trimRowOne'_cells_mem (row : Row) (c : Cell) (h : c ∈ (trimRowOne' row).cells) : c ∈ row.cells := by
  unfold trimRowOne' at h
  dsimp only at h
  split at h
  · exact (trimCell_sublist row.cells).subset h
  · exact h

theorem legal_of_abs (rows : List Row) (hl : ∀ i j, LegalContent (Grid.abs rows i j))
    (i : Nat) (hi : i < rows.length) (c : Cell) (hc : c ∈ rows[i].cells) : LegalContent (content c) := by
  obtain ⟨j, hj, rfl⟩ := List.getElem_of_mem hc
  have := hl i j
  unfold Grid.abs at this
  rw [List.getElem?_eq_getElem hi] at this
  simp only [List.getElem?_eq_getElem hj] at this
  exact this

theorem wire_rows_trim (x : List Char → List Char) (hx : ∀ t, LegalS t → x t = t) (rows : List Row)
    (hl : ∀ i j, LegalContent (Grid.abs rows i j)) : (trimRow rows).map (xRow x) = trimRow rows := by
  apply map_id_of
  intro r hr
  rw [trimRow_eq_map] at hr
  obtain ⟨i, hi, rfl⟩ := List.getElem_of_mem hr
  simp only [List.length_map] at hi
  simp only [List.getElem_map]
  unfold xRow
  have : (trimRowOne' rows[i]).cells.map (xCell x) = (trimRowOne' rows[i]).cells := by
    apply map_id_of
    intro c hc
    exact xCell_legal x hx c (legal_of_abs rows hl i hi c (trimRowOne'_cells_mem _ c hc))
  rw [this]

/-- one worksheet through save, the XML layer and open -/
theorem cycle_sheet (x : List Char → List Char) (hx : ∀ t, LegalS t → x t = t) (s : Sheet) (h : SheetInv s) :
    ∃ s', openSheet (wireSheet x (saveSheet s)) = .ok s' ∧ SheetInv s' ∧ SheetEq s' s := by
  obtain ⟨hd, hc, hn, hl⟩ := h
  obtain ⟨hlook, hwf⟩ := SaveCols.mergeCols_wf s.cols hc
  obtain ⟨rows', hcy, hd', habs, hattr⟩ := cycle_dense s.rows hd
  have hw : (trimRow s.rows).map (xRow x) = trimRow s.rows := wire_rows_trim x hx s.rows hl
  refine ⟨{ s with rows := rows', cols := SaveCols.mergeCols s.cols }, ?_, ?_, ?_⟩
  · simp only [openSheet, wireSheet, saveSheet, hw, hx _ hn]
    have : densify (trimRow s.rows) = .ok rows' := hcy
    simp [this, Res.map]
  · exact ⟨hd', hwf, hn, fun i j => by rw [habs i j]; exact hl i j⟩
  · exact ⟨rfl, rfl, habs, hattr, hlook, rfl⟩

theorem cycle_sheets (x : List Char → List Char) (hx : ∀ t, LegalS t → x t = t) (ss : List Sheet)
    (h : ∀ s ∈ ss, SheetInv s) :
    ∃ ss', openSheets ((ss.map saveSheet).map (wireSheet x)) = .ok ss' ∧ (∀ s ∈ ss', SheetInv s) ∧
      SheetsEq ss' ss := by
  induction ss with
  | nil => exact ⟨[], rfl, by simp, trivial⟩
  | cons s ss ih =>
    obtain ⟨s', h1, h2, h3⟩ := cycle_sheet x hx s (h s (by simp))
    obtain ⟨ss', g1, g2, g3⟩ := ih (fun t ht => h t (by simp [ht]))
    refine ⟨s' :: ss', ?_, ?_, ⟨h3, g3⟩⟩
    · simp only [List.map_cons, openSheets, h1, Res.bind, g1, Res.map]
    · intro t ht
      rcases List.mem_cons.mp ht with rfl | ht
      · exact h2
      · exact g2 t ht

/-- **open ∘ save preserves the observation** and the invariant -/
theorem cycle_book (x : List Char → List Char) (hx : ∀ t, LegalS t → x t = t) (b : Book) (h : Inv b) :
    ∃ b', cycleBook x b = .ok b' ∧ Inv b' ∧ ObsEq b' b := by
  obtain ⟨hs, hn, ht⟩ := h
  obtain ⟨ss', g1, g2, g3⟩ := cycle_sheets x hx b.sheets hs
  have hnames : b.names.map (xName x) = b.names := by
    apply map_id_of
    intro d hd
    obtain ⟨a1, a2, a3⟩ := hn d hd
    cases d
    simp only [xName] at *
    simp [hx _ a1, hx _ a2, hx _ a3]
  have hsst : b.sst.map x = b.sst := map_id_of x _ (fun t hm => hx t (ht t hm))
  refine ⟨⟨ss', b.active, b.names, b.sst⟩, ?_, ⟨g2, hn, ht⟩, ⟨g3, rfl, rfl, rfl⟩⟩
  simp only [cycleBook, openBook, wireBook, saveBook, g1, Res.map, hnames, hsst]

theorem sheetEq_trans {a b c : Sheet} (h1 : SheetEq a b) (h2 : SheetEq b c) : SheetEq a c := by
  obtain ⟨a1, a2, a3, a4, a5, a6⟩ := h1
  obtain ⟨b1, b2, b3, b4, b5, b6⟩ := h2
  exact ⟨a1.trans b1, a2.trans b2, fun i j => (a3 i j).trans (b3 i j), a4.trans b4,
    fun c => (a5 c).trans (b5 c), a6.trans b6⟩

theorem sheetsEq_trans : ∀ {a b c : List Sheet}, SheetsEq a b → SheetsEq b c → SheetsEq a c
  | [], [], [], _, _ => trivial
  | _ :: _, _ :: _, _ :: _, h1, h2 => ⟨sheetEq_trans h1.1 h2.1, sheetsEq_trans h1.2 h2.2⟩
  | [], [], _ :: _, _, h2 => h2.elim
  | [], _ :: _, _, h1, _ => h1.elim
  | _ :: _, [], _, h1, _ => h1.elim
  | _ :: _, _ :: _, [], _, h2 => h2.elim

theorem obsEq_trans {a b c : Book} (h1 : ObsEq a b) (h2 : ObsEq b c) : ObsEq a c :=
  ⟨sheetsEq_trans h1.1 h2.1, h1.2.1.trans h2.2.1, h1.2.2.1.trans h2.2.2.1, h1.2.2.2.trans h2.2.2.2⟩

theorem legalContent_none : LegalContent noContent :=
  ⟨(by intro c hc; cases hc), (by intro c hc; cases hc), trivial, trivial⟩

/-- content legality of a grid from the legality of its cells -/
theorem legal_abs_of_cells (rows : List Row)
    (h : ∀ r ∈ rows, ∀ c ∈ r.cells, LegalContent (content c)) : ∀ i j, LegalContent (Grid.abs rows i j) := by
  intro i j
  unfold Grid.abs
  cases hi : rows[i]? with
  | none => exact legalContent_none
  | some r =>
    simp only
    cases hj : r.cells[j]? with
    | none => exact legalContent_none
    | some c => exact h r (List.mem_of_getElem? hi) c (List.mem_of_getElem? hj)

end XlModel.SaveBook
