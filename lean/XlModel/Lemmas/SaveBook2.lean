/-
Helper lemmas for the workbook-level model (C01), second part: writing a cell (`prepareSheetXML`,
`fillColumns`, setter) keeps a worksheet dense and changes exactly the written position.
-/
import XlModel.Lemmas.SaveBook
namespace XlModel.SaveBook
open XlModel XlModel.Grid

theorem extendRows_length (rows : List Row) (n : Nat) : (extendRows rows n).length = max rows.length n := by
  simp [extendRows]; omega

theorem extendRows_get (rows : List Row) (n i : Nat) :
    (extendRows rows n)[i]? = if i < rows.length then rows[i]? else if i < n then some (newRow i) else none := by
  unfold extendRows
  by_cases h : i < rows.length
  · simp [h, List.getElem?_append_left h]
  · simp only [h, if_false]
    rw [List.getElem?_append_right (by omega)]
    by_cases h2 : i < n
    · have : i - rows.length < n - rows.length := by omega
      simp [h2, List.getElem?_map, List.getElem?_range' , this]
      congr 1; omega
    · simp [h2, List.getElem?_map]
      omega

theorem fillCols_get (i : Nat) (cells : List Cell) (n j : Nat) :
    (fillCols i cells n)[j]? =
      if j < cells.length then cells[j]? else if j < n then some (blank (refOf j i)) else none := by
  unfold fillCols
  by_cases h : j < cells.length
  · simp [h, List.getElem?_append_left h]
  · simp only [h, if_false]
    rw [List.getElem?_append_right (by omega)]
    by_cases h2 : j < n
    · have : j - cells.length < n - cells.length := by omega
      simp [h2, List.getElem?_map, List.getElem?_range', this]
      congr 2; omega
    · simp [h2, List.getElem?_map]
      omega

theorem dense_iff (rows : List Row) :
    Dense rows ↔ rows.length ≤ Facts.TotalRows ∧ ∀ i r, rows[i]? = some r → r.r = i + 1 ∧ DenseRow i r.cells := by
  constructor
  · intro h
    refine ⟨h.1, fun i r hr => ?_⟩
    obtain ⟨hi, rfl⟩ := List.getElem?_eq_some_iff.mp hr
    exact h.2 i hi
  · intro h
    exact ⟨h.1, fun i hi => h.2 i _ (List.getElem?_eq_getElem hi)⟩

theorem denseRow_iff (i : Nat) (cells : List Cell) :
    DenseRow i cells ↔ cells.length ≤ Facts.MaxColumns ∧
      ∀ j c, cells[j]? = some c → c.ref = refOf j i ∧ (hasValue c = false → c.is = none) := by
  constructor
  · intro h
    refine ⟨h.1, fun j c hc => ?_⟩
    obtain ⟨hj, rfl⟩ := List.getElem?_eq_some_iff.mp hc
    exact h.2 j hj
  · intro h
    exact ⟨h.1, fun j hj => h.2 j _ (List.getElem?_eq_getElem hj)⟩

theorem hasValue_blank (r : List Char) : hasValue (blank r) = false := by
  rw [hasValue_eq]; rfl

/-- **inv_step (cell writes)**: writing any payload to any cell inside the grid keeps the worksheet dense,
provided the setter never leaves an inline string on a cell without value (every setter sets a type
together with `IS`). -/
theorem writeCell_dense (rows : List Row) (i j : Nat) (upd : Content → Content) (h : Dense rows)
    (hi : i < Facts.TotalRows) (hj : j < Facts.MaxColumns)
    (hu : ∀ k r, hasValue (⟨r, (upd k).s, (upd k).t, (upd k).v, (upd k).f, (upd k).is⟩ : Cell) = false → (upd k).is = none) :
    Dense (writeCell rows i j upd) := by
  have hext : Dense (extendRows rows (i + 1)) := by
    rw [dense_iff] at h ⊢
    refine ⟨by rw [extendRows_length]; omega, fun a r hr => ?_⟩
    rw [extendRows_get] at hr
    split at hr
    · exact h.2 a r hr
    · split at hr
      · cases hr
        exact ⟨rfl, by simp [newRow, DenseRow]⟩
      · cases hr
  unfold writeCell
  simp only
  cases hr : (extendRows rows (i + 1))[i]? with
  | none => exact hext
  | some r =>
    simp only
    have hri := ((dense_iff _).mp hext).2 i r hr
    have hfill : DenseRow i (fillCols i r.cells (j + 1)) := by
      rw [denseRow_iff] at hri ⊢
      obtain ⟨_, hl, hc⟩ := hri
      refine ⟨by simp [fillCols]; omega, fun a c hca => ?_⟩
      rw [fillCols_get] at hca
      split at hca
      · exact hc a c hca
      · split at hca
        · cases hca
          exact ⟨rfl, fun _ => rfl⟩
        · cases hca
    cases hc : (fillCols i r.cells (j + 1))[j]? with
    | none => exact hext
    | some c =>
      simp only
      have hcj := ((denseRow_iff _ _).mp hfill).2 j c hc
      rw [dense_iff]
      refine ⟨by simp only [List.length_set]; exact hext.1, fun a r' hr' => ?_⟩
      rw [List.getElem?_set] at hr'
      split at hr'
      · rename_i hia
        split at hr'
        · cases hr'
          subst hia
          refine ⟨hri.1, ?_⟩
          rw [denseRow_iff]
          refine ⟨by simp only [List.length_set]; exact hfill.1, fun b c' hc' => ?_⟩
          rw [List.getElem?_set] at hc'
          split at hc'
          · rename_i hjb
            split at hc'
            · cases hc'
              subst hjb
              exact ⟨hcj.1, hu (content c) c.ref⟩
            · cases hc'
          · exact ((denseRow_iff _ _).mp hfill).2 b c' hc'
        · cases hr'
      · exact ((dense_iff _).mp hext).2 a r' hr'

theorem abs_eq_cAt (rows : List Row) (a b : Nat) :
    Grid.abs rows a b = match rows[a]? with | none => noContent | some r => cAt r.cells b := by
  unfold Grid.abs cAt
  cases rows[a]? with
  | none => rfl
  | some r =>
    simp only
    cases h : r.cells[b]? <;> simp

theorem cAt_fillCols (i : Nat) (cells : List Cell) (n b : Nat) : cAt (fillCols i cells n) b = cAt cells b := by
  unfold cAt
  rw [fillCols_get]
  by_cases h : b < cells.length
  · simp [h]
  · rw [List.getElem?_eq_none (by omega)]
    by_cases h2 : b < n <;> simp [h, h2, content_blank]

theorem abs_extendRows (rows : List Row) (n a b : Nat) : Grid.abs (extendRows rows n) a b = Grid.abs rows a b := by
  rw [abs_eq_cAt, abs_eq_cAt, extendRows_get]
  by_cases h : a < rows.length
  · simp [h]
  · rw [List.getElem?_eq_none (by omega)]
    by_cases h2 : a < n <;> simp [h, h2, newRow, cAt]

theorem cAt_set (cells : List Cell) (j b : Nat) (c : Cell) (hj : j < cells.length) :
    cAt (cells.set j c) b = if b = j then content c else cAt cells b := by
  unfold cAt
  rw [List.getElem?_set]
  by_cases h : j = b
  · subst h; simp [hj]
  · have : ¬ b = j := fun e => h e.symm
    simp [h, this]

/-- **last writer wins**: after the write, the written position shows the updated payload and every other
position of the whole grid is unchanged -/
theorem writeCell_abs (rows : List Row) (i j : Nat) (upd : Content → Content) (a b : Nat) :
    Grid.abs (writeCell rows i j upd) a b =
      if a = i ∧ b = j then upd (Grid.abs rows i j) else Grid.abs rows a b := by
  unfold writeCell
  simp only
  have hlen : i < (extendRows rows (i + 1)).length := by rw [extendRows_length]; omega
  rw [List.getElem?_eq_getElem hlen]
  simp only
  have hflen : j < (fillCols i (extendRows rows (i + 1))[i].cells (j + 1)).length := by
    simp [fillCols]; omega
  rw [List.getElem?_eq_getElem hflen]
  simp only
  rw [abs_eq_cAt, List.getElem?_set]
  have hold : Grid.abs rows i j = cAt (extendRows rows (i + 1))[i].cells j := by
    rw [← abs_extendRows rows (i + 1) i j, abs_eq_cAt, List.getElem?_eq_getElem hlen]
  by_cases ha : i = a
  · subst ha
    simp only [hlen, if_true]
    rw [cAt_set _ _ _ _ hflen]
    by_cases hb : b = j
    · subst hb
      have hc : content (fillCols i (extendRows rows (i + 1))[i].cells (b + 1))[b] =
          cAt (extendRows rows (i + 1))[i].cells b := by
        rw [← cAt_fillCols i _ (b + 1) b]
        unfold cAt
        rw [List.getElem?_eq_getElem hflen]; rfl
      simp [updCell, content, hold, ← hc]
    · simp only [hb, and_false, if_false, cAt_fillCols]
      rw [← abs_extendRows rows (i + 1) i b, abs_eq_cAt, List.getElem?_eq_getElem hlen]
  · have : ¬ (a = i ∧ b = j) := fun h => ha h.1.symm
    simp only [ha, if_false, this]
    rw [← abs_extendRows rows (i + 1) a b, abs_eq_cAt]

end XlModel.SaveBook
