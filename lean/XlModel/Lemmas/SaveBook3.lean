/-
Helper lemmas for the workbook-level model (C01), third part: the row-attribute setters keep a worksheet
dense and leave every cell position unchanged.
-/
import XlModel.Lemmas.SaveBook2
namespace XlModel.SaveBook
open XlModel XlModel.Grid



theorem dense_extendRows (rows : List Row) (n : Nat) (h : Dense rows) (hn : n ≤ Facts.TotalRows) :
    Dense (extendRows rows n) := by
  rw [dense_iff] at h ⊢
  refine ⟨by rw [extendRows_length]; omega, fun a r hr => ?_⟩
  rw [extendRows_get] at hr
  split at hr
  · exact h.2 a r hr
  · split at hr
    · cases hr
      exact ⟨rfl, by simp [newRow, DenseRow]⟩
    · cases hr

theorem denseRow_fillCols (i : Nat) (cells : List Cell) (n : Nat) (h : DenseRow i cells)
    (hn : n ≤ Facts.MaxColumns) : DenseRow i (fillCols i cells n) := by
  rw [denseRow_iff] at h ⊢
  obtain ⟨hl, hc⟩ := h
  refine ⟨by simp [fillCols]; omega, fun a c hca => ?_⟩
  rw [fillCols_get] at hca
  split at hca
  · exact hc a c hca
  · split at hca
    · cases hca
      exact ⟨rfl, fun _ => rfl⟩
    · cases hca

/-- **inv_step (row-attribute setters)**: the worksheet stays dense, the content of every position is
unchanged, and only row slot `i`'s attributes change -/
theorem writeRowAttr_dense (rows : List Row) (i : Nat) (f : Attrs → Attrs) (h : Dense rows)
    (hi : i < Facts.TotalRows) : Dense (writeRowAttr rows i f) := by
  have hext := dense_extendRows rows (i + 1) h (by omega)
  unfold writeRowAttr
  simp only
  cases hr : (extendRows rows (i + 1))[i]? with
  | none => exact hext
  | some r =>
    simp only
    have hri := ((dense_iff _).mp hext).2 i r hr
    rw [dense_iff]
    refine ⟨by simp only [List.length_set]; exact hext.1, fun a r' hr' => ?_⟩
    rw [List.getElem?_set] at hr'
    split at hr'
    · rename_i hia
      split at hr'
      · cases hr'
        subst hia
        exact ⟨hri.1, denseRow_fillCols i r.cells 0 hri.2 (Nat.zero_le _)⟩
      · cases hr'
    · exact ((dense_iff _).mp hext).2 a r' hr'

theorem writeRowAttr_abs (rows : List Row) (i : Nat) (f : Attrs → Attrs) (a b : Nat) :
    Grid.abs (writeRowAttr rows i f) a b = Grid.abs rows a b := by
  unfold writeRowAttr
  simp only
  have hlen : i < (extendRows rows (i + 1)).length := by rw [extendRows_length]; omega
  rw [List.getElem?_eq_getElem hlen]
  simp only
  rw [abs_eq_cAt, List.getElem?_set]
  by_cases ha : i = a
  · subst ha
    simp only [hlen, if_true, cAt_fillCols]
    rw [← abs_extendRows rows (i + 1) i b, abs_eq_cAt, List.getElem?_eq_getElem hlen]
  · simp only [ha, if_false]
    rw [← abs_extendRows rows (i + 1) a b, abs_eq_cAt]

end XlModel.SaveBook
