/-
Helper lemmas for the workbook-level model (C01), fourth part: a cell write whose setter is only known to
behave on the *current* content of the cell (style changes), and `SetCellStyle` over a rectangle.
-/
import XlModel.Lemmas.SaveBook3
namespace XlModel.SaveBook
open XlModel XlModel.Grid

/-- the prepared cell's content is the content observed at that position before the write -/
theorem prepared_content (rows : List Row) (i j : Nat)
    (hlen : i < (extendRows rows (i + 1)).length)
    (hflen : j < (fillCols i (extendRows rows (i + 1))[i].cells (j + 1)).length) :
    content (fillCols i (extendRows rows (i + 1))[i].cells (j + 1))[j] = Grid.abs rows i j := by
  have h1 : Grid.abs rows i j = cAt (extendRows rows (i + 1))[i].cells j := by
    rw [← abs_extendRows rows (i + 1) i j, abs_eq_cAt, List.getElem?_eq_getElem hlen]
  rw [h1, ← cAt_fillCols i _ (j + 1) j]
  unfold cAt
  rw [List.getElem?_eq_getElem hflen]; rfl

/-- `writeCell_dense` with the condition on the setter restricted to the content actually found -/
theorem writeCell_dense' (rows : List Row) (i j : Nat) (upd : Content → Content) (h : Dense rows)
    (hi : i < Facts.TotalRows) (hj : j < Facts.MaxColumns)
    (hu : ∀ r, hasValue (⟨r, (upd (Grid.abs rows i j)).s, (upd (Grid.abs rows i j)).t, (upd (Grid.abs rows i j)).v,
      (upd (Grid.abs rows i j)).f, (upd (Grid.abs rows i j)).is⟩ : Cell) = false → (upd (Grid.abs rows i j)).is = none) :
    Dense (writeCell rows i j upd) := by
  have hext := dense_extendRows rows (i + 1) h (by omega)
  have hlen : i < (extendRows rows (i + 1)).length := by rw [extendRows_length]; omega
  have hflen : j < (fillCols i (extendRows rows (i + 1))[i].cells (j + 1)).length := by
    simp [fillCols]; omega
  have hpc := prepared_content rows i j hlen hflen
  unfold writeCell
  simp only
  rw [List.getElem?_eq_getElem hlen]
  simp only
  rw [List.getElem?_eq_getElem hflen]
  simp only
  have hri := hext.2 i hlen
  have hfill := denseRow_fillCols i (extendRows rows (i + 1))[i].cells (j + 1) hri.2 (by omega)
  have hcj := hfill.2 j hflen
  rw [dense_iff]
  refine ⟨by simp only [List.length_set]; exact hext.1, fun a r' hr' => ?_⟩
  rw [List.getElem?_set] at hr'
  by_cases hia : i = a
  · subst hia
    simp only [hlen, if_true, Option.some.injEq] at hr'
    subst hr'
    refine ⟨hri.1, ?_⟩
    rw [denseRow_iff]
    refine ⟨by simp only [List.length_set]; exact hfill.1, fun b c' hc' => ?_⟩
    rw [List.getElem?_set] at hc'
    by_cases hjb : j = b
    · subst hjb
      simp only [hflen, if_true, Option.some.injEq] at hc'
      subst hc'
      refine ⟨hcj.1, ?_⟩
      simp only [updCell, hpc]
      exact hu _
    · simp only [hjb, if_false] at hc'
      exact ((denseRow_iff _ _).mp hfill).2 b c' hc'
  · simp only [hia, if_false] at hr'
    exact ((dense_iff _).mp hext).2 a r' hr'

theorem setStyle_ok (st : Nat) (k : Content) (hk : CellInv k) (r : List Char) :
    hasValue (⟨r, (setStyle st k).s, (setStyle st k).t, (setStyle st k).v, (setStyle st k).f, (setStyle st k).is⟩ : Cell) = false →
      (setStyle st k).is = none := by
  intro hv
  rw [hasValue_eq] at hv
  simp only [setStyle, Bool.or_eq_false_iff, bne_eq_false_iff_eq, Option.isSome_eq_false_iff,
    Option.isNone_iff_eq_none] at hv
  obtain ⟨⟨⟨_, h2⟩, h3⟩, h4⟩ := hv
  cases his : k.is with
  | none => simp [setStyle, his]
  | some x =>
    exfalso
    have := hk (by simp [his])
    rcases this with h | h | h
    · exact h h2
    · simp [h3] at h
    · exact h h4

/-- one styled cell: dense, the cell invariant holds, only the style id of that position changed -/
theorem style_step (rows : List Row) (i j st : Nat) (h : Dense rows) (hg : GridInv rows)
    (hi : i < Facts.TotalRows) (hj : j < Facts.MaxColumns) :
    Dense (writeCell rows i j (setStyle st)) ∧ GridInv (writeCell rows i j (setStyle st)) ∧
      ∀ a b, eraseS (Grid.abs (writeCell rows i j (setStyle st)) a b) = eraseS (Grid.abs rows a b) := by
  refine ⟨writeCell_dense' rows i j _ h hi hj (setStyle_ok st _ (hg i j)), ?_, ?_⟩
  · intro a b
    rw [writeCell_abs]
    split
    · exact hg i j
    · exact hg a b
  · intro a b
    rw [writeCell_abs]
    split
    · rename_i hab; rw [hab.1, hab.2]; rfl
    · rfl

theorem style_fold (ps : List (Nat × Nat)) (rows : List Row) (st : Nat) (h : Dense rows) (hg : GridInv rows)
    (hp : ∀ p ∈ ps, p.1 < Facts.TotalRows ∧ p.2 < Facts.MaxColumns) :
    Dense (ps.foldl (fun rs p => writeCell rs p.1 p.2 (setStyle st)) rows) ∧
    GridInv (ps.foldl (fun rs p => writeCell rs p.1 p.2 (setStyle st)) rows) ∧
    ∀ a b, eraseS (Grid.abs (ps.foldl (fun rs p => writeCell rs p.1 p.2 (setStyle st)) rows) a b) =
      eraseS (Grid.abs rows a b) := by
  induction ps generalizing rows with
  | nil => exact ⟨h, hg, fun _ _ => rfl⟩
  | cons p ps ih =>
    obtain ⟨h1, h2, h3⟩ := style_step rows p.1 p.2 st h hg (hp p (by simp)).1 (hp p (by simp)).2
    obtain ⟨g1, g2, g3⟩ := ih _ h1 h2 (fun q hq => hp q (by simp [hq]))
    exact ⟨g1, g2, fun a b => (g3 a b).trans (h3 a b)⟩

theorem positions_bound (i1 j1 i2 j2 : Nat) (hi : i2 < Facts.TotalRows) (hj : j2 < Facts.MaxColumns) :
    ∀ p ∈ positions i1 j1 i2 j2, p.1 < Facts.TotalRows ∧ p.2 < Facts.MaxColumns := by
  intro p hp
  simp only [positions, List.mem_flatMap, List.mem_map] at hp
  obtain ⟨i, hi', j, hj', rfl⟩ := hp
  have a := List.mem_range'_1.mp hi'
  have b := List.mem_range'_1.mp hj'
  constructor <;> simp only <;> omega

end XlModel.SaveBook
