/-
Helper lemmas for the column-definition path (C01): merging a flat, sorted `<cols>` list on save does
not change the attributes any column resolves to (induction over the list, run invariant).
-/
import XlModel.SaveCols
namespace XlModel.SaveCols

theorem look_cons (e : Col) (es : List Col) (c : Nat) :
    look (e :: es) c = if e.min ≤ c ∧ c ≤ e.max then some e.a else look es c := by
  unfold look
  by_cases h : e.min ≤ c ∧ c ≤ e.max
  · simp [List.find?_cons, h]
  · have : (decide (e.min ≤ c) && decide (c ≤ e.max)) = false := by
      simp only [Bool.and_eq_false_iff, decide_eq_false_iff_not]; omega
    simp [List.find?_cons, this, h]

theorem look_none_below (lo : Nat) (es : List Col) (h : FlatFrom lo es) (c : Nat) (hc : c ≤ lo) :
    look es c = none := by
  induction es generalizing lo with
  | nil => rfl
  | cons e es ih =>
    obtain ⟨h1, h2, h3⟩ := h
    rw [look_cons]
    have : ¬ (e.min ≤ c ∧ c ≤ e.max) := by omega
    simp only [this, if_false]
    exact ih e.min h3 (by omega)

/-- the run `left … prev` covers `left.min … prev.min` with `left`'s attributes; the rest follows -/
theorem look_mergeGo (left prev : Col) (multi : Bool) (rest : List Col) (c : Nat)
    (hle : left.min ≤ prev.min) (hpa : prev.a = left.a) (hpf : prev.max = prev.min)
    (hm : multi = false → left = prev) (hr : FlatFrom prev.min rest) :
    look (mergeGo left prev multi rest) c =
      if left.min ≤ c ∧ c ≤ prev.min then some left.a else look rest c := by
  induction rest generalizing left prev multi with
  | nil =>
    simp only [mergeGo, look_cons]
    cases multi with
    | true => simp [close, look]
    | false =>
      have := hm rfl
      subst this
      simp [close, look, hpf]
  | cons b rest ih =>
    obtain ⟨hb1, hb2, hb3⟩ := hr
    simp only [mergeGo]
    by_cases ha : adj prev b = true
    · simp only [ha, if_true]
      simp only [adj, Bool.and_eq_true, beq_iff_eq] at ha
      obtain ⟨⟨ha1, _⟩, ha3⟩ := ha
      rw [ih left b true (by omega) (by rw [ha3, hpa]) hb2 (by intro h; cases h) hb3, look_cons]
      by_cases hc1 : left.min ≤ c ∧ c ≤ prev.min
      · have : left.min ≤ c ∧ c ≤ b.min := by omega
        simp [hc1, this]
      · by_cases hc2 : c = b.min
        · have h1 : left.min ≤ c ∧ c ≤ b.min := by omega
          have h2 : b.min ≤ c ∧ c ≤ b.max := by omega
          simp [hc1, h1, h2, ha3, hpa]
        · have h1 : ¬ (left.min ≤ c ∧ c ≤ b.min) := by omega
          have h2 : ¬ (b.min ≤ c ∧ c ≤ b.max) := by omega
          simp [hc1, h1, h2]
    · have ha' : adj prev b = false := by simpa using ha
      simp only [ha', Bool.false_eq_true, if_false]
      rw [look_cons, ih b b false (Nat.le_refl _) rfl hb2 (fun _ => rfl) hb3, look_cons]
      have hcl : (close left prev multi).min = left.min ∧ (close left prev multi).max = prev.min ∧
          (close left prev multi).a = left.a := by
        cases multi with
        | true => simp [close]
        | false => have := hm rfl; subst this; simp [close, hpf]
      rw [hcl.1, hcl.2.1, hcl.2.2]
      by_cases hc1 : left.min ≤ c ∧ c ≤ prev.min
      · simp [hc1]
      · have : (b.min ≤ c ∧ c ≤ b.min) ↔ (b.min ≤ c ∧ c ≤ b.max) := by omega
        simp only [hc1, if_false]
        by_cases hc2 : b.min ≤ c ∧ c ≤ b.min
        · simp [hc2, this.mp hc2]
        · have h3 : ¬ (b.min ≤ c ∧ c ≤ b.max) := fun h => hc2 (this.mpr h)
          simp [hc2, h3]

/-- merging a flat, sorted column list does not change what any column resolves to -/
theorem look_mergeSorted (lo : Nat) (l : List Col) (h : FlatFrom lo l) (c : Nat) :
    look (mergeSorted l) c = look l c := by
  cases l with
  | nil => rfl
  | cons a rest =>
    obtain ⟨_, h2, h3⟩ := h
    simp only [mergeSorted]
    rw [look_mergeGo a a false rest c (Nat.le_refl _) rfl h2 (fun _ => rfl) h3, look_cons]
    have : (a.min ≤ c ∧ c ≤ a.min) ↔ (a.min ≤ c ∧ c ≤ a.max) := by omega
    by_cases hc : a.min ≤ c ∧ c ≤ a.min
    · simp [hc, this.mp hc]
    · have h3 : ¬ (a.min ≤ c ∧ c ≤ a.max) := fun h => hc (this.mpr h)
      simp [hc, h3]

theorem insert_flat (lo : Nat) (c : Col) (l : List Col) (hl : FlatFrom c.min l) (h1 : lo < c.min) (h2 : c.max = c.min) :
    insert c l = c :: l := by
  cases l with
  | nil => rfl
  | cons d ds => simp [insert, hl.1]

/-- a flat, sorted list is a fixed point of the sort -/
theorem sortCols_flat (lo : Nat) (l : List Col) (h : FlatFrom lo l) : sortCols l = l := by
  induction l generalizing lo with
  | nil => rfl
  | cons c cs ih =>
    obtain ⟨h1, h2, h3⟩ := h
    simp only [sortCols, ih c.min h3]
    exact insert_flat lo c cs h3 h1 h2

end XlModel.SaveCols
