/-
Helper lemmas for the column-definition path (C01), second part: the same preservation result for sorted,
pairwise disjoint column *ranges* (what a reopened file holds), and closure of that shape under the merge —
needed for the second save/open cycle.
-/
import XlModel.Lemmas.SaveCols
namespace XlModel.SaveCols

theorem ranges_of_flat (lo : Nat) (l : List Col) (h : FlatFrom lo l) : RangesFrom lo l := by
  induction l generalizing lo with
  | nil => trivial
  | cons e es ih =>
    obtain ⟨h1, h2, h3⟩ := h
    exact ⟨h1, by omega, by rw [h2]; exact ih _ h3⟩

/-- upper end of the run's output entry -/
def runHi (left prev : Col) (multi : Bool) : Nat := if multi then prev.min else left.max

theorem close_fields (left prev : Col) (multi : Bool) :
    (close left prev multi).min = left.min ∧ (close left prev multi).max = runHi left prev multi ∧
      (close left prev multi).a = left.a := by
  cases multi <;> simp [close, runHi]

theorem adj_single {left prev b : Col} {multi : Bool}
    (hs : multi = true → prev.max = prev.min) (hm : multi = false → left = prev) (hlr : left.min ≤ left.max)
    (hb1 : prev.max < b.min) (ha : adj prev b = true) :
    prev.max = prev.min ∧ b.max = b.min ∧ b.min = prev.min + 1 ∧ b.a = prev.a := by
  simp only [adj, Bool.and_eq_true, beq_iff_eq] at ha
  obtain ⟨⟨ha1, ha2⟩, ha3⟩ := ha
  have hp : prev.min ≤ prev.max := by
    cases multi with
    | true => have := hs rfl; omega
    | false => have := hm rfl; subst this; exact hlr
  exact ⟨by omega, by omega, ha1, ha3⟩

theorem look_mergeGo_ranges (left prev : Col) (multi : Bool) (rest : List Col) (c : Nat)
    (hle : left.min ≤ prev.min) (hpa : prev.a = left.a) (hs : multi = true → prev.max = prev.min)
    (hm : multi = false → left = prev) (hlr : left.min ≤ left.max) (hr : RangesFrom prev.max rest) :
    look (mergeGo left prev multi rest) c =
      if left.min ≤ c ∧ c ≤ runHi left prev multi then some left.a else look rest c := by
  induction rest generalizing left prev multi with
  | nil =>
    obtain ⟨c1, c2, c3⟩ := close_fields left prev multi
    simp only [mergeGo, look_cons, c1, c2, c3]
    try simp [look]
  | cons b rest ih =>
    obtain ⟨hb1, hb2, hb3⟩ := hr
    simp only [mergeGo]
    by_cases ha : adj prev b = true
    · obtain ⟨hp, hbs, hbm, hba⟩ := adj_single hs hm hlr hb1 ha
      have hhi : runHi left prev multi = prev.min := by
        cases multi with
        | true => rfl
        | false => have := hm rfl; subst this; simp [runHi, hp]
      simp only [ha, if_true]
      rw [ih left b true (by omega) (by rw [hba, hpa]) (fun _ => hbs) (by intro h; cases h) hlr hb3, look_cons, hhi]
      have hr2 : runHi left b true = b.min := rfl
      rw [hr2]
      by_cases hc1 : left.min ≤ c ∧ c ≤ prev.min
      · have : left.min ≤ c ∧ c ≤ b.min := by omega
        simp [hc1, this]
      · by_cases hc2 : c = b.min
        · have h1 : left.min ≤ c ∧ c ≤ b.min := by omega
          have h2 : b.min ≤ c ∧ c ≤ b.max := by omega
          simp [hc1, h1, h2, hba, hpa]
        · have h1 : ¬ (left.min ≤ c ∧ c ≤ b.min) := by omega
          have h2 : ¬ (b.min ≤ c ∧ c ≤ b.max) := by omega
          simp [hc1, h1, h2]
    · have ha' : adj prev b = false := by simpa using ha
      obtain ⟨c1, c2, c3⟩ := close_fields left prev multi
      simp only [ha', Bool.false_eq_true, if_false]
      rw [look_cons, ih b b false (Nat.le_refl _) rfl (by intro h; cases h) (fun _ => rfl) hb2 hb3, look_cons, c1, c2, c3]
      have : runHi b b false = b.max := rfl
      rw [this]

theorem ranges_mergeGo (lo : Nat) (left prev : Col) (multi : Bool) (rest : List Col)
    (hlo : lo < left.min) (hle : left.min ≤ prev.min) (hs : multi = true → prev.max = prev.min)
    (hm : multi = false → left = prev) (hlr : left.min ≤ left.max) (hr : RangesFrom prev.max rest) :
    RangesFrom lo (mergeGo left prev multi rest) := by
  induction rest generalizing lo left prev multi with
  | nil =>
    obtain ⟨c1, c2, _⟩ := close_fields left prev multi
    refine ⟨by rw [c1]; exact hlo, ?_, trivial⟩
    rw [c1, c2]
    cases multi with
    | true => simpa [runHi] using hle
    | false => simpa [runHi] using hlr
  | cons b rest ih =>
    obtain ⟨hb1, hb2, hb3⟩ := hr
    simp only [mergeGo]
    by_cases ha : adj prev b = true
    · obtain ⟨hp, hbs, hbm, hba⟩ := adj_single hs hm hlr hb1 ha
      simp only [ha, if_true]
      exact ih lo left b true hlo (by omega) (fun _ => hbs) (by intro h; cases h) hlr hb3
    · have ha' : adj prev b = false := by simpa using ha
      obtain ⟨c1, c2, _⟩ := close_fields left prev multi
      simp only [ha', Bool.false_eq_true, if_false]
      have hhi : runHi left prev multi ≤ prev.max ∧ left.min ≤ runHi left prev multi := by
        cases multi with
        | true => have := hs rfl; simp only [runHi, if_true]; omega
        | false => have := hm rfl; subst this; simp only [runHi, Bool.false_eq_true, if_false]; omega
      refine ⟨by rw [c1]; exact hlo, by rw [c1, c2]; exact hhi.2, ?_⟩
      rw [c2]
      exact ih _ b b false (by omega) (Nat.le_refl _) (by intro h; cases h) (fun _ => rfl) hb2 hb3

theorem look_mergeSorted_ranges (lo : Nat) (l : List Col) (h : RangesFrom lo l) (c : Nat) :
    look (mergeSorted l) c = look l c := by
  cases l with
  | nil => rfl
  | cons a rest =>
    obtain ⟨_, h2, h3⟩ := h
    simp only [mergeSorted]
    rw [look_mergeGo_ranges a a false rest c (Nat.le_refl _) rfl (by intro h; cases h) (fun _ => rfl) h2 h3, look_cons]
    rfl

theorem ranges_mergeSorted (lo : Nat) (l : List Col) (h : RangesFrom lo l) : RangesFrom lo (mergeSorted l) := by
  cases l with
  | nil => trivial
  | cons a rest =>
    obtain ⟨h1, h2, h3⟩ := h
    exact ranges_mergeGo lo a a false rest h1 (Nat.le_refl _) (by intro h; cases h) (fun _ => rfl) h2 h3

theorem sortCols_ranges (lo : Nat) (l : List Col) (h : RangesFrom lo l) : sortCols l = l := by
  induction l generalizing lo with
  | nil => rfl
  | cons c cs ih =>
    obtain ⟨h1, h2, h3⟩ := h
    simp only [sortCols, ih c.max h3]
    cases cs with
    | nil => rfl
    | cons d ds =>
      have : c.min < d.min := by have := h3.1; omega
      simp [insert, this]

end XlModel.SaveCols
