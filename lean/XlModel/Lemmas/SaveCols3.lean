/-
Helper lemmas for the column-definition path (C01), third part: the in-memory `<cols>` list is not
sorted (`flatCols` appends); for well-formed, pairwise non-overlapping ranges in any order the sort does
not change what a column resolves to and yields sorted disjoint ranges, so the whole `mergeExpandedCols`
preserves the lookup and well-formedness.
-/
import XlModel.Lemmas.SaveCols2
namespace XlModel.SaveCols

theorem mem_insert (c : Col) (l : List Col) (x : Col) : x ∈ insert c l ↔ x = c ∨ x ∈ l := by
  induction l with
  | nil => simp [insert]
  | cons d ds ih =>
    simp only [insert]
    split
    · simp
    · simp only [List.mem_cons, ih]
      constructor
      · rintro (h | h | h)
        · exact Or.inr (Or.inl h)
        · exact Or.inl h
        · exact Or.inr (Or.inr h)
      · rintro (h | h | h)
        · exact Or.inr (Or.inl h)
        · exact Or.inl h
        · exact Or.inr (Or.inr h)

theorem mem_sortCols (l : List Col) (x : Col) : x ∈ sortCols l ↔ x ∈ l := by
  induction l with
  | nil => simp [sortCols]
  | cons c cs ih => simp [sortCols, mem_insert, ih]

/-- inserting a range that overlaps none of the list does not change what any column resolves to -/
theorem look_insert (c : Col) (l : List Col) (hc : c.min ≤ c.max) (hd : ∀ d ∈ l, Disj c d ∧ d.min ≤ d.max)
    (x : Nat) : look (insert c l) x = look (c :: l) x := by
  induction l with
  | nil => rfl
  | cons d ds ih =>
    simp only [insert]
    split
    · rfl
    · obtain ⟨hdj, hdw⟩ := hd d (by simp)
      rw [look_cons, ih (fun e he => hd e (by simp [he])), look_cons, look_cons, look_cons]
      unfold Disj at hdj
      by_cases h1 : d.min ≤ x ∧ x ≤ d.max
      · have h2 : ¬ (c.min ≤ x ∧ x ≤ c.max) := by omega
        simp [h1, h2]
      · simp [h1]

theorem look_sortCols (l : List Col) (h : Wf l) (x : Nat) : look (sortCols l) x = look l x := by
  induction l with
  | nil => rfl
  | cons c cs ih =>
    obtain ⟨hw, hp⟩ := h
    have hp' := List.pairwise_cons.mp hp
    have hcs : Wf cs := ⟨fun e he => hw e (by simp [he]), hp'.2⟩
    simp only [sortCols]
    rw [look_insert c (sortCols cs) (hw c (by simp)).2
      (fun d hd => ⟨hp'.1 d ((mem_sortCols cs d).mp hd), (hw d (by simp [(mem_sortCols cs d).mp hd])).2⟩) x,
      look_cons, look_cons, ih hcs]

theorem ranges_insert (lo : Nat) (c : Col) (l : List Col) (hl : RangesFrom lo l) (hlo : lo < c.min)
    (hc : c.min ≤ c.max) (hd : ∀ d ∈ l, Disj c d) : RangesFrom lo (insert c l) := by
  induction l generalizing lo with
  | nil => exact ⟨hlo, hc, trivial⟩
  | cons d ds ih =>
    obtain ⟨h1, h2, h3⟩ := hl
    have hdj := hd d (by simp)
    unfold Disj at hdj
    simp only [insert]
    split
    · rename_i hlt
      exact ⟨hlo, hc, by omega, h2, h3⟩
    · rename_i hlt
      exact ⟨h1, h2, ih d.max h3 (by omega) (fun e he => hd e (by simp [he]))⟩

/-- after the sort the list is a sequence of sorted, disjoint ranges -/
theorem ranges_sortCols (l : List Col) (h : Wf l) : RangesFrom 0 (sortCols l) := by
  induction l with
  | nil => trivial
  | cons c cs ih =>
    obtain ⟨hw, hp⟩ := h
    have hp' := List.pairwise_cons.mp hp
    have hcs : Wf cs := ⟨fun e he => hw e (by simp [he]), hp'.2⟩
    simp only [sortCols]
    exact ranges_insert 0 c (sortCols cs) (ih hcs) (by have := (hw c (by simp)).1; omega) (hw c (by simp)).2
      (fun d hd => hp'.1 d ((mem_sortCols cs d).mp hd))

theorem ranges_lower (lo : Nat) (l : List Col) (h : RangesFrom lo l) :
    ∀ e ∈ l, lo < e.min ∧ e.min ≤ e.max := by
  induction l generalizing lo with
  | nil => intro e he; cases he
  | cons d ds ih =>
    obtain ⟨h1, h2, h3⟩ := h
    intro e he
    rcases List.mem_cons.mp he with rfl | he
    · exact ⟨h1, h2⟩
    · have := ih d.max h3 e he
      exact ⟨by omega, this.2⟩

/-- sorted disjoint ranges are in particular well-formed and pairwise disjoint -/
theorem wf_of_ranges (lo : Nat) (l : List Col) (h : RangesFrom lo l) : Wf l := by
  induction l generalizing lo with
  | nil => exact ⟨(by intro e he; cases he), List.Pairwise.nil⟩
  | cons d ds ih =>
    obtain ⟨h1, h2, h3⟩ := h
    have hds := ih d.max h3
    refine ⟨?_, List.pairwise_cons.mpr ⟨?_, hds.2⟩⟩
    · intro e he
      rcases List.mem_cons.mp he with rfl | he
      · exact ⟨by omega, h2⟩
      · exact hds.1 e he
    · intro e he
      have := ranges_lower d.max ds h3 e he
      exact Or.inl this.1

/-- `mergeExpandedCols` on what the setters leave: every column resolves to the same attributes, and the
result is well-formed again -/
theorem mergeCols_wf (l : List Col) (h : Wf l) :
    (∀ x, look (mergeCols l) x = look l x) ∧ Wf (mergeCols l) := by
  have hr := ranges_sortCols l h
  unfold mergeCols
  exact ⟨fun x => (look_mergeSorted_ranges 0 _ hr x).trans (look_sortCols l h x),
    wf_of_ranges 0 _ (ranges_mergeSorted 0 _ hr)⟩

end XlModel.SaveCols
