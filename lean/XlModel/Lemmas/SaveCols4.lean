/-
Helper lemmas for the column-definition path (C01), fourth part: `flatCols` (every column setter) leaves
single-column entries inside the sheet with no column twice, hence a well-formed `<cols>` list.
-/
import XlModel.Lemmas.SaveCols3
namespace XlModel.SaveCols



/-- all entries are single columns inside the sheet, no column twice -/
def FS (fc : List Col) : Prop := (∀ e ∈ fc, e.max = e.min ∧ 1 ≤ e.min) ∧ (fc.map (·.min)).Nodup

theorem fs_step (rep : Attrs → Attrs → Attrs) (column : Col) (fc : List Col) (i : Nat) (hi : 1 ≤ i)
    (h : FS fc) : FS (flatStep rep column fc i) := by
  obtain ⟨hs, hn⟩ := h
  unfold flatStep
  cases hf : inFlat i fc with
  | some idx =>
    simp only
    cases he : fc[idx]? with
    | none => exact ⟨hs, hn⟩
    | some e =>
      simp only
      obtain ⟨hidx, rfl⟩ := List.getElem?_eq_some_iff.mp he
      refine ⟨?_, ?_⟩
      · intro x hx
        rcases List.mem_or_eq_of_mem_set hx with hx | rfl
        · exact hs x hx
        · exact hs fc[idx] (List.getElem_mem hidx)
      · have : (fc.set idx { fc[idx] with a := rep fc[idx].a column.a }).map (·.min) = fc.map (·.min) := by
          rw [List.map_set]
          apply List.ext_getElem
          · simp
          · intro n h1 h2
            rw [List.getElem_set]
            split
            · rename_i hh; subst hh; simp
            · rfl
        rw [this]; exact hn
  | none =>
    simp only
    have hnone : ∀ e ∈ fc, e.min ≠ i := by
      intro e he hmin
      have := List.findIdx?_eq_none_iff.mp hf e he
      have hm := (hs e he).1
      simp [hmin, hm] at this
    refine ⟨?_, ?_⟩
    · intro x hx
      rcases List.mem_append.mp hx with hx | hx
      · exact hs x hx
      · simp only [List.mem_singleton] at hx; subst hx; exact ⟨rfl, hi⟩
    · rw [List.map_append, List.nodup_append]
      refine ⟨hn, by simp, ?_⟩
      intro a ha b hb
      simp only [List.map_cons, List.map_nil, List.mem_singleton] at hb
      subst hb
      obtain ⟨e, he, rfl⟩ := List.mem_map.mp ha
      exact hnone e he

theorem fs_foldl_span (rep : Attrs → Attrs → Attrs) (column : Col) (l : List Nat) (fc : List Col)
    (hl : ∀ i ∈ l, 1 ≤ i) (h : FS fc) : FS (l.foldl (flatStep rep column) fc) := by
  induction l generalizing fc with
  | nil => exact h
  | cons i is ih =>
    exact ih _ (fun j hj => hl j (by simp [hj])) (fs_step rep column fc i (hl i (by simp)) h)

theorem span_ge (c : Col) (h : 1 ≤ c.min) : ∀ i ∈ span c, 1 ≤ i := by
  intro i hi
  have := (List.mem_range'_1.mp hi).1
  omega

theorem fs_flatCols (col : Col) (cols : List Col) (rep : Attrs → Attrs → Attrs) (hc : 1 ≤ col.min)
    (hcs : ∀ e ∈ cols, 1 ≤ e.min) : FS (flatCols col cols rep) := by
  unfold flatCols
  have h0 : FS ((span col).map fun i => (⟨i, i, col.a⟩ : Col)) := by
    refine ⟨?_, ?_⟩
    · intro e he
      obtain ⟨i, hi, rfl⟩ := List.mem_map.mp he
      exact ⟨rfl, span_ge col hc i hi⟩
    · rw [List.map_map]
      have : ((fun x : Col => x.min) ∘ fun i => (⟨i, i, col.a⟩ : Col)) = id := rfl
      rw [this, List.map_id]
      exact List.nodup_range'
  generalize (List.map (fun i => (⟨i, i, col.a⟩ : Col)) (span col)) = fc0 at h0
  induction cols generalizing fc0 with
  | nil => exact h0
  | cons c cs ih =>
    simp only [List.foldl_cons]
    exact ih (fun e he => hcs e (by simp [he])) _
      (fs_foldl_span rep c (span c) fc0 (span_ge c (hcs c (by simp))) h0)

theorem wf_of_fs (fc : List Col) (h : FS fc) : Wf fc := by
  obtain ⟨hs, hn⟩ := h
  refine ⟨fun e he => ⟨(hs e he).2, by have := (hs e he).1; omega⟩, ?_⟩
  have hp : fc.Pairwise (fun a b => a.min ≠ b.min) := by
    have := List.pairwise_map.mp (show (fc.map (·.min)).Pairwise (· ≠ ·) from hn)
    exact this
  apply List.Pairwise.imp_of_mem _ hp
  intro a b ha hb hne
  have h1 := (hs a ha).1
  have h2 := (hs b hb).1
  unfold Disj
  omega

/-- **inv_step (column setters)**: whatever `<cols>` held before (any list with columns ≥ 1), after a
column setter (`flatCols` with any `replacer`, or the first entry of a sheet) the list is well-formed:
ranges inside the sheet, pairwise non-overlapping -/
theorem setCols_wf (cols : Option (List Col)) (col : Col) (rep : Attrs → Attrs → Attrs)
    (hc : 1 ≤ col.min ∧ col.min ≤ col.max) (hcs : ∀ l, cols = some l → ∀ e ∈ l, 1 ≤ e.min) :
    Wf (setCols cols col rep) := by
  cases cols with
  | none => exact ⟨by intro e he; simp [setCols] at he; subst he; exact hc, by simp [setCols]⟩
  | some l => exact wf_of_fs _ (fs_flatCols col l rep hc.1 (hcs l rfl))

end XlModel.SaveCols
