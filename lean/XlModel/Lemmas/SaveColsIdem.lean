/-
C02 (round 5, second wave): `mergeExpandedCols` is idempotent as a LIST on everything the column setters can
leave — the second save finds no entry that is its predecessor shifted by one column, so it rewrites
`<cols>` to exactly the same entries.  Over C01's model `XlModel.SaveCols` (unchanged).
-/
import XlModel.Lemmas.SaveCols3
namespace XlModel.SaveCols
open XlModel

/-- no entry is its predecessor shifted by one column (`reflect.DeepEqual` test never fires), the
predecessor of the first entry being `p` -/
def NoAdjFrom : Col → List Col → Prop
  | _, [] => True
  | p, b :: r => adj p b = false ∧ NoAdjFrom b r

/-- when the test never fires the loop copies the list -/
theorem mergeGo_fixed (a : Col) (r : List Col) (h : NoAdjFrom a r) : mergeGo a a false r = a :: r := by
  induction r generalizing a with
  | nil => simp [mergeGo, close]
  | cons b r ih =>
    obtain ⟨h1, h2⟩ := h
    simp only [mergeGo, h1, Bool.false_eq_true, if_false]
    rw [ih b h2]
    simp [close]

/-- the output of the loop on sorted disjoint ranges: its first entry starts at `left`, ends at the run's
upper end or later, and no two consecutive output entries pass the test again -/
theorem mergeGo_noAdj (left prev : Col) (multi : Bool) (rest : List Col)
    (hle : left.min ≤ prev.min) (hlt : multi = true → left.min < prev.min)
    (hs : multi = true → prev.max = prev.min)
    (hm : multi = false → left = prev) (hlr : left.min ≤ left.max) (hr : RangesFrom prev.max rest) :
    ∃ h t, mergeGo left prev multi rest = h :: t ∧ h.min = left.min ∧ h.a = left.a ∧
      (h.max = runHi left prev multi ∨ prev.min < h.max) ∧ NoAdjFrom h t := by
  induction rest generalizing left prev multi with
  | nil =>
    obtain ⟨c1, c2, c3⟩ := close_fields left prev multi
    exact ⟨close left prev multi, [], rfl, c1, c3, Or.inl c2, trivial⟩
  | cons b rest ih =>
    obtain ⟨hb1, hb2, hb3⟩ := hr
    simp only [mergeGo]
    by_cases ha : adj prev b = true
    · obtain ⟨hp, hbs, hbm, hba⟩ := adj_single hs hm hlr hb1 ha
      simp only [ha, if_true]
      obtain ⟨h, t, e, e1, e2, e3, e4⟩ :=
        ih left b true (by omega) (fun _ => by omega) (fun _ => hbs) (by intro h; cases h) hlr hb3
      refine ⟨h, t, e, e1, e2, Or.inr ?_, e4⟩
      have hrh : runHi left b true = b.min := rfl
      rcases e3 with e3 | e3 <;> omega
    · have ha' : adj prev b = false := by simpa using ha
      obtain ⟨c1, c2, c3⟩ := close_fields left prev multi
      simp only [ha', Bool.false_eq_true, if_false]
      obtain ⟨h, t, e, e1, e2, e3, e4⟩ :=
        ih b b false (Nat.le_refl _) (by intro h; cases h) (by intro h; cases h) (fun _ => rfl) hb2 hb3
      refine ⟨close left prev multi, h :: t, by rw [e], c1, c3, Or.inl c2, ?_, e4⟩
      cases hadj : adj (close left prev multi) h with
      | false => rfl
      | true =>
        exfalso
        simp only [adj, Bool.and_eq_true, beq_iff_eq] at hadj
        obtain ⟨⟨k1, k2⟩, k3⟩ := hadj
        rw [c1] at k1; rw [c2] at k2; rw [c3] at k3
        have hrb : runHi b b false = b.max := rfl
        cases multi with
        | true =>
          have := hlt rfl
          have := hs rfl
          omega
        | false =>
          have hlp := hm rfl
          subst hlp
          have hrl : runHi left left false = left.max := rfl
          rw [hrl] at k2
          rcases e3 with e3 | e3
          · have : adj left b = true := by
              simp only [adj, Bool.and_eq_true, beq_iff_eq]
              exact ⟨⟨by omega, by omega⟩, by rw [← e2, k3]⟩
            rw [ha'] at this
            cases this
          · omega

/-- on sorted disjoint ranges the second run of the loop returns its input -/
theorem mergeSorted_idem (lo : Nat) (l : List Col) (h : RangesFrom lo l) :
    mergeSorted (mergeSorted l) = mergeSorted l := by
  cases l with
  | nil => rfl
  | cons a rest =>
    obtain ⟨_, h2, h3⟩ := h
    obtain ⟨hd, t, e, _, _, _, e4⟩ :=
      mergeGo_noAdj a a false rest (Nat.le_refl _) (by intro h; cases h) (by intro h; cases h) (fun _ => rfl) h2 h3
    have e0 : mergeSorted (a :: rest) = hd :: t := e
    rw [e0]
    exact mergeGo_fixed hd t e4

/-- `mergeExpandedCols ∘ mergeExpandedCols = mergeExpandedCols` on every list the column setters can leave -/
theorem mergeCols_idem (l : List Col) (h : Wf l) : mergeCols (mergeCols l) = mergeCols l := by
  have hr := ranges_sortCols l h
  have hm := ranges_mergeSorted 0 _ hr
  unfold mergeCols
  rw [sortCols_ranges 0 _ hm]
  exact mergeSorted_idem 0 _ hr

end XlModel.SaveCols
