/-
Helper lemmas for the grid path (C01): `checkSheet` is the identity on row lists
whose slot `i` holds row `i+1` (what `trimRow` produces from a dense sheet),
`trimRow` keeps every row slot, its number and its attributes.
-/
import XlModel.SaveGrid

namespace XlModel.Grid
open XlModel XlModel.Ref

/-- row slots numbered consecutively from `k+1` -/
def Seq : Nat → List Row → Prop
  | _, [] => True
  | k, r :: rs => r.r = k + 1 ∧ Seq (k + 1) rs

theorem seq_of_index (k : Nat) (rows : List Row)
    (h : ∀ i (hi : i < rows.length), rows[i].r = k + i + 1) : Seq k rows := by
  induction rows generalizing k with
  | nil => trivial
  | cons r rs ih =>
    have h0 := h 0 (by simp)
    simp only [List.getElem_cons_zero] at h0
    refine ⟨by omega, ih (k + 1) ?_⟩
    intro i hi
    have := h (i + 1) (by simpa using hi)
    simp only [List.getElem_cons_succ] at this
    omega

theorem index_of_seq (k : Nat) (rows : List Row) (h : Seq k rows) :
    ∀ i (hi : i < rows.length), rows[i].r = k + i + 1 := by
  induction rows generalizing k with
  | nil => intro i hi; simp at hi
  | cons r rs ih =>
    intro i hi
    cases i with
    | zero => simpa using h.1
    | succ i =>
      have := ih (k + 1) h.2 i (by simpa using hi)
      simp only [List.getElem_cons_succ]
      omega

theorem csScan_seq (k : Nat) (rows : List Row) (h : Seq k rows) :
    csScan k rows = (k + rows.length, rows, []) := by
  induction rows generalizing k with
  | nil => simp [csScan]
  | cons r rs ih =>
    obtain ⟨h1, h2⟩ := h
    have hne : (r.r == 0 || r.r == k) = false := by
      simp only [Bool.or_eq_false_iff, beq_eq_false_iff_ne]; omega
    have hrow : (if r.r > k then r.r else k) = k + 1 := by
      have : r.r > k := by omega
      simp [this, h1]
    simp only [csScan, hne, Bool.false_eq_true, if_false, hrow, ih (k + 1) h2, List.length_cons]
    congr 1
    omega

theorem place_seq (pre junk rows : List Row) (h : Seq pre.length rows) (hl : junk.length = rows.length) :
    place (pre ++ junk) rows = pre ++ rows := by
  induction rows generalizing pre junk with
  | nil =>
    cases junk with
    | nil => simp [place]
    | cons _ _ => simp at hl
  | cons r rs ih =>
    cases junk with
    | nil => simp at hl
    | cons j js =>
      obtain ⟨h1, h2⟩ := h
      have hnz : (r.r != 0) = true := by simp; omega
      have hidx : r.r - 1 = pre.length := by omega
      have hset : (pre ++ j :: js).set (r.r - 1) r = (pre ++ [r]) ++ js := by
        rw [hidx]; simp [List.set_append]
      have := ih (pre ++ [r]) js (by simpa using h2) (by simpa using hl)
      simp only [place, List.foldl_cons, hnz, if_true, hset] at this ⊢
      rw [this]; simp

theorem lastPlaced_fold_seq (k v : Nat) (rows : List Row) (h : Seq k rows) :
    rows.foldl (fun row r => if r.r != 0 then r.r else row) v = if rows = [] then v else k + rows.length := by
  induction rows generalizing k v with
  | nil => simp
  | cons r rs ih =>
    obtain ⟨h1, h2⟩ := h
    have hnz : (r.r != 0) = true := by simp; omega
    simp only [List.foldl_cons, hnz, if_true, ih (k + 1) r.r h2]
    cases rs with
    | nil => simp [h1]
    | cons _ _ => simp; omega

theorem setNumbers_seq (n : Nat) (rows : List Row) (h : Seq 0 rows) : setNumbers n rows = rows := by
  unfold setNumbers
  apply List.ext_getElem
  · simp
  · intro i h1 h2
    simp only [List.getElem_mapIdx]
    have hr := index_of_seq 0 rows h i (by simpa using h2)
    split
    · cases hrow : rows[i] with
      | mk r a c =>
        rw [hrow] at hr
        simp at hr
        simp [hr]
    · rfl

/-- `checkSheet` changes nothing when row slot `i` already holds row `i+1` (inside the grid) -/
theorem checkSheet_seq (rows : List Row) (h : Seq 0 rows) (hlen : rows.length ≤ Facts.TotalRows) :
    checkSheet rows = .ok rows := by
  unfold checkSheet
  have hany : rows.any (fun r => decide (r.r > Facts.TotalRows)) = false := by
    rw [List.any_eq_false]
    intro r hr
    obtain ⟨i, hi, rfl⟩ := List.getElem_of_mem hr
    have := index_of_seq 0 rows h i hi
    simp only [decide_eq_true_eq]
    omega
  simp only [hany, Bool.false_eq_true, if_false]
  rw [csScan_seq 0 rows h]
  have hp : place (List.replicate (0 + rows.length) emptyRow) rows = rows := by
    have := place_seq [] (List.replicate (0 + rows.length) emptyRow) rows (by simpa using h) (by simp)
    simpa using this
  simp only [hp, r0Rows, Res.map]
  rw [setNumbers_seq _ rows h]

/-! ## trimRow keeps slots, numbers, attributes -/

theorem trimRowOne_some (row : Row) : ∃ cs, trimRowOne row = some { row with cells := cs } ∧
    (cs = trimCell row.cells ∨ cs = row.cells) := by
  unfold trimRowOne
  have hf : Facts.C01.trimRowDropsEmptyRows = false := rfl
  simp only [hf, Bool.false_eq_true, if_false]
  split
  · exact ⟨_, rfl, Or.inl rfl⟩
  · exact ⟨row.cells, rfl, Or.inr rfl⟩

theorem trimRow_map (rows : List Row) :
    (trimRow rows).map (fun r => (r.r, r.attrs)) = rows.map (fun r => (r.r, r.attrs)) := by
  unfold trimRow
  induction rows with
  | nil => simp
  | cons r rs ih =>
    obtain ⟨cs, h, _⟩ := trimRowOne_some r
    simp [List.filterMap_cons, h, ih]

theorem trimRow_length (rows : List Row) : (trimRow rows).length = rows.length := by
  have := congrArg List.length (trimRow_map rows)
  simpa using this

theorem trimRow_seq (k : Nat) (rows : List Row) (h : Seq k rows) : Seq k (trimRow rows) := by
  unfold trimRow
  induction rows generalizing k with
  | nil => trivial
  | cons r rs ih =>
    obtain ⟨cs, hs, _⟩ := trimRowOne_some r
    simp only [List.filterMap_cons, hs]
    exact ⟨h.1, ih (k + 1) h.2⟩

/-- every cell that survives `trimCell` was there before, in the same order (sublist), and
every cell with a value survives -/
theorem trimCell_sublist (cells : List Cell) : (trimCell cells).Sublist cells := by
  unfold trimCell
  split
  · exact List.Sublist.refl _
  · exact List.filter_sublist

theorem trimCell_filter (cells : List Cell) : (trimCell cells).filter hasValue = cells.filter hasValue := by
  unfold trimCell
  split
  · rfl
  · simp

/-! ## assembling `checkRow` from its per-row result -/

theorem checkRowAux_of (k : Nat) (rows : List Row) (out : List (List Cell))
    (hl : out.length = rows.length)
    (h : ∀ i (h1 : i < rows.length) (h2 : i < out.length), checkRowOne (k + i + 1) rows[i].cells = .ok out[i]) :
    checkRowAux k rows = .ok (List.zipWith (fun r cs => { r with cells := cs }) rows out) := by
  induction rows generalizing k out with
  | nil => simp [checkRowAux]
  | cons r rs ih =>
    cases out with
    | nil => simp at hl
    | cons o os =>
      have h0 := h 0 (by simp) (by simp)
      simp only [List.getElem_cons_zero, Nat.add_zero] at h0
      have ht := ih (k + 1) os (by simpa using hl) (by
        intro i h1 h2
        have := h (i + 1) (by simpa using h1) (by simpa using h2)
        simp only [List.getElem_cons_succ] at this
        have e : k + (i + 1) + 1 = k + 1 + i + 1 := by omega
        rw [e] at this; exact this)
      simp [checkRowAux, h0, ht, Res.bind, Res.map]

end XlModel.Grid
