/-
Helper lemmas for the grid path (C01), second part: `checkRow` leaves a dense row unchanged
(uses C20's `cell_encode_decode`), hence save + open is the identity on dense sheets whose rows
the trim does not touch.
-/
import XlModel.Lemmas.SaveGrid
import XlModel.Props.C20
namespace XlModel.Grid
open XlModel XlModel.Ref

theorem dec_nil : ∀ p, cellNameToCoordinates [] ≠ .ok p := by
  intro p h
  have : cellNameToCoordinates [] = .error .cellName := by decide
  rw [this] at h; cases h

theorem refOf_dec (j i : Nat) (hj : j < Facts.MaxColumns) (hi : i < Facts.TotalRows) :
    refOf j i ≠ [] ∧ cellNameToCoordinates (refOf j i) = .ok ((j : Int) + 1, (i : Int) + 1) := by
  obtain ⟨s, h1, h2⟩ := Props.C20.cell_encode_decode (j + 1) (i + 1) false (by omega) (by omega) (by omega) (by omega)
  have e1 : ((j + 1 : Nat) : Int) = (j : Int) + 1 := by omega
  have e2 : ((i + 1 : Nat) : Int) = (i : Int) + 1 := by omega
  rw [e1, e2] at h1 h2
  have hr : refOf j i = s := by simp [refOf, h1]
  rw [hr]
  refine ⟨?_, h2⟩
  intro e; subst e; exact dec_nil _ h2

theorem fillRefs_ok (rowNo : Nat) (cells : List Cell) (rc : Int)
    (h : ∀ c ∈ cells, c.ref ≠ [] ∧ ∃ p, cellNameToCoordinates c.ref = .ok p) :
    fillRefs rowNo rc cells = .ok cells := by
  induction cells generalizing rc with
  | nil => simp [fillRefs]
  | cons c cs ih =>
    obtain ⟨hne, p, hp⟩ := h c (by simp)
    have hne' : (c.ref != []) = true := by simpa using hne
    obtain ⟨col, row⟩ := p
    simp only [fillRefs, hne', if_true, hp]
    rw [ih _ (fun c' hc' => h c' (by simp [hc']))]
    simp [Res.map]

theorem checkRowOne_dense (i : Nat) (D : List Cell) (hi : i < Facts.TotalRows) (hD : DenseRow i D) :
    checkRowOne (i + 1) D = .ok D := by
  unfold checkRowOne
  cases hD0 : D.isEmpty with
  | true => simp
  | false =>
    simp only [Bool.false_eq_true, if_false]
    have hall : ∀ c ∈ D, c.ref ≠ [] ∧ ∃ p, cellNameToCoordinates c.ref = .ok p := by
      intro c hc
      obtain ⟨j, hj, rfl⟩ := List.getElem_of_mem hc
      have hr := (hD.2 j hj).1
      have := refOf_dec j i (by have := hD.1; omega) hi
      rw [hr]; exact ⟨this.1, _, this.2⟩
    rw [fillRefs_ok _ _ _ hall]
    simp only [Res.bind]
    unfold rebuild
    have hne : D ≠ [] := by intro e; subst e; simp at hD0
    have hlen : 0 < D.length := List.length_pos_iff.mpr hne
    have hlast : D.getLast? = some (D[D.length - 1]'(by omega)) := by
      rw [List.getLast?_eq_getElem?]; simp [List.getElem?_eq_getElem (show D.length - 1 < D.length by omega)]
    rw [hlast]
    have hr := (hD.2 (D.length - 1) (by omega)).1
    have hd := (refOf_dec (D.length - 1) i (by have := hD.1; omega) hi).2
    simp only [hr, hd]
    have : ¬ ((D.length : Int) < ((D.length - 1 : Nat) : Int) + 1) := by omega
    simp [this]

theorem filterMap_self {α} (f : α → Option α) (l : List α) (h : ∀ a ∈ l, f a = some a) : l.filterMap f = l := by
  induction l with
  | nil => rfl
  | cons a t ih =>
    simp [h a (by simp), ih (fun b hb => h b (by simp [hb]))]

theorem zipWith_cells_self (s : List Row) :
    List.zipWith (fun (r : Row) cs => { r with cells := cs }) s (s.map Row.cells) = s := by
  induction s with
  | nil => rfl
  | cons r t ih => simp [ih]

/-- a dense sheet whose rows are not touched by the trim (every cell has a value, or the row is
blank and has no attributes) goes through save + open unchanged -/
theorem cycle_untrimmed (s : List Row) (h : Dense s) (hu : ∀ row ∈ s, trimRowOne row = some row) :
    cycle s = .ok s := by
  have ht : trimRow s = s := filterMap_self _ _ hu
  have hseq : Seq 0 s := by
    apply seq_of_index
    intro i hi
    have := (h.2 i hi).1
    omega
  have hcr := checkRowAux_of 0 s (s.map Row.cells) (by simp) (by
    intro i h1 h2
    simp only [List.getElem_map, Nat.zero_add]
    exact checkRowOne_dense i _ (by have := h.1; omega) (h.2 i h1).2)
  rw [zipWith_cells_self] at hcr
  simp only [cycle, densify, ht, checkSheet_seq s hseq h.1, Res.bind, checkRow, hcr]

end XlModel.Grid
