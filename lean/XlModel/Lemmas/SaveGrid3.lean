/-
Helper lemmas for the grid path (C01), third part: the per-row crux of `trim_densify_obs` —
`checkRow` rebuilds the compacted (filtered) cells of a dense row into the dense prefix up to the
last valued cell (`placeCells` = `overlay`; `overlay` on blank targets = `take`; a valueless cell of
a dense row *is* the blank target), and the assembly over all rows.
-/
import XlModel.Lemmas.SaveGrid2
namespace XlModel.Grid
open XlModel XlModel.Ref

theorem hasValue_eq (c : Cell) : hasValue c = (c.s != 0 || c.v != [] || c.f.isSome || c.t != []) := by
  have h : Facts.C01.hasValueFields = ["S", "V", "F", "T"] := rfl
  simp [hasValue, h, cellFieldSet, Bool.or_assoc]

theorem blank_of_noValue {c : Cell} (h : hasValue c = false) (his : c.is = none) : c = blank c.ref := by
  rw [hasValue_eq] at h
  simp only [Bool.or_eq_false_iff, bne_eq_false_iff_eq, Option.isSome_eq_false_iff, Option.isNone_iff_eq_none] at h
  obtain ⟨⟨⟨h1, h2⟩, h3⟩, h4⟩ := h
  cases c
  simp_all [blank]

/-- content at a cell slot (default when absent) -/
def cAt (l : List Cell) (j : Nat) : Content := (l[j]?.map content).getD noContent

theorem content_blank (r : List Char) : content (blank r) = noContent := rfl

/-- the valued cells of `D` laid over `tgt`, slot `off + k` for `D[k]` -/
def overlay : Nat → List Cell → List Cell → List Cell
  | _, [], tgt => tgt
  | off, d :: ds, tgt => overlay (off + 1) ds (if hasValue d then tgt.set off d else tgt)

theorem overlay_length (off : Nat) (D tgt : List Cell) : (overlay off D tgt).length = tgt.length := by
  induction D generalizing off tgt with
  | nil => rfl
  | cons d ds ih => simp only [overlay]; rw [ih]; split <;> simp

theorem placeCells_overlay (i off : Nat) (D tgt : List Cell) (hi : i < Facts.TotalRows)
    (hmax : off + D.length ≤ Facts.MaxColumns)
    (href : ∀ k (hk : k < D.length), D[k].ref = refOf (off + k) i)
    (hfit : ∀ k (hk : k < D.length), hasValue D[k] = true → off + k < tgt.length) :
    placeCells tgt (D.filter hasValue) = .ok (overlay off D tgt) := by
  induction D generalizing off tgt with
  | nil => simp [placeCells, overlay]
  | cons d ds ih =>
    have hds : ∀ k (hk : k < ds.length), ds[k].ref = refOf (off + 1 + k) i := by
      intro k hk
      have := href (k + 1) (by simpa using hk)
      simp only [List.getElem_cons_succ] at this
      rw [this]; congr 1; omega
    have hmax' : off + 1 + ds.length ≤ Facts.MaxColumns := by simp at hmax; omega
    cases hv : hasValue d with
    | false =>
      simp only [List.filter_cons, hv, Bool.false_eq_true, if_false, overlay]
      apply ih (off + 1) tgt hmax' hds
      intro k hk hvk
      have := hfit (k + 1) (by simpa using hk) (by simpa using hvk)
      omega
    | true =>
      have h0 := href 0 (by simp)
      simp only [List.getElem_cons_zero, Nat.add_zero] at h0
      have hd := (refOf_dec off i (by simp at hmax; omega) hi).2
      have hf0 := hfit 0 (by simp) (by simpa using hv)
      simp only [Nat.add_zero] at hf0
      simp only [List.filter_cons, hv, if_true, overlay, placeCells, h0, hd]
      have hc : (1 : Int) ≤ (off : Int) + 1 ∧ (off : Int) + 1 ≤ (tgt.length : Int) := by omega
      have hidx : ((off : Int) + 1).toNat - 1 = off := by omega
      simp only [hc, and_self, if_true, hidx]
      apply ih (off + 1) (tgt.set off d) hmax' hds
      intro k hk hvk
      have := hfit (k + 1) (by simpa using hk) (by simpa using hvk)
      simp only [List.length_set]
      omega

/-- blank target cells for columns `off+1 … off+cnt` of row `i+1` -/
def blanks (i off : Nat) : Nat → List Cell
  | 0 => []
  | cnt + 1 => blank (refOf off i) :: blanks i (off + 1) cnt

theorem blanks_length (i off cnt : Nat) : (blanks i off cnt).length = cnt := by
  induction cnt generalizing off with
  | zero => rfl
  | succ n ih => simp [blanks, ih]

theorem blanks_snoc (i off cnt : Nat) :
    blanks i off (cnt + 1) = blanks i off cnt ++ [blank (refOf (off + cnt) i)] := by
  induction cnt generalizing off with
  | zero => simp [blanks]
  | succ n ih =>
    rw [blanks, ih (off + 1)]
    simp only [blanks, List.cons_append]
    rw [show off + 1 + n = off + (n + 1) by omega]

theorem targets_eq (i m : Nat) (hi : i < Facts.TotalRows) (hm : m ≤ Facts.MaxColumns) :
    targets (i + 1) m = some (blanks i 0 m) := by
  induction m with
  | zero => rfl
  | succ n ih =>
    have hr := refOf_dec n i (by omega) hi
    obtain ⟨s, h1, _⟩ := Props.C20.cell_encode_decode (n + 1) (i + 1) false (by omega) (by omega) (by omega) (by omega)
    have e1 : ((n + 1 : Nat) : Int) = (n : Int) + 1 := by omega
    have e2 : ((i + 1 : Nat) : Int) = (i : Int) + 1 := by omega
    rw [e1] at h1
    have h1' := h1
    rw [e2] at h1'
    have hs : refOf n i = s := by
      simp only [refOf, h1']
    simp only [targets, ih (by omega), h1]
    rw [blanks_snoc, ← hs]
    simp

theorem overlay_none (off : Nat) (D tgt : List Cell) (h : ∀ d ∈ D, hasValue d = false) :
    overlay off D tgt = tgt := by
  induction D generalizing off tgt with
  | nil => rfl
  | cons d ds ih =>
    simp only [overlay, h d (by simp), Bool.false_eq_true, if_false]
    exact ih _ _ (fun x hx => h x (by simp [hx]))

theorem overlay_blanks (i : Nat) (pre D : List Cell) (cnt : Nat)
    (href : ∀ k (hk : k < D.length), D[k].ref = refOf (pre.length + k) i ∧
      (hasValue D[k] = false → D[k].is = none))
    (hfit : ∀ k (hk : k < D.length), hasValue D[k] = true → k < cnt)
    (hc : cnt ≤ D.length) :
    overlay pre.length D (pre ++ blanks i pre.length cnt) = pre ++ D.take cnt := by
  induction D generalizing pre cnt with
  | nil =>
    have : cnt = 0 := by simpa using hc
    subst this; simp [overlay, blanks]
  | cons d ds ih =>
    cases cnt with
    | zero =>
      simp only [blanks, List.append_nil, List.take_zero]
      apply overlay_none
      intro x hx
      obtain ⟨k, hk, rfl⟩ := List.getElem_of_mem hx
      cases hv : hasValue (d :: ds)[k] with
      | false => rfl
      | true => exact absurd (hfit k hk hv) (by omega)
    | succ n =>
      have h0 := href 0 (by simp)
      simp only [List.getElem_cons_zero, Nat.add_zero] at h0
      have hstep : (if hasValue d then (pre ++ blanks i pre.length (n + 1)).set pre.length d
          else pre ++ blanks i pre.length (n + 1)) = (pre ++ [d]) ++ blanks i (pre ++ [d]).length n := by
        simp only [blanks, List.length_append, List.length_singleton, List.append_assoc, List.singleton_append]
        cases hv : hasValue d with
        | true => simp [List.set_append]
        | false =>
          have := blank_of_noValue hv (h0.2 hv)
          rw [h0.1] at this
          simp [← this]
      simp only [overlay, hstep]
      have hlen : pre.length + 1 = (pre ++ [d]).length := by simp
      rw [hlen, ih (pre ++ [d]) n ?_ ?_ (by simpa using hc)]
      · simp
      · intro k hk
        have := href (k + 1) (by simpa using hk)
        simp only [List.getElem_cons_succ] at this
        refine ⟨?_, this.2⟩
        rw [this.1]; congr 1; simp; omega
      · intro k hk hv
        have := hfit (k + 1) (by simpa using hk) (by simpa using hv)
        omega

theorem trimCell_eq_filter (D : List Cell) : trimCell D = D.filter hasValue := by
  unfold trimCell
  split
  · rename_i h
    symm
    apply List.filter_eq_self.mpr
    intro a ha
    exact List.all_eq_true.mp h a ha
  · rfl

theorem split_last_valued (D : List Cell) (h : D.filter hasValue ≠ []) :
    ∃ P l Q, D = P ++ l :: Q ∧ hasValue l = true ∧ ∀ q ∈ Q, hasValue q = false := by
  induction D with
  | nil => simp at h
  | cons d ds ih =>
    by_cases hds : ds.filter hasValue = []
    · have hd : hasValue d = true := by
        cases hv : hasValue d with
        | true => rfl
        | false => simp [List.filter_cons, hv, hds] at h
      refine ⟨[], d, ds, rfl, hd, ?_⟩
      intro q hq
      have := List.filter_eq_nil_iff.mp hds q hq
      simpa using this
    · obtain ⟨P, l, Q, e, hl, hQ⟩ := ih hds
      exact ⟨d :: P, l, Q, by simp [e], hl, hQ⟩

theorem denseRow_take (i m : Nat) (D : List Cell) (h : DenseRow i D) : DenseRow i (D.take m) := by
  refine ⟨by have := h.1; simp only [List.length_take]; omega, ?_⟩
  intro j hj
  have hj' : j < D.length := by simp only [List.length_take] at hj; omega
  simp only [List.getElem_take]
  exact h.2 j hj'

theorem cAt_noValue (i : Nat) (D : List Cell) (hD : DenseRow i D) (j : Nat)
    (h : ∀ (hj : j < D.length), hasValue D[j] = false) : cAt D j = noContent := by
  unfold cAt
  by_cases hj : j < D.length
  · rw [List.getElem?_eq_getElem hj]
    have hv := h hj
    have := blank_of_noValue hv ((hD.2 j hj).2 hv)
    simp only [Option.map_some, Option.getD_some]
    rw [this]; rfl
  · rw [List.getElem?_eq_none (by omega)]; rfl

theorem maxCol_le (m : Int) (cells : List Cell)
    (h : ∀ c ∈ cells, ∃ col row, cellNameToCoordinates c.ref = .ok (col, row) ∧ col ≤ m) :
    maxCol m cells = .ok m := by
  induction cells with
  | nil => rfl
  | cons c cs ih =>
    obtain ⟨col, row, hd, hle⟩ := h c (by simp)
    have : ¬ col > m := by omega
    simp only [maxCol, hd, this, if_false]
    exact ih (fun c' hc' => h c' (by simp [hc']))

/-- **the per-row crux**: `checkRow` re-densifies the compacted cells of a dense row to a dense row
with the same content in every cell slot. -/
theorem checkRowOne_filter (i : Nat) (D : List Cell) (hi : i < Facts.TotalRows) (hD : DenseRow i D) :
    ∃ out, checkRowOne (i + 1) (D.filter hasValue) = .ok out ∧ DenseRow i out ∧ ∀ j, cAt out j = cAt D j := by
  by_cases hF : D.filter hasValue = []
  · refine ⟨[], by simp [hF, checkRowOne], ⟨by simp, by intro j hj; simp at hj⟩, ?_⟩
    intro j
    rw [cAt_noValue i D hD j]
    · rfl
    · intro hj
      have := List.filter_eq_nil_iff.mp hF D[j] (List.getElem_mem hj)
      simpa using this
  · obtain ⟨P, l, Q, e, hl, hQ⟩ := split_last_valued D hF
    have hQf : Q.filter hasValue = [] := List.filter_eq_nil_iff.mpr (fun q hq => by simp [hQ q hq])
    have hFe : D.filter hasValue = P.filter hasValue ++ [l] := by
      rw [e, List.filter_append, List.filter_cons, hl]; simp [hQf]
    have hlen : D.length = P.length + 1 + Q.length := by rw [e]; simp; omega
    have hPl : P.length < D.length := by omega
    have hDl : D[P.length] = l := by simp [e]
    have hmaxc := hD.1
    have hall : ∀ c ∈ D, c.ref ≠ [] ∧ ∃ p, cellNameToCoordinates c.ref = .ok p := by
      intro c hc
      obtain ⟨j, hj, rfl⟩ := List.getElem_of_mem hc
      have hr := (hD.2 j hj).1
      have := refOf_dec j i (by omega) hi
      rw [hr]; exact ⟨this.1, _, this.2⟩
    have hallF : ∀ c ∈ D.filter hasValue, c.ref ≠ [] ∧ ∃ p, cellNameToCoordinates c.ref = .ok p :=
      fun c hc => hall c (List.mem_filter.mp hc).1
    have htake : D.take (P.length + 1) = P ++ [l] := by
      have e2 : P ++ l :: Q = (P ++ [l]) ++ Q := by simp
      rw [e, e2, List.take_left' (by simp)]
    have hvalued_lt : ∀ k (hk : k < D.length), hasValue D[k] = true → k < P.length + 1 := by
      intro k hk hv
      by_cases hlt : k < P.length + 1
      · exact hlt
      · exfalso
        have hk2 : k - (P.length + 1) < Q.length := by omega
        have hq : D[k] = Q[k - (P.length + 1)] := by
          simp only [e]
          rw [List.getElem_append_right (by omega)]
          have : k - P.length = (k - (P.length + 1)) + 1 := by omega
          simp only [this, List.getElem_cons_succ]
        rw [hq, hQ _ (List.getElem_mem hk2)] at hv
        cases hv
    refine ⟨D.take (P.length + 1), ?_, denseRow_take i _ D hD, ?_⟩
    · have hne : (D.filter hasValue).isEmpty = false := by
        cases hh : D.filter hasValue with
        | nil => exact absurd hh hF
        | cons _ _ => rfl
      simp only [checkRowOne, hne, Bool.false_eq_true, if_false, fillRefs_ok _ _ _ hallF, Res.bind]
      unfold rebuild
      have hlast : (D.filter hasValue).getLast? = some l := by rw [hFe]; simp
      have hlref : l.ref = refOf P.length i := by rw [← hDl]; exact (hD.2 _ hPl).1
      have hd := (refOf_dec P.length i (by omega) hi).2
      simp only [hlast, hlref, hd]
      by_cases hlt : ((D.filter hasValue).length : Int) < (P.length : Int) + 1
      · have htn : ((P.length : Int) + 1).toNat = P.length + 1 := by omega
        have hmaxc2 : maxCol ((P.length : Int) + 1) (D.filter hasValue) = .ok ((P.length : Int) + 1) := by
          apply maxCol_le
          intro c hc
          obtain ⟨hcD, hcv⟩ := List.mem_filter.mp hc
          obtain ⟨k, hk, rfl⟩ := List.getElem_of_mem hcD
          have hk2 := hvalued_lt k hk hcv
          refine ⟨(k : Int) + 1, (i : Int) + 1, ?_, by omega⟩
          rw [(hD.2 k hk).1]
          exact (refOf_dec k i (by omega) hi).2
        simp only [hlt, if_true, hmaxc2, Res.bind, htn, targets_eq i (P.length + 1) hi (by omega)]
        rw [placeCells_overlay i 0 D _ hi (by omega) (by intro k hk; simpa using (hD.2 k hk).1)
          (by intro k hk hv; simp only [blanks_length]; have := hvalued_lt k hk hv; omega)]
        have := overlay_blanks i [] D (P.length + 1) (by intro k hk; simpa using hD.2 k hk) hvalued_lt (by omega)
        simpa using congrArg Res.ok this
      · simp only [hlt, if_false]
        have hle : P.length ≤ (P.filter hasValue).length := by
          have h2 : (D.filter hasValue).length = (P.filter hasValue).length + 1 := by rw [hFe]; simp
          rw [h2] at hlt; omega
        have hPf : P.filter hasValue = P := by
          apply List.filter_eq_self.mpr
          apply (List.length_filter_eq_length_iff).mp
          have := List.length_filter_le hasValue P
          omega
        rw [hFe, hPf, htake]
    · intro j
      by_cases hj : j < P.length + 1
      · unfold cAt; rw [List.getElem?_take_of_lt hj]
      · have h1 : cAt (D.take (P.length + 1)) j = noContent := by
          unfold cAt
          rw [List.getElem?_eq_none (by simp only [List.length_take]; omega)]; rfl
        rw [h1, cAt_noValue i D hD j]
        intro hjl
        cases hv : hasValue D[j] with
        | false => rfl
        | true => exact absurd (hvalued_lt j hjl hv) hj

/-- `trimRowOne` as a total function (fact `trimRowDropsEmptyRows = false`) -/
def trimRowOne' (row : Row) : Row :=
  let cs := trimCell row.cells
  if cs ≠ [] || hasAttr row.attrs then { row with cells := cs } else row

theorem trimRowOne_eq (row : Row) : trimRowOne row = some (trimRowOne' row) := by
  unfold trimRowOne trimRowOne'
  have hf : Facts.C01.trimRowDropsEmptyRows = false := rfl
  simp only [hf, Bool.false_eq_true, if_false]
  split <;> rfl

theorem trimRow_eq_map (s : List Row) : trimRow s = s.map trimRowOne' := by
  unfold trimRow
  induction s with
  | nil => rfl
  | cons r rs ih => simp [List.filterMap_cons, trimRowOne_eq, ih]

/-- per row: whatever `trimRow` stores for a dense row, `checkRow` turns it back into a dense row with
the same content in every cell slot -/
theorem checkRowOne_trimmed (i : Nat) (row : Row) (hi : i < Facts.TotalRows) (hD : DenseRow i row.cells) :
    ∃ out, checkRowOne (i + 1) (trimRowOne' row).cells = .ok out ∧ DenseRow i out ∧
      ∀ j, cAt out j = cAt row.cells j := by
  unfold trimRowOne'
  dsimp only
  split
  · simp only [trimCell_eq_filter]
    exact checkRowOne_filter i row.cells hi hD
  · exact ⟨row.cells, checkRowOne_dense i _ hi hD, hD, fun _ => rfl⟩

/-- the rows `checkRow` produces from the saved rows -/
def reopened (rows : List Row) : List (List Cell) :=
  rows.mapIdx fun i r => match checkRowOne (i + 1) r.cells with
    | .ok o => o
    | _ => []

theorem reopened_spec (s : List Row) (h : Dense s) (i : Nat) (hi : i < s.length) :
    ∃ (h1 : i < (trimRow s).length) (h2 : i < (reopened (trimRow s)).length),
      checkRowOne (i + 1) (trimRow s)[i].cells = .ok (reopened (trimRow s))[i] ∧
      DenseRow i (reopened (trimRow s))[i] ∧ ∀ j, cAt (reopened (trimRow s))[i] j = cAt s[i].cells j := by
  have hl : (trimRow s).length = s.length := trimRow_length s
  have h1 : i < (trimRow s).length := by omega
  have h2 : i < (reopened (trimRow s)).length := by simp [reopened]; omega
  have he : (trimRow s)[i] = trimRowOne' s[i] := by
    simp only [trimRow_eq_map, List.getElem_map]
  obtain ⟨o, ho, hd, hc⟩ := checkRowOne_trimmed i s[i] (by have := h.1; omega) (h.2 i hi).2
  have hr : (reopened (trimRow s))[i] = o := by
    simp only [reopened, List.getElem_mapIdx, he, ho]
  exact ⟨h1, h2, by rw [hr, he]; exact ho, by rw [hr]; exact hd, by rw [hr]; exact hc⟩

end XlModel.Grid
