/-
Helper lemmas for the grid path (C01), fourth part: the sheet-level assembly of `trim_densify_obs`
(`checkSheet` identity on the saved rows, `checkRow` over all rows from the per-row result).
-/
import XlModel.Lemmas.SaveGrid3
namespace XlModel.Grid
open XlModel XlModel.Ref

theorem checkSheet_after_trim_l (s : List Row) (h : Dense s) : checkSheet (trimRow s) = .ok (trimRow s) := by
  apply checkSheet_seq
  · apply trimRow_seq
    apply seq_of_index
    intro i hi
    have := (h.2 i hi).1
    omega
  · rw [trimRow_length]; exact h.1

theorem cycle_dense_assembly (s : List Row) (h : Dense s) (out : List (List Cell))
    (hl : out.length = s.length)
    (hrow : ∀ i (h1 : i < (trimRow s).length) (h2 : i < out.length),
      checkRowOne (i + 1) (trimRow s)[i].cells = .ok out[i])
    (hdense : ∀ i (h2 : i < out.length), DenseRow i out[i])
    (hcontent : ∀ i (h1 : i < s.length) (h2 : i < out.length) (j : Nat),
      (out[i][j]?.map content).getD noContent = (s[i].cells[j]?.map content).getD noContent) :
    ∃ s', cycle s = .ok s' ∧ Dense s' ∧ (∀ i j, abs s' i j = abs s i j) ∧
      s'.map (fun r => (r.r, r.attrs)) = s.map (fun r => (r.r, r.attrs)) := by
  have hlen := trimRow_length s
  have hcs := checkSheet_after_trim_l s h
  have hcr := checkRowAux_of 0 (trimRow s) out (by omega) (by
    intro i h1 h2
    have := hrow i h1 h2
    simpa using this)
  refine ⟨List.zipWith (fun (r : Row) cs => { r with cells := cs }) (trimRow s) out, ?_, ?_, ?_, ?_⟩
  · simp only [cycle, densify, hcs, Res.bind, checkRow]
    exact hcr
  · constructor
    · simp only [List.length_zipWith]; have := h.1; omega
    · intro i hi
      simp only [List.length_zipWith] at hi
      simp only [List.getElem_zipWith]
      have hm := congrArg (fun l => l[i]?) (trimRow_map s)
      simp only [List.getElem?_map] at hm
      rw [List.getElem?_eq_getElem (by omega), List.getElem?_eq_getElem (by omega)] at hm
      simp only [Option.map_some, Option.some.injEq, Prod.mk.injEq] at hm
      exact ⟨by rw [hm.1]; exact (h.2 i (by omega)).1, hdense i (by omega)⟩
  · intro i j
    unfold abs
    by_cases hi : i < s.length
    · have hi2 : i < (List.zipWith (fun (r : Row) cs => { r with cells := cs }) (trimRow s) out).length := by
        simp only [List.length_zipWith]; omega
      rw [List.getElem?_eq_getElem hi2, List.getElem?_eq_getElem hi]
      simp only [List.getElem_zipWith]
      have := hcontent i hi (by omega) j
      cases h1 : out[i][j]? <;> cases h2 : s[i].cells[j]? <;> simp [h1, h2] at this ⊢ <;> exact this
    · have hi2 : ¬ i < (List.zipWith (fun (r : Row) cs => { r with cells := cs }) (trimRow s) out).length := by
        simp only [List.length_zipWith]; omega
      rw [List.getElem?_eq_none (by omega), List.getElem?_eq_none (by omega)]
  · rw [← trimRow_map s]
    apply List.ext_getElem
    · simp only [List.length_map, List.length_zipWith]; omega
    · intro i h1 h2
      simp [List.getElem_zipWith]

theorem cycle_dense (s : List Row) (h : Dense s) :
    ∃ s', cycle s = .ok s' ∧ Dense s' ∧ (∀ i j, abs s' i j = abs s i j) ∧
      s'.map (fun r => (r.r, r.attrs)) = s.map (fun r => (r.r, r.attrs)) := by
  have hl : (trimRow s).length = s.length := trimRow_length s
  have hlo : (reopened (trimRow s)).length = s.length := by simp [reopened, hl]
  apply cycle_dense_assembly s h (reopened (trimRow s)) hlo
  · intro i h1 h2
    obtain ⟨_, _, ho, _, _⟩ := reopened_spec s h i (by omega)
    exact ho
  · intro i h2
    obtain ⟨_, _, _, hd, _⟩ := reopened_spec s h i (by omega)
    exact hd
  · intro i h1 h2 j
    obtain ⟨_, _, _, _, hc⟩ := reopened_spec s h i h1
    exact hc j


end XlModel.Grid
