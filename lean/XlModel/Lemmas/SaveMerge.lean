/-
Helper lemmas for the merged-range list (C01): `flatMergedCells` changes nothing when no two stored
ranges overlap.
-/
import XlModel.SaveMerge
namespace XlModel.SaveMerge

theorem absorb_none (fuel : Nat) (cur : Rect) (cells : List Rect) (h : ∀ o ∈ cells, overlap cur o = false) :
    absorb fuel cur cells = (cur, cells) := by
  cases fuel with
  | zero => rfl
  | succ n =>
    have : cells.filter (overlap cur) = [] := List.filter_eq_nil_iff.mpr (fun o ho => by simp [h o ho])
    simp [absorb, this]

theorem normalize_fold (acc l : List Rect)
    (h1 : ∀ x ∈ l, ∀ o ∈ acc, overlap x o = false) (h2 : l.Pairwise fun a b => overlap b a = false) :
    l.foldl (fun cells cur => let p := absorb (cells.length + 1) cur cells; p.2 ++ [p.1]) acc = acc ++ l := by
  induction l generalizing acc with
  | nil => simp
  | cons x xs ih =>
    have hp := List.pairwise_cons.mp h2
    simp only [List.foldl_cons, absorb_none _ x acc (h1 x (by simp))]
    rw [ih (acc ++ [x]) ?_ hp.2]
    · simp
    · intro y hy o ho
      rcases List.mem_append.mp ho with ho | ho
      · exact h1 y (by simp [hy]) o ho
      · simp only [List.mem_singleton] at ho; subst ho; exact hp.1 y hy

/-- no two stored ranges overlap ⇒ the save leaves the list, and with it every redirect, unchanged -/
theorem normalize_of_disjoint (l : List Rect) (h : l.Pairwise fun a b => overlap b a = false) :
    normalize l = l := by
  unfold normalize
  have := normalize_fold [] l (by intro x _ o ho; cases ho) h
  simpa using this

end XlModel.SaveMerge
