/-
Helper lemmas for the merged-range list (C01): `flatMergedCells` changes nothing when no two stored
ranges overlap.
-/
import XlModel.SaveMerge
namespace XlModel.SaveMerge

theorem absorb_none (fuel : Nat) (cur : Rect) (cells : List Rect) (h : ∀ o ∈ cells, overlap cur o = false) :
    absorb fuel cur cells = (cur, cells) := by
  cases fuel with
  | zero => rfl
  | succ n =>
    have : cells.filter (overlap cur) = [] := List.filter_eq_nil_iff.mpr (fun o ho => by simp [h o ho])
    simp [absorb, this]

theorem normalize_fold (acc l : List Rect)
    (h1 : ∀ x ∈ l, ∀ o ∈ acc, overlap x o = false) (h2 : l.Pairwise fun a b => overlap b a = false) :
    l.foldl (fun cells cur => let p := absorb (cells.length + 1) cur cells; p.2 ++ [p.1]) acc = acc ++ l := by
  induction l generalizing acc with
  | nil => simp
  | cons x xs ih =>
    have hp := List.pairwise_cons.mp h2
    simp only [List.foldl_cons, absorb_none _ x acc (h1 x (by simp))]
    rw [ih (acc ++ [x]) ?_ hp.2]
    · simp
    · intro y hy o ho
      rcases List.mem_append.mp ho with ho | ho
      · exact h1 y (by simp [hy]) o ho
      · simp only [List.mem_singleton] at ho; subst ho; exact hp.1 y hy

/-- no two stored ranges overlap ⇒ the save leaves the list, and with it every redirect, unchanged -/
theorem normalize_of_disjoint (l : List Rect) (h : l.Pairwise fun a b => overlap b a = false) :
    normalize l = l := by
  unfold normalize
  have := normalize_fold [] l (by intro x _ o ho; cases ho) h
  simpa using this

/-! ### `MergeCell` as a step (round 5) -/

theorem inside_overlap (a b : Rect) (c r : Nat) (ha : inside a c r = true) (hb : inside b c r = true) :
    overlap a b = true := by
  simp only [inside, overlap, Bool.and_eq_true, decide_eq_true_eq] at *
  omega

theorem anchorOf_append_miss (l : List Rect) (m : Rect) (c r : Nat) (h : inside m c r = false) :
    anchorOf (l ++ [m]) c r = anchorOf l c r := by
  unfold anchorOf
  rw [List.find?_append]
  cases hf : l.find? (fun m => inside m c r) <;> simp [List.find?, h]

theorem anchorOf_append_hit (l : List Rect) (m : Rect) (c r : Nat) (h : inside m c r = true)
    (hn : ∀ o ∈ l, overlap m o = false) : anchorOf (l ++ [m]) c r = (m.c1, m.r1) := by
  unfold anchorOf
  rw [List.find?_append]
  have : l.find? (fun m => inside m c r) = none := by
    apply List.find?_eq_none.mpr
    intro o ho hi
    have := inside_overlap m o c r h hi
    rw [hn o ho] at this; cases this
  simp [this, List.find?, h]

theorem mergeCell_pairwise (l : List Rect) (x1 y1 x2 y2 : Nat)
    (h : l.Pairwise fun a b => overlap b a = false)
    (hn : ∀ o ∈ l, overlap (sortRect x1 y1 x2 y2) o = false) :
    (mergeCell l x1 y1 x2 y2).Pairwise fun a b => overlap b a = false := by
  unfold mergeCell
  rw [List.pairwise_append]
  refine ⟨h, by simp, ?_⟩
  intro a ha b hb
  simp only [List.mem_singleton] at hb; subst hb; exact hn a ha

/-! ### `UnmergeCell` as a step (round 5, second wave) -/

theorem find?_filter_of_imp (l : List Rect) (p q : Rect → Bool)
    (h : ∀ m ∈ l, p m = true → q m = true) : (l.filter q).find? p = l.find? p := by
  induction l with
  | nil => rfl
  | cons x xs ih =>
    have ih' := ih (fun m hm => h m (by simp [hm]))
    cases hq : q x
    · have hp : p x = false := by
        cases hp : p x
        · rfl
        · have := h x (by simp) hp; rw [hq] at this; cases this
      simp [hq, hp, ih']
    · cases hp : p x <;> simp [hq, hp, ih']

theorem unmergeCell_of_disjoint (l : List Rect) (x1 y1 x2 y2 : Nat)
    (h : l.Pairwise fun a b => overlap b a = false) :
    unmergeCell l x1 y1 x2 y2 = l.filter fun m => !overlap (sortRect x1 y1 x2 y2) m := by
  unfold unmergeCell; rw [normalize_of_disjoint l h]

theorem unmergeCell_pairwise (l : List Rect) (x1 y1 x2 y2 : Nat)
    (h : l.Pairwise fun a b => overlap b a = false) :
    (unmergeCell l x1 y1 x2 y2).Pairwise fun a b => overlap b a = false := by
  rw [unmergeCell_of_disjoint l x1 y1 x2 y2 h]; exact h.filter _

theorem anchorOf_filter_keep (l : List Rect) (q : Rect → Bool) (c r : Nat)
    (h : ∀ m ∈ l, inside m c r = true → q m = true) : anchorOf (l.filter q) c r = anchorOf l c r := by
  unfold anchorOf
  rw [find?_filter_of_imp l (fun m => inside m c r) q h]

theorem anchorOf_filter_inside (l : List Rect) (rect : Rect) (c r : Nat) (h : inside rect c r = true) :
    anchorOf (l.filter fun m => !overlap rect m) c r = (c, r) := by
  unfold anchorOf
  have : (l.filter fun m => !overlap rect m).find? (fun m => inside m c r) = none := by
    apply List.find?_eq_none.mpr
    intro o ho hi
    have ho2 := (List.mem_filter.mp ho).2
    have := inside_overlap rect o c r h (by simpa using hi)
    rw [this] at ho2; cases ho2
  rw [this]

end XlModel.SaveMerge
