/-
Helper lemmas for the shared-string bookkeeping (C01).
-/
import XlModel.SaveSst
import XlModel.Lemmas.Bstr
namespace XlModel.SaveSst
open XlModel XlModel.Bstr

theorem lookup_cons (t u : List Char) (i : Nat) (m : List (List Char × Nat)) :
    lookup ((u, i) :: m) t = if u = t then some i else lookup m t := by
  unfold lookup
  by_cases h : u = t
  · simp [List.find?_cons, h]
  · have : (u == t) = false := by simpa using h
    simp [List.find?_cons, this, h]

theorem mapOk_empty : MapOk ⟨[], []⟩ := by
  intro t i h; simp [lookup] at h

/-- `setSharedString` keeps the invariant, appends at most one item, changes no earlier item, and the
returned index holds exactly the stored text of the value -/
theorem setShared_spec (st : State) (s : List Char) (h : MapOk st) :
    MapOk (setShared st s).1 ∧
    (setShared st s).1.sst[(setShared st s).2]? = some (trimCellValue s).1 ∧
    (∀ j, j < st.sst.length → (setShared st s).1.sst[j]? = st.sst[j]?) := by
  unfold setShared
  simp only
  cases hl : lookup st.map (trimCellValue s).1 with
  | some i => exact ⟨h, h _ i hl, fun _ _ => rfl⟩
  | none =>
    simp only
    refine ⟨?_, by simp, fun j hj => by simp [List.getElem?_append_left hj]⟩
    intro t i hti
    rw [lookup_cons] at hti
    split at hti
    · rename_i hu
      cases hti
      simp [hu]
    · have := h t i hti
      have hi : i < st.sst.length := (List.getElem?_eq_some_iff.mp this).1
      simpa [List.getElem?_append_left hi] using this

theorem mapOk_loadMapFrom (pre ts : List (List Char)) (m : List (List Char × Nat))
    (hm : ∀ t i, lookup m t = some i → (pre ++ ts)[i]? = some t) :
    ∀ t i, lookup (loadMapFrom pre.length ts m) t = some i → (pre ++ ts)[i]? = some t := by
  induction ts generalizing pre m with
  | nil => simpa [loadMapFrom] using hm
  | cons u us ih =>
    intro t i h
    simp only [loadMapFrom] at h
    have e : pre ++ u :: us = (pre ++ [u]) ++ us := by simp
    have hlen : pre.length + 1 = (pre ++ [u]).length := by simp
    rw [hlen] at h
    rw [e]
    refine ih (pre ++ [u]) ((u, pre.length) :: m) ?_ t i h
    intro t' i' h'
    rw [lookup_cons] at h'
    split at h'
    · rename_i hu
      cases h'
      subst hu
      simp
    · rw [← e]; exact hm t' i' h'

/-- the map built at open satisfies the invariant -/
theorem mapOk_opened (sst : List (List Char)) : MapOk (opened sst) := by
  intro t i h
  have := mapOk_loadMapFrom [] sst [] (by intro t i h; simp [lookup] at h) t i (by simpa [opened, loadMap] using h)
  simpa [opened] using this

end XlModel.SaveSst
