import XlModel.SaveWriters
namespace XlModel.SaveWriters

theorem iter_post {σ β : Type} (w : Writer σ β) (h : NonConsuming w) :
    ∀ (n : Nat) (s : σ), w.render (iter w.post n s) = w.render s := by
  intro n
  induction n with
  | zero => intro s; rfl
  | succ n ih => intro s; simp only [iter]; rw [ih (w.post s)]; exact (h s).1

theorem altWriter_nonConsuming : NonConsuming (altWriter true) := by
  intro s
  obtain ⟨a, d⟩ := s
  cases d <;> cases a <;> simp [altWriter, altNext]

/-- what the readers see; consistent: nothing loaded ⇒ a memo, if any, equals the part -/
def Vml.cur (s : Vml) : Shapes := s.read.2

def Vml.Inv (s : Vml) : Prop := s.loaded = none → (s.memo = none ∨ s.memo = s.pkg)

theorem vstep_sim (s : Vml) (v : Shapes) (o : VOp) (hi : s.Inv) (hc : s.cur = v) :
    (vstep false s o).2 = (vspecStep v o).2 ∧ (vstep false s o).1.Inv ∧
      (vstep false s o).1.cur = (vspecStep v o).1 := by
  obtain ⟨l, p, m⟩ := s
  cases o with
  | add x =>
    cases l with
    | some lv =>
      simp only [Vml.cur, Vml.read] at hc
      subst hc
      simp [vstep, vspecStep, Vml.add, Vml.read, Vml.Inv, Vml.cur]
    | none =>
      cases m with
      | some mv =>
        simp only [Vml.cur, Vml.read, Vml.decode] at hc
        subst hc
        simp [vstep, vspecStep, Vml.add, Vml.read, Vml.decode, Vml.Inv, Vml.cur]
      | none =>
        cases p with
        | some pv =>
          simp only [Vml.cur, Vml.read, Vml.decode] at hc
          subst hc
          simp [vstep, vspecStep, Vml.add, Vml.read, Vml.decode, Vml.Inv, Vml.cur]
        | none =>
          simp only [Vml.cur, Vml.read, Vml.decode] at hc
          subst hc
          simp [vstep, vspecStep, Vml.add, Vml.read, Vml.decode, Vml.Inv, Vml.cur]
  | save =>
    cases l with
    | some lv =>
      simp only [Vml.cur, Vml.read] at hc
      subst hc
      simp [vstep, vspecStep, Vml.write, Vml.read, Vml.Inv, Vml.cur]
    | none =>
      simp [vstep, vspecStep, Vml.write]
      exact ⟨hi, hc⟩
  | read =>
    cases l with
    | some lv =>
      simp only [Vml.cur, Vml.read] at hc
      subst hc
      simp [vstep, vspecStep, Vml.read, Vml.Inv, Vml.cur]
    | none =>
      cases m with
      | some mv =>
        simp only [Vml.cur, Vml.read, Vml.decode] at hc
        subst hc
        have := hi rfl
        simp [vstep, vspecStep, Vml.read, Vml.decode, Vml.Inv, Vml.cur]
        simpa using this
      | none =>
        cases p with
        | some pv =>
          simp only [Vml.cur, Vml.read, Vml.decode] at hc
          subst hc
          simp [vstep, vspecStep, Vml.read, Vml.decode, Vml.Inv, Vml.cur]
        | none =>
          simp only [Vml.cur, Vml.read, Vml.decode] at hc
          subst hc
          simp [vstep, vspecStep, Vml.read, Vml.decode, Vml.Inv, Vml.cur]

/-! ### decoded parts in general -/

/-- the writer leaves what the readers see unchanged — unconditionally when it keeps the loaded
value, and given the round-trip law of the part's XML binding when it drops it (the value is
re-derived from the bytes just written) -/
theorem slot_write_view {α β : Type} (c : Codec α β) (zero : α) (g : α → Bool) (consumes : Bool)
    (hrt : consumes = true → c.RoundTrip) (s : Slot α β) :
    (s.write c g consumes).view c zero = s.view c zero := by
  obtain ⟨l, p⟩ := s
  cases l with
  | none => rfl
  | some a =>
    unfold Slot.write
    simp only []
    cases hg : g a with
    | false => simp
    | true =>
      cases consumes with
      | false => simp [Slot.view, Slot.read]
      | true => simp [Slot.view, Slot.read, hrt rfl a]

/-- running a writer twice leaves the state (loaded value and bytes) of running it once -/
theorem slot_write_idem {α β : Type} (c : Codec α β) (g : α → Bool) (consumes : Bool) (s : Slot α β) :
    (s.write c g consumes).write c g consumes = s.write c g consumes := by
  obtain ⟨l, p⟩ := s
  cases l with
  | none => rfl
  | some a =>
    unfold Slot.write
    simp only []
    cases hg : g a with
    | false => simp [hg]
    | true => cases consumes <;> simp [hg]

/-- the bytes a writer stores are the rendering of what the readers saw -/
theorem slot_write_part {α β : Type} (c : Codec α β) (zero : α) (g : α → Bool) (consumes : Bool)
    (s : Slot α β) (a : α) (hl : s.loaded = some a) (hg : g a = true) :
    (s.write c g consumes).part = some (c.enc (s.view c zero)) := by
  obtain ⟨l, p⟩ := s
  simp only at hl
  subst hl
  simp [Slot.write, hg, Slot.view, Slot.read]

theorem sstep_sim {α β : Type} (c : Codec α β) (zero : α) (g : α → Bool) (consumes : Bool)
    (hrt : consumes = true → c.RoundTrip) (s : Slot α β) (a : α) (o : SOp α) (h : s.view c zero = a) :
    (sstep c zero g consumes s o).2 = (sspecStep a o).2 ∧
    (sstep c zero g consumes s o).1.view c zero = (sspecStep a o).1 := by
  cases o with
  | update f =>
    obtain ⟨l, p⟩ := s
    cases l <;> simp_all [sstep, sspecStep, Slot.update, Slot.read, Slot.view]
  | read =>
    obtain ⟨l, p⟩ := s
    cases l <;> simp_all [sstep, sspecStep, Slot.read, Slot.view]
  | save =>
    refine ⟨rfl, ?_⟩
    simp only [sstep, sspecStep]
    rw [slot_write_view c zero g consumes hrt s]; exact h

theorem srun_sim {α β : Type} (c : Codec α β) (zero : α) (g : α → Bool) (consumes : Bool)
    (hrt : consumes = true → c.RoundTrip) : ∀ (ops : List (SOp α)) (s : Slot α β) (a : α),
    s.view c zero = a →
    (srun c zero g consumes s ops).2 = (sspec a ops).2 ∧
    (srun c zero g consumes s ops).1.view c zero = (sspec a ops).1 := by
  intro ops
  induction ops with
  | nil => intro s a h; exact ⟨rfl, h⟩
  | cons o os ih =>
    intro s a h
    obtain ⟨e1, v1⟩ := sstep_sim c zero g consumes hrt s a o h
    obtain ⟨e2, v2⟩ := ih _ _ v1
    simp only [srun, sspec]
    exact ⟨by rw [e1, e2], v2⟩

theorem savePkg_view {α β : Type} (c : Codec α β) (zero : α) (g : α → Bool) :
    ∀ (fs : List Bool) (ss : List (Slot α β)), (∀ f ∈ fs, f = true → c.RoundTrip) →
    (savePkg c g fs ss).map (Slot.view c zero) = ss.map (Slot.view c zero) := by
  intro fs
  induction fs with
  | nil => intro ss _; cases ss <;> rfl
  | cons f fs ih =>
    intro ss hrt
    cases ss with
    | nil => rfl
    | cons s ss =>
      simp only [savePkg, List.map_cons]
      rw [slot_write_view c zero g f (hrt f List.mem_cons_self) s,
        ih ss (fun x hx => hrt x (List.mem_cons_of_mem _ hx))]

theorem savePkg_idem {α β : Type} (c : Codec α β) (g : α → Bool) : ∀ (fs : List Bool) (ss : List (Slot α β)),
    savePkg c g fs (savePkg c g fs ss) = savePkg c g fs ss := by
  intro fs
  induction fs with
  | nil => intro ss; cases ss <;> rfl
  | cons f fs ih =>
    intro ss
    cases ss with
    | nil => rfl
    | cons s ss =>
      simp only [savePkg]
      rw [slot_write_idem c g f s, ih ss]

end XlModel.SaveWriters
