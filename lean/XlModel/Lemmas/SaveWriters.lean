import XlModel.SaveWriters
namespace XlModel.SaveWriters

theorem iter_post {σ β : Type} (w : Writer σ β) (h : NonConsuming w) :
    ∀ (n : Nat) (s : σ), w.render (iter w.post n s) = w.render s := by
  intro n
  induction n with
  | zero => intro s; rfl
  | succ n ih => intro s; simp only [iter]; rw [ih (w.post s)]; exact (h s).1

theorem altWriter_nonConsuming : NonConsuming (altWriter true) := by
  intro s
  obtain ⟨a, d⟩ := s
  cases d <;> cases a <;> simp [altWriter, altNext]

/-- what the readers see; consistent: nothing loaded ⇒ a memo, if any, equals the part -/
def Vml.cur (s : Vml) : Shapes := s.read.2

def Vml.Inv (s : Vml) : Prop := s.loaded = none → (s.memo = none ∨ s.memo = s.pkg)

theorem vstep_sim (s : Vml) (v : Shapes) (o : VOp) (hi : s.Inv) (hc : s.cur = v) :
    (vstep false s o).2 = (vspecStep v o).2 ∧ (vstep false s o).1.Inv ∧
      (vstep false s o).1.cur = (vspecStep v o).1 := by
  obtain ⟨l, p, m⟩ := s
  cases o with
  | add x =>
    cases l with
    | some lv =>
      simp only [Vml.cur, Vml.read] at hc
      subst hc
      simp [vstep, vspecStep, Vml.add, Vml.read, Vml.Inv, Vml.cur]
    | none =>
      cases m with
      | some mv =>
        simp only [Vml.cur, Vml.read, Vml.decode] at hc
        subst hc
        simp [vstep, vspecStep, Vml.add, Vml.read, Vml.decode, Vml.Inv, Vml.cur]
      | none =>
        cases p with
        | some pv =>
          simp only [Vml.cur, Vml.read, Vml.decode] at hc
          subst hc
          simp [vstep, vspecStep, Vml.add, Vml.read, Vml.decode, Vml.Inv, Vml.cur]
        | none =>
          simp only [Vml.cur, Vml.read, Vml.decode] at hc
          subst hc
          simp [vstep, vspecStep, Vml.add, Vml.read, Vml.decode, Vml.Inv, Vml.cur]
  | save =>
    cases l with
    | some lv =>
      simp only [Vml.cur, Vml.read] at hc
      subst hc
      simp [vstep, vspecStep, Vml.write, Vml.read, Vml.Inv, Vml.cur]
    | none =>
      simp [vstep, vspecStep, Vml.write]
      exact ⟨hi, hc⟩
  | read =>
    cases l with
    | some lv =>
      simp only [Vml.cur, Vml.read] at hc
      subst hc
      simp [vstep, vspecStep, Vml.read, Vml.Inv, Vml.cur]
    | none =>
      cases m with
      | some mv =>
        simp only [Vml.cur, Vml.read, Vml.decode] at hc
        subst hc
        have := hi rfl
        simp [vstep, vspecStep, Vml.read, Vml.decode, Vml.Inv, Vml.cur]
        simpa using this
      | none =>
        cases p with
        | some pv =>
          simp only [Vml.cur, Vml.read, Vml.decode] at hc
          subst hc
          simp [vstep, vspecStep, Vml.read, Vml.decode, Vml.Inv, Vml.cur]
        | none =>
          simp only [Vml.cur, Vml.read, Vml.decode] at hc
          subst hc
          simp [vstep, vspecStep, Vml.read, Vml.decode, Vml.Inv, Vml.cur]

end XlModel.SaveWriters
