import XlModel.Settings
namespace XlModel.Settings
open XlModel

/-! ## records -/

theorem get_set_same {r : Rec} {n : String} {v x : FVal} (h : r.get n = some x) :
    (r.set n v).get n = some v := by
  induction r with
  | nil => simp [Rec.get] at h
  | cons p r ih =>
    obtain ⟨k, b⟩ := p
    by_cases hk : k = n
    · simp [Rec.get, Rec.set, hk]
    · simp only [Rec.get, Rec.set, hk, if_false] at h ⊢
      exact ih h

theorem get_set_other {r : Rec} {n m : String} {v : FVal} (h : n ≠ m) :
    (r.set n v).get m = r.get m := by
  induction r with
  | nil => rfl
  | cons p r ih =>
    obtain ⟨k, b⟩ := p
    by_cases hk : k = n
    · subst hk
      simp [Rec.get, Rec.set, h, ih]
    · simp only [Rec.get, Rec.set, hk, if_false]
      by_cases hm : k = m <;> simp [hm, ih]

/-! ## setNoPtrFieldsVal / setPtrFieldsVal -/

/-- typing of one field for a pointer-option setter: pointer of a handled kind in the
options, plain field of the same kind in the part -/
def OKn (o p : Rec) (f : String) : Prop :=
  ∃ k ov w, o.get f = some (.ptr k ov) ∧ (∀ v, ov = some v → v.kind = k) ∧
    (kindCase k = true ∨ k = .str) ∧ p.get f = some (.plain w) ∧ w.kind = k

def updN (fs : List String) (o p : Rec) (x : String) : Option FVal :=
  if x ∈ fs then
    (match o.get x with
     | some (.ptr _ (some v)) => some (.plain v)
     | _ => p.get x)
  else p.get x

theorem assign_ok {f : String} {v w : Val} {p : Rec} (hc : kindCase v.kind = true ∨ v.kind = .str)
    (hp : p.get f = some (.plain w)) (hw : w.kind = v.kind) :
    assign f (some v) p = .ok (p.set f (.plain v)) := by
  have : (kindCase v.kind || decide (v.kind = .str)) = true := by
    rcases hc with h | h <;> simp [h]
  simp [assign, this, store, hp, hw]

theorem setNoPtr_spec : ∀ (fs : List String) (o p : Rec), (∀ f ∈ fs, OKn o p f) →
    ∃ p', setNoPtr fs o p = .ok p' ∧ ∀ x, p'.get x = updN fs o p x := by
  intro fs
  induction fs with
  | nil => intro o p _; exact ⟨p, rfl, fun x => by simp [updN]⟩
  | cons f fs ih =>
    intro o p h
    obtain ⟨k, ov, w, ho, hk, hc, hp, hw⟩ := h f (by simp)
    cases ov with
    | none =>
      obtain ⟨p', h1, h2⟩ := ih o p (fun g hg => h g (by simp [hg]))
      refine ⟨p', by simp [setNoPtr, ho, h1], fun x => ?_⟩
      rw [h2 x]
      unfold updN
      by_cases hx : x = f
      · subst hx; simp [ho]
      · simp [hx]
    | some v =>
      have hvk : v.kind = k := hk v rfl
      have ha : assign f (some v) p = .ok (p.set f (.plain v)) :=
        assign_ok (by rw [hvk]; exact hc) hp (by rw [hw, hvk])
      have hok : ∀ g ∈ fs, OKn o (p.set f (.plain v)) g := by
        intro g hg
        obtain ⟨k', ov', w', ho', hk', hc', hp', hw'⟩ := h g (by simp [hg])
        by_cases hgf : f = g
        · subst hgf
          rw [ho] at ho'
          injection ho' with e; injection e with e1 e2
          exact ⟨k', ov', v, by rw [ho, e1, e2], hk', hc', get_set_same hp, by rw [hvk, e1]⟩
        · exact ⟨k', ov', w', ho', hk', hc', by rw [get_set_other hgf]; exact hp', hw'⟩
      obtain ⟨p', h1, h2⟩ := ih o (p.set f (.plain v)) hok
      refine ⟨p', by simp [setNoPtr, ho, ha, h1], fun x => ?_⟩
      rw [h2 x]
      unfold updN
      by_cases hx : x = f
      · subst hx
        by_cases hm : x ∈ fs
        · simp [hm, ho]
        · simp [hm, ho, get_set_same hp]
      · have hne : f ≠ x := fun e => hx e.symm
        by_cases hm : x ∈ fs
        · simp [hm, hx, get_set_other hne]
        · simp [hm, hx, get_set_other hne]

/-- typing of one field for the getter: plain field in the part, pointer of the same
kind in the options being filled -/
def OKp (p g : Rec) (f : String) : Prop :=
  ∃ k w gv, p.get f = some (.plain w) ∧ w.kind = k ∧ g.get f = some (.ptr k gv)

def updP (fs : List String) (p g : Rec) (x : String) : Option FVal :=
  if x ∈ fs then
    (match p.get x with
     | some (.plain w) => if w.isZero then g.get x else some (.ptr w.kind (some w))
     | _ => g.get x)
  else g.get x

theorem setPtr_spec : ∀ (fs : List String) (p g : Rec), (∀ f ∈ fs, OKp p g f) →
    ∃ g', setPtr fs p g = .ok g' ∧ ∀ x, g'.get x = updP fs p g x := by
  intro fs
  induction fs with
  | nil => intro p g _; exact ⟨g, rfl, fun x => by simp [updP]⟩
  | cons f fs ih =>
    intro p g h
    obtain ⟨k, w, gv, hp, hw, hg⟩ := h f (by simp)
    by_cases hz : w.isZero = true
    · obtain ⟨g', h1, h2⟩ := ih p g (fun a ha => h a (by simp [ha]))
      refine ⟨g', by simp [setPtr, hp, hz, h1], fun x => ?_⟩
      rw [h2 x]
      unfold updP
      by_cases hx : x = f
      · subst hx; simp [hp, hz]
      · simp [hx]
    · have hok : ∀ a ∈ fs, OKp p (g.set f (.ptr k (some w))) a := by
        intro a ha
        obtain ⟨k', w', gv', hp', hw', hg'⟩ := h a (by simp [ha])
        by_cases haf : f = a
        · subst haf
          rw [hp] at hp'
          injection hp' with e; injection e with e1
          subst e1
          exact ⟨k, w, some w, hp, hw, get_set_same hg⟩
        · exact ⟨k', w', gv', hp', hw', by rw [get_set_other haf]; exact hg'⟩
      obtain ⟨g', h1, h2⟩ := ih p (g.set f (.ptr k (some w))) hok
      refine ⟨g', by simp [setPtr, hp, hz, hg, hw, h1], fun x => ?_⟩
      rw [h2 x]
      unfold updP
      by_cases hx : x = f
      · subst hx
        by_cases hm : x ∈ fs
        · simp [hm, hp, hz]
        · simp [hm, hp, hz, get_set_same hg, hw]
      · have hne : f ≠ x := fun e => hx e.symm
        by_cases hm : x ∈ fs
        · simp [hm, hx, get_set_other hne]
        · simp [hm, hx, get_set_other hne]

/-! ## formula escapers -/

theorem escTbl_eq : escTbl = [(['&'], ['&','a','m','p',';']), (['<'], ['&','l','t',';']), (['>'], ['&','g','t',';'])] := by decide
theorem unescTbl_eq : unescTbl = [(['&','a','m','p',';'], ['&']), (['&','l','t',';'], ['<']), (['&','g','t',';'], ['>'])] := by decide

def escChar (c : Char) : List Char :=
  if c = '&' then ['&','a','m','p',';'] else if c = '<' then ['&','l','t',';'] else if c = '>' then ['&','g','t',';'] else [c]

theorem escape_cons (c : Char) (s : List Char) : escape (c :: s) = escChar c ++ escape s := by
  unfold escape replace escChar
  rw [escTbl_eq]
  by_cases h1 : c = '&'
  · subst h1; simp [replaceGo, lookupRep, List.find?, List.isPrefixOf]
  · by_cases h2 : c = '<'
    · subst h2; simp [replaceGo, lookupRep, List.find?, List.isPrefixOf]
    · by_cases h3 : c = '>'
      · subst h3; simp [replaceGo, lookupRep, List.find?, List.isPrefixOf]
      · have e1 : ('&' == c) = false := by simp [Ne.symm h1]
        have e2 : ('<' == c) = false := by simp [Ne.symm h2]
        have e3 : ('>' == c) = false := by simp [Ne.symm h3]
        simp [replaceGo, lookupRep, List.find?, List.isPrefixOf, e1, e2, e3, h1, h2, h3]

theorem unescape_amp (s : List Char) : unescape ('&'::'a'::'m'::'p'::';'::s) = '&' :: unescape s := by
  unfold unescape replace; rw [unescTbl_eq]
  simp [replaceGo, lookupRep, List.find?, List.isPrefixOf]
theorem unescape_lt (s : List Char) : unescape ('&'::'l'::'t'::';'::s) = '<' :: unescape s := by
  unfold unescape replace; rw [unescTbl_eq]
  simp [replaceGo, lookupRep, List.find?, List.isPrefixOf]
theorem unescape_gt (s : List Char) : unescape ('&'::'g'::'t'::';'::s) = '>' :: unescape s := by
  unfold unescape replace; rw [unescTbl_eq]
  simp [replaceGo, lookupRep, List.find?, List.isPrefixOf]
theorem unescape_other (c : Char) (s : List Char) (h : c ≠ '&') : unescape (c :: s) = c :: unescape s := by
  unfold unescape replace; rw [unescTbl_eq]
  have e1 : ('&' == c) = false := by simp [Ne.symm h]
  simp [replaceGo, lookupRep, List.find?, List.isPrefixOf, e1]

theorem unescape_escape (s : List Char) : unescape (escape s) = s := by
  induction s with
  | nil => rfl
  | cons c s ih =>
    rw [escape_cons]
    unfold escChar
    by_cases h1 : c = '&'
    · subst h1; simp [unescape_amp, ih]
    · by_cases h2 : c = '<'
      · subst h2; simp [unescape_lt, ih]
      · by_cases h3 : c = '>'
        · subst h3; simp [unescape_gt, ih]
        · simp [h1, h2, h3, unescape_other c _ h1, ih]

/-! ## drop-list quoting -/

theorem quoteTbl_eq : quoteTbl = [(['"'], ['"','"'])] := by decide
theorem unquoteTbl_eq : unquoteTbl = [(['"','"'], ['"'])] := by decide

def quoteChar (c : Char) : List Char := if c = '"' then ['"','"'] else [c]

theorem quote_cons (c : Char) (s : List Char) : quote (c :: s) = quoteChar c ++ quote s := by
  unfold quote replace quoteChar
  rw [quoteTbl_eq]
  by_cases h1 : c = '"'
  · subst h1; simp [replaceGo, lookupRep, List.find?, List.isPrefixOf]
  · have e1 : ('"' == c) = false := by simp [Ne.symm h1]
    simp [replaceGo, lookupRep, List.find?, List.isPrefixOf, e1, h1]

theorem quote_nil : quote [] = [] := rfl

theorem quote_append (a b : List Char) : quote (a ++ b) = quote a ++ quote b := by
  induction a with
  | nil => simp [quote_nil]
  | cons c a ih => simp [quote_cons, ih]

theorem unquote_qq (s : List Char) : unquote ('"'::'"'::s) = '"' :: unquote s := by
  unfold unquote replace; rw [unquoteTbl_eq]
  simp [replaceGo, lookupRep, List.find?, List.isPrefixOf]
theorem unquote_q_other (c : Char) (s : List Char) (h : c ≠ '"') : unquote ('"' :: c :: s) = '"' :: unquote (c :: s) := by
  unfold unquote replace; rw [unquoteTbl_eq]
  have e1 : ('"' == c) = false := by simp [Ne.symm h]
  simp [replaceGo, lookupRep, List.find?, List.isPrefixOf, e1]
theorem unquote_q_end : unquote ['"'] = ['"'] := by decide
theorem unquote_other (c : Char) (s : List Char) (h : c ≠ '"') : unquote (c :: s) = c :: unquote s := by
  unfold unquote replace; rw [unquoteTbl_eq]
  have e1 : ('"' == c) = false := by simp [Ne.symm h]
  simp [replaceGo, lookupRep, List.find?, List.isPrefixOf, e1]

theorem unquote_quote_append (g rest : List Char) : unquote (quote g ++ rest) = g ++ unquote rest := by
  induction g with
  | nil => simp [quote_nil]
  | cons c g ih =>
    rw [quote_cons]; unfold quoteChar
    by_cases h : c = '"'
    · subst h; simp [unquote_qq, ih]
    · simp [h, unquote_other c _ h, ih]

theorem unquote_wrapped (g : List Char) (h : ∃ c ∈ g, c ≠ '"') :
    unquote ('"' :: quote g ++ ['"']) = '"' :: g ++ ['"'] := by
  induction g with
  | nil => obtain ⟨c, hc, _⟩ := h; simp at hc
  | cons c g ih =>
    rw [quote_cons]; unfold quoteChar
    by_cases hq : c = '"'
    · subst hq
      have h' : ∃ c ∈ g, c ≠ '"' := by
        obtain ⟨d, hd, hne⟩ := h
        simp at hd
        rcases hd with e | e
        · exact absurd e hne
        · exact ⟨d, e, hne⟩
      have := ih h'
      simp only [if_true, List.cons_append, List.nil_append] at this ⊢
      rw [unquote_qq, this]
    · simp only [hq, if_false, List.cons_append, List.nil_append]
      rw [unquote_q_other c _ hq, unquote_other c _ hq, unquote_quote_append, unquote_q_end]

theorem quote_escChar (c : Char) (h : c ≠ '"') : quote (escChar c) = escChar c := by
  unfold escChar
  by_cases h1 : c = '&'
  · subst h1; decide
  · by_cases h2 : c = '<'
    · subst h2; decide
    · by_cases h3 : c = '>'
      · subst h3; decide
      · simp [h1, h2, h3, quote_cons, quoteChar, h, quote_nil]

theorem unescape_quote_escape (f r : List Char) :
    unescape (quote (escape f) ++ r) = quote f ++ unescape r := by
  induction f with
  | nil => rfl
  | cons c f ih =>
    rw [escape_cons, quote_append, quote_cons c f, List.append_assoc, List.append_assoc]
    by_cases hq : c = '"'
    · subst hq
      have : quote (escChar '"') = ['"', '"'] := by decide
      rw [this]
      have e : quoteChar '"' = ['"', '"'] := by decide
      rw [e]
      simp only [List.cons_append, List.nil_append]
      rw [unescape_other _ _ (by decide), unescape_other _ _ (by decide), ih]
    · rw [quote_escChar c hq]
      have e : quoteChar c = [c] := by simp [quoteChar, hq]
      rw [e]
      unfold escChar
      by_cases h1 : c = '&'
      · subst h1; simp [unescape_amp, ih]
      · by_cases h2 : c = '<'
        · subst h2; simp [unescape_lt, ih]
        · by_cases h3 : c = '>'
          · subst h3; simp [unescape_gt, ih]
          · simp [h1, h2, h3, unescape_other c _ h1, ih]


/-! ## XOR hash -/

theorem xorTerm_table : ∀ v : Fin 128, ∀ p : Fin 15, xorTerm v.val p.val < 32768 := by decide +kernel

theorem xorTerm_mod (v pos : Nat) : xorTerm v pos = xorTerm v (pos % 15) := by
  unfold xorTerm
  simp

/-- every ASCII character contributes a 15-bit value, at any position -/
theorem xorTerm_small (v pos : Nat) (hv : v < 128) : xorTerm v pos < 32768 := by
  rw [xorTerm_mod]
  exact xorTerm_table ⟨v, hv⟩ ⟨pos % 15, Nat.mod_lt _ (by omega)⟩

theorem xorFold_lt : ∀ (runes : List Nat) (acc pos : Nat), acc < 32768 → (∀ v ∈ runes, v < 128) →
    xorFold acc pos runes < 32768 := by
  intro runes
  induction runes with
  | nil => intro acc pos h _; exact h
  | cons v vs ih =>
    intro acc pos hacc hr
    have hv : v < 128 := hr v (by simp)
    have ht : xorTerm v pos < 32768 := xorTerm_small v pos hv
    have hx : acc ^^^ xorTerm v pos < 2 ^ 15 := Nat.xor_lt_two_pow (by omega) (by omega)
    exact ih (acc ^^^ xorTerm v pos) (pos + 1) (by omega) (fun u hu => hr u (by simp [hu]))

/-! ## defined names -/

theorem delFirst_spec (p : XDN → Bool) : ∀ (l l' : List XDN), delFirst p l = some l' →
    ∃ l1 x l2, l = l1 ++ x :: l2 ∧ l' = l1 ++ l2 ∧ p x = true ∧ ∀ y ∈ l1, p y = false := by
  intro l
  induction l with
  | nil => intro l' h; simp [delFirst] at h
  | cons a l ih =>
    intro l' h
    by_cases ha : p a = true
    · simp [delFirst, ha] at h
      exact ⟨[], a, l, by simp, by simp [h], ha, by simp⟩
    · simp only [delFirst, ha] at h
      cases hd : delFirst p l with
      | none => simp [hd] at h
      | some m =>
        simp [hd] at h
        obtain ⟨l1, x, l2, e1, e2, hx, hall⟩ := ih m hd
        refine ⟨a :: l1, x, l2, by simp [e1], by simp [← h, e2], hx, ?_⟩
        intro y hy
        simp at hy
        rcases hy with e | e
        · subst e; simpa using ha
        · exact hall y e

end XlModel.Settings
