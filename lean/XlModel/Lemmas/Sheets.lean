/-
Helper lemmas for the sheet-collection model (C16): list facts, frame lemmas
(which fields an operation leaves alone) and the shape of the sheet list after
each operation.
-/
import XlModel.Sheets

namespace XlModel.Sheets
open XlModel

/-! ### lists -/

theorem idxOf?_lt {α} (p : α → Bool) : ∀ (l : List α) (i : Nat), idxOf? p l = some i → i < l.length
  | [], i, h => by simp [idxOf?] at h
  | x :: xs, i, h => by
    unfold idxOf? at h
    split at h
    · cases h; simp
    · cases hr : idxOf? p xs with
      | none => simp [hr] at h
      | some j =>
        simp [hr] at h
        have := idxOf?_lt p xs j hr
        subst h; simp; omega

theorem idxOf?_getElem {α} (p : α → Bool) : ∀ (l : List α) (i : Nat), idxOf? p l = some i →
    ∃ x, l[i]? = some x ∧ p x = true
  | [], i, h => by simp [idxOf?] at h
  | x :: xs, i, h => by
    unfold idxOf? at h
    split at h
    · cases h; exact ⟨x, by simp, by assumption⟩
    · cases hr : idxOf? p xs with
      | none => simp [hr] at h
      | some j =>
        simp [hr] at h
        obtain ⟨y, hy, hp⟩ := idxOf?_getElem p xs j hr
        subst h
        exact ⟨y, by simpa using hy, hp⟩

theorem idxOf?_none {α} (p : α → Bool) : ∀ (l : List α), idxOf? p l = none → ∀ x ∈ l, p x = false
  | [], _, x, hx => by simp at hx
  | y :: ys, h, x, hx => by
    unfold idxOf? at h
    split at h
    · cases h
    · rename_i hy
      cases hr : idxOf? p ys with
      | some j => simp [hr] at h
      | none =>
        rcases List.mem_cons.mp hx with rfl | hx'
        · simpa using hy
        · exact idxOf?_none p ys hr x hx'

theorem idxOf?_isSome_of_mem {α} (p : α → Bool) (l : List α) (x : α) (hx : x ∈ l) (hp : p x = true) :
    ∃ i, idxOf? p l = some i := by
  cases h : idxOf? p l with
  | some i => exact ⟨i, rfl⟩
  | none => have := idxOf?_none p l h x hx; simp [hp] at this

theorem le_maxOf : ∀ (l : List Nat) (x : Nat), x ∈ l → x ≤ maxOf l
  | [], x, h => by simp at h
  | y :: ys, x, h => by
    simp only [maxOf, List.foldr_cons]
    rcases List.mem_cons.mp h with rfl | h'
    · omega
    · have := le_maxOf ys x h'
      simp only [maxOf] at this
      omega

theorem le_skipTaken (taken : List Nat) : ∀ (fuel id : Nat), id ≤ skipTaken taken fuel id
  | 0, _ => Nat.le_refl _
  | fuel + 1, id => by
    unfold skipTaken
    split
    · exact Nat.le_trans (Nat.le_succ id) (le_skipTaken taken fuel (id + 1))
    · exact Nat.le_refl _

/-- the id `NewSheet` allocates is larger than every listed sheet id -/
theorem newSheetID_gt (s : St) : maxOf (s.sheets.map (·.id)) < newSheetID s := by
  unfold newSheetID
  dsimp only
  split
  · exact Nat.lt_of_lt_of_le (Nat.lt_succ_self _) (le_skipTaken _ _ _)
  · exact Nat.lt_succ_self _

theorem perm_cons_eraseIdx {α} : ∀ (l : List α) (i : Nat) (x : α), l[i]? = some x →
    (x :: l.eraseIdx i).Perm l
  | [], i, x, h => by simp at h
  | a :: t, 0, x, h => by simp at h; subst h; simp
  | a :: t, i + 1, x, h => by
    simp at h
    have ih := perm_cons_eraseIdx t i x h
    simp only [List.eraseIdx_cons_succ]
    exact (List.Perm.swap a x _).trans (List.Perm.cons a ih)

/-- the splice of `MoveSheet` is a permutation -/
theorem perm_splice {α} (l : List α) (i t : Nat) (x : α) (h : l[i]? = some x) :
    ((l.eraseIdx i).take t ++ x :: (l.eraseIdx i).drop t).Perm l := by
  have h1 : ((l.eraseIdx i).take t ++ x :: (l.eraseIdx i).drop t).Perm
      (x :: ((l.eraseIdx i).take t ++ (l.eraseIdx i).drop t)) := List.perm_middle
  rw [List.take_append_drop] at h1
  exact h1.trans (perm_cons_eraseIdx l i x h)

/-- replacing the value of the (at most one) element selected by `p` with a fresh value keeps `Nodup` -/
theorem nodup_map_replace {α β} [DecidableEq β] (g : α → β) (p : α → Bool) (c v : β)
    (hp : ∀ x, p x = true → g x = c) :
    ∀ (l : List α), (l.map g).Nodup → (∀ x ∈ l, g x ≠ v) →
      (l.map fun x => if p x then v else g x).Nodup
  | [], _, _ => by simp
  | a :: t, hn, hf => by
    simp only [List.map_cons, List.nodup_cons] at hn ⊢
    have ih := nodup_map_replace g p c v hp t hn.2 (fun x hx => hf x (List.mem_cons_of_mem _ hx))
    refine ⟨?_, ih⟩
    intro hmem
    obtain ⟨y, hy, hyv⟩ := List.mem_map.mp hmem
    by_cases hpa : p a = true
    · simp only [hpa, if_true] at hyv
      by_cases hpy : p y = true
      · exact hn.1 (List.mem_map.mpr ⟨y, hy, by rw [hp y hpy, hp a hpa]⟩)
      · simp only [hpy] at hyv
        exact hf y (List.mem_cons_of_mem _ hy) (by simpa using hyv)
    · simp only [hpa] at hyv
      by_cases hpy : p y = true
      · simp only [hpy, if_true] at hyv
        exact hf a (List.mem_cons_self) (by simpa using hyv.symm)
      · simp only [hpy] at hyv
        exact hn.1 (List.mem_map.mpr ⟨y, hy, by simpa using hyv⟩)


/-! ### facts the model is defined over (regenerated from the Go source) -/

@[simp] theorem fact_foldGetSheetIndex : Facts.C16.foldGetSheetIndex = true := rfl
@[simp] theorem fact_foldGetSheetXMLPath : Facts.C16.foldGetSheetXMLPath = true := rfl
@[simp] theorem fact_foldGetSheetID : Facts.C16.foldGetSheetID = true := rfl
@[simp] theorem fact_foldDeleteSheet : Facts.C16.foldDeleteSheet = true := rfl
@[simp] theorem fact_foldSetSheetVisible : Facts.C16.foldSetSheetVisible = true := rfl
@[simp] theorem fact_foldGroupSheets : Facts.C16.foldGroupSheets = true := rfl
@[simp] theorem fact_foldMoveSheet : Facts.C16.foldMoveSheet = true := rfl
@[simp] theorem fact_renameSourceExact : Facts.C16.renameSourceExact = true := rfl
@[simp] theorem fact_renameClashCheck : Facts.C16.renameClashCheck = true := rfl
@[simp] theorem fact_deleteKeepsVisible : Facts.C16.deleteKeepsVisible = true := rfl
@[simp] theorem fact_hideCountsVisibleOthers : Facts.C16.hideCountsVisibleOthers = true := rfl
@[simp] theorem fact_moveRenumbersLocalSheetId : Facts.C16.moveRenumbersLocalSheetId = true := rfl
@[simp] theorem fact_deleteAdjustsDefinedNames : Facts.C16.deleteAdjustsDefinedNames = true := rfl

@[simp] theorem nameEq_true (a b : Name) : nameEq true a b = eqFold a b := rfl

theorem eqFold_iff (a b : Name) : eqFold a b = true ↔ fold a = fold b := by
  simp [eqFold]

theorem eqFold_false_iff (a b : Name) : eqFold a b = false ↔ fold a ≠ fold b := by
  simp [eqFold]

theorem validName_iff (n : Name) : validName n = true ↔ checkSheetName n = .ok () := by
  unfold validName
  cases h : checkSheetName n <;> simp

/-! ### the fields the list invariants speak about -/

structure Core where
  count : Nat
  activeTab : Nat
  sheets : List Sheet
  defs : List DefName

def core (s : St) : Core := ⟨s.count, s.activeTab, s.sheets, s.defs⟩

theorem setSelLoop_core (index : Nat) : ∀ (ns : List Name) (idx : Nat) (s : St),
    core (setSelLoop index idx ns s) = core s
  | [], _, _ => rfl
  | n :: ns, idx, s => by
    unfold setSelLoop
    split
    · rfl
    · rw [setSelLoop_core index ns]; rfl

theorem setActiveSheet_core (s : St) (i : Nat) :
    core (setActiveSheet s i) =
      ⟨s.count, if i < s.sheets.length then i else s.activeTab, s.sheets, s.defs⟩ := by
  unfold setActiveSheet
  simp only [setSelLoop_core]
  split <;> rfl

theorem ungroupLoop_core (a : Nat) : ∀ (ns : List Name) (idx : Nat) (s s' : St),
    ungroupLoop a idx ns s = .ok s' → core s' = core s
  | [], _, s, s', h => by simp [ungroupLoop] at h; subst h; rfl
  | n :: ns, idx, s, s', h => by
    unfold ungroupLoop at h
    split at h
    · exact ungroupLoop_core a ns _ s s' h
    · split at h
      · cases h
      · rw [ungroupLoop_core a ns _ _ s' h]; rfl

theorem ungroupSheets_core (s s' : St) (h : ungroupSheets s = .ok s') : core s' = core s :=
  ungroupLoop_core _ _ _ s s' h


/-! ### the invariant -/

structure InvC (c : Core) : Prop where
  nonempty : c.sheets ≠ []
  count_eq : c.count = c.sheets.length
  active_lt : c.activeTab < c.sheets.length
  valid : ∀ sh ∈ c.sheets, validName sh.name = true
  uniq_ci : (c.sheets.map fun sh => fold sh.name).Nodup
  uniq_id : (c.sheets.map (·.id)).Nodup
  some_vis : ∃ sh ∈ c.sheets, sh.state = Vis.visible
  defs_ok : ∀ d ∈ c.defs, ∀ l, d.loc = some l → l < c.sheets.length

/-- the list invariant of a workbook state -/
def Inv (s : St) : Prop := InvC (core s)

theorem isVisible_iff (v : Vis) : isVisible v = true ↔ v = Vis.visible := by
  cases v <;> simp [isVisible] <;> decide

/-! ### getters -/

theorem getSheetIndex_ok (s : St) (n : Name) (r : Option Nat) (h : getSheetIndex s n = .ok r) :
    validName n = true ∧ r = idxOf? (fun sh => eqFold sh.name n) s.sheets := by
  unfold getSheetIndex at h
  split at h
  · cases h
  · rename_i hc
    simp only [fact_foldGetSheetIndex, nameEq_true] at h
    cases h
    exact ⟨by unfold validName; rw [hc], rfl⟩

theorem sheetIndexD_some (s : St) (n : Name) (i : Nat) (h : sheetIndexD s n = some i) :
    validName n = true ∧ idxOf? (fun sh => eqFold sh.name n) s.sheets = some i := by
  unfold sheetIndexD at h
  split at h
  · rename_i r hg
    have := getSheetIndex_ok s n r hg
    subst h
    exact ⟨this.1, this.2.symm⟩
  · cases h

theorem sheetIndexD_lt (s : St) (n : Name) (i : Nat) (h : sheetIndexD s n = some i) :
    i < s.sheets.length :=
  idxOf?_lt _ _ _ (sheetIndexD_some s n i h).2

theorem sheetIndexD_of_ok (s : St) (n : Name) (r : Option Nat) (h : getSheetIndex s n = .ok r) :
    sheetIndexD s n = r := by
  unfold sheetIndexD; rw [h]

theorem deleteSheet_absent (s : St) (n : Name) (hv : validName n = true) (h : sheetIndexD s n = none) :
    deleteSheet s n = .ok s := by
  unfold deleteSheet
  rw [(validName_iff n).mp hv]
  simp only [h]

theorem newSheet_core (s s' : St) (n : Name) (r : Option Nat) (h : newSheet s n = .ok (s', r)) :
    s' = s ∨ (validName n = true ∧ (∀ sh ∈ s.sheets, fold sh.name ≠ fold n) ∧
      ∃ rid, core s' = ⟨s.count + 1, s.activeTab,
        s.sheets ++ [⟨n, newSheetID s, rid, Vis.visible⟩], s.defs⟩) := by
  unfold newSheet at h
  split at h
  · cases h
  · cases h; left; rfl
  · rename_i hg
    obtain ⟨hv, hnone⟩ := getSheetIndex_ok _ _ _ hg
    have hd : deleteSheet s n = .ok s := deleteSheet_absent s n hv (sheetIndexD_of_ok s n none hg)
    rw [hd] at h
    dsimp only at h
    split at h
    · cases h
    · cases h
      right
      refine ⟨hv, ?_, _, rfl⟩
      intro sh hsh
      have := idxOf?_none _ _ hnone.symm sh hsh
      exact (eqFold_false_iff _ _).mp this


theorem deleteSheet_core (s s' : St) (n : Name) (h : deleteSheet s n = .ok s') :
    s' = s ∨ ∃ idx v k, s.sheets[idx]? = some v ∧ eqFold v.name n = true ∧ s.count ≠ 1 ∧
      (∃ w ∈ s.sheets, eqFold w.name n = false ∧ w.state = Vis.visible) ∧
      (k = 0 ∨ k < (s.sheets.eraseIdx idx).length) ∧
      core s' = ⟨s.count - 1, if k < (s.sheets.eraseIdx idx).length then k else s.activeTab,
        s.sheets.eraseIdx idx, deleteAndAdjustDefinedNames s.defs idx⟩ := by
  unfold deleteSheet at h
  split at h
  · cases h
  · split at h
    · cases h; left; rfl
    · rename_i d hd
      split at h
      · cases h; left; rfl
      · rename_i hc
        split at h
        · cases h; left; rfl
        · rename_i hg
          obtain ⟨_, hidx⟩ := sheetIndexD_some s n d hd
          obtain ⟨v, hv, hpv⟩ := idxOf?_getElem _ _ _ hidx
          simp only [hd, fact_foldDeleteSheet, nameEq_true, hidx, hv] at h
          split at h
          · cases h
          · rename_i i hi
            cases h
            right
            refine ⟨d, v, clampIdx i, hv, hpv, hc, ?_, ?_, ?_⟩
            · simp only [fact_deleteKeepsVisible, fact_foldDeleteSheet, nameEq_true, Bool.true_and,
                Bool.not_eq_true'] at hg
              have hany : (s.sheets.any fun v => !eqFold v.name n && isVisible v.state) = true := by
                cases hb : (s.sheets.any fun v => !eqFold v.name n && isVisible v.state) with
                | true => rfl
                | false => exact absurd hb hg
              obtain ⟨w, hw, hp⟩ := List.any_eq_true.mp hany
              simp only [Bool.and_eq_true, Bool.not_eq_true', isVisible_iff] at hp
              exact ⟨w, hw, hp.1, hp.2⟩
            · obtain ⟨_, hr⟩ := getSheetIndex_ok _ _ _ hi
              cases i with
              | none => left; rfl
              | some j =>
                right
                exact idxOf?_lt _ _ _ hr.symm
            · rw [setActiveSheet_core]; rfl


def moveDefs (defs : List DefName) (si t : Nat) : List DefName :=
  defs.map fun d => match d.loc with
    | some l => { d with loc := some (moveLoc si t l) }
    | none => d

theorem clampIdx_bound (s : St) (n : Name) :
    clampIdx (sheetIndexD s n) = 0 ∨ clampIdx (sheetIndexD s n) < s.sheets.length := by
  cases h : sheetIndexD s n with
  | none => left; rfl
  | some i => right; exact sheetIndexD_lt s n i h

theorem moveSheet_shape (s s' : St) (a b : Name) (h : moveSheet s a b = .ok s') :
    s' = s ∨ ∃ si ti src s2 nm, s.sheets[si]? = some src ∧ ti < s.sheets.length ∧
      s' = setActiveSheet s2 (clampIdx (sheetIndexD s2 nm)) ∧
      s2.count = s.count ∧ s2.activeTab = s.activeTab ∧
      s2.sheets = (s.sheets.eraseIdx si).take (if ti > si then ti - 1 else ti) ++
            src :: (s.sheets.eraseIdx si).drop (if ti > si then ti - 1 else ti) ∧
      s2.defs = moveDefs s.defs si (if ti > si then ti - 1 else ti) := by
  unfold moveSheet at h
  split at h
  · cases h; left; rfl
  · split at h
    · cases h
    · rename_i si0 hsi
      split at h
      · cases h
      · rename_i ti0 hti
        split at h
        · cases h
        · cases h
        · rename_i si ti
          split at h
          · cases h
          · rename_i s1 hu
            have hc := ungroupSheets_core s s1 hu
            have hc' : s1.sheets = s.sheets ∧ s1.count = s.count ∧ s1.defs = s.defs ∧ s1.activeTab = s.activeTab := by
              simp only [core, Core.mk.injEq] at hc; exact ⟨hc.2.2.1, hc.1, hc.2.2.2, hc.2.1⟩
            dsimp only at h
            split at h
            · cases h
            · rename_i src hsrc
              cases h
              right
              have hti' := idxOf?_lt _ _ _ (getSheetIndex_ok _ _ _ hti).2.symm
              refine ⟨si, ti, src, _, _, by rw [← hc'.1]; exact hsrc, hti', rfl, ?_, ?_, ?_, ?_⟩
              · exact hc'.2.1
              · exact hc'.2.2.2
              · simp only [hc'.1]
              · simp only [fact_moveRenumbersLocalSheetId, if_true, hc'.2.2.1, moveDefs]; rfl

theorem moveSheet_core (s s' : St) (a b : Name) (h : moveSheet s a b = .ok s') :
    s' = s ∨ ∃ si ti src k, s.sheets[si]? = some src ∧ ti < s.sheets.length ∧
      (k = 0 ∨ k < s.sheets.length) ∧
      core s' = ⟨s.count, if k < s.sheets.length then k else s.activeTab,
        (s.sheets.eraseIdx si).take (if ti > si then ti - 1 else ti) ++
            src :: (s.sheets.eraseIdx si).drop (if ti > si then ti - 1 else ti),
        moveDefs s.defs si (if ti > si then ti - 1 else ti)⟩ := by
  rcases moveSheet_shape s s' a b h with h | ⟨si, ti, src, s2, nm, h1, h2, h3, h4, h5, h6, h7⟩
  · left; exact h
  · right
    have hlen : s2.sheets.length = s.sheets.length := by
      rw [h6]; exact (perm_splice s.sheets si _ src h1).length_eq
    refine ⟨si, ti, src, clampIdx (sheetIndexD s2 nm), h1, h2, ?_, ?_⟩
    · rw [← hlen]; exact clampIdx_bound s2 nm
    · rw [h3, setActiveSheet_core, h4, h5, h6, h7, ← h6, hlen]


def renameList (l : List Sheet) (a b : Name) : List Sheet :=
  l.map fun v => if v.name == a then { v with name := b } else v

theorem setSheetName_core (s s' : St) (a b : Name) (h : setSheetName s a b = .ok s') :
    s' = s ∨ (validName b = true ∧ (fold b = fold a ∨ ∀ sh ∈ s.sheets, fold sh.name ≠ fold b) ∧
      core s' = ⟨s.count, s.activeTab, renameList s.sheets a b, adjustDefs s.defs a b⟩) ∨
    (core s' = ⟨s.count, s.activeTab, s.sheets, adjustDefs s.defs a b⟩) := by
  unfold setSheetName at h
  split at h
  · cases h
  · split at h
    · cases h
    · rename_i hb
      split at h
      · cases h; left; rfl
      · split at h
        · cases h
        · rename_i hclash
          simp only [fact_renameSourceExact, Bool.not_true, Bool.false_eq_true, if_false] at h
          split at h
          · split at h
            · cases h
            · cases h
              right; left
              refine ⟨by unfold validName; rw [hb], ?_, rfl⟩
              simp only [fact_renameClashCheck, Bool.true_and, Bool.and_eq_true, Bool.not_eq_true',
                not_and, Bool.not_eq_true, Option.isSome_eq_false_iff, Option.isNone_iff_eq_none] at hclash
              by_cases hf : eqFold b a = true
              · left; exact (eqFold_iff _ _).mp hf
              · right
                have hn := hclash (by simpa using hf)
                intro sh hsh
                unfold sheetIndexD at hn
                rw [getSheetIndex, hb] at hn
                simp only [fact_foldGetSheetIndex, nameEq_true] at hn
                exact (eqFold_false_iff _ _).mp (idxOf?_none _ _ hn sh hsh)
          · cases h; right; right; rfl


/-- what `SetSheetVisible(…, false)` may do to one sheet -/
def HideRel (t : Name) (st : Vis) (c : Nat) (x y : Sheet) : Prop :=
  y = x ∨ (eqFold x.name t = true ∧ 1 < c ∧ y = { x with state := st })

inductive HideAll (t : Name) (st : Vis) (c : Nat) : List Sheet → List Sheet → Prop
  | nil : HideAll t st c [] []
  | cons {x y l l'} : HideRel t st c x y → HideAll t st c l l' → HideAll t st c (x :: l) (y :: l')

theorem hideAll_refl (t : Name) (st : Vis) (c : Nat) : ∀ l, HideAll t st c l l
  | [] => .nil
  | _ :: as => .cons (Or.inl rfl) (hideAll_refl t st c as)

theorem visLoop_rel (s : St) (t : Name) (st : Vis) (c : Nat) :
    ∀ l : List Sheet, HideAll t st c l (visLoop s t st c l).1
  | [] => by simp [visLoop]; exact .nil
  | v :: vs => by
    unfold visLoop
    split
    · dsimp only
      exact hideAll_refl t st c _
    · dsimp only
      refine HideAll.cons ?_ (visLoop_rel s t st c vs)
      split
      · rename_i hcond
        simp only [fact_foldSetSheetVisible, nameEq_true, Bool.and_eq_true, decide_eq_true_eq] at hcond
        exact Or.inr ⟨hcond.1.1, hcond.1.2, rfl⟩
      · exact Or.inl rfl

theorem forall₂_hide_names {t st c} : ∀ {l l' : List Sheet}, HideAll t st c l l' →
    l'.map (·.name) = l.map (·.name) ∧ l'.map (·.id) = l.map (·.id) ∧ l'.length = l.length
  | _, _, .nil => by simp
  | _, _, .cons h t' => by
    obtain ⟨a, b, c'⟩ := forall₂_hide_names t'
    rcases h with rfl | ⟨_, _, rfl⟩ <;> simp [a, b, c']

theorem forall₂_hide_mem {t st c} : ∀ {l l' : List Sheet}, HideAll t st c l l' →
    ∀ x ∈ l, eqFold x.name t = false → x ∈ l'
  | _, _, .nil, x, hx, _ => by simp at hx
  | _, _, .cons h t', x, hx, hf => by
    rcases List.mem_cons.mp hx with rfl | hx'
    · rcases h with rfl | ⟨he, _, _⟩
      · exact List.mem_cons_self
      · rw [he] at hf; cases hf
    · exact List.mem_cons_of_mem _ (forall₂_hide_mem t' x hx' hf)

theorem forall₂_hide_small {t st c} (hc : c ≤ 1) : ∀ {l l' : List Sheet}, HideAll t st c l l' → l' = l
  | _, _, .nil => rfl
  | _, _, .cons h t' => by
    rw [forall₂_hide_small hc t']
    rcases h with rfl | ⟨_, h1, _⟩
    · rfl
    · omega

end XlModel.Sheets
