/-
C16: frame theorem — the content token of every worksheet an operation does not target is unchanged.
-/
import XlModel.Lemmas.Sheets9

namespace XlModel.Sheets
open XlModel

/-- the content token of the decoded worksheet `q` -/
def contentOf (s : St) (q : Nat) : Option Nat := (partGet? s.parts q).map (·.content)

/-- all content tokens are kept -/
def ContKeep (s s' : St) : Prop := ∀ q, contentOf s' q = contentOf s q

theorem contKeep_refl (s : St) : ContKeep s s := fun _ => rfl
theorem contKeep_trans {a b c : St} (h1 : ContKeep a b) (h2 : ContKeep b c) : ContKeep a c :=
  fun q => (h2 q).trans (h1 q)

/-- rewriting only the selection flag of a decoded worksheet keeps every token -/
theorem contKeep_sel (s : St) (p : Nat) (w : Part) (b : Bool) (hw : partGet? s.parts p = some w) :
    ContKeep s { s with parts := partSet s.parts p { w with sel := b } } := by
  intro q
  show (partGet? (partSet s.parts p _) q).map _ = (partGet? s.parts q).map _
  rw [partGet?_partSet]
  by_cases h : q = p
  · rw [if_pos h, h, hw]; rfl
  · rw [if_neg h]

theorem setSelLoop_cont (index : Nat) : ∀ (ns : List Name) (idx : Nat) (s : St), ContKeep s (setSelLoop index idx ns s)
  | [], _, s => contKeep_refl s
  | n :: ns, idx, s => by
    unfold setSelLoop
    split
    · exact contKeep_refl s
    · rename_i p w hr
      exact contKeep_trans (contKeep_sel s p w _ (reader_ok_part s n p w hr)) (setSelLoop_cont index ns _ _)

theorem setActiveSheet_cont (s : St) (k : Nat) : ContKeep s (setActiveSheet s k) := by
  unfold setActiveSheet
  dsimp only
  split
  · exact contKeep_trans (a := s) (b := { s with activeTab := k }) (fun _ => rfl) (setSelLoop_cont _ _ _ _)
  · exact setSelLoop_cont _ _ _ _

theorem ungroupLoop_cont (a : Nat) : ∀ (ns : List Name) (idx : Nat) (s s' : St),
    ungroupLoop a idx ns s = .ok s' → ContKeep s s'
  | [], _, s, s', h => by simp [ungroupLoop] at h; subst h; exact contKeep_refl s
  | n :: ns, idx, s, s', h => by
    unfold ungroupLoop at h
    split at h
    · exact ungroupLoop_cont a ns _ s s' h
    · split at h
      · cases h
      · rename_i p w hr
        exact contKeep_trans (contKeep_sel s p w _ (reader_ok_part s n p w hr)) (ungroupLoop_cont a ns _ _ s' h)

theorem groupSheets_cont (s s' : St) (ns : List Name) (h : groupSheets s ns = .ok s') : ContKeep s s' := by
  unfold groupSheets at h
  dsimp only at h
  repeat' split at h
  all_goals try (cases h; done)
  all_goals
    rename_i ps _
    cases h
    intro q
    show (partGet? (s.parts.map _) q).map _ = _
    rw [partGet?_map_if (fun q => ps.contains q) (fun w => { w with sel := true })]
    unfold contentOf
    cases partGet? s.parts q with
    | none => rfl
    | some w => simp only [Option.map_some]; split <;> rfl

/-- what an operation may write: the sheet named by SetCellInt, the target of CopySheet -/
def Targets (s : St) (op : Op) (sh : Sheet) : Prop :=
  match op with
  | .setcell n _ => eqFold sh.name n = true
  | .copy _ t => s.sheets[t.toNat]? = some sh
  | _ => False

/-- FRAME: a sheet that is listed before and after a call and is not the target of SetCellInt / CopySheet
keeps its content token -/
theorem content_frame (s : St) (op : Op) (hi : Inv s) (hp : PB s) (sh : Sheet) (hsh : sh ∈ s.sheets)
    (hstay : sh.id ∈ (step s op).1.sheets.map (·.id)) (hnt : ¬ Targets s op sh) :
    contentOf (step s op).1 sh.id = contentOf s sh.id := by
  cases op with
  | new n =>
    simp only [step] at hstay ⊢
    split
    · rename_i s' r hns
      rcases newSheet_full s s' n r hns with rfl | ⟨_, _, rfl⟩
      · rfl
      · show (partGet? (partSet s.parts (newSheetID s) _) sh.id).map _ = _
        rw [partGet?_partSet, if_neg]
        · rfl
        · have h1 : sh.id ≤ maxOf (s.sheets.map (·.id)) := le_maxOf _ _ (List.mem_map.mpr ⟨sh, hsh, rfl⟩)
          have h2 := newSheetID_gt s
          omega
    · rfl
  | delete n =>
    simp only [step] at hstay ⊢
    split
    · rename_i s' hd
      rcases deleteSheet_full s s' n hd with rfl | ⟨d, v, k, hv, _, _, _, _, rfl, _⟩
      · rfl
      · rw [hd] at hstay
        have hks := setActiveSheet_keysSub (deleteCascade { s with defs := deleteAndAdjustDefinedNames s.defs d } d v) (clampIdx k)
        rw [hks.1] at hstay
        change sh.id ∈ (s.sheets.eraseIdx d).map (·.id) at hstay
        obtain ⟨x, hx, hxid⟩ := List.mem_map.mp hstay
        have hne : sh.id ≠ v.id := by rw [← hxid]; exact nodup_erase_ne (·.id) s.sheets d v hi.uniq_id hv x hx
        rw [setActiveSheet_cont _ _ sh.id]
        show (partGet? (deleteCascade _ d v).parts sh.id).map _ = _
        unfold deleteCascade
        simp only [hp.rel_ok v (List.mem_of_getElem? hv)]
        rw [partGet?_partErase, if_neg hne]
        rfl
    · rfl
  | copy f t =>
    simp only [step] at hstay ⊢
    split
    · rename_i s' hc
      obtain ⟨shf, sht, wf, _, ht, _, _, _, hother⟩ := copySheet_parts s s' hi hp f t hc
      have hne : sh.id ≠ sht.id := by
        intro e
        apply hnt
        have : sh = sht := nodup_map_inj (·.id) s.sheets hi.uniq_id sh hsh sht (List.mem_of_getElem? ht) e
        show s.sheets[t.toNat]? = some sh
        rw [this]; exact ht
      unfold contentOf
      rw [hother sh.id hne]
    · rfl
  | move a b =>
    simp only [step] at hstay ⊢
    split
    · rename_i s' hm
      rcases moveSheet_full s s' a b hm with rfl | ⟨si, ti, src, s1, hu, _, _, _, _, _, rfl⟩
      · rfl
      · rw [setActiveSheet_cont _ _ sh.id]
        exact ungroupLoop_cont _ _ _ s s1 hu sh.id
    · rfl
  | rename a b =>
    simp only [step]
    split
    · rename_i s' hr
      rcases setSheetName_full s s' a b hr with rfl | ⟨p, _, _, _, _, _, rfl⟩ | ⟨_, rfl⟩ <;> rfl
    · rfl
  | visible n v vh =>
    simp only [step]
    unfold setSheetVisible
    repeat' split
    all_goals rfl
  | active i => simp only [step]; exact setActiveSheet_cont _ _ sh.id
  | group ns =>
    simp only [step]
    split
    · rename_i s' hg; exact groupSheets_cont s s' ns hg sh.id
    · rfl
  | ungroup =>
    simp only [step]
    split
    · rename_i s' hu; exact ungroupLoop_cont _ _ _ s s' hu sh.id
    · rfl
  | defname k sc dt =>
    simp only [step]
    split
    · rename_i s' hd
      unfold setDefinedName at hd
      repeat' split at hd
      all_goals first | (cases hd; rfl) | cases hd
    · rfl
  | deldef k sc =>
    simp only [step]
    split
    · rename_i s' hd
      unfold deleteDefinedName at hd
      repeat' split at hd
      all_goals first | (cases hd; rfl) | cases hd
    · rfl
  | setcell n v =>
    simp only [step]
    split
    · rename_i s' hc
      obtain ⟨x, w, hx, hxe, _, _, hother⟩ := setCell_parts s s' hp n v hc
      have hne : sh.id ≠ x.id := by
        intro e
        apply hnt
        have : sh = x := nodup_map_inj (·.id) s.sheets hi.uniq_id sh hsh x hx e
        show eqFold sh.name n = true
        rw [this]; exact hxe
      unfold contentOf
      rw [hother sh.id hne]
    · rfl
  | save => rfl
  | observe => simp only [step]; unfold observe; split <;> rfl
  | reopen => rfl

/-- `find?` by a duplicate-free key returns the element at any index carrying that key (round 5) -/
theorem find?_nodup_key {α β} [DecidableEq β] (f : α → β) : ∀ (l : List α) (j : Nat) (x : α), (l.map f).Nodup →
    l[j]? = some x → l.find? (fun y => f y == f x) = some x
  | [], j, x, _, h => by simp at h
  | a :: t, 0, x, _, h => by
    simp at h; subst h; simp
  | a :: t, j + 1, x, hn, h => by
    simp only [List.map_cons, List.nodup_cons] at hn
    simp at h
    have hx : x ∈ t := List.mem_of_getElem? h
    have hne : f a ≠ f x := fun e => hn.1 (List.mem_map.mpr ⟨x, hx, e.symm⟩)
    rw [List.find?_cons_of_neg (by simpa using hne)]
    exact find?_nodup_key f t j x hn.2 h

end XlModel.Sheets
