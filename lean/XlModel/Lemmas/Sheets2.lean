/-
C16: the list invariant is preserved by every shape of update the operations perform.
-/
import XlModel.Lemmas.Sheets

namespace XlModel.Sheets
open XlModel

theorem invC_append (c : Core) (h : InvC c) (n : Name) (sid rid : Nat) (hv : validName n = true)
    (hsid : maxOf (c.sheets.map (·.id)) < sid)
    (hf : ∀ sh ∈ c.sheets, fold sh.name ≠ fold n) :
    InvC ⟨c.count + 1, c.activeTab,
      c.sheets ++ [⟨n, sid, rid, Vis.visible⟩], c.defs⟩ where
  nonempty := by simp
  count_eq := by simp [h.count_eq]
  active_lt := by have := h.active_lt; simp; omega
  valid := by
    intro sh hsh
    rcases List.mem_append.mp hsh with h1 | h1
    · exact h.valid sh h1
    · simp at h1; subst h1; exact hv
  uniq_ci := by
    simp only [List.map_append, List.map_cons, List.map_nil]
    refine List.nodup_append.mpr ⟨h.uniq_ci, by simp, ?_⟩
    intro a ha b hb
    simp at hb; subst hb
    obtain ⟨sh, hsh, rfl⟩ := List.mem_map.mp ha
    exact hf sh hsh
  uniq_id := by
    simp only [List.map_append, List.map_cons, List.map_nil]
    refine List.nodup_append.mpr ⟨h.uniq_id, by simp, ?_⟩
    intro a ha b hb
    simp at hb; subst hb
    have := le_maxOf _ a ha
    omega
  some_vis := by
    obtain ⟨sh, hsh, hs⟩ := h.some_vis
    exact ⟨sh, List.mem_append_left _ hsh, hs⟩
  defs_ok := by
    intro d hd l hl
    have := h.defs_ok d hd l hl
    simp; omega

theorem map_eraseIdx' {α β} (f : α → β) : ∀ (l : List α) (i : Nat), (l.eraseIdx i).map f = (l.map f).eraseIdx i
  | [], _ => by simp
  | _ :: _, 0 => by simp
  | a :: t, i + 1 => by simp [map_eraseIdx' f t i]

theorem invC_erase (c : Core) (h : InvC c) (idx k : Nat) (v : Sheet) (hv : c.sheets[idx]? = some v)
    (n : Name) (hvn : eqFold v.name n = true) (hc : c.count ≠ 1)
    (hw : ∃ w ∈ c.sheets, eqFold w.name n = false ∧ w.state = Vis.visible)
    (hk : k = 0 ∨ k < (c.sheets.eraseIdx idx).length) :
    InvC ⟨c.count - 1, if k < (c.sheets.eraseIdx idx).length then k else c.activeTab,
      c.sheets.eraseIdx idx, deleteAndAdjustDefinedNames c.defs idx⟩ := by
  have hidx : idx < c.sheets.length := by
    rcases Nat.lt_or_ge idx c.sheets.length with h1 | h1
    · exact h1
    · rw [List.getElem?_eq_none h1] at hv; cases hv
  have hlen : (c.sheets.eraseIdx idx).length = c.sheets.length - 1 := by
    rw [List.length_eraseIdx]; simp [hidx]
  have hge : 2 ≤ c.sheets.length := by
    have := h.count_eq
    have : c.sheets.length ≠ 0 := by
      intro h0; exact h.nonempty (List.length_eq_zero_iff.mp h0)
    omega
  have hsub := List.eraseIdx_sublist c.sheets idx
  exact {
    nonempty := by
      intro h0
      dsimp only at h0
      rw [h0] at hlen
      simp only [List.length_nil] at hlen
      omega
    count_eq := by simp only [hlen, h.count_eq]
    active_lt := by
      show (if k < (c.sheets.eraseIdx idx).length then k else c.activeTab) < (c.sheets.eraseIdx idx).length
      rcases hk with rfl | hk
      · have : 0 < (c.sheets.eraseIdx idx).length := by omega
        simp [this]
      · simp [hk]
    valid := fun sh hsh => h.valid sh (hsub.subset hsh)
    uniq_ci := List.Nodup.sublist (hsub.map _) h.uniq_ci
    uniq_id := List.Nodup.sublist (hsub.map _) h.uniq_id
    some_vis := by
      obtain ⟨w, hw1, hw2, hw3⟩ := hw
      refine ⟨w, ?_, hw3⟩
      obtain ⟨i, hi, hiw⟩ := List.getElem_of_mem hw1
      refine List.mem_eraseIdx_iff_getElem.mpr ⟨i, hi, ?_, hiw⟩
      intro hii
      subst hii
      rw [List.getElem?_eq_getElem hi] at hv
      simp only [Option.some.injEq] at hv
      rw [hiw] at hv; subst hv
      rw [hvn] at hw2; cases hw2
    defs_ok := by
      intro d hd l hl
      show l < (c.sheets.eraseIdx idx).length
      unfold deleteAndAdjustDefinedNames at hd
      simp only [fact_deleteAdjustsDefinedNames, if_true] at hd
      obtain ⟨d0, hd0, hmap⟩ := List.mem_filterMap.mp hd
      cases hloc : d0.loc with
      | none => simp [hloc] at hmap; subst hmap; rw [hloc] at hl; cases hl
      | some l0 =>
        have hl0 := h.defs_ok d0 hd0 l0 hloc
        simp only [hloc] at hmap
        split at hmap
        · cases hmap
        · split at hmap
          · simp at hmap; subst hmap; simp at hl; omega
          · simp at hmap; subst hmap; rw [hloc] at hl; simp at hl; omega }


theorem invC_of_perm (c : Core) (h : InvC c) (l' : List Sheet) (hp : l'.Perm c.sheets) (a : Nat)
    (ha : a < l'.length) (defs' : List DefName)
    (hd : ∀ d ∈ defs', ∀ l, d.loc = some l → l < l'.length) : InvC ⟨c.count, a, l', defs'⟩ where
  nonempty := by
    intro h0
    dsimp only at h0
    subst h0
    exact h.nonempty (List.Perm.eq_nil hp.symm)
  count_eq := by rw [h.count_eq]; exact hp.length_eq.symm
  active_lt := ha
  valid := fun sh hsh => h.valid sh (hp.subset hsh)
  uniq_ci := ((hp.map _).nodup_iff).mpr h.uniq_ci
  uniq_id := ((hp.map _).nodup_iff).mpr h.uniq_id
  some_vis := by
    obtain ⟨sh, hsh, hs⟩ := h.some_vis
    exact ⟨sh, hp.symm.subset hsh, hs⟩
  defs_ok := hd

theorem moveLoc_lt (si t l n : Nat) (h1 : si < n) (h2 : t < n) (h3 : l < n) : moveLoc si t l < n := by
  unfold moveLoc
  split
  · exact h2
  · split
    · omega
    · split <;> omega

theorem invC_splice (c : Core) (h : InvC c) (si ti k : Nat) (src : Sheet) (hs : c.sheets[si]? = some src)
    (hti : ti < c.sheets.length) (hk : k = 0 ∨ k < c.sheets.length) :
    InvC ⟨c.count, if k < c.sheets.length then k else c.activeTab,
        (c.sheets.eraseIdx si).take (if ti > si then ti - 1 else ti) ++
            src :: (c.sheets.eraseIdx si).drop (if ti > si then ti - 1 else ti),
        moveDefs c.defs si (if ti > si then ti - 1 else ti)⟩ := by
  have hp := perm_splice c.sheets si (if ti > si then ti - 1 else ti) src hs
  have hlen := hp.length_eq
  have hsi : si < c.sheets.length := by
    rcases Nat.lt_or_ge si c.sheets.length with h1 | h1
    · exact h1
    · rw [List.getElem?_eq_none h1] at hs; cases hs
  have hpos : 0 < c.sheets.length := by omega
  apply invC_of_perm c h _ hp
  · rw [hlen]
    rcases hk with rfl | hk
    · simp [hpos]
    · simp [hk]
  · intro d hd l hl
    rw [hlen]
    unfold moveDefs at hd
    obtain ⟨d0, hd0, rfl⟩ := List.mem_map.mp hd
    cases hloc : d0.loc with
    | none => simp [hloc] at hl
    | some l0 =>
      simp only [hloc, Option.some.injEq] at hl
      subst hl
      apply moveLoc_lt _ _ _ _ hsi _ (h.defs_ok d0 hd0 l0 hloc)
      split <;> omega

theorem adjustDefs_loc (defs : List DefName) (a b : Name) :
    ∀ d ∈ adjustDefs defs a b, ∃ d0 ∈ defs, d.loc = d0.loc ∧ d.name = d0.name := by
  intro d hd
  unfold adjustDefs at hd
  split at hd
  · obtain ⟨d0, hd0, rfl⟩ := List.mem_map.mp hd
    exact ⟨d0, hd0, rfl, rfl⟩
  · exact ⟨d, hd, rfl, rfl⟩

theorem invC_defs (c : Core) (h : InvC c) (defs' : List DefName)
    (hd : ∀ d ∈ defs', ∃ d0 ∈ c.defs, d.loc = d0.loc) : InvC ⟨c.count, c.activeTab, c.sheets, defs'⟩ := by
  have hdo : ∀ d ∈ defs', ∀ l, d.loc = some l → l < c.sheets.length := by
    intro d hdm l hl
    obtain ⟨d0, hd0, he⟩ := hd d hdm
    exact h.defs_ok d0 hd0 l (by rw [← he]; exact hl)
  exact { h with defs_ok := hdo }

theorem invC_rename (c : Core) (h : InvC c) (a b : Name) (hv : validName b = true)
    (hf : fold b = fold a ∨ ∀ sh ∈ c.sheets, fold sh.name ≠ fold b) :
    InvC ⟨c.count, c.activeTab, renameList c.sheets a b, c.defs⟩ where
  nonempty := by
    intro h0
    exact h.nonempty (List.map_eq_nil_iff.mp h0)
  count_eq := by simp [renameList, h.count_eq]
  active_lt := by simp [renameList, h.active_lt]
  valid := by
    intro sh hsh
    obtain ⟨x, hx, rfl⟩ := List.mem_map.mp hsh
    split
    · exact hv
    · exact h.valid x hx
  uniq_ci := by
    have e : (renameList c.sheets a b).map (fun sh => fold sh.name) =
        c.sheets.map (fun x => if x.name == a then fold b else fold x.name) := by
      simp only [renameList, List.map_map]
      apply List.map_congr_left
      intro x _
      simp only [Function.comp]
      split <;> rfl
    rw [e]
    rcases hf with hf | hf
    · have : (c.sheets.map fun x => if x.name == a then fold b else fold x.name) =
          c.sheets.map (fun sh => fold sh.name) := by
        apply List.map_congr_left
        intro x _
        split
        · rename_i hxa
          rw [hf, eq_of_beq hxa]
        · rfl
      rw [this]; exact h.uniq_ci
    · exact nodup_map_replace (fun sh : Sheet => fold sh.name) (fun x => x.name == a) (fold a) (fold b)
        (fun x hx => by rw [eq_of_beq hx]) c.sheets h.uniq_ci hf
  uniq_id := by
    have e : (renameList c.sheets a b).map (·.id) = c.sheets.map (·.id) := by
      simp only [renameList, List.map_map]
      apply List.map_congr_left
      intro x _
      simp only [Function.comp]
      split <;> rfl
    rw [e]; exact h.uniq_id
  some_vis := by
    obtain ⟨sh, hsh, hs⟩ := h.some_vis
    refine ⟨_, List.mem_map.mpr ⟨sh, hsh, rfl⟩, ?_⟩
    split <;> exact hs
  defs_ok := by
    intro d hd l hl
    have := h.defs_ok d hd l hl
    simpa [renameList] using this

theorem invC_hide (c : Core) (h : InvC c) (t : Name) (st : Vis) (l' : List Sheet)
    (hr : HideAll t st (1 + (c.sheets.filter fun v => !eqFold v.name t && isVisible v.state).length) c.sheets l') :
    InvC ⟨c.count, c.activeTab, l', c.defs⟩ := by
  obtain ⟨hn, hi, hl⟩ := forall₂_hide_names hr
  exact {
    nonempty := by
      intro h0
      dsimp only at h0
      subst h0
      simp at hl
      exact h.nonempty (List.length_eq_zero_iff.mp hl.symm)
    count_eq := by rw [h.count_eq]; exact hl.symm
    active_lt := by show c.activeTab < l'.length; rw [hl]; exact h.active_lt
    valid := by
      intro sh hsh
      have : sh.name ∈ l'.map (·.name) := List.mem_map.mpr ⟨sh, hsh, rfl⟩
      rw [hn] at this
      obtain ⟨x, hx, hxe⟩ := List.mem_map.mp this
      have := h.valid x hx
      rw [hxe] at this; exact this
    uniq_ci := by
      have : l'.map (fun sh => fold sh.name) = (l'.map (·.name)).map fold := by simp [List.map_map]
      rw [this, hn, List.map_map]
      exact h.uniq_ci
    uniq_id := by show (l'.map (·.id)).Nodup; rw [hi]; exact h.uniq_id
    some_vis := by
      by_cases hcount : (c.sheets.filter fun v => !eqFold v.name t && isVisible v.state).length = 0
      · have := forall₂_hide_small (by omega) hr
        subst this
        exact h.some_vis
      · have hne : (c.sheets.filter fun v => !eqFold v.name t && isVisible v.state) ≠ [] := by
          intro h0; rw [h0] at hcount; simp at hcount
        obtain ⟨w, hw⟩ := List.exists_mem_of_ne_nil _ hne
        simp only [List.mem_filter, Bool.and_eq_true, Bool.not_eq_true', isVisible_iff] at hw
        exact ⟨w, forall₂_hide_mem hr w hw.1 hw.2.1, hw.2.2⟩
    defs_ok := by
      intro d hd l hl'
      show l < l'.length
      rw [hl]; exact h.defs_ok d hd l hl' }

theorem invC_show (c : Core) (h : InvC c) (t : Name) :
    InvC ⟨c.count, c.activeTab,
      c.sheets.map (fun v => if eqFold v.name t then { v with state := Vis.visible } else v), c.defs⟩ where
  nonempty := by
    intro h0
    exact h.nonempty (List.map_eq_nil_iff.mp h0)
  count_eq := by simp [h.count_eq]
  active_lt := by simp [h.active_lt]
  valid := by
    intro sh hsh
    obtain ⟨x, hx, rfl⟩ := List.mem_map.mp hsh
    split <;> exact h.valid x hx
  uniq_ci := by
    have e : (c.sheets.map (fun v => if eqFold v.name t then { v with state := Vis.visible } else v)).map
        (fun sh => fold sh.name) = c.sheets.map (fun sh => fold sh.name) := by
      simp only [List.map_map]
      apply List.map_congr_left
      intro x _
      simp only [Function.comp]
      split <;> rfl
    rw [e]; exact h.uniq_ci
  uniq_id := by
    have e : (c.sheets.map (fun v => if eqFold v.name t then { v with state := Vis.visible } else v)).map
        (·.id) = c.sheets.map (·.id) := by
      simp only [List.map_map]
      apply List.map_congr_left
      intro x _
      simp only [Function.comp]
      split <;> rfl
    rw [e]; exact h.uniq_id
  some_vis := by
    obtain ⟨sh, hsh, hs⟩ := h.some_vis
    refine ⟨_, List.mem_map.mpr ⟨sh, hsh, rfl⟩, ?_⟩
    split
    · rfl
    · exact hs
  defs_ok := by
    intro d hd l hl
    have := h.defs_ok d hd l hl
    simpa using this


/-! ### operations that leave the sheet list, count, active tab and defined names alone -/

theorem copySheet_core (s s' : St) (f t : Int) (h : copySheet s f t = .ok s') : core s' = core s := by
  unfold copySheet at h
  dsimp only at h
  repeat' split at h
  all_goals first | (cases h; rfl) | cases h

theorem groupSheets_core (s s' : St) (ns : List Name) (h : groupSheets s ns = .ok s') : core s' = core s := by
  unfold groupSheets at h
  dsimp only at h
  repeat' split at h
  all_goals first | (cases h; rfl) | cases h

theorem setCell_core (s s' : St) (n : Name) (v : Nat) (h : setCell s n v = .ok s') : core s' = core s := by
  unfold setCell at h
  split at h
  · cases h
  · cases h; rfl

theorem observe_core (s : St) : core (observe s) = core s := by
  unfold observe; split <;> rfl

theorem getDefinedNameScope_lt (s : St) (sc : Name) (loc : Option Nat) (h : getDefinedNameScope s sc = .ok loc) :
    ∀ l, loc = some l → l < s.sheets.length := by
  unfold getDefinedNameScope at h
  split at h
  · cases h; intro l hl; cases hl
  · split at h
    · cases h
    · cases h
    · rename_i i hg
      cases h
      intro l hl
      cases hl
      exact idxOf?_lt _ _ _ (getSheetIndex_ok _ _ _ hg).2.symm

theorem setDefinedName_core (s s' : St) (k : Nat) (sc dt : Name) (h : setDefinedName s k sc dt = .ok s') :
    ∃ loc, (∀ l, loc = some l → l < s.sheets.length) ∧
      core s' = ⟨s.count, s.activeTab, s.sheets, s.defs ++ [⟨k, loc, dt⟩]⟩ := by
  unfold setDefinedName at h
  split at h
  · cases h
  · split at h
    · cases h
    · split at h
      · cases h
      · rename_i loc hloc
        split at h
        · cases h
        · cases h
          exact ⟨loc, getDefinedNameScope_lt s sc loc hloc, rfl⟩

/-- every API call preserves the list invariant -/
theorem step_inv (s : St) (op : Op) (h : Inv s) : Inv (step s op).1 := by
  unfold Inv at *
  cases op with
  | new n =>
    simp only [step]
    split
    · rename_i s' r hn
      rcases newSheet_core s s' n r hn with rfl | ⟨hv, hf, rid, hc⟩
      · exact h
      · rw [hc]; exact invC_append (core s) h n (newSheetID s) rid hv (newSheetID_gt s) hf
    · exact h
  | delete n =>
    simp only [step]
    split
    · rename_i s' hd
      rcases deleteSheet_core s s' n hd with rfl | ⟨idx, v, k, h1, h2, h3, h4, h5, hc⟩
      · exact h
      · rw [hc]; exact invC_erase (core s) h idx k v h1 n h2 h3 h4 h5
    · exact h
  | copy f t =>
    simp only [step]
    split
    · rename_i s' hc; rw [copySheet_core s s' f t hc]; exact h
    · exact h
  | move a b =>
    simp only [step]
    split
    · rename_i s' hm
      rcases moveSheet_core s s' a b hm with rfl | ⟨si, ti, src, k, h1, h2, h3, hc⟩
      · exact h
      · rw [hc]; exact invC_splice (core s) h si ti k src h1 h2 h3
    · exact h
  | rename a b =>
    simp only [step]
    split
    · rename_i s' hr
      rcases setSheetName_core s s' a b hr with rfl | ⟨hv, hf, hc⟩ | hc
      · exact h
      · rw [hc]
        have h1 := invC_rename (core s) h a b hv hf
        exact invC_defs _ h1 _ (fun d hd => by
          obtain ⟨d0, hd0, he, _⟩ := adjustDefs_loc s.defs a b d hd
          exact ⟨d0, hd0, he⟩)
      · rw [hc]
        exact invC_defs (core s) h _ (fun d hd => by
          obtain ⟨d0, hd0, he, _⟩ := adjustDefs_loc s.defs a b d hd
          exact ⟨d0, hd0, he⟩)
    · exact h
  | visible n v vh =>
    simp only [step]
    unfold setSheetVisible
    split
    · exact h
    · split
      · simp only [fact_foldSetSheetVisible, nameEq_true]
        exact invC_show (core s) h n
      · dsimp only
        have hr := visLoop_rel s n (if vh = true then Vis.veryHidden else Vis.hidden)
          (visCount s n (if vh = true then Vis.veryHidden else Vis.hidden)) s.sheets
        have hvc : visCount s n (if vh = true then Vis.veryHidden else Vis.hidden) =
            1 + (s.sheets.filter fun v => !eqFold v.name n && isVisible v.state).length := by
          simp [visCount]
        rw [hvc] at hr
        exact invC_hide (core s) h n _ _ hr
  | active i =>
    simp only [step]
    rw [setActiveSheet_core]
    have hi := h
    generalize (if i < 0 then 0 else i.toNat) = k
    exact { h with
      active_lt := by
        show (if k < s.sheets.length then k else s.activeTab) < s.sheets.length
        split
        · assumption
        · exact hi.active_lt }
  | group ns =>
    simp only [step]
    split
    · rename_i s' hg; rw [groupSheets_core s s' ns hg]; exact h
    · exact h
  | ungroup =>
    simp only [step]
    split
    · rename_i s' hu; rw [ungroupSheets_core s s' hu]; exact h
    · exact h
  | defname k sc dt =>
    simp only [step]
    split
    · rename_i s' hd
      obtain ⟨loc, hl, hc⟩ := setDefinedName_core s s' k sc dt hd
      rw [hc]
      exact { h with
        defs_ok := by
          intro d hd l hdl
          rcases List.mem_append.mp hd with h1 | h1
          · exact h.defs_ok d h1 l hdl
          · simp at h1; subst h1; exact hl l hdl }
    · exact h
  | deldef k sc =>
    simp only [step]
    split
    · rename_i s' hd
      unfold deleteDefinedName at hd
      repeat' split at hd
      all_goals first
        | (cases hd
           exact { h with defs_ok := fun d hd' l hl => h.defs_ok d ((List.eraseIdx_sublist _ _).subset hd') l hl })
        | cases hd
    · exact h
  | setcell n v =>
    simp only [step]
    split
    · rename_i s' hc; rw [setCell_core s s' n v hc]; exact h
    · exact h
  | save => exact h
  | reopen => exact h
  | observe => simp only [step]; rw [observe_core]; exact h

theorem run_inv (s : St) (ops : List Op) (h : Inv s) : Inv (run s ops) := by
  induction ops generalizing s with
  | nil => exact h
  | cons o os ih => exact ih _ (step_inv s o h)


theorem init_inv : Inv init := by
  unfold Inv
  exact {
    nonempty := by decide +kernel
    count_eq := by decide +kernel
    active_lt := by decide +kernel
    valid := by decide +kernel
    uniq_ci := by decide +kernel
    uniq_id := by decide +kernel
    some_vis := by decide +kernel
    defs_ok := by decide +kernel }

theorem erase_follow (l : List Sheet) (idx loc : Nat) (hne : loc ≠ idx) :
    (l.eraseIdx idx)[if loc > idx then loc - 1 else loc]? = l[loc]? := by
  rw [List.getElem?_eraseIdx]
  split <;> split <;> first | rfl | omega | (congr 1; omega)

theorem splice_follow (l : List Sheet) (si t loc : Nat) (src : Sheet) (hs : l[si]? = some src)
    (ht : t < l.length) (hl : loc < l.length) :
    ((l.eraseIdx si).take t ++ src :: (l.eraseIdx si).drop t)[moveLoc si t loc]? = l[loc]? := by
  have hsi : si < l.length := by
    rcases Nat.lt_or_ge si l.length with h1 | h1
    · exact h1
    · rw [List.getElem?_eq_none h1] at hs; cases hs
  have hlen : (l.eraseIdx si).length = l.length - 1 := by rw [List.length_eraseIdx]; simp [hsi]
  unfold moveLoc
  grind

end XlModel.Sheets
