/-
C16: the bookkeeping invariant `PB` (every listed sheet has its relationship, its sheetMap entry
and its decoded worksheet, all named after the sheet id) and what `workSheetReader` returns under it.
-/
import XlModel.Lemmas.Sheets2

namespace XlModel.Sheets
open XlModel

/-! ### find? -/

theorem find?_mono {α} (p q : α → Bool) : ∀ (l : List α) (x : α), l.find? p = some x → q x = true →
    (∀ y, q y = true → p y = true) → l.find? q = some x
  | [], _, h, _, _ => by simp at h
  | a :: t, x, h, hq, hi => by
    simp only [List.find?_cons] at h ⊢
    cases hpa : p a with
    | true => simp [hpa] at h; subst h; simp [hq]
    | false =>
      simp [hpa] at h
      have : q a = false := by
        cases hqa : q a with
        | false => rfl
        | true => rw [hi a hqa] at hpa; cases hpa
      simp [this]; exact find?_mono p q t x h hq hi

theorem find?_and {α} (p q : α → Bool) : ∀ (l : List α) (x : α), l.find? p = some x → q x = true →
    l.find? (fun y => q y && p y) = some x
  | [], _, h, _ => by simp at h
  | a :: t, x, h, hq => by
    simp only [List.find?_cons] at h ⊢
    cases hpa : p a with
    | true => simp [hpa] at h; subst h; simp [hq, hpa]
    | false => simp [hpa] at h; simp [hpa]; exact find?_and p q t x h hq

theorem find?_eraseIdx_ne {α} (p : α → Bool) : ∀ (l : List α) (k : Nat),
    (∀ x, l[k]? = some x → p x = false) → (l.eraseIdx k).find? p = l.find? p
  | [], _, _ => by simp
  | a :: t, 0, h => by
    have := h a (by simp)
    simp [List.find?_cons, this]
  | a :: t, k + 1, h => by
    simp only [List.eraseIdx_cons_succ, List.find?_cons]
    cases p a with
    | true => rfl
    | false => exact find?_eraseIdx_ne p t k (fun x hx => h x (by simpa using hx))

theorem find?_some_mem {α} (p : α → Bool) (l : List α) (x : α) (h : l.find? p = some x) : x ∈ l ∧ p x = true :=
  ⟨List.mem_of_find?_eq_some h, List.find?_some h⟩

theorem find?_none_of {α} (p : α → Bool) (l : List α) (h : ∀ x ∈ l, p x = false) : l.find? p = none := by
  rw [List.find?_eq_none]; intro x hx; simp [h x hx]

/-! ### decoded worksheets -/

theorem find?_congr' {α} {p q : α → Bool} : ∀ (l : List α), (∀ x ∈ l, p x = q x) → l.find? p = l.find? q
  | [], _ => rfl
  | a :: t, h => by
    simp only [List.find?_cons, h a List.mem_cons_self]
    rw [find?_congr' t (fun x hx => h x (List.mem_cons_of_mem _ hx))]

theorem partGet?_map_replace (p q : Nat) (v : Part) : ∀ ps : List (Nat × Part),
    partGet? (ps.map (fun e => if e.1 == p then (p, v) else e)) q =
      if q = p then (if ps.any (fun e => e.1 == p) then some v else none) else partGet? ps q
  | [] => by simp [partGet?]
  | a :: t => by
    have ih := partGet?_map_replace p q v t
    simp only [partGet?, List.map_cons, List.find?_cons, List.any_cons] at ih ⊢
    grind

theorem partGet?_append (p q : Nat) (v : Part) : ∀ ps : List (Nat × Part),
    partGet? (ps ++ [(p, v)]) q = match partGet? ps q with
      | some w => some w
      | none => if q = p then some v else none
  | [] => by simp [partGet?]; grind
  | a :: t => by
    have ih := partGet?_append p q v t
    simp only [partGet?, List.cons_append, List.find?_cons] at ih ⊢
    grind

theorem partGet?_none_of_not_any (p : Nat) : ∀ ps : List (Nat × Part), ps.any (fun e => e.1 == p) = false → partGet? ps p = none
  | [], _ => rfl
  | a :: t, h => by
    simp only [List.any_cons, Bool.or_eq_false_iff] at h
    have ih := partGet?_none_of_not_any p t h.2
    simp only [partGet?, List.find?_cons, h.1] at ih ⊢
    exact ih

theorem partGet?_partSet (ps : List (Nat × Part)) (p q : Nat) (v : Part) :
    partGet? (partSet ps p v) q = if q = p then some v else partGet? ps q := by
  unfold partSet
  split
  · rename_i h; rw [partGet?_map_replace]; simp [h]
  · rename_i h
    rw [partGet?_append]
    have h' : ps.any (fun e => e.1 == p) = false := by
      cases hb : ps.any (fun e => e.1 == p) with
      | false => rfl
      | true => exact absurd hb h
    by_cases hq : q = p
    · subst hq; rw [partGet?_none_of_not_any q ps h']
    · simp [hq]; cases partGet? ps q <;> rfl

theorem partGet?_partErase (ps : List (Nat × Part)) (p q : Nat) :
    partGet? (partErase ps p) q = if q = p then none else partGet? ps q := by
  unfold partErase partGet?
  rw [List.find?_filter]
  by_cases hq : q = p
  · subst hq
    simp
  · simp only [hq, if_false]
    congr 1
    apply find?_congr'
    intro x _
    by_cases hx : x.1 = q
    · simp [hx, hq]
    · simp [hx]

/-! ### the bookkeeping invariant -/

structure PB (s : St) : Prop where
  rel_ok : ∀ sh ∈ s.sheets, s.rels.find? (fun r => r.rid == sh.rid) = some ⟨sh.rid, sh.id⟩
  map_ok : ∀ sh ∈ s.sheets, getSheetXMLPath s sh.name = some sh.id
  part_ok : ∀ sh ∈ s.sheets, (partGet? s.parts sh.id).isSome = true
  id_pos : ∀ sh ∈ s.sheets, sh.id ≠ 0
  rid_nodup : (s.sheets.map (·.rid)).Nodup
  map_keys : ∀ e ∈ s.sheetMap, ∃ sh ∈ s.sheets, sh.name = e.1

theorem getSheetXMLPath_def (s : St) (n : Name) :
    getSheetXMLPath s n = (s.sheetMap.find? fun e => eqFold e.1 n).map (·.2) := by
  simp [getSheetXMLPath]

theorem eqFold_congr_right (a b c : Name) (h : fold b = fold c) : eqFold a b = eqFold a c := by
  simp [eqFold, h]

theorem getSheetXMLPath_congr (s : St) (a b : Name) (h : fold a = fold b) :
    getSheetXMLPath s a = getSheetXMLPath s b := by
  rw [getSheetXMLPath_def, getSheetXMLPath_def]
  congr 1
  apply find?_congr'
  intro x _
  exact eqFold_congr_right _ _ _ h

/-- names are case-insensitively unique: two listed sheets with equal folded names are the same -/
theorem nodup_map_inj {α β} (f : α → β) : ∀ (l : List α), (l.map f).Nodup → ∀ x ∈ l, ∀ y ∈ l, f x = f y → x = y
  | [], _, x, hx, _, _, _ => by simp at hx
  | a :: t, hn, x, hx, y, hy, hf => by
    simp only [List.map_cons, List.nodup_cons] at hn
    rcases List.mem_cons.mp hx with rfl | hx' <;> rcases List.mem_cons.mp hy with rfl | hy'
    · rfl
    · exact absurd (List.mem_map.mpr ⟨y, hy', hf.symm⟩) hn.1
    · exact absurd (List.mem_map.mpr ⟨x, hx', hf⟩) hn.1
    · exact nodup_map_inj f t hn.2 x hx' y hy' hf

/-- what `workSheetReader` returns for a valid name under the invariants -/
theorem reader_char (s : St) (hp : PB s) (n : Name) (hv : checkSheetName n = .ok ()) :
    (∀ i, idxOf? (fun sh => eqFold sh.name n) s.sheets = some i →
      ∃ sh w, s.sheets[i]? = some sh ∧ eqFold sh.name n = true ∧ partGet? s.parts sh.id = some w ∧
        workSheetReader s n = .ok (sh.id, w)) ∧
    (idxOf? (fun sh => eqFold sh.name n) s.sheets = none → workSheetReader s n = .error .notExist) := by
  constructor
  · intro i hidx
    obtain ⟨sh, hsh, hpe⟩ := idxOf?_getElem _ _ _ hidx
    have hmem : sh ∈ s.sheets := List.mem_of_getElem? hsh
    have hmap := hp.map_ok sh hmem
    have hpart := hp.part_ok sh hmem
    rw [getSheetXMLPath_congr s sh.name n ((eqFold_iff _ _).mp hpe)] at hmap
    cases hw : partGet? s.parts sh.id with
    | none => rw [hw] at hpart; cases hpart
    | some w =>
      refine ⟨sh, w, hsh, hpe, hw, ?_⟩
      unfold workSheetReader
      rw [hv]; simp only [hmap, hw]
  · intro hnone
    have : getSheetXMLPath s n = none := by
      rw [getSheetXMLPath_def]
      have : s.sheetMap.find? (fun e => eqFold e.1 n) = none := by
        apply find?_none_of
        intro e he
        obtain ⟨sh, hsh, hname⟩ := hp.map_keys e he
        have := idxOf?_none _ _ hnone sh hsh
        simpa [hname] using this
      rw [this]; rfl
    unfold workSheetReader
    rw [hv]; simp only [this]


def mapFind (m : List (Name × Nat)) (x : Name) : Option Nat := (m.find? fun e => eqFold e.1 x).map (·.2)

theorem getSheetXMLPath_eq (s : St) (n : Name) : getSheetXMLPath s n = mapFind s.sheetMap n :=
  getSheetXMLPath_def s n

theorem mapFind_replace_old (n x : Name) (v : Nat) (h : fold n ≠ fold x) : ∀ m : List (Name × Nat),
    mapFind (m.map fun e => if e.1 == n then (n, v) else e) x = mapFind m x
  | [] => rfl
  | a :: t => by
    have ih := mapFind_replace_old n x v h t
    simp only [mapFind, List.map_cons, List.find?_cons] at ih ⊢
    have hn : eqFold n x = false := (eqFold_false_iff _ _).mpr h
    by_cases ha : a.1 = n
    · have : eqFold a.1 x = false := by rw [ha]; exact hn
      simp [ha, hn, this]; simpa using ih
    · simp only [beq_iff_eq, ha, if_false]
      cases eqFold a.1 x with
      | true => rfl
      | false => simpa using ih

theorem mapFind_append_old (n x : Name) (v : Nat) (h : fold n ≠ fold x) (m : List (Name × Nat)) :
    mapFind (m ++ [(n, v)]) x = mapFind m x := by
  have hn : eqFold n x = false := (eqFold_false_iff _ _).mpr h
  simp only [mapFind, List.find?_append]
  cases m.find? (fun e => eqFold e.1 x) with
  | some e => rfl
  | none => simp [hn]

theorem mapFind_mapSet_old (m : List (Name × Nat)) (n x : Name) (v : Nat) (h : fold n ≠ fold x) :
    mapFind (mapSet m n v) x = mapFind m x := by
  unfold mapSet
  split
  · exact mapFind_replace_old n x v h m
  · exact mapFind_append_old n x v h m

theorem mapFind_mapSet_new (m : List (Name × Nat)) (n : Name) (v : Nat) (h : ∀ e ∈ m, fold e.1 ≠ fold n) :
    mapFind (mapSet m n v) n = some v ∧ mapSet m n v = m ++ [(n, v)] := by
  have hany : m.any (fun e => e.1 == n) = false := by
    rw [List.any_eq_false]
    intro e he hc
    exact h e he (by rw [eq_of_beq hc])
  have hset : mapSet m n v = m ++ [(n, v)] := by unfold mapSet; simp [hany]
  refine ⟨?_, hset⟩
  rw [hset]
  simp only [mapFind, List.find?_append]
  have : m.find? (fun e => eqFold e.1 n) = none :=
    find?_none_of _ _ (fun e he => (eqFold_false_iff _ _).mpr (h e he))
  rw [this]
  simp [eqFold]

theorem mapFind_mapErase (m : List (Name × Nat)) (k x : Name) (v : Nat)
    (h : (m.find? fun e => eqFold e.1 x) = some (x, v)) (hk : x ≠ k) :
    mapFind (mapErase m k) x = some v := by
  unfold mapFind mapErase
  rw [List.find?_filter]
  have := find?_and (fun e : Name × Nat => eqFold e.1 x) (fun e => e.1 != k) m (x, v) h (by simpa using hk)
  have e : (fun a : Name × Nat => decide ((a.1 != k) = true ∧ eqFold a.1 x = true)) = (fun y => (y.1 != k) && eqFold y.1 x) := by
    funext a
    cases (a.1 != k) <;> cases eqFold a.1 x <;> rfl
  rw [e, this]; rfl

/-- the sheetMap entry found for a listed sheet carries exactly its name -/
theorem map_entry_exact (s : St) (hu : (s.sheets.map fun sh => fold sh.name).Nodup) (hp : PB s) (sh : Sheet) (hsh : sh ∈ s.sheets) :
    (s.sheetMap.find? fun e => eqFold e.1 sh.name) = some (sh.name, sh.id) := by
  have hm := hp.map_ok sh hsh
  rw [getSheetXMLPath_def] at hm
  cases hf : s.sheetMap.find? (fun e => eqFold e.1 sh.name) with
  | none => rw [hf] at hm; cases hm
  | some e =>
    rw [hf] at hm
    simp only [Option.map_some, Option.some.injEq] at hm
    obtain ⟨hmem, hpe⟩ := find?_some_mem _ _ _ hf
    obtain ⟨sh', hsh', hname⟩ := hp.map_keys e hmem
    have : sh' = sh := nodup_map_inj (fun x : Sheet => fold x.name) s.sheets hu sh' hsh' sh hsh
      (by show fold sh'.name = fold sh.name; rw [hname]; exact (eqFold_iff _ _).mp hpe)
    subst this
    cases e with
    | mk k v => simp only at hname hm; subst hname; subst hm; rfl

end XlModel.Sheets
