/-
C16: the bookkeeping invariant `PB` is preserved by every operation.
-/
import XlModel.Lemmas.Sheets3

namespace XlModel.Sheets
open XlModel

/-- replacing decoded worksheets without dropping any keeps `PB` -/
theorem pb_of_parts (s : St) (ps' : List (Nat × Part)) (hp : PB s)
    (h : ∀ q, (partGet? s.parts q).isSome = true → (partGet? ps' q).isSome = true) :
    PB { s with parts := ps' } where
  rel_ok := hp.rel_ok
  map_ok := hp.map_ok
  part_ok := fun sh hsh => h _ (hp.part_ok sh hsh)
  id_pos := hp.id_pos
  rid_nodup := hp.rid_nodup
  map_keys := hp.map_keys

theorem partSet_keeps (ps : List (Nat × Part)) (p : Nat) (v : Part) (q : Nat)
    (h : (partGet? ps q).isSome = true) : (partGet? (partSet ps p v) q).isSome = true := by
  rw [partGet?_partSet]; split
  · rfl
  · exact h

/-- a state that differs from `s` only in the decoded worksheets, none of which was dropped -/
def PartsOnly (s s' : St) : Prop :=
  s' = { s with parts := s'.parts } ∧ ∀ q, (partGet? s.parts q).isSome = true → (partGet? s'.parts q).isSome = true

theorem partsOnly_refl (s : St) : PartsOnly s s := ⟨rfl, fun _ h => h⟩

theorem partsOnly_trans {a b c : St} (h1 : PartsOnly a b) (h2 : PartsOnly b c) : PartsOnly a c := by
  refine ⟨?_, fun q h => h2.2 q (h1.2 q h)⟩
  have e1 := h1.1; have e2 := h2.1
  rw [e2, e1]

theorem partsOnly_set (s : St) (p : Nat) (v : Part) : PartsOnly s { s with parts := partSet s.parts p v } :=
  ⟨rfl, fun q h => partSet_keeps _ _ _ _ h⟩

theorem pb_partsOnly {s s' : St} (h : PartsOnly s s') (hp : PB s) : PB s' := by
  rw [h.1]; exact pb_of_parts s s'.parts hp h.2

theorem core_partsOnly {s s' : St} (h : PartsOnly s s') : core s' = core s := by
  rw [h.1]; rfl

theorem setSelLoop_partsOnly (index : Nat) : ∀ (ns : List Name) (idx : Nat) (s : St),
    PartsOnly s (setSelLoop index idx ns s)
  | [], _, s => partsOnly_refl s
  | n :: ns, idx, s => by
    unfold setSelLoop
    split
    · exact partsOnly_refl s
    · exact partsOnly_trans (partsOnly_set s _ _) (setSelLoop_partsOnly index ns _ _)

theorem ungroupLoop_partsOnly (a : Nat) : ∀ (ns : List Name) (idx : Nat) (s s' : St),
    ungroupLoop a idx ns s = .ok s' → PartsOnly s s'
  | [], _, s, s', h => by simp [ungroupLoop] at h; subst h; exact partsOnly_refl s
  | n :: ns, idx, s, s', h => by
    unfold ungroupLoop at h
    split at h
    · exact ungroupLoop_partsOnly a ns _ s s' h
    · split at h
      · cases h
      · exact partsOnly_trans (partsOnly_set s _ _) (ungroupLoop_partsOnly a ns _ _ s' h)

theorem pb_setActive (s : St) (k : Nat) (hp : PB s) : PB (setActiveSheet s k) := by
  unfold setActiveSheet
  dsimp only
  apply pb_partsOnly (setSelLoop_partsOnly _ _ _ _)
  split
  · exact { rel_ok := hp.rel_ok, map_ok := hp.map_ok, part_ok := hp.part_ok, id_pos := hp.id_pos,
            rid_nodup := hp.rid_nodup, map_keys := hp.map_keys }
  · exact hp

theorem maxOf_lt_of_mem (l : List Nat) (x : Nat) (h : x ∈ l) : x ≠ maxOf l + 1 := by
  have := le_maxOf l x h; omega

theorem pb_new (s : St) (hp : PB s) (n : Name) (sid : Nat) (hsid : sid ≠ 0)
    (hf : ∀ sh ∈ s.sheets, fold sh.name ≠ fold n) :
    PB { s with
        count := s.count + 1
        ctypes := s.ctypes ++ [sid]
        sheetMap := mapSet s.sheetMap n sid
        parts := partSet s.parts sid ⟨false, 0⟩
        rels := s.rels ++ [⟨maxOf (s.rels.map (·.rid)) + 1, sid⟩]
        sheets := s.sheets ++ [⟨n, sid, maxOf (s.rels.map (·.rid)) + 1, .visible⟩] } := by
  have hkeys : ∀ e ∈ s.sheetMap, fold e.1 ≠ fold n := by
    intro e he
    obtain ⟨sh, hsh, hn⟩ := hp.map_keys e he
    rw [← hn]; exact hf sh hsh
  obtain ⟨hnew, hset⟩ := mapFind_mapSet_new s.sheetMap n sid hkeys
  have hrid_mem : ∀ sh ∈ s.sheets, sh.rid ∈ s.rels.map (·.rid) := by
    intro sh hsh
    have := find?_some_mem _ _ _ (hp.rel_ok sh hsh)
    exact List.mem_map.mpr ⟨_, this.1, rfl⟩
  exact {
    rel_ok := by
      intro sh hsh
      dsimp only at hsh ⊢
      rw [List.find?_append]
      rcases List.mem_append.mp hsh with h | h
      · rw [hp.rel_ok sh h]; rfl
      · simp only [List.mem_singleton] at h
        subst h
        have : s.rels.find? (fun r => r.rid == maxOf (s.rels.map (·.rid)) + 1) = none := by
          apply find?_none_of
          intro r hr
          have := maxOf_lt_of_mem _ r.rid (List.mem_map.mpr ⟨r, hr, rfl⟩)
          simpa using this
        simp [this]
    map_ok := by
      intro sh hsh
      dsimp only at hsh
      rw [getSheetXMLPath_eq]
      dsimp only
      rcases List.mem_append.mp hsh with h | h
      · rw [mapFind_mapSet_old _ _ _ _ (fun e => hf sh h e.symm), ← getSheetXMLPath_eq]
        exact hp.map_ok sh h
      · simp only [List.mem_singleton] at h
        subst h; exact hnew
    part_ok := by
      intro sh hsh
      dsimp only at hsh ⊢
      rcases List.mem_append.mp hsh with h | h
      · exact partSet_keeps _ _ _ _ (hp.part_ok sh h)
      · simp only [List.mem_singleton] at h
        subst h; rw [partGet?_partSet]; simp
    id_pos := by
      intro sh hsh
      dsimp only at hsh
      rcases List.mem_append.mp hsh with h | h
      · exact hp.id_pos sh h
      · simp only [List.mem_singleton] at h
        subst h; exact hsid
    rid_nodup := by
      dsimp only
      simp only [List.map_append, List.map_cons, List.map_nil]
      refine List.nodup_append.mpr ⟨hp.rid_nodup, by simp, ?_⟩
      intro a ha b hb
      simp only [List.mem_singleton] at hb
      subst hb
      obtain ⟨sh, hsh, rfl⟩ := List.mem_map.mp ha
      exact maxOf_lt_of_mem _ _ (hrid_mem sh hsh)
    map_keys := by
      intro e he
      dsimp only at he ⊢
      rw [hset] at he
      rcases List.mem_append.mp he with h | h
      · obtain ⟨sh, hsh, hn⟩ := hp.map_keys e h
        exact ⟨sh, List.mem_append_left _ hsh, hn⟩
      · simp only [List.mem_singleton] at h
        subst h
        exact ⟨_, List.mem_append_right _ (List.mem_singleton.mpr rfl), rfl⟩ }


theorem nodup_erase_ne {α β} (f : α → β) (l : List α) (d : Nat) (v : α) (hn : (l.map f).Nodup)
    (hv : l[d]? = some v) (x : α) (hx : x ∈ l.eraseIdx d) : f x ≠ f v := by
  have hp := (perm_cons_eraseIdx l d v hv).map f
  have hn' := (hp.nodup_iff).mpr hn
  simp only [List.map_cons, List.nodup_cons] at hn'
  intro he
  exact hn'.1 (List.mem_map.mpr ⟨x, hx, he⟩)

theorem mem_eraseIdx_of_ne {α} (l : List α) (d : Nat) (v x : α) (hv : l[d]? = some v) (hx : x ∈ l) (hne : x ≠ v) :
    x ∈ l.eraseIdx d := by
  have := (perm_cons_eraseIdx l d v hv).symm.subset hx
  rcases List.mem_cons.mp this with h | h
  · exact absurd h hne
  · exact h

theorem pb_deleteCascade (s : St) (hu : (s.sheets.map fun sh => fold sh.name).Nodup)
    (huid : (s.sheets.map (·.id)).Nodup) (hp : PB s) (d : Nat) (v : Sheet) (hv : s.sheets[d]? = some v) :
    PB (deleteCascade s d v) := by
  have hvm : v ∈ s.sheets := List.mem_of_getElem? hv
  have hsub : ∀ x, x ∈ s.sheets.eraseIdx d → x ∈ s.sheets := fun x hx => (List.eraseIdx_sublist _ _).subset hx
  unfold deleteCascade
  simp only [hp.rel_ok v hvm]
  exact {
    rel_ok := by
      intro sh hsh
      dsimp only at hsh ⊢
      have hne : sh.rid ≠ v.rid := nodup_erase_ne (·.rid) s.sheets d v hp.rid_nodup hv sh hsh
      cases hk : idxOf? (fun r : Rel => r.rid == v.rid) s.rels with
      | none => exact hp.rel_ok sh (hsub sh hsh)
      | some k =>
        dsimp only
        rw [find?_eraseIdx_ne]
        · exact hp.rel_ok sh (hsub sh hsh)
        · intro x hx
          obtain ⟨y, hy, hpy⟩ := idxOf?_getElem _ _ _ hk
          rw [hx] at hy
          simp only [Option.some.injEq] at hy
          subst hy
          have : x.rid = v.rid := by simpa using hpy
          simp [this]; exact fun h => hne h.symm
    map_ok := by
      intro sh hsh
      dsimp only at hsh
      rw [getSheetXMLPath_eq]
      dsimp only
      apply mapFind_mapErase _ _ _ _ (map_entry_exact s hu hp sh (hsub sh hsh))
      intro he
      have := nodup_erase_ne (fun x : Sheet => fold x.name) s.sheets d v hu hv sh hsh
      exact this (by show fold sh.name = fold v.name; rw [he])
    part_ok := by
      intro sh hsh
      dsimp only at hsh ⊢
      rw [partGet?_partErase]
      have hne : sh.id ≠ v.id := nodup_erase_ne (·.id) s.sheets d v huid hv sh hsh
      rw [if_neg hne]
      exact hp.part_ok sh (hsub sh hsh)
    id_pos := fun sh hsh => hp.id_pos sh (hsub sh hsh)
    rid_nodup := List.Nodup.sublist ((List.eraseIdx_sublist _ _).map _) hp.rid_nodup
    map_keys := by
      intro e he
      dsimp only at he ⊢
      unfold mapErase at he
      obtain ⟨hem, hek⟩ := List.mem_filter.mp he
      obtain ⟨sh, hsh, hn⟩ := hp.map_keys e hem
      refine ⟨sh, mem_eraseIdx_of_ne _ _ _ _ hv hsh ?_, hn⟩
      intro h
      subst h
      simp [hn] at hek }


/-- replacing the sheet list by one with the same (name, id, rId) triples keeps `PB` -/
theorem pb_resheet (s : St) (l' : List Sheet) (hp : PB s)
    (h1 : ∀ x ∈ l', ∃ y ∈ s.sheets, x.name = y.name ∧ x.id = y.id ∧ x.rid = y.rid)
    (h2 : ∀ y ∈ s.sheets, ∃ x ∈ l', x.name = y.name) (h3 : (l'.map (·.rid)).Nodup)
    (defs' : List DefName) (a : Nat) :
    PB { s with sheets := l', defs := defs', activeTab := a } where
  rel_ok := by
    intro x hx
    obtain ⟨y, hy, _, hid, hrid⟩ := h1 x hx
    show s.rels.find? (fun r => r.rid == x.rid) = some ⟨x.rid, x.id⟩
    rw [hrid, hid]; exact hp.rel_ok y hy
  map_ok := by
    intro x hx
    obtain ⟨y, hy, hn, hid, _⟩ := h1 x hx
    show getSheetXMLPath s x.name = some x.id
    rw [hn, hid]; exact hp.map_ok y hy
  part_ok := by
    intro x hx
    obtain ⟨y, hy, _, hid, _⟩ := h1 x hx
    show (partGet? s.parts x.id).isSome = true
    rw [hid]; exact hp.part_ok y hy
  id_pos := by
    intro x hx
    obtain ⟨y, hy, _, hid, _⟩ := h1 x hx
    rw [hid]; exact hp.id_pos y hy
  rid_nodup := h3
  map_keys := by
    intro e he
    obtain ⟨y, hy, hn⟩ := hp.map_keys e he
    obtain ⟨x, hx, hxn⟩ := h2 y hy
    exact ⟨x, hx, hxn.trans hn⟩

theorem pb_perm (s : St) (l' : List Sheet) (hp : PB s) (hperm : l'.Perm s.sheets) (defs' : List DefName) (a : Nat) :
    PB { s with sheets := l', defs := defs', activeTab := a } :=
  pb_resheet s l' hp (fun x hx => ⟨x, hperm.subset hx, rfl, rfl, rfl⟩)
    (fun y hy => ⟨y, hperm.symm.subset hy, rfl⟩) (((hperm.map _).nodup_iff).mpr hp.rid_nodup) defs' a

theorem hideAll_triples {t st c} : ∀ {l l' : List Sheet}, HideAll t st c l l' →
    (∀ x ∈ l', ∃ y ∈ l, x.name = y.name ∧ x.id = y.id ∧ x.rid = y.rid) ∧
    (∀ y ∈ l, ∃ x ∈ l', x.name = y.name) ∧ l'.map (·.rid) = l.map (·.rid)
  | _, _, .nil => by simp
  | _, _, .cons (x := a) (y := b) h t' => by
    obtain ⟨i1, i2, i3⟩ := hideAll_triples t'
    have hab : b.name = a.name ∧ b.id = a.id ∧ b.rid = a.rid := by
      rcases h with rfl | ⟨_, _, rfl⟩ <;> exact ⟨rfl, rfl, rfl⟩
    refine ⟨?_, ?_, ?_⟩
    · intro x hx
      rcases List.mem_cons.mp hx with rfl | hx'
      · exact ⟨a, List.mem_cons_self, hab⟩
      · obtain ⟨y, hy, h⟩ := i1 x hx'
        exact ⟨y, List.mem_cons_of_mem _ hy, h⟩
    · intro y hy
      rcases List.mem_cons.mp hy with rfl | hy'
      · exact ⟨b, List.mem_cons_self, hab.1⟩
      · obtain ⟨x, hx, h⟩ := i2 y hy'
        exact ⟨x, List.mem_cons_of_mem _ hx, h⟩
    · simp [i3, hab.2.2]

theorem pb_show (s : St) (hp : PB s) (t : Name) :
    PB { s with sheets := s.sheets.map fun v => if eqFold v.name t then { v with state := Vis.visible } else v } := by
  have := pb_resheet s (s.sheets.map fun v => if eqFold v.name t then { v with state := Vis.visible } else v) hp
    (by
      intro x hx
      obtain ⟨y, hy, rfl⟩ := List.mem_map.mp hx
      refine ⟨y, hy, ?_⟩
      split <;> exact ⟨rfl, rfl, rfl⟩)
    (by
      intro y hy
      refine ⟨_, List.mem_map.mpr ⟨y, hy, rfl⟩, ?_⟩
      split <;> rfl)
    (by
      have e : (s.sheets.map fun v => if eqFold v.name t then { v with state := Vis.visible } else v).map (·.rid) =
          s.sheets.map (·.rid) := by
        simp only [List.map_map]
        apply List.map_congr_left
        intro x _
        simp only [Function.comp]
        split <;> rfl
      rw [e]; exact hp.rid_nodup) s.defs s.activeTab
  exact this

theorem pb_hide (s : St) (hp : PB s) {t st c} (l' : List Sheet) (h : HideAll t st c s.sheets l') :
    PB { s with sheets := l' } := by
  obtain ⟨i1, i2, i3⟩ := hideAll_triples h
  exact pb_resheet s l' hp i1 i2 (by rw [i3]; exact hp.rid_nodup) s.defs s.activeTab

theorem pb_observe (s : St) (hp : PB s) : PB (observe s) := by
  unfold observe
  split
  · exact {
      rel_ok := by
        intro sh hsh
        show (s.rels ++ _).find? _ = _
        rw [List.find?_append, hp.rel_ok sh hsh]; rfl
      map_ok := hp.map_ok
      part_ok := hp.part_ok
      id_pos := hp.id_pos
      rid_nodup := hp.rid_nodup
      map_keys := hp.map_keys }
  · exact hp


theorem mapFind_append_left (l r : List (Name × Nat)) (n : Name) (v : Nat) (h : mapFind l n = some v) :
    mapFind (l ++ r) n = some v := by
  unfold mapFind at h ⊢
  rw [List.find?_append]
  cases hf : l.find? (fun e => eqFold e.1 n) with
  | none => rw [hf] at h; cases h
  | some e => rw [hf] at h; exact h

theorem pb_rename (s : St) (hu : (s.sheets.map fun sh => fold sh.name).Nodup) (hp : PB s) (a b : Name) (p : Nat) (hab : b ≠ a)
    (hany : s.sheets.any (·.name == a) = true) (hget : mapGetExact s.sheetMap a = some p)
    (hf : fold b = fold a ∨ ∀ sh ∈ s.sheets, fold sh.name ≠ fold b) :
    PB { s with sheets := renameList s.sheets a b, sheetMap := mapErase (mapSet s.sheetMap b p) a } := by
  obtain ⟨sh0, hsh0, hn0⟩ := List.any_eq_true.mp hany
  have hn0 : sh0.name = a := eq_of_beq hn0
  have hexact := map_entry_exact s hu hp sh0 hsh0
  rw [hn0] at hexact
  have hp0 : p = sh0.id := by
    have := find?_mono (fun e : Name × Nat => eqFold e.1 a) (fun e => e.1 == a) s.sheetMap (a, sh0.id) hexact
      (by simp) (by intro y hy; rw [eq_of_beq hy]; simp [eqFold])
    unfold mapGetExact at hget
    rw [this] at hget
    simpa using hget.symm
  subst hp0
  -- the only key that equals `b` case-insensitively is `a`
  have hkeys : ∀ e ∈ s.sheetMap, fold e.1 = fold b → e.1 = a := by
    intro e he hfe
    obtain ⟨sh, hsh, hn⟩ := hp.map_keys e he
    rcases hf with hf | hf
    · have : sh = sh0 := nodup_map_inj (fun x : Sheet => fold x.name) s.sheets hu sh hsh sh0 hsh0
        (by show fold sh.name = fold sh0.name; rw [hn, hn0, hfe, hf])
      rw [← hn, this, hn0]
    · exact absurd (by rw [hn]; exact hfe) (hf sh hsh)
  have hset : mapSet s.sheetMap b sh0.id = s.sheetMap ++ [(b, sh0.id)] := by
    unfold mapSet
    have : s.sheetMap.any (fun e => e.1 == b) = false := by
      rw [List.any_eq_false]
      intro e he hc
      have := hkeys e he (by rw [eq_of_beq hc])
      exact hab (by rw [← this]; exact (eq_of_beq hc).symm)
    simp [this]
  have hmap : mapErase (mapSet s.sheetMap b sh0.id) a = mapErase s.sheetMap a ++ [(b, sh0.id)] := by
    rw [hset]; unfold mapErase
    rw [List.filter_append]
    simp [hab]
  have huniq : ∀ x ∈ s.sheets, x.name = a → x = sh0 := by
    intro x hx hxa
    exact nodup_map_inj (fun x : Sheet => fold x.name) s.sheets hu x hx sh0 hsh0
      (by show fold x.name = fold sh0.name; rw [hxa, hn0])
  have hmem : ∀ x' ∈ renameList s.sheets a b, ∃ x ∈ s.sheets, x'.id = x.id ∧ x'.rid = x.rid ∧
      ((x.name = a ∧ x'.name = b) ∨ (x.name ≠ a ∧ x' = x)) := by
    intro x' hx'
    obtain ⟨x, hx, rfl⟩ := List.mem_map.mp hx'
    refine ⟨x, hx, ?_⟩
    by_cases hxa : x.name = a
    · simp [hxa]
    · simp [hxa]
  exact {
    rel_ok := by
      intro x' hx'
      obtain ⟨x, hx, hid, hrid, _⟩ := hmem x' hx'
      show s.rels.find? (fun r => r.rid == x'.rid) = some ⟨x'.rid, x'.id⟩
      rw [hid, hrid]; exact hp.rel_ok x hx
    map_ok := by
      intro x' hx'
      obtain ⟨x, hx, hid, _, hcase⟩ := hmem x' hx'
      rw [getSheetXMLPath_eq]
      show mapFind (mapErase (mapSet s.sheetMap b sh0.id) a) x'.name = some x'.id
      rw [hmap, hid]
      rcases hcase with ⟨hxa, hxb⟩ | ⟨hxa, rfl⟩
      · have := huniq x hx hxa
        subst this
        rw [hxb]
        unfold mapFind
        rw [List.find?_append]
        have : (mapErase s.sheetMap a).find? (fun e => eqFold e.1 b) = none := by
          apply find?_none_of
          intro e he
          unfold mapErase at he
          obtain ⟨hem, hek⟩ := List.mem_filter.mp he
          cases hq : eqFold e.1 b with
          | false => rfl
          | true =>
            have := hkeys e hem ((eqFold_iff _ _).mp hq)
            simp [this] at hek
        rw [this]
        simp [eqFold]
      · apply mapFind_append_left
        exact mapFind_mapErase _ _ _ _ (map_entry_exact s hu hp x' hx) hxa
    part_ok := by
      intro x' hx'
      obtain ⟨x, hx, hid, _, _⟩ := hmem x' hx'
      show (partGet? s.parts x'.id).isSome = true
      rw [hid]; exact hp.part_ok x hx
    id_pos := by
      intro x' hx'
      obtain ⟨x, hx, hid, _, _⟩ := hmem x' hx'
      rw [hid]; exact hp.id_pos x hx
    rid_nodup := by
      have e : (renameList s.sheets a b).map (·.rid) = s.sheets.map (·.rid) := by
        simp only [renameList, List.map_map]
        apply List.map_congr_left
        intro x _
        simp only [Function.comp]
        split <;> rfl
      show ((renameList s.sheets a b).map (·.rid)).Nodup
      rw [e]; exact hp.rid_nodup
    map_keys := by
      intro e he
      change e ∈ mapErase (mapSet s.sheetMap b sh0.id) a at he
      show ∃ sh ∈ renameList s.sheets a b, sh.name = e.1
      rw [hmap] at he
      rcases List.mem_append.mp he with h | h
      · unfold mapErase at h
        obtain ⟨hem, hek⟩ := List.mem_filter.mp h
        obtain ⟨sh, hsh, hn⟩ := hp.map_keys e hem
        refine ⟨sh, List.mem_map.mpr ⟨sh, hsh, ?_⟩, hn⟩
        have : sh.name ≠ a := by rw [hn]; simpa using hek
        simp [this]
      · simp only [List.mem_singleton] at h
        subst h
        exact ⟨{ sh0 with name := b }, List.mem_map.mpr ⟨sh0, hsh0, by simp [hn0]⟩, rfl⟩ }

end XlModel.Sheets
