/-
C16: full-state shape of every operation, `PB` over histories, no gap / panic outcome.
-/
import XlModel.Lemmas.Sheets4

namespace XlModel.Sheets
open XlModel

theorem newSheet_full (s s' : St) (n : Name) (r : Option Nat) (h : newSheet s n = .ok (s', r)) :
    s' = s ∨ (validName n = true ∧ (∀ sh ∈ s.sheets, fold sh.name ≠ fold n) ∧
      s' = { s with
        count := s.count + 1
        ctypes := s.ctypes ++ [newSheetID s]
        sheetMap := mapSet s.sheetMap n (newSheetID s)
        parts := partSet s.parts (newSheetID s) ⟨false, 0⟩
        rels := s.rels ++ [⟨maxOf (s.rels.map (·.rid)) + 1, newSheetID s⟩]
        sheets := s.sheets ++ [⟨n, newSheetID s, maxOf (s.rels.map (·.rid)) + 1, .visible⟩] }) := by
  unfold newSheet at h
  split at h
  · cases h
  · cases h; left; rfl
  · rename_i hg
    obtain ⟨hv, hnone⟩ := getSheetIndex_ok _ _ _ hg
    have hd : deleteSheet s n = .ok s := deleteSheet_absent s n hv (sheetIndexD_of_ok s n none hg)
    rw [hd] at h
    dsimp only at h
    split at h
    · cases h
    · cases h
      right
      refine ⟨hv, ?_, rfl⟩
      intro sh hsh
      have := idxOf?_none _ _ hnone.symm sh hsh
      exact (eqFold_false_iff _ _).mp this

theorem deleteSheet_full (s s' : St) (n : Name) (h : deleteSheet s n = .ok s') :
    s' = s ∨ ∃ d v k, s.sheets[d]? = some v ∧ eqFold v.name n = true ∧
      idxOf? (fun sh => eqFold sh.name n) s.sheets = some d ∧ s.count ≠ 1 ∧
      (∃ w ∈ s.sheets, eqFold w.name n = false ∧ w.state = Vis.visible) ∧
      s' = setActiveSheet (deleteCascade { s with defs := deleteAndAdjustDefinedNames s.defs d } d v) (clampIdx k) ∧
      getSheetIndex (deleteCascade { s with defs := deleteAndAdjustDefinedNames s.defs d } d v)
        (getSheetName s (getActiveSheetIndex s)) = .ok k := by
  unfold deleteSheet at h
  split at h
  · cases h
  · split at h
    · cases h; left; rfl
    · rename_i d hd
      split at h
      · cases h; left; rfl
      · rename_i hc
        split at h
        · cases h; left; rfl
        · rename_i hg
          obtain ⟨_, hidx⟩ := sheetIndexD_some s n d hd
          obtain ⟨v, hv, hpv⟩ := idxOf?_getElem _ _ _ hidx
          simp only [hd, fact_foldDeleteSheet, nameEq_true, hidx, hv] at h
          split at h
          · cases h
          · rename_i i hi
            cases h
            right
            refine ⟨d, v, i, hv, hpv, hidx, hc, ?_, rfl, hi⟩
            simp only [fact_deleteKeepsVisible, fact_foldDeleteSheet, nameEq_true, Bool.true_and,
              Bool.not_eq_true'] at hg
            have hany : (s.sheets.any fun v => !eqFold v.name n && isVisible v.state) = true := by
              cases hb : (s.sheets.any fun v => !eqFold v.name n && isVisible v.state) with
              | true => rfl
              | false => exact absurd hb hg
            obtain ⟨w, hw, hp⟩ := List.any_eq_true.mp hany
            simp only [Bool.and_eq_true, Bool.not_eq_true', isVisible_iff] at hp
            exact ⟨w, hw, hp.1, hp.2⟩

theorem inv_defs_irrelevant_pb (s : St) (defs' : List DefName) (hp : PB s) : PB { s with defs := defs' } :=
  { rel_ok := hp.rel_ok, map_ok := hp.map_ok, part_ok := hp.part_ok, id_pos := hp.id_pos,
    rid_nodup := hp.rid_nodup, map_keys := hp.map_keys }


def spliceAt (l : List Sheet) (si ti : Nat) (src : Sheet) : List Sheet :=
  (l.eraseIdx si).take (if ti > si then ti - 1 else ti) ++ src :: (l.eraseIdx si).drop (if ti > si then ti - 1 else ti)

/-- the state `MoveSheet` builds before re-activating -/
def moveCore (s1 : St) (si ti : Nat) (src : Sheet) : St :=
  { s1 with
    sheets := spliceAt s1.sheets si ti src
    defs := moveDefs s1.defs si (if ti > si then ti - 1 else ti) }

theorem moveSheet_full (s s' : St) (a b : Name) (h : moveSheet s a b = .ok s') :
    s' = s ∨ ∃ si ti src s1, ungroupSheets s = .ok s1 ∧ s1.sheets[si]? = some src ∧ ti < s1.sheets.length ∧
      getSheetIndex s a = .ok (some si) ∧ getSheetIndex s b = .ok (some ti) ∧ eqFold a b = false ∧
      s' = setActiveSheet (moveCore s1 si ti src)
            (clampIdx (sheetIndexD (moveCore s1 si ti src) (getSheetName s1 (getActiveSheetIndex s1)))) := by
  unfold moveSheet at h
  split at h
  · cases h; left; rfl
  · rename_i hne
    split at h
    · cases h
    · rename_i si0 hsi
      split at h
      · cases h
      · rename_i ti0 hti
        split at h
        · cases h
        · cases h
        · rename_i si ti
          split at h
          · cases h
          · rename_i s1 hu
            have hc := core_partsOnly (ungroupLoop_partsOnly _ _ _ s s1 hu)
            have hsheets : s1.sheets = s.sheets := by
              simp only [core, Core.mk.injEq] at hc; exact hc.2.2.1
            dsimp only at h
            split at h
            · cases h
            · rename_i src hsrc
              cases h
              right
              have hti' := idxOf?_lt _ _ _ (getSheetIndex_ok _ _ _ hti).2.symm
              refine ⟨si, ti, src, s1, hu, hsrc, by rw [hsheets]; exact hti', hsi, hti, ?_, ?_⟩
              · simpa using hne
              · simp only [fact_moveRenumbersLocalSheetId, if_true, spliceAt, moveDefs, moveCore]
                rfl

theorem setSheetName_full (s s' : St) (a b : Name) (h : setSheetName s a b = .ok s') :
    s' = s ∨ (∃ p, validName b = true ∧ b ≠ a ∧ s.sheets.any (·.name == a) = true ∧
      mapGetExact s.sheetMap a = some p ∧ (fold b = fold a ∨ ∀ sh ∈ s.sheets, fold sh.name ≠ fold b) ∧
      s' = { s with sheets := renameList s.sheets a b, sheetMap := mapErase (mapSet s.sheetMap b p) a,
                    defs := adjustDefs s.defs a b }) ∨
    (s.sheets.any (·.name == a) = false ∧ s' = { s with defs := adjustDefs s.defs a b }) := by
  unfold setSheetName at h
  split at h
  · cases h
  · split at h
    · cases h
    · rename_i hb
      split at h
      · cases h; left; rfl
      · rename_i hab
        split at h
        · cases h
        · rename_i hclash
          simp only [fact_renameSourceExact, Bool.not_true, Bool.false_eq_true, if_false] at h
          split at h
          · rename_i hany
            split at h
            · cases h
            · rename_i p hget
              cases h
              right; left
              refine ⟨p, by unfold validName; rw [hb], hab, hany, hget, ?_, rfl⟩
              simp only [fact_renameClashCheck, Bool.true_and, Bool.and_eq_true, Bool.not_eq_true',
                not_and, Bool.not_eq_true, Option.isSome_eq_false_iff, Option.isNone_iff_eq_none] at hclash
              by_cases hf : eqFold b a = true
              · left; exact (eqFold_iff _ _).mp hf
              · right
                have hn := hclash (by simpa using hf)
                intro sh hsh
                unfold sheetIndexD at hn
                rw [getSheetIndex, hb] at hn
                simp only [fact_foldGetSheetIndex, nameEq_true] at hn
                exact (eqFold_false_iff _ _).mp (idxOf?_none _ _ hn sh hsh)
          · rename_i hany
            cases h; right; right
            exact ⟨by simpa using hany, rfl⟩

theorem copySheet_partsOnly (s s' : St) (f t : Int) (h : copySheet s f t = .ok s') : PartsOnly s s' := by
  unfold copySheet at h
  dsimp only at h
  repeat' split at h
  all_goals first | (cases h; exact partsOnly_set s _ _) | cases h

theorem setCell_partsOnly (s s' : St) (n : Name) (v : Nat) (h : setCell s n v = .ok s') : PartsOnly s s' := by
  unfold setCell at h
  split at h
  · cases h
  · cases h; exact partsOnly_set s _ _

theorem partGet?_map_val (f : Nat × Part → Part) : ∀ (ps : List (Nat × Part)) (q : Nat),
    (partGet? (ps.map fun e => (e.1, f e)) q).isSome = (partGet? ps q).isSome
  | [], _ => rfl
  | a :: t, q => by
    have ih := partGet?_map_val f t q
    simp only [partGet?, List.map_cons, List.find?_cons] at ih ⊢
    cases (a.1 == q) with
    | true => rfl
    | false => exact ih

theorem group_map_partsOnly (s : St) (ps : List Nat) :
    PartsOnly s { s with parts := s.parts.map fun e => if ps.contains e.1 then (e.1, { e.2 with sel := true }) else e } := by
  refine ⟨rfl, ?_⟩
  intro q hq
  have e : (s.parts.map fun e => if ps.contains e.1 = true then (e.1, { e.2 with sel := true }) else e) =
      s.parts.map fun e => (e.1, if ps.contains e.1 = true then { e.2 with sel := true } else e.2) := by
    apply List.map_congr_left
    intro e _
    split <;> rfl
  show (partGet? (s.parts.map _) q).isSome = true
  rw [e, partGet?_map_val]; exact hq

theorem groupSheets_partsOnly (s s' : St) (ns : List Name) (h : groupSheets s ns = .ok s') : PartsOnly s s' := by
  unfold groupSheets at h
  dsimp only at h
  repeat' split at h
  all_goals first | (cases h; exact group_map_partsOnly s _) | cases h

/-- every API call preserves the bookkeeping invariant -/
theorem step_pb (s : St) (op : Op) (hi : Inv s) (hp : PB s) : PB (step s op).1 := by
  cases op with
  | new n =>
    simp only [step]
    split
    · rename_i s' r hn
      rcases newSheet_full s s' n r hn with rfl | ⟨_, hf, rfl⟩
      · exact hp
      · exact pb_new s hp n (newSheetID s) (by have := newSheetID_gt s; omega) hf
    · exact hp
  | delete n =>
    simp only [step]
    split
    · rename_i s' hd
      rcases deleteSheet_full s s' n hd with rfl | ⟨d, v, k, hv, _, _, _, _, rfl, _⟩
      · exact hp
      · apply pb_setActive
        exact pb_deleteCascade { s with defs := deleteAndAdjustDefinedNames s.defs d } hi.uniq_ci hi.uniq_id
          (inv_defs_irrelevant_pb s _ hp) d v hv
    · exact hp
  | copy f t =>
    simp only [step]
    split
    · rename_i s' hc; exact pb_partsOnly (copySheet_partsOnly s s' f t hc) hp
    · exact hp
  | move a b =>
    simp only [step]
    split
    · rename_i s' hm
      rcases moveSheet_full s s' a b hm with rfl | ⟨si, ti, src, s1, hu, hsrc, _, _, _, _, rfl⟩
      · exact hp
      · apply pb_setActive
        have hp1 := pb_partsOnly (ungroupLoop_partsOnly _ _ _ s s1 hu) hp
        exact pb_perm s1 _ hp1 (perm_splice s1.sheets si _ src hsrc) _ s1.activeTab
    · exact hp
  | rename a b =>
    simp only [step]
    split
    · rename_i s' hr
      rcases setSheetName_full s s' a b hr with rfl | ⟨p, _, hab, hany, hget, hf, rfl⟩ | ⟨_, rfl⟩
      · exact hp
      · exact inv_defs_irrelevant_pb _ _ (pb_rename s hi.uniq_ci hp a b p hab hany hget hf)
      · exact inv_defs_irrelevant_pb s _ hp
    · exact hp
  | visible n v vh =>
    simp only [step]
    unfold setSheetVisible
    split
    · exact hp
    · split
      · simp only [fact_foldSetSheetVisible, nameEq_true]
        exact pb_show s hp n
      · dsimp only
        exact pb_hide s hp _ (visLoop_rel s n _ _ s.sheets)
  | active i => simp only [step]; exact pb_setActive s _ hp
  | group ns =>
    simp only [step]
    split
    · rename_i s' hg; exact pb_partsOnly (groupSheets_partsOnly s s' ns hg) hp
    · exact hp
  | ungroup =>
    simp only [step]
    split
    · rename_i s' hu; exact pb_partsOnly (ungroupLoop_partsOnly _ _ _ s s' hu) hp
    · exact hp
  | defname k sc dt =>
    simp only [step]
    split
    · rename_i s' hd
      unfold setDefinedName at hd
      repeat' split at hd
      all_goals first | (cases hd; exact inv_defs_irrelevant_pb s _ hp) | cases hd
    · exact hp
  | deldef k sc =>
    simp only [step]
    split
    · rename_i s' hd
      unfold deleteDefinedName at hd
      repeat' split at hd
      all_goals first | (cases hd; exact inv_defs_irrelevant_pb s _ hp) | cases hd
    · exact hp
  | setcell n v =>
    simp only [step]
    split
    · rename_i s' hc; exact pb_partsOnly (setCell_partsOnly s s' n v hc) hp
    · exact hp
  | save =>
    exact { rel_ok := hp.rel_ok, map_ok := hp.map_ok, part_ok := hp.part_ok, id_pos := hp.id_pos,
            rid_nodup := hp.rid_nodup, map_keys := hp.map_keys }
  | reopen =>
    exact { rel_ok := hp.rel_ok, map_ok := hp.map_ok, part_ok := hp.part_ok, id_pos := hp.id_pos,
            rid_nodup := hp.rid_nodup, map_keys := hp.map_keys }
  | observe => exact pb_observe s hp

theorem init_pb : PB init where
  rel_ok := by decide +kernel
  map_ok := by decide +kernel
  part_ok := by decide +kernel
  id_pos := by decide +kernel
  rid_nodup := by decide +kernel
  map_keys := by decide +kernel

theorem run_inv_pb (s : St) (ops : List Op) (hi : Inv s) (hp : PB s) : Inv (run s ops) ∧ PB (run s ops) := by
  induction ops generalizing s with
  | nil => exact ⟨hi, hp⟩
  | cons o os ih => exact ih _ (step_inv s o hi) (step_pb s o hi hp)


/-- the outcomes that mean "the model does not describe this state" or "the Go code panics" -/
def Bad (e : Err) : Prop := e = Err.gap ∨ e = Err.panic

theorem checkSheetName_not_bad (n : Name) (e : Err) (h : checkSheetName n = .error e) : ¬ Bad e := by
  unfold checkSheetName at h
  repeat' split at h
  all_goals first | (cases h; intro hb; rcases hb with hb | hb <;> cases hb) | cases h

theorem reader_not_bad (s : St) (hp : PB s) (n : Name) (e : Err) (h : workSheetReader s n = .error e) : ¬ Bad e := by
  unfold workSheetReader at h
  split at h
  · rename_i e' hc
    cases h
    exact checkSheetName_not_bad n _ hc
  · split at h
    · cases h; intro hb; rcases hb with hb | hb <;> cases hb
    · rename_i p hpth
      split at h
      · cases h
      · rename_i hnone
        exfalso
        rw [getSheetXMLPath_def] at hpth
        cases hf : s.sheetMap.find? (fun e => eqFold e.1 n) with
        | none => rw [hf] at hpth; cases hpth
        | some e0 =>
          rw [hf] at hpth
          obtain ⟨hmem, hpe⟩ := find?_some_mem _ _ _ hf
          obtain ⟨sh, hsh, hname⟩ := hp.map_keys e0 hmem
          have hm := hp.map_ok sh hsh
          rw [getSheetXMLPath_congr s sh.name n (by rw [hname]; exact (eqFold_iff _ _).mp hpe),
            getSheetXMLPath_def, hf] at hm
          have hpid : p = sh.id := by
            simp only [Option.map_some, Option.some.injEq] at hpth hm
            rw [← hpth, hm]
          have := hp.part_ok sh hsh
          rw [← hpid, hnone] at this
          cases this

theorem reader_listed (s : St) (hi : Inv s) (hp : PB s) (sh : Sheet) (hsh : sh ∈ s.sheets) :
    ∃ w, workSheetReader s sh.name = .ok (sh.id, w) := by
  have hv := (validName_iff _).mp (hi.valid sh hsh)
  obtain ⟨i, hidx⟩ := idxOf?_isSome_of_mem (fun x : Sheet => eqFold x.name sh.name) s.sheets sh hsh (by simp [eqFold])
  obtain ⟨sh', w, hget, hpe, _, hr⟩ := (reader_char s hp sh.name hv).1 i hidx
  have : sh' = sh := nodup_map_inj (fun x : Sheet => fold x.name) s.sheets hi.uniq_ci sh' (List.mem_of_getElem? hget) sh hsh
    ((eqFold_iff _ _).mp hpe)
  subst this
  exact ⟨w, hr⟩

theorem ungroupLoop_ok (a : Nat) : ∀ (l : List Sheet) (idx : Nat) (s : St), Inv s → PB s →
    (∀ x ∈ l, x ∈ s.sheets) → ∃ s', ungroupLoop a idx (l.map (·.name)) s = .ok s'
  | [], _, s, _, _, _ => ⟨s, rfl⟩
  | x :: t, idx, s, hi, hp, hl => by
    simp only [List.map_cons]
    unfold ungroupLoop
    split
    · exact ungroupLoop_ok a t _ s hi hp (fun y hy => hl y (List.mem_cons_of_mem _ hy))
    · obtain ⟨w, hr⟩ := reader_listed s hi hp x (hl x List.mem_cons_self)
      rw [hr]
      dsimp only
      have hpo := partsOnly_set s x.id { w with sel := false }
      have hi' : Inv { s with parts := partSet s.parts x.id { w with sel := false } } := by
        unfold Inv; exact hi
      exact ungroupLoop_ok a t _ _ hi' (pb_partsOnly hpo hp) (fun y hy => hl y (List.mem_cons_of_mem _ hy))

theorem ungroupSheets_ok (s : St) (hi : Inv s) (hp : PB s) : ∃ s', ungroupSheets s = .ok s' :=
  ungroupLoop_ok _ s.sheets 0 s hi hp (fun _ h => h)

theorem visLoop_ok (s : St) (hi : Inv s) (hp : PB s) (t : Name) (st : Vis) (c : Nat) :
    ∀ l : List Sheet, (∀ x ∈ l, x ∈ s.sheets) → (visLoop s t st c l).2 = none
  | [], _ => rfl
  | x :: r, hl => by
    unfold visLoop
    obtain ⟨w, hr⟩ := reader_listed s hi hp x (hl x List.mem_cons_self)
    rw [hr]
    exact visLoop_ok s hi hp t st c r (fun y hy => hl y (List.mem_cons_of_mem _ hy))

theorem groupRead_not_bad (s : St) (hp : PB s) : ∀ (ns : List Name) (e : Err), groupRead s ns = .error e → ¬ Bad e
  | [], e, h => by simp [groupRead] at h
  | n :: ns, e, h => by
    unfold groupRead at h
    split at h
    · rename_i e' hr; cases h; exact reader_not_bad s hp n _ hr
    · split at h
      · rename_i e' hr; cases h; exact groupRead_not_bad s hp ns _ hr
      · cases h

theorem not_bad_of_ne {e : Err} (h1 : e ≠ Err.gap) (h2 : e ≠ Err.panic) : ¬ Bad e := by
  intro hb; rcases hb with hb | hb
  · exact h1 hb
  · exact h2 hb


@[simp] theorem fact_copyTargetByPartPath : Facts.C16.copyTargetByPartPath = true := rfl

theorem getSheetIndex_err (s : St) (n : Name) (e : Err) (h : getSheetIndex s n = .error e) : ¬ Bad e := by
  unfold getSheetIndex at h
  split at h
  · rename_i e' hc; cases h; exact checkSheetName_not_bad n _ hc
  · cases h

theorem newSheet_err (s : St) (n : Name) (e : Err) (h : newSheet s n = .error e) : ¬ Bad e := by
  unfold newSheet at h
  split at h
  · rename_i e' hg; cases h; exact getSheetIndex_err s n _ hg
  · cases h
  · rename_i hg
    obtain ⟨hv, _⟩ := getSheetIndex_ok _ _ _ hg
    rw [deleteSheet_absent s n hv (sheetIndexD_of_ok s n none hg)] at h
    dsimp only at h
    split at h
    · rename_i e' hg'; cases h; exact getSheetIndex_err _ n _ hg'
    · cases h

theorem deleteSheet_err (s : St) (n : Name) (e : Err) (h : deleteSheet s n = .error e) : ¬ Bad e := by
  unfold deleteSheet at h
  split at h
  · rename_i e' hc; cases h; exact checkSheetName_not_bad n _ hc
  · split at h
    · cases h
    · rename_i d hd
      split at h
      · cases h
      · split at h
        · cases h
        · obtain ⟨_, hidx⟩ := sheetIndexD_some s n d hd
          obtain ⟨v, hv, _⟩ := idxOf?_getElem _ _ _ hidx
          simp only [hd, fact_foldDeleteSheet, nameEq_true, hidx, hv] at h
          split at h
          · rename_i e' hg; cases h; exact getSheetIndex_err _ _ _ hg
          · cases h

theorem copySheet_err (s : St) (hp : PB s) (f t : Int) (e : Err) (h : copySheet s f t = .error e) : ¬ Bad e := by
  unfold copySheet at h
  split at h
  · cases h; exact not_bad_of_ne (by decide) (by decide)
  · simp only [fact_copyTargetByPartPath, Bool.not_true, Bool.false_eq_true, if_false] at h
    split at h
    · rename_i e' hr; cases h; exact reader_not_bad s hp _ _ hr
    · split at h
      · rename_i e' hr; cases h; exact reader_not_bad s hp _ _ hr
      · cases h

theorem moveSheet_err (s : St) (hi : Inv s) (hp : PB s) (a b : Name) (e : Err) (h : moveSheet s a b = .error e) : ¬ Bad e := by
  unfold moveSheet at h
  split at h
  · cases h
  · split at h
    · rename_i e' hg; cases h; exact getSheetIndex_err _ _ _ hg
    · rename_i si0 hsi
      split at h
      · rename_i e' hg; cases h; exact getSheetIndex_err _ _ _ hg
      · rename_i ti0 hti
        split at h
        · cases h; exact not_bad_of_ne (by decide) (by decide)
        · cases h; exact not_bad_of_ne (by decide) (by decide)
        · rename_i si ti
          obtain ⟨s1, hu⟩ := ungroupSheets_ok s hi hp
          rw [hu] at h
          dsimp only at h
          have hc := core_partsOnly (ungroupLoop_partsOnly _ _ _ s s1 hu)
          have hsheets : s1.sheets = s.sheets := by
            simp only [core, Core.mk.injEq] at hc; exact hc.2.2.1
          have hlt := idxOf?_lt _ _ _ (getSheetIndex_ok _ _ _ hsi).2.symm
          split at h
          · rename_i hnone
            rw [hsheets, List.getElem?_eq_none_iff] at hnone
            omega
          · cases h

theorem setSheetName_err (s : St) (hi : Inv s) (hp : PB s) (a b : Name) (e : Err) (h : setSheetName s a b = .error e) : ¬ Bad e := by
  unfold setSheetName at h
  split at h
  · rename_i e' hc; cases h; exact checkSheetName_not_bad _ _ hc
  · split at h
    · rename_i e' hc; cases h; exact checkSheetName_not_bad _ _ hc
    · split at h
      · cases h
      · split at h
        · cases h; exact not_bad_of_ne (by decide) (by decide)
        · simp only [fact_renameSourceExact, Bool.not_true, Bool.false_eq_true, if_false] at h
          split at h
          · rename_i hany
            split at h
            · rename_i hnone
              exfalso
              obtain ⟨sh0, hsh0, hn0⟩ := List.any_eq_true.mp hany
              have hn0 : sh0.name = a := eq_of_beq hn0
              have hexact := map_entry_exact s hi.uniq_ci hp sh0 hsh0
              rw [hn0] at hexact
              have := find?_mono (fun e : Name × Nat => eqFold e.1 a) (fun e => e.1 == a) s.sheetMap (a, sh0.id) hexact
                (by simp) (by intro y hy; rw [eq_of_beq hy]; simp [eqFold])
              unfold mapGetExact at hnone
              rw [this] at hnone
              cases hnone
            · cases h
          · cases h

@[simp] theorem fact_deleteDefinedNameByScope : Facts.C16.deleteDefinedNameByScope = true := rfl

@[simp] theorem fact_definedNameScopeResolved : Facts.C16.definedNameScopeResolved = true := rfl

theorem setDefinedName_err (s : St) (k : Nat) (sc dt : Name) (e : Err) (h : setDefinedName s k sc dt = .error e) : ¬ Bad e := by
  unfold setDefinedName at h
  split at h
  · cases h; exact not_bad_of_ne (by decide) (by decide)
  · simp only [fact_definedNameScopeResolved, Bool.not_true, Bool.false_eq_true, if_false] at h
    split at h
    · rename_i e' hs
      cases h
      unfold getDefinedNameScope at hs
      split at hs
      · cases hs
      · split at hs
        · rename_i e'' hg; cases hs; exact getSheetIndex_err _ _ _ hg
        · cases hs; exact not_bad_of_ne (by decide) (by decide)
        · cases hs
    · split at h
      · cases h; exact not_bad_of_ne (by decide) (by decide)
      · cases h

theorem step_not_bad (s : St) (op : Op) (hi : Inv s) (hp : PB s) (e : Err) (h : (step s op).2 = some e) : ¬ Bad e := by
  cases op with
  | new n =>
    simp only [step] at h
    split at h
    · cases h
    · rename_i e' hn; cases h; exact newSheet_err s n _ hn
  | delete n =>
    simp only [step] at h
    split at h
    · cases h
    · rename_i e' hn; cases h; exact deleteSheet_err s n _ hn
  | copy f t =>
    simp only [step] at h
    split at h
    · cases h
    · rename_i e' hn; cases h; exact copySheet_err s hp f t _ hn
  | move a b =>
    simp only [step] at h
    split at h
    · cases h
    · rename_i e' hn; cases h; exact moveSheet_err s hi hp a b _ hn
  | rename a b =>
    simp only [step] at h
    split at h
    · cases h
    · rename_i e' hn; cases h; exact setSheetName_err s hi hp a b _ hn
  | visible n v vh =>
    simp only [step] at h
    unfold setSheetVisible at h
    split at h
    · rename_i e' hc; cases h; exact checkSheetName_not_bad _ _ hc
    · split at h
      · cases h
      · dsimp only at h
        rw [visLoop_ok s hi hp _ _ _ s.sheets (fun _ hx => hx)] at h
        cases h
  | active i => simp only [step] at h; cases h
  | group ns =>
    simp only [step] at h
    split at h
    · cases h
    · rename_i e' hn
      cases h
      unfold groupSheets at hn
      dsimp only at hn
      repeat' split at hn
      all_goals first
        | (cases hn; exact not_bad_of_ne (by decide) (by decide))
        | (rename_i e'' hg; cases hn; exact groupRead_not_bad s hp ns _ hg)
        | cases hn
  | ungroup =>
    simp only [step] at h
    obtain ⟨s1, hu⟩ := ungroupSheets_ok s hi hp
    rw [hu] at h
    cases h
  | defname k sc dt =>
    simp only [step] at h
    split at h
    · cases h
    · rename_i e' hn
      cases h
      exact setDefinedName_err s _ _ _ _ hn
  | deldef k sc =>
    simp only [step] at h
    split at h
    · cases h
    · rename_i e' hn
      cases h
      unfold deleteDefinedName at hn
      simp only [fact_deleteDefinedNameByScope, Bool.not_true, Bool.false_eq_true, if_false] at hn
      repeat' split at hn
      all_goals first | (cases hn; exact not_bad_of_ne (by decide) (by decide)) | cases hn
  | setcell n v =>
    simp only [step] at h
    split at h
    · cases h
    · rename_i e' hn
      cases h
      unfold setCell at hn
      split at hn
      · rename_i e'' hr; cases hn; exact reader_not_bad s hp _ _ hr
      · cases hn
  | save => simp only [step] at h; cases h
  | reopen => simp only [step] at h; cases h
  | observe => simp only [step] at h; cases h


theorem getSheetName_some (s : St) (i : Nat) (h : getSheetName s i ≠ []) : ∃ sh, s.sheets[i]? = some sh ∧ getSheetName s i = sh.name := by
  unfold getSheetName at h ⊢
  cases hg : s.sheets[i]? with
  | none => simp [hg] at h
  | some sh => exact ⟨sh, rfl, rfl⟩

/-- CopySheet on a consistent state: the target's worksheet becomes the source's (tab deselected),
every other decoded worksheet is untouched -/
theorem copySheet_parts (s s' : St) (hi : Inv s) (hp : PB s) (f t : Int) (h : copySheet s f t = .ok s') :
    ∃ shf sht wf, s.sheets[f.toNat]? = some shf ∧ s.sheets[t.toNat]? = some sht ∧ shf.id ≠ sht.id ∧
      partGet? s.parts shf.id = some wf ∧
      partGet? s'.parts sht.id = some { wf with sel := false } ∧
      ∀ q, q ≠ sht.id → partGet? s'.parts q = partGet? s.parts q := by
  unfold copySheet at h
  split at h
  · cases h
  · rename_i hcond
    simp only [not_or] at hcond
    obtain ⟨hf0, ht0, hne, hnf, hnt⟩ := hcond
    obtain ⟨shf, hshf, hnamef⟩ := getSheetName_some s f.toNat hnf
    obtain ⟨sht, hsht, hnamet⟩ := getSheetName_some s t.toNat hnt
    have hmf := List.mem_of_getElem? hshf
    have hmt := List.mem_of_getElem? hsht
    obtain ⟨wf, hrf⟩ := reader_listed s hi hp shf hmf
    obtain ⟨wt, hrt⟩ := reader_listed s hi hp sht hmt
    simp only [fact_copyTargetByPartPath, Bool.not_true, Bool.false_eq_true, if_false, hnamef, hnamet, hrf, hrt] at h
    cases h
    have hwf : partGet? s.parts shf.id = some wf := by
      unfold workSheetReader at hrf
      rw [(validName_iff _).mp (hi.valid shf hmf), hp.map_ok shf hmf] at hrf
      dsimp only at hrf
      cases hg : partGet? s.parts shf.id with
      | none => rw [hg] at hrf; cases hrf
      | some w => rw [hg] at hrf; simp only [Except.ok.injEq, Prod.mk.injEq, true_and] at hrf; rw [hrf]
    have hidne : shf.id ≠ sht.id := by
      intro he
      have hidx : f.toNat = t.toNat := by
        have hn : (s.sheets.map (·.id)).Nodup := hi.uniq_id
        have hlf : f.toNat < s.sheets.length := (List.getElem?_eq_some_iff.mp hshf).1
        have hlt : t.toNat < s.sheets.length := (List.getElem?_eq_some_iff.mp hsht).1
        have h1 : (s.sheets.map (·.id))[f.toNat]? = some shf.id := by simp [hshf]
        have h2 : (s.sheets.map (·.id))[t.toNat]? = some sht.id := by simp [hsht]
        rw [he] at h1
        have hlf' : f.toNat < (s.sheets.map (·.id)).length := by simpa using hlf
        exact (List.getElem?_inj hlf' hn).mp (h1.trans h2.symm)
      omega
    refine ⟨shf, sht, wf, hshf, hsht, hidne, hwf, ?_, ?_⟩
    · show partGet? (partSet s.parts sht.id _) sht.id = _
      rw [partGet?_partSet]; simp
    · intro q hq
      show partGet? (partSet s.parts sht.id _) q = _
      rw [partGet?_partSet, if_neg hq]

/-- SetCellInt on a consistent state writes exactly one decoded worksheet: the one of the named sheet -/
theorem setCell_parts (s s' : St) (hp : PB s) (n : Name) (v : Nat) (h : setCell s n v = .ok s') :
    ∃ sh w, sh ∈ s.sheets ∧ eqFold sh.name n = true ∧ partGet? s.parts sh.id = some w ∧
      partGet? s'.parts sh.id = some { w with content := v } ∧
      ∀ q, q ≠ sh.id → partGet? s'.parts q = partGet? s.parts q := by
  unfold setCell at h
  split at h
  · cases h
  · rename_i p w hr
    cases h
    have hv : checkSheetName n = .ok () := by
      unfold workSheetReader at hr
      split at hr
      · cases hr
      · assumption
    cases hidx : idxOf? (fun sh : Sheet => eqFold sh.name n) s.sheets with
    | none => rw [(reader_char s hp n hv).2 hidx] at hr; cases hr
    | some i =>
      obtain ⟨sh, w', hget, hpe, hw', hr'⟩ := (reader_char s hp n hv).1 i hidx
      rw [hr'] at hr
      simp only [Except.ok.injEq, Prod.mk.injEq] at hr
      obtain ⟨rfl, rfl⟩ := hr
      refine ⟨sh, w', List.mem_of_getElem? hget, hpe, hw', ?_, ?_⟩
      · show partGet? (partSet s.parts sh.id _) sh.id = _
        rw [partGet?_partSet]; simp
      · intro q hq
        show partGet? (partSet s.parts sh.id _) q = _
        rw [partGet?_partSet, if_neg hq]

end XlModel.Sheets
