/-
C16: the abstraction `view : St → Spec.Book` and what the worksheet loops do to it.
-/
import XlModel.Lemmas.Sheets5

namespace XlModel.Sheets
open XlModel

/-- the list entry of a sheet: name, visibility, and content / selection of its decoded worksheet -/
def entryP (ps : List (Nat × Part)) (sh : Sheet) : Spec.Entry :=
  match partGet? ps sh.id with
  | some w => ⟨sh.name, isVisible sh.state, w.content, w.sel⟩
  | none => ⟨sh.name, isVisible sh.state, 0, false⟩

/-- the ordered list (name, visible, content, selected) + active index a workbook state denotes -/
def view (s : St) : Spec.Book := ⟨s.sheets.map (entryP s.parts), s.activeTab⟩

@[simp] theorem entryP_name (ps : List (Nat × Part)) (sh : Sheet) : (entryP ps sh).name = sh.name := by
  unfold entryP; split <;> rfl

@[simp] theorem entryP_visible (ps : List (Nat × Part)) (sh : Sheet) : (entryP ps sh).visible = isVisible sh.state := by
  unfold entryP; split <;> rfl

theorem entryP_congr (ps ps' : List (Nat × Part)) (sh : Sheet) (h : partGet? ps' sh.id = partGet? ps sh.id) :
    entryP ps' sh = entryP ps sh := by
  unfold entryP; rw [h]

theorem entryP_some (ps : List (Nat × Part)) (sh : Sheet) (w : Part) (h : partGet? ps sh.id = some w) :
    entryP ps sh = ⟨sh.name, isVisible sh.state, w.content, w.sel⟩ := by
  unfold entryP; rw [h]

theorem idxOf?_map {α β} (p : β → Bool) (f : α → β) : ∀ l : List α, idxOf? p (l.map f) = idxOf? (fun x => p (f x)) l
  | [] => rfl
  | a :: t => by simp only [List.map_cons, idxOf?, idxOf?_map p f t]

theorem find_view (s : St) (n : Name) : Spec.find (view s) n = idxOf? (fun sh => eqFold sh.name n) s.sheets := by
  unfold Spec.find view
  rw [idxOf?_map]
  simp only [entryP_name]

theorem view_length (s : St) : (view s).sheets.length = s.sheets.length := by simp [view]

theorem view_getElem? (s : St) (i : Nat) : (view s).sheets[i]? = (s.sheets[i]?).map (entryP s.parts) := by
  simp [view]

theorem reader_listed2 (s : St) (hi : Inv s) (hp : PB s) (x : Sheet) (hx : x ∈ s.sheets) :
    ∃ w, partGet? s.parts x.id = some w ∧ workSheetReader s x.name = .ok (x.id, w) := by
  have hv := (validName_iff _).mp (hi.valid x hx)
  have hm := hp.map_ok x hx
  have hpt := hp.part_ok x hx
  cases hw : partGet? s.parts x.id with
  | none => rw [hw] at hpt; cases hpt
  | some w =>
    refine ⟨w, rfl, ?_⟩
    unfold workSheetReader
    rw [hv]; simp only [hm, hw]

theorem inv_parts (s : St) (ps : List (Nat × Part)) (hi : Inv s) : Inv { s with parts := ps } := by
  unfold Inv; exact hi

/-! ### SetActiveSheet's loop -/

def selParts (index : Nat) : Nat → List Sheet → List (Nat × Part) → List (Nat × Part)
  | _, [], ps => ps
  | k, x :: xs, ps =>
    match partGet? ps x.id with
    | some w => selParts index (k + 1) xs (partSet ps x.id { w with sel := index == k })
    | none => ps

theorem setSelLoop_eq (index : Nat) : ∀ (l : List Sheet) (k : Nat) (s : St), Inv s → PB s →
    (∀ x ∈ l, x ∈ s.sheets) →
    setSelLoop index k (l.map (·.name)) s = { s with parts := selParts index k l s.parts }
  | [], _, s, _, _, _ => rfl
  | x :: xs, k, s, hi, hp, hl => by
    obtain ⟨w, hw, hr⟩ := reader_listed2 s hi hp x (hl x List.mem_cons_self)
    simp only [List.map_cons]
    unfold setSelLoop selParts
    rw [hr, hw]
    dsimp only
    have ih := setSelLoop_eq index xs (k + 1) { s with parts := partSet s.parts x.id { w with sel := index == k } }
      (inv_parts s _ hi) (pb_partsOnly (partsOnly_set s _ _) hp) (fun y hy => hl y (List.mem_cons_of_mem _ hy))
    rw [ih]

theorem selParts_other (index : Nat) : ∀ (l : List Sheet) (k : Nat) (ps : List (Nat × Part)) (q : Nat),
    (∀ x ∈ l, x.id ≠ q) → partGet? (selParts index k l ps) q = partGet? ps q
  | [], _, _, _, _ => rfl
  | x :: xs, k, ps, q, h => by
    unfold selParts
    split
    · rw [selParts_other index xs (k + 1) _ q (fun y hy => h y (List.mem_cons_of_mem _ hy)), partGet?_partSet,
        if_neg (fun e => h x List.mem_cons_self e.symm)]
    · rfl

theorem selParts_view (index : Nat) : ∀ (l : List Sheet) (k : Nat) (ps : List (Nat × Part)),
    (l.map (·.id)).Nodup → (∀ x ∈ l, (partGet? ps x.id).isSome = true) →
    l.map (entryP (selParts index k l ps)) = Spec.selFrom index k (l.map (entryP ps))
  | [], _, _, _, _ => rfl
  | x :: xs, k, ps, hn, hs => by
    simp only [List.map_cons, List.nodup_cons] at hn
    have hxs : ∀ y ∈ xs, y.id ≠ x.id := fun y hy e => hn.1 (List.mem_map.mpr ⟨y, hy, e⟩)
    cases hw : partGet? ps x.id with
    | none => have := hs x List.mem_cons_self; rw [hw] at this; cases this
    | some w =>
      have hps1 : ∀ y ∈ xs, partGet? (partSet ps x.id { w with sel := index == k }) y.id = partGet? ps y.id := by
        intro y hy; rw [partGet?_partSet, if_neg (hxs y hy)]
      simp only [List.map_cons, Spec.selFrom]
      unfold selParts
      rw [hw]
      dsimp only
      congr 1
      · rw [entryP_congr (partSet ps x.id { w with sel := index == k }) _ x
          (selParts_other index xs (k + 1) _ x.id hxs)]
        rw [entryP_some _ x { w with sel := index == k } (by rw [partGet?_partSet]; simp), entryP_some ps x w hw]
      · rw [selParts_view index xs (k + 1) _ hn.2 (fun y hy => by rw [hps1 y hy]; exact hs y (List.mem_cons_of_mem _ hy))]
        congr 1
        apply List.map_congr_left
        intro y hy
        exact entryP_congr _ _ y (hps1 y hy)

theorem pb_activeTab (s : St) (k : Nat) (hp : PB s) : PB { s with activeTab := k } :=
  { rel_ok := hp.rel_ok, map_ok := hp.map_ok, part_ok := hp.part_ok, id_pos := hp.id_pos,
    rid_nodup := hp.rid_nodup, map_keys := hp.map_keys }

/-- `SetActiveSheet` on the list: only position `k` is selected; the active index moves when `k` is inside -/
theorem view_setActive (s : St) (hi : Inv s) (hp : PB s) (k : Nat) :
    view (setActiveSheet s k) =
      ⟨Spec.selectOnly (view s).sheets k, if k < s.sheets.length then k else s.activeTab⟩ := by
  unfold setActiveSheet
  dsimp only
  have key : ∀ s1 : St, Inv s1 → PB s1 → s1.sheets = s.sheets → s1.parts = s.parts →
      view (setSelLoop k 0 (s1.sheets.map (·.name)) s1) = ⟨Spec.selectOnly (view s).sheets k, s1.activeTab⟩ := by
    intro s1 hi1 hp1 hsh hpa
    rw [setSelLoop_eq k s1.sheets 0 s1 hi1 hp1 (fun _ h => h)]
    unfold view Spec.selectOnly
    dsimp only
    rw [selParts_view k s1.sheets 0 s1.parts hi1.uniq_id (fun x hx => hp1.part_ok x hx), hsh, hpa]
  split
  · rename_i hlt
    exact key { s with activeTab := k } (by
      unfold Inv at hi ⊢
      exact { hi with active_lt := hlt }) (pb_activeTab s k hp) rfl rfl
  · exact key s hi hp rfl rfl


/-! ### UngroupSheets' loop -/

def unselParts (a : Nat) : Nat → List Sheet → List (Nat × Part) → List (Nat × Part)
  | _, [], ps => ps
  | k, x :: xs, ps =>
    if a = k then unselParts a (k + 1) xs ps else
    match partGet? ps x.id with
    | some w => unselParts a (k + 1) xs (partSet ps x.id { w with sel := false })
    | none => ps

theorem ungroupLoop_eq (a : Nat) : ∀ (l : List Sheet) (k : Nat) (s : St), Inv s → PB s →
    (∀ x ∈ l, x ∈ s.sheets) →
    ungroupLoop a k (l.map (·.name)) s = .ok { s with parts := unselParts a k l s.parts }
  | [], _, s, _, _, _ => rfl
  | x :: xs, k, s, hi, hp, hl => by
    obtain ⟨w, hw, hr⟩ := reader_listed2 s hi hp x (hl x List.mem_cons_self)
    simp only [List.map_cons]
    unfold ungroupLoop unselParts
    split
    · exact ungroupLoop_eq a xs (k + 1) s hi hp (fun y hy => hl y (List.mem_cons_of_mem _ hy))
    · rw [hr, hw]
      dsimp only
      have ih := ungroupLoop_eq a xs (k + 1) { s with parts := partSet s.parts x.id { w with sel := false } }
        (inv_parts s _ hi) (pb_partsOnly (partsOnly_set s _ _) hp) (fun y hy => hl y (List.mem_cons_of_mem _ hy))
      rw [ih]

theorem unselParts_other (a : Nat) : ∀ (l : List Sheet) (k : Nat) (ps : List (Nat × Part)) (q : Nat),
    (∀ x ∈ l, x.id ≠ q) → partGet? (unselParts a k l ps) q = partGet? ps q
  | [], _, _, _, _ => rfl
  | x :: xs, k, ps, q, h => by
    unfold unselParts
    split
    · exact unselParts_other a xs (k + 1) ps q (fun y hy => h y (List.mem_cons_of_mem _ hy))
    · split
      · rw [unselParts_other a xs (k + 1) _ q (fun y hy => h y (List.mem_cons_of_mem _ hy)), partGet?_partSet,
          if_neg (fun e => h x List.mem_cons_self e.symm)]
      · rfl

theorem unselParts_view (a : Nat) : ∀ (l : List Sheet) (k : Nat) (ps : List (Nat × Part)),
    (l.map (·.id)).Nodup → (∀ x ∈ l, (partGet? ps x.id).isSome = true) →
    l.map (entryP (unselParts a k l ps)) = Spec.unselFrom a k (l.map (entryP ps))
  | [], _, _, _, _ => rfl
  | x :: xs, k, ps, hn, hs => by
    simp only [List.map_cons, List.nodup_cons] at hn
    have hxs : ∀ y ∈ xs, y.id ≠ x.id := fun y hy e => hn.1 (List.mem_map.mpr ⟨y, hy, e⟩)
    simp only [List.map_cons, Spec.unselFrom]
    unfold unselParts
    by_cases hak : a = k
    · simp only [hak, if_true]
      congr 1
      · exact entryP_congr ps _ x (unselParts_other k xs (k + 1) ps x.id hxs)
      · exact unselParts_view k xs (k + 1) ps hn.2 (fun y hy => hs y (List.mem_cons_of_mem _ hy))
    · simp only [hak, if_false]
      cases hw : partGet? ps x.id with
      | none => have := hs x List.mem_cons_self; rw [hw] at this; cases this
      | some w =>
        have hps1 : ∀ y ∈ xs, partGet? (partSet ps x.id { w with sel := false }) y.id = partGet? ps y.id := by
          intro y hy; rw [partGet?_partSet, if_neg (hxs y hy)]
        dsimp only
        congr 1
        · rw [entryP_congr (partSet ps x.id { w with sel := false }) _ x
            (unselParts_other a xs (k + 1) _ x.id hxs)]
          rw [entryP_some _ x { w with sel := false } (by rw [partGet?_partSet]; simp), entryP_some ps x w hw]
        · rw [unselParts_view a xs (k + 1) _ hn.2 (fun y hy => by rw [hps1 y hy]; exact hs y (List.mem_cons_of_mem _ hy))]
          congr 1
          apply List.map_congr_left
          intro y hy
          exact entryP_congr _ _ y (hps1 y hy)

/-! ### the active index -/

theorem idxOf?_nodup {α β} [DecidableEq β] (f : α → β) : ∀ (l : List α) (j : Nat) (x : α), (l.map f).Nodup →
    l[j]? = some x → idxOf? (fun y => f y == f x) l = some j
  | [], j, x, _, h => by simp at h
  | a :: t, 0, x, _, h => by
    simp at h; subst h; simp [idxOf?]
  | a :: t, j + 1, x, hn, h => by
    simp only [List.map_cons, List.nodup_cons] at hn
    simp at h
    have hx : x ∈ t := List.mem_of_getElem? h
    have hne : f a ≠ f x := fun e => hn.1 (List.mem_map.mpr ⟨x, hx, e.symm⟩)
    simp only [idxOf?, beq_iff_eq, hne, if_false]
    rw [idxOf?_nodup f t j x hn.2 h]; rfl

theorem getActiveSheetIndex_eq (s : St) (hi : Inv s) (hp : PB s) : getActiveSheetIndex s = s.activeTab := by
  have hlt : s.activeTab < s.sheets.length := hi.active_lt
  obtain ⟨x, hx⟩ : ∃ x, s.sheets[s.activeTab]? = some x := ⟨s.sheets[s.activeTab], List.getElem?_eq_getElem hlt⟩
  have hpos := hp.id_pos x (List.mem_of_getElem? hx)
  have hid : getActiveSheetID s = x.id := by
    unfold getActiveSheetID
    rw [hx]; simp [hpos]
  unfold getActiveSheetIndex
  rw [hid, idxOf?_nodup (·.id) s.sheets s.activeTab x hi.uniq_id hx]

theorem view_ungroup (s s' : St) (hi : Inv s) (hp : PB s) (h : ungroupSheets s = .ok s') :
    view s' = Spec.ungroup (view s) := by
  unfold ungroupSheets at h
  rw [ungroupLoop_eq _ s.sheets 0 s hi hp (fun _ h => h)] at h
  cases h
  unfold view Spec.ungroup
  dsimp only
  rw [unselParts_view _ s.sheets 0 s.parts hi.uniq_id (fun x hx => hp.part_ok x hx), getActiveSheetIndex_eq s hi hp]


theorem entryP_partSet_self (ps : List (Nat × Part)) (x : Sheet) (w' : Part) :
    entryP (partSet ps x.id w') x = { entryP ps x with content := w'.content, selected := w'.sel } := by
  rw [entryP_some _ x w' (by rw [partGet?_partSet]; simp)]
  unfold entryP; split <;> rfl

theorem map_entryP_partSet (ps : List (Nat × Part)) (w' : Part) : ∀ (l : List Sheet) (j : Nat) (x : Sheet),
    (l.map (·.id)).Nodup → l[j]? = some x →
    l.map (entryP (partSet ps x.id w')) =
      (l.map (entryP ps)).modify j (fun e => { e with content := w'.content, selected := w'.sel })
  | [], j, x, _, h => by simp at h
  | a :: t, 0, x, hn, h => by
    simp at h; subst h
    simp only [List.map_cons, List.nodup_cons] at hn
    simp only [List.map_cons, List.modify_zero_cons]
    congr 1
    · exact entryP_partSet_self ps a w'
    · apply List.map_congr_left
      intro y hy
      apply entryP_congr
      rw [partGet?_partSet, if_neg (fun e => hn.1 (List.mem_map.mpr ⟨y, hy, e⟩))]
  | a :: t, j + 1, x, hn, h => by
    simp only [List.map_cons, List.nodup_cons] at hn
    simp at h
    have hx : x ∈ t := List.mem_of_getElem? h
    simp only [List.map_cons, List.modify_succ_cons]
    congr 1
    · apply entryP_congr
      rw [partGet?_partSet, if_neg (fun e => hn.1 (List.mem_map.mpr ⟨x, hx, e.symm⟩))]
    · exact map_entryP_partSet ps w' t j x hn.2 h

theorem view_partSet (s : St) (hi : Inv s) (j : Nat) (x : Sheet) (hx : s.sheets[j]? = some x) (w' : Part) :
    view { s with parts := partSet s.parts x.id w' } =
      ⟨(view s).sheets.modify j (fun e => { e with content := w'.content, selected := w'.sel }), s.activeTab⟩ := by
  unfold view
  dsimp only
  rw [map_entryP_partSet s.parts w' s.sheets j x hi.uniq_id hx]

/-! ### GroupSheets -/

theorem partGet?_map_if (c : Nat → Bool) (g : Part → Part) : ∀ (ps : List (Nat × Part)) (q : Nat),
    partGet? (ps.map fun e => if c e.1 then (e.1, g e.2) else e) q =
      (partGet? ps q).map (fun w => if c q then g w else w)
  | [], _ => rfl
  | a :: t, q => by
    have ih := partGet?_map_if c g t q
    simp only [partGet?, List.map_cons, List.find?_cons] at ih ⊢
    by_cases haq : a.1 = q
    · subst haq
      cases hc : c a.1 <;> simp [hc]
    · have : (a.1 == q) = false := by simpa using haq
      cases hc : c a.1 with
      | true => simp only [if_true, this]; exact ih
      | false => simp only [Bool.false_eq_true, if_false, this]; exact ih

theorem eqFold_comm (a b : Name) : eqFold a b = eqFold b a := by
  unfold eqFold
  by_cases h : fold a = fold b
  · rw [h]
  · have h' : fold b ≠ fold a := fun e => h e.symm
    rw [beq_eq_false_iff_ne.mpr h, beq_eq_false_iff_ne.mpr h']

/-- the part numbers `GroupSheets` collects are the ids of the named sheets -/
theorem groupRead_char (s : St) (hi : Inv s) (hp : PB s) : ∀ (ns : List Name),
    (∀ ps, groupRead s ns = .ok ps →
      (ns.all fun n => validName n && (idxOf? (fun sh : Sheet => eqFold sh.name n) s.sheets).isSome) = true ∧
      ∀ x ∈ s.sheets, ps.contains x.id = ns.any fun n => eqFold n x.name) ∧
    (∀ e, groupRead s ns = .error e →
      (ns.all fun n => validName n && (idxOf? (fun sh : Sheet => eqFold sh.name n) s.sheets).isSome) = false)
  | [] => by
    constructor
    · intro ps h; simp [groupRead] at h; subst h; simp
    · intro e h; simp [groupRead] at h
  | n :: ns => by
    have ih := groupRead_char s hi hp ns
    cases hv : checkSheetName n with
    | error e0 =>
      have hvn : validName n = false := by unfold validName; rw [hv]
      have hr : workSheetReader s n = .error e0 := by unfold workSheetReader; rw [hv]
      constructor
      · intro ps h; unfold groupRead at h; rw [hr] at h; cases h
      · intro e h; simp [hvn]
    | ok u =>
      have hvn : validName n = true := by unfold validName; rw [hv]
      cases hidx : idxOf? (fun sh : Sheet => eqFold sh.name n) s.sheets with
      | none =>
        have hr := (reader_char s hp n hv).2 hidx
        constructor
        · intro ps h; unfold groupRead at h; rw [hr] at h; cases h
        · intro e h; simp [hidx]
      | some i =>
        obtain ⟨sh, w, hget, hpe, _, hr⟩ := (reader_char s hp n hv).1 i hidx
        have hsh := List.mem_of_getElem? hget
        constructor
        · intro ps h
          unfold groupRead at h
          rw [hr] at h
          dsimp only at h
          cases hrest : groupRead s ns with
          | error e => rw [hrest] at h; cases h
          | ok ps0 =>
            rw [hrest] at h
            cases h
            obtain ⟨hall, hcont⟩ := ih.1 ps0 hrest
            refine ⟨by simp only [List.all_cons, hvn, hidx, Option.isSome_some, Bool.and_self, Bool.true_and]; exact hall, ?_⟩
            intro x hx
            simp only [List.contains_cons, List.any_cons, hcont x hx]
            congr 1
            by_cases hid : x.id = sh.id
            · have : x = sh := nodup_map_inj (·.id) s.sheets hi.uniq_id x hx sh hsh hid
              subst this
              rw [eqFold_comm, hpe]; simp
            · have hne : eqFold n x.name = false := by
                cases hq : eqFold n x.name with
                | false => rfl
                | true =>
                  exfalso
                  apply hid
                  have : x = sh := nodup_map_inj (fun y : Sheet => fold y.name) s.sheets hi.uniq_ci x hx sh hsh
                    (by show fold x.name = fold sh.name
                        rw [← (eqFold_iff _ _).mp hq, (eqFold_iff _ _).mp hpe])
                  rw [this]
              rw [hne]; simpa using hid
        · intro e h
          unfold groupRead at h
          rw [hr] at h
          dsimp only at h
          cases hrest : groupRead s ns with
          | error e' =>
            simp only [List.all_cons, ih.2 e' hrest, Bool.and_false]
          | ok ps0 => rw [hrest] at h; cases h

end XlModel.Sheets
