/-
C16: every operation of `Impl` commutes with the abstraction `view` (simulation of `Spec`).
`Sim s op` says: the list after the call is what `Spec.step` computes from the list before, and
(except for SetDefinedName, which the list model does not describe) the call is accepted by both or by neither.
-/
import XlModel.Lemmas.Sheets6

namespace XlModel.Sheets
open XlModel

def Sim (s : St) (op : Op) : Prop :=
  (Spec.step (view s) op).1 = view (step s op).1 ∧ (Spec.step (view s) op).2 = (step s op).2.isNone

theorem modify_congr_at {α} (f g : α → α) : ∀ (l : List α) (i : Nat), (∀ e, l[i]? = some e → f e = g e) →
    l.modify i f = l.modify i g
  | [], _, _ => by simp
  | a :: t, 0, h => by simp only [List.modify_zero_cons, h a (by simp)]
  | a :: t, i + 1, h => by
    simp only [List.modify_succ_cons]
    rw [modify_congr_at f g t i (fun e he => h e (by simpa using he))]

theorem sim_active (s : St) (hi : Inv s) (hp : PB s) (i : Int) : Sim s (.active i) := by
  unfold Sim
  simp only [step, Spec.step, Spec.setActive, Option.isNone_none, and_true]
  rw [view_setActive s hi hp, view_length]
  rfl

theorem sim_ungroup (s : St) (hi : Inv s) (hp : PB s) : Sim s .ungroup := by
  unfold Sim
  obtain ⟨s', hu⟩ := ungroupSheets_ok s hi hp
  simp only [step, Spec.step, hu, Option.isNone_none, and_true]
  exact (view_ungroup s s' hi hp hu).symm

theorem sim_save (s : St) : Sim s .save := ⟨rfl, rfl⟩

theorem sim_observe (s : St) : Sim s .observe := by
  unfold Sim
  simp only [step, Spec.step, Option.isNone_none, and_true]
  unfold observe; split <;> rfl

theorem view_defname (s : St) (k : Nat) (sc dt : Name) : view (step s (.defname k sc dt)).1 = view s := by
  simp only [step]
  split
  · rename_i s' hd
    unfold setDefinedName at hd
    repeat' split at hd
    all_goals first | (cases hd; rfl) | cases hd
  · rfl

theorem view_deldef (s : St) (k : Nat) (sc : Name) : view (step s (.deldef k sc)).1 = view s := by
  simp only [step]
  split
  · rename_i s' hd
    unfold deleteDefinedName at hd
    repeat' split at hd
    all_goals first | (cases hd; rfl) | cases hd
  · rfl

theorem sim_setcell (s : St) (hi : Inv s) (hp : PB s) (n : Name) (v : Nat) : Sim s (.setcell n v) := by
  unfold Sim
  simp only [step, Spec.step, Spec.setCell, setCell]
  cases hv : checkSheetName n with
  | error e0 =>
    have hvn : validName n = false := by unfold validName; rw [hv]
    have hr : workSheetReader s n = .error e0 := by unfold workSheetReader; rw [hv]
    simp [hvn, hr]
  | ok u =>
    have hvn : validName n = true := by unfold validName; rw [hv]
    rw [find_view]
    cases hidx : idxOf? (fun sh : Sheet => eqFold sh.name n) s.sheets with
    | none =>
      have hr := (reader_char s hp n hv).2 hidx
      simp [hvn, hr]
    | some i =>
      obtain ⟨sh, w, hget, _, hw, hr⟩ := (reader_char s hp n hv).1 i hidx
      simp only [hvn, hr, Bool.not_true, Bool.false_eq_true, if_false, Option.isNone_none, and_true]
      rw [view_partSet s hi i sh hget]
      show (⟨_, _⟩ : Spec.Book) = ⟨_, _⟩
      congr 1
      apply modify_congr_at
      intro e he
      rw [view_getElem?, hget] at he
      simp only [Option.map_some, Option.some.injEq] at he
      subst he
      rw [entryP_some _ sh w hw]

theorem getSheetName_nil_iff (s : St) (hi : Inv s) (i : Nat) : getSheetName s i = [] ↔ s.sheets[i]? = none := by
  unfold getSheetName
  cases hg : s.sheets[i]? with
  | none => simp
  | some sh =>
    have hv := hi.valid sh (List.mem_of_getElem? hg)
    simp only [reduceCtorEq, iff_false]
    intro hnil
    rw [validName_iff, hnil] at hv
    simp [checkSheetName] at hv

theorem sim_copy (s : St) (hi : Inv s) (hp : PB s) (f t : Int) : Sim s (.copy f t) := by
  unfold Sim
  by_cases hg : f < 0 ∨ t < 0 ∨ f = t
  · have hI : copySheet s f t = .error .sheetIdx := by
      unfold copySheet
      rw [if_pos]
      rcases hg with h | h | h
      · exact Or.inl h
      · exact Or.inr (Or.inl h)
      · exact Or.inr (Or.inr (Or.inl h))
    simp only [step, Spec.step, Spec.copy, hI, hg, if_true]
    exact ⟨trivial, rfl⟩
  · have hg' := hg
    simp only [not_or] at hg'
    cases hf : s.sheets[f.toNat]? with
    | none =>
      have hI : copySheet s f t = .error .sheetIdx := by
        unfold copySheet
        rw [if_pos]
        exact Or.inr (Or.inr (Or.inr (Or.inl ((getSheetName_nil_iff s hi _).mpr hf))))
      simp only [step, Spec.step, Spec.copy, hI, hg, if_false, view_getElem?, hf, Option.map_none]
      exact ⟨trivial, rfl⟩
    | some shf =>
      cases ht : s.sheets[t.toNat]? with
      | none =>
        have hI : copySheet s f t = .error .sheetIdx := by
          unfold copySheet
          rw [if_pos]
          exact Or.inr (Or.inr (Or.inr (Or.inr ((getSheetName_nil_iff s hi _).mpr ht))))
        simp only [step, Spec.step, Spec.copy, hI, hg, if_false, view_getElem?, hf, ht, Option.map_none, Option.map_some]
        exact ⟨trivial, rfl⟩
      | some sht =>
        obtain ⟨wf, hwf, hrf⟩ := reader_listed2 s hi hp shf (List.mem_of_getElem? hf)
        obtain ⟨wt, _, hrt⟩ := reader_listed2 s hi hp sht (List.mem_of_getElem? ht)
        have hnf : getSheetName s f.toNat = shf.name := by unfold getSheetName; rw [hf]
        have hnt : getSheetName s t.toNat = sht.name := by unfold getSheetName; rw [ht]
        have hI : copySheet s f t = .ok { s with parts := partSet s.parts sht.id { wf with sel := false } } := by
          unfold copySheet
          rw [if_neg]
          · simp only [fact_copyTargetByPartPath, Bool.not_true, Bool.false_eq_true, if_false, hnf, hnt, hrf, hrt]
          · intro h
            rcases h with h | h | h | h | h
            · exact hg'.1 h
            · exact hg'.2.1 h
            · exact hg'.2.2 h
            · rw [getSheetName_nil_iff s hi, hf] at h; cases h
            · rw [getSheetName_nil_iff s hi, ht] at h; cases h
        simp only [step, Spec.step, Spec.copy, hI, hg, if_false, view_getElem?, hf, ht, Option.map_some,
          Option.isNone_none, and_true]
        rw [view_partSet s hi t.toNat sht ht]
        show (⟨_, _⟩ : Spec.Book) = ⟨_, _⟩
        congr 1
        rw [entryP_some _ shf wf hwf]


theorem sim_group (s : St) (hi : Inv s) (hp : PB s) (ns : List Name) : Sim s (.group ns) := by
  unfold Sim
  have hlt : s.activeTab < s.sheets.length := hi.active_lt
  obtain ⟨sh, hsh⟩ : ∃ x, s.sheets[s.activeTab]? = some x := ⟨s.sheets[s.activeTab], List.getElem?_eq_getElem hlt⟩
  have hva : (view s).sheets[(view s).active]? = some (entryP s.parts sh) := by
    rw [view_getElem?]; show (s.sheets[s.activeTab]?).map _ = _; rw [hsh]; rfl
  simp only [step, Spec.step, Spec.group, hva, entryP_name]
  unfold groupSheets
  simp only [getActiveSheetIndex_eq s hi hp, hsh, fact_foldGroupSheets, nameEq_true]
  cases hany : ns.any (fun n => eqFold n sh.name) with
  | false => simp
  | true =>
    simp only [Bool.not_true, Bool.false_eq_true, if_false]
    have hall_eq : (ns.all fun n => validName n && (Spec.find (view s) n).isSome) =
        (ns.all fun n => validName n && (idxOf? (fun sh : Sheet => eqFold sh.name n) s.sheets).isSome) := by
      congr 1; funext n; rw [find_view]
    rw [hall_eq]
    cases hgr : groupRead s ns with
    | error e =>
      rw [(groupRead_char s hi hp ns).2 e hgr]
      simp
    | ok ps =>
      obtain ⟨hall, hcont⟩ := (groupRead_char s hi hp ns).1 ps hgr
      rw [hall]
      simp only [Bool.not_true, Bool.false_eq_true, if_false, Option.isNone_none, and_true]
      unfold view
      dsimp only
      congr 1
      rw [List.map_map]
      apply List.map_congr_left
      intro x hx
      simp only [Function.comp, entryP_name]
      obtain ⟨w, hw, _⟩ := reader_listed2 s hi hp x hx
      have hget : partGet? (s.parts.map fun e => if ps.contains e.1 = true then (e.1, { e.2 with sel := true }) else e) x.id =
          some (if ps.contains x.id = true then { w with sel := true } else w) := by
        rw [partGet?_map_if (fun q => ps.contains q) (fun w => { w with sel := true }), hw]; rfl
      rw [entryP_some _ x _ hget, entryP_some _ x w hw, ← hcont x hx]
      split <;> rfl


theorem visLoop_map (s : St) (hi : Inv s) (hp : PB s) (t : Name) (st : Vis) (c : Nat) :
    ∀ l : List Sheet, (∀ x ∈ l, x ∈ s.sheets) →
    (visLoop s t st c l).1 = l.map (fun v =>
      if eqFold v.name t && decide (c > 1) && !(entryP s.parts v).selected then { v with state := st } else v)
  | [], _ => rfl
  | x :: r, hl => by
    obtain ⟨w, hw, hr⟩ := reader_listed2 s hi hp x (hl x List.mem_cons_self)
    unfold visLoop
    rw [hr]
    dsimp only
    rw [visLoop_map s hi hp t st c r (fun y hy => hl y (List.mem_cons_of_mem _ hy))]
    simp only [List.map_cons, fact_foldSetSheetVisible, nameEq_true, entryP_some _ x w hw]
    rfl

theorem decide_filter_any {α} (p : α → Bool) : ∀ l : List α, decide (1 + (l.filter p).length > 1) = l.any p
  | [] => by simp
  | a :: t => by
    have ih := decide_filter_any p t
    cases hpa : p a with
    | true => simp [List.filter_cons, hpa]
    | false => simp only [List.filter_cons, hpa, List.any_cons, Bool.false_or]; exact ih

theorem otherVisible_view (s : St) (n : Name) :
    Spec.otherVisible (view s) n = s.sheets.any fun v => !eqFold v.name n && isVisible v.state := by
  unfold Spec.otherVisible view
  dsimp only
  rw [List.any_map]
  congr 1
  funext v
  simp only [Function.comp, entryP_name, entryP_visible]

theorem entryP_state (ps : List (Nat × Part)) (v : Sheet) (st : Vis) :
    entryP ps { v with state := st } = ⟨v.name, isVisible st, (entryP ps v).content, (entryP ps v).selected⟩ := by
  unfold entryP
  dsimp only
  split <;> rfl

theorem sim_visible (s : St) (hi : Inv s) (hp : PB s) (n : Name) (v vh : Bool) : Sim s (.visible n v vh) := by
  unfold Sim
  simp only [step, Spec.step, Spec.setVisible, setSheetVisible]
  cases hv : checkSheetName n with
  | error e0 =>
    have hvn : validName n = false := by unfold validName; rw [hv]
    simp [hvn]
  | ok u =>
    have hvn : validName n = true := by unfold validName; rw [hv]
    simp only [hvn, Bool.not_true, Bool.false_eq_true, if_false]
    cases v with
    | true =>
      simp only [if_true, fact_foldSetSheetVisible, nameEq_true, Option.isNone_none, and_true]
      unfold view
      dsimp only
      congr 1
      rw [List.map_map, List.map_map]
      apply List.map_congr_left
      intro x _
      simp only [Function.comp, entryP_name]
      by_cases hx : eqFold x.name n = true
      · simp only [hx, if_true]; rw [entryP_state s.parts x Vis.visible]; rfl
      · simp only [hx, Bool.false_eq_true, if_false]
    | false =>
      simp only [Bool.false_eq_true, if_false]
      rw [visLoop_ok s hi hp _ _ _ s.sheets (fun _ h => h), visLoop_map s hi hp _ _ _ s.sheets (fun _ h => h)]
      simp only [Option.isNone_none, and_true]
      unfold view
      dsimp only
      congr 1
      rw [List.map_map, List.map_map]
      apply List.map_congr_left
      intro x _
      simp only [Function.comp, entryP_name]
      have hcnt : decide (visCount s n (if vh = true then Vis.veryHidden else Vis.hidden) > 1) =
          Spec.otherVisible ⟨s.sheets.map (entryP s.parts), s.activeTab⟩ n := by
        have := otherVisible_view s n
        unfold view at this
        rw [this]
        unfold visCount
        simp only [fact_hideCountsVisibleOthers, if_true, fact_foldSetSheetVisible, nameEq_true]
        exact decide_filter_any _ _
      rw [hcnt]
      split
      · rw [entryP_state s.parts x (if vh = true then Vis.veryHidden else Vis.hidden)]
        cases vh <;> rfl
      · rfl


theorem entryP_rename (ps : List (Nat × Part)) (v : Sheet) (b : Name) :
    entryP ps { v with name := b } = ⟨b, isVisible v.state, (entryP ps v).content, (entryP ps v).selected⟩ := by
  unfold entryP
  dsimp only
  split <;> rfl

theorem entryP_eta (ps : List (Nat × Part)) (v : Sheet) :
    entryP ps v = ⟨v.name, isVisible v.state, (entryP ps v).content, (entryP ps v).selected⟩ := by
  unfold entryP
  split <;> rfl

theorem sheetIndexD_valid (s : St) (n : Name) (hv : checkSheetName n = .ok ()) :
    sheetIndexD s n = idxOf? (fun sh => eqFold sh.name n) s.sheets := by
  unfold sheetIndexD getSheetIndex
  rw [hv]
  simp only [fact_foldGetSheetIndex, nameEq_true]

theorem sim_rename (s : St) (hi : Inv s) (hp : PB s) (a b : Name) : Sim s (.rename a b) := by
  unfold Sim
  simp only [step, Spec.step, Spec.rename, setSheetName]
  cases hva : checkSheetName a with
  | error e0 =>
    have hvn : validName a = false := by unfold validName; rw [hva]
    simp [hvn]
  | ok u =>
    have hvna : validName a = true := by unfold validName; rw [hva]
    cases hvb : checkSheetName b with
    | error e0 =>
      have hvn : validName b = false := by unfold validName; rw [hvb]
      simp [hvn, hvna]
    | ok u' =>
      have hvnb : validName b = true := by unfold validName; rw [hvb]
      simp only [hvna, hvnb, Bool.not_true, Bool.or_self, Bool.false_eq_true, if_false]
      by_cases hab : b = a
      · simp [hab]
      · simp only [hab, if_false, fact_renameClashCheck, Bool.true_and, fact_renameSourceExact, Bool.not_true,
          Bool.false_eq_true]
        rw [sheetIndexD_valid s b hvb, find_view]
        cases hclash : (!eqFold b a && (idxOf? (fun sh : Sheet => eqFold sh.name b) s.sheets).isSome) with
        | true => simp
        | false =>
          simp only [Bool.false_eq_true, if_false]
          cases hany : s.sheets.any (fun x => x.name == a) with
          | false =>
            simp only [Bool.false_eq_true, if_false, Option.isNone_none, and_true]
            unfold view
            dsimp only
            congr 1
            rw [List.map_map]
            apply List.map_congr_left
            intro x hx
            have : (x.name == a) = false := by
              rw [List.any_eq_false] at hany
              simpa using hany x hx
            simp only [Function.comp, entryP_name, this, Bool.false_eq_true, if_false]
          | true =>
            simp only [if_true]
            obtain ⟨sh0, hsh0, hn0⟩ := List.any_eq_true.mp hany
            have hn0 : sh0.name = a := eq_of_beq hn0
            have hexact := map_entry_exact s hi.uniq_ci hp sh0 hsh0
            rw [hn0] at hexact
            have hget : mapGetExact s.sheetMap a = some sh0.id := by
              have := find?_mono (fun e : Name × Nat => eqFold e.1 a) (fun e => e.1 == a) s.sheetMap (a, sh0.id) hexact
                (by simp) (by intro y hy; rw [eq_of_beq hy]; simp [eqFold])
              unfold mapGetExact
              rw [this]; rfl
            simp only [hget, Option.isNone_none, and_true]
            unfold view
            dsimp only
            congr 1
            rw [List.map_map, List.map_map]
            apply List.map_congr_left
            intro x _
            simp only [Function.comp, entryP_name]
            by_cases hx : (x.name == a) = true
            · simp only [hx, if_true]
              rw [entryP_rename s.parts x b, entryP_visible]
            · simp only [hx, Bool.false_eq_true, if_false]


theorem sim_new (s : St) (hi : Inv s) (hp : PB s) (n : Name) : Sim s (.new n) := by
  unfold Sim
  simp only [step, Spec.step, Spec.new]
  cases hv : checkSheetName n with
  | error e0 =>
    have hvn : validName n = false := by unfold validName; rw [hv]
    have hg : newSheet s n = .error e0 := by
      unfold newSheet getSheetIndex; rw [hv]
    simp [hvn, hg]
  | ok u =>
    have hvn : validName n = true := by unfold validName; rw [hv]
    have hgi : getSheetIndex s n = .ok (idxOf? (fun sh => eqFold sh.name n) s.sheets) := by
      unfold getSheetIndex; rw [hv]; simp only [fact_foldGetSheetIndex, nameEq_true]
    simp only [hvn, Bool.not_true, Bool.false_eq_true, if_false, find_view]
    cases hidx : idxOf? (fun sh : Sheet => eqFold sh.name n) s.sheets with
    | some i =>
      have hg : newSheet s n = .ok (s, some i) := by
        unfold newSheet; rw [hgi, hidx]
      simp [hg]
    | none =>
      have hd : deleteSheet s n = .ok s := deleteSheet_absent s n hvn (by rw [sheetIndexD_valid s n hv, hidx])
      cases hns : newSheet s n with
      | error e =>
        exfalso
        unfold newSheet at hns
        rw [hgi, hidx] at hns
        dsimp only at hns
        rw [hd] at hns
        dsimp only at hns
        unfold getSheetIndex at hns
        rw [hv] at hns
        cases hns
      | ok r =>
        obtain ⟨s', ri⟩ := r
        rcases newSheet_full s s' n ri hns with rfl | ⟨_, hf, rfl⟩
        · exfalso
          unfold newSheet at hns
          rw [hgi, hidx] at hns
          dsimp only at hns
          rw [hd] at hns
          dsimp only at hns
          unfold getSheetIndex at hns
          rw [hv] at hns
          dsimp only at hns
          have := congrArg (fun r => match r with | Except.ok (st, _) => st.count | _ => 0) hns
          simp at this
        · simp only [Option.isNone_none, and_true]
          unfold view
          dsimp only
          congr 1
          rw [List.map_append]
          congr 1
          · apply List.map_congr_left
            intro x hx
            apply (entryP_congr _ _ x _).symm
            rw [partGet?_partSet, if_neg]
            have h1 : x.id ≤ maxOf (s.sheets.map (·.id)) := le_maxOf _ x.id (List.mem_map.mpr ⟨x, hx, rfl⟩)
            have h2 := newSheetID_gt s
            omega
          · simp only [List.map_cons, List.map_nil]
            rw [entryP_some _ _ ⟨false, 0⟩ (by rw [partGet?_partSet]; simp)]
            rfl


theorem setActiveSheet_idem (s : St) (k : Nat) (hk : k < s.sheets.length) :
    setActiveSheet s k = setActiveSheet { s with activeTab := k } k := by
  unfold setActiveSheet
  simp only [hk, if_true]

/-- the active sheet's name -/
theorem activeName_eq (s : St) (hi : Inv s) (hp : PB s) :
    ∃ shA, s.sheets[s.activeTab]? = some shA ∧ getSheetName s (getActiveSheetIndex s) = shA.name ∧
      checkSheetName shA.name = .ok () := by
  have hlt : s.activeTab < s.sheets.length := hi.active_lt
  refine ⟨s.sheets[s.activeTab], List.getElem?_eq_getElem hlt, ?_, ?_⟩
  · rw [getActiveSheetIndex_eq s hi hp]; unfold getSheetName; rw [List.getElem?_eq_getElem hlt]
  · exact (validName_iff _).mp (hi.valid _ (List.getElem_mem hlt))

theorem follow_view (s : St) (shA : Sheet) (hA : s.sheets[s.activeTab]? = some shA)
    (l : List Sheet) (ps : List (Nat × Part)) :
    Spec.follow (view s) (l.map (entryP ps)) = clampIdx (idxOf? (fun sh : Sheet => eqFold sh.name shA.name) l) := by
  unfold Spec.follow
  have : (view s).sheets[(view s).active]? = some (entryP s.parts shA) := by
    rw [view_getElem?]; show (s.sheets[s.activeTab]?).map _ = _; rw [hA]; rfl
  rw [this]
  dsimp only
  rw [idxOf?_map]
  simp only [entryP_name]
  cases idxOf? (fun sh : Sheet => eqFold sh.name shA.name) l <;> rfl

theorem sim_delete (s : St) (hi : Inv s) (hp : PB s) (n : Name) : Sim s (.delete n) := by
  unfold Sim
  simp only [step, Spec.step, Spec.delete]
  cases hv : checkSheetName n with
  | error e0 =>
    have hvn : validName n = false := by unfold validName; rw [hv]
    have hg : deleteSheet s n = .error e0 := by unfold deleteSheet; rw [hv]
    simp [hvn, hg]
  | ok u =>
    have hvn : validName n = true := by unfold validName; rw [hv]
    simp only [hvn, Bool.not_true, Bool.false_eq_true, if_false, find_view]
    cases hidx : idxOf? (fun sh : Sheet => eqFold sh.name n) s.sheets with
    | none =>
      have hd : deleteSheet s n = .ok s := deleteSheet_absent s n hvn (by rw [sheetIndexD_valid s n hv, hidx])
      simp [hd]
    | some d =>
      have hsd : sheetIndexD s n = some d := by rw [sheetIndexD_valid s n hv, hidx]
      have hcount : s.count = s.sheets.length := hi.count_eq
      rw [view_length, otherVisible_view]
      by_cases hone : s.sheets.length = 1
      · have hd : deleteSheet s n = .ok s := by
          unfold deleteSheet; rw [hv]; simp only [hsd]; rw [if_pos (by rw [hcount]; exact hone)]
        simp [hd, hone]
      · cases hov : s.sheets.any (fun v => !eqFold v.name n && isVisible v.state) with
        | false =>
          have hd : deleteSheet s n = .ok s := by
            unfold deleteSheet; rw [hv]; simp only [hsd]
            rw [if_neg (by rw [hcount]; exact hone)]
            simp only [fact_deleteKeepsVisible, fact_foldDeleteSheet, nameEq_true, hov, Bool.not_false,
              Bool.and_self, if_true]
          simp [hd, hone]
        | true =>
          obtain ⟨v, hv', hpv⟩ := idxOf?_getElem _ _ _ hidx
          obtain ⟨shA, hA, hAn, hAv⟩ := activeName_eq s hi hp
          -- the state after the cascade
          let s2 := deleteCascade { s with defs := deleteAndAdjustDefinedNames s.defs d } d v
          have hp2 : PB s2 := pb_deleteCascade { s with defs := deleteAndAdjustDefinedNames s.defs d } hi.uniq_ci hi.uniq_id
            (inv_defs_irrelevant_pb s _ hp) d v hv'
          have hs2sheets : s2.sheets = s.sheets.eraseIdx d := rfl
          have hgi2 : getSheetIndex s2 shA.name = .ok (idxOf? (fun sh => eqFold sh.name shA.name) s2.sheets) := by
            unfold getSheetIndex; rw [hAv]; simp only [fact_foldGetSheetIndex, nameEq_true]
          have hd : deleteSheet s n = .ok (setActiveSheet s2
              (clampIdx (idxOf? (fun sh => eqFold sh.name shA.name) s2.sheets))) := by
            unfold deleteSheet; rw [hv]; simp only [hsd]
            rw [if_neg (by rw [hcount]; exact hone)]
            simp only [fact_deleteKeepsVisible, fact_foldDeleteSheet, nameEq_true, hov, Bool.not_true,
              Bool.and_false, Bool.false_eq_true, if_false, hidx, hv', hAn]
            show (match getSheetIndex s2 shA.name with
              | .error e => Except.error e
              | .ok i => Except.ok (setActiveSheet s2 (clampIdx i))) = _
            rw [hgi2]
          have hlen2 : s2.sheets.length = s.sheets.length - 1 := by
            rw [hs2sheets, List.length_eraseIdx]
            have := idxOf?_lt _ _ _ hidx
            simp [this]
          have hpos : 0 < s.sheets.length := by
            have h : s.activeTab < s.sheets.length := hi.active_lt
            omega
          generalize hk : clampIdx (idxOf? (fun sh : Sheet => eqFold sh.name shA.name) s2.sheets) = k at hd
          have hklt : k < s2.sheets.length := by
            rw [← hk]
            cases hi2 : idxOf? (fun sh : Sheet => eqFold sh.name shA.name) s2.sheets with
            | none => show 0 < _; omega
            | some j => exact idxOf?_lt _ _ _ hi2
          have hw : ∃ w ∈ s.sheets, eqFold w.name n = false ∧ w.state = Vis.visible := by
            obtain ⟨w, hw1, hw2⟩ := List.any_eq_true.mp hov
            simp only [Bool.and_eq_true, Bool.not_eq_true', isVisible_iff] at hw2
            exact ⟨w, hw1, hw2.1, hw2.2⟩
          have hi2 : Inv { s2 with activeTab := k } := by
            have := invC_erase (core s) hi d k v hv' n hpv (by show s.count ≠ 1; rw [hcount]; exact hone) hw
              (Or.inr (by show k < (s.sheets.eraseIdx d).length; rw [← hs2sheets]; exact hklt))
            rw [if_pos (by show k < (s.sheets.eraseIdx d).length; rw [← hs2sheets]; exact hklt)] at this
            exact this
          simp only [hd, hone, hov, Bool.not_true, Bool.or_self, Bool.false_eq_true, if_false, Option.isNone_none, and_true]
          rw [setActiveSheet_idem s2 k hklt, view_setActive _ hi2 (pb_activeTab s2 k hp2)]
          have hview2 : (view { s2 with activeTab := k }).sheets = (view s).sheets.eraseIdx d := by
            unfold view
            dsimp only
            rw [hs2sheets, ← map_eraseIdx']
            apply List.map_congr_left
            intro x hx
            apply entryP_congr
            show partGet? (partErase s.parts _) x.id = _
            rw [hp.rel_ok v (List.mem_of_getElem? hv')]
            dsimp only
            rw [partGet?_partErase, if_neg (nodup_erase_ne (·.id) s.sheets d v hi.uniq_id hv' x hx)]
          have hfollow : Spec.follow (view s) ((view s).sheets.eraseIdx d) = k := by
            rw [← hview2]
            show Spec.follow (view s) (s2.sheets.map (entryP s2.parts)) = k
            rw [follow_view s shA hA, hk]
          rw [hview2, hfollow]
          simp


def forget (e : Spec.Entry) : Spec.Entry := { e with selected := false }

theorem selFrom_congr (i : Nat) : ∀ (l l' : List Spec.Entry) (k : Nat), l.map forget = l'.map forget →
    Spec.selFrom i k l = Spec.selFrom i k l'
  | [], [], _, _ => rfl
  | [], _ :: _, _, h => by simp at h
  | _ :: _, [], _, h => by simp at h
  | a :: t, a' :: t', k, h => by
    simp only [List.map_cons, List.cons.injEq] at h
    simp only [Spec.selFrom]
    rw [selFrom_congr i t t' (k + 1) h.2]
    congr 1
    have := h.1
    unfold forget at this
    cases a; cases a'
    simp only [Spec.Entry.mk.injEq] at this ⊢
    exact ⟨this.1, this.2.1, this.2.2.1, trivial⟩

theorem unselParts_forget (a : Nat) (x : Sheet) : ∀ (l : List Sheet) (k : Nat) (ps : List (Nat × Part)),
    forget (entryP (unselParts a k l ps) x) = forget (entryP ps x)
  | [], _, _ => rfl
  | y :: ys, k, ps => by
    unfold unselParts
    split
    · exact unselParts_forget a x ys (k + 1) ps
    · split
      · rename_i w hw
        rw [unselParts_forget a x ys (k + 1) _]
        by_cases hxy : x.id = y.id
        · rw [entryP_some _ x { w with sel := false } (by rw [partGet?_partSet, if_pos hxy]),
            entryP_some ps x w (by rw [hxy]; exact hw)]
          rfl
        · rw [entryP_congr ps _ x (by rw [partGet?_partSet, if_neg hxy])]
      · rfl

theorem map_spliceAt (f : Sheet → Spec.Entry) (l : List Sheet) (si ti : Nat) (src : Sheet) :
    (spliceAt l si ti src).map f =
      ((l.map f).eraseIdx si).take (if ti > si then ti - 1 else ti) ++ f src ::
        ((l.map f).eraseIdx si).drop (if ti > si then ti - 1 else ti) := by
  unfold spliceAt
  rw [List.map_append, List.map_cons, List.map_take, List.map_drop, map_eraseIdx']

theorem sim_move (s : St) (hi : Inv s) (hp : PB s) (a b : Name) : Sim s (.move a b) := by
  unfold Sim
  simp only [step, Spec.step, Spec.move]
  cases hab : eqFold a b with
  | true =>
    have hm : moveSheet s a b = .ok s := by
      unfold moveSheet; simp only [fact_foldMoveSheet, nameEq_true, hab, if_true]
    simp [hm]
  | false =>
    simp only [Bool.false_eq_true, if_false]
    cases hva : checkSheetName a with
    | error e0 =>
      have hvn : validName a = false := by unfold validName; rw [hva]
      have hm : moveSheet s a b = .error e0 := by
        unfold moveSheet
        simp only [fact_foldMoveSheet, nameEq_true, hab, Bool.false_eq_true, if_false]
        unfold getSheetIndex; rw [hva]
      simp [hvn, hm]
    | ok u =>
      have hvna : validName a = true := by unfold validName; rw [hva]
      have hga : getSheetIndex s a = .ok (idxOf? (fun sh => eqFold sh.name a) s.sheets) := by
        unfold getSheetIndex; rw [hva]; simp only [fact_foldGetSheetIndex, nameEq_true]
      cases hvb : checkSheetName b with
      | error e0 =>
        have hvn : validName b = false := by unfold validName; rw [hvb]
        have hm : moveSheet s a b = .error e0 := by
          unfold moveSheet
          simp only [fact_foldMoveSheet, nameEq_true, hab, Bool.false_eq_true, if_false, hga]
          unfold getSheetIndex; rw [hvb]
        simp [hvn, hvna, hm]
      | ok u' =>
        have hvnb : validName b = true := by unfold validName; rw [hvb]
        have hgb : getSheetIndex s b = .ok (idxOf? (fun sh => eqFold sh.name b) s.sheets) := by
          unfold getSheetIndex; rw [hvb]; simp only [fact_foldGetSheetIndex, nameEq_true]
        simp only [hvna, hvnb, Bool.not_true, Bool.or_self, Bool.false_eq_true, if_false, find_view]
        cases hsi : idxOf? (fun sh : Sheet => eqFold sh.name a) s.sheets with
        | none =>
          have hm : moveSheet s a b = .error .notExist := by
            unfold moveSheet
            simp only [fact_foldMoveSheet, nameEq_true, hab, Bool.false_eq_true, if_false, hga, hgb, hsi]
          simp [hm]
        | some si =>
          cases hti : idxOf? (fun sh : Sheet => eqFold sh.name b) s.sheets with
          | none =>
            have hm : moveSheet s a b = .error .notExist := by
              unfold moveSheet
              simp only [fact_foldMoveSheet, nameEq_true, hab, Bool.false_eq_true, if_false, hga, hgb, hsi, hti]
            simp [hm]
          | some ti =>
            obtain ⟨src, hsrc, _⟩ := idxOf?_getElem _ _ _ hsi
            have htilt := idxOf?_lt _ _ _ hti
            obtain ⟨s1, hu⟩ := ungroupSheets_ok s hi hp
            have hpo := ungroupLoop_partsOnly _ _ _ s s1 hu
            have hc := core_partsOnly hpo
            have hsh1 : s1.sheets = s.sheets := by simp only [core, Core.mk.injEq] at hc; exact hc.2.2.1
            have hat1 : s1.activeTab = s.activeTab := by simp only [core, Core.mk.injEq] at hc; exact hc.2.1
            have hi1 : Inv s1 := by unfold Inv; rw [hc]; exact hi
            have hp1 : PB s1 := pb_partsOnly hpo hp
            obtain ⟨shA, hA, hAn, hAv⟩ := activeName_eq s1 hi1 hp1
            have hA' : s.sheets[s.activeTab]? = some shA := by rw [← hsh1, ← hat1]; exact hA
            have hsrc1 : s1.sheets[si]? = some src := by rw [hsh1]; exact hsrc
            let s2 := moveCore s1 si ti src
            have hs2sheets : s2.sheets = spliceAt s.sheets si ti src := by
              show spliceAt s1.sheets si ti src = _; rw [hsh1]
            have hperm : s2.sheets.Perm s.sheets := by rw [hs2sheets]; exact perm_splice _ _ _ _ hsrc
            have hm : moveSheet s a b = .ok (setActiveSheet s2
                (clampIdx (idxOf? (fun sh => eqFold sh.name shA.name) s2.sheets))) := by
              unfold moveSheet
              simp only [fact_foldMoveSheet, nameEq_true, hab, Bool.false_eq_true, if_false, hga, hgb, hsi, hti, hu,
                hsrc1, fact_moveRenumbersLocalSheetId, if_true, hAn]
              rw [sheetIndexD_valid _ _ hAv]
              rfl
            generalize hk : clampIdx (idxOf? (fun sh : Sheet => eqFold sh.name shA.name) s2.sheets) = k at hm
            have hpos : 0 < s.sheets.length := by
              have h : s.activeTab < s.sheets.length := hi.active_lt
              omega
            have hklt : k < s2.sheets.length := by
              rw [← hk]
              cases hi2 : idxOf? (fun sh : Sheet => eqFold sh.name shA.name) s2.sheets with
              | none => show 0 < _; rw [hperm.length_eq]; exact hpos
              | some j => exact idxOf?_lt _ _ _ hi2
            have hp2 : PB s2 := pb_perm s1 _ hp1 (by rw [hsh1]; exact perm_splice _ _ _ _ hsrc) _ s1.activeTab
            have hi2 : Inv { s2 with activeTab := k } := by
              have := invC_splice (core s1) hi1 si ti k src hsrc1 (by show ti < s1.sheets.length; rw [hsh1]; exact htilt)
                (Or.inr (by show k < s1.sheets.length; rw [hsh1, ← hperm.length_eq]; exact hklt))
              rw [if_pos (by show k < s1.sheets.length; rw [hsh1, ← hperm.length_eq]; exact hklt)] at this
              exact this
            have hvget : (view s).sheets[si]? = some (entryP s.parts src) := by rw [view_getElem?, hsrc]; rfl
            simp only [hm, hvget, Option.isNone_none, and_true]
            rw [setActiveSheet_idem s2 k hklt, view_setActive _ hi2 (pb_activeTab s2 k hp2)]
            have hspl : ((view s).sheets.eraseIdx si).take (if ti > si then ti - 1 else ti) ++ entryP s.parts src ::
                ((view s).sheets.eraseIdx si).drop (if ti > si then ti - 1 else ti) =
                (spliceAt s.sheets si ti src).map (entryP s.parts) := (map_spliceAt _ _ _ _ _).symm
            rw [hspl]
            have hfollow : Spec.follow (view s) ((spliceAt s.sheets si ti src).map (entryP s.parts)) = k := by
              rw [follow_view s shA hA', ← hs2sheets, hk]
            rw [hfollow]
            have hsel : Spec.selectOnly (view { s2 with activeTab := k }).sheets k =
                Spec.selectOnly ((spliceAt s.sheets si ti src).map (entryP s.parts)) k := by
              unfold Spec.selectOnly
              apply selFrom_congr
              show (s2.sheets.map (entryP s1.parts)).map forget = _
              rw [hs2sheets, List.map_map, List.map_map]
              apply List.map_congr_left
              intro x _
              simp only [Function.comp]
              unfold ungroupSheets at hu
              rw [ungroupLoop_eq _ s.sheets 0 s hi hp (fun _ h => h)] at hu
              cases hu
              exact unselParts_forget _ x _ _ _
            rw [hsel]
            simp [hklt]

/-- the list model run over a history -/
def specRun (b : Spec.Book) (ops : List Op) : Spec.Book := ops.foldl (fun b o => (Spec.step b o).1) b

/-- one step of the simulation: the list after the call is `Spec.step` of the list before -/
theorem sim_step (s : St) (op : Op) (hi : Inv s) (hp : PB s) :
    (Spec.step (view s) op).1 = view (step s op).1 := by
  cases op with
  | new n => exact (sim_new s hi hp n).1
  | delete n => exact (sim_delete s hi hp n).1
  | copy f t => exact (sim_copy s hi hp f t).1
  | move a b => exact (sim_move s hi hp a b).1
  | rename a b => exact (sim_rename s hi hp a b).1
  | visible n v vh => exact (sim_visible s hi hp n v vh).1
  | active i => exact (sim_active s hi hp i).1
  | group ns => exact (sim_group s hi hp ns).1
  | ungroup => exact (sim_ungroup s hi hp).1
  | defname k sc dt => exact (view_defname s k sc dt).symm
  | deldef k sc => exact (view_deldef s k sc).symm
  | setcell n v => exact (sim_setcell s hi hp n v).1
  | save => exact (sim_save s).1
  | reopen => exact (sim_save s).1
  | observe => exact (sim_observe s).1

/-- acceptance agrees too (SetDefinedName is not described by the list model) -/
theorem sim_accept (s : St) (op : Op) (hi : Inv s) (hp : PB s)
    (hop : ∀ k sc dt, op ≠ .defname k sc dt ∧ op ≠ .deldef k sc) :
    (Spec.step (view s) op).2 = (step s op).2.isNone := by
  cases op with
  | new n => exact (sim_new s hi hp n).2
  | delete n => exact (sim_delete s hi hp n).2
  | copy f t => exact (sim_copy s hi hp f t).2
  | move a b => exact (sim_move s hi hp a b).2
  | rename a b => exact (sim_rename s hi hp a b).2
  | visible n v vh => exact (sim_visible s hi hp n v vh).2
  | active i => exact (sim_active s hi hp i).2
  | group ns => exact (sim_group s hi hp ns).2
  | ungroup => exact (sim_ungroup s hi hp).2
  | defname k sc dt => exact absurd rfl (hop k sc dt).1
  | deldef k sc => exact absurd rfl (hop k sc []).2
  | setcell n v => exact (sim_setcell s hi hp n v).2
  | save => exact (sim_save s).2
  | reopen => exact (sim_save s).2
  | observe => exact (sim_observe s).2

theorem sim_run (s : St) (ops : List Op) (hi : Inv s) (hp : PB s) :
    view (run s ops) = specRun (view s) ops := by
  induction ops generalizing s with
  | nil => rfl
  | cons o os ih =>
    show view (run (step s o).1 os) = specRun (Spec.step (view s) o).1 os
    rw [ih _ (step_inv s o hi) (step_pb s o hi hp), sim_step s o hi hp]

theorem view_init : view init = Spec.init := by decide +kernel

end XlModel.Sheets
