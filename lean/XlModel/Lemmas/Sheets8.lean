/-
C16: "no orphans" — decoded worksheets, content-type overrides, worksheet relationships and package
parts belong to listed sheets only (the other half of `parts_bijective`).
-/
import XlModel.Lemmas.Sheets7

namespace XlModel.Sheets
open XlModel

structure NO (s : St) : Prop where
  parts_sub : ∀ q, (partGet? s.parts q).isSome = true → q ∈ s.sheets.map (·.id)
  ct_sub : ∀ p ∈ s.ctypes, p ∈ s.sheets.map (·.id)
  ct_sup : ∀ p ∈ s.sheets.map (·.id), p ∈ s.ctypes
  ct_nodup : s.ctypes.Nodup
  rel_sub : ∀ r ∈ s.rels, r.part ≠ 0 → (r.rid, r.part) ∈ s.sheets.map (fun sh => (sh.rid, sh.id))
  rel_nodup : (s.rels.map (·.rid)).Nodup
  pkg_sub : ∀ p ∈ s.pkg, p ∈ s.sheets.map (·.id)
  pkg_sorted : s.pkg.Pairwise (· < ·)

/-- `s'` has the same sheets, content types, relationships and package parts, and no new decoded worksheet -/
def KeysSub (s s' : St) : Prop :=
  s'.sheets = s.sheets ∧ s'.ctypes = s.ctypes ∧ s'.rels = s.rels ∧ s'.pkg = s.pkg ∧ s'.sheetMap = s.sheetMap ∧
  ∀ q, (partGet? s'.parts q).isSome = true → (partGet? s.parts q).isSome = true

theorem keysSub_refl (s : St) : KeysSub s s := ⟨rfl, rfl, rfl, rfl, rfl, fun _ h => h⟩

theorem keysSub_trans {a b c : St} (h1 : KeysSub a b) (h2 : KeysSub b c) : KeysSub a c :=
  ⟨h2.1.trans h1.1, h2.2.1.trans h1.2.1, h2.2.2.1.trans h1.2.2.1, h2.2.2.2.1.trans h1.2.2.2.1,
    h2.2.2.2.2.1.trans h1.2.2.2.2.1, fun q h => h1.2.2.2.2.2 q (h2.2.2.2.2.2 q h)⟩

theorem no_keysSub {s s' : St} (h : KeysSub s s') (hn : NO s) : NO s' := by
  obtain ⟨h1, h2, h3, h4, _, h5⟩ := h
  exact {
    parts_sub := fun q hq => by rw [h1]; exact hn.parts_sub q (h5 q hq)
    ct_sub := by rw [h1, h2]; exact hn.ct_sub
    ct_sup := by rw [h1, h2]; exact hn.ct_sup
    ct_nodup := by rw [h2]; exact hn.ct_nodup
    rel_sub := by rw [h1, h3]; exact hn.rel_sub
    rel_nodup := by rw [h3]; exact hn.rel_nodup
    pkg_sub := by rw [h1, h4]; exact hn.pkg_sub
    pkg_sorted := by rw [h4]; exact hn.pkg_sorted }

theorem reader_ok_part (s : St) (n : Name) (p : Nat) (w : Part) (h : workSheetReader s n = .ok (p, w)) :
    partGet? s.parts p = some w := by
  unfold workSheetReader at h
  split at h
  · cases h
  · split at h
    · cases h
    · split at h
      · rename_i hw
        simp only [Except.ok.injEq, Prod.mk.injEq] at h
        obtain ⟨rfl, rfl⟩ := h
        exact hw
      · cases h

/-- writing a worksheet that is already decoded adds no key -/
theorem keysSub_set (s : St) (p : Nat) (v : Part) (hp : (partGet? s.parts p).isSome = true) :
    KeysSub s { s with parts := partSet s.parts p v } := by
  refine ⟨rfl, rfl, rfl, rfl, rfl, ?_⟩
  intro q hq
  change (partGet? (partSet s.parts p v) q).isSome = true at hq
  rw [partGet?_partSet] at hq
  by_cases h : q = p
  · rw [h]; exact hp
  · rw [if_neg h] at hq; exact hq

theorem setSelLoop_keysSub (index : Nat) : ∀ (ns : List Name) (idx : Nat) (s : St),
    KeysSub s (setSelLoop index idx ns s)
  | [], _, s => keysSub_refl s
  | n :: ns, idx, s => by
    unfold setSelLoop
    split
    · exact keysSub_refl s
    · rename_i p w hr
      exact keysSub_trans (keysSub_set s p _ (by rw [reader_ok_part s n p w hr]; rfl)) (setSelLoop_keysSub index ns _ _)

theorem setActiveSheet_keysSub (s : St) (k : Nat) : KeysSub s (setActiveSheet s k) := by
  unfold setActiveSheet
  dsimp only
  split
  · exact keysSub_trans (a := s) (b := { s with activeTab := k }) ⟨rfl, rfl, rfl, rfl, rfl, fun _ h => h⟩
      (setSelLoop_keysSub _ _ _ _)
  · exact setSelLoop_keysSub _ _ _ _

theorem ungroupLoop_keysSub (a : Nat) : ∀ (ns : List Name) (idx : Nat) (s s' : St),
    ungroupLoop a idx ns s = .ok s' → KeysSub s s'
  | [], _, s, s', h => by simp [ungroupLoop] at h; subst h; exact keysSub_refl s
  | n :: ns, idx, s, s', h => by
    unfold ungroupLoop at h
    split at h
    · exact ungroupLoop_keysSub a ns _ s s' h
    · split at h
      · cases h
      · rename_i p w hr
        exact keysSub_trans (keysSub_set s p _ (by rw [reader_ok_part s n p w hr]; rfl))
          (ungroupLoop_keysSub a ns _ _ s' h)

theorem copySheet_keysSub (s s' : St) (f t : Int) (h : copySheet s f t = .ok s') : KeysSub s s' := by
  unfold copySheet at h
  split at h
  · cases h
  · simp only [fact_copyTargetByPartPath, Bool.not_true, Bool.false_eq_true, if_false] at h
    split at h
    · cases h
    · split at h
      · cases h
      · rename_i p w' hr
        cases h
        exact keysSub_set s p _ (by rw [reader_ok_part s _ p w' hr]; rfl)

theorem setCell_keysSub (s s' : St) (n : Name) (v : Nat) (h : setCell s n v = .ok s') : KeysSub s s' := by
  unfold setCell at h
  split at h
  · cases h
  · rename_i p w hr
    cases h
    exact keysSub_set s p _ (by rw [reader_ok_part s n p w hr]; rfl)

theorem groupSheets_keysSub (s s' : St) (ns : List Name) (h : groupSheets s ns = .ok s') : KeysSub s s' := by
  unfold groupSheets at h
  dsimp only at h
  repeat' split at h
  all_goals try (cases h; done)
  all_goals
    rename_i ps _
    cases h
    refine ⟨rfl, rfl, rfl, rfl, rfl, ?_⟩
    intro q hq
    have e : (s.parts.map fun e => if ps.contains e.1 = true then (e.1, { e.2 with sel := true }) else e) =
        s.parts.map fun e => (e.1, if ps.contains e.1 = true then { e.2 with sel := true } else e.2) := by
      apply List.map_congr_left
      intro e _
      split <;> rfl
    change (partGet? (s.parts.map _) q).isSome = true at hq
    rw [e, partGet?_map_val] at hq
    exact hq


theorem mem_ids_of_pair {l : List Sheet} {r q : Nat} (h : (r, q) ∈ l.map (fun sh => (sh.rid, sh.id))) :
    q ∈ l.map (·.id) := by
  obtain ⟨sh, hsh, he⟩ := List.mem_map.mp h
  simp only [Prod.mk.injEq] at he
  exact List.mem_map.mpr ⟨sh, hsh, he.2⟩

/-- replacing the sheet list by one with the same (rId, id) pairs keeps `NO` -/
theorem no_resheet (s : St) (l' : List Sheet) (hn : NO s)
    (hpair : ∀ x, x ∈ l'.map (fun sh => (sh.rid, sh.id)) ↔ x ∈ s.sheets.map (fun sh => (sh.rid, sh.id)))
    (hids : ∀ q, q ∈ l'.map (·.id) ↔ q ∈ s.sheets.map (·.id)) (defs' : List DefName) (a : Nat)
    (m' : List (Name × Nat)) :
    NO { s with sheets := l', defs := defs', activeTab := a, sheetMap := m' } where
  parts_sub := fun q hq => (hids q).mpr (hn.parts_sub q hq)
  ct_sub := fun p hp => (hids p).mpr (hn.ct_sub p hp)
  ct_sup := fun p hp => hn.ct_sup p ((hids p).mp hp)
  ct_nodup := hn.ct_nodup
  rel_sub := fun r hr hne => (hpair _).mpr (hn.rel_sub r hr hne)
  rel_nodup := hn.rel_nodup
  pkg_sub := fun p hp => (hids p).mpr (hn.pkg_sub p hp)
  pkg_sorted := hn.pkg_sorted

theorem no_perm (s : St) (l' : List Sheet) (hn : NO s) (hperm : l'.Perm s.sheets) (defs' : List DefName) (a : Nat) :
    NO { s with sheets := l', defs := defs', activeTab := a } :=
  no_resheet s l' hn (fun _ => (hperm.map _).mem_iff) (fun _ => (hperm.map _).mem_iff) defs' a s.sheetMap

theorem no_map (s : St) (g : Sheet → Sheet) (hg : ∀ x, (g x).rid = x.rid ∧ (g x).id = x.id) (hn : NO s)
    (m' : List (Name × Nat)) : NO { s with sheets := s.sheets.map g, sheetMap := m' } := by
  have e1 : (s.sheets.map g).map (fun sh => (sh.rid, sh.id)) = s.sheets.map (fun sh => (sh.rid, sh.id)) := by
    rw [List.map_map]; apply List.map_congr_left; intro x _; simp only [Function.comp, (hg x).1, (hg x).2]
  have e2 : (s.sheets.map g).map (·.id) = s.sheets.map (·.id) := by
    rw [List.map_map]; apply List.map_congr_left; intro x _; simp only [Function.comp, (hg x).2]
  exact no_resheet s _ hn (fun _ => by rw [e1]) (fun _ => by rw [e2]) s.defs s.activeTab m'

theorem no_hide (s : St) (hn : NO s) {t st c} (l' : List Sheet) (h : HideAll t st c s.sheets l') :
    NO { s with sheets := l' } := by
  obtain ⟨_, hi, _⟩ := forall₂_hide_names h
  obtain ⟨_, _, hr⟩ := hideAll_triples h
  have hpairs : ∀ {l l' : List Sheet}, HideAll t st c l l' →
      l'.map (fun sh => (sh.rid, sh.id)) = l.map (fun sh => (sh.rid, sh.id)) := by
    intro l l' hh
    induction hh with
    | nil => rfl
    | cons hrel _ ih =>
      simp only [List.map_cons, ih]
      rcases hrel with rfl | ⟨_, _, rfl⟩ <;> rfl
  exact no_resheet s l' hn (fun _ => by rw [hpairs h]) (fun _ => by rw [hi]) s.defs s.activeTab s.sheetMap

theorem no_new (s : St) (hn : NO s) (n : Name) :
    NO { s with
        count := s.count + 1
        ctypes := s.ctypes ++ [newSheetID s]
        sheetMap := mapSet s.sheetMap n (newSheetID s)
        parts := partSet s.parts (newSheetID s) ⟨false, 0⟩
        rels := s.rels ++ [⟨maxOf (s.rels.map (·.rid)) + 1, newSheetID s⟩]
        sheets := s.sheets ++ [⟨n, newSheetID s, maxOf (s.rels.map (·.rid)) + 1, .visible⟩] } := by
  have hgt := newSheetID_gt s
  have hfresh : ∀ p ∈ s.sheets.map (·.id), p ≠ newSheetID s := by
    intro p hp'; have := le_maxOf _ p hp'; omega
  exact {
    parts_sub := by
      intro q hq
      change (partGet? (partSet s.parts (newSheetID s) ⟨false, 0⟩) q).isSome = true at hq
      show q ∈ (s.sheets ++ _).map (·.id)
      rw [partGet?_partSet] at hq
      rw [List.map_append]
      by_cases h : q = newSheetID s
      · exact List.mem_append_right _ (by simp [h])
      · rw [if_neg h] at hq; exact List.mem_append_left _ (hn.parts_sub q hq)
    ct_sub := by
      intro p hp'
      show p ∈ (s.sheets ++ _).map (·.id)
      rw [List.map_append]
      rcases List.mem_append.mp hp' with h | h
      · exact List.mem_append_left _ (hn.ct_sub p h)
      · exact List.mem_append_right _ (by simpa using h)
    ct_sup := by
      intro p hp'
      change p ∈ (s.sheets ++ _).map (·.id) at hp'
      show p ∈ s.ctypes ++ _
      rw [List.map_append] at hp'
      rcases List.mem_append.mp hp' with h | h
      · exact List.mem_append_left _ (hn.ct_sup p h)
      · exact List.mem_append_right _ (by simpa using h)
    ct_nodup := by
      show (s.ctypes ++ [newSheetID s]).Nodup
      refine List.nodup_append.mpr ⟨hn.ct_nodup, by simp, ?_⟩
      intro a ha b hb
      simp only [List.mem_singleton] at hb
      subst hb
      exact hfresh a (hn.ct_sub a ha)
    rel_sub := by
      intro r hr hne
      change r ∈ s.rels ++ _ at hr
      show (r.rid, r.part) ∈ (s.sheets ++ _).map _
      rw [List.map_append]
      rcases List.mem_append.mp hr with h | h
      · exact List.mem_append_left _ (hn.rel_sub r h hne)
      · simp only [List.mem_singleton] at h
        subst h
        exact List.mem_append_right _ (by simp)
    rel_nodup := by
      show ((s.rels ++ _).map (·.rid)).Nodup
      simp only [List.map_append, List.map_cons, List.map_nil]
      refine List.nodup_append.mpr ⟨hn.rel_nodup, by simp, ?_⟩
      intro a ha b hb
      simp only [List.mem_singleton] at hb
      subst hb
      exact maxOf_lt_of_mem _ a ha
    pkg_sub := by
      intro p hp'
      show p ∈ (s.sheets ++ _).map (·.id)
      rw [List.map_append]
      exact List.mem_append_left _ (hn.pkg_sub p hp')
    pkg_sorted := hn.pkg_sorted }

theorem no_observe (s : St) (hn : NO s) : NO (observe s) := by
  unfold observe
  split
  · exact {
      parts_sub := hn.parts_sub, ct_sub := hn.ct_sub, ct_sup := hn.ct_sup, ct_nodup := hn.ct_nodup
      rel_sub := by
        intro r hr hne
        change r ∈ s.rels ++ _ at hr
        rcases List.mem_append.mp hr with h | h
        · exact hn.rel_sub r h hne
        · simp only [List.mem_singleton] at h
          subst h
          exact absurd rfl hne
      rel_nodup := by
        show ((s.rels ++ _).map (·.rid)).Nodup
        simp only [List.map_append, List.map_cons, List.map_nil]
        refine List.nodup_append.mpr ⟨hn.rel_nodup, by simp, ?_⟩
        intro a ha b hb
        simp only [List.mem_singleton] at hb
        subst hb
        exact maxOf_lt_of_mem _ a ha
      pkg_sub := hn.pkg_sub, pkg_sorted := hn.pkg_sorted }
  · exact hn

/-! ### saving -/

theorem mem_insSorted (x a : Nat) : ∀ l : List Nat, a ∈ insSorted x l ↔ a = x ∨ a ∈ l
  | [] => by simp [insSorted]
  | y :: ys => by
    unfold insSorted
    split
    · simp
    · split
      · rename_i h; subst h; simp
      · simp only [List.mem_cons, mem_insSorted x a ys]
        constructor
        · rintro (h | h | h)
          · exact Or.inr (Or.inl h)
          · exact Or.inl h
          · exact Or.inr (Or.inr h)
        · rintro (h | h | h)
          · exact Or.inr (Or.inl h)
          · exact Or.inl h
          · exact Or.inr (Or.inr h)

theorem sorted_insSorted (x : Nat) : ∀ l : List Nat, l.Pairwise (· < ·) → (insSorted x l).Pairwise (· < ·)
  | [], _ => by simp [insSorted]
  | y :: ys, h => by
    unfold insSorted
    have hy := List.pairwise_cons.mp h
    split
    · rename_i hxy
      refine List.pairwise_cons.mpr ⟨?_, h⟩
      intro a ha
      rcases List.mem_cons.mp ha with rfl | ha'
      · exact hxy
      · exact Nat.lt_trans hxy (hy.1 a ha')
    · split
      · exact h
      · rename_i h1 h2
        refine List.pairwise_cons.mpr ⟨?_, sorted_insSorted x ys hy.2⟩
        intro a ha
        rcases (mem_insSorted x a ys).mp ha with rfl | ha'
        · omega
        · exact hy.1 a ha'

theorem partGet?_of_mem_keys : ∀ (ps : List (Nat × Part)) (p : Nat), p ∈ ps.map (·.1) → (partGet? ps p).isSome = true
  | [], _, h => by simp at h
  | a :: t, p, h => by
    simp only [partGet?, List.find?_cons]
    by_cases hap : a.1 = p
    · simp [hap]
    · have : (a.1 == p) = false := by simpa using hap
      simp only [this]
      have ht : p ∈ t.map (·.1) := by
        simp only [List.map_cons, List.mem_cons] at h
        rcases h with h | h
        · exact absurd h.symm hap
        · exact h
      exact partGet?_of_mem_keys t p ht

theorem no_save (s : St) (hn : NO s) : NO (save s) := by
  unfold save
  have key : ∀ ks : List Nat, (∀ k ∈ ks, k ∈ s.sheets.map (·.id)) →
      (∀ p ∈ ks.foldr insSorted s.pkg, p ∈ s.sheets.map (·.id)) ∧ (ks.foldr insSorted s.pkg).Pairwise (· < ·) := by
    intro ks
    induction ks with
    | nil => intro _; exact ⟨hn.pkg_sub, hn.pkg_sorted⟩
    | cons k t ih =>
      intro hk
      obtain ⟨h1, h2⟩ := ih (fun x hx => hk x (List.mem_cons_of_mem _ hx))
      refine ⟨?_, sorted_insSorted k _ h2⟩
      intro p hp
      rcases (mem_insSorted k p _).mp hp with rfl | hp'
      · exact hk p List.mem_cons_self
      · exact h1 p hp'
  obtain ⟨h1, h2⟩ := key (s.parts.map (·.1)) (fun k hk => hn.parts_sub k (partGet?_of_mem_keys _ k hk))
  exact { parts_sub := hn.parts_sub, ct_sub := hn.ct_sub, ct_sup := hn.ct_sup, ct_nodup := hn.ct_nodup,
          rel_sub := hn.rel_sub, rel_nodup := hn.rel_nodup, pkg_sub := h1, pkg_sorted := h2 }


theorem no_deleteCascade (s : St) (huid : (s.sheets.map (·.id)).Nodup) (hp : PB s) (hn : NO s) (d : Nat) (v : Sheet)
    (hv : s.sheets[d]? = some v) : NO (deleteCascade s d v) := by
  have hvm : v ∈ s.sheets := List.mem_of_getElem? hv
  have hrel := hp.rel_ok v hvm
  -- a listed id other than the deleted one stays listed
  have hids : ∀ q, q ∈ s.sheets.map (·.id) → q ≠ v.id → q ∈ (s.sheets.eraseIdx d).map (·.id) := by
    intro q hq hne
    obtain ⟨sh, hsh, rfl⟩ := List.mem_map.mp hq
    exact List.mem_map.mpr ⟨sh, mem_eraseIdx_of_ne _ _ _ _ hv hsh (fun e => hne (by rw [e])), rfl⟩
  have hidne : ∀ x ∈ s.sheets.eraseIdx d, x.id ≠ v.id := fun x hx => nodup_erase_ne (·.id) s.sheets d v huid hv x hx
  unfold deleteCascade
  simp only [hrel]
  exact {
    parts_sub := by
      intro q hq
      change (partGet? (partErase s.parts v.id) q).isSome = true at hq
      rw [partGet?_partErase] at hq
      by_cases h : q = v.id
      · rw [if_pos h] at hq; cases hq
      · rw [if_neg h] at hq; exact hids q (hn.parts_sub q hq) h
    ct_sub := by
      intro p hp'
      change p ∈ s.ctypes.erase v.id at hp'
      have := (List.Nodup.mem_erase_iff hn.ct_nodup).mp hp'
      exact hids p (hn.ct_sub p this.2) this.1
    ct_sup := by
      intro p hp'
      show p ∈ s.ctypes.erase v.id
      obtain ⟨sh, hsh, rfl⟩ := List.mem_map.mp hp'
      exact (List.Nodup.mem_erase_iff hn.ct_nodup).mpr ⟨hidne sh hsh,
        hn.ct_sup _ (List.mem_map.mpr ⟨sh, (List.eraseIdx_sublist _ _).subset hsh, rfl⟩)⟩
    ct_nodup := hn.ct_nodup.erase _
    rel_sub := by
      intro r hr hne
      obtain ⟨k, hk⟩ := idxOf?_isSome_of_mem (fun r : Rel => r.rid == v.rid) s.rels _
        (find?_some_mem _ _ _ hrel).1 (by simp)
      simp only [hk] at hr
      change r ∈ s.rels.eraseIdx k at hr
      obtain ⟨rk, hrk, hprk⟩ := idxOf?_getElem _ _ _ hk
      have hridne : r.rid ≠ rk.rid := nodup_erase_ne (·.rid) s.rels k rk hn.rel_nodup hrk r hr
      have hmem := hn.rel_sub r ((List.eraseIdx_sublist _ _).subset hr) hne
      obtain ⟨sh, hsh, he⟩ := List.mem_map.mp hmem
      simp only [Prod.mk.injEq] at he
      refine List.mem_map.mpr ⟨sh, mem_eraseIdx_of_ne _ _ _ _ hv hsh ?_, by simp [he.1, he.2]⟩
      intro e
      apply hridne
      rw [← he.1, e]
      exact (by simpa using hprk : rk.rid = v.rid).symm
    rel_nodup := by
      cases hk : idxOf? (fun r : Rel => r.rid == v.rid) s.rels with
      | none => exact hn.rel_nodup
      | some k => exact List.Nodup.sublist ((List.eraseIdx_sublist _ _).map _) hn.rel_nodup
    pkg_sub := by
      intro p hp'
      change p ∈ s.pkg.erase v.id at hp'
      have hnd : s.pkg.Nodup := hn.pkg_sorted.imp (fun h => Nat.ne_of_lt h)
      have := (List.Nodup.mem_erase_iff hnd).mp hp'
      exact hids p (hn.pkg_sub p this.2) this.1
    pkg_sorted := hn.pkg_sorted.sublist (List.erase_sublist) }

theorem no_defs (s : St) (defs' : List DefName) (hn : NO s) : NO { s with defs := defs' } :=
  { parts_sub := hn.parts_sub, ct_sub := hn.ct_sub, ct_sup := hn.ct_sup, ct_nodup := hn.ct_nodup,
    rel_sub := hn.rel_sub, rel_nodup := hn.rel_nodup, pkg_sub := hn.pkg_sub, pkg_sorted := hn.pkg_sorted }

/-- every API call keeps the workbook free of orphan parts -/
theorem step_no (s : St) (op : Op) (hi : Inv s) (hp : PB s) (hn : NO s) : NO (step s op).1 := by
  cases op with
  | new n =>
    simp only [step]
    split
    · rename_i s' r hns
      rcases newSheet_full s s' n r hns with rfl | ⟨_, _, rfl⟩
      · exact hn
      · exact no_new s hn n
    · exact hn
  | delete n =>
    simp only [step]
    split
    · rename_i s' hd
      rcases deleteSheet_full s s' n hd with rfl | ⟨d, v, k, hv, _, _, _, _, rfl, _⟩
      · exact hn
      · apply no_keysSub (setActiveSheet_keysSub _ _)
        exact no_deleteCascade { s with defs := deleteAndAdjustDefinedNames s.defs d } hi.uniq_id
          (inv_defs_irrelevant_pb s _ hp) (no_defs s _ hn) d v hv
    · exact hn
  | copy f t =>
    simp only [step]
    split
    · rename_i s' hc; exact no_keysSub (copySheet_keysSub s s' f t hc) hn
    · exact hn
  | move a b =>
    simp only [step]
    split
    · rename_i s' hm
      rcases moveSheet_full s s' a b hm with rfl | ⟨si, ti, src, s1, hu, hsrc, _, _, _, _, rfl⟩
      · exact hn
      · apply no_keysSub (setActiveSheet_keysSub _ _)
        have hn1 := no_keysSub (ungroupLoop_keysSub _ _ _ s s1 hu) hn
        exact no_perm s1 _ hn1 (perm_splice s1.sheets si _ src hsrc) _ s1.activeTab
    · exact hn
  | rename a b =>
    simp only [step]
    split
    · rename_i s' hr
      rcases setSheetName_full s s' a b hr with rfl | ⟨p, _, _, _, _, _, rfl⟩ | ⟨_, rfl⟩
      · exact hn
      · exact no_defs _ _ (no_map s _ (fun x => by split <;> exact ⟨rfl, rfl⟩) hn _)
      · exact no_defs s _ hn
    · exact hn
  | visible n v vh =>
    simp only [step]
    unfold setSheetVisible
    split
    · exact hn
    · split
      · exact no_map s _ (fun x => by split <;> exact ⟨rfl, rfl⟩) hn s.sheetMap
      · dsimp only
        exact no_hide s hn _ (visLoop_rel s n _ _ s.sheets)
  | active i => simp only [step]; exact no_keysSub (setActiveSheet_keysSub _ _) hn
  | group ns =>
    simp only [step]
    split
    · rename_i s' hg; exact no_keysSub (groupSheets_keysSub s s' ns hg) hn
    · exact hn
  | ungroup =>
    simp only [step]
    split
    · rename_i s' hu; exact no_keysSub (ungroupLoop_keysSub _ _ _ s s' hu) hn
    · exact hn
  | defname k sc dt =>
    simp only [step]
    split
    · rename_i s' hd
      unfold setDefinedName at hd
      repeat' split at hd
      all_goals first | (cases hd; exact no_defs s _ hn) | cases hd
    · exact hn
  | deldef k sc =>
    simp only [step]
    split
    · rename_i s' hd
      unfold deleteDefinedName at hd
      repeat' split at hd
      all_goals first | (cases hd; exact no_defs s _ hn) | cases hd
    · exact hn
  | setcell n v =>
    simp only [step]
    split
    · rename_i s' hc; exact no_keysSub (setCell_keysSub s s' n v hc) hn
    · exact hn
  | save => exact no_save s hn
  | reopen => exact no_save s hn
  | observe => exact no_observe s hn

theorem init_no : NO init where
  parts_sub := by
    intro q hq
    have hparts : init.parts = [(1, ⟨true, 0⟩)] := by decide +kernel
    have hids : init.sheets.map (·.id) = [1] := by decide +kernel
    rw [hparts] at hq
    rw [hids]
    by_cases h : q = 1
    · simp [h]
    · have : ((1 : Nat) == q) = false := by simpa using (fun e : 1 = q => h e.symm)
      simp [partGet?, List.find?_cons, this] at hq
  ct_sub := by decide +kernel
  ct_sup := by decide +kernel
  ct_nodup := by decide +kernel
  rel_sub := by decide +kernel
  rel_nodup := by decide +kernel
  pkg_sub := by decide +kernel
  pkg_sorted := by decide +kernel

theorem run_all (s : St) (ops : List Op) (hi : Inv s) (hp : PB s) (hn : NO s) :
    Inv (run s ops) ∧ PB (run s ops) ∧ NO (run s ops) := by
  induction ops generalizing s with
  | nil => exact ⟨hi, hp, hn⟩
  | cons o os ih => exact ih _ (step_inv s o hi) (step_pb s o hi hp) (step_no s o hi hp hn)

end XlModel.Sheets
