/-
C16: the refers-to text of defined names under SetSheetName (adjustRangeSheetName).
-/
import XlModel.Lemmas.Sheets8

namespace XlModel.Sheets
open XlModel

theorem splitOn_ne_nil (c : Char) : ∀ l : List Char, splitOn c l ≠ []
  | [] => by simp [splitOn]
  | x :: xs => by
    unfold splitOn
    split
    · simp
    · split <;> simp

theorem joinWith_cons_head (c x : Char) (h : List Char) : ∀ t : List (List Char),
    joinWith c ((x :: h) :: t) = x :: joinWith c (h :: t)
  | [] => rfl
  | _ :: _ => rfl

/-- `strings.Join(strings.Split(s, sep), sep) = s` -/
theorem join_split (c : Char) : ∀ l : List Char, joinWith c (splitOn c l) = l
  | [] => rfl
  | x :: xs => by
    have ih := join_split c xs
    unfold splitOn
    split
    · rename_i hx
      cases hs : splitOn c xs with
      | nil => exact absurd hs (splitOn_ne_nil c xs)
      | cons h t =>
        rw [hs] at ih
        show [] ++ c :: joinWith c (h :: t) = x :: xs
        rw [ih, hx]; rfl
    · cases hs : splitOn c xs with
      | nil => exact absurd hs (splitOn_ne_nil c xs)
      | cons h t =>
        rw [hs] at ih
        dsimp only
        rw [joinWith_cons_head, ih]

/-- rendering the parsed text gives the text back -/
theorem render_parse (data : Name) : renderRef (parseRef data) = data := by
  unfold renderRef parseRef
  simp only [List.map_map]
  have h1 : ∀ cellRef : Name, joinWith ':' (((splitOn ':' cellRef).map fun rangeRef => splitOn '!' rangeRef).map
      fun rangeRef => joinWith '!' rangeRef) = cellRef := by
    intro cellRef
    simp only [List.map_map]
    have : (splitOn ':' cellRef).map ((fun rangeRef => joinWith '!' rangeRef) ∘ fun rangeRef => splitOn '!' rangeRef) =
        splitOn ':' cellRef := by
      conv => rhs; rw [← List.map_id (splitOn ':' cellRef)]
      apply List.map_congr_left
      intro r _
      simp only [Function.comp, id, join_split]
    rw [this, join_split]
  have h2 : (splitOn ',' data).map ((fun cellRef => joinWith ':' (cellRef.map fun rangeRef => joinWith '!' rangeRef)) ∘
      fun cellRef => (splitOn ':' cellRef).map fun rangeRef => splitOn '!' rangeRef) = splitOn ',' data := by
    conv => rhs; rw [← List.map_id (splitOn ',' data)]
    apply List.map_congr_left
    intro cr _
    simp only [Function.comp, id]
    exact h1 cr
  rw [h2, join_split]

@[simp] theorem fact_renameKeepsQuotes : Facts.C16.renameKeepsQuotes = true := rfl
@[simp] theorem fact_renameRewritesDefinedNames : Facts.C16.renameRewritesDefinedNames = true := rfl

/-- an unquoted component equal to the renamed sheet becomes the new name -/
theorem adjustPart_renamed (a b : Name) (ha : isQuoted a = false) : adjustPart a b a = b := by
  unfold adjustPart
  simp [ha]

/-- `'x'` -/
def quoted (x : Name) : Name := quoteChar :: (x ++ [quoteChar])

theorem getLast?_cons_concat (q : Char) : ∀ (x : List Char) (c : Char), (c :: (x ++ [q])).getLast? = some q
  | [], _ => rfl
  | y :: ys, c => by
    show (c :: y :: (ys ++ [q])).getLast? = some q
    rw [List.getLast?_cons_cons]
    exact getLast?_cons_concat q ys y

theorem quoted_getLast (x : Name) : (quoted x).getLast? = some quoteChar := getLast?_cons_concat _ x _

theorem quoted_dropLast (x : Name) : (quoted x).dropLast = quoteChar :: x := by
  show ((quoteChar :: x) ++ [quoteChar]).dropLast = _
  exact List.dropLast_concat

theorem isQuoted_quoted (x : Name) : isQuoted (quoted x) = true := by
  unfold isQuoted
  rw [quoted_getLast]
  simp [quoted]

theorem unquote_quoted (x : Name) : unquote (quoted x) = x := by
  unfold unquote
  simp only [quoted_getLast, beq_self_eq_true, if_true, quoted_dropLast, List.head?_cons, List.drop_succ_cons,
    List.drop_zero]

/-- the quoted form of the renamed sheet becomes the quoted new name -/
theorem adjustPart_renamed_quoted (a b : Name) : adjustPart a b (quoted a) = quoted b := by
  unfold adjustPart
  simp only [isQuoted_quoted, unquote_quoted, if_true, beq_self_eq_true, fact_renameKeepsQuotes, Bool.true_or,
    Bool.and_self]
  rfl

/-- an unquoted component that is not the renamed sheet is byte-identical -/
theorem adjustPart_other (a b part : Name) (hq : isQuoted part = false) (hne : part ≠ a) :
    adjustPart a b part = part := by
  unfold adjustPart
  simp [hq, hne]

/-- a quoted component `'x'` with `x ≠` the renamed sheet is byte-identical -/
theorem adjustPart_other_quoted (a b x : Name) (hne : x ≠ a) : adjustPart a b (quoted x) = quoted x := by
  unfold adjustPart
  have : (x == a) = false := by simpa using hne
  simp only [isQuoted_quoted, unquote_quoted, if_true, this, Bool.false_eq_true, if_false, fact_renameKeepsQuotes,
    Bool.true_or, Bool.and_self]
  rfl

/-- every component is either untouched or one of the two spellings of the renamed sheet -/
def Untouched (a : Name) (part : Name) : Prop :=
  (isQuoted part = false ∧ part ≠ a) ∨ (∃ x, part = quoted x ∧ x ≠ a)

theorem adjustPart_untouched (a b part : Name) (h : Untouched a part) : adjustPart a b part = part := by
  rcases h with ⟨hq, hne⟩ | ⟨x, rfl, hne⟩
  · exact adjustPart_other a b part hq hne
  · exact adjustPart_other_quoted a b x hne

/-- a text none of whose components names the renamed sheet is byte-identical after the rename -/
theorem adjustRange_untouched (data a b : Name)
    (h : ∀ cellRef ∈ parseRef data, ∀ rangeRef ∈ cellRef, ∀ part ∈ rangeRef, Untouched a part) :
    adjustRange data a b = data := by
  unfold adjustRange
  have : ((parseRef data).map fun cellRef => cellRef.map fun rangeRef => rangeRef.map (adjustPart a b)) = parseRef data := by
    conv => rhs; rw [← List.map_id (parseRef data)]
    apply List.map_congr_left
    intro cr hcr
    conv => rhs; rw [id, ← List.map_id cr]
    apply List.map_congr_left
    intro rr hrr
    conv => rhs; rw [id, ← List.map_id rr]
    apply List.map_congr_left
    intro part hpart
    exact adjustPart_untouched a b part (h cr hcr rr hrr part hpart)
  rw [this, render_parse]


theorem quoted_of_isQuoted (part : Name) (hq : isQuoted part = true) (hne : part ≠ [quoteChar]) :
    part = quoted (unquote part) := by
  cases part with
  | nil => simp [isQuoted] at hq
  | cons c rest =>
    unfold isQuoted at hq
    simp only [List.head?_cons, Bool.and_eq_true, beq_iff_eq, Option.some.injEq] at hq
    obtain ⟨hc, hl⟩ := hq
    subst hc
    rcases List.eq_nil_or_concat rest with rfl | ⟨init, b, hrest⟩
    · exact absurd rfl hne
    · rw [List.concat_eq_append] at hrest
      subst hrest
      have hb : b = quoteChar := by
        rw [getLast?_cons_concat] at hl
        exact Option.some.inj hl
      subst hb
      show quoted init = quoted (unquote (quoted init))
      rw [unquote_quoted]

/-- every component other than the lone apostrophe whose unquoted form differs from the renamed sheet is byte-identical -/
theorem adjustPart_other_general (a b part : Name) (hne : part ≠ [quoteChar])
    (hin : (if isQuoted part then unquote part else part) ≠ a) : adjustPart a b part = part := by
  cases hq : isQuoted part with
  | false =>
    rw [hq] at hin
    exact adjustPart_other a b part hq (by simpa using hin)
  | true =>
    rw [hq] at hin
    have hp := quoted_of_isQuoted part hq hne
    rw [hp]
    exact adjustPart_other_quoted a b (unquote part) (by simpa using hin)

/-- a whole text is byte-identical when no component is the lone apostrophe or names the renamed sheet -/
theorem adjustRange_untouched_general (data a b : Name)
    (h : ∀ cellRef ∈ parseRef data, ∀ rangeRef ∈ cellRef, ∀ part ∈ rangeRef,
      part ≠ [quoteChar] ∧ (if isQuoted part then unquote part else part) ≠ a) :
    adjustRange data a b = data := by
  unfold adjustRange
  have : ((parseRef data).map fun cellRef => cellRef.map fun rangeRef => rangeRef.map (adjustPart a b)) = parseRef data := by
    conv => rhs; rw [← List.map_id (parseRef data)]
    apply List.map_congr_left
    intro cr hcr
    conv => rhs; rw [id, ← List.map_id cr]
    apply List.map_congr_left
    intro rr hrr
    conv => rhs; rw [id, ← List.map_id rr]
    apply List.map_congr_left
    intro part hpart
    exact adjustPart_other_general a b part (h cr hcr rr hrr part hpart).1 (h cr hcr rr hrr part hpart).2
  rw [this, render_parse]

end XlModel.Sheets
