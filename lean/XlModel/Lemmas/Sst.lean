/-
C12: the shared-string object model refines a plain list of items.
-/
import XlModel.Sst
import XlModel.Lemmas.Store

namespace XlModel.Sst
open XlModel XlModel.Store AMap

theorem mapFold_cons (m : List (String × Nat)) (i : Nat) (it : Item) (r : Tab) :
    mapFold m i (it :: r) = mapFold (stepItem m i it) (i + 1) r := rfl

theorem mapFold_append : ∀ (t : Tab) (m : List (String × Nat)) (i : Nat) (x : Item),
    mapFold m i (t ++ [x]) = stepItem (mapFold m i t) (i + t.length) x
  | [], m, i, x => by simp [mapFold]
  | a :: r, m, i, x => by
    rw [List.cons_append, mapFold_cons, mapFold_cons, mapFold_append r]
    have : i + 1 + r.length = i + (a :: r).length := by simp; omega
    rw [this]

theorem load_stepItem (m : List (String × Nat)) (i : Nat) (it : Item) (k : String) :
    load (stepItem m i it) k = if it.key = some k then some i else load m k := by
  unfold stepItem
  cases h : it.key with
  | none => simp
  | some k' =>
    simp only [load_store]
    by_cases e : k = k'
    · subst e; simp
    · have : ¬ k' = k := fun h => e h.symm
      simp [e, this]

/-- folding a table into an existing map: entries of the table win, the rest is kept -/
theorem load_mapFold : ∀ (t : Tab) (m : List (String × Nat)) (i : Nat) (k : String),
    load (mapFold m i t) k =
      match load (mapFold [] i t) k with
      | some j => some j
      | none => load m k
  | [], m, i, k => by simp [mapFold, load]
  | a :: r, m, i, k => by
    rw [mapFold_cons, mapFold_cons, load_mapFold r (stepItem m i a), load_mapFold r (stepItem [] i a)]
    cases load (mapFold [] (i + 1) r) k with
    | some j => rfl
    | none =>
      simp only [load_stepItem]
      by_cases e : a.key = some k
      · simp [e]
      · simp [e, load]

/-- a map that only knows entries of the table becomes exactly the table's map after the fold -/
theorem weak_fold {m : List (String × Nat)} {t : Tab}
    (h : ∀ k, load m k = none ∨ load m k = load (mapFold [] 0 t) k) (k : String) :
    load (mapFold m 0 t) k = load (mapFold [] 0 t) k := by
  rw [load_mapFold]
  cases hc : load (mapFold [] 0 t) k with
  | some j => rfl
  | none =>
    rcases h k with h1 | h1
    · exact h1
    · rw [h1, hc]

structure Inv (st : St) : Prop where
  spillTab : st.spilled = true → st.table = none ∨ st.table = some (if st.inPkg then st.part else [])
  idx : ∀ x, st.index = some x → x = st.part.map (·.text)
  noPkg : st.spilled = false → st.inPkg = false → st.part = []
  mapStrong : st.spilled = false → ∀ t, st.table = some t → ∀ k, load st.map k = load (mapFold [] 0 t) k
  mapWeak : ∀ k, load st.map k = none ∨ load st.map k = load (mapFold [] 0 (abs st)) k

theorem Inv.init (part : Tab) (spilled inPkg : Bool) (h : spilled = false → inPkg = false → part = []) :
    Inv { part := part, spilled := spilled, inPkg := inPkg } := by
  refine ⟨fun _ => Or.inl rfl, ?_, h, ?_, fun k => Or.inl rfl⟩
  · intro x hx; simp at hx
  · intro _ t ht; simp at ht

/-! ### sharedStringsReader -/

theorem sstRead_table (st : St) : ∃ t, (sstRead st).table = some t := by
  unfold sstRead
  cases h : st.table with
  | some t => exact ⟨t, by simp [h]⟩
  | none => exact ⟨_, rfl⟩

theorem sstRead_frame (st : St) :
    (sstRead st).spilled = st.spilled ∧ (sstRead st).inPkg = st.inPkg ∧ (sstRead st).part = st.part ∧
    (sstRead st).index = st.index := by
  unfold sstRead
  cases st.table <;> exact ⟨rfl, rfl, rfl, rfl⟩

theorem rdTab_abs {st : St} (i : Inv st) (hs : st.spilled = false) (ht : st.table = none) : rdTab st = abs st := by
  unfold abs rdTab
  simp only [hs, ht, Bool.false_eq_true, if_false, Option.getD_none]
  cases hp : st.inPkg with
  | true => rfl
  | false => simp [i.noPkg hs hp]

theorem sstRead_none {st : St} (h : st.table = none) :
    sstRead st = { st with table := some (rdTab st), map := mapFold st.map 0 (rdTab st) } := by
  unfold sstRead; simp [h]

theorem sstRead_abs {st : St} (i : Inv st) : abs (sstRead st) = abs st := by
  cases h : st.table with
  | some t =>
    have : sstRead st = st := by unfold sstRead; simp [h]
    rw [this]
  | none =>
    rw [sstRead_none h]
    cases hs : st.spilled with
    | true => unfold abs; simp [hs]
    | false =>
      have := rdTab_abs i hs h
      unfold abs at this ⊢
      simp only [hs, Bool.false_eq_true, if_false, Option.getD_some]
      simpa [hs] using this

theorem sstRead_inv {st : St} (i : Inv st) : Inv (sstRead st) := by
  have ha := sstRead_abs i
  cases h : st.table with
  | some t =>
    have : sstRead st = st := by unfold sstRead; simp [h]
    rw [this]; exact i
  | none =>
    rw [sstRead_none h] at ha ⊢
    refine ⟨fun _ => Or.inr rfl, i.idx, i.noPkg, ?_, ?_⟩
    · intro hs t ht k
      have hs' : st.spilled = false := hs
      have ht' : rdTab st = t := by injection ht
      rw [← ht']
      show load (mapFold st.map 0 (rdTab st)) k = _
      apply weak_fold
      intro k'
      rw [rdTab_abs i hs' h]
      exact i.mapWeak k'
    · intro k
      rw [ha]
      show load (mapFold st.map 0 (rdTab st)) k = none ∨ _
      cases hs : st.spilled with
      | false =>
        right
        rw [rdTab_abs i hs h]
        exact weak_fold i.mapWeak k
      | true =>
        have habs : abs st = st.part := by unfold abs; simp [hs]
        unfold rdTab
        cases hp : st.inPkg with
        | false => simpa [mapFold] using i.mapWeak k
        | true =>
          right
          simp only [if_true]
          rw [habs]
          apply weak_fold
          intro k'
          rw [← habs]; exact i.mapWeak k'

/-! ### getValueFrom / getFromStringItem -/

/-- **the i-th string read does not depend on the tier, on the table object or on what was read
before**: in every reachable state it is the i-th item of the abstract table -/
theorem getStr_spec {st : St} (i : Inv st) (n : Nat) :
    (getStr (sstRead st) n).2 = ((abs st)[n]?.map (·.text)).getD (fallback n) := by
  have f := sstRead_frame st
  have ir := sstRead_inv i
  obtain ⟨t, ht⟩ := sstRead_table st
  have ha := sstRead_abs i
  unfold getStr
  cases hs : (sstRead st).spilled with
  | true =>
    simp only [if_true]
    have habs : abs st = st.part := by unfold abs; rw [← f.1, hs]; simp
    rw [habs]
    have hix : idxOf (sstRead st) = st.part.map (·.text) := by
      unfold idxOf
      cases hx : (sstRead st).index with
      | none => simp [f.2.2.1]
      | some x => rw [ir.idx x hx, f.2.2.1]
    rw [hix]
    simp [List.getElem?_map]
  | false =>
    simp only [Bool.false_eq_true, if_false, ht]
    have : abs (sstRead st) = t := by unfold abs; simp [hs, ht]
    rw [← ha, this]

theorem getStr_state {st : St} (i : Inv st) (n : Nat) :
    Inv (getStr st n).1 ∧ abs (getStr st n).1 = abs st := by
  by_cases hs : st.spilled = true
  · have e : (getStr st n).1 = { st with index := some (idxOf st) } := by
      unfold getStr; simp [hs]
    have habs : abs (getStr st n).1 = abs st := by rw [e]; unfold abs; simp [hs]
    refine ⟨⟨?_, ?_, ?_, ?_, ?_⟩, habs⟩
    · intro _; rw [e]; exact i.spillTab hs
    · intro x hx
      rw [e] at hx
      have hx' : some (idxOf st) = some x := hx
      injection hx' with hx'
      rw [e, ← hx']
      unfold idxOf
      cases hi : st.index with
      | none => rfl
      | some y => exact i.idx y hi
    · intro h; rw [e] at h; exact absurd (show st.spilled = false from h) (by simp [hs])
    · intro h; rw [e] at h; exact absurd (show st.spilled = false from h) (by simp [hs])
    · intro k
      rw [habs]
      have : (getStr st n).1.map = st.map := by rw [e]
      rw [this]; exact i.mapWeak k
  · have e : (getStr st n).1 = st := by unfold getStr; simp [hs]
    rw [e]; exact ⟨i, rfl⟩

/-! ### sharedStringsLoader -/

theorem sstLoad_spec {st : St} (i : Inv st) :
    Inv (sstLoad st) ∧ abs (sstLoad st) = abs st ∧ (sstLoad st).spilled = false ∧ (sstLoad st).index = none := by
  by_cases hs : st.spilled = true
  · have e : sstLoad st = { st with spilled := false, inPkg := true, table := none, index := none } := by
      unfold sstLoad; simp [hs]
    have habs : abs st = st.part := by unfold abs; simp [hs]
    have habs' : abs (sstLoad st) = st.part := by rw [e]; rfl
    refine ⟨⟨?_, ?_, ?_, ?_, ?_⟩, habs'.trans habs.symm, by rw [e], by rw [e]⟩
    · intro h; rw [e] at h; cases h
    · intro x hx; rw [e] at hx; cases hx
    · intro _ h; rw [e] at h; cases h
    · intro _ t ht; rw [e] at ht; cases ht
    · intro k
      rw [habs']
      have hm : (sstLoad st).map = st.map := by rw [e]
      rw [hm, ← habs]; exact i.mapWeak k
  · have hs' : st.spilled = false := by simpa using hs
    have e : sstLoad st = { st with index := none } := by
      unfold sstLoad; simp [hs']
    have habs' : abs (sstLoad st) = abs st := by rw [e]; rfl
    refine ⟨⟨?_, ?_, ?_, ?_, ?_⟩, habs', by rw [e]; exact hs', by rw [e]⟩
    · intro h; rw [e] at h; exact absurd (show st.spilled = true from h) hs
    · intro x hx; rw [e] at hx; cases hx
    · rw [e]; exact i.noPkg
    · rw [e]; exact i.mapStrong
    · intro k; rw [habs']; have hm : (sstLoad st).map = st.map := by rw [e]
      rw [hm]; exact i.mapWeak k

/-- loader then reader: the table is decoded from the real part, in memory -/
theorem loadRead_spec {st : St} (i : Inv st) :
    Inv (sstRead (sstLoad st)) ∧ abs (sstRead (sstLoad st)) = abs st ∧
    (sstRead (sstLoad st)).spilled = false ∧ (sstRead (sstLoad st)).index = none ∧
    (sstRead (sstLoad st)).table = some (abs st) := by
  have l := sstLoad_spec i
  have f := sstRead_frame (sstLoad st)
  have ir := sstRead_inv l.1
  have ha := (sstRead_abs l.1).trans l.2.1
  obtain ⟨t, ht⟩ := sstRead_table (sstLoad st)
  have hs : (sstRead (sstLoad st)).spilled = false := f.1.trans l.2.2.1
  refine ⟨ir, ha, hs, f.2.2.2.trans l.2.2.2, ?_⟩
  have : abs (sstRead (sstLoad st)) = t := by unfold abs; simp [hs, ht]
  rw [ht, ← ha, this]

/-! ### setSharedString -/

theorem setStr_spec {st : St} (i : Inv st) (key text : String) :
    Inv (setStr st key text).1 ∧
    abs (setStr st key text).1 = (Spec.step (abs st) (.set key text)).1 ∧
    Out.idx (setStr st key text).2 = (Spec.step (abs st) (.set key text)).2 := by
  obtain ⟨ir, ha, hs, hx, ht⟩ := loadRead_spec i
  have strong := ir.mapStrong hs (abs st) ht
  unfold setStr Spec.step Spec.find
  simp only []
  rw [strong key]
  cases hf : load (mapFold [] 0 (abs st)) key with
  | some j => exact ⟨ir, ha, rfl⟩
  | none =>
    simp only [ht]
    have habs' : abs (appendSt (sstRead (sstLoad st)) (abs st) key text) = abs st ++ [⟨some key, text⟩] := by
      unfold abs appendSt; simp [hs]
    have hstrong' : ∀ k, load (store (sstRead (sstLoad st)).map key (abs st).length) k =
        load (mapFold [] 0 (abs st ++ [⟨some key, text⟩])) k := by
      intro k
      rw [mapFold_append, load_stepItem, load_store, strong k]
      simp only [Nat.zero_add]
      by_cases e : k = key
      · subst e; simp
      · have : ¬ (some key = some k) := fun h => e (Option.some.inj h).symm
        simp [e, this]
    refine ⟨⟨?_, ?_, ?_, ?_, ?_⟩, habs', trivial⟩
    · intro h; exact absurd (show (sstRead (sstLoad st)).spilled = true from h) (by simp [hs])
    · intro x hx'; have : (sstRead (sstLoad st)).index = some x := hx'; rw [hx] at this; cases this
    · exact ir.noPkg
    · intro _ t ht' k
      have : some (abs st ++ [⟨some key, text⟩]) = some t := ht'
      injection this with this
      rw [← this]; exact hstrong' k
    · intro k; rw [habs']; exact Or.inr (hstrong' k)

/-! ### save -/

theorem save_spec {st : St} (i : Inv st) : Inv (save st) ∧ abs (save st) = abs st := by
  have l := sstLoad_spec i
  have hs := l.2.2.1
  by_cases hn : (sstLoad st).table = none
  · have e : save st = sstLoad st := by unfold save; simp [hn]
    rw [e]; exact ⟨l.1, l.2.1⟩
  · obtain ⟨t, ht⟩ := Option.ne_none_iff_exists'.1 hn
    have e : save st = savedSt (sstLoad st) t := by unfold save; simp [ht]
    have habs : abs (sstLoad st) = t := by unfold abs; simp [hs, ht]
    have habs' : abs (savedSt (sstLoad st) t) = t := by unfold abs savedSt; simp [hs, ht]
    rw [e]
    refine ⟨⟨?_, ?_, ?_, ?_, ?_⟩, habs'.trans (habs.symm.trans l.2.1)⟩
    · intro h; exact absurd (show (sstLoad st).spilled = true from h) (by simp [hs])
    · intro x hx; have : (sstLoad st).index = some x := hx; rw [l.2.2.2] at this; cases this
    · intro _ h; cases h
    · exact l.1.mapStrong
    · intro k; rw [habs', ← habs]; exact l.1.mapWeak k

/-! ### the refinement -/

theorem step_refines {st : St} (i : Inv st) (op : Op) :
    Inv (step st op).1 ∧ abs (step st op).1 = (Spec.step (abs st) op).1 ∧ (step st op).2 = (Spec.step (abs st) op).2 := by
  cases op with
  | read => exact ⟨sstRead_inv i, sstRead_abs i, rfl⟩
  | get n =>
    have g := getStr_state (sstRead_inv i) n
    refine ⟨g.1, g.2.trans (sstRead_abs i), ?_⟩
    show Out.str (getStr (sstRead st) n).2 = Out.str _
    rw [getStr_spec i n]
  | load =>
    have l := loadRead_spec i
    exact ⟨l.1, l.2.1, rfl⟩
  | set k t =>
    have s := setStr_spec i k t
    exact ⟨s.1, s.2.1, s.2.2⟩
  | save =>
    have s := save_spec i
    exact ⟨s.1, s.2, rfl⟩

theorem run_refines : ∀ (ops : List Op) {st : St}, Inv st →
    (run st ops).2 = (Spec.run (abs st) ops).2 ∧ abs (run st ops).1 = (Spec.run (abs st) ops).1 ∧ Inv (run st ops).1
  | [], _, i => ⟨rfl, rfl, i⟩
  | op :: r, st, i => by
    have s := step_refines i op
    have ih := run_refines r s.1
    unfold run Spec.run
    rw [s.2.1] at ih
    exact ⟨by rw [ih.1, s.2.2], ih.2.1, ih.2.2⟩

end XlModel.Sst
