/-
Helper lemmas for C12: association maps, the disk-accounting invariant `Inv`
(every file on disk is referenced by exactly one tempFiles entry), its
preservation by every modelled step, and what `Close` does under it.
-/
import XlModel.Store
import Mathlib.Data.List.Perm.Basic
import Mathlib.Data.List.Nodup

namespace XlModel.Store
open XlModel

namespace AMap
variable {κ α : Type} [DecidableEq κ]

theorem load_erase_self (m : AMap κ α) (k : κ) : load (erase m k) k = none := by
  induction m with
  | nil => rfl
  | cons p m ih =>
    obtain ⟨a, b⟩ := p
    by_cases h : a = k
    · simp [erase, h, ih]
    · simp [erase, load, h, ih]

theorem load_erase_ne (m : AMap κ α) {k n : κ} (h : n ≠ k) : load (erase m k) n = load m n := by
  induction m with
  | nil => rfl
  | cons p m ih =>
    obtain ⟨a, b⟩ := p
    by_cases h1 : a = k
    · subst h1
      have : ¬ a = n := fun e => h e.symm
      simp [erase, load, this, ih]
    · by_cases h2 : a = n
      · subst h2
        simp [erase, load, h1]
      · simp [erase, load, h1, h2, ih]

theorem load_store_self (m : AMap κ α) (k : κ) (v : α) : load (store m k v) k = some v := by
  simp [store, load]

theorem load_store_ne (m : AMap κ α) {k n : κ} (v : α) (h : n ≠ k) : load (store m k v) n = load m n := by
  have : ¬ k = n := fun e => h e.symm
  simp [store, load, this, load_erase_ne m h]

theorem load_store (m : AMap κ α) (k n : κ) (v : α) :
    load (store m k v) n = if n = k then some v else load m n := by
  by_cases h : n = k
  · subst h; simp [load_store_self]
  · simp [h, load_store_ne m v h]

theorem load_eq_none_iff (m : AMap κ α) (k : κ) : load m k = none ↔ k ∉ keys m := by
  induction m with
  | nil => simp [load, keys]
  | cons p m ih =>
    obtain ⟨a, b⟩ := p
    by_cases h : a = k
    · simp [load, keys, h]
    · have : ¬ k = a := fun e => h e.symm
      simp [load, keys, h, this] at ih ⊢
      exact ih

theorem mem_keys_of_load {m : AMap κ α} {k : κ} {v : α} (h : load m k = some v) : k ∈ keys m := by
  by_contra hc
  rw [← load_eq_none_iff] at hc
  rw [hc] at h; cases h

theorem has_iff (m : AMap κ α) (k : κ) : has m k = true ↔ k ∈ keys m := by
  unfold has
  constructor
  · intro h
    by_contra hc
    rw [← load_eq_none_iff] at hc
    simp [hc] at h
  · intro h
    cases hl : load m k with
    | none => rw [load_eq_none_iff] at hl; exact absurd h hl
    | some v => rfl

theorem erase_of_not_mem (m : AMap κ α) (k : κ) (h : k ∉ keys m) : erase m k = m := by
  induction m with
  | nil => rfl
  | cons p m ih =>
    obtain ⟨a, b⟩ := p
    simp [keys] at h
    have h1 : ¬ a = k := fun e => h.1 e.symm
    simp [erase, h1]
    exact ih (by simpa [keys] using h.2)

theorem erase_of_load_none (m : AMap κ α) (k : κ) (h : load m k = none) : erase m k = m :=
  erase_of_not_mem m k ((load_eq_none_iff m k).1 h)

theorem erase_sublist (m : AMap κ α) (k : κ) : List.Sublist (erase m k) m := by
  induction m with
  | nil => exact List.Sublist.slnil
  | cons p m ih =>
    obtain ⟨a, b⟩ := p
    by_cases h : a = k
    · simp [erase, h]; exact List.Sublist.cons _ (by simpa [h] using ih)
    · simp [erase, h]; exact ih

theorem nodup_keys_erase {m : AMap κ α} (k : κ) (h : (keys m).Nodup) : (keys (erase m k)).Nodup :=
  List.Nodup.sublist ((erase_sublist m k).map _) h

theorem not_mem_keys_erase (m : AMap κ α) (k : κ) : k ∉ keys (erase m k) := by
  rw [← load_eq_none_iff]; exact load_erase_self m k

theorem nodup_keys_store {m : AMap κ α} (k : κ) (v : α) (h : (keys m).Nodup) : (keys (store m k v)).Nodup := by
  simp only [store, keys, List.map_cons, List.nodup_cons]
  exact ⟨not_mem_keys_erase m k, nodup_keys_erase k h⟩

/-- with unique keys, a bound key can be split off -/
theorem perm_erase {m : AMap κ α} {k : κ} {v : α} (hn : (keys m).Nodup) (h : load m k = some v) :
    List.Perm m ((k, v) :: erase m k) := by
  induction m with
  | nil => cases h
  | cons p m ih =>
    obtain ⟨a, b⟩ := p
    simp only [keys, List.map_cons, List.nodup_cons] at hn
    by_cases h1 : a = k
    · subst h1
      simp [load] at h
      subst h
      have : erase m a = m := erase_of_not_mem m a hn.1
      simp [erase, this]
    · simp [load, h1] at h
      have := ih hn.2 h
      simp only [erase, h1, if_false]
      exact (List.Perm.cons _ this).trans (List.Perm.swap _ _ _)

theorem keys_perm_erase {m : AMap κ α} {k : κ} {v : α} (hn : (keys m).Nodup) (h : load m k = some v) :
    List.Perm (keys m) (k :: keys (erase m k)) := by
  have := (perm_erase hn h).map (·.1)
  simpa [keys] using this

theorem vals_perm_erase {m : AMap κ α} {k : κ} {v : α} (hn : (keys m).Nodup) (h : load m k = some v) :
    List.Perm (vals m) (v :: vals (erase m k)) := by
  have := (perm_erase hn h).map (·.2)
  simpa [vals] using this

theorem mem_vals_of_load {m : AMap κ α} {k : κ} {v : α} (h : load m k = some v) : v ∈ vals m := by
  induction m with
  | nil => cases h
  | cons p m ih =>
    obtain ⟨a, b⟩ := p
    by_cases h1 : a = k
    · simp [load, h1] at h; simp [vals, h]
    · simp [load, h1] at h; simp only [vals, List.map_cons, List.mem_cons]; right; exact ih h

/-- unique keys and unique values: a value determines its key -/
theorem load_inj {m : AMap κ α} {k k' : κ} {v : α} (hk : (keys m).Nodup) (hv : (vals m).Nodup)
    (h : load m k = some v) (h' : load m k' = some v) : k = k' := by
  by_contra hne
  have p := vals_perm_erase hk h
  have hv' : (v :: vals (erase m k)).Nodup := (List.Perm.nodup_iff p).1 hv
  have : load (erase m k) k' = some v := by rw [load_erase_ne m (fun e => hne e.symm)]; exact h'
  exact (List.nodup_cons.1 hv').1 (mem_vals_of_load this)

end AMap

end XlModel.Store
