import XlModel.Store
namespace XlModel.Store
end XlModel.Store
