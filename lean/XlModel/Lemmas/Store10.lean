/-
C12: the zip entry list written by writeToZip (Pkg branch + temp branch; stream parts are not modelled).
-/
import XlModel.Lemmas.Store9
import Mathlib.Data.List.Perm.Lattice

namespace XlModel.Store
open XlModel AMap

/-! ### lookups in association lists with unique keys -/

theorem keys_perm {α : Type} {l l' : AMap String α} (p : List.Perm l l') : List.Perm (keys l) (keys l') := by
  unfold keys; exact p.map _

theorem keys_map_pair (f : String → Blob) (ns : List String) : keys (ns.map fun n => (n, f n)) = ns := by
  induction ns with
  | nil => rfl
  | cons a r ih => simp only [keys, List.map_cons] at ih ⊢; rw [ih]

theorem keys_map_dummy (l : Map Nat) : keys (l.map fun p => (p.1, emptyBlob)) = keys l := by
  induction l with
  | nil => rfl
  | cons a r ih => simp only [keys, List.map_cons] at ih ⊢; rw [ih]


theorem mem_iff_load {m : Map Blob} (hn : (keys m).Nodup) (n : String) (v : Blob) :
    (n, v) ∈ m ↔ load m n = some v := by
  constructor
  · intro h
    induction m with
    | nil => cases h
    | cons p m ih =>
      obtain ⟨a, b⟩ := p
      simp only [keys, List.map_cons, List.nodup_cons] at hn
      rcases List.mem_cons.1 h with h | h
      · injection h with h1 h2; subst h1; subst h2; simp [load]
      · have hne : a ≠ n := by
          intro e; subst e
          exact hn.1 (by simp only [keys, List.mem_map]; exact ⟨(a, v), h, rfl⟩)
        simp only [load, hne, if_false]
        exact ih hn.2 h
  · exact mem_of_load

theorem load_perm {l l' : Map Blob} (p : List.Perm l l') (hn : (keys l).Nodup) (n : String) :
    load l n = load l' n := by
  have hn' : (keys l').Nodup := (List.Perm.nodup_iff (keys_perm p)).1 hn
  cases h : load l n with
  | some v =>
    have := (mem_iff_load hn n v).2 h
    exact ((mem_iff_load hn' n v).1 ((List.Perm.mem_iff p).1 this)).symm
  | none =>
    have h1 : n ∉ keys l := (load_eq_none_iff l n).1 h
    have h2 : n ∉ keys l' := fun hm => h1 ((List.Perm.mem_iff (keys_perm p)).2 hm)
    exact ((load_eq_none_iff l' n).2 h2).symm

theorem insertDesc_perm (x : String × Blob) : ∀ l, List.Perm (insertDesc x l) (x :: l)
  | [] => List.Perm.refl _
  | y :: r => by
    unfold insertDesc
    split
    · exact List.Perm.refl _
    · exact (List.Perm.cons y (insertDesc_perm x r)).trans (List.Perm.swap x y r)

theorem sortDesc_perm : ∀ l : List (String × Blob), List.Perm (sortDesc l) l
  | [] => List.Perm.refl _
  | x :: r => by
    have ih := sortDesc_perm r
    unfold sortDesc at ih ⊢
    simp only [List.foldr_cons]
    exact (insertDesc_perm x _).trans (List.Perm.cons x ih)

theorem load_append (a b : Map Blob) (n : String) :
    load (a ++ b) n = match load a n with | some v => some v | none => load b n := by
  induction a with
  | nil => rfl
  | cons p a ih =>
    obtain ⟨k, v⟩ := p
    by_cases e : k = n
    · simp [load, e]
    · simp [load, e, ih]

/-! ### Pkg keys stay unique -/

def PK (st : St) : Prop := (keys st.pkg).Nodup

theorem nodup_storeAll : ∀ (o : List (String × Blob)) {m : Map Blob}, (keys m).Nodup → (keys (storeAll m o)).Nodup
  | [], _, h => h
  | (n, b) :: r, _, h => nodup_storeAll r (nodup_keys_store n b h)

theorem nodup_wsWrite (w : Map Blob) : ∀ (ns : List String) {m : Map Blob}, (keys m).Nodup → (keys (wsWrite m w ns)).Nodup
  | [], _, h => h
  | n :: r, _, h => nodup_wsWrite w r (nodup_keys_store n _ h)

theorem readBytes_pk {st : St} (h : PK st) (n : String) : PK (readBytes st n).1 := by
  unfold readBytes PK
  dsimp only
  split
  · exact h
  · split
    · split
      · exact nodup_keys_store _ _ h
      · exact h
    · split
      · exact h
      · split
        · exact nodup_keys_store _ _ h
        · exact h

theorem zipTemp_pk : ∀ (ns : List String) {st : St}, PK st → PK (zipTemp st ns).1
  | [], _, h => h
  | n :: r, st, h => by
    have hf : Facts.C12.zipTempBranchViaReadBytes = true := by decide
    unfold zipTemp
    simp only [hf, if_true]
    exact zipTemp_pk r (readBytes_pk h n)

theorem sstLoad2_pkg (st : St) : (sstLoad2 st).pkg = st.pkg := by
  unfold sstLoad2
  cases st.sstTemp <;> rfl

theorem sstLoad_pk {st : St} (i : Inv st) (h : PK st) : PK (sstLoad st) := by
  cases ht : load st.temp Facts.C12.sstPath with
  | none =>
    have : sstLoad st = sstLoad2 st := by unfold sstLoad; simp only [ht]
    unfold PK; rw [this, sstLoad2_pkg]; exact h
  | some id =>
    unfold PK
    rw [sstLoad_eq_mid i ht, sstLoad2_pkg]
    exact nodup_keys_store _ _ (readBytes_pk h _)

/-- the state in which writeToZip lists the parts: after all writers -/
def saveMid (st : St) (w : Map Blob) (s : Blob) (o : Map Blob) : St :=
  saveCall w s (saveCall w s (saveCall w s { st with pkg := storeAll st.pkg o } "workSheetWriter") "sharedStringsLoader") "sharedStringsWriter"

theorem save_eq (st : St) (w : Map Blob) (s : Blob) (o : Map Blob) :
    save st w s o =
      ((zipTemp (saveMid st w s o) ((sortDesc (((saveMid st w s o).temp.filter fun p => !((saveMid st w s o).pkg.has p.1)).map
          fun p => (p.1, emptyBlob))).map (·.1))).1,
       sortDesc (saveMid st w s o).pkg ++
        (zipTemp (saveMid st w s o) ((sortDesc (((saveMid st w s o).temp.filter fun p => !((saveMid st w s o).pkg.has p.1)).map
          fun p => (p.1, emptyBlob))).map (·.1))).2) := by
  unfold save saveMid
  simp only [saveOrder_fold]

theorem saveMid_spec {st : St} (i : Inv st) (h : PK st) (w : Map Blob) (s : Blob) (o : Map Blob) :
    Inv (saveMid st w s o) ∧ PK (saveMid st w s o) := by
  unfold saveMid
  rw [saveCall_ws, saveCall_loader, saveCall_writer]
  have i1 : Inv { st with pkg := wsWrite (storeAll st.pkg o) w st.loaded, loaded := [] } := i.frame rfl rfl rfl rfl
  have p1 : PK { st with pkg := wsWrite (storeAll st.pkg o) w st.loaded, loaded := [] } :=
    nodup_wsWrite w _ (nodup_storeAll o h)
  have i2 := sstLoad_inv i1
  have p2 := sstLoad_pk i1 p1
  split
  · exact ⟨i2.frame rfl rfl rfl rfl, nodup_keys_store _ _ p2⟩
  · exact ⟨i2, p2⟩

/-! ### the temp branch -/

/-- names written by the temp branch: spilled and not in Pkg -/
def tnamesOf (st : St) : List String :=
  (sortDesc ((st.temp.filter fun p => !(st.pkg.has p.1)).map fun p => (p.1, emptyBlob))).map (·.1)

theorem tnames_perm (st : St) :
    List.Perm (tnamesOf st) (keys (st.temp.filter fun p => !(st.pkg.has p.1))) := by
  have h := keys_perm (sortDesc_perm ((st.temp.filter fun p => !(st.pkg.has p.1)).map fun p => (p.1, emptyBlob)))
  rw [keys_map_dummy] at h
  exact h

theorem tnames_nodup {st : St} (i : Inv st) : (tnamesOf st).Nodup := by
  rw [List.Perm.nodup_iff (tnames_perm st)]
  exact List.Nodup.sublist (by unfold keys; exact (List.filter_sublist).map _) i.core.tk

theorem mem_tnames {st : St} (n : String) :
    n ∈ tnamesOf st ↔ n ∈ keys st.temp ∧ load st.pkg n = none := by
  rw [List.Perm.mem_iff (tnames_perm st)]
  simp only [keys, List.mem_map, List.mem_filter]
  constructor
  · rintro ⟨p, ⟨hp, hh⟩, rfl⟩
    refine ⟨⟨p, hp, rfl⟩, ?_⟩
    cases hl : load st.pkg p.1 with
    | none => rfl
    | some v => simp [has, hl] at hh
  · rintro ⟨⟨p, hp, rfl⟩, hl⟩
    exact ⟨p, ⟨hp, by simp [has, hl]⟩, rfl⟩

/-- what the temp branch writes: for each of its names the bytes of the temp file -/
theorem zipTemp_out : ∀ (ns : List String) {st : St}, Inv st → (∀ n ∈ ns, (load st.temp n).isSome = true) →
    (zipTemp st ns).2 = ns.map fun n => (n, (absAt st n).getD emptyBlob)
  | [], _, _, _ => rfl
  | n :: r, st, i, h => by
    have hf : Facts.C12.zipTempBranchViaReadBytes = true := by decide
    have f := readBytes_frame st n
    have rb := readBytes_spec i n
    have hs : (load st.temp n).isSome = true := h n (by simp)
    have habs : ∀ n', absAt (readBytes st n).1 n' = absAt st n' := by
      intro n'
      rw [rb.1 n']
      cases ht : load st.temp n with
      | none => rw [ht] at hs; cases hs
      | some id =>
        obtain ⟨t, _, hr⟩ := rt_some_of_spilled i ht
        have : absAt st n ≠ none := by
          rw [absAt_eq, hr]
          cases load st.pkg n with
          | none => simp [absOf]
          | some b => by_cases hb : b.len = 0 <;> simp [absOf, hb]
        simp [this]
    have ih := zipTemp_out r (readBytes_inv i n) (fun x hx => by rw [f.1]; exact h x (by simp [hx]))
    unfold zipTemp
    simp only [hf, if_true, List.map_cons]
    rw [ih, rb.2]
    congr 1
    apply List.map_congr_left
    intro x _
    rw [habs x]

/-! ### the listing -/

/-- file.go writeToZip, structure of the listing: **no duplicate entry names**, and every name is looked up
first in Pkg, else (spilled only) in its temp file -/
theorem save_zip_struct {st : St} (i : Inv st) (h : PK st) (w : Map Blob) (s : Blob) (o : Map Blob) :
    (keys (save st w s o).2).Nodup ∧
    ∀ n, load (save st w s o).2 n =
      match load (saveMid st w s o).pkg n with
      | some b => some b
      | none => if n ∈ keys (saveMid st w s o).temp then some ((absAt (saveMid st w s o) n).getD emptyBlob) else none := by
  obtain ⟨im, pm⟩ := saveMid_spec i h w s o
  have hsp : ∀ n ∈ tnamesOf (saveMid st w s o), (load (saveMid st w s o).temp n).isSome = true := by
    intro n hn
    have := ((mem_tnames n).1 hn).1
    cases hl : load (saveMid st w s o).temp n with
    | some v => rfl
    | none => exact absurd this ((load_eq_none_iff _ _).1 hl)
  have hz : (save st w s o).2 = sortDesc (saveMid st w s o).pkg ++
      (tnamesOf (saveMid st w s o)).map fun n => (n, (absAt (saveMid st w s o) n).getD emptyBlob) := by
    rw [save_eq]
    show sortDesc (saveMid st w s o).pkg ++ (zipTemp (saveMid st w s o) (tnamesOf (saveMid st w s o))).2 = _
    rw [zipTemp_out _ im hsp]
  have hk2 : keys ((tnamesOf (saveMid st w s o)).map fun n => (n, (absAt (saveMid st w s o) n).getD emptyBlob)) =
      tnamesOf (saveMid st w s o) := keys_map_pair _ _
  have hk1 : List.Perm (keys (sortDesc (saveMid st w s o).pkg)) (keys (saveMid st w s o).pkg) :=
    keys_perm (sortDesc_perm _)
  have hkz : keys (sortDesc (saveMid st w s o).pkg ++
      (tnamesOf (saveMid st w s o)).map fun n => (n, (absAt (saveMid st w s o) n).getD emptyBlob)) =
      keys (sortDesc (saveMid st w s o).pkg) ++ tnamesOf (saveMid st w s o) := by
    have : ∀ (a b : Map Blob), keys (a ++ b) = keys a ++ keys b := fun a b => by unfold keys; exact List.map_append
    rw [this, hk2]
  constructor
  · rw [hz, hkz, List.nodup_append]
    refine ⟨(List.Perm.nodup_iff hk1).2 pm, tnames_nodup im, ?_⟩
    intro a ha b hb e
    subst e
    have ha' : a ∈ keys (saveMid st w s o).pkg := (List.Perm.mem_iff hk1).1 ha
    exact ((load_eq_none_iff _ _).1 ((mem_tnames a).1 hb).2) ha'
  · intro n
    rw [hz, load_append, load_perm (sortDesc_perm _) ((List.Perm.nodup_iff hk1).2 pm)]
    cases hp : load (saveMid st w s o).pkg n with
    | some b => rfl
    | none =>
      simp only []
      by_cases hm : n ∈ keys (saveMid st w s o).temp
      · simp only [hm, if_true]
        have hn : n ∈ tnamesOf (saveMid st w s o) := (mem_tnames n).2 ⟨hm, hp⟩
        have hnd : (keys ((tnamesOf (saveMid st w s o)).map fun n => (n, (absAt (saveMid st w s o) n).getD emptyBlob))).Nodup := by
          rw [hk2]; exact tnames_nodup im
        exact (mem_iff_load hnd n _).1 (List.mem_map.2 ⟨n, hn, rfl⟩)
      · simp only [hm, if_false]
        apply (load_eq_none_iff _ _).2
        rw [hk2]
        exact fun hn => hm ((mem_tnames n).1 hn).1

end XlModel.Store
