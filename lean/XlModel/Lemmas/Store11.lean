/-
C12: the zip listing of a saved package against the plain map; Pkg keys stay unique along every history.
-/
import XlModel.Lemmas.Store10

namespace XlModel.Store
open XlModel AMap

/-- the state in which writeToZip lists the parts is in the refinement relation with the plain map after the save -/
theorem R_saveMid {st : St} {sp : Spec.S} (r : R st sp) (w : Map Blob) (s : Blob) (o : Map Blob)
    (a : Adm sp (.save w s o)) : R (saveMid st w s o) (Spec.step sp (.save w s o)).1 := by
  obtain ⟨nw, no, hs, law⟩ := a
  have r0 := R_storeAll r no
  have r1 := R_wsWrite r0 nw
  have r2 := R_sstLoad r1
  have r3 := R_sstWrite r2 hs (by
    intro hd b hb
    exact law hd b hb)
  unfold saveMid
  rw [saveCall_ws, saveCall_loader, saveCall_writer]
  exact r3

/-! ### Pkg keys stay unique -/

theorem sstItem_pkg (st : St) (flat : Blob) : (sstItem st flat).pkg = st.pkg := by
  unfold sstItem
  split
  · cases st.sstTemp <;> rfl
  · rfl

theorem forget_pk {st : St} (h : PK st) (n rels : String) : PK (forget st n rels) := by
  unfold PK
  cases ht : load st.temp n with
  | none => rw [forget_none rels ht]; exact nodup_keys_erase _ (nodup_keys_erase _ h)
  | some id => rw [forget_some rels ht]; exact nodup_keys_erase _ (nodup_keys_erase _ h)

theorem step_pk {st : St} (i : Inv st) (h : PK st) (op : Op) : PK (step st op).1 := by
  cases op with
  | readBytes n => exact readBytes_pk h n
  | wsRead n => exact readBytes_pk h n
  | flush n ser =>
    show PK (if n ∈ st.loaded then { st with pkg := st.pkg.store n ser } else st)
    split
    · exact nodup_keys_store _ _ h
    · exact h
  | stream n => exact h
  | sstRead => exact h
  | sstItem flat => show PK (sstItem st flat); unfold PK; rw [sstItem_pkg]; exact h
  | sstLoad => exact sstLoad_pk i h
  | sstSet => exact sstLoad_pk i h
  | save w s o =>
    show PK (save st w s o).1
    rw [save_eq]
    exact zipTemp_pk _ (saveMid_spec i h w s o).2
  | forget n rels => exact forget_pk h n rels

theorem run_pk : ∀ (ops : List Op) {st : St}, Inv st → PK st → PK (run st ops).1
  | [], _, _, h => h
  | op :: r, st, i, h => by
    unfold run
    simp only []
    exact run_pk r (step_inv i op) (step_pk i h op)

theorem dropPart_pk {st : St} (h : PK st) (n : String) : PK (dropPart st n) := by
  unfold dropPart PK
  split <;> exact nodup_keys_erase _ h

theorem spillStep_pkg (l : Limits) (st : St) (n : String) (e : Entry) : (spillStep l st n e).1.pkg = st.pkg := by
  rcases spillStep_cases l st n e with hc | hc <;> rw [hc]
  rfl

theorem readFileInto_pk {st st2 : St} (h : PK st) {n : String} {e : Entry}
    (hr : readFileInto st n e = .inl (some st2)) : PK st2 := by
  unfold readFileInto at hr
  split at hr
  · cases hr
  · split at hr
    · cases hr
    · injection hr with hr; injection hr with hr; subst hr; exact nodup_keys_store _ _ h

theorem readZip_pk (l : Limits) : ∀ (es : List Entry) (st : St) (t : Int) (ws : Nat), PK st →
    PK (readZip l st t ws es).st
  | [], st, t, ws, h => by simpa [readZip, ZRes.st] using h
  | e :: rest, st, t, ws, h => by
    have hf : Facts.C12.dupReplaces = true := by decide
    unfold readZip
    simp only [hf, if_true]
    split
    · simpa [ZRes.st] using h
    · have s : PK (spillStep l (dropPart st (normName e.name)) (normName e.name) e).1 := by
        unfold PK; rw [spillStep_pkg]; exact dropPart_pk h _
      split
      · exact readZip_pk l rest _ _ _ s
      · split
        · simpa [ZRes.st] using s
        · simpa [ZRes.st] using s
        · rename_i st2 h2
          exact readZip_pk l rest _ _ _ (readFileInto_pk s h2)

end XlModel.Store
