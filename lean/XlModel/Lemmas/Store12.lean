/-
C12: `NoStaleEmpty` is an invariant of every reachable state, which makes the zip-listing refinement unconditional.
-/
import XlModel.Lemmas.Store11

namespace XlModel.Store
open XlModel AMap

/-- no part (the index key is not a part) is held as an *empty* Pkg entry while a temp file with other bytes exists for it -/
def NSE (st : St) : Prop :=
  ∀ n, n ≠ sstKey → ∀ b c, load st.pkg n = some b → b.len = 0 → rtOf st.temp st.disk n = some c → c = b

/-! ### generic preservation lemmas -/

theorem nse_pkg_store {st st' : St} (h : NSE st) {n : String} {v : Blob}
    (hp : st'.pkg = store st.pkg n v) (ht : st'.temp = st.temp) (hd : st'.disk = st.disk)
    (hv : v.len = 0 → ∀ c, rtOf st.temp st.disk n = some c → c = v) : NSE st' := by
  intro k hk b c hb hl hr
  rw [hp, load_store] at hb
  rw [ht, hd] at hr
  by_cases e : k = n
  · subst e
    simp only [if_true] at hb
    injection hb with hb
    subst hb
    exact hv hl c hr
  · simp only [e, if_false] at hb
    exact h k hk b c hb hl hr

theorem nse_pkg_sub {st st' : St} (h : NSE st)
    (hp : ∀ k b, load st'.pkg k = some b → load st.pkg k = some b)
    (hr : ∀ k c, k ≠ sstKey → rtOf st'.temp st'.disk k = some c → rtOf st.temp st.disk k = some c) : NSE st' :=
  fun k hk b c hb hl hc => h k hk b c (hp k b hb) hl (hr k c hk hc)

theorem nse_frame {st st' : St} (h : NSE st) (hp : st'.pkg = st.pkg) (ht : st'.temp = st.temp) (hd : st'.disk = st.disk) :
    NSE st' := by
  intro k hk b c hb hl hr
  rw [hp] at hb; rw [ht, hd] at hr
  exact h k hk b c hb hl hr

/-! ### primitive steps -/

theorem readBytes_nse {st : St} (i : Inv st) (h : NSE st) (n : String) : NSE (readBytes st n).1 := by
  have hf : Facts.C12.readBytesPromotes = true := by decide
  unfold readBytes readXML
  cases hp : load st.pkg n with
  | some b =>
    by_cases hb : b.len = 0
    · cases ht : load st.temp n with
      | none =>
        simp only [Option.getD_some, hb, ne_eq, not_true_eq_false, if_false, hf, if_true]
        refine nse_pkg_store (st := st) h rfl rfl rfl ?_
        intro _ c hc
        unfold rtOf at hc; rw [ht] at hc; cases hc
      | some id =>
        obtain ⟨t, hd, hr⟩ := rt_some_of_spilled i ht
        simp only [Option.getD_some, hb, ne_eq, not_true_eq_false, if_false, hf, if_true, hd]
        refine nse_pkg_store (st := st) h rfl rfl rfl ?_
        intro _ c hc
        rw [hr] at hc; injection hc with hc; exact hc.symm
    · simp only [Option.getD_some, ne_eq, hb, not_false_eq_true, if_true]
      exact h
  | none =>
    have he : emptyBlob.len = 0 := rfl
    cases ht : load st.temp n with
    | none =>
      simp only [Option.getD_none, he, ne_eq, not_true_eq_false, if_false, hf, if_true]
      refine nse_pkg_store (st := st) h rfl rfl rfl ?_
      intro _ c hc
      unfold rtOf at hc; rw [ht] at hc; cases hc
    | some id =>
      obtain ⟨t, hd, hr⟩ := rt_some_of_spilled i ht
      simp only [Option.getD_none, he, ne_eq, not_true_eq_false, if_false, hf, if_true, hd]
      refine nse_pkg_store (st := st) h rfl rfl rfl ?_
      intro _ c hc
      rw [hr] at hc; injection hc with hc; exact hc.symm

theorem nse_store_nonempty {st st' : St} (h : NSE st) {n : String} {v : Blob} (hv : v.len ≠ 0)
    (hp : st'.pkg = store st.pkg n v) (ht : st'.temp = st.temp) (hd : st'.disk = st.disk) : NSE st' :=
  nse_pkg_store h hp ht hd (fun e => absurd e hv)

theorem storeAll_nse : ∀ (o : List (String × Blob)) (st : St), NSE st → NonEmpty o →
    NSE { st with pkg := storeAll st.pkg o }
  | [], _, h, _ => h
  | (n, b) :: r, st, h, ne =>
    storeAll_nse r { st with pkg := store st.pkg n b }
      (nse_store_nonempty h (ne (n, b) (by simp)) rfl rfl rfl) (fun p hp => ne p (by simp [hp]))

theorem wsWrite_nse (w : Map Blob) (ne : NonEmpty w) : ∀ (ns : List String) (st : St), NSE st →
    NSE { st with pkg := wsWrite st.pkg w ns }
  | [], _, h => h
  | n :: r, st, h =>
    wsWrite_nse w ne r { st with pkg := store st.pkg n ((load w n).getD ⟨"unserialised", 1⟩) }
      (nse_store_nonempty h (wsBlob_nonempty ne n) rfl rfl rfl)

theorem sstItem_nse {st : St} (i : Inv st) (h : NSE st) (flat : Blob) : NSE (sstItem st flat) := by
  unfold sstItem
  split
  · cases hs : st.sstTemp with
    | some id => exact h
    | none =>
      simp only []
      refine nse_pkg_sub h (fun _ _ hb => hb) ?_
      intro k c hk hc
      have hc' : rtOf (store st.temp Facts.C12.sstTempKey st.next) (store st.disk st.next flat) k = some c := hc
      have := rt_add i.core flat (i.sst0 hs) k
      unfold sstKey at this hk
      rw [this] at hc'
      simpa [hk] using hc'
  · exact h

theorem sstLoad2_nse {st : St} (i : Inv st) (h : NSE st) : NSE (sstLoad2 st) := by
  unfold sstLoad2
  cases hs : st.sstTemp with
  | none => exact h
  | some id =>
    simp only []
    refine nse_pkg_sub h (fun _ _ hb => hb) ?_
    intro k c hk hc
    have hc' : rtOf (erase st.temp Facts.C12.sstTempKey) (erase st.disk id) k = some c := hc
    rcases i.sst1 id hs with hl | ⟨hn, hd⟩
    · have := rt_remove i.core hl k
      unfold sstKey at this hk
      rw [this] at hc'
      simpa [hk] using hc'
    · have e1 : erase st.temp Facts.C12.sstTempKey = st.temp := erase_of_load_none _ _ hn
      rw [e1, erase_of_not_mem _ _ hd] at hc'
      exact hc'

theorem sstLoadMid_nse {st : St} (i : Inv st) (h : NSE st) {id : Nat} (ht : load st.temp Facts.C12.sstPath = some id) :
    NSE (sstLoadMid st id) := by
  have f := readBytes_frame st Facts.C12.sstPath
  have h1 := readBytes_nse i h Facts.C12.sstPath
  intro k hk b c hb hl hc
  have hb' : load (store (readBytes st Facts.C12.sstPath).1.pkg Facts.C12.sstPath (readBytes st Facts.C12.sstPath).2) k = some b := hb
  have hc' : rtOf (erase st.temp Facts.C12.sstPath) (erase st.disk id) k = some c := hc
  rw [rt_remove i.core ht] at hc'
  by_cases e : k = Facts.C12.sstPath
  · simp [e] at hc'
  · simp only [e, if_false] at hc'
    rw [load_store_ne _ _ e] at hb'
    have hc2 : rtOf (readBytes st Facts.C12.sstPath).1.temp (readBytes st Facts.C12.sstPath).1.disk k = some c := by
      rw [f.1, f.2.1]; exact hc'
    exact h1 k hk b c hb' hl hc2

theorem sstLoad_nse {st : St} (i : Inv st) (h : NSE st) : NSE (sstLoad st) := by
  cases ht : load st.temp Facts.C12.sstPath with
  | none =>
    have : sstLoad st = sstLoad2 st := by unfold sstLoad; simp only [ht]
    rw [this]; exact sstLoad2_nse i h
  | some id =>
    rw [sstLoad_eq_mid i ht]
    exact sstLoad2_nse (sstLoadMid_inv i ht) (sstLoadMid_nse i h ht)

theorem forget_nse {st : St} (i : Inv st) (h : NSE st) (n rels : String) : NSE (forget st n rels) := by
  have sub : ∀ k b, load ((st.pkg.erase n).erase rels) k = some b → load st.pkg k = some b := by
    intro k b hb
    rw [load_erase2] at hb
    split at hb
    · cases hb
    · exact hb
  cases ht : load st.temp n with
  | none =>
    rw [forget_none rels ht]
    exact nse_pkg_sub h sub (fun _ _ _ hc => hc)
  | some id =>
    rw [forget_some rels ht]
    refine nse_pkg_sub h sub ?_
    intro k c _ hc
    have hc' : rtOf (erase st.temp n) (erase st.disk id) k = some c := hc
    rw [rt_remove i.core ht] at hc'
    split at hc'
    · cases hc'
    · exact hc'

theorem zipTemp_nse : ∀ (ns : List String) {st : St}, Inv st → NSE st → NSE (zipTemp st ns).1
  | [], _, _, h => h
  | n :: r, st, i, h => by
    have hf : Facts.C12.zipTempBranchViaReadBytes = true := by decide
    unfold zipTemp
    simp only [hf, if_true]
    exact zipTemp_nse r (readBytes_inv i n) (readBytes_nse i h n)

theorem saveMid_inv {st : St} (i : Inv st) (w : Map Blob) (s : Blob) (o : Map Blob) : Inv (saveMid st w s o) := by
  unfold saveMid
  rw [saveCall_ws, saveCall_loader, saveCall_writer]
  have i1 : Inv { st with pkg := wsWrite (storeAll st.pkg o) w st.loaded, loaded := [] } := i.frame rfl rfl rfl rfl
  have i2 := sstLoad_inv i1
  split
  · exact i2.frame rfl rfl rfl rfl
  · exact i2

/-- the listing state of a save keeps the invariant -/
theorem saveMid_nse {st : St} (i : Inv st) (h : NSE st) (w : Map Blob) (s : Blob) (o : Map Blob)
    (nw : NonEmpty w) (no : NonEmpty o) (hs : s.len ≠ 0) : NSE (saveMid st w s o) := by
  unfold saveMid
  rw [saveCall_ws, saveCall_loader, saveCall_writer]
  have h0 := storeAll_nse o st h no
  have h1 : NSE { st with pkg := wsWrite (storeAll st.pkg o) w st.loaded, loaded := [] } :=
    nse_frame (wsWrite_nse w nw st.loaded { st with pkg := storeAll st.pkg o } h0) rfl rfl rfl
  have i1 : Inv { st with pkg := wsWrite (storeAll st.pkg o) w st.loaded, loaded := [] } := i.frame rfl rfl rfl rfl
  have h2 := sstLoad_nse i1 h1
  split
  · exact nse_store_nonempty h2 hs rfl rfl rfl
  · exact h2

theorem step_nse {st : St} {sp : Spec.S} (i : Inv st) (h : NSE st) (op : Op) (a : Adm sp op) : NSE (step st op).1 := by
  cases op with
  | readBytes n => exact readBytes_nse i h n
  | wsRead n => exact nse_frame (readBytes_nse i h n) rfl rfl rfl
  | flush n ser =>
    have hs : ser.len ≠ 0 := a
    show NSE (if n ∈ st.loaded then { st with pkg := st.pkg.store n ser } else st)
    split
    · exact nse_store_nonempty h hs rfl rfl rfl
    · exact h
  | stream n => exact h
  | sstRead => exact nse_frame h rfl rfl rfl
  | sstItem flat => exact sstItem_nse i h flat
  | sstLoad => exact sstLoad_nse i h
  | sstSet => exact nse_frame (sstLoad_nse i h) rfl rfl rfl
  | save w s o =>
    obtain ⟨nw, no, hs, _⟩ := a
    show NSE (save st w s o).1
    rw [save_eq]
    exact zipTemp_nse _ (saveMid_inv i w s o) (saveMid_nse i h w s o nw no hs)
  | forget n rels => exact forget_nse i h n rels

theorem run_nse : ∀ (ops : List Op) {st : St} {sp : Spec.S}, Inv st → NSE st → AdmAll sp ops → NSE (run st ops).1
  | [], _, _, _, h, _ => h
  | op :: r, st, sp, i, h, a => by
    unfold run
    simp only []
    exact run_nse r (step_inv i op) (step_nse i h op a.1) a.2

/-! ### after open -/

theorem dropPart_nse {st : St} (i : Inv0 st) (h : NSE st) (n : String) : NSE (dropPart st n) := by
  have sub : ∀ k b, load (st.pkg.erase n) k = some b → load st.pkg k = some b := by
    intro k b hb
    by_cases e : k = n
    · subst e; rw [load_erase_self] at hb; cases hb
    · rwa [load_erase_ne _ e] at hb
  unfold dropPart
  cases ht : load st.temp n with
  | none => exact nse_pkg_sub h sub (fun _ _ _ hc => hc)
  | some id =>
    refine nse_pkg_sub h sub ?_
    intro k c _ hc
    have hc' : rtOf (erase st.temp n) (erase st.disk id) k = some c := hc
    rw [rt_remove i.inv.core ht] at hc'
    split at hc'
    · cases hc'
    · exact hc'

theorem spillOne_nse {st : St} (i : Inv0 st) (h : NSE st) {n : String} (e : Entry)
    (ht : load st.temp n = none) (hp : load st.pkg n = none) :
    NSE (spillOne st n e).1 ∧ rtOf (spillOne st n e).1.temp (spillOne st n e).1.disk n = some (spillBody e) := by
  have hrt : ∀ k, rtOf (spillOne st n e).1.temp (spillOne st n e).1.disk k =
      if k = n then some (spillBody e) else rtOf st.temp st.disk k := by
    intro k
    show rtOf (store st.temp n st.next) (store st.disk st.next (spillBody e)) k = _
    exact rt_add i.inv.core _ ht k
  refine ⟨?_, by rw [hrt]; simp⟩
  intro k hk b c hb hl hc
  have hb' : load st.pkg k = some b := hb
  rw [hrt] at hc
  by_cases e' : k = n
  · subst e'; rw [hp] at hb'; cases hb'
  · simp only [e', if_false] at hc
    exact h k hk b c hb' hl hc

/-- after the drop and the spill decision of one entry -/
theorem entry_nse {l : Limits} {st : St} (i : Inv0 st) (h : NSE st) (e : Entry) :
    NSE (spillStep l (dropPart st (normName e.name)) (normName e.name) e).1 ∧
    ∀ c, rtOf (spillStep l (dropPart st (normName e.name)) (normName e.name) e).1.temp
           (spillStep l (dropPart st (normName e.name)) (normName e.name) e).1.disk (normName e.name) = some c →
         c = spillBody e := by
  have d := dropPart_inv0 i (normName e.name)
  have hd := dropPart_nse i h (normName e.name)
  have hp0 : load (dropPart st (normName e.name)).pkg (normName e.name) = none := by
    unfold dropPart
    split <;> exact load_erase_self _ _
  rcases spillStep_cases l (dropPart st (normName e.name)) (normName e.name) e with hc | hc
  · rw [hc]
    refine ⟨hd, ?_⟩
    intro c hr
    have : rtOf (dropPart st (normName e.name)).temp (dropPart st (normName e.name)).disk (normName e.name) = none := by
      unfold rtOf; rw [d.2]
    have e2 : (none : Option Blob) = some c := this.symm.trans hr
    cases e2
  · rw [hc]
    have s := spillOne_nse d.1 hd e d.2 hp0
    refine ⟨s.1, ?_⟩
    intro c hr
    have e2 : some (spillBody e) = some c := s.2.symm.trans hr
    exact (Option.some.inj e2).symm

/-- reading an entry into memory after the spill decision -/
theorem readFileInto_nse {r : St} {n : String} {e : Entry} {st2 : St} (h : NSE r)
    (hrt : ∀ c, rtOf r.temp r.disk n = some c → c = spillBody e)
    (h2 : readFileInto r n e = .inl (some st2)) : NSE st2 := by
  unfold readFileInto at h2
  split at h2
  · cases h2
  · rename_i hio
    split at h2
    · cases h2
    · injection h2 with h2; injection h2 with h2; subst h2
      refine nse_pkg_store h rfl rfl rfl ?_
      intro _ c hc
      rw [hrt c hc]
      unfold spillBody
      cases hio' : e.io <;> simp_all

theorem readZip_nse (l : Limits) : ∀ (es : List Entry) (st : St) (t : Int) (ws : Nat), Inv0 st → NSE st →
    NSE (readZip l st t ws es).st
  | [], st, t, ws, _, h => by simpa [readZip, ZRes.st] using h
  | e :: rest, st, t, ws, i, h => by
    have hf : Facts.C12.dupReplaces = true := by decide
    have d := dropPart_inv0 i (normName e.name)
    have si := spillStep_inv0 d.1 l e d.2
    have en := entry_nse (l := l) i h e
    rw [readZip_cons]
    simp only [hf, if_true]
    generalize spillStep l (dropPart st (normName e.name)) (normName e.name) e = r at si en
    split
    · simpa [ZRes.st] using h
    · split
      · exact readZip_nse l rest _ _ _ si en.1
      · split
        · simpa [ZRes.st] using en.1
        · simpa [ZRes.st] using en.1
        · rename_i st2 h2
          exact readZip_nse l rest _ _ _ (readFileInto_inv0 si h2) (readFileInto_nse en.1 en.2 h2)

/-- the zip listing against the plain map, with the invariant instead of a hypothesis -/
theorem save_zip_refines {st : St} {sp : Spec.S} (r : R st sp) (h : PK st) (ns : NSE st) (w : Map Blob) (s : Blob)
    (o : Map Blob) (a : Adm sp (.save w s o)) (n : String) (hn : n ≠ sstKey) :
    load (save st w s o).2 n = load (Spec.step sp (.save w s o)).1.m n := by
  have ne := saveMid_nse r.inv ns w s o a.1 a.2.1 a.2.2.1
  have rm := R_saveMid r w s o a
  rw [(save_zip_struct r.inv h w s o).2 n, ← rm.abs n hn, absAt_eq]
  cases hp : load (saveMid st w s o).pkg n with
  | some b =>
    by_cases hb : b.len = 0
    · cases hr : rtOf (saveMid st w s o).temp (saveMid st w s o).disk n with
      | none => simp [absOf, hb]
      | some c => rw [ne n hn b c hp hb hr]; simp [absOf, hb]
    · simp [absOf, hb]
  | none =>
    simp only [absOf]
    by_cases hm : n ∈ keys (saveMid st w s o).temp
    · simp only [hm, if_true]
      cases hl : load (saveMid st w s o).temp n with
      | none => exact absurd hm ((load_eq_none_iff _ _).1 hl)
      | some id =>
        obtain ⟨t, _, hr⟩ := rt_some_of_spilled rm.inv hl
        rw [hr]; rfl
    · simp only [hm, if_false]
      have : load (saveMid st w s o).temp n = none := (load_eq_none_iff _ _).2 hm
      unfold rtOf; rw [this]

end XlModel.Store
