/-
C12: the disk-accounting invariant and its preservation.
-/
import XlModel.Lemmas.Store

namespace XlModel.Store
open XlModel AMap

/-- every file on disk is referenced by exactly one tempFiles entry; ids are fresh -/
structure Core (t : Map Nat) (d : Disk) (next : Nat) : Prop where
  tk : (keys t).Nodup
  dk : (keys d).Nodup
  perm : List.Perm (keys d) (vals t)
  fresh : ∀ id ∈ keys d, id < next

theorem Core.empty : Core [] [] 0 :=
  ⟨List.nodup_nil, List.nodup_nil, List.Perm.nil, by intro id h; cases h⟩

theorem Core.vals_nodup {t d n} (c : Core t d n) : (vals t).Nodup := (List.Perm.nodup_iff c.perm).1 c.dk

theorem Core.on_disk {t : Map Nat} {d : Disk} {nx} (c : Core t d nx) {n : String} {id : Nat} (h : load t n = some id) :
    id ∈ keys d := (List.Perm.mem_iff c.perm).2 (mem_vals_of_load h)

theorem Core.ref_lt {t : Map Nat} {d : Disk} {nx} (c : Core t d nx) {n : String} {id : Nat} (h : load t n = some id) :
    id < nx := c.fresh id (c.on_disk h)

/-- creating a fresh file for an unbound name -/
theorem Core.add {t : Map Nat} {d : Disk} {nx} (c : Core t d nx) (n : String) (b : Blob) (h : load t n = none) :
    Core (store t n nx) (store d nx b) (nx + 1) := by
  have hd : nx ∉ keys d := fun hm => Nat.lt_irrefl _ (c.fresh nx hm)
  have e1 : erase t n = t := erase_of_load_none t n h
  have e2 : erase d nx = d := erase_of_not_mem d nx hd
  refine ⟨?_, ?_, ?_, ?_⟩
  · exact nodup_keys_store n nx c.tk
  · exact nodup_keys_store nx b c.dk
  · simp only [store, e1, e2, keys, vals, List.map_cons]
    exact List.Perm.cons _ c.perm
  · intro id hm
    simp only [store, e2, keys, List.map_cons, List.mem_cons] at hm
    rcases hm with rfl | hm
    · exact Nat.lt_succ_self _
    · exact Nat.lt_succ_of_lt (c.fresh id hm)

/-- removing the file of a bound name together with its binding -/
theorem Core.remove {t : Map Nat} {d : Disk} {nx} (c : Core t d nx) {n : String} {id : Nat} (h : load t n = some id) :
    Core (erase t n) (erase d id) nx := by
  have hm : id ∈ keys d := c.on_disk h
  obtain ⟨b, hb⟩ : ∃ b, load d id = some b := by
    cases hl : load d id with
    | none => exact absurd hm ((load_eq_none_iff d id).1 hl)
    | some b => exact ⟨b, rfl⟩
  refine ⟨nodup_keys_erase n c.tk, nodup_keys_erase id c.dk, ?_, ?_⟩
  · have p1 := keys_perm_erase c.dk hb
    have p2 := vals_perm_erase c.tk h
    exact List.Perm.cons_inv ((p1.symm.trans c.perm).trans p2)
  · intro i hi
    exact c.fresh i (((erase_sublist d id).map _).subset hi)

/-- reading through a binding: other names are not affected by adding a fresh file -/
theorem Core.load_disk_add {t : Map Nat} {d : Disk} {nx} (c : Core t d nx) {n' : String} {id : Nat} (b : Blob)
    (h : load t n' = some id) : load (store d nx b) id = load d id :=
  load_store_ne d b (Nat.ne_of_lt (c.ref_lt h))

/-- other names are not affected by removing the file of `n` -/
theorem Core.load_disk_remove {t : Map Nat} {d : Disk} {nx} (c : Core t d nx) {n n' : String} {id id' : Nat}
    (h : load t n = some id) (h' : load t n' = some id') (hne : n' ≠ n) : load (erase d id) id' = load d id' := by
  apply load_erase_ne
  intro e
  subst e
  exact hne (load_inj c.tk c.vals_nodup h' h)

def sstKey : String := Facts.C12.sstTempKey
def sstPath : String := Facts.C12.sstPath

structure Inv (st : St) : Prop where
  core : Core st.temp st.disk st.next
  sst1 : ∀ id, st.sstTemp = some id → load st.temp sstKey = some id ∨ (load st.temp sstKey = none ∧ id ∉ keys st.disk)
  sst0 : st.sstTemp = none → load st.temp sstKey = none

theorem Inv.init : Inv {} := by
  refine ⟨Core.empty, ?_, ?_⟩
  · intro id h; simp at h
  · intro _; rfl

/-- erasing a binding / a file keeps the weak link between sharedStringTemp and its tempFiles entry -/
theorem sst1_erase {t : Map Nat} {d : Disk} {j : Nat} (n : String) (id : Nat)
    (h : load t sstKey = some j ∨ (load t sstKey = none ∧ j ∉ keys d)) (hn : n ≠ sstKey) :
    load (erase t n) sstKey = some j ∨ (load (erase t n) sstKey = none ∧ j ∉ keys (erase d id)) := by
  have hs : sstKey ≠ n := fun e => hn e.symm
  rcases h with h | ⟨h1, h2⟩
  · left; rw [load_erase_ne _ hs]; exact h
  · right
    refine ⟨by rw [load_erase_ne _ hs]; exact h1, fun hm => h2 (((erase_sublist d id).map _).subset hm)⟩

/-- a step that only touches Pkg / flags keeps the invariant -/
theorem Inv.frame {st st' : St} (i : Inv st) (h1 : st'.temp = st.temp) (h2 : st'.disk = st.disk)
    (h3 : st'.next = st.next) (h4 : st'.sstTemp = st.sstTemp) : Inv st' := by
  constructor
  · rw [h1, h2, h3]; exact i.core
  · rw [h1, h2, h4]; exact i.sst1
  · rw [h1, h4]; exact i.sst0

/-! ### Close -/

theorem closeLoop_clean : ∀ (t : Map Nat) (d : Disk), (keys d).Nodup → List.Perm (keys d) (vals t) →
    closeLoop t d = ([], false)
  | [], d, _, hp => by
    have : keys d = [] := List.Perm.eq_nil (by simpa [vals] using hp)
    cases d with
    | nil => rfl
    | cons p d => simp [keys] at this
  | (n, id) :: r, d, hn, hp => by
    have hm : id ∈ keys d := (List.Perm.mem_iff hp).2 (by simp [vals])
    have hh : has d id = true := (has_iff d id).2 hm
    obtain ⟨b, hb⟩ : ∃ b, load d id = some b := by
      cases hl : load d id with
      | none => exact absurd hm ((load_eq_none_iff d id).1 hl)
      | some b => exact ⟨b, rfl⟩
    have p1 := keys_perm_erase hn hb
    have hp' : List.Perm (keys (erase d id)) (vals r) := by
      have : List.Perm (id :: keys (erase d id)) (id :: vals r) := p1.symm.trans (by simpa [vals] using hp)
      exact List.Perm.cons_inv this
    simp only [closeLoop, hh, if_true]
    exact closeLoop_clean r (erase d id) (nodup_keys_erase id hn) hp'

theorem close_clean {st : St} (i : Inv st) : (close st).1.disk = [] ∧ (close st).2 = false := by
  have hf : Facts.C12.closeRemovesTemp = true := by decide
  have := closeLoop_clean st.temp st.disk i.core.dk i.core.perm
  simp [close, hf, this]

end XlModel.Store
