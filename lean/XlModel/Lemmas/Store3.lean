/-
C12: every modelled step preserves the disk-accounting invariant.
-/
import XlModel.Lemmas.Store2

namespace XlModel.Store
open XlModel AMap

theorem sstKey_ne_sstPath : sstKey ≠ Facts.C12.sstPath := by decide
theorem isSST_sstKey : isSST sstKey = false := by decide
theorem isSheet_sstKey : isSheet sstKey = false := by decide

/-! ### steps that only touch Pkg -/

theorem readBytes_frame (st : St) (n : String) :
    (readBytes st n).1.temp = st.temp ∧ (readBytes st n).1.disk = st.disk ∧
    (readBytes st n).1.next = st.next ∧ (readBytes st n).1.sstTemp = st.sstTemp := by
  unfold readBytes
  dsimp only
  split
  · exact ⟨rfl, rfl, rfl, rfl⟩
  · split
    · split <;> exact ⟨rfl, rfl, rfl, rfl⟩
    · split
      · exact ⟨rfl, rfl, rfl, rfl⟩
      · split <;> exact ⟨rfl, rfl, rfl, rfl⟩

theorem readBytes_inv {st : St} (i : Inv st) (n : String) : Inv (readBytes st n).1 :=
  let f := readBytes_frame st n
  i.frame f.1 f.2.1 f.2.2.1 f.2.2.2

/-! ### shared strings -/

theorem sstLoad2_inv {st : St} (i : Inv st) : Inv (sstLoad2 st) := by
  unfold sstLoad2
  cases h : st.sstTemp with
  | none => simpa [h] using i
  | some id =>
    refine ⟨?_, ?_, ?_⟩
    · rcases i.sst1 id h with hl | ⟨hn, hd⟩
      · exact i.core.remove hl
      · show Core (erase st.temp Facts.C12.sstTempKey) (erase st.disk id) st.next
        have e1 : erase st.temp Facts.C12.sstTempKey = st.temp := erase_of_load_none _ _ hn
        rw [e1, erase_of_not_mem _ _ hd]; exact i.core
    · intro j hj; cases hj
    · intro _; exact load_erase_self st.temp _

theorem sstLoad_inv {st : St} (i : Inv st) : Inv (sstLoad st) := by
  unfold sstLoad
  cases h : load st.temp Facts.C12.sstPath with
  | none => simpa [h] using sstLoad2_inv i
  | some id =>
    have f := readBytes_frame st Facts.C12.sstPath
    have hd : has st.disk id = true := (has_iff _ _).2 (i.core.on_disk h)
    simp only []
    rw [f.2.1, hd]
    simp only [if_true]
    apply sstLoad2_inv
    refine ⟨?_, ?_, ?_⟩
    · show Core (erase (readBytes st Facts.C12.sstPath).1.temp Facts.C12.sstPath) (erase st.disk id) (readBytes st Facts.C12.sstPath).1.next
      rw [f.1, f.2.2.1]
      exact i.core.remove h
    · intro j hj
      have hj' : (readBytes st Facts.C12.sstPath).1.sstTemp = some j := hj
      rw [f.2.2.2] at hj'
      show load (erase (readBytes st Facts.C12.sstPath).1.temp Facts.C12.sstPath) sstKey = some j ∨
        (load (erase (readBytes st Facts.C12.sstPath).1.temp Facts.C12.sstPath) sstKey = none ∧ j ∉ keys (erase st.disk id))
      rw [f.1]
      exact sst1_erase Facts.C12.sstPath id (i.sst1 j hj') (fun e => sstKey_ne_sstPath e.symm)
    · intro hj
      have hj' : (readBytes st Facts.C12.sstPath).1.sstTemp = none := hj
      rw [f.2.2.2] at hj'
      show load (erase (readBytes st Facts.C12.sstPath).1.temp Facts.C12.sstPath) sstKey = none
      rw [f.1, load_erase_ne _ sstKey_ne_sstPath]
      exact i.sst0 hj'

theorem sstItem_inv {st : St} (i : Inv st) (flat : Blob) : Inv (sstItem st flat) := by
  unfold sstItem
  split
  · cases h : st.sstTemp with
    | some id => simpa [h] using i
    | none =>
      simp only []
      refine ⟨i.core.add _ flat (i.sst0 h), ?_, ?_⟩
      · intro j hj
        cases hj
        exact Or.inl (load_store_self _ _ _)
      · intro hj; cases hj
  · exact i

/-! ### save -/

theorem saveCall_inv {st : St} (i : Inv st) (w : Map Blob) (s : Blob) (c : String) : Inv (saveCall w s st c) := by
  unfold saveCall
  split
  · exact i.frame rfl rfl rfl rfl
  · split
    · exact sstLoad_inv i
    · split
      · split
        · exact i.frame rfl rfl rfl rfl
        · exact i
      · exact i

theorem foldl_saveCall_inv (w : Map Blob) (s : Blob) : ∀ (cs : List String) {st : St}, Inv st →
    Inv (cs.foldl (saveCall w s) st)
  | [], _, i => i
  | c :: cs, _, i => foldl_saveCall_inv w s cs (saveCall_inv i w s c)

theorem zipTemp_inv : ∀ (ns : List String) {st : St}, Inv st → Inv (zipTemp st ns).1
  | [], _, i => i
  | n :: ns, st, i => by
    unfold zipTemp
    simp only []
    split
    · exact zipTemp_inv ns (readBytes_inv i n)
    · exact zipTemp_inv ns i

theorem save_inv {st : St} (i : Inv st) (w : Map Blob) (s : Blob) (o : Map Blob) : Inv (save st w s o).1 := by
  unfold save
  simp only []
  apply zipTemp_inv
  apply foldl_saveCall_inv
  exact i.frame rfl rfl rfl rfl

/-- sheet.go DeleteSheet (repaired): the tempFiles entry of a spilled worksheet is deleted together with its file -/
theorem forget_inv {st : St} (i : Inv st) (n rels : String) : Inv (forget st n rels) := by
  have h1 : Facts.C12.deleteSheetDropsTemp = true := by decide
  have h2 : Facts.C12.deleteSheetRemovesFile = true := by decide
  unfold forget
  simp only [h1, h2, if_true]
  cases ht : load st.temp n with
  | none => exact i.frame rfl rfl rfl rfl
  | some id =>
    simp only []
    refine ⟨i.core.remove ht, ?_, ?_⟩
    · intro j hj
      have hj' : st.sstTemp = some j := hj
      show load (erase st.temp n) sstKey = some j ∨ (load (erase st.temp n) sstKey = none ∧ j ∉ keys (erase st.disk id))
      by_cases e : n = sstKey
      · subst e
        rcases i.sst1 j hj' with hl | ⟨hn, _⟩
        · have : id = j := by rw [ht] at hl; exact Option.some.inj hl
          subst this
          exact Or.inr ⟨load_erase_self _ _, not_mem_keys_erase _ _⟩
        · rw [ht] at hn; cases hn
      · exact sst1_erase n id (i.sst1 j hj') e
    · intro hj
      have hj' : st.sstTemp = none := hj
      show load (erase st.temp n) sstKey = none
      by_cases e : sstKey = n
      · subst e; exact load_erase_self _ _
      · rw [load_erase_ne _ e]; exact i.sst0 hj'

theorem step_inv {st : St} (i : Inv st) (op : Op) : Inv (step st op).1 := by
  cases op with
  | readBytes n => exact readBytes_inv i n
  | wsRead n =>
    have f := readBytes_frame st n
    exact i.frame f.1 f.2.1 f.2.2.1 f.2.2.2
  | flush n ser =>
    simp only [step]
    split
    · exact i.frame rfl rfl rfl rfl
    · exact i
  | stream n => exact i
  | sstRead => exact i.frame rfl rfl rfl rfl
  | sstItem flat => exact sstItem_inv i flat
  | sstLoad => exact sstLoad_inv i
  | sstSet => exact (sstLoad_inv i).frame rfl rfl rfl rfl
  | save w s o => exact save_inv i w s o
  | forget n rels => exact forget_inv i n rels

theorem run_inv : ∀ (ops : List Op) {st : St}, Inv st → Inv (run st ops).1
  | [], _, i => i
  | op :: r, st, i => by
    unfold run
    simp only []
    exact run_inv r (step_inv i op)

end XlModel.Store
