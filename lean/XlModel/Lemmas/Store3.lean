/-
C12: every modelled step preserves the disk-accounting invariant.
-/
import XlModel.Lemmas.Store2

namespace XlModel.Store
open XlModel AMap

theorem sstKey_ne_sstPath : sstKey ≠ Facts.C12.sstPath := by decide
theorem isSST_sstKey : isSST sstKey = false := by decide
theorem isSheet_sstKey : isSheet sstKey = false := by decide

/-! ### steps that only touch Pkg -/

theorem readBytes_frame (st : St) (n : String) :
    (readBytes st n).1.temp = st.temp ∧ (readBytes st n).1.disk = st.disk ∧
    (readBytes st n).1.next = st.next ∧ (readBytes st n).1.sstTemp = st.sstTemp := by
  unfold readBytes
  dsimp only
  split
  · exact ⟨rfl, rfl, rfl, rfl⟩
  · split
    · split <;> exact ⟨rfl, rfl, rfl, rfl⟩
    · split
      · exact ⟨rfl, rfl, rfl, rfl⟩
      · split <;> exact ⟨rfl, rfl, rfl, rfl⟩

theorem readBytes_inv {st : St} (i : Inv st) (n : String) : Inv (readBytes st n).1 :=
  let f := readBytes_frame st n
  i.frame f.1 f.2.1 f.2.2.1 f.2.2.2

/-! ### shared strings -/

theorem sstLoad2_inv {st : St} (i : Inv st) : Inv (sstLoad2 st) := by
  unfold sstLoad2
  cases h : st.sstTemp with
  | none => simpa [h] using i
  | some id =>
    have hl := i.sst1 id h
    refine ⟨i.core.remove hl, ?_, ?_⟩
    · intro j hj; cases hj
    · intro _; exact load_erase_self st.temp _

theorem sstLoad_inv {st : St} (i : Inv st) : Inv (sstLoad st) := by
  unfold sstLoad
  cases h : load st.temp Facts.C12.sstPath with
  | none => simpa [h] using sstLoad2_inv i
  | some id =>
    have f := readBytes_frame st Facts.C12.sstPath
    have hd : has st.disk id = true := (has_iff _ _).2 (i.core.on_disk h)
    simp only []
    rw [f.2.1, hd]
    simp only [if_true]
    apply sstLoad2_inv
    refine ⟨?_, ?_, ?_⟩
    · show Core (erase (readBytes st Facts.C12.sstPath).1.temp Facts.C12.sstPath) (erase st.disk id) (readBytes st Facts.C12.sstPath).1.next
      rw [f.1, f.2.2.1]
      exact i.core.remove h
    · intro j hj
      have hj' : (readBytes st Facts.C12.sstPath).1.sstTemp = some j := hj
      rw [f.2.2.2] at hj'
      show load (erase (readBytes st Facts.C12.sstPath).1.temp Facts.C12.sstPath) sstKey = some j
      rw [f.1, load_erase_ne _ sstKey_ne_sstPath]
      exact i.sst1 j hj'
    · intro hj
      have hj' : (readBytes st Facts.C12.sstPath).1.sstTemp = none := hj
      rw [f.2.2.2] at hj'
      show load (erase (readBytes st Facts.C12.sstPath).1.temp Facts.C12.sstPath) sstKey = none
      rw [f.1, load_erase_ne _ sstKey_ne_sstPath]
      exact i.sst0 hj'

theorem sstItem_inv {st : St} (i : Inv st) (flat : Blob) : Inv (sstItem st flat) := by
  unfold sstItem
  split
  · cases h : st.sstTemp with
    | some id => simpa [h] using i
    | none =>
      simp only []
      refine ⟨i.core.add _ flat (i.sst0 h), ?_, ?_⟩
      · intro j hj
        cases hj
        exact load_store_self _ _ _
      · intro hj; cases hj
  · exact i

/-! ### save -/

theorem saveCall_inv {st : St} (i : Inv st) (w : Map Blob) (s : Blob) (c : String) : Inv (saveCall w s st c) := by
  unfold saveCall
  split
  · exact i.frame rfl rfl rfl rfl
  · split
    · exact sstLoad_inv i
    · split
      · split
        · exact i.frame rfl rfl rfl rfl
        · exact i
      · exact i

theorem foldl_saveCall_inv (w : Map Blob) (s : Blob) : ∀ (cs : List String) {st : St}, Inv st →
    Inv (cs.foldl (saveCall w s) st)
  | [], _, i => i
  | c :: cs, _, i => foldl_saveCall_inv w s cs (saveCall_inv i w s c)

theorem zipTemp_inv : ∀ (ns : List String) {st : St}, Inv st → Inv (zipTemp st ns).1
  | [], _, i => i
  | n :: ns, st, i => by
    unfold zipTemp
    simp only []
    split
    · exact zipTemp_inv ns (readBytes_inv i n)
    · exact zipTemp_inv ns i

theorem save_inv {st : St} (i : Inv st) (w : Map Blob) (s : Blob) (o : Map Blob) : Inv (save st w s o).1 := by
  unfold save
  simp only []
  apply zipTemp_inv
  apply foldl_saveCall_inv
  exact i.frame rfl rfl rfl rfl

theorem step_inv {st : St} (i : Inv st) (op : Op) : Inv (step st op).1 := by
  cases op with
  | readBytes n => exact readBytes_inv i n
  | wsRead n =>
    have f := readBytes_frame st n
    exact i.frame f.1 f.2.1 f.2.2.1 f.2.2.2
  | flush n ser =>
    simp only [step]
    split
    · exact i.frame rfl rfl rfl rfl
    · exact i
  | stream n => exact i
  | sstRead => exact i.frame rfl rfl rfl rfl
  | sstItem flat => exact sstItem_inv i flat
  | sstLoad => exact sstLoad_inv i
  | sstSet => exact (sstLoad_inv i).frame rfl rfl rfl rfl
  | save w s o => exact save_inv i w s o
  | forget n rels =>
    have h : Facts.C12.deleteSheetDropsTemp = false := by decide
    show Inv (forget st n rels)
    unfold forget
    simp only [h, Bool.false_eq_true, if_false]
    exact i.frame rfl rfl rfl rfl

theorem run_inv : ∀ (ops : List Op) {st : St}, Inv st → Inv (run st ops).1
  | [], _, i => i
  | op :: r, st, i => by
    unfold run
    simp only []
    exact run_inv r (step_inv i op)

end XlModel.Store
