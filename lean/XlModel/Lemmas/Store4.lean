/-
C12: ReadZipReader / OpenReader — invariant after open, size-limit verdict.
-/
import XlModel.Lemmas.Store3

namespace XlModel.Store
open XlModel AMap

structure Inv0 (st : St) : Prop where
  inv : Inv st
  nosst : st.sstTemp = none

theorem isSheet_of_isSST {n : String} (h : isSST n = true) : isSheet n = false := by
  unfold isSST at h
  have h' := of_decide_eq_true h
  unfold isSheet
  rw [h']
  decide

theorem ne_sstKey_of_isSST {n : String} (h : isSST n = true) : n ≠ sstKey := by
  intro e; subst e; rw [isSST_sstKey] at h; cases h

theorem ne_sstKey_of_isSheet {n : String} (h : isSheet n = true) : n ≠ sstKey := by
  intro e; subst e; rw [isSheet_sstKey] at h; cases h

theorem dropPart_inv0 {st : St} (i : Inv0 st) (n : String) :
    Inv0 (dropPart st n) ∧ load (dropPart st n).temp n = none := by
  unfold dropPart
  cases h : load st.temp n with
  | none =>
    simp only []
    exact ⟨⟨i.inv.frame rfl rfl rfl rfl, i.nosst⟩, h⟩
  | some id =>
    simp only []
    refine ⟨⟨⟨i.inv.core.remove h, ?_, ?_⟩, i.nosst⟩, load_erase_self _ _⟩
    · intro j hj
      have : st.sstTemp = some j := hj
      rw [i.nosst] at this; cases this
    · intro _
      by_cases e : sstKey = n
      · subst e; exact load_erase_self _ _
      · rw [load_erase_ne _ e]; exact i.inv.sst0 i.nosst

theorem spillOne_inv0 {st : St} (i : Inv0 st) {n : String} (e : Entry) (h : load st.temp n = none) (hn : n ≠ sstKey) :
    Inv0 (spillOne st n e).1 := by
  unfold spillOne unzipToTemp
  simp only []
  refine ⟨⟨i.inv.core.add n _ h, ?_, ?_⟩, i.nosst⟩
  · intro j hj
    have : st.sstTemp = some j := hj
    rw [i.nosst] at this; cases this
  · intro _
    show load (store st.temp n st.next) sstKey = none
    rw [load_store_ne _ _ (fun e => hn e.symm)]
    exact i.inv.sst0 i.nosst

theorem sheetStep_inv0 {st : St} (i : Inv0 st) (l : Limits) {n : String} (e : Entry) (h : load st.temp n = none) :
    Inv0 (sheetStep l st n e).1 := by
  unfold sheetStep
  split
  · rename_i hs
    split
    · exact spillOne_inv0 i e h (ne_sstKey_of_isSheet hs)
    · exact i
  · exact i

theorem spillStep_inv0 {st : St} (i : Inv0 st) (l : Limits) {n : String} (e : Entry) (h : load st.temp n = none) :
    Inv0 (spillStep l st n e).1 := by
  unfold spillStep
  split
  · rename_i hg
    have hs : isSST n = true := by
      unfold sstGuard at hg
      simp only [Bool.and_eq_true] at hg
      exact hg.1.1
    have i1 := spillOne_inv0 i e h (ne_sstKey_of_isSST hs)
    simp only []
    split
    · exact i1
    · unfold sheetStep
      rw [isSheet_of_isSST hs]
      simpa using i1
  · exact sheetStep_inv0 i l e h

theorem readFileInto_inv0 {st st2 : St} (i : Inv0 st) {n : String} {e : Entry} (h : readFileInto st n e = .inl (some st2)) :
    Inv0 st2 := by
  unfold readFileInto at h
  split at h
  · cases h
  · split at h
    · cases h
    · injection h with h; injection h with h
      subst h
      exact ⟨i.inv.frame rfl rfl rfl rfl, i.nosst⟩

theorem readZip_inv0 (l : Limits) : ∀ (es : List Entry) (st : St) (t : Int) (ws : Nat), Inv0 st →
    Inv0 (readZip l st t ws es).st
  | [], st, t, ws, i => by simpa [readZip, ZRes.st] using i
  | e :: rest, st, t, ws, i => by
    have hf : Facts.C12.dupReplaces = true := by decide
    unfold readZip
    simp only [hf, if_true]
    split
    · simpa [ZRes.st] using i
    · have d := dropPart_inv0 i (normName e.name)
      have s := spillStep_inv0 d.1 l e d.2
      split
      · exact readZip_inv0 l rest _ _ _ s
      · split
        · simpa [ZRes.st] using s
        · simpa [ZRes.st] using s
        · rename_i st2 h2
          exact readZip_inv0 l rest _ _ _ (readFileInto_inv0 s h2)

theorem Inv0.init : Inv0 {} := ⟨Inv.init, rfl⟩

/-! ### the size-limit verdict -/

def declSum : List Entry → Int
  | [] => 0
  | e :: r => e.declared + declSum r

/-- the repaired size guard in exact arithmetic: a negative entry size (declared size >= 2^63) or a
running total above the limit -/
theorem sizeGuard_eq (l : Limits) (t : Int) (e : Entry) :
    sizeGuard l t e = decide (e.declared < 0 ∨ t + e.declared > l.size) := by
  have h1 : Facts.C12.sizeGuardOp = ">" := by decide
  have h2 : Facts.C12.sizeGuardRejectsNegative = true := by decide
  unfold sizeGuard
  rw [h2]
  simp only [cmpOp, h1, if_true, Bool.true_and]
  by_cases a : e.declared < 0 <;> by_cases b : t + e.declared > l.size <;> simp [a, b]

/-- for int64-valued sizes and limits, the wrapped test of the code (`unzipSize < 0 || unzipSize >
limit` on the 64-bit sum) is the exact test `total > limit` -/
theorem guard_wrap_exact (t d size : Int) (ht0 : 0 ≤ t) (ht : t < 9223372036854775808) (hd0 : 0 ≤ d)
    (hd : d < 9223372036854775808) (hs : size < 9223372036854775808) :
    (wrap64 (t + d) < 0 ∨ wrap64 (t + d) > size) ↔ t + d > size := by
  unfold wrap64
  simp only []
  have hm : (t + d) % 18446744073709551616 = t + d := Int.emod_eq_of_lt (by omega) (by omega)
  rw [hm]
  split <;> omega

theorem readZip_cons (l : Limits) (e : Entry) (rest : List Entry) (st : St) (t : Int) (ws : Nat) :
    readZip l st t ws (e :: rest) =
      if sizeGuard l t e then .sizeErr st else
      if (spillStep l (if Facts.C12.dupReplaces then dropPart st (normName e.name) else st) (normName e.name) e).2 then
        readZip l (spillStep l (if Facts.C12.dupReplaces then dropPart st (normName e.name) else st) (normName e.name) e).1
          (t + e.declared) (if isSheet (normName e.name) then ws + 1 else ws) rest
      else
        match readFileInto (spillStep l (if Facts.C12.dupReplaces then dropPart st (normName e.name) else st) (normName e.name) e).1 (normName e.name) e with
        | .inl none => .readErr (spillStep l (if Facts.C12.dupReplaces then dropPart st (normName e.name) else st) (normName e.name) e).1
        | .inr () => .panic (spillStep l (if Facts.C12.dupReplaces then dropPart st (normName e.name) else st) (normName e.name) e).1
        | .inl (some st2) => readZip l st2 (t + e.declared) (if isSheet (normName e.name) then ws + 1 else ws) rest := by
  rw [readZip]
  rfl

/-- state after one fully processed entry -/
def contSt (l : Limits) (st : St) (e : Entry) : St :=
  if (spillStep l (if Facts.C12.dupReplaces then dropPart st (normName e.name) else st) (normName e.name) e).2 then
    (spillStep l (if Facts.C12.dupReplaces then dropPart st (normName e.name) else st) (normName e.name) e).1
  else
    { (spillStep l (if Facts.C12.dupReplaces then dropPart st (normName e.name) else st) (normName e.name) e).1 with
      pkg := (spillStep l (if Facts.C12.dupReplaces then dropPart st (normName e.name) else st) (normName e.name) e).1.pkg.store (normName e.name) e.content,
      inflated := e.name :: (spillStep l (if Facts.C12.dupReplaces then dropPart st (normName e.name) else st) (normName e.name) e).1.inflated }

def contWs (ws : Nat) (e : Entry) : Nat := if isSheet (normName e.name) then ws + 1 else ws

theorem readFileInto_ok (s : St) (n : String) (e : Entry) (hio : e.io ≠ .open) (hnn : 0 ≤ e.declared) :
    readFileInto s n e = .inl (some { s with pkg := s.pkg.store n e.content, inflated := e.name :: s.inflated }) := by
  unfold readFileInto
  cases hio' : e.io with
  | «open» => exact absurd hio' hio
  | none => simp [Int.not_lt.2 hnn]
  | copy => simp [Int.not_lt.2 hnn]

/-- when the size guard passes and the entry can be read, the loop continues with the same
running total on the rest of the entries -/
theorem readZip_cons_continue (l : Limits) (e : Entry) (rest : List Entry) (st : St) (t : Int) (ws : Nat)
    (hg : ¬ (t + e.declared > l.size)) (hio : e.io ≠ .open) (hnn : 0 ≤ e.declared) :
    readZip l st t ws (e :: rest) = readZip l (contSt l st e) (t + e.declared) (contWs ws e) rest := by
  have hge : sizeGuard l t e = false := by
    rw [sizeGuard_eq]; exact decide_eq_false (by rintro (h | h); exact absurd hnn (Int.not_le.2 h); exact hg h)
  rw [readZip_cons, if_neg (by rw [hge]; exact Bool.false_ne_true)]
  unfold contSt contWs
  by_cases h : (spillStep l (if Facts.C12.dupReplaces then dropPart st (normName e.name) else st) (normName e.name) e).2 = true
  · rw [if_pos h, if_pos h]
  · rw [if_neg h, if_neg h, readFileInto_ok _ _ _ hio hnn]

theorem readZip_verdict (l : Limits) : ∀ (es : List Entry) (st : St) (t : Int) (ws : Nat),
    (∀ e ∈ es, e.io ≠ .open) → (∀ e ∈ es, 0 ≤ e.declared) →
    ((∃ s, readZip l st t ws es = .sizeErr s) ↔ ∃ k, 1 ≤ k ∧ k ≤ es.length ∧ t + declSum (es.take k) > l.size) ∧
    ((∃ s w, readZip l st t ws es = .ok s w) ∨ (∃ s, readZip l st t ws es = .sizeErr s))
  | [], st, t, ws, _, _ => by
    constructor
    · constructor
      · rintro ⟨s, h⟩; simp [readZip] at h
      · rintro ⟨k, h1, h2, _⟩; simp at h2; omega
    · left; exact ⟨st, ws, by simp [readZip]⟩
  | e :: rest, st, t, ws, hio, hnn => by
    by_cases hg : t + e.declared > l.size
    · have hr : readZip l st t ws (e :: rest) = .sizeErr st := by
        have hge : sizeGuard l t e = true := by
          rw [sizeGuard_eq]; exact decide_eq_true (Or.inr hg)
        rw [readZip_cons, if_pos hge]
      constructor
      · constructor
        · intro _; exact ⟨1, Nat.le_refl _, by simp, by simpa [declSum] using hg⟩
        · intro _; exact ⟨st, hr⟩
      · right; exact ⟨st, hr⟩
    · have hc := readZip_cons_continue l e rest st t ws hg (hio e (by simp)) (hnn e (by simp))
      have ih := readZip_verdict l rest (contSt l st e) (t + e.declared) (contWs ws e) (fun x hx => hio x (by simp [hx])) (fun x hx => hnn x (by simp [hx]))
      rw [hc]
      refine ⟨?_, ih.2⟩
      rw [ih.1]
      constructor
      · rintro ⟨k, h1, h2, h3⟩
        refine ⟨k + 1, by omega, by simp; omega, ?_⟩
        simp only [List.take_succ_cons, declSum]
        omega
      · rintro ⟨k, h1, h2, h3⟩
        cases k with
        | zero => omega
        | succ k =>
          simp only [List.take_succ_cons, declSum] at h3
          cases k with
          | zero => simp [declSum] at h3; omega
          | succ k =>
            refine ⟨k + 1, by omega, by simp at h2; omega, ?_⟩
            omega

end XlModel.Store
