/-
C12: after a successful open the store, read through `readBytes`, is the plain
map of the package entries — for every limit setting.
-/
import XlModel.Lemmas.Store4

namespace XlModel.Store
open XlModel AMap

def rtOf (t : Map Nat) (d : Disk) (n : String) : Option Blob :=
  match load t n with
  | none => none
  | some id => load d id

theorem readTemp_eq (st : St) (n : String) : readTemp st n = rtOf st.temp st.disk n := rfl

def absOf (p t : Option Blob) : Option Blob :=
  match p with
  | some b => if b.len = 0 then some (t.getD b) else some b
  | none => t

theorem absAt_eq (st : St) (n : String) : absAt st n = absOf (load st.pkg n) (rtOf st.temp st.disk n) := by
  unfold absAt absOf
  rw [readTemp_eq]
  cases load st.pkg n with
  | none => rfl
  | some b => by_cases h : b.len = 0 <;> simp [h]

theorem absOf_some_same (b : Blob) : absOf (some b) (some b) = some b := by
  simp [absOf]

theorem absOf_some_none (b : Blob) : absOf (some b) none = some b := by
  simp [absOf]

theorem load_pkg_none_of_abs {p t : Option Blob} (h : absOf p t = none) : p = none := by
  cases p with
  | none => rfl
  | some b =>
    simp only [absOf] at h
    split at h <;> cases h

theorem rt_add {t : Map Nat} {d : Disk} {nx : Nat} (c : Core t d nx) {n : String} (b : Blob) (h : load t n = none)
    (n' : String) : rtOf (store t n nx) (store d nx b) n' = if n' = n then some b else rtOf t d n' := by
  unfold rtOf
  by_cases e : n' = n
  · subst e; simp [load_store_self]
  · rw [load_store_ne _ _ e]
    simp only [e, if_false]
    cases h' : load t n' with
    | none => rfl
    | some id => exact c.load_disk_add b h'

theorem rt_remove {t : Map Nat} {d : Disk} {nx : Nat} (c : Core t d nx) {n : String} {id : Nat} (h : load t n = some id)
    (n' : String) : rtOf (erase t n) (erase d id) n' = if n' = n then none else rtOf t d n' := by
  unfold rtOf
  by_cases e : n' = n
  · subst e; simp [load_erase_self]
  · rw [load_erase_ne _ e]
    simp only [e, if_false]
    cases h' : load t n' with
    | none => rfl
    | some id' => exact c.load_disk_remove h h' e

/-- the store read through readBytes equals the map `m` -/
def Agree (st : St) (m : Map Blob) : Prop := ∀ n, absAt st n = load m n

theorem dropPart_abs {st : St} (i : Inv0 st) (n n' : String) :
    absAt (dropPart st n) n' = if n' = n then none else absAt st n' := by
  rw [absAt_eq, absAt_eq]
  unfold dropPart
  cases h : load st.temp n with
  | none =>
    simp only []
    by_cases e : n' = n
    · subst e; simp [load_erase_self, rtOf, h, absOf]
    · simp [load_erase_ne _ e, e]
  | some id =>
    simp only []
    rw [rt_remove i.inv.core h]
    by_cases e : n' = n
    · subst e; simp [load_erase_self, absOf]
    · simp [load_erase_ne _ e, e]

def spillBody (e : Entry) : Blob := match e.io with | .open => emptyBlob | _ => e.content

theorem spillOne_abs {st : St} (i : Inv0 st) {n : String} (e : Entry) (ht : load st.temp n = none)
    (hp : load st.pkg n = none) (n' : String) :
    absAt (spillOne st n e).1 n' = if n' = n then some (spillBody e) else absAt st n' := by
  rw [absAt_eq, absAt_eq]
  show absOf (load st.pkg n') (rtOf (store st.temp n st.next) (store st.disk st.next (spillBody e)) n') = _
  rw [rt_add i.inv.core _ ht]
  by_cases h : n' = n
  · subst h; simp [hp, absOf]
  · simp [h]

theorem spillOne_pkg (st : St) (n : String) (e : Entry) : (spillOne st n e).1.pkg = st.pkg := rfl

theorem spillOne_flag (st : St) (n : String) (e : Entry) :
    (spillOne st n e).2 = (match e.io with | .none => true | _ => false) := by
  unfold spillOne unzipToTemp
  cases e.io <;> rfl

theorem spillStep_cases (l : Limits) (st : St) (n : String) (e : Entry) :
    spillStep l st n e = (st, false) ∨ spillStep l st n e = spillOne st n e := by
  unfold spillStep
  split
  · rename_i hg
    have hs : isSST n = true := by
      unfold sstGuard at hg
      simp only [Bool.and_eq_true] at hg
      exact hg.1.1
    simp only []
    split
    · right; rfl
    · rename_i h2
      right
      unfold sheetStep
      rw [isSheet_of_isSST hs]
      simp only [Bool.false_eq_true, if_false]
      have : (spillOne st n e).2 = false := by simpa using h2
      exact Prod.ext rfl this.symm
  · unfold sheetStep
    split
    · split
      · right; rfl
      · left; rfl
    · left; rfl

/-- storing the entry's content into Pkg when the temp tier has nothing or the same bytes for it -/
theorem store_agree {s s' : St} {m : Map Blob} {n : String} {c : Blob}
    (hpkg : s'.pkg = store s.pkg n c) (htemp : s'.temp = s.temp) (hdisk : s'.disk = s.disk)
    (hrt : rtOf s.temp s.disk n = none ∨ rtOf s.temp s.disk n = some c)
    (hothers : ∀ n', n' ≠ n → absAt s n' = load m n') : Agree s' (store m n c) := by
  intro n'
  rw [absAt_eq, hpkg, htemp, hdisk, load_store, load_store]
  by_cases hn : n' = n
  · subst hn
    simp only [if_true]
    rcases hrt with h | h <;> rw [h]
    · exact absOf_some_none c
    · exact absOf_some_same c
  · simp only [hn, if_false]
    have := hothers n' hn
    rw [absAt_eq] at this
    exact this

/-- state of the store after the drop and the spill decision of one entry -/
theorem entry_cases {l : Limits} {st : St} {m : Map Blob} (i : Inv0 st) (a : Agree st m) (e : Entry) (hio : e.io ≠ .open) :
    (spillStep l (dropPart st (normName e.name)) (normName e.name) e).2 = true ∧
      Agree (spillStep l (dropPart st (normName e.name)) (normName e.name) e).1 (store m (normName e.name) e.content)
    ∨ (spillStep l (dropPart st (normName e.name)) (normName e.name) e).2 = false ∧
      (rtOf (spillStep l (dropPart st (normName e.name)) (normName e.name) e).1.temp
            (spillStep l (dropPart st (normName e.name)) (normName e.name) e).1.disk (normName e.name) = none ∨
       rtOf (spillStep l (dropPart st (normName e.name)) (normName e.name) e).1.temp
            (spillStep l (dropPart st (normName e.name)) (normName e.name) e).1.disk (normName e.name) = some e.content) ∧
      ∀ n', n' ≠ normName e.name →
        absAt (spillStep l (dropPart st (normName e.name)) (normName e.name) e).1 n' = load m n' := by
  have d := dropPart_inv0 i (normName e.name)
  have hbody : spillBody e = e.content := by
    unfold spillBody; cases h : e.io <;> simp_all
  have hdrop : ∀ n', absAt (dropPart st (normName e.name)) n' = if n' = normName e.name then none else load m n' := by
    intro n'; rw [dropPart_abs i, a n']
  have hp0 : load (dropPart st (normName e.name)).pkg (normName e.name) = none := by
    have := hdrop (normName e.name)
    rw [absAt_eq] at this
    simp only [if_true] at this
    exact load_pkg_none_of_abs this
  have hspill : ∀ n', absAt (spillOne (dropPart st (normName e.name)) (normName e.name) e).1 n' =
      if n' = normName e.name then some e.content else load m n' := by
    intro n'
    rw [spillOne_abs d.1 e d.2 hp0, hbody, hdrop n']
    by_cases h : n' = normName e.name <;> simp [h]
  rcases spillStep_cases l (dropPart st (normName e.name)) (normName e.name) e with h | h
  · right
    rw [h]
    refine ⟨rfl, Or.inl ?_, ?_⟩
    · show rtOf (dropPart st (normName e.name)).temp (dropPart st (normName e.name)).disk (normName e.name) = none
      unfold rtOf; rw [d.2]
    · intro n' hn
      have := hdrop n'
      simpa [hn] using this
  · rw [h]
    by_cases hf : (spillOne (dropPart st (normName e.name)) (normName e.name) e).2 = true
    · left
      refine ⟨hf, ?_⟩
      intro n'
      rw [hspill n', load_store]
    · right
      refine ⟨by simpa using hf, Or.inr ?_, ?_⟩
      · have hs := hspill (normName e.name)
        rw [absAt_eq, spillOne_pkg, hp0] at hs
        simpa [absOf] using hs
      · intro n' hn
        have := hspill n'
        simpa [hn] using this

theorem readZip_agree (l : Limits) : ∀ (es : List Entry) (st : St) (t : Int) (ws : Nat) (m : Map Blob),
    Inv0 st → Agree st m → ∀ st' w, readZip l st t ws es = .ok st' w → Agree st' (Spec.parts es m)
  | [], st, t, ws, m, _, a, st', w, h => by
    simp only [readZip] at h
    injection h with h1 _
    subst h1
    exact a
  | e :: rest, st, t, ws, m, i, a, st', w, h => by
    have hf : Facts.C12.dupReplaces = true := by decide
    rw [readZip_cons] at h
    simp only [hf, if_true] at h
    split at h
    · cases h
    · have d := dropPart_inv0 i (normName e.name)
      have s := spillStep_inv0 d.1 l e d.2
      by_cases hio : e.io = .open
      · -- an entry that cannot be opened makes the open fail
        exfalso
        rcases spillStep_cases l (dropPart st (normName e.name)) (normName e.name) e with hc | hc
        · rw [hc] at h
          simp only [Bool.false_eq_true, if_false] at h
          unfold readFileInto at h
          simp [hio] at h
        · have hfl := spillOne_flag (dropPart st (normName e.name)) (normName e.name) e
          rw [hio] at hfl
          rw [hc] at h
          simp only [hfl, Bool.false_eq_true, if_false] at h
          unfold readFileInto at h
          simp [hio] at h
      · have ec := entry_cases (l := l) i a e hio
        generalize spillStep l (dropPart st (normName e.name)) (normName e.name) e = r at h s ec
        rcases ec with ⟨h2, ag⟩ | ⟨h2, hrt, hoth⟩
        · rw [if_pos h2] at h
          exact readZip_agree l rest _ _ _ _ s ag st' w h
        · rw [if_neg (by rw [h2]; exact Bool.false_ne_true)] at h
          have hnn : ¬ e.declared < 0 := by
            intro hneg
            unfold readFileInto at h
            cases hio' : e.io <;> simp_all
          have hok := readFileInto_ok r.1 (normName e.name) e hio (Int.not_lt.1 hnn)
          rw [hok] at h
          have ag2 : Agree { r.1 with pkg := r.1.pkg.store (normName e.name) e.content, inflated := e.name :: r.1.inflated }
              (store m (normName e.name) e.content) :=
            store_agree (s := r.1) rfl rfl rfl hrt hoth
          exact readZip_agree l rest _ _ _ _ (readFileInto_inv0 s hok) ag2 st' w h

theorem Agree.init : Agree {} [] := by intro n; rfl

end XlModel.Store
